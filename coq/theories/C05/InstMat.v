(* C05/InstMat.v : the circuit-level operations of C05/CircuitOps.v (Circuit.invert, __add__,
   on_qubits) for the CONCRETE dense operators: circuits of C01 gates (C01/Model.gate, well-formedness
   C01/ProofsRun.gate_wf, operator C01/Spec.gate_op / circ_op over Base/Mat.embed / cembed), over any
   commutative semiring with a conjugation.  The per-gate premises that CircuitOps.v assumes are
   PROVED here from Base/Sem*.v; the matrix monoid laws hold for well-shaped matrices only, so the
   statements are proved directly on circ_op rather than by instantiating the abstract monoid. *)
From Coq Require Import List Bool Arith Lia.
From QV Require Import Base.Mat C01.Model C01.Spec C01.Lib C01.ProofsSV C01.ProofsCtrl C01.ProofsMat
  C01.ProofsRun C01.ProofsFused C01.ProofsQueue C01.ProofsDM C01.ProofsRunDM Base.Sem Base.SemPerm.
Import ListNotations.

Section InstMat.
  Context {T : Type} (K : ops T) (cj : T -> T).
  Hypothesis HK : semiring K.
  Hypothesis HC : conj_ok K cj.
  Notation G := (gate (T:=T)).

  (* ---------------------------------------------------------------- the monoid of circuit operators *)
  Lemma circ_fold n (c : list G) : forall U, wf_mat n U ->
    fold_left (fun U g => mmul K (gate_op K n g) U) c U = mmul K (circ_op K n c) U.
  Proof.
    unfold circ_op. induction c as [|g c IH]; intros U HU; simpl.
    - symmetry. now apply (mmul_id_l K HK).
    - assert (WG : wf_mat n (gate_op K n g)) by apply gate_op_wf.
      assert (WI : wf_mat n (midentity K n)) by (rewrite midentity_tab2; apply tab2_wf).
      rewrite IH by (apply (mmul_wf K HK); auto).
      rewrite (IH (mmul K (gate_op K n g) (midentity K n))) by (apply (mmul_wf K HK); auto).
      rewrite (mmul_id_r K HK) by assumption.
      symmetry. apply (mmul_assoc K HK n); auto. apply (circ_op_wf K HK).
  Qed.

  (* Circuit.__add__ *)
  Lemma add_ok_matrices_eq n (c1 c2 : list G) :
    circ_op K n (c1 ++ c2) = mmul K (circ_op K n c2) (circ_op K n c1).
  Proof. unfold circ_op at 1. rewrite fold_left_app. apply circ_fold. apply (circ_op_wf K HK). Qed.

  Lemma circ_op_one n (g : G) : circ_op K n [g] = gate_op K n g.
  Proof. unfold circ_op. simpl. apply (mmul_id_r K HK). apply gate_op_wf. Qed.

  Lemma circ_op_cons n (g : G) c : circ_op K n (g :: c) = mmul K (circ_op K n c) (gate_op K n g).
  Proof. change (g :: c) with ([g] ++ c). now rewrite add_ok_matrices_eq, circ_op_one. Qed.

  (* ---------------------------------------------------------------- Gate.dagger / Circuit.invert *)
  Definition gate_arity (g : G) : nat :=
    let '(ctrl, cs, ts, _) := g in if ctrl then length ts else length (cs ++ ts).
  (* same controls and targets, conjugate-transposed matrix *)
  Definition dag (g : G) : G :=
    let '(ctrl, cs, ts, M) := g in (ctrl, cs, ts, madj K cj (gate_arity g) M).
  Definition invert (c : list G) : list G := rev (map dag c).
  (* the gate matrix is well shaped and an isometry *)
  Definition gate_unitary (g : G) : Prop :=
    let '(_, _, _, M) := g in
    wf_mat (gate_arity g) M /\ mmul K (madj K cj (gate_arity g) M) M = eye K (2 ^ gate_arity g).

  Lemma gate_parts n (g : G) : gate_wf n g ->
    exists cs ts M k, gate_op K n g = cembed K n cs ts M /\ gate_op K n (dag g) = cembed K n cs ts (madj K cj k M) /\
      k = length ts /\ k = gate_arity g /\ M = snd g /\
      NoDup ts /\ (forall q, In q (cs ++ ts) -> q < n) /\ (forall q, In q cs -> ~ In q ts).
  Proof.
    destruct g as [[[ctrl cs] ts] M]. intros [Hc [Ht [Hlt Hd]]]. destruct ctrl.
    - exists cs, ts, M, (length ts). simpl. repeat split; auto. intros q Hq Hq'. exact (Hd q Hq' Hq).
    - exists [], (isort cs ++ ts), M, (length (cs ++ ts)). simpl. repeat split; auto.
      + now rewrite !app_length, isort_length.
      + apply NoDup_app_intro; [apply (incr_from_NoDup 0), isort_incr; assumption|assumption|].
        intros x Hx Hx'. apply (proj1 (isort_In _ _)) in Hx. exact (Hd x Hx' Hx).
      + intros q Hq. apply Hlt. apply in_app_iff in Hq. apply in_app_iff.
        destruct Hq as [Hq|Hq]; [left; now apply (proj1 (isort_In _ _))|now right].
  Qed.

  Lemma dag_op n (g : G) : gate_wf n g -> gate_op K n (dag g) = madj K cj n (gate_op K n g).
  Proof.
    intros Hw. destruct (gate_parts n g Hw) as [cs [ts [M [k [E1 [E2 [Ek [_ [_ [_ [Hq Hd]]]]]]]]]]].
    rewrite E1, E2, Ek. apply (cembed_dagger_eq K cj (cj_zero K cj HC) (cj_one K cj HC)); assumption.
  Qed.

  Lemma dag_left_inverse n (g : G) : gate_wf n g -> gate_unitary g ->
    mmul K (gate_op K n (dag g)) (gate_op K n g) = midentity K n.
  Proof.
    intros Hw Hu. destruct (gate_parts n g Hw) as [cs [ts [M [k [E1 [E2 [Ek [Ea [EM [Hn [Hq Hd]]]]]]]]]]].
    rewrite E1, E2. destruct g as [[[ctrl cs0] ts0] M0]. simpl in EM. subst M0. unfold gate_unitary in Hu.
    rewrite <- Ea in Hu. destruct Hu as [HW HU]. subst k.
    apply (cembed_dagger_left_inverse K HK cj); assumption.
  Qed.

  Lemma invert_adjoint_eq n (c : list G) : Forall (gate_wf n) c ->
    circ_op K n (invert c) = madj K cj n (circ_op K n c).
  Proof.
    induction c as [|g c IH]; intros Hw.
    - unfold invert, circ_op. simpl. symmetry. apply (madj_identity K cj HC).
    - inversion Hw; subst. unfold invert in *. simpl. rewrite add_ok_matrices_eq, circ_op_one, IH by assumption.
      rewrite circ_op_cons, dag_op by assumption.
      symmetry. apply (madj_mmul K cj HK HC); [apply (circ_op_wf K HK)|apply gate_op_wf].
  Qed.

  Lemma circ_isometry n (c : list G) : Forall (gate_wf n) c -> Forall gate_unitary c ->
    mmul K (madj K cj n (circ_op K n c)) (circ_op K n c) = midentity K n.
  Proof.
    induction c as [|g c IH]; intros Hw Hu.
    - unfold circ_op. simpl. rewrite (madj_identity K cj HC). apply (mmul_id_l K HK).
      rewrite midentity_tab2. apply tab2_wf.
    - inversion Hw; subst. inversion Hu; subst. rewrite circ_op_cons.
      assert (WC : wf_mat n (circ_op K n c)) by apply (circ_op_wf K HK).
      assert (WG : wf_mat n (gate_op K n g)) by apply gate_op_wf.
      pose proof (madj_wf K cj n (circ_op K n c)) as WC'. pose proof (madj_wf K cj n (gate_op K n g)) as WG'.
      rewrite (madj_mmul K cj HK HC) by assumption.
      rewrite (mmul_assoc K HK n) by (auto; apply (mmul_wf K HK); auto).
      rewrite <- (mmul_assoc K HK n (madj K cj n (circ_op K n c))) by auto.
      rewrite IH by assumption. rewrite (mmul_id_l K HK) by assumption.
      rewrite <- dag_op by assumption. now apply dag_left_inverse.
  Qed.

  (* Circuit.invert: the circuit followed by its inverse is the identity *)
  Lemma invert_ok_matrices_eq n (c : list G) : Forall (gate_wf n) c -> Forall gate_unitary c ->
    circ_op K n (c ++ invert c) = midentity K n.
  Proof.
    intros Hw Hu. rewrite add_ok_matrices_eq, invert_adjoint_eq by assumption. now apply circ_isometry.
  Qed.

  (* ---------------------------------------------------------------- Circuit.on_qubits: relabelling *)
  Definition relabel_gate (f : nat -> nat) (g : G) : G :=
    let '(ctrl, cs, ts, M) := g in (ctrl, map f cs, map f ts, M).
  (* a plain gate stores its built-in controls SORTED (Gate.qubits = sorted controls ++ targets), so
     relabelling must not change their relative order; always true for controlled_by gates and for
     gates with at most one built-in control *)
  Definition relabel_safe (f : nat -> nat) (g : G) : Prop :=
    let '(ctrl, cs, _, _) := g in ctrl = true \/ isort (map f cs) = map f (isort cs).

  Lemma relabel_safe_small f (g : G) : (let '(_, cs, _, _) := g in length cs <= 1) -> relabel_safe f g.
  Proof.
    destruct g as [[[ctrl cs] ts] M]. intros H. right. destruct cs as [|a [|b cs]]; simpl in *; try reflexivity; lia.
  Qed.

  (* relabelling by an injective f whose effect on operators is a map R with the three laws below *)
  Section Relabel.
    Variables (n m : nat) (f : nat -> nat) (R : mat T -> mat T).
    Hypothesis R_cembed : forall cs ts M, NoDup ts -> (forall q, In q (cs ++ ts) -> q < m) ->
      cembed K n (map f cs) (map f ts) M = R (cembed K m cs ts M).
    Hypothesis R_mmul : forall A B, wf_mat m A -> wf_mat m B -> R (mmul K A B) = mmul K (R A) (R B).
    Hypothesis R_one : R (midentity K m) = midentity K n.

    Lemma relabel_gate_op (g : G) : gate_wf m g -> relabel_safe f g ->
      gate_op K n (relabel_gate f g) = R (gate_op K m g).
    Proof.
      destruct g as [[[ctrl cs] ts] M]. intros [Hc [Ht [Hlt Hd]]] Hs. simpl. destruct ctrl.
      - now apply R_cembed.
      - destruct Hs as [Hs|Hs]; [discriminate|]. rewrite Hs, <- map_app.
        change (embed K n (map f (isort cs ++ ts)) M) with (cembed K n (map f []) (map f (isort cs ++ ts)) M).
        rewrite R_cembed; [reflexivity| |].
        + apply NoDup_app_intro; [apply (incr_from_NoDup 0), isort_incr; assumption|assumption|].
          intros x Hx Hx'. apply (proj1 (isort_In _ _)) in Hx. exact (Hd x Hx' Hx).
        + intros q Hq. simpl in Hq. apply Hlt. apply in_app_iff in Hq. apply in_app_iff.
          destruct Hq as [Hq|Hq]; [left; now apply (proj1 (isort_In _ _))|now right].
    Qed.

    Lemma relabel_circ (c : list G) : Forall (gate_wf m) c -> Forall (relabel_safe f) c ->
      circ_op K n (map (relabel_gate f) c) = R (circ_op K m c).
    Proof.
      intros Hw Hs. unfold circ_op. rewrite <- R_one.
      assert (W : wf_mat m (midentity K m)) by (rewrite midentity_tab2; apply tab2_wf).
      revert W. generalize (midentity K m).
      induction c as [|g c IH]; intros U HU; [reflexivity|]. inversion Hw; subst. inversion Hs; subst. simpl.
      rewrite relabel_gate_op, <- R_mmul by (auto using gate_op_wf).
      apply IH; auto. apply (mmul_wf K HK); auto using gate_op_wf.
    Qed.
  End Relabel.

  (* (a) a permutation sigma = f of the n qubits, with inverse g: conjugation by the permutation matrix *)
  Lemma on_qubits_perm_eq n f g (c : list G) : perm_fn n f -> perm_fn n g -> (forall i, i < n -> f (g i) = i) ->
    Forall (gate_wf n) c -> Forall (relabel_safe f) c ->
    circ_op K n (map (relabel_gate f) c) = mmul K (pmat K n f) (mmul K (circ_op K n c) (pmat K n g)).
  Proof.
    intros Hf Hg Hinv Hw Hs.
    assert (Hinv' : forall i, i < n -> g (f i) = i).
    { intros i Hi. destruct Hf as [Hf1 Hf2]. destruct Hg as [Hg1 Hg2]. apply Hf2; auto. }
    assert (PW : forall h, wf_mat n (pmat K n h)) by (intros; apply pmat_wf).
    apply (relabel_circ n n f (fun A => mmul K (pmat K n f) (mmul K A (pmat K n g)))); auto.
    - intros cs ts M Hn Hq. now apply (cembed_relabel_eq K HK).
    - intros A B HA HB.
      (* P A B P' = P A P' P B P'  with  P' P = 1 *)
      assert (E : mmul K (pmat K n g) (pmat K n f) = midentity K n).
      { rewrite (pmat_comp K HK) by assumption. now apply pmat_id. }
      rewrite (mmul_assoc K HK n (pmat K n f) (mmul K A (pmat K n g))) by (auto; repeat apply (mmul_wf K HK); auto).
      f_equal.
      rewrite <- (mmul_assoc K HK n (mmul K A (pmat K n g))) by (auto; repeat apply (mmul_wf K HK); auto).
      rewrite (mmul_assoc K HK n A (pmat K n g) (pmat K n f)) by auto. rewrite E.
      rewrite (mmul_id_r K HK) by assumption.
      apply (mmul_assoc K HK n); auto.
    - rewrite (mmul_id_l K HK) by auto. rewrite (pmat_comp K HK) by assumption. now apply pmat_id.
  Qed.

  (* (b) a sub-circuit on m qubits placed on the duplicate-free qubit list qs (length m) of a
         larger n-qubit circuit: qubit j of the sub-circuit becomes qs[j] *)
  Lemma on_qubits_embed_eq n qs (c : list G) : NoDup qs -> (forall q, In q qs -> q < n) ->
    Forall (gate_wf (length qs)) c -> Forall (relabel_safe (fun j => nth j qs 0)) c ->
    circ_op K n (map (relabel_gate (fun j => nth j qs 0)) c) = embed K n qs (circ_op K (length qs) c).
  Proof.
    intros Hn Hq Hw Hs.
    apply (relabel_circ n (length qs) (fun j => nth j qs 0) (fun A => embed K n qs A)); auto.
    - intros cs ts M Hnt Hlt. symmetry. apply (embed_cembed K n qs cs ts M); auto.
      + intros j Hj. apply Hlt, in_app_iff. now left.
      + intros j Hj. apply Hlt, in_app_iff. now right.
    - intros A B HA HB. now apply (embed_mmul K HK).
    - rewrite <- eye_midentity. now apply embed_eye.
  Qed.

  (* the single-gate form: embedding of an embedded matrix *)
  Lemma embed_embed_eq n qs rs (M : mat T) : NoDup qs -> (forall q, In q qs -> q < n) ->
    (forall j, In j rs -> j < length qs) ->
    embed K n qs (embed K (length qs) rs M) = embed K n (map (fun j => nth j qs 0) rs) M.
  Proof.
    intros Hn Hq Hr. change (embed K (length qs) rs M) with (cembed K (length qs) [] rs M).
    rewrite (embed_cembed K n qs [] rs M); auto. intros j [].
  Qed.
End InstMat.

(* ------------------------------------------------------------------ statements *)
Theorem add_ok_matrices : forall (T : Type) (K : ops T), semiring K ->
  forall n (c1 c2 : list (gate (T:=T))),
  circ_op K n (c1 ++ c2) = mmul K (circ_op K n c2) (circ_op K n c1).
Proof. exact @add_ok_matrices_eq. Qed.
Print Assumptions add_ok_matrices.

Theorem invert_ok_matrices : forall (T : Type) (K : ops T) (cj : T -> T), semiring K -> conj_ok K cj ->
  forall n (c : list (gate (T:=T))), Forall (gate_wf n) c -> Forall (gate_unitary K cj) c ->
  circ_op K n (c ++ invert K cj c) = midentity K n.
Proof. exact @invert_ok_matrices_eq. Qed.
Print Assumptions invert_ok_matrices.

Theorem invert_adjoint_matrices : forall (T : Type) (K : ops T) (cj : T -> T), semiring K -> conj_ok K cj ->
  forall n (c : list (gate (T:=T))), Forall (gate_wf n) c ->
  circ_op K n (invert K cj c) = madj K cj n (circ_op K n c).
Proof. exact @invert_adjoint_eq. Qed.
Print Assumptions invert_adjoint_matrices.

Theorem dagger_gate_matrices : forall (T : Type) (K : ops T) (cj : T -> T), conj_ok K cj ->
  forall n (g : gate (T:=T)), gate_wf n g -> gate_op K n (dag K cj g) = madj K cj n (gate_op K n g).
Proof. intros T K cj HC. exact (dag_op K cj HC). Qed.
Print Assumptions dagger_gate_matrices.

Theorem on_qubits_ok_matrices : forall (T : Type) (K : ops T), semiring K ->
  forall n f g (c : list (gate (T:=T))), perm_fn n f -> perm_fn n g -> (forall i, i < n -> f (g i) = i) ->
  Forall (gate_wf n) c -> Forall (relabel_safe f) c ->
  circ_op K n (map (relabel_gate f) c) = mmul K (pmat K n f) (mmul K (circ_op K n c) (pmat K n g)).
Proof. exact @on_qubits_perm_eq. Qed.
Print Assumptions on_qubits_ok_matrices.

Theorem on_qubits_embed_matrices : forall (T : Type) (K : ops T), semiring K ->
  forall n qs (c : list (gate (T:=T))), NoDup qs -> (forall q, In q qs -> q < n) ->
  Forall (gate_wf (length qs)) c -> Forall (relabel_safe (fun j => nth j qs 0)) c ->
  circ_op K n (map (relabel_gate (fun j => nth j qs 0)) c) = embed K n qs (circ_op K (length qs) c).
Proof. exact @on_qubits_embed_eq. Qed.
Print Assumptions on_qubits_embed_matrices.

Theorem embed_embed : forall (T : Type) (K : ops T),
  forall n qs rs (M : mat T), NoDup qs -> (forall q, In q qs -> q < n) -> (forall j, In j rs -> j < length qs) ->
  embed K n qs (embed K (length qs) rs M) = embed K n (map (fun j => nth j qs 0) rs) M.
Proof. exact @embed_embed_eq. Qed.
Print Assumptions embed_embed.

(* ------------------------------------------------------------------ non-vacuity (Gaussian integers) *)
From Coq Require Import ZArith.
From QV Require Import Base.Zi C01.Examples.

Definition xU1 : mat Zi := [[(0, 0); (0, 1)]; [(0, 1); (0, 0)]]%Z.                 (* i X *)
Definition xU2 : mat Zi :=                                                          (* a unitary 4x4 with entries in {0, 1, i, -1} *)
  [[(0, 0); (1, 0); (0, 0); (0, 0)]; [(0, 0); (0, 0); (0, 0); (0, 1)];
   [(0, 1); (0, 0); (0, 0); (0, 0)]; [(0, 0); (0, 0); (-1, 0); (0, 0)]]%Z.
(* controlled_by gate with controls given out of order, a two-qubit gate on (2,0), a CNOT-like plain gate *)
Definition xCirc : list (gate (T:=Zi)) :=
  [(true, [3; 1], [0], xU1); (false, [], [2; 0], xU2); (false, [1], [3], xU2)].

Ltac xfin := simpl; repeat (match goal with
  | |- _ /\ _ => split
  | |- forall _, _ => intro
  | H : _ \/ _ |- _ => destruct H
  | H : False |- _ => destruct H
  | H : In _ _ |- _ => simpl in H
  | |- NoDup _ => constructor
  | |- Forall _ _ => constructor
  | |- ~ _ => intro
  end; subst; simpl in * ); try lia; try tauto.

Example ex_circ_wf : Forall (gate_wf 4) xCirc.
Proof. unfold xCirc, gate_wf. xfin. Qed.
Example ex_circ_unitary : Forall (gate_unitary Ziops zi_conj) xCirc.
Proof. unfold xCirc. repeat constructor; try (vm_compute; reflexivity). Qed.
Example ex_invert_value :
  circ_op Ziops 4 (xCirc ++ invert Ziops zi_conj xCirc) = midentity Ziops 4
  /\ circ_op Ziops 4 (invert Ziops zi_conj xCirc) = madj Ziops zi_conj 4 (circ_op Ziops 4 xCirc)
  /\ circ_op Ziops 4 xCirc <> midentity Ziops 4
  /\ circ_op Ziops 4 (xCirc ++ xCirc) = mmul Ziops (circ_op Ziops 4 xCirc) (circ_op Ziops 4 xCirc).
Proof. repeat split; try (vm_compute; reflexivity). vm_compute. discriminate. Qed.

(* relabelling by the cyclic permutation 0->1->2->3->0 *)
Definition xF (i : nat) : nat := match i with 0 => 1 | 1 => 2 | 2 => 3 | 3 => 0 | _ => i end.
Definition xG (i : nat) : nat := match i with 0 => 3 | 1 => 0 | 2 => 1 | 3 => 2 | _ => i end.
Example ex_relabel_hyps :
  perm_fn 4 xF /\ perm_fn 4 xG /\ (forall i, i < 4 -> xF (xG i) = i) /\ Forall (relabel_safe xF) xCirc.
Proof.
  unfold perm_fn. repeat split; try (intros;
    repeat (match goal with i : nat |- _ => destruct i as [|i]; simpl in *; try lia end); fail).
  unfold xCirc. repeat (apply Forall_cons; [first [left; reflexivity|right; reflexivity]|]). apply Forall_nil.
Qed.
Example ex_relabel_value :
  circ_op Ziops 4 (map (relabel_gate xF) xCirc)
  = mmul Ziops (pmat Ziops 4 xF) (mmul Ziops (circ_op Ziops 4 xCirc) (pmat Ziops 4 xG))
  /\ circ_op Ziops 4 (map (relabel_gate xF) xCirc) <> circ_op Ziops 4 xCirc.
Proof. split; [vm_compute; reflexivity|vm_compute; discriminate]. Qed.

(* a 2-qubit sub-circuit placed on qubits (3,1) of 4 *)
Definition xSub : list (gate (T:=Zi)) := [(false, [], [1; 0], xU2); (true, [0], [1], xU1); (false, [1], [0], xU2)].
Example ex_embed_hyps :
  NoDup [3; 1] /\ (forall q, In q [3; 1] -> q < 4) /\ Forall (gate_wf (length [3; 1])) xSub
  /\ Forall (relabel_safe (fun j => nth j [3; 1] 0)) xSub.
Proof.
  repeat split; try (unfold xSub, gate_wf; xfin; fail).
  all: try (unfold xSub; repeat (apply Forall_cons; [first [left; reflexivity|right; reflexivity]|]); apply Forall_nil).
Qed.
Example ex_embed_value :
  circ_op Ziops 4 (map (relabel_gate (fun j => nth j [3; 1] 0)) xSub) = embed Ziops 4 [3; 1] (circ_op Ziops 2 xSub)
  /\ circ_op Ziops 2 xSub <> midentity Ziops 2.
Proof. split; [vm_compute; reflexivity|vm_compute; discriminate]. Qed.

(* ================================================================ Gate.controlled_by on the dense operators *)
(* Base/SemCtrl.v: cembed n cs ts M = embed n (cs ++ ts) (ctrl_mat |cs| M), ctrl_mat k M = diag(1, ..., 1, M).
   Gate.controlled_by (gates/abstract.py): `if qubits: self.is_controlled_by = True; self.control_qubits = qubits`
   on a gate without controls (the class-changing overrides X -> CNOT/TOFFOLI, RZ -> CRZ, ... are the generated
   dispatch obligations of harness/c05.py; a gate that already has controls is rejected by the decorator). *)
From QV Require Import Base.SemCtrl C01.ProofsGram.

Section ControlledBy.
  Context {T : Type} (K : ops T) (cj : T -> T).
  Hypothesis HK : semiring K.
  Hypothesis HC : conj_ok K cj.
  Notation G := (gate (T:=T)).

  Definition controlled_by (qs : list nat) (g : G) : G :=
    let '(ctrl, cs, ts, M) := g in match qs with [] => g | _ => (true, qs, ts, M) end.
  (* not in controlled_by form and no built-in controls: the gates controlled_by accepts *)
  Definition uncontrolled (g : G) : Prop := let '(ctrl, cs, _, _) := g in ctrl = false /\ cs = [].

  Lemma ctrl_mat_0 (M : mat T) : ctrl_mat K 0 M = M.
  Proof. unfold ctrl_mat. simpl. apply block_diag_eye0. Qed.

  (* the operator of g.controlled_by(qs) is the block-control diag(1, ..., 1, M) of g's matrix, as a full
     matrix on qs ++ targets (also for qs = []) *)
  Lemma controlled_by_op_eq n qs ts (M : mat T) :
    NoDup qs -> (forall q, In q (qs ++ ts) -> q < n) -> (forall q, In q qs -> ~ In q ts) ->
    wf_mat (length ts) M ->
    gate_op K n (controlled_by qs (false, [], ts, M)) = embed K n (qs ++ ts) (ctrl_mat K (length qs) M).
  Proof.
    intros Hn Hq Hd HM. destruct qs as [|q0 qs'].
    - simpl. now rewrite ctrl_mat_0.
    - unfold controlled_by. cbn [gate_op]. now apply cembed_embed_ctrl.
  Qed.

  (* textbook semantics on computational basis states *)
  Lemma controlled_by_on_basis_eq n qs ts (M : mat T) c : length c = n ->
    (forall q, In q qs -> q < n) -> (forall q, In q qs -> ~ In q ts) ->
    mvmul K (gate_op K n (controlled_by qs (false, [], ts, M))) (basis K n c)
    = if all1 (sel qs c) then mvmul K (gate_op K n (false, [], ts, M)) (basis K n c) else basis K n c.
  Proof.
    intros Hc Hq Hd. destruct qs as [|q0 qs'].
    - reflexivity.
    - unfold controlled_by. cbn [gate_op isort fold_right app]. now apply (cembed_on_basis K HK).
  Qed.

  (* dagger commutes with control: as gate objects ... *)
  Lemma dag_controlled_by_eq qs (g : G) : uncontrolled g ->
    dag K cj (controlled_by qs g) = controlled_by qs (dag K cj g).
  Proof.
    destruct g as [[[ctrl cs] ts] M]. intros [-> ->]. destruct qs; reflexivity.
  Qed.

  (* ... and as operators: (g.dagger()).controlled_by(qs) has the adjoint operator of g.controlled_by(qs) *)
  Lemma controlled_by_dagger_op_eq n qs (g : G) : uncontrolled g -> gate_wf n (controlled_by qs g) ->
    gate_op K n (controlled_by qs (dag K cj g)) = madj K cj n (gate_op K n (controlled_by qs g)).
  Proof.
    intros Hu Hw. rewrite <- dag_controlled_by_eq by assumption. now apply (dag_op K cj HC).
  Qed.

  (* a controlled unitary is unitary: as a gate (same matrix) and as the full block matrix *)
  Lemma controlled_by_unitary_eq qs (g : G) : uncontrolled g -> gate_unitary K cj g ->
    gate_unitary K cj (controlled_by qs g)
    /\ (let '(_, _, ts, M) := g in
        let U := ctrl_mat K (length qs) M in
        wf_mat (length qs + length ts) U
        /\ mmul K (madj K cj (length qs + length ts) U) U = eye K (2 ^ (length qs + length ts))).
  Proof.
    destruct g as [[[ctrl cs] ts] M]. intros [-> ->] Hu. split.
    - destruct qs; exact Hu.
    - destruct Hu as [HM HU]. simpl in HM, HU. split.
      + now apply ctrl_mat_wf.
      + now apply (ctrl_mat_isometry K HK cj (cj_zero K cj HC) (cj_one K cj HC)).
  Qed.
End ControlledBy.

(* controlled-(iX) on target 1 with controls (2, 0) of 3 qubits *)
Example ex_controlled_by_hyps :
  NoDup [2; 0] /\ (forall q, In q ([2; 0] ++ [1]) -> q < 3) /\ (forall q, In q [2; 0] -> ~ In q [1])
  /\ wf_mat (length [1]) xU1 /\ uncontrolled (false, [], [1], xU1)
  /\ gate_wf 3 (controlled_by [2; 0] (false, [], [1], xU1))
  /\ gate_unitary Ziops zi_conj (false, [], [1], xU1).
Proof.
  unfold wf_mat, gate_wf, uncontrolled, gate_unitary. repeat split; try (vm_compute; reflexivity); xfin.
Qed.
Example ex_controlled_by_value :
  controlled_by [2; 0] (false, [], [1], xU1) = (true, [2; 0], [1], xU1)
  /\ gate_op Ziops 3 (controlled_by [2; 0] (false, [], [1], xU1))
     = embed Ziops 3 ([2; 0] ++ [1]) (ctrl_mat Ziops 2 xU1)
  /\ mvmul Ziops (gate_op Ziops 3 (controlled_by [2; 0] (false, [], [1], xU1))) (basis Ziops 3 [true; false; true])
     = mvmul Ziops (gate_op Ziops 3 (false, [], [1], xU1)) (basis Ziops 3 [true; false; true])
  /\ mvmul Ziops (gate_op Ziops 3 (controlled_by [2; 0] (false, [], [1], xU1))) (basis Ziops 3 [true; false; true])
     <> basis Ziops 3 [true; false; true]
  /\ mvmul Ziops (gate_op Ziops 3 (controlled_by [2; 0] (false, [], [1], xU1))) (basis Ziops 3 [false; true; true])
     = basis Ziops 3 [false; true; true]
  /\ gate_op Ziops 3 (controlled_by [2; 0] (dag Ziops zi_conj (false, [], [1], xU1)))
     = madj Ziops zi_conj 3 (gate_op Ziops 3 (controlled_by [2; 0] (false, [], [1], xU1)))
  /\ dag Ziops zi_conj (false, [], [1], xU1) <> (false, [], [1], xU1)
  /\ mmul Ziops (madj Ziops zi_conj 3 (ctrl_mat Ziops 2 xU1)) (ctrl_mat Ziops 2 xU1) = eye Ziops 8.
Proof. repeat split; try (vm_compute; reflexivity); vm_compute; discriminate. Qed.
