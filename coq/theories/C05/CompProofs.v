(* C05/CompProofs.v : proofs about C05/CompModel.v.
   Operators live in a monoid (M, mul, one) with an involutive anti-automorphism adj (the adjoint) and a
   family of monoid homomorphisms relabel m (moving an operator along a qubit map).  The per-gate premises
     den (dg t)   = adj (den t)            (Gate.dagger gives the adjoint, controls re-attached)
     den (rl m t) = relabel m (den t)      (Gate.on_qubits moves the operator)
   are what harness/c05.py proves class by class (with and without generic controls) on every run. *)
From Coq Require Import List Bool Arith.
From QV Require Import C05.CircuitOps C05.CompModel.
Import ListNotations.

(* ---------------------------------------------------------------- structural facts (no semantics) *)
Lemma dg_involutive t : dg (dg t) = t.
Proof. destruct t as [s d a b]. unfold dg; simpl. now rewrite negb_involutive. Qed.

Lemma invert_t_app c1 c2 : invert_t (c1 ++ c2) = invert_t c2 ++ invert_t c1.
Proof. unfold invert_t. now rewrite map_app, rev_app_distr. Qed.

Lemma invert_t_involutive c : invert_t (invert_t c) = c.
Proof.
  unfold invert_t. rewrite map_rev, rev_involutive, map_map.
  rewrite <- (map_id c) at 2. apply map_ext. apply dg_involutive.
Qed.

Lemma inv_item_involutive it : inv_item (inv_item it) = it.
Proof. destruct it as [t|ms]; simpl; [now rewrite dg_involutive | now rewrite invert_t_involutive]. Qed.

Lemma invert_q_involutive q : invert_q (invert_q q) = q.
Proof.
  unfold invert_q. rewrite map_rev, rev_involutive, map_map.
  rewrite <- (map_id q) at 2. apply map_ext. apply inv_item_involutive.
Qed.

Lemma invert_q_app q1 q2 : invert_q (q1 ++ q2) = invert_q q2 ++ invert_q q1.
Proof. unfold invert_q. now rewrite map_app, rev_app_distr. Qed.

Lemma flat_app q1 q2 : flat (q1 ++ q2) = flat q1 ++ flat q2.
Proof. unfold flat. apply flat_map_app. Qed.

Lemma flat_item_inv it : flat_item (inv_item it) = invert_t (flat_item it).
Proof. destruct it; reflexivity. Qed.

(* the inverse of a fused circuit, flattened, is the inverse of the flattened circuit:
   FusedGate._dagger commutes with flattening *)
Lemma flat_invert_q q : flat (invert_q q) = invert_t (flat q).
Proof.
  induction q as [|it q IH]; [reflexivity|].
  change (it :: q) with ([it] ++ q). rewrite invert_q_app, !flat_app, invert_t_app, IH. f_equal.
  unfold invert_q, flat; simpl. rewrite !app_nil_r. apply flat_item_inv.
Qed.

Lemma flat_map_G c : flat (map G c) = c.
Proof. induction c as [|t c IH]; [reflexivity|]. unfold flat in *; simpl. now rewrite IH. Qed.

Lemma rl_dg m t : rl m (dg t) = dg (rl m t).
Proof. reflexivity. Qed.

Lemma rl_invert_t m c : map (rl m) (invert_t c) = invert_t (map (rl m) c).
Proof. unfold invert_t. rewrite map_rev, !map_map. reflexivity. Qed.

Lemma rl_item_inv m it : rl_item m (inv_item it) = inv_item (rl_item m it).
Proof. destruct it as [t|ms]; simpl; [reflexivity | now rewrite rl_invert_t]. Qed.

(* relabelling commutes with inversion (on any queue, with or without blocks) *)
Lemma rl_invert_q m q : map (rl_item m) (invert_q q) = invert_q (map (rl_item m) q).
Proof.
  unfold invert_q. rewrite map_rev, !map_map. f_equal. apply map_ext. intros it. apply rl_item_inv.
Qed.

Lemma has_block_invert_q q : has_block (invert_q q) = has_block q.
Proof.
  unfold has_block, invert_q.
  assert (H : forall l, existsb is_block (rev l) = existsb is_block l).
  { induction l as [|x l IH]; [reflexivity|]. simpl. rewrite existsb_app, IH. simpl.
    rewrite orb_false_r. apply orb_comm. }
  rewrite H. induction q as [|it q IH]; [reflexivity|]. simpl. rewrite IH. now destruct it.
Qed.

(* ---------------------------------------------------------------- operator semantics *)
Section CompSem.
  Context {M : Type}.
  Variable mul : M -> M -> M.
  Variable one : M.
  Hypothesis mul_assoc : forall a b c, mul a (mul b c) = mul (mul a b) c.
  Hypothesis mul_1_l : forall a, mul one a = a.
  Hypothesis mul_1_r : forall a, mul a one = a.
  Variable adj : M -> M.
  Hypothesis adj_mul : forall a b, adj (mul a b) = mul (adj b) (adj a).
  Hypothesis adj_one : adj one = one.
  Variable relabel : list nat -> M -> M.
  Hypothesis relabel_mul : forall m a b, relabel m (mul a b) = mul (relabel m a) (relabel m b).
  Hypothesis relabel_one : forall m, relabel m one = one.

  Variable den : tok -> M.
  Hypothesis den_dg : forall t, den (dg t) = adj (den t).
  Hypothesis den_rl : forall m t, den (rl m t) = relabel m (den t).

  Notation circ_t := (circ mul one den).
  (* operator of a queue item: a FusedGate is the product of its members *)
  Definition den_item (it : item) : M := circ_t (flat_item it).
  Notation circ_q := (circ mul one den_item).

  Let addt := @add_ok tok M mul one mul_assoc mul_1_l mul_1_r den.
  Let addq := @add_ok item M mul one mul_assoc mul_1_l mul_1_r den_item.

  Lemma circ_single (G0 : Type) (d : G0 -> M) g : circ mul one d [g] = d g.
  Proof. unfold circ; simpl. apply mul_1_r. Qed.

  Lemma blocked_is_flat q : circ_q q = circ_t (flat q).
  Proof.
    induction q as [|it q IH]; [reflexivity|].
    change (it :: q) with ([it] ++ q). rewrite addq, flat_app, addt, IH. f_equal.
    rewrite circ_single. unfold den_item, flat; simpl. now rewrite app_nil_r.
  Qed.

  (* Circuit.invert gives the ADJOINT of the circuit operator (stronger than "left inverse") *)
  Lemma invert_adj c : circ_t (invert_t c) = adj (circ_t c).
  Proof.
    induction c as [|g c IH]; [simpl; now rewrite adj_one|].
    change (g :: c) with ([g] ++ c). rewrite invert_t_app, !addt, IH, adj_mul. f_equal.
    change (invert_t [g]) with [dg g]. now rewrite !circ_single, den_dg.
  Qed.

  (* ... also for queues containing FusedGates whose dagger is FusedGate._dagger *)
  Lemma invert_q_adj q : circ_q (invert_q q) = adj (circ_q q).
  Proof. now rewrite !blocked_is_flat, flat_invert_q, invert_adj. Qed.

  Lemma den_item_rl m it : den_item (rl_item m it) = relabel m (den_item it).
  Proof.
    unfold den_item. destruct it as [t|ms]; cbn [rl_item flat_item].
    - now rewrite !circ_single, den_rl.
    - apply (@on_qubits_ok tok M mul one den (rl m) (relabel m) (relabel_mul m) (relabel_one m) (den_rl m)).
  Qed.

  Lemma relabel_q m q : circ_q (map (rl_item m) q) = relabel m (circ_q q).
  Proof.
    apply (@on_qubits_ok item M mul one den_item (rl_item m) (relabel m) (relabel_mul m) (relabel_one m)).
    apply den_item_rl.
  Qed.

  (* the operator an expression SHOULD have, by the property text *)
  Fixpoint sem (e : cexpr) : M :=
    match e with
    | Src c => circ_t c
    | Inv e => adj (sem e)
    | Cat e1 e2 => mul (sem e2) (sem e1)
    | Cpy _ e => sem e
    | OnQ m e => relabel m (sem e)
    | Fuse _ e => sem e
    end.

  (* premise on the fusion oracle: regrouping keeps the operator (C07's fusion theorem; the purely
     combinatorial part -- same gates -- is the executable fuse_perm_ok) *)
  Fixpoint fuse_sound (e : cexpr) : Prop :=
    match e with
    | Src _ => True
    | Inv e | Cpy _ e | OnQ _ e => fuse_sound e
    | Cat e1 e2 => fuse_sound e1 /\ fuse_sound e2
    | Fuse bs e => fuse_sound e /\ forall q, eval e = Some q -> circ_t (flat bs) = circ_t (flat q)
    end.

  Theorem eval_sem e : forall q, fuse_sound e -> eval e = Some q -> circ_q q = sem e.
  Proof.
    induction e as [c|e IH|e1 IH1 e2 IH2|deep e IH|m e IH|bs e IH]; intros q Hs Hq; simpl in *.
    - inversion Hq; subst. now rewrite blocked_is_flat, flat_map_G.
    - destruct (eval e) as [q0|]; [|discriminate]. inversion Hq; subst.
      rewrite invert_q_adj. f_equal. now apply IH.
    - destruct Hs as [H1 H2].
      destruct (eval e1) as [a|]; [|discriminate]. destruct (eval e2) as [b|]; [|discriminate].
      inversion Hq; subst. rewrite addq. f_equal; [now apply IH2 | now apply IH1].
    - destruct (eval e) as [q0|]; [|discriminate].
      destruct (deep && has_block q0); [discriminate|]. inversion Hq; subst. now apply IH.
    - destruct (eval e) as [q0|]; [|discriminate].
      destruct (has_block q0); [discriminate|]. inversion Hq; subst.
      rewrite relabel_q. f_equal. now apply IH.
    - destruct Hs as [H1 H2]. destruct (eval e) as [q0|]; [|discriminate].
      destruct (has_block q0); [discriminate|]. inversion Hq; subst.
      rewrite blocked_is_flat, (H2 q0 eq_refl), <- blocked_is_flat. now apply IH.
  Qed.
End CompSem.

(* non-vacuity: integers under addition, adj = negation; a fused block with a generic-controlled member,
   inverted, concatenated with the source *)
From Coq Require Import ZArith.
Example comp_instance :
  let den := fun t : tok => (if dagp t then - Z.of_nat (src t) else Z.of_nat (src t))%Z in
  let c := [mktok 3 false [1] [0]; mktok 5 false [2] []; mktok 2 false [0; 2] [1]] in
  let e := Cat (Src c) (Inv (Fuse [B [mktok 5 false [2] []; mktok 3 false [1] [0]]; G (mktok 2 false [0; 2] [1])] (Src c))) in
  fuse_perm_ok e = true /\
  exists q, eval e = Some q /\ circ Z.add 0%Z (den_item Z.add 0%Z den) q = 0%Z.
Proof. cbv zeta. split; [reflexivity|]. eexists; split; reflexivity. Qed.
