(* C05/Props.v : circuit-level theorems of C05, for all circuits over any gate set and any operator
   monoid; their per-gate premises are the obligations harness/c05.py regenerates and proves for
   every gate class on every run. *)
From Coq Require Import List.
From QV Require Import C05.CircuitOps.
Import ListNotations.

Theorem circuit_followed_by_its_inverse_is_identity :
  forall (G M : Type) (mul : M -> M -> M) (one : M),
    (forall a b c, mul a (mul b c) = mul (mul a b) c) ->
    (forall a, mul one a = a) -> (forall a, mul a one = a) ->
    forall (den : G -> M) (dagger : G -> G),
      (forall g, mul (den (dagger g)) (den g) = one) ->
      forall c, circ mul one den (c ++ invert dagger c) = one.
Proof. intros; now apply invert_ok. Qed.
Print Assumptions circuit_followed_by_its_inverse_is_identity.

Theorem concatenation_multiplies_operators :
  forall (G M : Type) (mul : M -> M -> M) (one : M),
    (forall a b c, mul a (mul b c) = mul (mul a b) c) ->
    (forall a, mul one a = a) -> (forall a, mul a one = a) ->
    forall (den : G -> M) c1 c2,
      circ mul one den (c1 ++ c2) = mul (circ mul one den c2) (circ mul one den c1).
Proof. intros; now apply add_ok. Qed.
Print Assumptions concatenation_multiplies_operators.

Theorem copy_keeps_the_operator :
  forall (G M : Type) (mul : M -> M -> M) (one : M) (den : G -> M) (copy_gate : G -> G),
    (forall g, den (copy_gate g) = den g) ->
    forall c, circ mul one den (map copy_gate c) = circ mul one den c.
Proof. intros; now apply copy_ok. Qed.
Print Assumptions copy_keeps_the_operator.

Theorem relabelling_moves_the_operator :
  forall (G M : Type) (mul : M -> M -> M) (one : M) (den : G -> M)
         (relabel_gate : G -> G) (relabel : M -> M),
    (forall a b, relabel (mul a b) = mul (relabel a) (relabel b)) -> relabel one = one ->
    (forall g, den (relabel_gate g) = relabel (den g)) ->
    forall c, circ mul one den (map relabel_gate c) = relabel (circ mul one den c).
Proof. intros; now apply on_qubits_ok. Qed.
Print Assumptions relabelling_moves_the_operator.
