(* C05/Props.v : circuit-level theorems of C05, for all circuits over any gate set and any operator
   monoid; their per-gate premises are the obligations harness/c05.py regenerates and proves for
   every gate class on every run. *)
From Coq Require Import List.
From QV Require Import C05.CircuitOps.
Import ListNotations.

Theorem circuit_followed_by_its_inverse_is_identity :
  forall (G M : Type) (mul : M -> M -> M) (one : M),
    (forall a b c, mul a (mul b c) = mul (mul a b) c) ->
    (forall a, mul one a = a) -> (forall a, mul a one = a) ->
    forall (den : G -> M) (dagger : G -> G),
      (forall g, mul (den (dagger g)) (den g) = one) ->
      forall c, circ mul one den (c ++ invert dagger c) = one.
Proof. intros; now apply invert_ok. Qed.
Print Assumptions circuit_followed_by_its_inverse_is_identity.

Theorem concatenation_multiplies_operators :
  forall (G M : Type) (mul : M -> M -> M) (one : M),
    (forall a b c, mul a (mul b c) = mul (mul a b) c) ->
    (forall a, mul one a = a) -> (forall a, mul a one = a) ->
    forall (den : G -> M) c1 c2,
      circ mul one den (c1 ++ c2) = mul (circ mul one den c2) (circ mul one den c1).
Proof. intros; now apply add_ok. Qed.
Print Assumptions concatenation_multiplies_operators.

Theorem copy_keeps_the_operator :
  forall (G M : Type) (mul : M -> M -> M) (one : M) (den : G -> M) (copy_gate : G -> G),
    (forall g, den (copy_gate g) = den g) ->
    forall c, circ mul one den (map copy_gate c) = circ mul one den c.
Proof. intros; now apply copy_ok. Qed.
Print Assumptions copy_keeps_the_operator.

Theorem relabelling_moves_the_operator :
  forall (G M : Type) (mul : M -> M -> M) (one : M) (den : G -> M)
         (relabel_gate : G -> G) (relabel : M -> M),
    (forall a b, relabel (mul a b) = mul (relabel a) (relabel b)) -> relabel one = one ->
    (forall g, den (relabel_gate g) = relabel (den g)) ->
    forall c, circ mul one den (map relabel_gate c) = relabel (circ mul one den c).
Proof. intros; now apply on_qubits_ok. Qed.
Print Assumptions relabelling_moves_the_operator.

(* ---------------------------------------------------------------- control on the dense operators *)
(* Base/SemCtrl.v, C05/InstMat.v (section ControlledBy).  gate = C01/Model.gate (flag, controls, targets,
   matrix); gate_op = its operator (Base/Mat.cembed for the controlled_by form, embed otherwise);
   controlled_by qs g = the model of Gate.controlled_by on a gate without controls;
   ctrl_mat K k M = diag(1, ..., 1, M) with 2^k blocks; basis K n c = the basis vector |c>. *)
From Coq Require Import Arith.
From QV Require Import Base.Mat C01.Model C01.Spec C01.Lib C01.ProofsMat C01.ProofsRun C01.ProofsDM C01.ProofsGram
  Base.SemCtrl C05.InstMat.

(* the operator of g.controlled_by(qs) is, as a full matrix on qs ++ targets, the block-control of g's matrix *)
Theorem controlled_by_is_block_control :
  forall (T : Type) (K : ops T) n qs ts (M : mat T),
    NoDup qs -> (forall q, In q (qs ++ ts) -> q < n) -> (forall q, In q qs -> ~ In q ts) ->
    wf_mat (length ts) M ->
    gate_op K n (controlled_by qs (false, [], ts, M)) = embed K n (qs ++ ts) (ctrl_mat K (length qs) M).
Proof. intros T K n qs ts M. exact (controlled_by_op_eq K n qs ts M). Qed.
Print Assumptions controlled_by_is_block_control.

(* controlled_by semantics: on a basis state with some control bit 0 nothing happens, with all control
   bits 1 the original gate acts on the targets *)
Theorem controlled_by_semantics_on_basis_states :
  forall (T : Type) (K : ops T), semiring K ->
  forall n qs ts (M : mat T) c, length c = n ->
    (forall q, In q qs -> q < n) -> (forall q, In q qs -> ~ In q ts) ->
    mvmul K (gate_op K n (controlled_by qs (false, [], ts, M))) (basis K n c)
    = if all1 (sel qs c) then mvmul K (gate_op K n (false, [], ts, M)) (basis K n c) else basis K n c.
Proof. intros T K HK n qs ts M c. exact (controlled_by_on_basis_eq K HK n qs ts M c). Qed.
Print Assumptions controlled_by_semantics_on_basis_states.

(* dagger commutes with control: as gate objects, as operators, and as block matrices *)
Theorem dagger_commutes_with_control_gates :
  forall (T : Type) (K : ops T) (cj : T -> T) qs (g : gate (T:=T)), uncontrolled g ->
    dag K cj (controlled_by qs g) = controlled_by qs (dag K cj g).
Proof. intros T K cj qs g. exact (dag_controlled_by_eq K cj qs g). Qed.
Print Assumptions dagger_commutes_with_control_gates.

Theorem dagger_commutes_with_control_operators :
  forall (T : Type) (K : ops T) (cj : T -> T), conj_ok K cj ->
  forall n qs (g : gate (T:=T)), uncontrolled g -> gate_wf n (controlled_by qs g) ->
    gate_op K n (controlled_by qs (dag K cj g)) = madj K cj n (gate_op K n (controlled_by qs g)).
Proof. intros T K cj HC n qs g. exact (controlled_by_dagger_op_eq K cj HC n qs g). Qed.
Print Assumptions dagger_commutes_with_control_operators.

Theorem dagger_commutes_with_control_matrices :
  forall (T : Type) (K : ops T) (cj : T -> T), cj (zero K) = zero K -> cj (one K) = one K ->
  forall k t (M : mat T), wf_mat t M ->
    ctrl_mat K k (madj K cj t M) = madj K cj (k + t) (ctrl_mat K k M).
Proof. exact ctrl_mat_adjoint. Qed.
Print Assumptions dagger_commutes_with_control_matrices.

(* a controlled unitary is unitary (gate matrix unchanged; the full block matrix is an isometry) *)
Theorem controlled_unitary_is_unitary :
  forall (T : Type) (K : ops T) (cj : T -> T), semiring K -> conj_ok K cj ->
  forall qs (g : gate (T:=T)), uncontrolled g -> gate_unitary K cj g ->
    gate_unitary K cj (controlled_by qs g)
    /\ (let '(_, _, ts, M) := g in
        let U := ctrl_mat K (length qs) M in
        wf_mat (length qs + length ts) U
        /\ mmul K (madj K cj (length qs + length ts) U) U = eye K (2 ^ (length qs + length ts))).
Proof. intros T K cj HK HC qs g. exact (controlled_by_unitary_eq K cj HK HC qs g). Qed.
Print Assumptions controlled_unitary_is_unitary.
