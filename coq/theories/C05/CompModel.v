(* C05/CompModel.v : executable model of COMPOSITIONS of the circuit-level operations of qibo
   (Circuit.invert / __add__ / copy / on_qubits / fuse and FusedGate.dagger) on circuits whose queue may
   contain FusedGate blocks.  Definitions only; proofs are in C05/CompProofs.v.

   A gate of a derived circuit is described by a token: which gate of which source circuit it stems from,
   how many daggers were applied to it (parity), and on which target / control qubits it now sits
   (controls = the control_qubits of the real gate object, whether they come from a dedicated controlled
   class or from the generic Gate.controlled_by).  harness/c05.py evaluates [eval] inside Coq on the same
   expression it executes with the real code and compares the real queue token by token (exact), and the
   operator of every real member gate with the operator the token prescribes. *)
From Coq Require Import List Bool Arith.
Import ListNotations.

Record tok := mktok { src : nat; dagp : bool; tq : list nat; cq : list nat }.

(* a queue item: a gate, or a FusedGate holding member gates in application order *)
Inductive item := G (t : tok) | B (ms : list tok).

Definition flat_item (it : item) : list tok := match it with G t => [t] | B ms => ms end.
Definition flat (q : list item) : list tok := flat_map flat_item q.
Definition is_block (it : item) : bool := match it with G _ => false | B _ => true end.
Definition has_block (q : list item) : bool := existsb is_block q.

(* Gate.dagger on a token: parity flips, qubits and controls are kept (Gate.dagger re-attaches the controls) *)
Definition dg (t : tok) : tok := mktok (src t) (negb (dagp t)) (tq t) (cq t).
(* Gate.on_qubits with qubit_map = dict(enumerate(m)): qubit q goes to the q-th entry of m.  The real
   Circuit.on_qubits requires length m = nqubits, so the default is never used on accepted inputs. *)
Definition rlq (m : list nat) (q : nat) : nat := nth q m q.
Definition rl (m : list nat) (t : tok) : tok := mktok (src t) (dagp t) (map (rlq m) (tq t)) (map (rlq m) (cq t)).

(* Circuit.invert on token lists, and FusedGate._dagger: members reversed, each through the PUBLIC dagger *)
Definition invert_t (c : list tok) : list tok := rev (map dg c).
Definition inv_item (it : item) : item := match it with G t => G (dg t) | B ms => B (invert_t ms) end.
Definition invert_q (q : list item) : list item := rev (map inv_item q).

(* circuit expressions.  [Fuse bs e]: bs is the block structure the real Circuit.fuse produced (read off the
   real fused queue by object identity); fusion may reorder commuting gates, its own correctness is C07's
   theorem -- here it is an oracle constrained by [fuse_perm_ok]. *)
Inductive cexpr :=
| Src (c : list tok)
| Inv (e : cexpr)
| Cat (e1 e2 : cexpr)
| Cpy (deep : bool) (e : cexpr)
| OnQ (m : list nat) (e : cexpr)
| Fuse (bs : list item) (e : cexpr).

Definition rl_item (m : list nat) (it : item) : item := match it with G t => G (rl m t) | B ms => B (map (rl m) ms) end.

(* None = the real code refuses (NotImplementedError): deep copy / on_qubits / a second fuse of a queue
   that contains FusedGates (the last one is a restriction of this model, not of the code) *)
Fixpoint eval (e : cexpr) : option (list item) :=
  match e with
  | Src c => Some (map G c)
  | Inv e => option_map invert_q (eval e)
  | Cat e1 e2 => match eval e1, eval e2 with Some a, Some b => Some (a ++ b) | _, _ => None end
  | Cpy deep e => match eval e with
                  | Some q => if deep && has_block q then None else Some q
                  | None => None end
  | OnQ m e => match eval e with
               | Some q => if has_block q then None else Some (map (rl_item m) q)
               | None => None end
  | Fuse bs e => match eval e with
                 | Some q => if has_block q then None else Some bs
                 | None => None end
  end.

(* decidable token equality and the permutation test for the fusion oracle *)
Definition tok_eqb (a b : tok) : bool :=
  Nat.eqb (src a) (src b) && Bool.eqb (dagp a) (dagp b)
  && (if list_eq_dec Nat.eq_dec (tq a) (tq b) then true else false)
  && (if list_eq_dec Nat.eq_dec (cq a) (cq b) then true else false).

Fixpoint remove1 (t : tok) (l : list tok) : option (list tok) :=
  match l with
  | [] => None
  | x :: l' => if tok_eqb t x then Some l' else option_map (cons x) (remove1 t l')
  end.
Fixpoint perm_b (a b : list tok) : bool :=
  match a with
  | [] => match b with [] => true | _ => false end
  | x :: a' => match remove1 x b with Some b' => perm_b a' b' | None => false end
  end.

(* every Fuse node regroups exactly the gates of the queue it was applied to *)
Fixpoint fuse_perm_ok (e : cexpr) : bool :=
  match e with
  | Src _ => true
  | Inv e | Cpy _ e | OnQ _ e => fuse_perm_ok e
  | Cat e1 e2 => fuse_perm_ok e1 && fuse_perm_ok e2
  | Fuse bs e => fuse_perm_ok e && match eval e with Some q => perm_b (flat bs) (flat q) | None => false end
  end.
