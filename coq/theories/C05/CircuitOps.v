(* C05/CircuitOps.v : circuit-level operations (Circuit.invert / __add__ / copy / on_qubits) as list
   transformers, proved against the operator semantics for ALL circuits, given the per-gate facts
   that harness/c05.py proves class by class on every run (dagger gives the adjoint, relabelling
   moves the operator).

   Operators live in an arbitrary monoid (M, *, 1): the operator of a circuit is the product of its
   gates, later gates multiplying from the left (queue order = application order). *)
From Coq Require Import List.
Import ListNotations.

Section CircuitOps.
  Context {G M : Type}.
  Variable mul : M -> M -> M.
  Variable one : M.
  Hypothesis mul_assoc : forall a b c, mul a (mul b c) = mul (mul a b) c.
  Hypothesis mul_1_l : forall a, mul one a = a.
  Hypothesis mul_1_r : forall a, mul a one = a.

  Variable den : G -> M.                 (* operator of one gate *)

  (* operator of a queue: gates applied first-to-last *)
  Definition circ (c : list G) : M := fold_left (fun U g => mul (den g) U) c one.

  Lemma fold_circ c : forall U, fold_left (fun U g => mul (den g) U) c U = mul (circ c) U.
  Proof.
    unfold circ. induction c as [|g c IH]; intros U; simpl.
    - now rewrite mul_1_l.
    - rewrite IH, (IH (mul (den g) one)), mul_1_r, mul_assoc. reflexivity.
  Qed.

  (* Circuit.__add__ : concatenation of queues *)
  Theorem add_ok c1 c2 : circ (c1 ++ c2) = mul (circ c2) (circ c1).
  Proof. unfold circ at 1. rewrite fold_left_app. apply fold_circ. Qed.

  (* Circuit.invert : daggers in reverse order (measurements aside) *)
  Variable dagger : G -> G.
  Definition invert (c : list G) : list G := rev (map dagger c).

  Hypothesis dagger_left_inverse : forall g, mul (den (dagger g)) (den g) = one.

  Theorem invert_ok c : circ (c ++ invert c) = one.
  Proof.
    unfold invert. induction c as [|g c IH] using rev_ind; [reflexivity|].
    rewrite map_app, rev_app_distr. simpl.
    rewrite <- app_assoc. simpl.
    rewrite add_ok. change (g :: dagger g :: rev (map dagger c)) with ([g; dagger g] ++ rev (map dagger c)).
    rewrite add_ok.
    assert (H : circ [g; dagger g] = one).
    { unfold circ; simpl. rewrite mul_1_r. apply dagger_left_inverse. }
    rewrite H, mul_1_r. rewrite <- add_ok. exact IH.
  Qed.

  (* Circuit.copy (deep or shallow) re-adds the same gates in the same order *)
  Variable copy_gate : G -> G.
  Hypothesis copy_gate_ok : forall g, den (copy_gate g) = den g.
  Theorem copy_ok c : circ (map copy_gate c) = circ c.
  Proof.
    unfold circ. generalize one. induction c as [|g c IH]; intros U; simpl; [reflexivity|].
    rewrite copy_gate_ok. apply IH.
  Qed.

  (* Circuit.on_qubits : every gate is relabelled; relabelling is a monoid homomorphism on operators *)
  Variable relabel_gate : G -> G.
  Variable relabel : M -> M.
  Hypothesis relabel_mul : forall a b, relabel (mul a b) = mul (relabel a) (relabel b).
  Hypothesis relabel_one : relabel one = one.
  Hypothesis relabel_gate_ok : forall g, den (relabel_gate g) = relabel (den g).
  Theorem on_qubits_ok c : circ (map relabel_gate c) = relabel (circ c).
  Proof.
    unfold circ.
    assert (H : forall U, fold_left (fun U g => mul (den g) U) (map relabel_gate c) (relabel U)
                          = relabel (fold_left (fun U g => mul (den g) U) c U)).
    { induction c as [|g c IH]; intros U; simpl; [reflexivity|].
      rewrite relabel_gate_ok, <- relabel_mul. apply IH. }
    rewrite <- relabel_one at 1. apply H.
  Qed.
End CircuitOps.

(* non-vacuity: the integers under addition with negation as dagger *)
From Coq Require Import ZArith.
Example circuitops_instance :
  @circ Z Z Z.add 0%Z (fun g => g) ([3; 5; -2] ++ @invert Z Z.opp [3; 5; -2])%Z = 0%Z.
Proof. reflexivity. Qed.
