(* C05/PropsMeas.v : property theorems about relabelled measurement gates (model C05/MeasModel.v,
   proofs C05/MeasProofs.v).  "relabelling qubits ... moves operators without changing them" for gates.M:
   every measured qubit keeps its own readout-error probabilities and basis at its image, whichever
   representation the user chose for p0 / p1 (float, list, dictionary in any key order, partial dictionary). *)
From Coq Require Import List Bool Arith ZArith.
From QV Require Import C05.MeasModel C05.MeasProofs.
Import ListNotations.

(* hypotheses: the qubit map is injective on the measured qubits (the real constructor rejects duplicate
   targets) and positional lists have one entry per target (ValueError otherwise) *)
Theorem relabelled_measurement_keeps_per_target_data : forall f m,
  NoDup (map (rlq f) (targets m)) -> wf m ->
  targets (on_qubits f m) = map (rlq f) (targets m) /\
  bitflip0 (on_qubits f m) = bitflip0 m /\ bitflip1 (on_qubits f m) = bitflip1 m /\
  basis (on_qubits f m) = basis m /\ collapse (on_qubits f m) = collapse m.
Proof. exact on_qubits_bitflip. Qed.
Print Assumptions relabelled_measurement_keeps_per_target_data.

Theorem relabelled_measurement_moves_each_qubits_own_data : forall f m q,
  NoDup (map (rlq f) (targets m)) -> wf m -> In q (targets m) ->
  data_at (on_qubits f m) (rlq f q) = data_at m q.
Proof. exact data_moves. Qed.
Print Assumptions relabelled_measurement_moves_each_qubits_own_data.

Theorem sequences_of_circuit_operations_keep_measurement_data : forall os m,
  ok_ops os (targets m) -> wf m ->
  bitflip0 (run os m) = bitflip0 m /\ bitflip1 (run os m) = bitflip1 m /\ basis (run os m) = basis m
  /\ collapse (run os m) = collapse m.
Proof. exact run_carries. Qed.
Print Assumptions sequences_of_circuit_operations_keep_measurement_data.

(* re-keying a dictionary by the POSITION of its entries is wrong for partial / out-of-order dictionaries *)
Theorem positional_rekeying_refuted : exists f ts d, NoDup (map (rlq f) ts) /\
  norm (map (rlq f) ts) (rekey_zip f ts (PDict d)) <> norm ts (PDict d).
Proof. exact rekey_zip_wrong. Qed.
Print Assumptions positional_rekeying_refuted.

(* non-vacuity: a partial, out-of-order dictionary on non-ascending targets under a 3-cycle *)
Example relabel_example :
  let m := mkmeas [2; 0; 1] (PDict [(1, 2%Z); (2, 4%Z)]) (PList [1%Z; 0%Z; 8%Z]) [1; 0; 2] false in
  let f := [3; 0; 4; 1; 2] in
  NoDup (map (rlq f) (targets m)) /\ wf m /\
  show (on_qubits f m) = ([4; 3; 0], [4%Z; 0%Z; 2%Z], [1%Z; 0%Z; 8%Z], [1; 0; 2], false) /\
  data_at (on_qubits f m) 4 = data_at m 2.
Proof.
  cbn zeta. split; [|split; [|split]].
  - cbn. repeat constructor; cbn; intuition congruence.
  - split; cbn; auto.
  - vm_compute. reflexivity.
  - vm_compute. reflexivity.
Qed.
