(* C05/MeasProofs.v : proofs about C05/MeasModel.v (relabelling a measurement carries each qubit's own data) *)
From Coq Require Import List Bool Arith ZArith Lia.
From QV Require Import C05.MeasModel.
Import ListNotations.

Lemma lookup_cons_other : forall k v d q, k <> q -> lookup ((k, v) :: d) q = lookup d q.
Proof. intros k v d q H. cbn [lookup]. destruct (Nat.eqb_spec k q); [contradiction | reflexivity]. Qed.

Lemma lookup_combine : forall ks vs, NoDup ks -> length ks = length vs ->
  map (lookup (combine ks vs)) ks = vs.
Proof.
  induction ks as [|k ks IH]; intros vs Hnd Hlen.
  - destruct vs; [reflexivity | discriminate].
  - destruct vs as [|v vs]; [discriminate|].
    inversion Hnd as [|? ? Hnotin Hnd']; subst.
    cbn [combine map]. f_equal.
    + cbn [lookup]. now rewrite Nat.eqb_refl.
    + rewrite <- (IH vs Hnd') at 2 by (cbn in Hlen; lia).
      apply map_ext_in. intros q Hq. apply lookup_cons_other. intro E; subst; contradiction.
Qed.

Lemma is_none_rekey : forall f ts s, is_none (rekey f ts s) = is_none s.
Proof. intros f ts []; reflexivity. Qed.

(* a positional list must have one entry per target (the constructor raises ValueError otherwise) *)
Definition wf_spec (ts : list nat) (s : pspec) : Prop :=
  match s with PList ps => length ps = length ts | _ => True end.

Lemma norm_rekey : forall f ts s, NoDup (map (rlq f) ts) -> wf_spec ts s ->
  norm (map (rlq f) ts) (rekey f ts s) = norm ts s.
Proof.
  intros f ts [|p|ps|d] Hnd Hwf; cbn [rekey norm].
  - now rewrite map_map.
  - now rewrite map_map.
  - reflexivity.
  - apply lookup_combine; [assumption | now rewrite !map_length].
Qed.

Lemma eff0_on_qubits : forall f m, eff0 (on_qubits f m) = rekey f (targets m) (eff0 m).
Proof. intros f m. unfold eff0, on_qubits; cbn. rewrite is_none_rekey. now destruct (is_none (sp0 m)). Qed.
Lemma eff1_on_qubits : forall f m, eff1 (on_qubits f m) = rekey f (targets m) (eff1 m).
Proof. intros f m. unfold eff1, on_qubits; cbn. rewrite is_none_rekey. now destruct (is_none (sp1 m)). Qed.

Definition wf (m : meas) : Prop := wf_spec (targets m) (sp0 m) /\ wf_spec (targets m) (sp1 m).

Lemma wf_eff : forall m, wf m -> wf_spec (targets m) (eff0 m) /\ wf_spec (targets m) (eff1 m).
Proof. intros m [H0 H1]. unfold eff0, eff1. destruct (is_none (sp0 m)), (is_none (sp1 m)); auto. Qed.

Lemma on_qubits_bitflip : forall f m, NoDup (map (rlq f) (targets m)) -> wf m ->
  targets (on_qubits f m) = map (rlq f) (targets m) /\
  bitflip0 (on_qubits f m) = bitflip0 m /\ bitflip1 (on_qubits f m) = bitflip1 m /\
  basis (on_qubits f m) = basis m /\ collapse (on_qubits f m) = collapse m.
Proof.
  intros f m Hnd Hwf. destruct (wf_eff m Hwf) as [W0 W1].
  repeat split; try reflexivity.
  - unfold bitflip0. rewrite eff0_on_qubits. cbn [on_qubits targets]. now apply norm_rekey.
  - unfold bitflip1. rewrite eff1_on_qubits. cbn [on_qubits targets]. now apply norm_rekey.
Qed.

Lemma wf_on_qubits : forall f m, wf m -> wf (on_qubits f m).
Proof.
  intros f m [H0 H1]. unfold wf, on_qubits; cbn [targets sp0 sp1]. split.
  - destruct (sp0 m); cbn in *; try exact I. now rewrite map_length.
  - destruct (sp1 m); cbn in *; try exact I. now rewrite map_length.
Qed.

Lemma index_of_map : forall f ts q, NoDup (map (rlq f) ts) -> In q ts ->
  index_of (rlq f q) (map (rlq f) ts) = index_of q ts.
Proof.
  induction ts as [|t ts IH]; intros q Hnd Hin; [destruct Hin|].
  cbn [map index_of]. inversion Hnd as [|? ? Hnotin Hnd']; subst.
  destruct (Nat.eqb_spec t q) as [E|NE].
  - subst. now rewrite Nat.eqb_refl.
  - destruct Hin as [E|Hin]; [contradiction|].
    destruct (Nat.eqb_spec (rlq f t) (rlq f q)) as [E2|NE2].
    + exfalso. apply Hnotin. rewrite E2. now apply in_map.
    + now rewrite IH.
Qed.

Lemma data_moves : forall f m q, NoDup (map (rlq f) (targets m)) -> wf m -> In q (targets m) ->
  data_at (on_qubits f m) (rlq f q) = data_at m q.
Proof.
  intros f m q Hnd Hwf Hin. unfold data_at.
  destruct (on_qubits_bitflip f m Hnd Hwf) as (Ht & H0 & H1 & Hb & _).
  rewrite Ht, index_of_map by assumption. rewrite H0, H1, Hb. reflexivity.
Qed.

(* sequences of circuit-level operations *)
Fixpoint ok_ops (os : list mop) (ts : list nat) : Prop :=
  match os with
  | [] => True
  | MKeep :: os' => ok_ops os' ts
  | MOnQ f :: os' => NoDup (map (rlq f) ts) /\ ok_ops os' (map (rlq f) ts)
  end.

Lemma run_carries : forall os m, ok_ops os (targets m) -> wf m ->
  bitflip0 (run os m) = bitflip0 m /\ bitflip1 (run os m) = bitflip1 m /\ basis (run os m) = basis m
  /\ collapse (run os m) = collapse m.
Proof.
  induction os as [|o os IH]; intros m Hok Hwf; [repeat split|].
  unfold run in *. cbn [fold_left]. destruct o as [f|]; cbn [step].
  - destruct Hok as [Hnd Hok]. destruct (on_qubits_bitflip f m Hnd Hwf) as (Ht & H0 & H1 & Hb & Hc).
    rewrite <- Ht in Hok. destruct (IH (on_qubits f m) Hok (wf_on_qubits f m Hwf)) as (A & B & C & D).
    rewrite A, B, C, D, H0, H1, Hb, Hc. repeat split.
  - apply IH; assumption.
Qed.

Lemma rekey_zip_wrong : exists f ts d, NoDup (map (rlq f) ts) /\
  norm (map (rlq f) ts) (rekey_zip f ts (PDict d)) <> norm ts (PDict d).
Proof.
  exists [0; 1; 2], [0; 1; 2], [(2, 3%Z)]. split.
  - cbn. repeat constructor; cbn; intuition congruence.
  - vm_compute. discriminate.
Qed.
