(* C05/PropsComp.v : compositions of circuit-level operations (invert / + / copy / on_qubits / fuse and
   FusedGate.dagger) -- theorems over the executable model C05/CompModel.v, for all circuits, all gate
   sets, all operator monoids with an adjoint.  harness/c05.py ties the real code to [eval] token by token
   (exact) on random operation sequences, and proves the per-gate premises class by class. *)
From Coq Require Import List Bool.
From QV Require Import C05.CircuitOps C05.CompModel C05.CompProofs.
Import ListNotations.

(* the operator of ANY composition of invert / + / copy / on_qubits / fuse is the operator the property
   text prescribes (adjoint, reversed product, unchanged, relabelled, unchanged) *)
Theorem composed_circuit_operations_are_exact :
  forall (M : Type) (mul : M -> M -> M) (one : M),
    (forall a b c, mul a (mul b c) = mul (mul a b) c) -> (forall a, mul one a = a) -> (forall a, mul a one = a) ->
    forall (adj : M -> M), (forall a b, adj (mul a b) = mul (adj b) (adj a)) -> adj one = one ->
    forall (relabel : list nat -> M -> M),
      (forall m a b, relabel m (mul a b) = mul (relabel m a) (relabel m b)) -> (forall m, relabel m one = one) ->
    forall (den : tok -> M),
      (forall t, den (dg t) = adj (den t)) -> (forall m t, den (rl m t) = relabel m (den t)) ->
    forall e q, fuse_sound mul one den e -> eval e = Some q ->
      circ mul one (den_item mul one den) q = sem mul one adj relabel den e.
Proof. intros; eapply eval_sem; eauto. Qed.
Print Assumptions composed_circuit_operations_are_exact.

(* Circuit.invert gives the adjoint of the circuit operator, also when the queue holds FusedGates
   (FusedGate._dagger = members reversed, each through the public dagger that keeps the controls) *)
Theorem inverse_of_fused_circuit_is_the_adjoint :
  forall (M : Type) (mul : M -> M -> M) (one : M),
    (forall a b c, mul a (mul b c) = mul (mul a b) c) -> (forall a, mul one a = a) -> (forall a, mul a one = a) ->
    forall (adj : M -> M), (forall a b, adj (mul a b) = mul (adj b) (adj a)) -> adj one = one ->
    forall (den : tok -> M), (forall t, den (dg t) = adj (den t)) ->
    forall q, circ mul one (den_item mul one den) (invert_q q) = adj (circ mul one (den_item mul one den) q).
Proof. intros; now apply invert_q_adj. Qed.
Print Assumptions inverse_of_fused_circuit_is_the_adjoint.

(* a fused queue has the operator of its flattened member list *)
Theorem fused_queue_is_its_member_list :
  forall (M : Type) (mul : M -> M -> M) (one : M),
    (forall a b c, mul a (mul b c) = mul (mul a b) c) -> (forall a, mul one a = a) -> (forall a, mul a one = a) ->
    forall (den : tok -> M) q, circ mul one (den_item mul one den) q = circ mul one den (flat q).
Proof. intros; now apply blocked_is_flat. Qed.
Print Assumptions fused_queue_is_its_member_list.

(* invert of a fused circuit = fused invert: inverting commutes with flattening, structurally *)
Theorem invert_commutes_with_flattening : forall q, flat (invert_q q) = invert_t (flat q).
Proof. exact flat_invert_q. Qed.
Print Assumptions invert_commutes_with_flattening.

Theorem invert_is_an_involution_on_queues : forall q, invert_q (invert_q q) = q.
Proof. exact invert_q_involutive. Qed.
Print Assumptions invert_is_an_involution_on_queues.

Theorem invert_of_concatenation : forall q1 q2, invert_q (q1 ++ q2) = invert_q q2 ++ invert_q q1.
Proof. exact invert_q_app. Qed.
Print Assumptions invert_of_concatenation.

Theorem relabelling_commutes_with_inversion :
  forall m q, map (rl_item m) (invert_q q) = invert_q (map (rl_item m) q).
Proof. exact rl_invert_q. Qed.
Print Assumptions relabelling_commutes_with_inversion.

(* non-vacuity: CompProofs.comp_instance (integers under addition; a fused block with a controlled member,
   inverted and appended to its source, evaluates to the identity) *)
Example composed_instance_exists : exists e q, fuse_perm_ok e = true /\ eval e = Some q /\ has_block q = true.
Proof.
  exists (Inv (Fuse [B [mktok 1 false [2] []; mktok 0 false [1] [0]]] (Src [mktok 0 false [1] [0]; mktok 1 false [2] []]))).
  eexists. repeat split; reflexivity.
Qed.
