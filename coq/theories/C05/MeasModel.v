(* C05/MeasModel.v : executable model of the data a measurement gate gates.M carries per measured qubit
   (readout-error maps p0 / p1 in each of the accepted representations) and of its relabelling
   M.on_qubits (hence Circuit.on_qubits, light_cone, transpiler passes).  Definitions only; the proofs are
   in C05/MeasProofs.v, the property theorems in C05/PropsMeas.v.

   Probabilities are carried as integers (numerators over 8: the harness draws dyadic probabilities), the
   representation of a readout map is the one the USER wrote:
     PNone | PScalar p | PList [p_0 .. p_k-1] (positional) | PDict [(q, p) ...] (keyed by qubit id, any key order,
     possibly partial: absent qubits have probability 0).
   harness/c05_meas.py evaluates [show] on the same data it gives to the real code and compares exactly. *)
From Coq Require Import List Bool Arith ZArith.
Import ListNotations.

Inductive pspec :=
| PNone
| PScalar (p : Z)
| PList (ps : list Z)
| PDict (d : list (nat * Z)).

(* dictionary lookup, absent key -> 0   (M._get_bitflip_tuple: probs[q] if q in probs else 0.0) *)
Fixpoint lookup (d : list (nat * Z)) (q : nat) : Z :=
  match d with
  | [] => 0%Z
  | (k, v) :: d' => if Nat.eqb k q then v else lookup d' q
  end.

(* the last binding of a key wins in a Python dict literal / comprehension; the harness only writes
   dictionaries with distinct keys, for which first = last *)

(* per-target probabilities, in the order of the measured qubits (M._get_bitflip_tuple) *)
Definition norm (ts : list nat) (s : pspec) : list Z :=
  match s with
  | PNone => map (fun _ => 0%Z) ts
  | PScalar p => map (fun _ => p) ts
  | PList ps => ps
  | PDict d => map (lookup d) ts
  end.

Definition is_none (s : pspec) : bool := match s with PNone => true | _ => false end.

(* a measurement gate as constructed: targets (order matters), the two user-level readout specs, the per-target
   basis code (0 = Z, 1 = X, 2 = Y), collapse flag *)
Record meas := mkmeas { targets : list nat; sp0 : pspec; sp1 : pspec; basis : list nat; collapse : bool }.

(* M.__init__: p1 defaults to p0 and p0 to p1 *)
Definition eff0 (m : meas) : pspec := if is_none (sp0 m) then sp1 m else sp0 m.
Definition eff1 (m : meas) : pspec := if is_none (sp1 m) then sp0 m else sp1 m.
Definition bitflip0 (m : meas) : list Z := norm (targets m) (eff0 m).
Definition bitflip1 (m : meas) : list Z := norm (targets m) (eff1 m).

(* qubit map as the list of images: qubit q goes to the q-th entry (default: q itself, never used on accepted inputs) *)
Definition rlq (f : list nat) (q : nat) : nat := nth q f q.

(* M.on_qubits: positional representations are kept (they follow the targets), a dictionary is re-keyed
   through the complete per-target map:  {f q : p_q  for q in targets} *)
Definition rekey (f : list nat) (ts : list nat) (s : pspec) : pspec :=
  match s with
  | PDict d => PDict (combine (map (rlq f) ts) (map (lookup d) ts))
  | _ => s
  end.

Definition on_qubits (f : list nat) (m : meas) : meas :=
  mkmeas (map (rlq f) (targets m)) (rekey f (targets m) (sp0 m)) (rekey f (targets m) (sp1 m)) (basis m) (collapse m).

(* the WRONG re-keying by position in the user's dictionary (seeded change r5/C05-m11), kept to refute it *)
Definition rekey_zip (f : list nat) (ts : list nat) (s : pspec) : pspec :=
  match s with
  | PDict d => PDict (combine (map (rlq f) ts) (map snd d))
  | _ => s
  end.

(* data attached to one qubit of the register by a measurement: (p0, p1, basis) if measured *)
Fixpoint index_of (q : nat) (ts : list nat) : option nat :=
  match ts with
  | [] => None
  | t :: ts' => if Nat.eqb t q then Some 0 else option_map S (index_of q ts')
  end.

Definition data_at (m : meas) (q : nat) : option (Z * Z * nat) :=
  match index_of q (targets m) with
  | None => None
  | Some i => Some (nth i (bitflip0 m) 0%Z, nth i (bitflip1 m) 0%Z, nth i (basis m) 0)
  end.

(* circuit-level operations on the trailing measurement: copy / invert / + keep the gate, on_qubits relabels *)
Inductive mop := MOnQ (f : list nat) | MKeep.
Definition step (o : mop) (m : meas) : meas := match o with MOnQ f => on_qubits f m | MKeep => m end.
Definition run (os : list mop) (m : meas) : meas := fold_left (fun m o => step o m) os m.

Definition show (m : meas) := (targets m, bitflip0 m, bitflip1 m, basis m, collapse m).
