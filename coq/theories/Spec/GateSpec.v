(* Spec/GateSpec.v : the documented matrix of every gate class, written by hand from the
   class docstrings of qibo/gates/gates.py (the ".. math::" blocks), as functions from
   parameter angle forms to matrices of TrigNF expressions.  This file is the ORACLE for
   property C01's gate tables: the matrices traced from backends/npmatrices.py on every run
   must equal these for all parameter values.

   Documentation slips (the code is right, the docstring is not a unitary as printed):
   CSX / CSXDG are documented with entries e^{+-i pi/4} (missing the factor 1/sqrt 2) and CU2
   with the factor 1/sqrt 2 in front of the whole 4x4 matrix; the spec below is the
   controlled version of the documented one-qubit gate (SX, SXDG, U2), which is what the
   class description says in words. *)
From Coq Require Import Reals QArith List.
From QV Require Import Base.Cis Base.TrigNF Base.Mat Base.TrigMat.
Import ListNotations.
Local Open Scope Q_scope.

Definition h (a : aff) : aff := ascale (1 # 2) a.          (* a / 2 *)
Definition e0 : expr := EQ 0.
Definition e1 : expr := EQ 1.
Definition em1 : expr := EQ (-1 # 1).
Definition ei : expr := EI.
Definition emi : expr := ENeg EI.
Definition isq2 : expr := EMul (EQ (1 # 2)) ESqrt2.          (* 1/sqrt 2 *)
Definition cis_ (a : aff) : expr := ECis a.                  (* e^{i a} *)
Definition cisn (a : aff) : expr := ECis (aneg a).           (* e^{-i a} *)
Definition mi_sin (a : aff) : expr := EMul emi (ESin a).     (* -i sin a *)
Definition i_sin (a : aff) : expr := EMul ei (ESin a).       (*  i sin a *)
Definition half_e (x y : Q) : expr := EAdd (EQ x) (EMul EI (EQ y)).
Definition scale (c : expr) (M : mat expr) : mat expr := map (map (EMul c)) M.
Definition apq (p q : Z) : aff := api (p # Z.to_pos q).      (* p*pi/q *)

(* block-diagonal  diag(I_k, M) *)
Fixpoint pad_row (k : nat) (r : list expr) : list expr :=
  match k with O => r | S k' => e0 :: pad_row k' r end.
Fixpoint id_rows (k w i : nat) : mat expr :=
  match k with
  | O => []
  | S k' => (pad_row i (e1 :: repeat e0 (w - i - 1))) :: id_rows k' w (S i)
  end.
Definition ctrl_block (k : nat) (M : mat expr) : mat expr :=
  let w := (k + length M)%nat in id_rows k w 0 ++ map (pad_row k) M.

(* ---- one-qubit ---- *)
Definition S_H : mat expr := scale isq2 [[e1; e1]; [e1; em1]].
Definition S_X : mat expr := [[e0; e1]; [e1; e0]].
Definition S_Y : mat expr := [[e0; emi]; [ei; e0]].
Definition S_Z : mat expr := [[e1; e0]; [e0; em1]].
Definition S_SX : mat expr := [[half_e (1#2) (1#2); half_e (1#2) (-1#2)]; [half_e (1#2) (-1#2); half_e (1#2) (1#2)]].
Definition S_SXDG : mat expr := [[half_e (1#2) (-1#2); half_e (1#2) (1#2)]; [half_e (1#2) (1#2); half_e (1#2) (-1#2)]].
Definition S_S : mat expr := [[e1; e0]; [e0; ei]].
Definition S_SDG : mat expr := [[e1; e0]; [e0; emi]].
Definition S_T : mat expr := [[e1; e0]; [e0; cis_ (apq 1 4)]].
Definition S_TDG : mat expr := [[e1; e0]; [e0; cisn (apq 1 4)]].
Definition S_RX (t : aff) : mat expr := [[ECos (h t); mi_sin (h t)]; [mi_sin (h t); ECos (h t)]].
Definition S_RY (t : aff) : mat expr := [[ECos (h t); ENeg (ESin (h t))]; [ESin (h t); ECos (h t)]].
Definition S_RZ (t : aff) : mat expr := [[cisn (h t); e0]; [e0; cis_ (h t)]].
Definition S_PRX (t p : aff) : mat expr :=
  [[ECos (h t); EMul (EMul emi (cisn p)) (ESin (h t))];
   [EMul (EMul emi (cis_ p)) (ESin (h t)); ECos (h t)]].
Definition S_GPI (p : aff) : mat expr := [[e0; cisn p]; [cis_ p; e0]].
Definition S_GPI2 (p : aff) : mat expr := scale isq2 [[e1; EMul emi (cisn p)]; [EMul emi (cis_ p); e1]].
Definition S_U1 (t : aff) : mat expr := [[e1; e0]; [e0; cis_ t]].
Definition S_U2 (p l : aff) : mat expr :=
  scale isq2 [[cisn (h (aadd p l)); ENeg (cisn (h (aadd p (aneg l))))];
              [cis_ (h (aadd p (aneg l))); cis_ (h (aadd p l))]].
Definition S_U3 (t p l : aff) : mat expr :=
  [[EMul (cisn (h (aadd p l))) (ECos (h t)); ENeg (EMul (cisn (h (aadd p (aneg l)))) (ESin (h t)))];
   [EMul (cis_ (h (aadd p (aneg l)))) (ESin (h t)); EMul (cis_ (h (aadd p l))) (ECos (h t))]].
Definition S_U1q (t p : aff) : mat expr := S_PRX t p.

(* ---- two-qubit ---- *)
Definition S_CNOT : mat expr := ctrl_block 2 S_X.
Definition S_CY : mat expr := ctrl_block 2 S_Y.
Definition S_CZ : mat expr := ctrl_block 2 S_Z.
Definition S_CSX : mat expr := ctrl_block 2 S_SX.
Definition S_CSXDG : mat expr := ctrl_block 2 S_SXDG.
Definition S_CRX (t : aff) : mat expr := ctrl_block 2 (S_RX t).
Definition S_CRY (t : aff) : mat expr := ctrl_block 2 (S_RY t).
Definition S_CRZ (t : aff) : mat expr := ctrl_block 2 (S_RZ t).
Definition S_CU1 (t : aff) : mat expr := ctrl_block 2 (S_U1 t).
Definition S_CU2 (p l : aff) : mat expr := ctrl_block 2 (S_U2 p l).
Definition S_CU3 (t p l : aff) : mat expr := ctrl_block 2 (S_U3 t p l).
Definition S_SWAP : mat expr := [[e1;e0;e0;e0];[e0;e0;e1;e0];[e0;e1;e0;e0];[e0;e0;e0;e1]].
Definition S_iSWAP : mat expr := [[e1;e0;e0;e0];[e0;e0;ei;e0];[e0;ei;e0;e0];[e0;e0;e0;e1]].
Definition S_SiSWAP : mat expr :=
  [[e1;e0;e0;e0];[e0;isq2;EMul ei isq2;e0];[e0;EMul ei isq2;isq2;e0];[e0;e0;e0;e1]].
Definition S_SiSWAPDG : mat expr :=
  [[e1;e0;e0;e0];[e0;isq2;EMul emi isq2;e0];[e0;EMul emi isq2;isq2;e0];[e0;e0;e0;e1]].
Definition S_FSWAP : mat expr := [[e1;e0;e0;e0];[e0;e0;e1;e0];[e0;e1;e0;e0];[e0;e0;e0;em1]].
Definition S_fSim (t p : aff) : mat expr :=
  [[e1;e0;e0;e0];[e0;ECos t;mi_sin t;e0];[e0;mi_sin t;ECos t;e0];[e0;e0;e0;cisn p]].
Definition S_SYC : mat expr :=
  [[e1;e0;e0;e0];[e0;e0;emi;e0];[e0;emi;e0;e0];[e0;e0;e0;cisn (apq 1 6)]].
Definition S_RXX (t : aff) : mat expr :=
  let c := ECos (h t) in let s := mi_sin (h t) in
  [[c;e0;e0;s];[e0;c;s;e0];[e0;s;c;e0];[s;e0;e0;c]].
Definition S_RYY (t : aff) : mat expr :=
  let c := ECos (h t) in let s := mi_sin (h t) in let s' := i_sin (h t) in
  [[c;e0;e0;s'];[e0;c;s;e0];[e0;s;c;e0];[s';e0;e0;c]].
Definition S_RZZ (t : aff) : mat expr :=
  [[cisn (h t);e0;e0;e0];[e0;cis_ (h t);e0;e0];[e0;e0;cis_ (h t);e0];[e0;e0;e0;cisn (h t)]].
Definition S_RZX (t : aff) : mat expr :=
  let c := ECos (h t) in let s := mi_sin (h t) in let s' := i_sin (h t) in
  [[c;s;e0;e0];[s;c;e0;e0];[e0;e0;c;s'];[e0;e0;s';c]].
Definition S_RXXYY (t : aff) : mat expr :=
  let c := ECos (h t) in let s := mi_sin (h t) in
  [[e1;e0;e0;e0];[e0;c;s;e0];[e0;s;c;e0];[e0;e0;e0;e1]].
Definition S_MS (p0 p1 t : aff) : mat expr :=
  let c := ECos (h t) in let s := ESin (h t) in
  let pl := aadd p0 p1 in let mn := aadd p0 (aneg p1) in
  [[c;e0;e0;EMul (EMul emi (cisn pl)) s];
   [e0;c;EMul (EMul emi (cisn mn)) s;e0];
   [e0;EMul (EMul emi (cis_ mn)) s;c;e0];
   [EMul (EMul emi (cis_ pl)) s;e0;e0;c]].
Definition S_GIVENS (t : aff) : mat expr :=
  [[e1;e0;e0;e0];[e0;ECos t;ENeg (ESin t);e0];[e0;ESin t;ECos t;e0];[e0;e0;e0;e1]].
Definition S_RBS (t : aff) : mat expr :=
  [[e1;e0;e0;e0];[e0;ECos t;ESin t;e0];[e0;ENeg (ESin t);ECos t;e0];[e0;e0;e0;e1]].
Definition S_ECR : mat expr :=
  scale isq2 [[e0;e0;e1;ei];[e0;e0;ei;e1];[e1;emi;e0;e0];[emi;e1;e0;e0]].

(* ---- three-qubit ---- *)
Definition S_TOFFOLI : mat expr := ctrl_block 6 S_X.
Definition S_CCZ : mat expr := ctrl_block 6 S_Z.
Definition S_DEUTSCH (t : aff) : mat expr :=
  ctrl_block 6 [[EMul ei (ECos t); ESin t]; [ESin t; EMul ei (ECos t)]].

(* ---- GeneralizedRBS on m "in" and m' "out" qubits ----
   The reconfigurable beam splitter RBS (documented 4x4 matrix above) generalised to the two basis
   states |1..1>_in |0..0>_out (index i_in) and |0..0>_in |1..1>_out (index i_out): identity elsewhere,
   and on (i_in, i_out) the rotation  [[e^{i phi} cos, -e^{i phi} sin], [e^{-i phi} sin, e^{-i phi} cos]].
   For m = m' = 1, phi = 0 this is exactly the documented RBS(theta).  (The class docstring prints
   the block with the rows in the other order and phi -> -phi; the decomposition of the gate, C08,
   agrees with the matrix below.) *)
Definition grbs_entry (iin iout r c : nat) (t p : aff) : expr :=
  if Nat.eqb r c then
    (if Nat.eqb r iin then EMul (cis_ p) (ECos t)
     else if Nat.eqb r iout then EMul (cisn p) (ECos t) else e1)
  else if Nat.eqb r iin && Nat.eqb c iout then ENeg (EMul (cis_ p) (ESin t))
  else if Nat.eqb r iout && Nat.eqb c iin then EMul (cisn p) (ESin t)
  else e0.
Definition S_GeneralizedRBS (m m' : nat) (t p : aff) : mat expr :=
  let d := Nat.pow 2 (m + m') in
  let iin := ((Nat.pow 2 m - 1) * Nat.pow 2 m')%nat in
  let iout := (Nat.pow 2 m' - 1)%nat in
  map (fun r => map (fun c => grbs_entry iin iout r c t p) (seq 0 d)) (seq 0 d).
