(* C09/InstMat.v : the abstract interpretation structure [interp] of C09/ProofsSem.v instantiated
   with the concrete dense operators of Base/Mat.v, so that routing_ok specialises to real matrices.

   States are amplitude tensors (functions from n-bit strings), equal when they agree on all n-bit
   strings.  A gate g = (kind, tag, qubits) acts as  embed n qubits (matrix of (kind, tag, arity)),
   where the matrix table is ARBITRARY except that (KU, tag 0, arity 2) is SWAP (the gate the router
   inserts); gates whose qubit list is not duplicate-free / in range act as the identity (the real
   code rejects them).  [ipact f] moves qubit position i to f i (matrix: Base/SemPerm.pmat).
   All laws of [interp] are PROVED (Base/Sem.v, Base/SemPerm.v): nothing is assumed. *)
From Coq Require Import List Arith Bool Lia.
From QV Require Import Base.Mat C01.Model C01.Spec C01.Lib C01.ProofsSV C01.ProofsCtrl C01.ProofsMat Base.Sem Base.SemPerm.
From QV Require Import C09.Trace C09.ModelRouter C09.ModelBlocks C09.ProofsRouter C09.ProofsSem.
Import ListNotations.

Section InstMat.
  Context {T : Type} (K : ops T).
  Hypothesis HK : semiring K.
  Variable n : nat.
  (* matrix of a gate class: kind, tag, number of qubits *)
  Variable tbl : kind -> nat -> nat -> mat T.

  Definition swap_like (g : gate) : bool :=
    kind_eqb (gkind g) KU && Nat.eqb (gtag g) 0 && Nat.eqb (length (gqs g)) 2.
  Definition gmat (g : gate) : mat T :=
    if swap_like g then SemPerm.SWAP K else tbl (gkind g) (gtag g) (length (gqs g)).
  Definition good (g : gate) : bool :=
    C01.Model.nodupb (gqs g) && forallb (fun q => q <? n) (gqs g).

  Definition St := tensor (T:=T).
  Definition steq (t t' : St) : Prop := forall b, length b = n -> t b = t' b.
  Definition mact_gate (g : gate) (t : St) : St :=
    if good g then gate_action K (gqs g) (gmat g) t else t.
  Definition mpact (f : nat -> nat) (t : St) : St := pact n f t.

  Lemma good_spec g : good g = true -> NoDup (gqs g) /\ (forall q, In q (gqs g) -> q < n).
  Proof.
    unfold good. rewrite andb_true_iff, forallb_forall. intros [H1 H2]. split.
    - now apply C01.Lib.nodupb_NoDup.
    - intros q Hq. apply Nat.ltb_lt. auto.
  Qed.

  Lemma good_intro qs k tg : NoDup qs -> (forall q, In q qs -> q < n) -> good (mkG k tg qs) = true.
  Proof.
    intros H1 H2. unfold good. cbn [gqs]. rewrite andb_true_iff, forallb_forall. split.
    - now apply C01.Lib.nodupb_NoDup.
    - intros q Hq. apply Nat.ltb_lt. auto.
  Qed.

  Lemma perm_on_fn f : perm_on n f -> perm_fn n f.
  Proof. intros H. exact H. Qed.

  Lemma good_relabel f g : perm_on n f -> (forall q, In q (gqs g) -> q < n) ->
    good (mkG (gkind g) (gtag g) (map f (gqs g))) = good g.
  Proof.
    intros [Hr Hi] Hq. destruct (good g) eqn:G.
    - apply good_spec in G. destruct G as [G1 G2]. apply good_intro.
      + apply NoDup_map_inj; [|assumption]. intros x y Hx Hy. apply Hi; auto.
      + intros q Hq'. apply in_map_iff in Hq'. destruct Hq' as [x [<- Hx]]. apply Hr. auto.
    - destruct (good (mkG (gkind g) (gtag g) (map f (gqs g)))) eqn:G'; [|reflexivity].
      apply good_spec in G'. cbn [gqs] in G'. destruct G' as [G1 _].
      assert (good g = true); [|congruence].
      destruct g as [k tg qs]. apply good_intro; [|exact Hq]. cbn [gqs] in *.
      clear G. induction qs as [|a qs IH]; [constructor|]. simpl in G1. inversion G1; subst. constructor.
      + intros Ha. apply H1. now apply in_map.
      + apply IH; auto. intros; apply Hq; now right.
  Qed.

  Lemma gmat_relabel f g : gmat (mkG (gkind g) (gtag g) (map f (gqs g))) = gmat g.
  Proof. unfold gmat, swap_like. cbn [gkind gtag gqs]. now rewrite map_length. Qed.

  Definition mat_interp : interp n.
  Proof.
    refine (mkInterp n St steq mact_gate mpact _ _ _ _ _ _ _ _ _ _ _).
    - intros x b _. reflexivity.
    - intros x y H b Hb. symmetry. now apply H.
    - intros x y z H1 H2 b Hb. now rewrite H1, H2.
    - (* act respects equality *)
      intros g x y H b Hb. unfold mact_gate. destruct (good g); [|now apply H].
      apply (gate_action_ext_pts K). intros s _. apply H. now rewrite C01.Lib.upd_length.
    - intros f x y H b Hb. unfold mpact, pact. apply H. now rewrite sel_length, flist_length.
    - intros f g x H b Hb. unfold mpact. now apply pact_ext.
    - intros x b Hb. unfold mpact. now apply pact_id.
    - intros f g x Hf Hg b Hb. unfold mpact. apply pact_comp. apply Hg.
    - (* equivariance *)
      intros f g x Hf Hq b Hb. unfold mact_gate. rewrite good_relabel, gmat_relabel by assumption.
      cbn [gqs]. destruct (good g) eqn:G.
      + unfold mpact. apply (gate_action_equivariant K n f); auto.
      + reflexivity.
    - (* SWAP *)
      intros p q x Hp Hq Hpq b Hb. unfold mact_gate.
      rewrite good_intro.
      + cbn [gqs]. unfold gmat, swap_like. cbn. unfold mpact. now apply (swap_action K HK).
      + repeat constructor; simpl; intuition.
      + intros y [<-|[<-|[]]]; assumption.
    - (* disjoint gates commute *)
      intros g h x D b Hb. unfold mact_gate.
      destruct (good g) eqn:Gg, (good h) eqn:Gh; try reflexivity.
      apply good_spec in Gg. apply good_spec in Gh.
      apply (gate_action_comm K HK n); try tauto; exact D.
  Defined.

  (* reading on vectors and matrices *)
  Lemma mact_gate_is_embed g v b : good g = true -> length v = 2 ^ n -> length b = n ->
    mact_gate g (vtens K v) b = vtens K (mvmul K (embed K n (gqs g) (gmat g)) v) b.
  Proof.
    intros G Hv Hb. unfold mact_gate. rewrite G. apply good_spec in G. destruct G as [G1 G2].
    rewrite (mvmul_embed K HK) by assumption. now rewrite (vtens_tvec K).
  Qed.

  Lemma mpact_is_pmat f t b : length b = n -> mpact f t b = mact K n (pmat K n f) t b.
  Proof. intros Hb. symmetry. now apply (mact_pmat K HK). Qed.

  (* routing_ok for the concrete operators: the routed circuit equals the qubit permutation of the
     final layout applied after the input circuit, amplitude by amplitude *)
  Theorem routing_ok_matrices G items finals ops s :
    wf_items n items ->
    (forall g q, In g finals -> In q (gqs g) -> q < n) ->
    run n (full_guard G) (init n items) ops = Some s -> rem s = [] ->
    forall (x : St) b, length b = n ->
      irun mat_interp (eflat (out s) ++ append_final (l2p s) finals) x b
      = pact n (at_ (final_layout s)) (irun mat_interp (flat_map igates items ++ finals) x) b.
  Proof.
    intros W F R E x b Hb.
    exact (routing_sem_interp n mat_interp G items finals ops s W F R E x b Hb).
  Qed.
End InstMat.

Print Assumptions routing_ok_matrices.
