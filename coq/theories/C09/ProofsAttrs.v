(* C09/ProofsAttrs.v : proofs about C09/ModelAttrs.v *)
From Coq Require Import List Arith Bool Lia.
From QV Require Import C09.ModelRouter C09.ModelStar C09.ModelAttrs.
Import ListNotations.

Lemma set_names_inv a w a' : set_names a w = Some a' -> a' = mkA (a_n a) w w /\ names_ok (a_n a) w = true.
Proof. unfold set_names. destruct (names_ok (a_n a) w) eqn:E; [|discriminate]. intro H; inversion H; auto. Qed.

Lemma new_circ_inv n w a : new_circ n w = Some a -> a = mkA n w w /\ names_ok n w = true.
Proof. unfold new_circ. destruct (names_ok n w) eqn:E; [|discriminate]. intro H; inversion H; auto. Qed.

Lemma last_default_irrelevant {A} : forall (l : list A) x d d', last (x :: l) d = last (x :: l) d'.
Proof. induction l as [|y l IH]; intros x d d'; [reflexivity|]. cbn [last] in *. apply (IH y). Qed.

(* the state after a history is the state of a fresh circuit created with the last assigned names *)
Lemma run_sets_fresh : forall ops a a', run_sets a ops = Some a' ->
  names_ok (a_n a) (a_live a) = true -> a_kw a = a_live a ->
  new_circ (a_n a) (last ops (a_live a)) = Some a'.
Proof.
  induction ops as [|w rest IH]; intros a a' H Hok Hs.
  - cbn in H. inversion H; subst a'. cbn [last]. unfold new_circ. rewrite Hok.
    destruct a as [n l k]. cbn in *. subst k. reflexivity.
  - cbn [run_sets] in H. destruct (set_names a w) as [a1|] eqn:E; [|discriminate].
    apply set_names_inv in E. destruct E as [-> Hw].
    specialize (IH _ _ H Hw eq_refl). cbn [a_n a_live] in IH.
    destruct rest as [|w2 rest'].
    + cbn [last] in *. exact IH.
    + change (last (w :: w2 :: rest') (a_live a)) with (last (w2 :: rest') (a_live a)).
      rewrite (last_default_irrelevant rest' w2 (a_live a) w). exact IH.
Qed.

Lemma history_vs_fresh_lemma : forall n w0 ops a0 a,
  new_circ n w0 = Some a0 -> run_sets a0 ops = Some a -> new_circ n (last ops w0) = Some a.
Proof.
  intros n w0 ops a0 a H0 H. apply new_circ_inv in H0. destruct H0 as [-> Hok].
  exact (run_sets_fresh ops _ _ H Hok eq_refl).
Qed.

Lemma attrs_sync_lemma : forall n w0 ops a0 a,
  new_circ n w0 = Some a0 -> run_sets a0 ops = Some a ->
  a_n a = n /\ a_kw a = a_live a /\ kw_names a = live_names a.
Proof.
  intros n w0 ops a0 a H0 H. pose proof (history_vs_fresh_lemma _ _ _ _ _ H0 H) as Hf.
  apply new_circ_inv in Hf. destruct Hf as [-> _]. repeat split.
Qed.

Lemma rebuild_lemma : forall n w0 ops a0 a,
  new_circ n w0 = Some a0 -> run_sets a0 ops = Some a ->
  exists a', rebuild a = Some a' /\ a' = a /\ live_names a' = live_names a.
Proof.
  intros n w0 ops a0 a H0 H. pose proof (history_vs_fresh_lemma _ _ _ _ _ H0 H) as Hf.
  pose proof Hf as Hf2. apply new_circ_inv in Hf2. destruct Hf2 as [-> Hok].
  exists (mkA n (last ops w0) (last ops w0)). unfold rebuild. cbn [a_n a_kw]. auto.
Qed.

(* relabelling by the default names is the identity on graphs over 0..n-1 *)
Lemma index_of_seq_from : forall n s x, s <= x < s + n -> index_of x (seq s n) = x - s.
Proof.
  induction n as [|n IH]; intros s x Hx; [lia|].
  cbn [seq index_of]. destruct (s =? x) eqn:E.
  - apply Nat.eqb_eq in E. lia.
  - apply Nat.eqb_neq in E. rewrite IH by lia. lia.
Qed.

Lemma relabel_default : forall n G, nodes_below n G = true -> relabel G (seq 0 n) = G.
Proof.
  intros n G. induction G as [|[a b] G IH]; intro H; [reflexivity|].
  cbn [nodes_below forallb fst snd] in H. apply andb_prop in H. destruct H as [Hab HG].
  apply andb_prop in Hab. destruct Hab as [Ha Hb]. apply Nat.ltb_lt in Ha. apply Nat.ltb_lt in Hb.
  unfold relabel in *. cbn [map fst snd]. rewrite !index_of_seq_from by lia. rewrite !Nat.sub_0_r.
  f_equal. apply IH. exact HG.
Qed.

Lemma used_graphs_default : forall n G k, nodes_below n G = true ->
  used_graphs G (repeat (seq 0 n) k) = repeat G k.
Proof.
  intros n G k HG. induction k as [|k IH]; [reflexivity|].
  cbn [repeat used_graphs]. unfold router_call. rewrite (relabel_default n G HG). rewrite IH. reflexivity.
Qed.
