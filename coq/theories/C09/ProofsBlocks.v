(* C09/ProofsBlocks.v : soundness of the executable reorder checker used on block_decomposition
   (and on the pipeline in C11): reorder_ok c c' = true  ->  c' is obtained from c by exchanging
   adjacent gates on disjoint qubits. *)
From Coq Require Import List Arith Bool Lia.
From QV Require Import C09.Trace C09.ModelRouter C09.ModelBlocks C09.ProofsRouter.
Import ListNotations.

Lemma list_eqb_eq a b : list_eqb a b = true -> a = b.
Proof.
  revert b. induction a as [|x a IH]; intros [|y b] H; cbn in H; try discriminate; auto.
  apply andb_prop in H. destruct H as [H1 H2]. apply Nat.eqb_eq in H1. subst. f_equal. auto.
Qed.

Lemma gate_eqb_eq a b : gate_eqb a b = true -> a = b.
Proof.
  unfold gate_eqb. intro H. apply andb_prop in H. destruct H as [H H3].
  apply andb_prop in H. destruct H as [H1 H2].
  apply Nat.eqb_eq in H2. apply list_eqb_eq in H3.
  destruct a as [ka ta qa], b as [kb tb qb]. cbn in *. subst.
  destruct ka, kb; cbn in H1; try discriminate; reflexivity.
Qed.

Lemma gdisjb_sound a b : gdisjb a b = true -> Dgate a b.
Proof. unfold gdisjb, Dgate. apply disjb_spec. Qed.

Theorem reorder_ok_sound c c' : reorder_ok c c' = true -> teq Dgate c c'.
Proof.
  unfold reorder_ok. apply lin_check_sound.
  - exact gdisjb_sound.
  - intros a b H. apply gate_eqb_eq. exact H.
Qed.

(* whenever the per-run check of the block decomposition model passes, flattening the blocks is
   trace-equivalent to the (measurement-split) input *)
Theorem blocks_reorder_sound n gs bs :
  block_decomposition n gs = Some bs ->
  reorder_ok (split_meas gs) (flat_map igates bs) = true ->
  teq Dgate (split_meas gs) (flat_map igates bs).
Proof. intros _ H. apply reorder_ok_sound. exact H. Qed.
