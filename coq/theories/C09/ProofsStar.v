(* C09/ProofsStar.v : StarConnectivityRouter (deterministic model ModelStar.star_loop) is a
   GUARDED run of the generic routing transition system on a star graph, so every theorem about
   guarded runs (edges, bijective layout, un-routing, P.U) applies to it. *)
From Coq Require Import List Arith Bool Lia.
From QV Require Import C09.Trace C09.ModelRouter C09.ModelBlocks C09.ModelStar C09.ProofsRouter.
Import ListNotations.

Definition star_graph (n mid : nat) (G : graph) : Prop :=
  mid < n /\ forall p, p < n -> p <> mid -> has_edge G p mid = true.

Definition items_from (i : nat) (queue : list gate) : list item :=
  map (fun ig => mkI (fst ig) (gqs (snd ig)) [snd ig]) (combine (seq i (length queue)) queue).

Lemma items_from_cons i g rest :
  items_from i (g :: rest) = mkI i (gqs g) [g] :: items_from (S i) rest.
Proof. reflexivity. Qed.

Lemma gate_items_from queue : gate_items queue = items_from 0 queue.
Proof. reflexivity. Qed.

(* ---- index_of on a bijective map is the inverse map *)
Lemma index_of_first : forall l x j,
  j < length l -> at_ l j = x -> (forall k, k < j -> at_ l k <> x) -> index_of x l = j.
Proof.
  induction l as [|y l IH]; intros x j Hj E F; cbn in Hj; [lia|].
  cbn [index_of]. destruct j as [|j].
  - unfold at_ in E. cbn in E. subst. rewrite Nat.eqb_refl. reflexivity.
  - destruct (y =? x) eqn:Eyx.
    + apply Nat.eqb_eq in Eyx. exfalso. apply (F 0); [lia|]. exact Eyx.
    + f_equal. apply IH; [lia| exact E |]. intros k Hk. apply (F (S k)). lia.
Qed.

Lemma index_of_inv n l p x : wf_maps n l p -> x < n -> index_of x l = at_ p x.
Proof.
  intros W Hx. assert (W0 := W). destruct W0 as (Ll & Lp & H1 & H2).
  destruct (H2 x Hx) as [A B].
  apply index_of_first; [lia | exact B |].
  intros k Hk E. assert (Hk' : k < n) by lia.
  destruct (H1 k Hk') as [_ E']. rewrite E in E'. lia.
Qed.

Lemma upd_comm (l : list nat) i j x y : i <> j -> upd (upd l i x) j y = upd (upd l j y) i x.
Proof.
  intro N. apply list_at_ext.
  - rewrite !upd_length. reflexivity.
  - intros k Hk. rewrite !upd_length in Hk.
    destruct (Nat.eq_dec k i) as [->|Ni].
    { rewrite swap2_a by (auto; lia). rewrite swap2_b by lia. reflexivity. }
    destruct (Nat.eq_dec k j) as [->|Nj].
    { rewrite swap2_b by lia. rewrite swap2_a by (auto; lia). reflexivity. }
    rewrite !swap2_o by auto. reflexivity.
Qed.

Lemma find_connected_in : forall queue a poss m x,
  find_connected a poss queue m = Some x -> x = a \/ In x poss.
Proof.
  induction queue as [|g rest IH]; intros a poss m x H; cbn [find_connected] in H.
  - inversion H. left. reflexivity.
  - destruct (is_meas g); [eapply IH; eauto|].
    destruct (2 <? nq g); [discriminate|].
    destruct (nq g =? 2).
    + remember (filter (fun x0 => mem x0 (map (at_ m) (gqs g))) poss) as poss'.
      assert (Sub : forall y, In y poss' -> In y poss).
      { intros y Hy. subst poss'. apply filter_In in Hy. tauto. }
      destruct poss' as [|y [|z r]].
      * inversion H. left. reflexivity.
      * inversion H; subst. right. apply Sub. left. reflexivity.
      * destruct (IH _ _ _ _ H) as [E|E]; [left; exact E | right; apply Sub; exact E].
    + eapply IH; eauto.
Qed.

(* ---- one exec step on the head item *)
Lemma subsetb_refl l : subsetb l l = true.
Proof. apply forallb_forall. intros q Hq. apply mem_In. exact Hq. Qed.

Lemma exec_head n G s i g R :
  rem s = mkI i (gqs g) [g] :: R ->
  (forall q, In q (gqs g) -> q < n) ->
  step n s (OExec i) =
    Some (mkS R (l2p s) (p2l s) (out s ++ [EB [relabel (l2p s) g]]) (done s ++ [mkI i (gqs g) [g]])) /\
  guard_front s (OExec i) = true /\
  guard_edge G s (OExec i) =
    negb (entangling g) ||
    match gqs g with [a; b] => has_edge G (at_ (l2p s) a) (at_ (l2p s) b) | _ => false end.
Proof.
  intros E Hq. cbn [step guard_front guard_edge]. unfold in_front, edge_ok. rewrite E.
  cbn [extract iname]. rewrite Nat.eqb_refl. cbn [igates iqs forallb app entangled existsb].
  rewrite subsetb_refl. cbn [andb].
  assert (F : forallb (fun q => q <? n) (gqs g) = true).
  { apply forallb_forall. intros q Hin. apply Nat.ltb_lt. apply Hq. exact Hin. }
  rewrite F. rewrite orb_false_r. repeat split.
Qed.

Lemma run_cons n chk s o s1 ops :
  chk s o = true -> step n s o = Some s1 -> run n chk s (o :: ops) = run n chk s1 ops.
Proof. intros C St. cbn [run]. rewrite C, St. reflexivity. Qed.

Lemma eflat_snoc_EB o gs : eflat (o ++ [EB gs]) = eflat o ++ gs.
Proof. unfold eflat. rewrite flat_map_app. cbn. rewrite app_nil_r. reflexivity. Qed.
Lemma eflat_snoc_ES o p q : eflat (o ++ [ES p q]) = eflat o ++ [mkG KU 0 [p; q]].
Proof. unfold eflat. rewrite flat_map_app. reflexivity. Qed.

Lemma is_meas_not_entangling g : is_meas g = true -> entangling g = false.
Proof. unfold is_meas, entangling. destruct (gkind g); [discriminate | reflexivity]. Qed.

(* ---- the refinement *)
Theorem star_refines n mid G : star_graph n mid G -> forall queue i s o l,
  wf_maps n (l2p s) (p2l s) ->
  rem s = items_from i queue ->
  (forall g q, In g queue -> In q (gqs g) -> q < n) ->
  (forall g, In g queue -> nodupb (gqs g) = true) ->
  star_loop mid (l2p s) queue (eflat (out s)) = Some (o, l) ->
  exists ops s', star_ops mid (l2p s) i queue = Some ops /\
                 run n (full_guard G) s ops = Some s' /\
                 eflat (out s') = o /\ l2p s' = l /\ rem s' = [].
Proof.
  intros [Hmid Star] queue. induction queue as [|g rest IH]; intros i s o l W Er Hq Hn H.
  - cbn in H. inversion H; subst. exists [], s. cbn. repeat split; auto.
  - assert (Hqg : forall q, In q (gqs g) -> q < n) by (intros q Hin; apply (Hq g q); [left; reflexivity | exact Hin]).
    assert (Hq' : forall g0 q, In g0 rest -> In q (gqs g0) -> q < n) by (intros g0 q Hg0; apply Hq; right; exact Hg0).
    assert (Hn' : forall g0, In g0 rest -> nodupb (gqs g0) = true) by (intros g0 Hg0; apply Hn; right; exact Hg0).
    rewrite items_from_cons in Er.
    destruct (exec_head n G s i g _ Er Hqg) as (St & GF & GE).
    (* the state after executing g with the current layout *)
    set (s1 := mkS (items_from (S i) rest) (l2p s) (p2l s) (out s ++ [EB [relabel (l2p s) g]])
                   (done s ++ [mkI i (gqs g) [g]])) in *.
    assert (plain : forall (Gd : guard_edge G s (OExec i) = true),
               star_loop mid (l2p s) rest (eflat (out s) ++ [relabel (l2p s) g]) = Some (o, l) ->
               exists ops s', option_map (cons (OExec i)) (star_ops mid (l2p s) (S i) rest) = Some ops /\
                              run n (full_guard G) s ops = Some s' /\
                              eflat (out s') = o /\ l2p s' = l /\ rem s' = []).
    { intros Gd H'.
      destruct (IH (S i) s1 o l) as (ops & s' & O & Rn & A & B & C); auto.
      - unfold s1. cbn [out l2p]. rewrite eflat_snoc_EB. exact H'.
      - exists (OExec i :: ops), s'. unfold s1 in O. cbn [l2p] in O. rewrite O. cbn [option_map].
        split; [reflexivity|]. split; [|auto].
        rewrite (run_cons n (full_guard G) s (OExec i) s1); auto.
        unfold full_guard. rewrite GF, Gd. reflexivity. }
    cbn [star_loop star_ops] in *.
    destruct (is_meas g) eqn:Em.
    { apply plain; auto. rewrite GE, (is_meas_not_entangling g Em). reflexivity. }
    rewrite map_length in *.
    destruct (2 <? length (gqs g)) eqn:E2; [discriminate|]. apply Nat.ltb_ge in E2.
    destruct (gqs g) as [|a [|b [|c r]]] eqn:Eg; cbn [map] in *; try (cbn in E2; lia).
    + apply plain; auto. rewrite GE. unfold entangling. rewrite Eg. destruct (gkind g); reflexivity.
    + apply plain; auto. rewrite GE. unfold entangling. rewrite Eg. destruct (gkind g); reflexivity.
    + (* a two-qubit gate on logical (a,b) *)
      assert (Ha : a < n) by (apply Hqg; left; reflexivity).
      assert (Hb : b < n) by (apply Hqg; right; left; reflexivity).
      assert (Nab : a <> b).
      { specialize (Hn g (or_introl eq_refl)). rewrite Eg in Hn. cbn in Hn.
        apply andb_prop in Hn. destruct Hn as [Hn _]. apply negb_true_iff in Hn.
        rewrite orb_false_r in Hn. apply Nat.eqb_neq in Hn. exact Hn. }
      assert (W0 := W). destruct W0 as (Ll & Lp & H1 & H2).
      destruct (H1 a Ha) as [RA EqA]. destruct (H1 b Hb) as [RB EqB].
      set (ra := at_ (l2p s) a) in *. set (rb := at_ (l2p s) b) in *.
      assert (Nr : ra <> rb) by (intro E; apply Nab; eapply wf_maps_inj; eauto).
      destruct (negb (mem mid [ra; rb])) eqn:Emid.
      * (* the middle qubit is not involved: SWAP first *)
        apply negb_true_iff in Emid.
        assert (Nma : mid <> ra) by (intro E; rewrite E in Emid; cbn in Emid; rewrite Nat.eqb_refl in Emid; discriminate).
        assert (Nmb : mid <> rb).
        { intro E. rewrite E in Emid. cbn in Emid. rewrite Nat.eqb_refl, !orb_true_r in Emid. discriminate. }
        destruct (find_connected ra (if ra =? rb then [ra] else [ra; rb]) rest (l2p s)) as [nm|] eqn:Ef; [|discriminate].
        assert (Hnm : nm = ra \/ nm = rb).
        { destruct (find_connected_in _ _ _ _ _ Ef) as [E|E]; [left; exact E|].
          destruct (ra =? rb); cbn in E; intuition congruence. }
        assert (Lnm : nm < n) by (destruct Hnm as [->| ->]; auto).
        assert (Nnm : nm <> mid) by (destruct Hnm as [->| ->]; intro E'; [apply Nma | apply Nmb]; symmetry; exact E').
        rewrite (index_of_inv n _ _ mid W Hmid) in *.
        rewrite (index_of_inv n _ _ nm W Lnm) in *.
        destruct (H2 mid Hmid) as [I1 J1]. destruct (H2 nm Lnm) as [I2 J2].
        set (i1 := at_ (p2l s) mid) in *. set (i2 := at_ (p2l s) nm) in *.
        assert (N12 : i2 <> i1).
        { intro E. apply Nnm. rewrite <- J1, <- J2, E. reflexivity. }
        (* the swap step *)
        assert (Csw : (i2 <? n) && (i1 <? n) && negb (i2 =? i1) = true).
        { apply andb_true_intro. split; [apply andb_true_intro; split; apply Nat.ltb_lt; auto|].
          apply negb_true_iff. apply Nat.eqb_neq. exact N12. }
        set (s2 := update_maps s i2 i1 nm mid (out s ++ [ES nm mid])).
        assert (St2 : step n s (OSwap i2 i1) = Some s2).
        { cbn [step]. rewrite Csw, J1, J2. reflexivity. }
        assert (G2 : full_guard G s (OSwap i2 i1) = true).
        { unfold full_guard. cbn [guard_front guard_edge]. rewrite J1, J2. apply Star; auto. }
        assert (L2 : l2p s2 = swap_entries (l2p s) i1 i2).
        { unfold s2, swap_entries. cbn [l2p update_maps]. rewrite J1, J2. apply upd_comm. exact N12. }
        assert (W2 : wf_maps n (l2p s2) (p2l s2)).
        { pose proof (wf_maps_swap n _ _ i2 i1 W I2 I1 N12) as W'. rewrite J1, J2 in W'. exact W'. }
        assert (Er2 : rem s2 = mkI i (gqs g) [g] :: items_from (S i) rest) by (rewrite Eg; exact Er).
        assert (Hqg' : forall q, In q (gqs g) -> q < n) by (rewrite Eg; exact Hqg).
        destruct (exec_head n G s2 i g _ Er2 Hqg') as (St3 & GF3 & GE3).
        set (s3 := mkS (items_from (S i) rest) (l2p s2) (p2l s2) (out s2 ++ [EB [relabel (l2p s2) g]])
                       (done s2 ++ [mkI i (gqs g) [g]])) in *.
        (* edge guard of the exec after the swap *)
        assert (GE3' : guard_edge G s2 (OExec i) = true).
        { rewrite GE3, Eg. apply orb_true_iff. right.
          assert (La : at_ (l2p s2) a = if a =? i2 then mid else if a =? i1 then nm else ra).
          { unfold s2. cbn [l2p update_maps].
            destruct (Nat.eq_dec a i2) as [->|N2]; [rewrite Nat.eqb_refl; apply swap2_a; [lia|exact N12]|].
            destruct (Nat.eq_dec a i1) as [->|N1].
            - destruct (i1 =? i2) eqn:E; [apply Nat.eqb_eq in E; congruence|]. rewrite Nat.eqb_refl. apply swap2_b. lia.
            - rewrite swap2_o by auto. apply Nat.eqb_neq in N2, N1. rewrite N2, N1. reflexivity. }
          assert (Lb : at_ (l2p s2) b = if b =? i2 then mid else if b =? i1 then nm else rb).
          { unfold s2. cbn [l2p update_maps].
            destruct (Nat.eq_dec b i2) as [->|N2]; [rewrite Nat.eqb_refl; apply swap2_a; [lia|exact N12]|].
            destruct (Nat.eq_dec b i1) as [->|N1].
            - destruct (i1 =? i2) eqn:E; [apply Nat.eqb_eq in E; congruence|]. rewrite Nat.eqb_refl. apply swap2_b. lia.
            - rewrite swap2_o by auto. apply Nat.eqb_neq in N2, N1. rewrite N2, N1. reflexivity. }
          (* a, b are not i1 (their positions are not mid) *)
          assert (Na1 : a <> i1) by (intro E; apply Nma; unfold ra; rewrite E; symmetry; exact J1).
          assert (Nb1 : b <> i1) by (intro E; apply Nmb; unfold rb; rewrite E; symmetry; exact J1).
          rewrite La, Lb.
          destruct Hnm as [E|E].
          - assert (Hai : a = i2) by (unfold i2; rewrite E; symmetry; exact EqA).
            assert (Hai' : (a =? i2) = true) by (apply Nat.eqb_eq; exact Hai). rewrite Hai'.
            destruct (b =? i2) eqn:Eb; [apply Nat.eqb_eq in Eb; congruence|].
            destruct (b =? i1) eqn:Eb1; [apply Nat.eqb_eq in Eb1; congruence|].
            rewrite has_edge_sym. apply Star; auto.
          - assert (Hbi : b = i2) by (unfold i2; rewrite E; symmetry; exact EqB).
            assert (Hbi' : (b =? i2) = true) by (apply Nat.eqb_eq; exact Hbi). rewrite Hbi'.
            destruct (a =? i2) eqn:Ea; [apply Nat.eqb_eq in Ea; congruence|].
            destruct (a =? i1) eqn:Ea1; [apply Nat.eqb_eq in Ea1; congruence|].
            apply Star; auto. }
        rewrite <- L2 in H.
        destruct (IH (S i) s3 o l) as (ops & s' & O & Rn & A & B & C); auto.
        { unfold s3, s2. cbn [out l2p update_maps]. rewrite eflat_snoc_EB, eflat_snoc_ES.
          rewrite <- app_assoc. cbn [app]. unfold s2 in H. cbn [l2p update_maps] in H. exact H. }
        exists (OSwap i2 i1 :: OExec i :: ops), s'.
        rewrite <- L2. unfold s3 in O. cbn [l2p] in O. rewrite O. cbn [option_map].
        split; [reflexivity|]. split; [|auto].
        rewrite (run_cons n (full_guard G) s (OSwap i2 i1) s2); auto.
        rewrite (run_cons n (full_guard G) s2 (OExec i) s3); auto.
        unfold full_guard. rewrite GF3, GE3'. reflexivity.
      * (* the middle qubit is one of the two positions *)
        apply negb_false_iff in Emid. apply plain; auto.
        rewrite GE. apply orb_true_iff. right.
        cbn in Emid. rewrite orb_false_r in Emid. apply orb_prop in Emid.
        destruct Emid as [E|E]; apply Nat.eqb_eq in E.
        -- fold ra rb. rewrite <- E. rewrite has_edge_sym. apply Star; auto. rewrite E. auto.
        -- fold ra rb. rewrite <- E. apply Star; auto. rewrite E. auto.
Qed.

(* packaged for the whole router *)
Theorem star_router_refines n mid G queue o l :
  star_graph n mid G ->
  (forall g q, In g queue -> In q (gqs g) -> q < n) ->
  (forall g, In g queue -> nodupb (gqs g) = true) ->
  star_route n mid queue = Some (o, l) ->
  exists ops s, star_ops mid (seq 0 n) 0 queue = Some ops /\
                run n (full_guard G) (init n (gate_items queue)) ops = Some s /\
                eflat (out s) = o /\ l2p s = l /\ rem s = [].
Proof.
  intros SG Hq Hn H. unfold star_route in H.
  apply (star_refines n mid G SG queue 0 (init n (gate_items queue)) o l); auto.
  apply wf_maps_init.
Qed.

Lemma gate_items_wf n queue :
  (forall g q, In g queue -> In q (gqs g) -> q < n) ->
  (forall g, In g queue -> nodupb (gqs g) = true) ->
  wf_items n (gate_items queue).
Proof.
  intros Hq Hn it Hit. unfold gate_items in Hit. apply in_map_iff in Hit.
  destruct Hit as ([i g] & <- & Hin). apply in_combine_r in Hin. cbn [fst snd].
  unfold wf_item. cbn [iqs igates forallb]. rewrite subsetb_refl, (Hn g Hin). cbn.
  rewrite andb_true_r. apply forallb_forall. intros q Hq0. apply Nat.ltb_lt. eapply Hq; eauto.
Qed.

Lemma flat_items_from queue : forall i, flat_map igates (items_from i queue) = queue.
Proof.
  induction queue as [|g rest IH]; intro i; [reflexivity|].
  rewrite items_from_cons. cbn [flat_map igates app]. rewrite IH. reflexivity.
Qed.
