(* C09/ModelAttrs.v : executable model of the two pieces of long-lived state that a router call
   reads besides the gate queue.  No proofs here.

   1. models/circuit.py: the wire names of a Circuit object.  The constructor and the
      [wire_names] setter store the names twice: in [_wire_names] (read by the [wire_names]
      property: the live names) and in [init_kwargs["wire_names"]] (read by every
      [Circuit(kwargs = circuit.init_kwargs)]: Circuit.copy / __add__ / invert, CircuitMap.routed_circuit,
      and therefore by the output circuit and the final layout of Sabre / ShortestPaths).
      Names are numbers (the harness numbers string labels from 1000 on; integer labels are
      themselves, because the default names [None] are the integers 0..n-1).
   2. transpiler/router.py: the [connectivity] attribute of a Sabre / ShortestPaths object,
      which [_preprocessing] overwrites with the graph relabelled to circuit positions. *)
From Coq Require Import List Arith Bool Lia.
From QV Require Import C09.ModelRouter C09.ModelStar.
Import ListNotations.

(* ---- 1. circuit attributes *)
Record cattr := mkA { a_n : nat; a_live : option (list nat); a_kw : option (list nat) }.

(* the setter raises ValueError when the number of names differs from nqubits; None = default *)
Definition names_ok (n : nat) (w : option (list nat)) : bool :=
  match w with None => true | Some l => length l =? n end.

(* Circuit(n, wire_names=w) *)
Definition new_circ (n : nat) (w : option (list nat)) : option cattr :=
  if names_ok n w then Some (mkA n w w) else None.

(* circuit.wire_names = w *)
Definition set_names (a : cattr) (w : option (list nat)) : option cattr :=
  if names_ok (a_n a) w then Some (mkA (a_n a) w w) else None.

Definition view (n : nat) (w : option (list nat)) : list nat :=
  match w with Some l => l | None => seq 0 n end.
(* circuit.wire_names *)
Definition live_names (a : cattr) : list nat := view (a_n a) (a_live a).
(* Circuit(kwargs = circuit.init_kwargs).wire_names *)
Definition kw_names (a : cattr) : list nat := view (a_n a) (a_kw a).
(* Circuit(kwargs = circuit.init_kwargs) *)
Definition rebuild (a : cattr) : option cattr := new_circ (a_n a) (a_kw a).

(* a history of assignments on one circuit object *)
Fixpoint run_sets (a : cattr) (ops : list (option (list nat))) : option cattr :=
  match ops with
  | [] => Some a
  | w :: rest => match set_names a w with Some a' => run_sets a' rest | None => None end
  end.

(* what the harness evaluates: (live names, names of the rebuilt circuit) after a history;
   ([], []) stands for "an assignment raises" (never produced by the generators) *)
Definition attrs_after (n : nat) (w0 : option (list nat)) (ops : list (option (list nat)))
  : list nat * list nat :=
  match new_circ n w0 with
  | None => ([], [])
  | Some a0 => match run_sets a0 ops with
               | None => ([], [])
               | Some a => match rebuild a with
                           | Some a' => (live_names a, live_names a')
                           | None => ([], [])
                           end
               end
  end.

(* ---- 2. the connectivity attribute of a reused router.  A graph is its edge list; the node
   labels are relabelled to circuit positions: v |-> wire_names.index(v) *)
Definition relabel (G : list (nat * nat)) (w : list nat) : list (nat * nat) :=
  map (fun e => (index_of (fst e) w, index_of (snd e) w)) G.

(* one call of router(circuit): the graph the routing loop uses, which is also the new value of
   router.connectivity *)
Definition router_call (conn : list (nat * nat)) (w : list nat) : list (nat * nat) := relabel conn w.

(* the graphs used by the successive calls of ONE router object that is called on circuits with
   wire names ws without its connectivity being assigned again *)
Fixpoint used_graphs (conn : list (nat * nat)) (ws : list (list nat)) : list (list (nat * nat)) :=
  match ws with
  | [] => []
  | w :: rest => let g := router_call conn w in g :: used_graphs g rest
  end.

Definition nodes_below (n : nat) (G : list (nat * nat)) : bool :=
  forallb (fun e => (fst e <? n) && (snd e <? n)) G.
