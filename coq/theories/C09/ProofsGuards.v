(* C09/ProofsGuards.v : swap_guard_<Router> -- the swaps each router proposes meet the edge
   guard of the transition system (ShortestPaths._add_swaps: proved for the current source; the pre-repair
   formula is kept as a historical counterexample). *)
From Coq Require Import List Arith Bool Lia.
From QV Require Import C09.Trace C09.ModelRouter C09.ProofsRouter.
Import ListNotations.

Definition graph_ok (n : nat) (G : graph) : Prop :=
  forall e, In e G -> fst e < n /\ snd e < n /\ fst e <> snd e.

Lemma has_edge_ok n G p q : graph_ok n G -> has_edge G p q = true -> p < n /\ q < n /\ p <> q.
Proof.
  intros GO H. unfold has_edge in H. apply existsb_exists in H. destruct H as (e & He & C).
  destruct (GO e He) as (A & B & N).
  apply orb_prop in C. destruct C as [C|C]; apply andb_prop in C; destruct C as [C1 C2];
    apply Nat.eqb_eq in C1, C2; subst; repeat split; auto.
Qed.

Lemma neighbors_edge G p c : In c (neighbors G p) -> has_edge G p c = true.
Proof.
  unfold neighbors, has_edge. intro H. apply in_flat_map in H. destruct H as (e & He & Hc).
  apply existsb_exists. exists e. split; auto.
  apply in_app_or in Hc. destruct Hc as [Hc|Hc].
  - destruct (fst e =? p) eqn:E; [|destruct Hc]. destruct Hc as [<-|[]].
    rewrite Nat.eqb_refl. reflexivity.
  - destruct (snd e =? p) eqn:E; [|destruct Hc]. destruct Hc as [<-|[]].
    rewrite Nat.eqb_refl, andb_true_r. apply orb_true_r.
Qed.

(* ---- Sabre._swap_candidates *)
Theorem swap_guard_Sabre_candidates n G s a b :
  graph_ok n G -> wf_maps n (l2p s) (p2l s) ->
  (forall it q, In it (rem s) -> In q (iqs it) -> q < n) ->
  In (a, b) (swap_candidates G s) ->
  guard_edge G s (OSwap a b) = true /\ a < n /\ b < n /\ a <> b.
Proof.
  intros GO W R H. unfold swap_candidates in H.
  apply in_flat_map in H. destruct H as (it & Hit & H).
  apply in_flat_map in H. destruct H as (ql & Hql & H).
  apply in_map_iff in H. destruct H as (c & E & Hc).
  unfold front_items in Hit. apply filter_In in Hit. destruct Hit as [Hit _].
  assert (Lq : ql < n) by (eapply R; eauto).
  destruct W as (Ll & Lp & H1 & H2).
  destruct (H1 ql Lq) as [Pq Eq].
  set (p := at_ (l2p s) ql) in *.
  pose proof (neighbors_edge G p c Hc) as HE.
  destruct (has_edge_ok n G p c GO HE) as (_ & Cn & Npc).
  destruct (H2 p Pq) as [Ap Bp]. destruct (H2 c Cn) as [Ac Bc].
  assert (Nl : at_ (p2l s) p <> at_ (p2l s) c).
  { intro E'. apply Npc. rewrite <- Bp, <- Bc, E'. reflexivity. }
  unfold sorted_pair in E. cbn [guard_edge].
  destruct (at_ (p2l s) p <=? at_ (p2l s) c); inversion E; subst a b; rewrite Bp, Bc.
  - repeat split; auto.
  - rewrite has_edge_sym. repeat split; auto.
Qed.

(* ---- a swap whose physical pair is an edge always succeeds and keeps the maps well-formed *)
Lemma swap_step_ok n G s a b :
  graph_ok n G -> wf_maps n (l2p s) (p2l s) -> a < n -> b < n ->
  has_edge G (at_ (l2p s) a) (at_ (l2p s) b) = true ->
  exists s', step n s (OSwap a b) = Some s' /\ guard_edge G s (OSwap a b) = true /\
             wf_maps n (l2p s') (p2l s') /\
             l2p s' = upd (upd (l2p s) a (at_ (l2p s) b)) b (at_ (l2p s) a).
Proof.
  intros GO W Ha Hb HE.
  destruct (has_edge_ok n G _ _ GO HE) as (_ & _ & N).
  assert (Nab : a <> b) by (intro E; apply N; rewrite E; reflexivity).
  eexists. cbn [step guard_edge].
  assert (C : (a <? n) && (b <? n) && negb (a =? b) = true).
  { apply andb_true_intro. split; [apply andb_true_intro; split; apply Nat.ltb_lt; auto|].
    apply negb_true_iff. apply Nat.eqb_neq. exact Nab. }
  rewrite C. split; [reflexivity|]. split; [exact HE|]. split.
  - cbn [l2p p2l update_maps]. apply wf_maps_swap; auto.
  - reflexivity.
Qed.

(* ---- Sabre._shortest_path_routing: the moving logical qubit q1 walks along the path *)
Lemma sabre_sp_aux n G : graph_ok n G -> forall rest c s q1,
  wf_maps n (l2p s) (p2l s) -> is_path G (c :: rest) = true -> c < n -> q1 < n ->
  at_ (l2p s) q1 = c ->
  exists s', apply_swaps n (guard_edge G) s
               (map (fun q2 s => (q1, at_ (p2l s) q2)) (removelast rest)) = Some s'.
Proof.
  intros GO rest. induction rest as [|x rest IH]; intros c s q1 W P Hc Hq E.
  - cbn. eauto.
  - destruct rest as [|y r].
    + cbn. eauto.
    + change (removelast (x :: y :: r)) with (x :: removelast (y :: r)).
      cbn [map apply_swaps].
      cbn [is_path] in P. apply andb_prop in P. destruct P as [Pcx P].
      destruct (has_edge_ok n G _ _ GO Pcx) as (_ & Hx & Ncx).
      assert (W0 := W). destruct W0 as (Ll & Lp & H1 & H2).
      destruct (H2 x Hx) as [Ax Bx].
      assert (HE : has_edge G (at_ (l2p s) q1) (at_ (l2p s) (at_ (p2l s) x)) = true).
      { rewrite E, Bx. exact Pcx. }
      destruct (swap_step_ok n G s q1 (at_ (p2l s) x) GO W Hq Ax HE) as (s' & St & Gd & W' & L').
      rewrite Gd, St.
      apply (IH x s' q1); auto.
      rewrite L'. rewrite swap2_a; [exact Bx | lia |].
      intro E'. apply Ncx. rewrite <- E, <- Bx, <- E'. reflexivity.
Qed.

Theorem swap_guard_Sabre_shortest_path n G path s :
  graph_ok n G -> wf_maps n (l2p s) (p2l s) -> is_path G path = true -> 2 <= length path ->
  exists s', apply_swaps n (guard_edge G) s (sabre_sp_ops path (at_ (p2l s) (hd 0 path))) = Some s'.
Proof.
  intros GO W P L. destruct path as [|c [|x r]]; cbn in L; try lia.
  unfold sabre_sp_ops. cbn [hd tl].
  assert (P0 := P). cbn [is_path] in P0. apply andb_prop in P0. destruct P0 as [Pcx _].
  destruct (has_edge_ok n G _ _ GO Pcx) as (Hc & _ & _).
  destruct W as (Ll & Lp & H1 & H2). destruct (H2 c Hc) as [Ac Bc].
  apply (sabre_sp_aux n G GO (x :: r) c s (at_ (p2l s) c)); auto.
  unfold wf_maps; auto.
Qed.

(* ---- HISTORICAL: the pre-repair formula of ShortestPaths._add_swaps left the edges *)
Definition line6 : graph := [(0,1); (1,2); (2,3); (3,4); (4,5)].

Theorem add_swaps_prefix_formula_witness :
  is_path line6 [0;1;2;3;4;5] = true /\
  option_map (fun s' => emitted_swaps (out s'))
             (apply_swaps 6 no_guard (init 6 []) (add_swaps_prefix_formula_ops [0;1;2;3;4;5] 2))
    = Some [(1,0); (2,0); (4,5); (3,5)] /\
  apply_swaps 6 (guard_edge line6) (init 6 []) (add_swaps_prefix_formula_ops [0;1;2;3;4;5] 2) = None.
Proof. split; [reflexivity|]. split; vm_compute; reflexivity. Qed.

(* ---- _add_swaps (consecutive path nodes): proved *)
Lemma apply_swaps_app n chk f1 : forall s f2,
  apply_swaps n chk s (f1 ++ f2) =
  match apply_swaps n chk s f1 with Some s' => apply_swaps n chk s' f2 | None => None end.
Proof.
  induction f1 as [|g f1 IH]; intros s f2; cbn [app apply_swaps].
  - reflexivity.
  - destruct (g s) as [a b]. destruct (chk s (OSwap a b)); [|reflexivity].
    destruct (step n s (OSwap a b)); [apply IH | reflexivity].
Qed.

Lemma edge_pairs_ok n G : graph_ok n G -> forall prs s,
  wf_maps n (l2p s) (p2l s) ->
  (forall pf, In pf prs -> has_edge G (fst pf) (snd pf) = true) ->
  exists s', apply_swaps n (guard_edge G) s
               (map (fun pf s => (at_ (p2l s) (snd pf), at_ (p2l s) (fst pf))) prs) = Some s' /\
             wf_maps n (l2p s') (p2l s').
Proof.
  intros GO prs. induction prs as [|[u v] prs IH]; intros s W H.
  - cbn. eauto.
  - cbn [map apply_swaps fst snd].
    assert (HE := H (u, v) (or_introl eq_refl)). cbn [fst snd] in HE.
    destruct (has_edge_ok n G _ _ GO HE) as (Hu & Hv & _).
    assert (W0 := W). destruct W0 as (_ & _ & _ & H2).
    destruct (H2 u Hu) as [Au Bu]. destruct (H2 v Hv) as [Av Bv].
    assert (HE' : has_edge G (at_ (l2p s) (at_ (p2l s) v)) (at_ (l2p s) (at_ (p2l s) u)) = true).
    { rewrite Bu, Bv, has_edge_sym. exact HE. }
    destruct (swap_step_ok n G s _ _ GO W Av Au HE') as (s' & St & Gd & W' & _).
    rewrite Gd, St. apply IH; auto. intros pf Hpf. apply H. right. exact Hpf.
Qed.

Lemma in_consecutive_split (l : list nat) a b :
  In (a, b) (consecutive l) <-> exists l1 l2, l = l1 ++ a :: b :: l2.
Proof.
  split.
  - induction l as [|x l IH]; cbn; [tauto|].
    destruct l as [|y l']; [cbn; tauto|].
    intros [E|H].
    + inversion E; subst. exists [], l'. reflexivity.
    + destruct (IH H) as (l1 & l2 & E). exists (x :: l1), l2. rewrite E. reflexivity.
  - intros (l1 & l2 & ->). induction l1 as [|x l1 IH].
    + cbn. left. reflexivity.
    + destruct l1 as [|z l1'].
      * cbn. right. left. reflexivity.
      * change ((x :: z :: l1') ++ a :: b :: l2) with (x :: z :: (l1' ++ a :: b :: l2)).
        cbn [consecutive]. right. exact IH.
Qed.

Lemma is_path_pairs G l : is_path G l = true ->
  forall a b, In (a, b) (consecutive l) -> has_edge G a b = true.
Proof.
  induction l as [|x l IH]; cbn; [tauto|].
  destruct l as [|y l']; [cbn; tauto|].
  intros H a b [E|Hin].
  - inversion E; subst. apply andb_prop in H. tauto.
  - apply andb_prop in H. apply IH; tauto.
Qed.

Theorem swap_guard_ShortestPaths_add_swaps n G path mp s :
  graph_ok n G -> wf_maps n (l2p s) (p2l s) -> is_path G path = true ->
  exists s', apply_swaps n (guard_edge G) s (add_swaps_ops path mp) = Some s'.
Proof.
  intros GO W P. unfold add_swaps_ops. rewrite apply_swaps_app.
  assert (F : forall pf, In pf (consecutive (firstn (mp + 1) path)) -> has_edge G (fst pf) (snd pf) = true).
  { intros [a b] H. cbn. apply in_consecutive_split in H. destruct H as (l1 & l2 & E).
    apply (is_path_pairs G path P). apply in_consecutive_split.
    exists l1, (l2 ++ skipn (mp + 1) path).
    rewrite <- (firstn_skipn (mp + 1) path) at 1. rewrite E, <- app_assoc. reflexivity. }
  assert (B : forall pf, In pf (consecutive (rev (skipn (mp + 1) path))) -> has_edge G (fst pf) (snd pf) = true).
  { intros [a b] H. cbn. apply in_consecutive_split in H. destruct H as (l1 & l2 & E).
    rewrite has_edge_sym. apply (is_path_pairs G path P). apply in_consecutive_split.
    exists (firstn (mp + 1) path ++ rev l2), (rev l1).
    rewrite <- (firstn_skipn (mp + 1) path) at 1.
    rewrite <- (rev_involutive (skipn (mp + 1) path)), E.
    rewrite rev_app_distr. cbn [rev]. rewrite <- !app_assoc. reflexivity. }
  destruct (edge_pairs_ok n G GO _ s W F) as (s1 & E1 & W1). rewrite E1.
  destruct (edge_pairs_ok n G GO _ s1 W1 B) as (s2 & E2 & _). eauto.
Qed.
