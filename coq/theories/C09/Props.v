(* C09/Props.v : the property theorems (statements only; proofs in Proofs*.v) *)
From Coq Require Import List Arith Bool Lia.
From QV Require Import C09.Trace C09.ModelRouter C09.ProofsRouter.
Import ListNotations.

Theorem route_layout_bijective : forall n chk items ops s,
  run n chk (init n items) ops = Some s -> wf_maps n (l2p s) (p2l s).
Proof. exact route_maps_bijective. Qed.
Print Assumptions route_layout_bijective.
