(* C09/Props.v : the property theorems of C09 (statements; proofs live in Proofs*.v).
   Routing is a transition system (ModelRouter.v): every heuristic choice of Sabre /
   ShortestPaths (costs, seeds, look-ahead, decay, thresholds, undo) is just a choice of the next
   op, so statements over all op sequences cover all settings. *)
From Coq Require Import List Arith Bool Lia.
From QV Require Import C09.Trace C09.ModelRouter C09.ModelBlocks C09.ModelStar C09.ProofsRouter C09.ProofsSem
                       C09.ProofsGuards C09.ProofsBlocks C09.ProofsBlocksEquiv C09.ProofsStar
                       C09.ModelDag C09.ProofsDag C09.ProofsCompose C09.ProofsFrontBridge C09.ProofsProgress.
Import ListNotations.

(* 1. the two maps stay mutually inverse bijections of 0..n-1 (the final layout is a bijection),
      for every op sequence, guarded or not *)
Theorem route_layout_bijective : forall n chk items ops s,
  run n chk (init n items) ops = Some s -> wf_maps n (l2p s) (p2l s).
Proof. exact route_maps_bijective. Qed.
Print Assumptions route_layout_bijective.

(* 2. every two-qubit gate of the routed circuit (inserted SWAPs included) is on an edge *)
Theorem route_edges_ok : forall n G items ops s,
  wf_items n items ->
  run n (full_guard G) (init n items) ops = Some s ->
  forallb (gate_on_edge G) (eflat (out s)) = true.
Proof. exact route_edges. Qed.
Print Assumptions route_edges_ok.

(* 3. un-routing (reading the output back through the evolving p2l map, deleting inserted
      SWAPs) gives exactly the executed blocks, in execution order *)
Theorem route_unroute_ok : forall n chk items ops s,
  run n chk (init n items) ops = Some s ->
  unroute n (out s) = (flat_map igates (done s), p2l s).
Proof. exact route_unroute. Qed.
Print Assumptions route_unroute_ok.

(* 4. the executed blocks followed by the remaining ones are a reordering of the input that
      only exchanges gates on disjoint qubits *)
Theorem route_linearisation_ok : forall n G items ops s,
  wf_items n items ->
  run n (full_guard G) (init n items) ops = Some s ->
  teq Dgate (flat_map igates items) (flat_map igates (done s ++ rem s)).
Proof. exact route_linearisation. Qed.
Print Assumptions route_linearisation_ok.

Theorem route_unroute_equiv_ok : forall n G items ops s,
  wf_items n items ->
  run n (full_guard G) (init n items) ops = Some s -> rem s = [] ->
  teq Dgate (flat_map igates items) (fst (unroute n (out s))).
Proof. exact route_unroute_equiv. Qed.
Print Assumptions route_unroute_equiv_ok.

(* 5. operator statement: out = P_layout . in, in every permutation-equivariant interpretation
      of the gates in which disjoint gates commute; final measurements re-attached through the
      final layout are included *)
Theorem routing_ok : forall n (I : interp n) G items finals ops s,
  wf_items n items ->
  (forall g q, In g finals -> In q (gqs g) -> q < n) ->
  run n (full_guard G) (init n items) ops = Some s -> rem s = [] ->
  forall x,
    ieq n I (irun I (eflat (out s) ++ append_final (l2p s) finals) x)
            (ipact n I (at_ (final_layout s)) (irun I (flat_map igates items ++ finals) x)).
Proof. exact routing_sem_interp. Qed.
Print Assumptions routing_ok.

(* 6. swap guards of the routers *)
Theorem swap_guard_Sabre : forall n G s a b,
  graph_ok n G -> wf_maps n (l2p s) (p2l s) ->
  (forall it q, In it (rem s) -> In q (iqs it) -> q < n) ->
  In (a, b) (swap_candidates G s) ->
  guard_edge G s (OSwap a b) = true /\ a < n /\ b < n /\ a <> b.
Proof. exact swap_guard_Sabre_candidates. Qed.
Print Assumptions swap_guard_Sabre.

Theorem swap_guard_Sabre_shortest_path_routing : forall n G path s,
  graph_ok n G -> wf_maps n (l2p s) (p2l s) -> is_path G path = true -> 2 <= length path ->
  exists s', apply_swaps n (guard_edge G) s (sabre_sp_ops path (at_ (p2l s) (hd 0 path))) = Some s'.
Proof. exact swap_guard_Sabre_shortest_path. Qed.
Print Assumptions swap_guard_Sabre_shortest_path_routing.

(* ShortestPaths._add_swaps (current source: consecutive path nodes are exchanged): every swap it
   proposes along a path of the graph meets the edge guard, for every path and meeting point *)
Theorem swap_guard_ShortestPaths : forall n G path mp s,
  graph_ok n G -> wf_maps n (l2p s) (p2l s) -> is_path G path = true ->
  exists s', apply_swaps n (guard_edge G) s (add_swaps_ops path mp) = Some s'.
Proof. exact swap_guard_ShortestPaths_add_swaps. Qed.
Print Assumptions swap_guard_ShortestPaths.

(* HISTORICAL lemma, not about the current source: the formula used before the repair of qibo
   (swap (f, forward[0]) instead of consecutive nodes) proposed swaps off the edges; witness
   line 0-1-2-3-4-5, path [0..5], meeting point 2 -> physical swaps (1,0) (2,0) (4,5) (3,5) *)
Theorem historical_add_swaps_prefix_formula_leaves_edges :
  exists n G path mp s,
    graph_ok n G /\ wf_maps n (l2p s) (p2l s) /\ is_path G path = true /\ mp < length path - 1 /\
    apply_swaps n no_guard s (add_swaps_prefix_formula_ops path mp) <> None /\
    apply_swaps n (guard_edge G) s (add_swaps_prefix_formula_ops path mp) = None.
Proof.
  exists 6, line6, [0;1;2;3;4;5], 2, (init 6 []).
  destruct add_swaps_prefix_formula_witness as (P & A & B).
  split; [|split; [|split; [|split; [|split]]]].
  - intros e0 He. cbn in He. repeat (destruct He as [<-|He]; [cbn; lia|]). destruct He.
  - apply wf_maps_init.
  - exact P.
  - cbn. lia.
  - intro E. rewrite E in A. discriminate.
  - exact B.
Qed.
Print Assumptions historical_add_swaps_prefix_formula_leaves_edges.

(* 7. the reorder checker run on every block decomposition is sound *)
Theorem reorder_check_sound : forall c c',
  reorder_ok c c' = true -> teq Dgate c c'.
Proof. exact reorder_ok_sound. Qed.
Print Assumptions reorder_check_sound.

(* 7b. blocks_equiv for ALL circuits: flattening block_decomposition(c) is a reordering of the
       measurement-split circuit that only exchanges gates on disjoint qubits; every gate of a
       block acts within the block's qubits; block names are distinct.  Hypothesis: the gate
       objects are pairwise distinct, act on at least one qubit and on distinct qubits
       (gates on more than two qubits make block_decomposition raise = None). *)
Theorem blocks_equiv : forall n gs bs,
  gates_ok0 (split_meas gs) ->
  block_decomposition n gs = Some bs ->
  teq Dgate (split_meas gs) (flat_map igates bs) /\
  (forall b, In b bs -> block_wf b) /\ NoDup (map iname bs).
Proof. exact blocks_equiv_all. Qed.
Print Assumptions blocks_equiv.

(* _split_multi_qubit_measurements replaces, in place, every multi-qubit measurement by
   single-qubit measurements on its qubits (in order) and leaves all other gates alone *)
Theorem split_meas_spec : forall gs, split_meas gs = flat_map split1 gs.
Proof. exact split_meas_char. Qed.
Print Assumptions split_meas_spec.

Example blocks_equiv_example :
  let gs := [mkG KU 1 [2]; mkG KU 2 [2;0]; mkG KU 3 [1]; mkG KU 4 [0]; mkG KU 5 [0;2]; mkG KM 6 [1]] in
  gates_ok0 (split_meas gs) /\
  option_map (map (fun b => (iname b, iqs b, map gtag (igates b)))) (block_decomposition 3 gs)
    = Some [(0, [0;2], [1;2;4;5]); (1, [1;2], [3;6])].
Proof.
  cbv zeta. split; [|reflexivity]. split.
  - repeat constructor; cbn; intuition discriminate.
  - intros g Hg. cbn in Hg. repeat (destruct Hg as [<-|Hg]; [cbn; split; [lia|reflexivity]|]). destruct Hg.
Qed.

(* 8. StarConnectivityRouter (deterministic model): on a star graph its run is a guarded run of the
      transition system, hence every two-qubit gate is on an edge, the layout is a bijection and
      the output is P_layout . input *)
Theorem star_router_ok : forall n mid G queue o l,
  star_graph n mid G ->
  (forall g q, In g queue -> In q (gqs g) -> q < n) ->
  (forall g, In g queue -> nodupb (gqs g) = true) ->
  star_route n mid queue = Some (o, l) ->
  forallb (gate_on_edge G) o = true /\
  (exists p, wf_maps n l p) /\
  forall (I : interp n) x, ieq n I (irun I o x) (ipact n I (at_ l) (irun I queue x)).
Proof.
  intros n mid G queue o l SG Hq Hn H.
  destruct (star_router_refines n mid G queue o l SG Hq Hn H) as (ops & s & _ & R & Eo & El & Er).
  pose proof (gate_items_wf n queue Hq Hn) as WI.
  split; [|split].
  - rewrite <- Eo. eapply route_edges; eauto.
  - exists (p2l s). rewrite <- El. eapply route_maps_bijective; eauto.
  - intros I x.
    pose proof (routing_sem_interp n I G (gate_items queue) [] ops s WI (fun g q F => match F with end) R Er x) as S.
    unfold append_final in S. cbn [map] in S. rewrite !app_nil_r in S.
    rewrite gate_items_from, flat_items_from in S. unfold final_layout in S.
    rewrite Eo, El in S. exact S.
Qed.
Print Assumptions star_router_ok.

Example star_example :
  star_route 5 0 [mkG KU 1 [1;2]] = Some ([mkG KU 0 [1;0]; mkG KU 1 [0;2]], [1;0;2;3;4]) /\
  star_graph 5 0 [(0,1);(0,2);(0,3);(0,4)].
Proof.
  split; [reflexivity|]. split; [lia|].
  intros p Hp Np. destruct p as [|[|[|[|[|p]]]]]; try reflexivity; try lia.
Qed.

(* 9. Sabre's / ShortestPaths' DAG: for the edges built by _create_dag and ANY valid transitive
      reduction E' of them (networkx oracle, validity = tr_okb, checked per run), the front layer
      read off the DAG restricted to the blocks not yet executed equals the specification "no
      remaining earlier block shares a qubit" (= the front guard of the transition system), as
      long as only front-layer blocks were executed (predecessor-closed executed set) *)
Theorem dag_front_sound : forall bl E' X,
  (forall i, i < length bl -> NoDup (nth i bl []) /\ length (nth i bl []) <= 2) ->
  tr_okb (create_dag_edges bl) E' = true ->
  pred_closed E' X ->
  dag_front E' (length bl) X = spec_front bl X.
Proof. intros bl E' X H T C. exact (dag_front_eq_spec bl H E' T X C). Qed.
Print Assumptions dag_front_sound.

Theorem dag_front_step : forall (bl : list (list nat)) E' X j,
  pred_closed E' X -> In j (dag_front E' (length bl) X) -> pred_closed E' (X ++ [j]).
Proof. intros bl E' X j. apply closed_step. Qed.
Print Assumptions dag_front_step.

(* 10. _detach_final_measurements, and the whole __call__ of Sabre / ShortestPaths:
       detach ; block_decomposition ; any guarded run ; routed_circuit ; _append_final_measurements *)
Theorem detach_final_spec : forall gs body finals,
  detach_final gs = (body, finals) ->
  gs = body ++ finals /\ forallb is_meas finals = true /\
  (body = [] \/ exists b' g, body = b' ++ [g] /\ is_meas g = false).
Proof. exact detach_final_spec_proof. Qed.
Print Assumptions detach_final_spec.

Theorem router_call_correct : forall n (I : interp n) G gs body finals items ops s,
  detach_final gs = (body, finals) ->
  gates_ok0 (split_meas body) ->
  (forall g q, In g (split_meas body) -> In q (gqs g) -> q < n) ->
  (forall g q, In g finals -> In q (gqs g) -> q < n) ->
  block_decomposition n body = Some items ->
  run n (full_guard G) (init n items) ops = Some s -> rem s = [] ->
  gs = body ++ finals /\
  forallb (gate_on_edge G) (eflat (out s)) = true /\
  wf_maps n (l2p s) (p2l s) /\
  forall x, ieq n I (irun I (eflat (out s) ++ append_final (l2p s) finals) x)
                    (ipact n I (at_ (final_layout s)) (irun I (split_meas body ++ finals) x)).
Proof. exact router_call_ok. Qed.
Print Assumptions router_call_correct.

Example dag_example :
  let bl := [[0;1]; [1;2]; [0;2]; [3;4]] in
  create_dag_edges bl = [(0,1); (0,2); (1,2)] /\
  tr_okb (create_dag_edges bl) [(0,1); (1,2)] = true /\
  dag_front [(0,1); (1,2)] 4 [] = [0; 3] /\ spec_front bl [0] = [1; 3].
Proof. repeat split; reflexivity. Qed.

(* 11. the front guard of the transition system IS the specification of the DAG front layer:
       along every run, block j passes in_front iff j is in spec_front of the executed names
       (with dag_front_sound: iff j is in the front layer the real DAG yields) *)
Theorem front_guard_is_dag_spec : forall n chk items ops s j,
  named items -> j < length items ->
  run n chk (init n items) ops = Some s ->
  (in_front s j = true <-> In j (spec_front (map iqs items) (map iname (done s)))).
Proof. exact front_guard_is_spec_front. Qed.
Print Assumptions front_guard_is_dag_spec.

(* 12. measured registers report the same logical outcomes, for every equivariant read-out *)
Theorem registers_ok : forall n (I : interp n) (O : Type) (obs : list nat -> iS n I -> O),
  (forall qs x y, ieq n I x y -> obs qs x = obs qs y) ->
  (forall f qs x, perm_on n f -> (forall q, In q qs -> q < n) -> obs (map f qs) (ipact n I f x) = obs qs x) ->
  forall G gs body finals items ops s m,
  detach_final gs = (body, finals) ->
  gates_ok0 (split_meas body) ->
  (forall g q, In g (split_meas body) -> In q (gqs g) -> q < n) ->
  (forall g q, In g finals -> In q (gqs g) -> q < n) ->
  block_decomposition n body = Some items ->
  run n (full_guard G) (init n items) ops = Some s -> rem s = [] ->
  In m finals ->
  forall x,
    In (relabel (l2p s) m) (append_final (l2p s) finals) /\
    gqs (relabel (l2p s) m) = map (at_ (l2p s)) (gqs m) /\
    obs (gqs (relabel (l2p s) m)) (irun I (eflat (out s)) x) = obs (gqs m) (irun I (split_meas body) x).
Proof. exact registers_report_same_outcomes. Qed.
Print Assumptions registers_ok.

(* 13. progress: the models cannot loop.  Executing strictly decreases the number of remaining
       blocks; a swap round of ShortestPaths (_find_new_mapping/_add_swaps along a simple path of
       the graph between the two qubits of the front block) and Sabre's reset path
       (_shortest_path_routing, taken when swap_threshold is exceeded) leave the remaining blocks
       unchanged and make that block executable, so the next _check_execution decreases the measure.
       (Sabre's ordinary heuristic swaps have no such guarantee: that is what the threshold is for.)
       The star router is a structural recursion: at most one SWAP per gate. *)
Theorem progress_exec : forall n s nm s',
  step n s (OExec nm) = Some s' -> length (rem s') < length (rem s).
Proof. exact exec_decreases. Qed.
Print Assumptions progress_exec.

Theorem progress_ShortestPaths : forall n G path mp s la lb,
  graph_ok n G -> wf_maps n (l2p s) (p2l s) ->
  is_path G path = true -> NoDup path -> mp + 1 < length path ->
  la < n -> lb < n -> at_ (l2p s) la = hd 0 path -> at_ (l2p s) lb = last path 0 ->
  exists s', apply_swaps n (guard_edge G) s (add_swaps_ops path mp) = Some s' /\
             rem s' = rem s /\
             has_edge G (at_ (l2p s') la) (at_ (l2p s') lb) = true /\
             forall nm pre it post,
               extract (fun it0 => iname it0 =? nm) (rem s') = Some (pre, it, post) ->
               iqs it = [la; lb] -> edge_ok G s' nm = true.
Proof. exact shortest_paths_find_new_mapping_progress. Qed.
Print Assumptions progress_ShortestPaths.

Theorem progress_Sabre_reset : forall n G c mid z s q1 q2,
  graph_ok n G -> wf_maps n (l2p s) (p2l s) ->
  is_path G (c :: mid ++ [z]) = true -> NoDup (c :: mid ++ [z]) ->
  q1 < n -> q2 < n -> at_ (l2p s) q1 = c -> at_ (l2p s) q2 = z ->
  exists s', apply_swaps n (guard_edge G) s (sabre_sp_ops (c :: mid ++ [z]) q1) = Some s' /\
             rem s' = rem s /\
             has_edge G (at_ (l2p s') q1) (at_ (l2p s') q2) = true.
Proof. exact sabre_shortest_path_routing_progress. Qed.
Print Assumptions progress_Sabre_reset.

Theorem progress_Star : forall mid queue l acc o l',
  star_loop mid l queue acc = Some (o, l') -> length o <= length acc + 2 * length queue.
Proof. exact star_loop_bound. Qed.
Print Assumptions progress_Star.

Example progress_example :
  exists s', apply_swaps 6 (guard_edge line6) (init 6 []) (add_swaps_ops [0;1;2;3;4;5] 2) = Some s' /\
             at_ (l2p s') 0 = 2 /\ at_ (l2p s') 5 = 3.
Proof. eexists. split; [vm_compute; reflexivity|]. split; reflexivity. Qed.

(* ---- non-vacuity *)
(* a guarded run that needs a SWAP: line 0-1-2, one block CZ(0,2) *)
Example route_example :
  let G := [(0,1); (1,2)] in
  let items := [mkI 0 [0;2] [mkG KU 1 [0;2]]] in
  wf_item 3 (hd (mkI 0 [] []) items) = true /\
  exists s, run 3 (full_guard G) (init 3 items) [OSwap 0 1; OExec 0] = Some s /\ rem s = [] /\
            eflat (out s) = [mkG KU 0 [0;1]; mkG KU 1 [1;2]] /\ final_layout s = [1;0;2].
Proof. cbv zeta. split; [reflexivity|]. eexists. split; [vm_compute; reflexivity|]. repeat split. Qed.

(* the hypotheses of routing_ok are satisfiable: an interpretation exists *)
Example interp_inhabited : forall n, exists I : interp n, True.
Proof. intro n. exists (trivial_interp n). exact I. Qed.

(* an unguarded exec (block not in the front layer) is rejected by the guard *)
Example front_guard_rejects :
  let items := [mkI 0 [0;1] [mkG KU 1 [0;1]]; mkI 1 [1;2] [mkG KU 2 [1;2]]] in
  run 3 (full_guard [(0,1);(1,2)]) (init 3 items) [OExec 1] = None.
Proof. reflexivity. Qed.
