(* C09/PropsAttrs.v : property theorems about the long-lived state a router call reads
   (circuit wire-name attributes; the connectivity attribute of a reused router). *)
From Coq Require Import List Arith Bool Lia.
From QV Require Import C09.ModelRouter C09.ModelStar C09.ModelAttrs C09.ProofsAttrs.
Import ListNotations.

(* HISTORY = FRESH: after ANY history of wire-name assignments (lists and None, in any order) on
   one circuit object, its attribute state is exactly that of a circuit freshly created with the
   last assigned names; assignments of a wrong length raise (run_sets = None) and are excluded. *)
Theorem attrs_history_vs_fresh : forall n w0 ops a0 a,
  new_circ n w0 = Some a0 -> run_sets a0 ops = Some a -> new_circ n (last ops w0) = Some a.
Proof. exact history_vs_fresh_lemma. Qed.
Print Assumptions attrs_history_vs_fresh.

(* the names every Circuit(kwargs = init_kwargs) rebuild sees are the live names *)
Theorem attrs_sync : forall n w0 ops a0 a,
  new_circ n w0 = Some a0 -> run_sets a0 ops = Some a ->
  a_n a = n /\ a_kw a = a_live a /\ kw_names a = live_names a.
Proof. exact attrs_sync_lemma. Qed.
Print Assumptions attrs_sync.

(* "wire names are kept" for the circuit the routers rebuild from init_kwargs *)
Theorem rebuild_keeps_names : forall n w0 ops a0 a,
  new_circ n w0 = Some a0 -> run_sets a0 ops = Some a ->
  exists a', rebuild a = Some a' /\ a' = a /\ live_names a' = live_names a.
Proof. exact rebuild_lemma. Qed.
Print Assumptions rebuild_keeps_names.

Example attrs_example :
  attrs_after 3 (Some [1000; 1001; 1002]) [Some [2; 0; 1]; None] = ([0; 1; 2], [0; 1; 2]) /\
  attrs_after 3 None [Some [7; 5; 6]] = ([7; 5; 6], [7; 5; 6]) /\
  attrs_after 3 None [Some [7; 5]] = ([], []).
Proof. repeat split. Qed.

(* a reused router whose connectivity is NOT assigned again: with default-ordered wire names
   0..n-1 every call uses the graph it was given ... *)
Theorem reused_router_default_names : forall n G k, nodes_below n G = true ->
  used_graphs G (repeat (seq 0 n) k) = repeat G k.
Proof. exact used_graphs_default. Qed.
Print Assumptions reused_router_default_names.

(* ... but the statement "every call uses the relabelling of the ORIGINAL graph" is false of the
   faithful model as soon as one call had permuted names: line 0-1-2-3-4, wire names [2,0,1,3,4]
   twice (known finding "reused_no_reassign") *)
Theorem reused_router_uses_original_graph_refuted :
  exists G w, nth 1 (used_graphs G [w; w]) [] <> relabel G w.
Proof. exists [(0,1); (1,2); (2,3); (3,4)], [2; 0; 1; 3; 4]. vm_compute. discriminate. Qed.
Print Assumptions reused_router_uses_original_graph_refuted.
