(* C09/PropsGraphRepr.v (round 5, family F): executability is a property of the EDGE SET of the user's graph.
   The model has no weights, node data, insertion order or orientation; these theorems state that whatever
   representation of one edge set is given (edges listed in another order, written (b,a) instead of (a,b), listed
   twice as in a symmetric DiGraph), every guarded run of the router transition system -- hence every statement of
   C09/Props.v about guarded runs -- is the same.  The harness hands the REAL routers such representations
   (plus edge / node / graph attributes incl. `weight`, subclasses, DiGraph) and checks every output against the
   edge set (stream `graphs_in_another_representation`, `weighted_graph_corpus`). *)
From Coq Require Import List Arith Bool Permutation.
From QV Require Import C09.Trace C09.ModelRouter C09.ProofsGraphRepr.
Import ListNotations.

Theorem has_edge_symmetric : forall G p q, has_edge G p q = has_edge G q p.
Proof. exact has_edge_sym_lemma. Qed.
Print Assumptions has_edge_symmetric.

Theorem edge_order_irrelevant : forall G G', Permutation G G' -> same_edges G G'.
Proof. exact same_edges_perm_lemma. Qed.
Print Assumptions edge_order_irrelevant.

Theorem edge_orientation_irrelevant : forall (G : graph) (fl : nat * nat -> bool),
  same_edges G (map (fun e => if fl e then flip e else e) G).
Proof. exact same_edges_flip_lemma. Qed.
Print Assumptions edge_orientation_irrelevant.

Theorem duplicate_edge_irrelevant : forall G e, In e G -> same_edges G (e :: G).
Proof. exact same_edges_dup_lemma. Qed.
Print Assumptions duplicate_edge_irrelevant.

Theorem guarded_runs_depend_on_edge_set_only : forall n G G' ops s,
  same_edges G G' -> run n (full_guard G) s ops = run n (full_guard G') s ops.
Proof. exact run_same_edges_lemma. Qed.
Print Assumptions guarded_runs_depend_on_edge_set_only.

(* non-vacuity: two different representations of the line 0-1-2 *)
Example same_edges_line3 : same_edges [(0, 1); (1, 2)] [(2, 1); (1, 0); (0, 1)].
Proof. intros p q. apply (same_edges_of_incl [(0, 1); (1, 2)] [(2, 1); (1, 0); (0, 1)]);
  intros e H; cbn in *; unfold flip; intuition (subst; cbn; auto). Qed.
