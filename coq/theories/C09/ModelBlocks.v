(* C09/ModelBlocks.v : executable model of transpiler/blocks.py block_decomposition
   (_split_multi_qubit_measurements, _initial_block_decomposition, _find_previous_gates,
   _find_successive_gates, the leftover single-qubit phase, the fusion loop, index names) and
   of the routers' _detach_final_measurements / _append_final_measurements.  No proofs here.
   Gates are identified by (kind, tag, qubits); the harness gives every gate object of the
   routed queue its own tag, so list.remove(gate) (identity) = removal of the first equal gate. *)
From Coq Require Import List Arith Bool Lia.
From QV Require Import C09.Trace C09.ModelRouter.
Import ListNotations.

Definition is_meas (g : gate) : bool := match gkind g with KM => true | KU => false end.
Definition nq (g : gate) : nat := length (gqs g).
Definition q0 (g : gate) : nat := hd 0 (gqs g).

(* ---- routers: measurements at the end of the queue are detached and re-attached *)
Fixpoint take_while {A} (f : A -> bool) (l : list A) : list A :=
  match l with [] => [] | x :: l' => if f x then x :: take_while f l' else [] end.
Fixpoint drop_while {A} (f : A -> bool) (l : list A) : list A :=
  match l with [] => [] | x :: l' => if f x then drop_while f l' else l end.
Definition detach_final (gs : list gate) : list gate * list gate :=
  (rev (drop_while is_meas (rev gs)), rev (take_while is_meas (rev gs))).
Definition append_final (l2p : list nat) (finals : list gate) : list gate := map (relabel l2p) finals.

(* ---- _split_multi_qubit_measurements *)
Definition split_meas (gs : list gate) : list gate :=
  if existsb (fun g => is_meas g && (1 <? nq g)) gs then
    flat_map (fun g => if is_meas g && (1 <? nq g)
                       then map (fun q => mkG KM (gtag g) [q]) (gqs g) else [g]) gs
  else gs.

(* ---- _remove_gates *)
Fixpoint remove1 (g : gate) (l : list gate) : list gate :=
  match l with [] => [] | x :: l' => if gate_eqb x g then l' else x :: remove1 g l' end.
Definition remove_all (rm l : list gate) : list gate := fold_left (fun acc g => remove1 g acc) rm l.

(* ---- _find_previous_gates / _find_successive_gates *)
Definition find_previous (gs : list gate) (qs : list nat) : list gate :=
  filter (fun g => mem (q0 g) qs) gs.
Fixpoint scan_succ (gs : list gate) (q : nat) : list gate :=
  match gs with
  | [] => []
  | g :: gs' =>
      if (nq g =? 1) && (q0 g =? q) then g :: scan_succ gs' q
      else if (nq g =? 2) && mem q (gqs g) then []
      else scan_succ gs' q
  end.
Definition find_successive (gs : list gate) (qs : list nat) : list gate := flat_map (scan_succ gs) qs.

Definition sort2 (a b : nat) : list nat := if a <=? b then [a; b] else [b; a].
Definition sorted_qs (l : list nat) : list nat :=
  match l with [a; b] => sort2 a b | _ => l end.

(* ---- _initial_block_decomposition, phase 1: blocks around two-qubit gates *)
Fixpoint init_blocks2 (fuel : nat) (gs : list gate) : list item * list gate :=
  match fuel with
  | O => ([], gs)
  | S f =>
      match extract (fun g => nq g =? 2) gs with
      | Some (pre, g, post) =>
          let bg := find_previous pre (gqs g) ++ [g] ++ find_successive post (gqs g) in
          let '(bs, rest) := init_blocks2 f (remove_all bg gs) in
          (mkI 0 (sorted_qs (gqs g)) bg :: bs, rest)
      | None => ([], gs)
      end
  end.

(* phase 2: remaining single-qubit gates, two qubits per block *)
Definition gates_on (gs : list gate) (q : nat) : list gate := filter (fun g => q0 g =? q) gs.
Fixpoint leftover (fuel n : nat) (gs : list gate) : list item :=
  match fuel with
  | O => []
  | S f =>
      match gs with
      | [] => []
      | g0 :: _ =>
          let q1 := q0 g0 in
          let b1 := gates_on gs q1 in
          let gs1 := remove_all b1 gs in
          match gs1 with
          | [] => [mkI 0 (sort2 q1 ((q1 + 1) mod n)) b1]
          | g1 :: _ =>
              let q2 := q0 g1 in
              let b2 := gates_on gs1 q2 in
              mkI 0 (sort2 q1 q2) (b1 ++ b2) :: leftover f n (remove_all b2 gs1)
          end
      end
  end.

Definition number (bs : list item) : list item :=
  map (fun ib => mkI (fst ib) (iqs (snd ib)) (igates (snd ib))) (combine (seq 0 (length bs)) bs).

Definition initial_blocks (n : nat) (gs : list gate) : list item :=
  let '(bs, rest) := init_blocks2 (S (length gs)) gs in
  bs ++ leftover (S (length rest)) n rest.

(* ---- fusion loop of block_decomposition *)
Fixpoint fuse_scan (first : item) (rm : list nat) (rest : list item) : item * list nat :=
  match rest with
  | [] => (first, rm)
  | b :: rest' =>
      if list_eqb (iqs b) (iqs first)
      then fuse_scan (mkI (iname first) (iqs first) (igates first ++ igates b)) (rm ++ [iname b]) rest'
      else if disjb (iqs first) (iqs b) then fuse_scan first rm rest'
      else (first, rm)
  end.
Fixpoint fuse_loop (fuel : nat) (bs : list item) : list item :=
  match fuel with
  | O => []
  | S f =>
      match bs with
      | [] => []
      | first :: rest =>
          let '(fb, rm) := fuse_scan first [iname first] rest in
          fb :: fuse_loop f (filter (fun b => negb (mem (iname b) rm)) bs)
      end
  end.

(* block_decomposition(circuit) followed by CircuitBlocks' index names;
   None = the real code raises BlockingError *)
Definition block_decomposition (n : nat) (gs : list gate) : option (list item) :=
  if n <? 2 then None
  else
    let gs' := split_meas gs in
    if existsb (fun g => 2 <? nq g) gs' then None
    else
      let ib := number (initial_blocks n gs') in
      Some (number (fuse_loop (S (length ib)) ib)).

(* executable independence of two gates and the verified reorder check *)
Definition gdisjb (a b : gate) : bool := disjb (gqs a) (gqs b).
Definition reorder_ok (c c' : list gate) : bool := lin_check gdisjb gate_eqb c c'.
Definition blocks_reorder_ok (n : nat) (gs : list gate) : bool :=
  match block_decomposition n gs with
  | Some bs => reorder_ok (split_meas gs) (flat_map igates bs)
  | None => true
  end.

(* executable form of the hypothesis of blocks_equiv: pairwise distinct gates, each on at least
   one qubit and on distinct qubits *)
Fixpoint gates_nodupb (l : list gate) : bool :=
  match l with [] => true | g :: l' => negb (existsb (gate_eqb g) l') && gates_nodupb l' end.
Definition gates_ok0b (l : list gate) : bool :=
  gates_nodupb l && forallb (fun g => (1 <=? nq g) && nodupb (gqs g)) l.
