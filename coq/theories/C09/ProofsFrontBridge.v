(* C09/ProofsFrontBridge.v : the front guard of the routing transition system ([in_front], on the
   list of remaining items) IS the specification of the DAG front layer ([spec_front], on block
   indices): when block names are their positions and the remaining items are the non-executed
   ones in program order,   in_front s j = true  <->  In j (spec_front (map iqs items) X). *)
From Coq Require Import List Arith Bool Lia.
From QV Require Import C09.Trace C09.ModelRouter C09.ModelDag C09.ProofsRouter.
Import ListNotations.

Lemma extract_complete {A} (f : A -> bool) pre y post :
  f y = true -> (forall z, In z pre -> f z = false) ->
  extract f (pre ++ y :: post) = Some (pre, y, post).
Proof.
  induction pre as [|x pre IH]; intros Hy Hp; cbn.
  - rewrite Hy. reflexivity.
  - rewrite (Hp x (or_introl eq_refl)). rewrite IH; auto. intros z Hz. apply Hp. right. exact Hz.
Qed.

Definition dflt : item := mkI 0 [] [].
Definition keep (X : list nat) (it : item) : bool := negb (mem (iname it) X).

(* names are positions *)
Definition named (items : list item) : Prop :=
  forall i, i < length items -> iname (nth i items dflt) = i.

Lemma nth_firstn_lt {A} (d : A) : forall l i j, i < j -> nth i (firstn j l) d = nth i l d.
Proof.
  induction l as [|x l IH]; intros i j L; destruct j; cbn; try lia; destruct i; auto. apply IH. lia.
Qed.

Lemma nth_in_firstn {A} (d : A) : forall l i j, i < j -> i < length l -> In (nth i l d) (firstn j l).
Proof.
  induction l as [|x l IH]; intros i j L1 L2; cbn in L2; [lia|].
  destruct j; [lia|]. destruct i; cbn; auto. right. apply IH; lia.
Qed.

Lemma named_firstn items j x :
  named items -> j <= length items -> In x (firstn j items) ->
  exists i, i < j /\ x = nth i items dflt.
Proof.
  intros N L H. destruct (In_nth _ _ dflt H) as (i & Li & E).
  rewrite firstn_length in Li. exists i. split; [lia|]. rewrite <- E.
  apply nth_firstn_lt. lia.
Qed.

Lemma split_at (items : list item) j : j < length items ->
  items = firstn j items ++ nth j items dflt :: skipn (S j) items.
Proof.
  revert j. induction items as [|x items IH]; intros j L; cbn in L; [lia|].
  destruct j as [|j]; cbn; auto. f_equal. apply IH. lia.
Qed.

Theorem in_front_is_spec_front items X s j :
  named items -> j < length items ->
  rem s = filter (keep X) items ->
  (in_front s j = true <-> In j (spec_front (map iqs items) X)).
Proof.
  intros N Lj R.
  set (it := nth j items dflt).
  assert (Nit : iname it = j) by (apply N; exact Lj).
  assert (Hnth : forall i, nth i (map iqs items) [] = iqs (nth i items dflt)).
  { intro i. change [] with (iqs dflt). apply map_nth. }
  unfold spec_front. rewrite filter_In, in_seq, map_length.
  destruct (mem j X) eqn:Mj.
  - (* already executed: not in rem, not in the front *)
    split; [|intros [_ H]; discriminate].
    intro H. exfalso. unfold in_front in H.
    destruct (extract (fun it0 => iname it0 =? j) (rem s)) as [[[pre y] post]|] eqn:E; [|discriminate].
    destruct (extract_spec _ _ _ _ _ _ E) as (Er & Hy & _). apply Nat.eqb_eq in Hy.
    assert (Hin : In y (filter (keep X) items)) by (rewrite <- R, Er; apply in_or_app; right; left; reflexivity).
    apply filter_In in Hin. destruct Hin as [_ K]. unfold keep in K. rewrite Hy, Mj in K. discriminate.
  - cbn [negb andb].
    (* rem = kept(firstn j) ++ it :: kept(rest) *)
    assert (Er : rem s = filter (keep X) (firstn j items) ++ it :: filter (keep X) (skipn (S j) items)).
    { rewrite R. rewrite (split_at items j Lj) at 1. rewrite filter_app. cbn [filter]. fold it.
      unfold keep at 2. rewrite Nit, Mj. reflexivity. }
    assert (Ex : extract (fun it0 => iname it0 =? j) (rem s) =
                 Some (filter (keep X) (firstn j items), it, filter (keep X) (skipn (S j) items))).
    { rewrite Er. apply extract_complete; [rewrite Nit; apply Nat.eqb_refl|].
      intros z Hz. apply filter_In in Hz. destruct Hz as [Hz _].
      destruct (named_firstn items j z N (Nat.lt_le_incl _ _ Lj) Hz) as (i & Li & ->).
      rewrite N by lia. apply Nat.eqb_neq. lia. }
    unfold in_front. rewrite Ex. rewrite !forallb_forall. split.
    + intro H. split; [lia|]. intros i Hi. apply in_seq in Hi.
      destruct (mem i X) eqn:Mi; [reflexivity|]. cbn [orb]. rewrite !Hnth. fold it.
      apply H. apply filter_In. split.
      * apply nth_in_firstn; lia.
      * unfold keep. rewrite N by lia. rewrite Mi. reflexivity.
    + intros [_ H] b Hb. apply filter_In in Hb. destruct Hb as [Hb Kb].
      destruct (named_firstn items j b N (Nat.lt_le_incl _ _ Lj) Hb) as (i & Li & ->).
      assert (Hs : In i (seq 0 j)) by (apply in_seq; lia).
      specialize (H i Hs). unfold keep in Kb. rewrite N in Kb by lia.
      apply negb_true_iff in Kb. rewrite Kb in H. cbn [orb] in H. rewrite !Hnth in H. exact H.
Qed.

(* ---- along every run of the transition system the remaining items are the non-executed ones *)
Lemma nodup_names_split (l pre post : list item) it :
  NoDup (map iname l) -> l = pre ++ it :: post ->
  forall b, In b pre \/ In b post -> iname b <> iname it.
Proof.
  intros ND -> b Hb E. rewrite map_app in ND. cbn [map] in ND.
  apply NoDup_remove_2 in ND. apply ND. rewrite <- E. apply in_or_app.
  destruct Hb as [Hb|Hb]; [left|right]; apply in_map; exact Hb.
Qed.

Lemma NoDup_names_filter (p : item -> bool) l : NoDup (map iname l) -> NoDup (map iname (filter p l)).
Proof.
  induction l as [|x l IH]; intro H; cbn; auto. cbn in H. inversion H; subst.
  destruct (p x); cbn; auto. constructor; auto.
  intro Hin. apply H2. apply in_map_iff in Hin. destruct Hin as (y & E & Hy).
  apply filter_In in Hy. rewrite <- E. apply in_map. tauto.
Qed.

Lemma filter_keep_snoc items X pre it post :
  NoDup (map iname items) ->
  filter (keep X) items = pre ++ it :: post ->
  filter (keep (X ++ [iname it])) items = pre ++ post.
Proof.
  intros ND E.
  assert (Kp : forall b, keep (X ++ [iname it]) b = keep X b && negb (iname b =? iname it)).
  { intro b. unfold keep, mem. rewrite existsb_app. cbn [existsb]. rewrite orb_false_r, negb_orb. reflexivity. }
  assert (F : forall l, filter (keep (X ++ [iname it])) l =
                        filter (fun b => negb (iname b =? iname it)) (filter (keep X) l)).
  { induction l as [|x l IH]; cbn [filter]; auto. rewrite Kp.
    destruct (keep X x); cbn [andb filter]; [|exact IH].
    destruct (negb (iname x =? iname it)); rewrite IH; reflexivity. }
  rewrite F, E. pose proof (nodup_names_split _ pre post it (NoDup_names_filter (keep X) items ND) E) as Hn.
  rewrite filter_app. cbn [filter]. rewrite Nat.eqb_refl. cbn [negb].
  assert (K : forall l, (forall b, In b l -> iname b <> iname it) -> filter (fun b => negb (iname b =? iname it)) l = l).
  { induction l as [|x l IH]; intro H; cbn; auto.
    assert (iname x =? iname it = false) by (apply Nat.eqb_neq; apply H; left; reflexivity).
    rewrite H0. cbn. f_equal. apply IH. intros b Hb. apply H. right. exact Hb. }
  rewrite !K; auto.
Qed.

Theorem rem_is_unexecuted n chk items ops s :
  NoDup (map iname items) ->
  run n chk (init n items) ops = Some s ->
  rem s = filter (keep (map iname (done s))) items.
Proof.
  intros ND. apply (run_inv n chk (fun s => rem s = filter (keep (map iname (done s))) items)).
  - intros s0 o s1 I _ St. destruct o as [nm | a b |]; cbn [step] in St.
    + destruct (extract _ (rem s0)) as [[[pre it] post]|] eqn:E; [|discriminate].
      destruct (forallb _ (igates it) && forallb _ (iqs it)); [|discriminate].
      inversion St; subst; clear St. cbn [rem done].
      destruct (extract_spec _ _ _ _ _ _ E) as (Er & _ & _).
      rewrite map_app. cbn [map]. symmetry. apply filter_keep_snoc; auto. rewrite <- I. exact Er.
    + destruct ((a <? n) && (b <? n) && negb (a =? b)); [|discriminate]. inversion St; subst. exact I.
    + destruct (rev (out s0)) as [|[gs|p q] r]; try discriminate. inversion St; subst. exact I.
  - cbn. induction items as [|x l IH]; cbn; auto. unfold keep at 1. cbn. f_equal. apply IH.
    cbn in ND. inversion ND; auto.
Qed.

(* the front guard along any run = the specification of the DAG front layer *)
Theorem front_guard_is_spec_front n chk items ops s j :
  named items -> j < length items ->
  run n chk (init n items) ops = Some s ->
  (in_front s j = true <-> In j (spec_front (map iqs items) (map iname (done s)))).
Proof.
  intros N Lj R. apply in_front_is_spec_front; auto.
  eapply rem_is_unexecuted; eauto.
  (* names = positions are pairwise distinct *)
  clear -N. assert (E : map iname items = seq 0 (length items)).
  { apply (nth_ext _ _ 0 0); [rewrite map_length, seq_length; reflexivity|].
    intros i Li. rewrite map_length in Li. rewrite seq_nth by exact Li.
    change 0 with (iname dflt) at 1. rewrite map_nth. apply N. exact Li. }
  rewrite E. apply seq_NoDup.
Qed.
