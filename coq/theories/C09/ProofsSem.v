(* C09/ProofsSem.v : the operator statement  run(out) = P_layout . run(in)  for EVERY
   interpretation of gates as state transformers that
     - is equivariant under qubit permutations  (act (g on f(qs)) . P_f = P_f . act (g on qs)),
     - interprets the inserted SWAP as the transposition of two positions,
     - makes gates on disjoint qubits commute.
   The interpretation is a Section variable (with a setoid equality on states, so that
   function-valued states need no functional extensionality); qibo's dense operators are one
   such interpretation (textbook: perm_op . embed M qs = embed M (f qs) . perm_op). *)
From Coq Require Import List Arith Bool Lia.
From QV Require Import C09.Trace C09.ModelRouter C09.ModelBlocks C09.ProofsRouter.
Import ListNotations.

Definition transp (p q i : nat) : nat := if i =? p then q else if i =? q then p else i.

Section Sem.
  Variable n : nat.
  Variable S : Type.
  Variable eqS : S -> S -> Prop.
  Hypothesis eqS_refl : forall x, eqS x x.
  Hypothesis eqS_sym : forall x y, eqS x y -> eqS y x.
  Hypothesis eqS_trans : forall x y z, eqS x y -> eqS y z -> eqS x z.

  Variable act : gate -> S -> S.
  (* [pact f] moves the content of position i to position f i *)
  Variable pact : (nat -> nat) -> S -> S.

  Definition perm_on (f : nat -> nat) : Prop :=
    (forall i, i < n -> f i < n) /\ (forall i j, i < n -> j < n -> f i = f j -> i = j).

  Hypothesis act_eq : forall g x y, eqS x y -> eqS (act g x) (act g y).
  Hypothesis pact_eq : forall f x y, eqS x y -> eqS (pact f x) (pact f y).
  Hypothesis pact_ext : forall f g x, (forall i, i < n -> f i = g i) -> eqS (pact f x) (pact g x).
  Hypothesis pact_id : forall x, eqS (pact (fun i => i) x) x.
  Hypothesis pact_comp : forall f g x, perm_on f -> perm_on g ->
      eqS (pact f (pact g x)) (pact (fun i => f (g i)) x).
  Hypothesis act_equivariant : forall f g x, perm_on f -> (forall q, In q (gqs g) -> q < n) ->
      eqS (act (mkG (gkind g) (gtag g) (map f (gqs g))) (pact f x)) (pact f (act g x)).
  Hypothesis swap_sem : forall p q x, p < n -> q < n -> p <> q ->
      eqS (act (mkG KU 0 [p; q]) x) (pact (transp p q) x).
  Hypothesis act_comm : forall g h x, Dgate g h -> eqS (act g (act h x)) (act h (act g x)).

  Definition run_gates (gs : list gate) (x : S) : S := fold_left (fun s g => act g s) gs x.

  Lemma run_gates_app a b x : run_gates (a ++ b) x = run_gates b (run_gates a x).
  Proof. unfold run_gates. apply fold_left_app. Qed.

  Lemma run_gates_eq gs : forall x y, eqS x y -> eqS (run_gates gs x) (run_gates gs y).
  Proof.
    induction gs as [|g gs IH]; intros x y H; cbn; [exact H|].
    apply IH. apply act_eq. exact H.
  Qed.

  (* trace-equivalent words have the same meaning *)
  Lemma sem_teq l l' : teq Dgate l l' -> forall x, eqS (run_gates l x) (run_gates l' x).
  Proof.
    induction 1; intro x.
    - apply eqS_refl.
    - rewrite !run_gates_app. cbn. apply run_gates_eq. apply eqS_sym. apply act_comm. exact H.
    - eapply eqS_trans; [apply IHteq1 | apply IHteq2].
  Qed.

  Lemma run_relabel f gs : perm_on f ->
    (forall g q, In g gs -> In q (gqs g) -> q < n) ->
    forall x, eqS (run_gates (map (fun g => mkG (gkind g) (gtag g) (map f (gqs g))) gs) (pact f x))
                  (pact f (run_gates gs x)).
  Proof.
    intros Pf. induction gs as [|g gs IH]; intros Hq x; cbn.
    - apply eqS_refl.
    - eapply eqS_trans.
      + apply run_gates_eq. apply act_equivariant; auto. intros q Hin. apply (Hq g q); auto. left; reflexivity.
      + apply IH. intros g' q Hg' Hin. apply (Hq g' q); auto. right; exact Hg'.
  Qed.

  Lemma perm_on_transp p q : p < n -> q < n -> perm_on (transp p q).
  Proof.
    intros Hp Hq. split.
    - intros i Hi. unfold transp. destruct (i =? p); [exact Hq|]. destruct (i =? q); [exact Hp| exact Hi].
    - intros i j _ _. unfold transp.
      destruct (i =? p) eqn:E1; destruct (j =? p) eqn:E2;
      destruct (i =? q) eqn:E3; destruct (j =? q) eqn:E4;
      rewrite ?Nat.eqb_eq, ?Nat.eqb_neq in *; intros; subst; try congruence.
  Qed.

  Lemma perm_on_maps l p : wf_maps n l p -> perm_on (at_ l).
  Proof.
    intro W. split.
    - intros i Hi. destruct W as (_ & _ & H & _). apply H. exact Hi.
    - intros i j Hi Hj E. eapply wf_maps_inj; eauto.
  Qed.

  Lemma transp_invol p q i : transp p q (transp p q i) = i.
  Proof.
    unfold transp.
    destruct (i =? p) eqn:E1.
    - apply Nat.eqb_eq in E1. subst. destruct (q =? p) eqn:E; [apply Nat.eqb_eq in E; auto|].
      rewrite Nat.eqb_refl. reflexivity.
    - destruct (i =? q) eqn:E2.
      + apply Nat.eqb_eq in E2. subst. rewrite Nat.eqb_refl. reflexivity.
      + rewrite E1, E2. reflexivity.
  Qed.

  (* the l2p list after CircuitMap._update_mappings_swap, as a function *)
  Lemma l2p_after_swap l p a b i :
    wf_maps n l p -> a < n -> b < n -> a <> b -> i < n ->
    at_ (upd (upd l a (at_ l b)) b (at_ l a)) i = transp (at_ l a) (at_ l b) (at_ l i).
  Proof.
    intros W Ha Hb Hab Hi. assert (W0 := W). destruct W0 as (Ll & _ & _ & _).
    unfold transp.
    destruct (Nat.eq_dec i a) as [->|Na].
    { rewrite swap2_a by lia. rewrite Nat.eqb_refl. reflexivity. }
    destruct (Nat.eq_dec i b) as [->|Nb].
    { rewrite swap2_b by lia.
      destruct (at_ l b =? at_ l a) eqn:E.
      - apply Nat.eqb_eq in E. exfalso. apply Hab. symmetry. eapply wf_maps_inj; eauto.
      - rewrite Nat.eqb_refl. reflexivity. }
    rewrite swap2_o by assumption.
    destruct (at_ l i =? at_ l a) eqn:E1.
    { apply Nat.eqb_eq in E1. exfalso. apply Na. eapply wf_maps_inj; eauto. }
    destruct (at_ l i =? at_ l b) eqn:E2.
    { apply Nat.eqb_eq in E2. exfalso. apply Nb. eapply wf_maps_inj; eauto. }
    reflexivity.
  Qed.

  Definition sem_ok (s : state) : Prop :=
    forall x, eqS (run_gates (eflat (out s)) x)
                  (pact (at_ (l2p s)) (run_gates (flat_map igates (done s)) x)).

  Lemma eflat_app a b : eflat (a ++ b) = eflat a ++ eflat b.
  Proof. unfold eflat. apply flat_map_app. Qed.

  Lemma sem_step s o s' :
    inv1 n s -> sem_ok s -> step n s o = Some s' -> sem_ok s'.
  Proof.
    intros I SO H. assert (I' := inv1_step n s o s' I H).
    destruct I as [W SW UR].
    destruct o as [nm | a b |]; cbn [step] in H.
    - (* exec *)
      destruct (extract _ (rem s)) as [[[pre it] post]|] eqn:E; [|discriminate].
      destruct (forallb _ (igates it) && forallb _ (iqs it)) eqn:C; [|discriminate].
      inversion H; subst; clear H. apply andb_prop in C. destruct C as [C1 C2].
      intro x. cbn [out l2p done].
      rewrite eflat_app, run_gates_app, flat_map_app, run_gates_app.
      cbn [eflat flat_map]. rewrite !app_nil_r.
      eapply eqS_trans.
      + apply run_gates_eq. apply SO.
      + apply (run_relabel (at_ (l2p s)) (igates it)).
        * eapply perm_on_maps; eauto.
        * intros g q Hg Hq. rewrite forallb_forall in C1, C2.
          apply Nat.ltb_lt. apply C2. eapply subsetb_In; [apply C1; exact Hg | exact Hq].
    - (* swap *)
      destruct ((a <? n) && (b <? n) && negb (a =? b)) eqn:C; [|discriminate].
      inversion H; subst; clear H.
      apply andb_prop in C. destruct C as [C C3]. apply andb_prop in C. destruct C as [C1 C2].
      apply Nat.ltb_lt in C1, C2. apply negb_true_iff in C3. apply Nat.eqb_neq in C3.
      assert (W0 := W). destruct W0 as (_ & _ & H1 & _).
      destruct (H1 a C1) as [PA _]. destruct (H1 b C2) as [PB _].
      assert (PQ : at_ (l2p s) a <> at_ (l2p s) b).
      { intro E. apply C3. eapply wf_maps_inj; eauto. }
      intro x. cbn [out l2p done update_maps].
      rewrite eflat_app, run_gates_app. cbn [eflat flat_map app run_gates fold_left].
      eapply eqS_trans; [apply swap_sem; auto|].
      eapply eqS_trans; [apply pact_eq; apply SO|].
      eapply eqS_trans; [apply pact_comp; [apply perm_on_transp; auto | eapply perm_on_maps; eauto]|].
      apply pact_ext. intros i Hi. symmetry. eapply l2p_after_swap; eauto.
    - (* undo *)
      destruct (rev (out s)) as [|[gs|p q] r] eqn:E; try discriminate.
      inversion H; subst; clear H.
      assert (Eo : out s = rev r ++ [ES p q]).
      { rewrite <- (rev_involutive (out s)), E. reflexivity. }
      destruct (SW p q) as (Hp & Hq & Npq). { rewrite Eo. apply in_or_app. right. left. reflexivity. }
      assert (W0 := W). destruct W0 as (_ & _ & H1 & H2).
      destruct (H2 p Hp) as [PA EA]. destruct (H2 q Hq) as [PB EB].
      set (a := at_ (p2l s) p) in *. set (b := at_ (p2l s) q) in *.
      assert (Nab : a <> b).
      { intro Eab. apply Npq. rewrite <- EA, <- EB, Eab. reflexivity. }
      intro x. cbn [out l2p done update_maps].
      specialize (SO x). rewrite Eo, eflat_app, run_gates_app in SO.
      cbn [eflat flat_map app run_gates fold_left] in SO.
      set (Z := run_gates (eflat (rev r)) x) in *. fold run_gates in SO.
      set (Y := run_gates (flat_map igates (done s)) x) in *.
      assert (Pt := perm_on_transp p q Hp Hq).
      (* Z = t (t Z) = t (swap Z) = t (l2p Y) = (t . l2p) Y *)
      eapply eqS_trans; [apply eqS_sym; apply pact_id|].
      eapply eqS_trans; [apply (pact_ext _ (fun i => transp p q (transp p q i))); intros; symmetry; apply transp_invol|].
      eapply eqS_trans; [apply eqS_sym; apply pact_comp; auto|].
      eapply eqS_trans; [apply pact_eq; apply eqS_sym; apply swap_sem; auto|].
      eapply eqS_trans; [apply pact_eq; exact SO|].
      eapply eqS_trans; [apply pact_comp; [auto | eapply perm_on_maps; eauto]|].
      apply pact_ext. intros i Hi. symmetry.
      pose proof (l2p_after_swap (l2p s) (p2l s) a b i W PA PB Nab Hi) as L.
      rewrite EA, EB in L. exact L.
  Qed.

  Lemma sem_init items : sem_ok (init n items).
  Proof.
    intro x. cbn. apply eqS_sym.
    eapply eqS_trans; [apply (pact_ext _ (fun i => i)); intros; apply at_seq; auto|].
    apply pact_id.
  Qed.

  Theorem sem_run chk items ops s :
    run n chk (init n items) ops = Some s -> sem_ok s.
  Proof.
    intro H.
    assert (P : inv1 n s /\ sem_ok s).
    { apply (run_inv n chk (fun s => inv1 n s /\ sem_ok s)) with (ops := ops) (s := init n items); auto.
      - intros s0 o s1 [I SO] _ St. split; [eapply inv1_step | eapply sem_step]; eauto.
      - split; [apply inv1_init | apply sem_init]. }
    apply P.
  Qed.

  (* the routed circuit (with the detached final measurements re-attached) implements
     P_layout . (input circuit), for every guarded run that executed every block *)
  Theorem routing_sem G items finals ops s :
    wf_items n items ->
    (forall g q, In g finals -> In q (gqs g) -> q < n) ->
    run n (full_guard G) (init n items) ops = Some s -> rem s = [] ->
    forall x,
      eqS (run_gates (eflat (out s) ++ append_final (l2p s) finals) x)
          (pact (at_ (final_layout s)) (run_gates (flat_map igates items ++ finals) x)).
  Proof.
    intros WI WF H E x. unfold final_layout, append_final.
    rewrite !run_gates_app.
    pose proof (sem_run _ _ _ _ H) as SO.
    pose proof (route_linearisation n G items ops s WI H) as L. rewrite E, app_nil_r in L.
    assert (W : wf_maps n (l2p s) (p2l s)) by (eapply route_maps_bijective; eauto).
    eapply eqS_trans; [apply run_gates_eq; apply SO|].
    eapply eqS_trans.
    - apply (run_relabel (at_ (l2p s)) finals); [eapply perm_on_maps; eauto | exact WF].
    - apply pact_eq. apply run_gates_eq. apply eqS_sym. apply sem_teq. exact L.
  Qed.
End Sem.

(* ---- the same statement with the interpretation packaged as a structure *)
Record interp (n : nat) : Type := mkInterp {
  iS : Type;
  ieq : iS -> iS -> Prop;
  iact : gate -> iS -> iS;
  ipact : (nat -> nat) -> iS -> iS;
  i_refl : forall x, ieq x x;
  i_sym : forall x y, ieq x y -> ieq y x;
  i_trans : forall x y z, ieq x y -> ieq y z -> ieq x z;
  i_act_eq : forall g x y, ieq x y -> ieq (iact g x) (iact g y);
  i_pact_eq : forall f x y, ieq x y -> ieq (ipact f x) (ipact f y);
  i_pact_ext : forall f g x, (forall i, i < n -> f i = g i) -> ieq (ipact f x) (ipact g x);
  i_pact_id : forall x, ieq (ipact (fun i => i) x) x;
  i_pact_comp : forall f g x, perm_on n f -> perm_on n g ->
      ieq (ipact f (ipact g x)) (ipact (fun i => f (g i)) x);
  (* permutation equivariance of every gate *)
  i_equivariant : forall f g x, perm_on n f -> (forall q, In q (gqs g) -> q < n) ->
      ieq (iact (mkG (gkind g) (gtag g) (map f (gqs g))) (ipact f x)) (ipact f (iact g x));
  (* the inserted SWAP (tag 0) exchanges two positions *)
  i_swap : forall p q x, p < n -> q < n -> p <> q ->
      ieq (iact (mkG KU 0 [p; q]) x) (ipact (transp p q) x);
  (* gates on disjoint qubits commute *)
  i_comm : forall g h x, Dgate g h -> ieq (iact g (iact h x)) (iact h (iact g x))
}.

Definition irun {n} (I : interp n) (gs : list gate) (x : iS n I) : iS n I :=
  run_gates (iS n I) (iact n I) gs x.

Theorem routing_sem_interp n (I : interp n) G items finals ops s :
  wf_items n items ->
  (forall g q, In g finals -> In q (gqs g) -> q < n) ->
  run n (full_guard G) (init n items) ops = Some s -> rem s = [] ->
  forall x,
    ieq n I (irun I (eflat (out s) ++ append_final (l2p s) finals) x)
            (ipact n I (at_ (final_layout s)) (irun I (flat_map igates items ++ finals) x)).
Proof.
  destruct I. unfold irun. cbn. intros. eapply routing_sem; eauto.
Qed.

(* non-vacuity: the structure is inhabited (one-point interpretation) *)
Definition trivial_interp (n : nat) : interp n.
Proof.
  refine (mkInterp n unit (fun _ _ => True) (fun _ x => x) (fun _ x => x) _ _ _ _ _ _ _ _ _ _ _); auto.
Defined.

