(* C09/ModelDag.v : executable model of router._create_dag (the three nested loops with the
   `saturated` list) and of the front layer the routers read off the DAG.  The transitive
   reduction (networkx) is an ORACLE: its output is checked by [tr_okb], not recomputed. *)
From Coq Require Import List Arith Bool Lia.
From QV Require Import C09.Trace C09.ModelRouter.
Import ListNotations.

(* for qubit in gate: if qubit in next_gate and qubit not in saturated: saturated.append(qubit);
   connectivity_list.append((idx, next)) *)
Fixpoint dag_qubits (idx nxt : nat) (qs ng sat : list nat) : list nat * list (nat * nat) :=
  match qs with
  | [] => (sat, [])
  | q :: qs' =>
      if mem q ng && negb (mem q sat)
      then let '(s, es) := dag_qubits idx nxt qs' ng (sat ++ [q]) in (s, (idx, nxt) :: es)
      else dag_qubits idx nxt qs' ng sat
  end.

(* for next_idx, next_gate in enumerate(pairs[idx+1:]): ... ; if len(saturated) >= 2: break *)
Fixpoint dag_scan (idx nxt : nat) (qs sat : list nat) (later : list (list nat)) : list (nat * nat) :=
  match later with
  | [] => []
  | ng :: later' =>
      let '(s, es) := dag_qubits idx nxt qs ng sat in
      if 2 <=? length s then es else es ++ dag_scan idx (S nxt) qs s later'
  end.

(* for idx, gate in enumerate(pairs) *)
Fixpoint dag_from (idx : nat) (blocks : list (list nat)) : list (nat * nat) :=
  match blocks with
  | [] => []
  | qs :: later => dag_scan idx (S idx) qs [] later ++ dag_from (S idx) later
  end.
Definition create_dag_edges (blocks : list (list nat)) : list (nat * nat) := dag_from 0 blocks.

Definition has_dag_edge (E : list (nat * nat)) (i j : nat) : bool :=
  existsb (fun e => Nat.eqb (fst e) i && Nat.eqb (snd e) j) E.

(* front layer = topological generation 0 of the DAG restricted to the nodes not yet executed:
   remaining nodes without a remaining predecessor *)
Definition dag_front (E : list (nat * nat)) (nblocks : nat) (executed : list nat) : list nat :=
  filter (fun j => negb (mem j executed) &&
                   forallb (fun e => negb (Nat.eqb (snd e) j) || mem (fst e) executed) E)
         (seq 0 nblocks).

(* what the routers are supposed to get: remaining blocks none of whose earlier remaining blocks
   shares a qubit with them *)
Definition spec_front (blocks : list (list nat)) (executed : list nat) : list nat :=
  filter (fun j => negb (mem j executed) &&
                   forallb (fun i => mem i executed || disjb (nth i blocks []) (nth j blocks []))
                           (seq 0 j))
         (seq 0 (length blocks)).

(* reachability in an edge list: breadth-first closure, [fuel] rounds *)
Definition add_new (acc new : list nat) : list nat :=
  fold_left (fun a x => if mem x a then a else a ++ [x]) new acc.
Definition succs (E : list (nat * nat)) (l : list nat) : list nat :=
  flat_map (fun e => if mem (fst e) l then [snd e] else []) E.
Fixpoint reach_set (E : list (nat * nat)) (fuel : nat) (l : list nat) : list nat :=
  match fuel with
  | O => l
  | S f => reach_set E f (add_new l (succs E l))
  end.
Definition reach (E : list (nat * nat)) (fuel i j : nat) : bool := mem j (reach_set E fuel [i]).

(* a valid transitive reduction E' of E: a subset with the same reachability *)
Definition tr_okb (E E' : list (nat * nat)) : bool :=
  forallb (fun e => has_dag_edge E (fst e) (snd e)) E' &&
  forallb (fun e => reach E' (length E') (fst e) (snd e)) E.

(* per-run check used by the harness: the real reduced DAG is a valid reduction of the model's
   edges, and along the logged execution order the DAG front layer equals the specification *)
Fixpoint fronts_agree (blocks : list (list nat)) (E' : list (nat * nat)) (executed : list nat) (order : list nat) : bool :=
  list_eqb (dag_front E' (length blocks) executed) (spec_front blocks executed) &&
  match order with
  | [] => true
  | j :: order' => fronts_agree blocks E' (executed ++ [j]) order'
  end.
(* the front layers the real router computed (logged after every _update_front_layer, together
   with the blocks executed so far) against the DAG model and against the specification *)
Definition fronts_logged (blocks : list (list nat)) (E' : list (nat * nat)) (snaps : list (list nat * list nat)) : bool :=
  forallb (fun xf => list_eqb (dag_front E' (length blocks) (fst xf)) (snd xf) &&
                     list_eqb (spec_front blocks (fst xf)) (snd xf)) snaps.
Definition dag_check (blocks : list (list nat)) (E' : list (nat * nat)) (order : list nat)
           (snaps : list (list nat * list nat)) : bool * bool * bool :=
  (tr_okb (create_dag_edges blocks) E', fronts_agree blocks E' [] order, fronts_logged blocks E' snaps).
