(* C09/ModelCheck.v : entry points evaluated (vm_compute) by the correspondence run.
   Everything here is executable glue: comparisons and tuple-shaped results.  No proofs. *)
From Coq Require Import List Arith Bool Lia.
From QV Require Import C09.Trace C09.ModelRouter C09.ModelBlocks C09.ModelStar.
Import ListNotations.

Fixpoint all2 {A B} (f : A -> B -> bool) (a : list A) (b : list B) : bool :=
  match a, b with
  | [], [] => true
  | x :: a', y :: b' => f x y && all2 f a' b'
  | _, _ => false
  end.

Definition item_eqb (a b : item) : bool :=
  Nat.eqb (iname a) (iname b) && list_eqb (iqs a) (iqs b) && all2 gate_eqb (igates a) (igates b).
Definition maps_eqb (a b : list nat * list nat) : bool :=
  list_eqb (fst a) (fst b) && list_eqb (snd a) (snd b).

Definition show_gate (g : gate) : nat * nat * list nat :=
  ((match gkind g with KU => 0 | KM => 1 end), gtag g, gqs g).

(* replay of a logged decision trace of Sabre / ShortestPaths through the model.
   result: (every step defined, all intermediate maps equal the logged ones,
            every exec was in the front layer, every exec/swap met the edge guard,
            un-routing the routed blocks gives back exactly the executed blocks and p2l,
            nothing left to execute, routed queue incl. re-attached measurements, final l2p) *)
Definition replay (n : nat) (G : graph) (items : list item) (finals : list gate) (ops : list op)
           (logged : list (list nat * list nat))
  : bool * bool * bool * bool * bool * bool * list (nat * nat * list nat) * list nat :=
  let '(tr, r) := run_trace n (init n items) ops in
  match r with
  | Some s =>
      (true, all2 maps_eqb tr logged,
       match run n guard_front (init n items) ops with Some _ => true | None => false end,
       match run n (full_guard G) (init n items) ops with Some _ => true | None => false end,
       (let '(lg, m) := unroute n (out s) in
        all2 gate_eqb lg (flat_map igates (done s)) && list_eqb m (p2l s)),
       match rem s with [] => true | _ => false end,
       map show_gate (eflat (out s) ++ append_final (l2p s) finals),
       final_layout s)
  | None => (false, false, false, false, false, false, [], [])
  end.

(* block_decomposition against the blocks the real code built, plus the verified reorder check *)
Definition blocks_check (n : nat) (gs : list gate) (real : list item) : bool * bool * bool :=
  match block_decomposition n gs with
  | Some bs => (all2 item_eqb bs real, reorder_ok (split_meas gs) (flat_map igates bs),
                gates_ok0b (split_meas gs))
  | None => (false, false, false)
  end.
Definition blocks_raise (n : nat) (gs : list gate) : bool :=
  match block_decomposition n gs with Some _ => false | None => true end.

Definition detach_check (full body finals : list gate) : bool :=
  let '(b, f) := detach_final full in all2 gate_eqb b body && all2 gate_eqb f finals.

(* StarConnectivityRouter: the deterministic model, and the same run as guarded ops of the
   generic transition system *)
Definition star_check (n mid : nat) (G : graph) (queue : list gate)
  : bool * list (nat * nat * list nat) * list nat * bool :=
  match star_route n mid queue with
  | Some (o, l) =>
      (true, map show_gate o, l,
       match star_ops mid (seq 0 n) 0 queue with
       | Some ops =>
           match run n (full_guard G) (init n (gate_items queue)) ops with
           | Some s => all2 gate_eqb (eflat (out s)) o && list_eqb (l2p s) l &&
                       match rem s with [] => true | _ => false end
           | None => false
           end
       | None => false
       end)
  | None => (false, [], [], false)
  end.
