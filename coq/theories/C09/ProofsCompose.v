(* C09/ProofsCompose.v : the whole Sabre / ShortestPaths __call__ as one statement:
   _detach_final_measurements ; block_decomposition ; any guarded run of the transition system ;
   routed_circuit ; _append_final_measurements. *)
From Coq Require Import List Arith Bool Lia.
From QV Require Import C09.Trace C09.ModelRouter C09.ModelBlocks C09.ProofsRouter C09.ProofsBlocks
                       C09.ProofsBlocksEquiv C09.ProofsSem.
Import ListNotations.

Lemma take_drop_while {A} (f : A -> bool) l : l = take_while f l ++ drop_while f l.
Proof. induction l as [|x l IH]; cbn; auto. destruct (f x); cbn; [f_equal; exact IH | reflexivity]. Qed.

Lemma take_while_all {A} (f : A -> bool) l : forallb f (take_while f l) = true.
Proof. induction l as [|x l IH]; cbn; auto. destruct (f x) eqn:E; cbn; auto. rewrite E. exact IH. Qed.

Lemma drop_while_head {A} (f : A -> bool) l x r : drop_while f l = x :: r -> f x = false.
Proof.
  induction l as [|y l IH]; cbn; [discriminate|]. destruct (f y) eqn:E; auto.
  intro H. inversion H; subst. exact E.
Qed.

Lemma forallb_rev {A} (f : A -> bool) l : forallb f (rev l) = forallb f l.
Proof.
  induction l as [|x l IH]; cbn; auto.
  rewrite forallb_app_iff, IH. cbn. rewrite andb_true_r. apply andb_comm.
Qed.

(* _detach_final_measurements: exactly the measurements at the end of the queue are detached *)
Theorem detach_final_spec_proof gs body finals :
  detach_final gs = (body, finals) ->
  gs = body ++ finals /\ forallb is_meas finals = true /\
  (body = [] \/ exists b' g, body = b' ++ [g] /\ is_meas g = false).
Proof.
  unfold detach_final. intro H. inversion H; subst; clear H. split; [|split].
  - rewrite <- rev_app_distr, <- take_drop_while. symmetry. apply rev_involutive.
  - rewrite forallb_rev. apply take_while_all.
  - destruct (drop_while is_meas (rev gs)) as [|x r] eqn:E; [left; reflexivity|].
    right. exists (rev r), x. split; [reflexivity|]. eapply drop_while_head; eauto.
Qed.

(* the routers as a whole: for every guarded run that executes every block *)
Theorem router_call_ok n (I : interp n) G gs body finals items ops s :
  detach_final gs = (body, finals) ->
  gates_ok0 (split_meas body) ->
  (forall g q, In g (split_meas body) -> In q (gqs g) -> q < n) ->
  (forall g q, In g finals -> In q (gqs g) -> q < n) ->
  block_decomposition n body = Some items ->
  run n (full_guard G) (init n items) ops = Some s -> rem s = [] ->
  gs = body ++ finals /\
  forallb (gate_on_edge G) (eflat (out s)) = true /\
  wf_maps n (l2p s) (p2l s) /\
  forall x, ieq n I (irun I (eflat (out s) ++ append_final (l2p s) finals) x)
                    (ipact n I (at_ (final_layout s)) (irun I (split_meas body ++ finals) x)).
Proof.
  intros D G0 Wb Wf B R E.
  destruct (detach_final_spec_proof _ _ _ D) as (Egs & _ & _).
  pose proof (blocks_wf_items n body items G0 Wb B) as WI.
  destruct (blocks_equiv_all n body items G0 B) as (T & _ & _).
  split; [exact Egs|]. split; [eapply route_edges; eauto|]. split; [eapply route_maps_bijective; eauto|].
  intro x.
  eapply i_trans; [apply (routing_sem_interp n I G items finals ops s WI Wf R E)|].
  apply i_pact_eq. unfold irun. rewrite !run_gates_app.
  apply run_gates_eq; [apply i_act_eq|].
  apply i_sym.
  apply (sem_teq _ _ (i_refl n I) (i_sym n I) (i_trans n I) _ (i_act_eq n I) (i_comm n I)). exact T.
Qed.

(* ------------------------------------------------------------------ measured registers report the same logical outcomes *)
(* [obs qs x] : anything read off the qubits qs of a state (e.g. the outcome distribution of a
   register); it only has to respect state equality and to be equivariant under qubit
   permutations.  Then reading the re-attached register (qubits mapped through the final layout)
   off the routed circuit gives what reading the original register off the input circuit gives. *)
Section Registers.
  Variable n : nat.
  Variable I : interp n.
  Variable O : Type.
  Variable obs : list nat -> iS n I -> O.
  Hypothesis obs_eq : forall qs x y, ieq n I x y -> obs qs x = obs qs y.
  Hypothesis obs_equivariant : forall f qs x, perm_on n f -> (forall q, In q qs -> q < n) ->
    obs (map f qs) (ipact n I f x) = obs qs x.

  Lemma obs_through_layout l p qs x y :
    wf_maps n l p -> (forall q, In q qs -> q < n) ->
    ieq n I y (ipact n I (at_ l) x) -> obs (map (at_ l) qs) y = obs qs x.
  Proof.
    intros W Hq E. rewrite (obs_eq _ _ _ E). apply obs_equivariant; auto.
    eapply perm_on_maps; eauto.
  Qed.

  Theorem registers_report_same_outcomes G gs body finals items ops s m :
    detach_final gs = (body, finals) ->
    gates_ok0 (split_meas body) ->
    (forall g q, In g (split_meas body) -> In q (gqs g) -> q < n) ->
    (forall g q, In g finals -> In q (gqs g) -> q < n) ->
    block_decomposition n body = Some items ->
    run n (full_guard G) (init n items) ops = Some s -> rem s = [] ->
    In m finals ->
    forall x,
      (* the register of the routed circuit: same tag, qubits through the final layout ... *)
      In (relabel (l2p s) m) (append_final (l2p s) finals) /\
      gqs (relabel (l2p s) m) = map (at_ (l2p s)) (gqs m) /\
      (* ... read off the routed state = the original register read off the original state *)
      obs (gqs (relabel (l2p s) m)) (irun I (eflat (out s)) x) = obs (gqs m) (irun I (split_meas body) x).
  Proof.
    intros D G0 Wb Wf B R E Hm x.
    destruct (router_call_ok n I G gs body finals items ops s D G0 Wb Wf B R E) as (_ & _ & W & _).
    pose proof (blocks_wf_items n body items G0 Wb B) as WI.
    destruct (blocks_equiv_all n body items G0 B) as (T & _ & _).
    split; [apply in_map; exact Hm|]. split; [reflexivity|].
    cbn [relabel gqs]. apply (obs_through_layout (l2p s) (p2l s)); auto.
    - intros q Hq. eapply Wf; eauto.
    - pose proof (routing_sem_interp n I G items [] ops s WI (fun g q F => match F with end) R E x) as S.
      unfold append_final in S. cbn [map] in S. rewrite !app_nil_r in S. unfold final_layout in S.
      eapply i_trans; [exact S|]. apply i_pact_eq. apply i_sym.
      unfold irun.
      apply (sem_teq _ _ (i_refl n I) (i_sym n I) (i_trans n I) _ (i_act_eq n I) (i_comm n I)). exact T.
  Qed.
End Registers.
