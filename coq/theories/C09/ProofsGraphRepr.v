(* C09, round 5 (family F: the same connectivity graph in another representation).
   The model's graph is the EDGE SET on positions; executability ([guard_edge]) reads it only through [has_edge].
   Proved here: [has_edge] is symmetric and invariant under re-ordering the edge list, re-orienting edges and
   duplicating edges; every guarded run depends on the graph only through [has_edge]. *)
From Coq Require Import List Arith Bool Lia Permutation.
From QV Require Import C09.Trace C09.ModelRouter.
Import ListNotations.

Definition same_edges (G G' : graph) : Prop := forall p q, has_edge G p q = has_edge G' p q.
Definition flip (e : nat * nat) : nat * nat := (snd e, fst e).

Lemma has_edge_sym_lemma : forall G p q, has_edge G p q = has_edge G q p.
Proof.
  intros G p q. unfold has_edge. induction G as [|e G IH]; cbn [existsb]; [reflexivity|].
  rewrite IH. f_equal. apply orb_comm.
Qed.

Lemma has_edge_in : forall G p q,
  has_edge G p q = true <-> exists e, In e G /\ ((fst e = p /\ snd e = q) \/ (fst e = q /\ snd e = p)).
Proof.
  intros G p q. unfold has_edge. rewrite existsb_exists. split; intros [e [Hi H]]; exists e; split; auto.
  - apply orb_true_iff in H. destruct H as [H|H]; apply andb_true_iff in H; destruct H as [H1 H2];
      apply Nat.eqb_eq in H1; apply Nat.eqb_eq in H2; auto.
  - destruct H as [[H1 H2]|[H1 H2]]; subst; rewrite !Nat.eqb_refl; cbn; auto using orb_true_r.
Qed.

Lemma same_edges_of_incl : forall G G',
  (forall e, In e G -> In e G' \/ In (flip e) G') ->
  (forall e, In e G' -> In e G \/ In (flip e) G) -> same_edges G G'.
Proof.
  intros G G' H1 H2 p q. apply eq_true_iff_eq. rewrite !has_edge_in.
  split; intros [e [Hi Hc]].
  - destruct (H1 e Hi) as [Hj|Hj]; [exists e; auto|]. exists (flip e). split; auto. unfold flip; cbn. tauto.
  - destruct (H2 e Hi) as [Hj|Hj]; [exists e; auto|]. exists (flip e). split; auto. unfold flip; cbn. tauto.
Qed.

Lemma same_edges_perm_lemma : forall G G', Permutation G G' -> same_edges G G'.
Proof.
  intros G G' P. apply same_edges_of_incl; intros e Hi; left.
  - eapply Permutation_in; eauto.
  - eapply Permutation_in; [apply Permutation_sym|]; eauto.
Qed.

Lemma same_edges_flip_lemma : forall (G : graph) (fl : nat * nat -> bool),
  same_edges G (map (fun e => if fl e then flip e else e) G).
Proof.
  intros G fl. apply same_edges_of_incl; intros e Hi.
  - destruct (fl e) eqn:Hf.
    + right. apply in_map_iff. exists e. rewrite Hf. auto.
    + left. apply in_map_iff. exists e. rewrite Hf. auto.
  - apply in_map_iff in Hi. destruct Hi as [e0 [He Hi]]. destruct (fl e0); subst; auto.
    right. unfold flip; cbn. destruct e0; cbn. exact Hi.
Qed.

Lemma same_edges_dup_lemma : forall G e, In e G -> same_edges G (e :: G).
Proof.
  intros G e Hi. apply same_edges_of_incl; intros x Hx; left; cbn; auto.
  destruct Hx as [<-|Hx]; auto.
Qed.

Lemma guard_edge_same : forall G G' s o, same_edges G G' -> guard_edge G s o = guard_edge G' s o.
Proof.
  intros G G' s o H. destruct o as [nm|a b|]; cbn [guard_edge]; auto.
  unfold edge_ok. destruct (extract _ _) as [[[pre it] post]|]; auto.
  destruct (iqs it) as [|a [|b [|c l]]]; auto. rewrite H. reflexivity.
Qed.

Lemma run_same_edges_lemma : forall n G G' ops s,
  same_edges G G' -> run n (full_guard G) s ops = run n (full_guard G') s ops.
Proof.
  intros n G G' ops. induction ops as [|o ops IH]; intros s H; cbn [run]; auto.
  unfold full_guard at 1 3. rewrite (guard_edge_same G G' s o H).
  destruct (guard_front s o && guard_edge G' s o); auto.
  destruct (step n s o); auto.
Qed.
