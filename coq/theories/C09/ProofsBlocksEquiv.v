(* C09/ProofsBlocksEquiv.v : blocks_equiv for ALL circuits --
   flattening block_decomposition(c) is a reordering of (the measurement-split) c that only
   exchanges gates on disjoint qubits.  Covers _split_multi_qubit_measurements (characterised),
   _initial_block_decomposition (both phases, _find_previous_gates, _find_successive_gates,
   _remove_gates), the fusion loop and the index names. *)
From Coq Require Import List Arith Bool Lia.
From QV Require Import C09.Trace C09.ModelRouter C09.ModelBlocks C09.ProofsRouter C09.ProofsBlocks.
Import ListNotations.

(* ------------------------------------------------------------------ generic facts *)
Lemma gate_eqb_refl g : gate_eqb g g = true.
Proof.
  unfold gate_eqb. destruct g as [k t qs]. cbn.
  assert (K : kind_eqb k k = true) by (destruct k; reflexivity).
  assert (L : list_eqb qs qs = true) by (induction qs; cbn; auto; rewrite Nat.eqb_refl; auto).
  rewrite K, Nat.eqb_refl, L. reflexivity.
Qed.

Lemma gate_eqb_neq a b : a <> b -> gate_eqb a b = false.
Proof. intro N. destruct (gate_eqb a b) eqn:E; auto. apply gate_eqb_eq in E. contradiction. Qed.

(* x passes a whole list of letters it is independent of *)
Lemma pass_list {A} (D : A -> A -> Prop) x (F N : list A) :
  (forall f, In f F -> D x f) -> teq D (x :: F ++ N) (F ++ x :: N).
Proof.
  induction F as [|y F IH]; intro H; cbn [app].
  - apply teq_refl.
  - eapply teq_trans.
    + apply (teq_swap _ _ [] x y (F ++ N)). apply H. left. reflexivity.
    + cbn [app]. apply teq_cons. apply IH. intros f Hf. apply H. right. exact Hf.
Qed.

(* a whole list passes another one *)
Lemma pass_lists {A} (D : A -> A -> Prop) (U V N : list A) :
  (forall u v, In u U -> In v V -> D u v) -> teq D (U ++ V ++ N) (V ++ U ++ N).
Proof.
  induction U as [|u U IH]; intro H; cbn [app].
  - apply teq_refl.
  - eapply teq_trans.
    + apply teq_cons. apply IH. intros u' v Hu Hv. apply H; [right|]; assumption.
    + apply (pass_list D u V (U ++ N)). intros v Hv. apply H; [left; reflexivity | exact Hv].
Qed.

(* ------------------------------------------------------------------ _remove_gates *)
Lemma remove1_notin g l : ~ In g l -> remove1 g l = l.
Proof.
  induction l as [|x l IH]; intro H; cbn; auto.
  rewrite gate_eqb_neq by (intro E; apply H; left; exact E).
  f_equal. apply IH. intro Hin. apply H. right. exact Hin.
Qed.

Lemma remove1_head g l : remove1 g (g :: l) = l.
Proof. cbn. rewrite gate_eqb_refl. reflexivity. Qed.

Lemma remove1_cons_neq g x l : x <> g -> remove1 g (x :: l) = x :: remove1 g l.
Proof. intro N. cbn. rewrite gate_eqb_neq by exact N. reflexivity. Qed.

Lemma remove1_In g l y : In y (remove1 g l) -> In y l.
Proof.
  induction l as [|x l IH]; cbn; auto.
  destruct (gate_eqb x g); cbn; intuition.
Qed.

Lemma remove1_In_neq g l y : In y l -> y <> g -> In y (remove1 g l).
Proof.
  induction l as [|x l IH]; cbn; auto. intros [<-|H] N.
  - rewrite gate_eqb_neq by exact N. left. reflexivity.
  - destruct (gate_eqb x g); [exact H | right; apply IH; auto].
Qed.

Lemma remove1_NoDup g l : NoDup l -> NoDup (remove1 g l).
Proof.
  induction l as [|x l IH]; intro H; cbn; auto. inversion H; subst.
  destruct (gate_eqb x g); auto. constructor; auto.
  intro Hin. apply H2. eapply remove1_In; eauto.
Qed.

Lemma remove1_NoDup_notin g l : NoDup l -> ~ In g (remove1 g l).
Proof.
  induction l as [|x l IH]; intro H; cbn; auto. inversion H; subst.
  destruct (gate_eqb x g) eqn:E.
  - apply gate_eqb_eq in E. subst. exact H2.
  - intros [E'|Hin]; [subst; rewrite gate_eqb_refl in E; discriminate | apply IH; auto].
Qed.

Lemma remove_all_nil l : remove_all [] l = l.
Proof. reflexivity. Qed.

Lemma remove_all_cons r rm l : remove_all (r :: rm) l = remove_all rm (remove1 r l).
Proof. reflexivity. Qed.

Lemma remove_all_app a b l : remove_all (a ++ b) l = remove_all b (remove_all a l).
Proof. unfold remove_all. apply fold_left_app. Qed.

Lemma remove_all_In rm l y : In y (remove_all rm l) -> In y l.
Proof.
  revert l. induction rm as [|r rm IH]; intros l H; auto.
  rewrite remove_all_cons in H. apply IH in H. eapply remove1_In; eauto.
Qed.

Lemma remove_all_NoDup rm l : NoDup l -> NoDup (remove_all rm l).
Proof.
  revert l. induction rm as [|r rm IH]; intros l H; auto.
  rewrite remove_all_cons. apply IH. apply remove1_NoDup. exact H.
Qed.

Lemma remove_all_keeps rm l y : In y l -> ~ In y rm -> In y (remove_all rm l).
Proof.
  revert l. induction rm as [|r rm IH]; intros l H N; auto.
  rewrite remove_all_cons. apply IH.
  - apply remove1_In_neq; auto. intro E. apply N. left. symmetry. exact E.
  - intro Hin. apply N. right. exact Hin.
Qed.

Lemma remove_all_removes rm l y : NoDup l -> In y rm -> ~ In y (remove_all rm l).
Proof.
  revert l. induction rm as [|r rm IH]; intros l ND H; [destruct H|].
  rewrite remove_all_cons. destruct H as [<-|H].
  - intro Hin. apply remove_all_In in Hin. revert Hin. apply remove1_NoDup_notin. exact ND.
  - apply IH; auto. apply remove1_NoDup. exact ND.
Qed.

(* removing gates none of which is x leaves a leading x in place *)
Lemma remove_all_cons_notin rm x l : ~ In x rm -> remove_all rm (x :: l) = x :: remove_all rm l.
Proof.
  revert l. induction rm as [|r rm IH]; intros l N; auto.
  rewrite !remove_all_cons. rewrite remove1_cons_neq by (intro E; apply N; left; symmetry; exact E).
  apply IH. intro H. apply N. right. exact H.
Qed.

Lemma remove_all_app_notin rm l1 l2 :
  (forall r, In r rm -> ~ In r l1) -> remove_all rm (l1 ++ l2) = l1 ++ remove_all rm l2.
Proof.
  induction l1 as [|x l1 IH]; intro H; auto. cbn [app].
  rewrite remove_all_cons_notin.
  - f_equal. apply IH. intros r Hr Hin. apply (H r Hr). right. exact Hin.
  - intro Hin. apply (H x Hin). left. reflexivity.
Qed.

(* removing gates that all lie in (duplicate-free) l1 does not touch l2 *)
Lemma remove1_app_in r l1 l2 : In r l1 -> remove1 r (l1 ++ l2) = remove1 r l1 ++ l2.
Proof.
  induction l1 as [|x l1 IH]; intro H; [destruct H|]. cbn.
  destruct (gate_eqb x r) eqn:E; auto.
  destruct H as [->|H]; [rewrite gate_eqb_refl in E; discriminate|].
  cbn [app]. f_equal. apply IH. exact H.
Qed.

Lemma remove_all_app_in rm : NoDup rm -> forall l1 l2,
  (forall r, In r rm -> In r l1) -> remove_all rm (l1 ++ l2) = remove_all rm l1 ++ l2.
Proof.
  induction rm as [|r rm IH]; intros ND l1 l2 H; auto. inversion ND; subst.
  rewrite !remove_all_cons, remove1_app_in by (apply H; left; reflexivity).
  apply IH; auto. intros r' Hr'. apply remove1_In_neq; [apply H; right; exact Hr'|].
  intro E. subst. contradiction.
Qed.

(* ------------------------------------------------------------------ extraction of a filtered part *)
Lemma filter_NoDup {A} (f : A -> bool) l : NoDup l -> NoDup (filter f l).
Proof.
  induction l as [|x l IH]; intro H; cbn; auto. inversion H; subst.
  destruct (f x); auto. constructor; auto. intro Hin. apply filter_In in Hin. tauto.
Qed.

Lemma filter_extract (f : gate -> bool) : forall l,
  NoDup l ->
  (forall x y, In x l -> In y l -> f x = true -> f y = false -> Dgate y x) ->
  teq Dgate l (filter f l ++ remove_all (filter f l) l).
Proof.
  induction l as [|g l IH]; intros ND H; [apply teq_refl|].
  inversion ND; subst.
  assert (IH' : teq Dgate l (filter f l ++ remove_all (filter f l) l)).
  { apply IH; auto. intros x y Hx Hy. apply H; right; assumption. }
  cbn [filter]. destruct (f g) eqn:E.
  - rewrite remove_all_cons, remove1_head. cbn [app]. apply teq_cons. exact IH'.
  - rewrite remove_all_cons_notin by (intro Hin; apply filter_In in Hin; destruct Hin; congruence).
    eapply teq_trans; [apply teq_cons; exact IH'|].
    apply pass_list. intros x Hx. apply filter_In in Hx. destruct Hx as [Hx Fx].
    apply H; auto; [right; exact Hx | left; reflexivity].
Qed.

(* ------------------------------------------------------------------ gates *)
Definition gates_ok (l : list gate) : Prop :=
  NoDup l /\ forall g, In g l -> 1 <= nq g <= 2 /\ nodupb (gqs g) = true.

Lemma nq1 g : nq g = 1 -> gqs g = [q0 g].
Proof. unfold nq, q0. destruct (gqs g) as [|a [|b r]]; cbn; intro; try lia. reflexivity. Qed.

Lemma nq2 g : nq g = 2 -> exists a b, gqs g = [a; b].
Proof. unfold nq. destruct (gqs g) as [|a [|b [|c r]]]; cbn; intro; try lia. eauto. Qed.

(* ------------------------------------------------------------------ _find_successive_gates, one qubit *)
Lemma scan_in post a x : In x (scan_succ post a) -> In x post /\ gqs x = [a].
Proof.
  induction post as [|g post IH]; cbn; [tauto|].
  destruct ((nq g =? 1) && (q0 g =? a)) eqn:E1.
  - apply andb_prop in E1. destruct E1 as [A B]. apply Nat.eqb_eq in A, B.
    intros [<-|H].
    + split; [left; reflexivity|]. rewrite (nq1 _ A), B. reflexivity.
    + destruct (IH H). split; [right|]; assumption.
  - destruct ((nq g =? 2) && mem a (gqs g)); [intros []|].
    intro H. destruct (IH H). split; [right|]; assumption.
Qed.

Lemma scan_extract a : forall post,
  NoDup post -> (forall g, In g post -> 1 <= nq g <= 2) ->
  teq Dgate post (scan_succ post a ++ remove_all (scan_succ post a) post).
Proof.
  induction post as [|g post IH]; intros ND W; [apply teq_refl|].
  inversion ND; subst.
  assert (IH' : teq Dgate post (scan_succ post a ++ remove_all (scan_succ post a) post)).
  { apply IH; auto. intros x Hx. apply W. right. exact Hx. }
  cbn [scan_succ].
  destruct ((nq g =? 1) && (q0 g =? a)) eqn:E1.
  - rewrite remove_all_cons, remove1_head. cbn [app]. apply teq_cons. exact IH'.
  - destruct ((nq g =? 2) && mem a (gqs g)) eqn:E2.
    + cbn [app]. rewrite remove_all_nil. apply teq_refl.
    + rewrite remove_all_cons_notin by (intro Hin; apply scan_in in Hin; tauto).
      eapply teq_trans; [apply teq_cons; exact IH'|].
      apply pass_list. intros x Hx. apply scan_in in Hx. destruct Hx as [_ Ex].
      (* g does not contain a *)
      intros q Hq Hq'. rewrite Ex in Hq'. destruct Hq' as [<-|[]].
      destruct (W g (or_introl eq_refl)) as [L1 L2].
      destruct (Nat.eq_dec (nq g) 1) as [N1|N1].
      * rewrite (nq1 _ N1) in Hq. destruct Hq as [Hq|[]].
        rewrite N1, Hq, !Nat.eqb_refl in E1. discriminate.
      * assert (N2 : nq g = 2) by lia. rewrite N2, Nat.eqb_refl in E2. cbn in E2.
        apply mem_In in Hq. congruence.
Qed.

(* scanning for b is not affected by removing what the scan for a took (a <> b) *)
Lemma scan_remove_other a b : a <> b -> forall post,
  NoDup post ->
  scan_succ (remove_all (scan_succ post a) post) b = scan_succ post b.
Proof.
  intros Nab. induction post as [|g post IH]; intro ND; [reflexivity|].
  inversion ND; subst. cbn [scan_succ].
  destruct ((nq g =? 1) && (q0 g =? a)) eqn:E1.
  - rewrite remove_all_cons, remove1_head, IH by auto.
    apply andb_prop in E1. destruct E1 as [A B]. apply Nat.eqb_eq in A, B.
    assert (Eb : (q0 g =? b) = false) by (apply Nat.eqb_neq; congruence).
    rewrite A, Eb. cbn. reflexivity.
  - destruct ((nq g =? 2) && mem a (gqs g)) eqn:E2.
    + rewrite remove_all_nil. reflexivity.
    + rewrite remove_all_cons_notin by (intro Hin; apply scan_in in Hin; tauto).
      cbn [scan_succ]. rewrite IH by auto. reflexivity.
Qed.

(* ------------------------------------------------------------------ more list facts *)
Lemma nodup_app_inv {A} (a b : list A) :
  NoDup (a ++ b) -> NoDup a /\ NoDup b /\ forall x, In x a -> ~ In x b.
Proof.
  induction a as [|x a IH]; cbn; intro H.
  - repeat split; auto. constructor.
  - inversion H; subst. destruct (IH H3) as (A1 & A2 & A3). repeat split; auto.
    + constructor; auto. intro Hin. apply H2. apply in_or_app. left. exact Hin.
    + intros y [<-|Hy] Hb; [apply H2; apply in_or_app; right; exact Hb | exact (A3 y Hy Hb)].
Qed.

Lemma remove1_length_le g l : length (remove1 g l) <= length l.
Proof. induction l as [|x l IH]; cbn; auto. destruct (gate_eqb x g); cbn; lia. Qed.

Lemma remove1_length_lt g l : In g l -> length (remove1 g l) < length l.
Proof.
  induction l as [|x l IH]; cbn; [tauto|]. intro H.
  destruct (gate_eqb x g) eqn:E; cbn; [lia|].
  destruct H as [->|H]; [rewrite gate_eqb_refl in E; discriminate|]. specialize (IH H). lia.
Qed.

Lemma remove_all_length_le rm l : length (remove_all rm l) <= length l.
Proof.
  revert l. induction rm as [|r rm IH]; intro l; auto.
  rewrite remove_all_cons. pose proof (IH (remove1 r l)). pose proof (remove1_length_le r l). lia.
Qed.

Lemma remove_all_length_lt_head r rm l : In r l -> length (remove_all (r :: rm) l) < length l.
Proof.
  intro H. rewrite remove_all_cons.
  pose proof (remove_all_length_le rm (remove1 r l)). pose proof (remove1_length_lt r l H). lia.
Qed.

Lemma gates_ok_sub l l' : gates_ok l -> NoDup l' -> (forall x, In x l' -> In x l) -> gates_ok l'.
Proof. intros [_ W] ND S. split; auto. Qed.

Lemma gates_ok_remove rm l : gates_ok l -> gates_ok (remove_all rm l).
Proof.
  intro G. apply (gates_ok_sub l); auto.
  - apply remove_all_NoDup. apply G.
  - intros x Hx. eapply remove_all_In; eauto.
Qed.

Lemma In_sort2 x a b : In x (sort2 a b) <-> x = a \/ x = b.
Proof. unfold sort2. destruct (a <=? b); cbn; intuition. Qed.

(* every gate of the block acts within the block's qubits *)
Definition block_wf (b : item) : Prop :=
  forall x q, In x (igates b) -> In q (gqs x) -> In q (iqs b).

(* ------------------------------------------------------------------ phase 1, one block *)
Lemma phase1_step gs pre g post :
  gates_ok gs ->
  extract (fun y => nq y =? 2) gs = Some (pre, g, post) ->
  let bg := find_previous pre (gqs g) ++ [g] ++ find_successive post (gqs g) in
  teq Dgate gs (bg ++ remove_all bg gs) /\
  length (remove_all bg gs) < length gs /\
  (forall x q, In x bg -> In q (gqs x) -> In q (sorted_qs (gqs g))).
Proof.
  intros [ND W] E. destruct (extract_spec _ _ _ _ _ _ E) as (-> & G2 & Hpre).
  apply Nat.eqb_eq in G2. destruct (nq2 g G2) as (a & b & Eg).
  assert (Ing : In g (pre ++ g :: post)) by (apply in_or_app; right; left; reflexivity).
  destruct (W g Ing) as [_ NDg].
  assert (Nab : a <> b).
  { rewrite Eg in NDg. cbn in NDg. apply andb_prop in NDg. destruct NDg as [NDg _].
    apply negb_true_iff in NDg. rewrite orb_false_r in NDg. apply Nat.eqb_neq in NDg. exact NDg. }
  destruct (nodup_app_inv _ _ ND) as (NDpre & NDgp & Dis).
  inversion NDgp as [|? ? Gnp NDpost]; subst.
  assert (Gnpre : ~ In g pre) by (intro Hin; apply (Dis g Hin); left; reflexivity).
  (* gates before g are single-qubit gates *)
  assert (Pre1 : forall y, In y pre -> nq y = 1).
  { intros y Hy. pose proof (Hpre y Hy) as N. apply Nat.eqb_neq in N.
    destruct (W y (in_or_app _ _ _ (or_introl Hy))) as [[? ?] _]. lia. }
  assert (Wpost : forall y, In y post -> 1 <= nq y <= 2).
  { intros y Hy. apply W. apply in_or_app. right. right. exact Hy. }
  rewrite Eg. cbv zeta. unfold find_successive. cbn [flat_map]. rewrite app_nil_r.
  set (P := find_previous pre [a; b]). set (Sa := scan_succ post a). set (Sb := scan_succ post b).
  set (pre' := remove_all P pre). set (post_a := remove_all Sa post). set (post_ab := remove_all Sb post_a).
  assert (HP : forall x, In x P -> In x pre /\ (gqs x = [a] \/ gqs x = [b])).
  { intros x Hx. unfold P, find_previous in Hx. apply filter_In in Hx. destruct Hx as [Hx Mx].
    split; auto. rewrite (nq1 _ (Pre1 x Hx)). apply mem_In in Mx. destruct Mx as [<-|[<-|[]]]; auto. }
  assert (Hpre' : forall y, In y pre' -> In y pre /\ forall q, In q (gqs y) -> q <> a /\ q <> b).
  { intros y Hy. assert (Hyp : In y pre) by (eapply remove_all_In; eauto). split; auto.
    intros q Hq. rewrite (nq1 _ (Pre1 y Hyp)) in Hq. destruct Hq as [<-|[]].
    assert (NP : ~ In y P) by (intro HyP; exact (remove_all_removes P pre y NDpre HyP Hy)).
    assert (M : mem (q0 y) [a; b] = false).
    { destruct (mem (q0 y) [a; b]) eqn:M; auto. exfalso. apply NP. apply filter_In. auto. }
    cbn in M. rewrite orb_false_r in M. apply orb_false_elim in M. destruct M as [M1 M2].
    apply Nat.eqb_neq in M1, M2. auto. }
  assert (HSa : forall x, In x Sa -> In x post /\ gqs x = [a]) by (intros x; apply scan_in).
  assert (HSb : forall x, In x Sb -> In x post /\ gqs x = [b]) by (intros x; apply scan_in).
  assert (NDa : NoDup post_a) by (apply remove_all_NoDup; auto).
  (* the three extractions *)
  assert (T1 : teq Dgate pre (P ++ pre')).
  { apply filter_extract; auto. intros x y Hx Hy Fx Fy q Hq Hq'.
    rewrite (nq1 _ (Pre1 x Hx)) in Hq'. rewrite (nq1 _ (Pre1 y Hy)) in Hq.
    destruct Hq as [<-|[]]. destruct Hq' as [E'|[]]. rewrite E' in Fx. congruence. }
  assert (T2 : teq Dgate post (Sa ++ post_a)) by (apply scan_extract; auto).
  assert (T3 : teq Dgate post_a (Sb ++ post_ab)).
  { unfold post_ab, Sb. rewrite <- (scan_remove_other a b Nab post NDpost). fold Sa. fold post_a.
    apply scan_extract; auto. intros y Hy. apply Wpost. eapply remove_all_In; eauto. }
  (* what is left *)
  assert (NDP : NoDup P) by (apply filter_NoDup; auto).
  assert (Rest : remove_all (P ++ [g] ++ Sa ++ Sb) (pre ++ g :: post) = pre' ++ post_ab).
  { rewrite !remove_all_app.
    rewrite (remove_all_app_in P NDP pre (g :: post)) by (intros r Hr; apply HP; exact Hr).
    fold pre'.
    rewrite (remove_all_app_notin [g] pre' (g :: post)).
    2:{ intros r [<-|[]] Hin. apply Gnpre. eapply remove_all_In; eauto. }
    rewrite remove_all_cons, remove1_head, remove_all_nil.
    rewrite (remove_all_app_notin Sa pre' post).
    2:{ intros r Hr Hin. apply (Dis r); [eapply remove_all_In; eauto | right; apply HSa; exact Hr]. }
    fold post_a.
    rewrite (remove_all_app_notin Sb pre' post_a).
    2:{ intros r Hr Hin. apply (Dis r); [eapply remove_all_In; eauto | right; apply HSb; exact Hr]. }
    reflexivity. }
  split; [|split].
  - rewrite Rest.
    eapply teq_trans.
    { apply teq_app; [exact T1|]. apply teq_cons. eapply teq_trans; [exact T2|]. apply teq_app_l. exact T3. }
    rewrite <- !app_assoc. apply teq_app_l. cbn [app].
    (* pre' ++ g :: Sa ++ Sb ++ post_ab  ~  g :: Sa ++ Sb ++ pre' ++ post_ab *)
    change (g :: Sa ++ Sb ++ post_ab) with ([g] ++ Sa ++ Sb ++ post_ab).
    change (g :: Sa ++ Sb ++ pre' ++ post_ab) with ([g] ++ Sa ++ Sb ++ pre' ++ post_ab).
    replace ([g] ++ Sa ++ Sb ++ post_ab) with (([g] ++ Sa ++ Sb) ++ post_ab) by (rewrite <- !app_assoc; reflexivity).
    replace ([g] ++ Sa ++ Sb ++ pre' ++ post_ab) with (([g] ++ Sa ++ Sb) ++ pre' ++ post_ab) by (rewrite <- !app_assoc; reflexivity).
    apply pass_lists. intros u v Hu Hv q Hq Hq'.
    destruct (Hpre' u Hu) as [_ Hn]. destruct (Hn q Hq) as [Na Nb].
    apply in_app_or in Hv. destruct Hv as [[<-|[]]|Hv].
    + rewrite Eg in Hq'. destruct Hq' as [<-|[<-|[]]]; congruence.
    + apply in_app_or in Hv. destruct Hv as [Hv|Hv].
      * destruct (HSa v Hv) as [_ Ev]. rewrite Ev in Hq'. destruct Hq' as [<-|[]]. congruence.
      * destruct (HSb v Hv) as [_ Ev]. rewrite Ev in Hq'. destruct Hq' as [<-|[]]. congruence.
  - rewrite Rest. rewrite !app_length. cbn [length].
    pose proof (remove_all_length_le P pre). pose proof (remove_all_length_le Sb post_a).
    pose proof (remove_all_length_le Sa post). fold pre' in H. fold post_ab in H0. fold post_a in H1. lia.
  - intros x q Hx Hq. cbn [sorted_qs]. apply In_sort2. rewrite ?app_nil_r in Hx.
    apply in_app_or in Hx. destruct Hx as [Hx|[<-|Hx]].
    + destruct (HP x Hx) as [_ [Ex|Ex]]; rewrite Ex in Hq; destruct Hq as [<-|[]]; auto.
    + rewrite Eg in Hq. destruct Hq as [<-|[<-|[]]]; auto.
    + cbn [app] in Hx. apply in_app_or in Hx. destruct Hx as [Hx|Hx].
      * destruct (HSa x Hx) as [_ Ex]. rewrite Ex in Hq. destruct Hq as [<-|[]]. auto.
      * destruct (HSb x Hx) as [_ Ex]. rewrite Ex in Hq. destruct Hq as [<-|[]]. auto.
Qed.

(* ------------------------------------------------------------------ phase 1, all blocks *)
Lemma extract_none {A} (f : A -> bool) l : extract f l = None -> forall x, In x l -> f x = false.
Proof.
  induction l as [|y l IH]; cbn; intros H x Hx; [destruct Hx|].
  destruct (f y) eqn:E; [discriminate|].
  destruct (extract f l) as [[[? ?] ?]|]; [discriminate|].
  destruct Hx as [<-|Hx]; auto.
Qed.

Lemma init_blocks2_spec : forall fuel gs bs rest,
  gates_ok gs -> length gs < fuel ->
  init_blocks2 fuel gs = (bs, rest) ->
  teq Dgate gs (flat_map igates bs ++ rest) /\
  gates_ok rest /\ (forall y, In y rest -> nq y = 1) /\
  (forall b, In b bs -> block_wf b).
Proof.
  induction fuel as [|f IH]; intros gs bs rest G L H; [lia|].
  cbn [init_blocks2] in H.
  destruct (extract (fun g => nq g =? 2) gs) as [[[pre g] post]|] eqn:E.
  - set (bg := find_previous pre (gqs g) ++ [g] ++ find_successive post (gqs g)) in *.
    destruct (init_blocks2 f (remove_all bg gs)) as [bs' rest'] eqn:R.
    inversion H; subst bs rest; clear H.
    destruct (phase1_step gs pre g post G E) as (T & Len & WF). fold bg in T, Len, WF.
    destruct (IH (remove_all bg gs) bs' rest' (gates_ok_remove _ _ G)) as (T' & G' & O' & W'); auto; [lia|].
    split; [|split; [|split]]; auto.
    + cbn [flat_map igates]. rewrite <- app_assoc.
      eapply teq_trans; [exact T|]. apply teq_app_l. exact T'.
    + intros b [<-|Hb]; [|apply W'; exact Hb].
      intros x q Hx Hq. cbn [igates iqs] in *. eapply WF; eauto.
  - inversion H; subst bs rest; clear H. cbn [flat_map app].
    split; [apply teq_refl|]. split; [exact G|]. split; [|intros b []].
    intros y Hy. pose proof (extract_none _ _ E y Hy) as N. apply Nat.eqb_neq in N.
    destruct G as [_ W]. destruct (W y Hy) as [[? ?] _]. lia.
Qed.

(* ------------------------------------------------------------------ phase 2: left-over single-qubit gates *)
Lemma gates_on_extract gs q :
  NoDup gs -> (forall y, In y gs -> nq y = 1) ->
  teq Dgate gs (gates_on gs q ++ remove_all (gates_on gs q) gs) /\
  forall x, In x (gates_on gs q) -> gqs x = [q].
Proof.
  intros ND O. split.
  - apply filter_extract; auto. intros x y Hx Hy Fx Fy p Hp Hp'.
    rewrite (nq1 _ (O x Hx)) in Hp'. rewrite (nq1 _ (O y Hy)) in Hp.
    destruct Hp as [<-|[]]. destruct Hp' as [E|[]]. rewrite E in Fx. congruence.
  - intros x Hx. apply filter_In in Hx. destruct Hx as [Hx Fx]. apply Nat.eqb_eq in Fx.
    rewrite (nq1 _ (O x Hx)), Fx. reflexivity.
Qed.

Lemma leftover_spec n : forall fuel gs,
  NoDup gs -> (forall y, In y gs -> nq y = 1) -> length gs < fuel ->
  teq Dgate gs (flat_map igates (leftover fuel n gs)) /\
  (forall b, In b (leftover fuel n gs) -> block_wf b).
Proof.
  induction fuel as [|f IH]; intros gs ND O L; [lia|].
  cbn [leftover]. destruct gs as [|g0 gs0] eqn:Egs; [split; [apply teq_refl | intros b []]|].
  rewrite <- Egs in *. set (q1 := q0 g0).
  destruct (gates_on_extract gs q1 ND O) as [T1 H1].
  set (b1 := gates_on gs q1) in *. set (gs1 := remove_all b1 gs) in *.
  assert (In1 : In g0 b1).
  { unfold b1, gates_on. apply filter_In. split; [rewrite Egs; left; reflexivity | apply Nat.eqb_refl]. }
  assert (L1 : length gs1 < length gs).
  { unfold gs1. destruct b1 as [|r rm] eqn:Eb; [destruct In1|].
    assert (Hr : In r gs).
    { assert (In r (gates_on gs q1)) by (fold b1; rewrite Eb; left; reflexivity).
      apply filter_In in H. tauto. }
    apply remove_all_length_lt_head. exact Hr. }
  assert (ND1 : NoDup gs1) by (apply remove_all_NoDup; auto).
  assert (O1 : forall y, In y gs1 -> nq y = 1) by (intros y Hy; apply O; eapply remove_all_In; eauto).
  destruct gs1 as [|g1 gs1'] eqn:E1.
  - split.
    + cbn [flat_map igates]. rewrite app_nil_r. rewrite app_nil_r in T1. exact T1.
    + intros b [<-|[]] x q Hx Hq. cbn [igates iqs] in *. rewrite (H1 x Hx) in Hq.
      destruct Hq as [<-|[]]. apply In_sort2. left. reflexivity.
  - rewrite <- E1 in *. set (q2 := q0 g1).
    destruct (gates_on_extract gs1 q2 ND1 O1) as [T2 H2].
    set (b2 := gates_on gs1 q2) in *. set (gs2 := remove_all b2 gs1) in *.
    assert (L2 : length gs2 <= length gs1) by apply remove_all_length_le.
    destruct (IH gs2) as [T3 W3].
    { apply remove_all_NoDup; auto. }
    { intros y Hy. apply O1. eapply remove_all_In; eauto. }
    { lia. }
    split.
    + cbn [flat_map igates]. rewrite <- app_assoc.
      eapply teq_trans; [exact T1|]. apply teq_app_l.
      eapply teq_trans; [exact T2|]. apply teq_app_l. exact T3.
    + intros b [<-|Hb]; [|apply W3; exact Hb].
      intros x q Hx Hq. cbn [igates iqs] in *. apply In_sort2.
      apply in_app_or in Hx. destruct Hx as [Hx|Hx].
      * rewrite (H1 x Hx) in Hq. destruct Hq as [<-|[]]. left. reflexivity.
      * rewrite (H2 x Hx) in Hq. destruct Hq as [<-|[]]. right. reflexivity.
Qed.

Theorem initial_blocks_spec n gs :
  gates_ok gs ->
  teq Dgate gs (flat_map igates (initial_blocks n gs)) /\
  forall b, In b (initial_blocks n gs) -> block_wf b.
Proof.
  intro G. unfold initial_blocks.
  destruct (init_blocks2 (S (length gs)) gs) as [bs rest] eqn:E.
  destruct (init_blocks2_spec _ _ _ _ G (Nat.lt_succ_diag_r _) E) as (T & Gr & O & W).
  destruct (leftover_spec n (S (length rest)) rest (proj1 Gr) O (Nat.lt_succ_diag_r _)) as [T2 W2].
  split.
  - rewrite flat_map_app. eapply teq_trans; [exact T|]. apply teq_app_l. exact T2.
  - intros b Hb. apply in_app_or in Hb. destruct Hb; auto.
Qed.

(* ------------------------------------------------------------------ index names *)
Definition renum (ib : nat * item) : item := mkI (fst ib) (iqs (snd ib)) (igates (snd ib)).

Lemma number_eq bs : number bs = map renum (combine (seq 0 (length bs)) bs).
Proof. reflexivity. Qed.

Lemma renum_flat : forall bs i,
  flat_map igates (map renum (combine (seq i (length bs)) bs)) = flat_map igates bs.
Proof. induction bs as [|b bs IH]; intro i; cbn; auto. rewrite IH. reflexivity. Qed.

Lemma renum_names : forall bs i,
  map iname (map renum (combine (seq i (length bs)) bs)) = seq i (length bs).
Proof. induction bs as [|b bs IH]; intro i; cbn; auto. rewrite IH. reflexivity. Qed.

Lemma renum_wf : forall bs i b',
  (forall b, In b bs -> block_wf b) ->
  In b' (map renum (combine (seq i (length bs)) bs)) -> block_wf b'.
Proof.
  induction bs as [|b bs IH]; intros i b' W H; cbn in H; [destruct H|].
  destruct H as [<-|H].
  - intros x q Hx Hq. cbn in *. apply (W b (or_introl eq_refl) x q); auto.
  - eapply IH; eauto. intros c Hc. apply W. right. exact Hc.
Qed.

Lemma number_flat bs : flat_map igates (number bs) = flat_map igates bs.
Proof. rewrite number_eq. apply renum_flat. Qed.
Lemma number_names bs : NoDup (map iname (number bs)).
Proof. rewrite number_eq, renum_names. apply seq_NoDup. Qed.
Lemma number_wf bs : (forall b, In b bs -> block_wf b) -> forall b, In b (number bs) -> block_wf b.
Proof. intros W b Hb. rewrite number_eq in Hb. eapply renum_wf; eauto. Qed.
Lemma number_length bs : length (number bs) = length bs.
Proof. rewrite number_eq, map_length, combine_length, seq_length. lia. Qed.

(* ------------------------------------------------------------------ fusion loop *)
Definition kept (rm : list nat) (l : list item) : list item :=
  filter (fun b => negb (mem (iname b) rm)) l.

Lemma kept_fresh rm l : (forall c, In c l -> ~ In (iname c) rm) -> kept rm l = l.
Proof.
  induction l as [|b l IH]; intro H; cbn; auto.
  assert (M : mem (iname b) rm = false).
  { destruct (mem (iname b) rm) eqn:E; auto. apply mem_In in E. exfalso. apply (H b); [left; reflexivity | exact E]. }
  rewrite M. cbn. f_equal. apply IH. intros c Hc. apply H. right. exact Hc.
Qed.

Lemma blocks_commute a b :
  block_wf a -> block_wf b -> disjb (iqs a) (iqs b) = true ->
  forall x y, In x (igates a) -> In y (igates b) -> Dgate x y /\ Dgate y x.
Proof.
  intros Wa Wb D x y Hx Hy. pose proof (disjb_spec _ _ D) as Dj. split; intros q Hq Hq'.
  - apply (Dj q); [eapply Wa | eapply Wb]; eauto.
  - apply (Dj q); [eapply Wa | eapply Wb]; eauto.
Qed.

Lemma fuse_scan_spec : forall rest first rm fb rm',
  block_wf first -> (forall b, In b rest -> block_wf b) ->
  NoDup (map iname rest) -> (forall b, In b rest -> ~ In (iname b) rm) ->
  fuse_scan first rm rest = (fb, rm') ->
  teq Dgate (igates first ++ flat_map igates rest) (igates fb ++ flat_map igates (kept rm' rest)) /\
  iqs fb = iqs first /\ block_wf fb /\
  (forall x, In x rm -> In x rm') /\
  (forall x, In x rm' -> In x rm \/ In x (map iname rest)).
Proof.
  induction rest as [|b rest IH]; intros first rm fb rm' Wf Wr ND Fr H; cbn [fuse_scan] in H.
  - inversion H; subst. cbn. repeat split; auto. apply teq_refl.
  - cbn [map] in ND. inversion ND as [|? ? Nb ND']; subst.
    assert (Wr' : forall c, In c rest -> block_wf c) by (intros c Hc; apply Wr; right; exact Hc).
    assert (Wb : block_wf b) by (apply Wr; left; reflexivity).
    destruct (list_eqb (iqs b) (iqs first)) eqn:Eq.
    + apply list_eqb_eq in Eq.
      set (first' := mkI (iname first) (iqs first) (igates first ++ igates b)) in *.
      assert (Wf' : block_wf first').
      { intros x q Hx Hq. cbn [igates iqs first'] in *. apply in_app_or in Hx. destruct Hx as [Hx|Hx].
        - eapply Wf; eauto.
        - rewrite <- Eq. eapply Wb; eauto. }
      assert (Fr' : forall c, In c rest -> ~ In (iname c) (rm ++ [iname b])).
      { intros c Hc Hin. apply in_app_or in Hin. destruct Hin as [Hin|[E|[]]].
        - apply (Fr c); [right; exact Hc | exact Hin].
        - apply Nb. rewrite E. apply in_map. exact Hc. }
      destruct (IH first' (rm ++ [iname b]) fb rm' Wf' Wr' ND' Fr' H) as (T & Q & W & M1 & M2).
      assert (Inb : In (iname b) rm') by (apply M1; apply in_or_app; right; left; reflexivity).
      split; [|split; [|split; [|split]]]; auto.
      * cbn [flat_map kept filter]. apply mem_In in Inb. rewrite Inb. cbn [negb].
        rewrite app_assoc. exact T.
      * intros x Hx. apply M1. apply in_or_app. left. exact Hx.
      * intros x Hx. destruct (M2 x Hx) as [Hin|Hin].
        -- apply in_app_or in Hin. destruct Hin as [Hin|[<-|[]]]; [left; exact Hin | right; left; reflexivity].
        -- right. right. exact Hin.
    + destruct (disjb (iqs first) (iqs b)) eqn:Dj.
      * assert (Fr' : forall c, In c rest -> ~ In (iname c) rm) by (intros c Hc; apply Fr; right; exact Hc).
        destruct (IH first rm fb rm' Wf Wr' ND' Fr' H) as (T & Q & W & M1 & M2).
        assert (Nin : ~ In (iname b) rm').
        { intro Hin. destruct (M2 _ Hin) as [Hr|Hr]; [apply (Fr b); [left; reflexivity | exact Hr] | exact (Nb Hr)]. }
        assert (Mb : mem (iname b) rm' = false).
        { destruct (mem (iname b) rm') eqn:E; auto. apply mem_In in E. contradiction. }
        split; [|split; [|split; [|split]]]; auto.
        -- cbn [flat_map kept filter]. rewrite Mb. cbn [negb flat_map]. fold (kept rm' rest).
           eapply teq_trans.
           { apply (pass_lists Dgate (igates first) (igates b) (flat_map igates rest)).
             intros u v Hu Hv. apply (blocks_commute first b Wf Wb Dj u v Hu Hv). }
           eapply teq_trans; [apply teq_app_l; exact T|].
           apply (pass_lists Dgate (igates b) (igates fb) (flat_map igates (kept rm' rest))).
           intros u v Hu Hv. assert (Dj' : disjb (iqs fb) (iqs b) = true) by (rewrite Q; exact Dj).
           apply (blocks_commute fb b W Wb Dj' v u Hv Hu).
        -- intros x Hx. destruct (M2 x Hx); [left | right; right]; assumption.
      * inversion H; subst. rewrite kept_fresh by exact Fr.
        repeat split; auto. apply teq_refl.
Qed.

Lemma NoDup_map_filter {A B} (f : A -> B) (p : A -> bool) l :
  NoDup (map f l) -> NoDup (map f (filter p l)).
Proof.
  induction l as [|x l IH]; intro H; cbn; auto. cbn in H. inversion H; subst.
  destruct (p x); cbn; auto. constructor; auto.
  intro Hin. apply H2. apply in_map_iff in Hin. destruct Hin as (y & E & Hy).
  apply filter_In in Hy. rewrite <- E. apply in_map. tauto.
Qed.

Lemma filter_len_le {A} (p : A -> bool) l : length (filter p l) <= length l.
Proof. induction l as [|x l IH]; cbn; auto. destruct (p x); cbn; lia. Qed.

Lemma fuse_loop_spec : forall fuel bs,
  length bs < fuel -> NoDup (map iname bs) -> (forall b, In b bs -> block_wf b) ->
  teq Dgate (flat_map igates bs) (flat_map igates (fuse_loop fuel bs)) /\
  (forall b, In b (fuse_loop fuel bs) -> block_wf b).
Proof.
  induction fuel as [|f IH]; intros bs L ND W; [lia|].
  cbn [fuse_loop]. destruct bs as [|first rest]; [split; [apply teq_refl | intros b []]|].
  destruct (fuse_scan first [iname first] rest) as [fb rm'] eqn:E.
  cbn [map] in ND. inversion ND as [|? ? Nf ND']; subst.
  assert (Wf : block_wf first) by (apply W; left; reflexivity).
  assert (Wr : forall c, In c rest -> block_wf c) by (intros c Hc; apply W; right; exact Hc).
  assert (Fr : forall c, In c rest -> ~ In (iname c) [iname first]).
  { intros c Hc [E'|[]]. apply Nf. rewrite E'. apply in_map. exact Hc. }
  destruct (fuse_scan_spec rest first [iname first] fb rm' Wf Wr ND' Fr E) as (T & Q & Wb & M1 & M2).
  assert (Mf : mem (iname first) rm' = true) by (apply mem_In; apply M1; left; reflexivity).
  cbn [filter]. rewrite Mf. cbn [negb]. fold (kept rm' rest).
  destruct (IH (kept rm' rest)) as [T' W'].
  { pose proof (filter_len_le (fun b => negb (mem (iname b) rm')) rest). unfold kept. cbn in L. lia. }
  { apply NoDup_map_filter. exact ND'. }
  { intros c Hc. apply filter_In in Hc. apply Wr. tauto. }
  split.
  - cbn [flat_map]. eapply teq_trans; [exact T|]. apply teq_app_l. exact T'.
  - intros c [<-|Hc]; auto.
Qed.

(* ------------------------------------------------------------------ _split_multi_qubit_measurements *)
Definition split1 (g : gate) : list gate :=
  if is_meas g && (1 <? nq g) then map (fun q => mkG KM (gtag g) [q]) (gqs g) else [g].

Theorem split_meas_char gs : split_meas gs = flat_map split1 gs.
Proof.
  unfold split_meas. destruct (existsb (fun g => is_meas g && (1 <? nq g)) gs) eqn:E; [reflexivity|].
  induction gs as [|g gs IH]; [reflexivity|]. cbn [existsb] in E. apply orb_false_elim in E. destruct E as [E1 E2].
  cbn [flat_map]. unfold split1 at 1. rewrite E1. cbn [app]. f_equal. apply IH. exact E2.
Qed.

(* ------------------------------------------------------------------ blocks_equiv *)
Definition gates_ok0 (l : list gate) : Prop :=
  NoDup l /\ forall g, In g l -> 1 <= nq g /\ nodupb (gqs g) = true.

Theorem blocks_equiv_all n gs bs :
  gates_ok0 (split_meas gs) ->
  block_decomposition n gs = Some bs ->
  teq Dgate (split_meas gs) (flat_map igates bs) /\
  (forall b, In b bs -> block_wf b) /\ NoDup (map iname bs).
Proof.
  intros [ND W0] H. unfold block_decomposition in H.
  destruct (n <? 2); [discriminate|].
  destruct (existsb (fun g => 2 <? nq g) (split_meas gs)) eqn:E; [discriminate|].
  inversion H; subst bs; clear H.
  assert (G : gates_ok (split_meas gs)).
  { split; auto. intros g Hg. destruct (W0 g Hg) as [L N]. split; auto. split; auto.
    destruct (Nat.le_gt_cases (nq g) 2) as [?|Hgt]; auto. exfalso.
    assert (existsb (fun g => 2 <? nq g) (split_meas gs) = true).
    { apply existsb_exists. exists g. split; auto. apply Nat.ltb_lt. exact Hgt. }
    congruence. }
  destruct (initial_blocks_spec n (split_meas gs) G) as [T W].
  set (ib := number (initial_blocks n (split_meas gs))) in *.
  destruct (fuse_loop_spec (S (length ib)) ib (Nat.lt_succ_diag_r _) (number_names _)
              (number_wf _ W)) as [T2 W2].
  split; [|split].
  - rewrite number_flat. eapply teq_trans; [exact T|].
    unfold ib in T2. rewrite number_flat in T2. exact T2.
  - apply number_wf. exact W2.
  - apply number_names.
Qed.

Lemma gates_nodupb_NoDup l : gates_nodupb l = true -> NoDup l.
Proof.
  induction l as [|g l IH]; cbn; intro H; [constructor|].
  apply andb_prop in H. destruct H as [H1 H2]. constructor; auto.
  intro Hin. apply negb_true_iff in H1.
  assert (existsb (gate_eqb g) l = true) by (apply existsb_exists; exists g; split; auto; apply gate_eqb_refl).
  congruence.
Qed.

Theorem gates_ok0b_sound l : gates_ok0b l = true -> gates_ok0 l.
Proof.
  unfold gates_ok0b. intro H. apply andb_prop in H. destruct H as [H1 H2]. split.
  - apply gates_nodupb_NoDup. exact H1.
  - rewrite forallb_forall in H2. intros g Hg. specialize (H2 g Hg). apply andb_prop in H2.
    destruct H2 as [A B]. apply Nat.leb_le in A. auto.
Qed.

(* ------------------------------------------------------------------ qubits of the blocks are in range *)
Lemma In_sorted_qs q l : In q (sorted_qs l) -> In q l.
Proof.
  destruct l as [|a [|b [|c r]]]; cbn [sorted_qs]; auto.
  intro H. apply In_sort2 in H. destruct H as [->| ->]; [left | right; left]; reflexivity.
Qed.

Lemma init_blocks2_iqs : forall fuel gs bs rest,
  init_blocks2 fuel gs = (bs, rest) ->
  (forall b q, In b bs -> In q (iqs b) -> exists g, In g gs /\ In q (gqs g)) /\
  (forall y, In y rest -> In y gs).
Proof.
  induction fuel as [|f IH]; intros gs bs rest H; cbn [init_blocks2] in H.
  - inversion H; subst. split; [intros b q []|auto].
  - destruct (extract (fun g => nq g =? 2) gs) as [[[pre g] post]|] eqn:E.
    + set (bg := find_previous pre (gqs g) ++ [g] ++ find_successive post (gqs g)) in *.
      destruct (init_blocks2 f (remove_all bg gs)) as [bs' rest'] eqn:R.
      inversion H; subst bs rest; clear H.
      destruct (IH _ _ _ R) as [A B].
      destruct (extract_spec _ _ _ _ _ _ E) as (Eg & _ & _).
      split.
      * intros b q [<-|Hb] Hq.
        -- cbn [iqs] in Hq. exists g. split; [rewrite Eg; apply in_or_app; right; left; reflexivity|].
           apply In_sorted_qs. exact Hq.
        -- destruct (A b q Hb Hq) as (g' & Hg' & Hq'). exists g'. split; auto. eapply remove_all_In; eauto.
      * intros y Hy. eapply remove_all_In. apply B. exact Hy.
    + inversion H; subst. split; [intros b q []|auto].
Qed.

Lemma q0_lt n g : 0 < n -> (forall q, In q (gqs g) -> q < n) -> q0 g < n.
Proof.
  unfold q0. destruct (gqs g) as [|a r]; cbn [hd]; intros Hn H; [exact Hn|]. apply H. left. reflexivity.
Qed.

Lemma leftover_iqs n : 0 < n -> forall fuel gs,
  (forall y q, In y gs -> In q (gqs y) -> q < n) ->
  forall b q, In b (leftover fuel n gs) -> In q (iqs b) -> q < n.
Proof.
  intros Hn. induction fuel as [|f IH]; intros gs W b q Hb Hq; cbn [leftover] in Hb; [destruct Hb|].
  destruct gs as [|g0 gs0] eqn:Egs; [destruct Hb|]. rewrite <- Egs in *.
  assert (L0 : q0 g0 < n) by (apply q0_lt; auto; intros p Hp; apply (W g0 p); [rewrite Egs; left; reflexivity | exact Hp]).
  set (gs1 := remove_all (gates_on gs (q0 g0)) gs) in *.
  assert (W1 : forall y p, In y gs1 -> In p (gqs y) -> p < n).
  { intros y p Hy. apply W. eapply remove_all_In; eauto. }
  destruct gs1 as [|g1 gs1'] eqn:E1.
  - destruct Hb as [<-|[]]. cbn [iqs] in Hq. apply In_sort2 in Hq. destruct Hq as [->| ->]; auto.
    apply Nat.mod_upper_bound. lia.
  - rewrite <- E1 in *.
    assert (L1 : q0 g1 < n) by (apply q0_lt; auto; intros p Hp; apply (W1 g1 p); [rewrite E1; left; reflexivity | exact Hp]).
    destruct Hb as [<-|Hb].
    + cbn [iqs] in Hq. apply In_sort2 in Hq. destruct Hq as [->| ->]; auto.
    + eapply (IH (remove_all (gates_on gs1 (q0 g1)) gs1)); eauto.
      intros y p Hy. apply W1. eapply remove_all_In; eauto.
Qed.

Lemma renum_iqs : forall bs i b',
  In b' (map renum (combine (seq i (length bs)) bs)) -> exists b, In b bs /\ iqs b' = iqs b.
Proof.
  induction bs as [|b bs IH]; intros i b' H; cbn in H; [destruct H|].
  destruct H as [<-|H].
  - exists b. split; [left|]; reflexivity.
  - destruct (IH _ _ H) as (c & Hc & E). exists c. split; [right|]; assumption.
Qed.

Lemma fuse_scan_iqs : forall rest first rm fb rm',
  fuse_scan first rm rest = (fb, rm') -> iqs fb = iqs first.
Proof.
  induction rest as [|b rest IH]; intros first rm fb rm' H; cbn [fuse_scan] in H.
  - inversion H; reflexivity.
  - destruct (list_eqb (iqs b) (iqs first)).
    + apply IH in H. exact H.
    + destruct (disjb (iqs first) (iqs b)); [eapply IH; eauto | inversion H; reflexivity].
Qed.

Lemma fuse_loop_iqs : forall fuel bs b,
  In b (fuse_loop fuel bs) -> exists b0, In b0 bs /\ iqs b = iqs b0.
Proof.
  induction fuel as [|f IH]; intros bs b H; cbn [fuse_loop] in H; [destruct H|].
  destruct bs as [|first rest]; [destruct H|].
  destruct (fuse_scan first [iname first] rest) as [fb rm'] eqn:E.
  destruct H as [<-|H].
  - exists first. split; [left; reflexivity | eapply fuse_scan_iqs; eauto].
  - destruct (IH _ _ H) as (b0 & Hb0 & Eq). apply filter_In in Hb0. exists b0. tauto.
Qed.

Theorem blocks_in_range n gs bs :
  block_decomposition n gs = Some bs ->
  (forall g q, In g (split_meas gs) -> In q (gqs g) -> q < n) ->
  forall b q, In b bs -> In q (iqs b) -> q < n.
Proof.
  intros H W b q Hb Hq. unfold block_decomposition in H.
  destruct (n <? 2) eqn:En; [discriminate|]. apply Nat.ltb_ge in En.
  destruct (existsb _ (split_meas gs)); [discriminate|].
  set (ib := number (initial_blocks n (split_meas gs))) in *.
  inversion H; subst bs; clear H.
  rewrite number_eq in Hb. destruct (renum_iqs _ _ _ Hb) as (b1 & Hb1 & E1). rewrite E1 in Hq.
  destruct (fuse_loop_iqs (S (length ib)) ib b1 Hb1) as (b2 & Hb2 & E2). rewrite E2 in Hq.
  unfold ib in Hb2. rewrite number_eq in Hb2. destruct (renum_iqs _ _ _ Hb2) as (b3 & Hb3 & E3). rewrite E3 in Hq.
  unfold initial_blocks in Hb3.
  destruct (init_blocks2 (S (length (split_meas gs))) (split_meas gs)) as [bs0 rest] eqn:E0.
  destruct (init_blocks2_iqs _ _ _ _ E0) as [A B].
  apply in_app_or in Hb3. destruct Hb3 as [Hb3|Hb3].
  - destruct (A b3 q Hb3 Hq) as (g & Hg & Hqg). eapply W; eauto.
  - eapply (leftover_iqs n); [lia | | exact Hb3 | exact Hq].
    intros y p Hy. apply W. apply B. exact Hy.
Qed.

Lemma subsetb_intro_g a b : (forall q, In q a -> In q b) -> subsetb a b = true.
Proof. intro H. unfold subsetb. apply forallb_forall. intros q Hq. apply mem_In. apply H. exact Hq. Qed.

(* the blocks satisfy the well-formedness hypothesis of the routing theorems *)
Theorem blocks_wf_items n gs bs :
  gates_ok0 (split_meas gs) ->
  (forall g q, In g (split_meas gs) -> In q (gqs g) -> q < n) ->
  block_decomposition n gs = Some bs ->
  wf_items n bs.
Proof.
  intros G W H b Hb.
  destruct (blocks_equiv_all n gs bs G H) as (T & WF & _).
  unfold wf_item. apply andb_true_intro. split.
  - apply forallb_forall. intros q Hq. apply Nat.ltb_lt. eapply blocks_in_range; eauto.
  - apply forallb_forall. intros x Hx. apply andb_true_intro. split.
    + apply subsetb_intro_g. intros q Hq. eapply WF; eauto.
    + assert (In x (split_meas gs)).
      { apply (teq_perm _ _ _ _ T). apply in_flat_map. exists b. auto. }
      destruct G as [_ G]. apply G. assumption.
Qed.
