(* C09/ProofsRouter.v : invariants of the routing transition system over EVERY op sequence. *)
From Coq Require Import List Arith Bool Lia.
From QV Require Import C09.Trace C09.ModelRouter.
Import ListNotations.

(* ------------------------------------------------------------------ lists *)
Lemma upd_length l i v : length (upd l i v) = length l.
Proof. revert i. induction l as [|x l IH]; intros [|i]; cbn; auto. Qed.

Lemma at_upd_eq l i v : i < length l -> at_ (upd l i v) i = v.
Proof.
  unfold at_. revert i. induction l as [|x l IH]; intros [|i] H; cbn in *; try lia; auto.
  apply IH. lia.
Qed.

Lemma at_upd_neq l i j v : i <> j -> at_ (upd l i v) j = at_ l j.
Proof.
  unfold at_. revert i j. induction l as [|x l IH]; intros [|i] [|j] H; cbn; auto; try lia.
Qed.

Lemma at_seq n i : i < n -> at_ (seq 0 n) i = i.
Proof. intro H. unfold at_. rewrite seq_nth; auto. Qed.

Lemma list_at_ext (l l' : list nat) :
  length l = length l' -> (forall i, i < length l -> at_ l i = at_ l' i) -> l = l'.
Proof. intros H1 H2. apply (nth_ext l l' 0 0); auto. Qed.

Lemma mem_In q l : mem q l = true <-> In q l.
Proof.
  unfold mem. rewrite existsb_exists. split.
  - intros (x & Hx & E). apply Nat.eqb_eq in E. subst. exact Hx.
  - intro H. exists q. split; auto. apply Nat.eqb_refl.
Qed.

Lemma subsetb_In a b : subsetb a b = true -> forall q, In q a -> In q b.
Proof.
  unfold subsetb. rewrite forallb_forall. intros H q Hq. apply mem_In. apply H. exact Hq.
Qed.

Lemma disjb_spec a b : disjb a b = true -> forall q, In q a -> ~ In q b.
Proof.
  unfold disjb. rewrite forallb_forall. intros H q Hq Hb.
  specialize (H q Hq). apply negb_true_iff in H. apply mem_In in Hb. congruence.
Qed.

Lemma nodupb_NoDup l : nodupb l = true -> NoDup l.
Proof.
  induction l as [|x l IH]; cbn; intro H.
  - constructor.
  - apply andb_prop in H. destruct H as [H1 H2]. constructor.
    + intro Hin. apply mem_In in Hin. rewrite Hin in H1. discriminate.
    + apply IH. exact H2.
Qed.

Lemma has_edge_sym G p q : has_edge G p q = has_edge G q p.
Proof.
  unfold has_edge. induction G as [|e G IH]; cbn; auto.
  rewrite IH. f_equal. apply orb_comm.
Qed.

(* ------------------------------------------------------------------ the two maps *)
Definition wf_maps (n : nat) (l p : list nat) : Prop :=
  length l = n /\ length p = n /\
  (forall i, i < n -> at_ l i < n /\ at_ p (at_ l i) = i) /\
  (forall q, q < n -> at_ p q < n /\ at_ l (at_ p q) = q).

Lemma wf_maps_init n : wf_maps n (seq 0 n) (seq 0 n).
Proof.
  unfold wf_maps. rewrite !seq_length. repeat split; intros; rewrite ?at_seq; auto; rewrite at_seq; auto.
Qed.

Lemma wf_maps_inj n l p i j : wf_maps n l p -> i < n -> j < n -> at_ l i = at_ l j -> i = j.
Proof.
  intros (_ & _ & H & _) Hi Hj E.
  destruct (H i Hi) as [_ E1]. destruct (H j Hj) as [_ E2]. rewrite E in E1. congruence.
Qed.

Lemma wf_maps_sym n l p : wf_maps n l p -> wf_maps n p l.
Proof. unfold wf_maps. tauto. Qed.

Ltac updsimp :=
  repeat first
    [ rewrite at_upd_eq by (rewrite ?upd_length; lia)
    | rewrite at_upd_neq by congruence ].

Lemma swap2_a (l : list nat) a b x y : a < length l -> a <> b -> at_ (upd (upd l a x) b y) a = x.
Proof. intros. rewrite at_upd_neq by congruence. apply at_upd_eq. assumption. Qed.
Lemma swap2_b (l : list nat) a b x y : b < length l -> at_ (upd (upd l a x) b y) b = y.
Proof. intros. apply at_upd_eq. rewrite upd_length. assumption. Qed.
Lemma swap2_o (l : list nat) a b x y i : i <> a -> i <> b -> at_ (upd (upd l a x) b y) i = at_ l i.
Proof. intros. rewrite !at_upd_neq by congruence. reflexivity. Qed.

Lemma wf_maps_swap n l p a b :
  wf_maps n l p -> a < n -> b < n -> a <> b ->
  wf_maps n (upd (upd l a (at_ l b)) b (at_ l a)) (upd (upd p (at_ l a) b) (at_ l b) a).
Proof.
  intros W Ha Hb Hab.
  assert (Winj := wf_maps_inj n l p).
  destruct W as (Ll & Lp & H1 & H2).
  assert (W : wf_maps n l p) by (unfold wf_maps; auto).
  destruct (H1 a Ha) as [PA EA]. destruct (H1 b Hb) as [PB EB].
  set (P := at_ l a) in *. set (Q := at_ l b) in *.
  assert (PQ : P <> Q) by (intro E; apply Hab; apply (Winj a b W Ha Hb E)).
  unfold wf_maps. rewrite !upd_length. split; [auto|]. split; [auto|]. split.
  - intros i Hi.
    destruct (Nat.eq_dec i a) as [->|Na].
    { rewrite swap2_a by lia. split; auto. rewrite swap2_b by lia. reflexivity. }
    destruct (Nat.eq_dec i b) as [->|Nb].
    { rewrite swap2_b by lia. split; auto. rewrite swap2_a by lia. reflexivity. }
    rewrite swap2_o by assumption. destruct (H1 i Hi) as [Ri Ei]. split; auto.
    rewrite swap2_o;
      [ exact Ei
      | intro E; apply Na; apply (Winj i a W Hi Ha E)
      | intro E; apply Nb; apply (Winj i b W Hi Hb E) ].
  - intros q Hq.
    destruct (Nat.eq_dec q P) as [->|NP].
    { rewrite swap2_a by lia. split; auto. rewrite swap2_b by lia. reflexivity. }
    destruct (Nat.eq_dec q Q) as [->|NQ].
    { rewrite swap2_b by lia. split; auto. rewrite swap2_a by lia. reflexivity. }
    rewrite swap2_o by assumption. destruct (H2 q Hq) as [Rq Eq]. split; auto.
    rewrite swap2_o;
      [ exact Eq
      | intro E; apply NP; unfold P; rewrite <- E; symmetry; exact Eq
      | intro E; apply NQ; unfold Q; rewrite <- E; symmetry; exact Eq ].
Qed.

(* exchanging two entries twice gives the list back *)
Lemma swap_entries_invol (m : list nat) p q :
  p < length m -> q < length m -> p <> q ->
  let m' := upd (upd m p (at_ m q)) q (at_ m p) in
  upd (upd m' p (at_ m' q)) q (at_ m' p) = m.
Proof.
  intros Hp Hq N m'. apply list_at_ext.
  - unfold m'. rewrite !upd_length. reflexivity.
  - intros i _.
    assert (Lm' : length m' = length m) by (unfold m'; rewrite !upd_length; reflexivity).
    destruct (Nat.eq_dec i p) as [->|Np].
    { rewrite swap2_a by lia. unfold m'. rewrite swap2_b by lia. reflexivity. }
    destruct (Nat.eq_dec i q) as [->|Nq].
    { rewrite swap2_b by lia. unfold m'. rewrite swap2_a by lia. reflexivity. }
    rewrite swap2_o by assumption. unfold m'. rewrite swap2_o by assumption. reflexivity.
Qed.

(* ------------------------------------------------------------------ relabelling *)
Lemma relabel_inverse n l p g :
  wf_maps n l p -> (forall q, In q (gqs g) -> q < n) -> relabel p (relabel l g) = g.
Proof.
  intros (_ & _ & H & _) Hq. destruct g as [k t qs]. unfold relabel. cbn in *. f_equal.
  rewrite map_map. rewrite <- (map_id qs) at 2. apply map_ext_in.
  intros q Hin. apply H. apply Hq. exact Hin.
Qed.

(* ------------------------------------------------------------------ generic run induction *)
Lemma run_inv n chk (P : state -> Prop) :
  (forall s o s', P s -> chk s o = true -> step n s o = Some s' -> P s') ->
  forall ops s s', P s -> run n chk s ops = Some s' -> P s'.
Proof.
  intros Hstep ops. induction ops as [|o ops IH]; intros s s' Hs Hr; cbn in Hr.
  - inversion Hr; subst. exact Hs.
  - destruct (chk s o) eqn:Ec; [|discriminate].
    destruct (step n s o) as [s1|] eqn:Es; [|discriminate].
    eapply IH; [|exact Hr]. eapply Hstep; eauto.
Qed.

(* ------------------------------------------------------------------ invariant 1: maps, swaps, un-routing *)
Record inv1 (n : nat) (s : state) : Prop := {
  i1_maps : wf_maps n (l2p s) (p2l s);
  i1_sw : forall p q, In (ES p q) (out s) -> p < n /\ q < n /\ p <> q;
  i1_unroute : unroute n (out s) = (flat_map igates (done s), p2l s)
}.

Lemma inv1_init n items : inv1 n (init n items).
Proof.
  constructor; cbn.
  - apply wf_maps_init.
  - intros p q [].
  - reflexivity.
Qed.

Lemma unroute_snoc n o e : unroute n (o ++ [e]) = unroute_step (unroute n o) e.
Proof. unfold unroute. rewrite fold_left_app. reflexivity. Qed.

Lemma inv1_step n s o s' : inv1 n s -> step n s o = Some s' -> inv1 n s'.
Proof.
  intros [W SW UR] H. destruct o as [nm | a b |]; cbn [step] in H.
  - (* exec *)
    destruct (extract _ (rem s)) as [[[pre it] post]|] eqn:E; [|discriminate].
    destruct (forallb _ (igates it) && forallb _ (iqs it)) eqn:C; [|discriminate].
    inversion H; subst; clear H. apply andb_prop in C. destruct C as [C1 C2].
    constructor; cbn [rem l2p p2l out done update_maps].
    + exact W.
    + intros p q Hin. apply in_app_or in Hin. destruct Hin as [Hin|[Hin|[]]]; [auto|discriminate].
    + rewrite unroute_snoc, UR. cbn [unroute_step fst snd]. rewrite flat_map_app. cbn [flat_map]. rewrite app_nil_r.
      f_equal. f_equal. rewrite map_map. rewrite <- (map_id (igates it)) at 2.
      apply map_ext_in. intros g Hg. eapply relabel_inverse; [exact W|].
      intros q Hq. rewrite forallb_forall in C1, C2.
      apply Nat.ltb_lt. apply C2. eapply subsetb_In; [apply C1; exact Hg | exact Hq].
  - (* swap *)
    destruct ((a <? n) && (b <? n) && negb (a =? b)) eqn:C; [|discriminate].
    inversion H; subst; clear H.
    apply andb_prop in C. destruct C as [C C3]. apply andb_prop in C. destruct C as [C1 C2].
    apply Nat.ltb_lt in C1, C2. apply negb_true_iff in C3. apply Nat.eqb_neq in C3.
    assert (W' := wf_maps_swap n _ _ a b W C1 C2 C3).
    destruct W as (Ll & Lp & H1 & H2).
    destruct (H1 a C1) as [PA EA]. destruct (H1 b C2) as [PB EB].
    constructor; cbn [rem l2p p2l out done update_maps].
    + exact W'.
    + intros p q Hin. apply in_app_or in Hin. destruct Hin as [Hin|[Hin|[]]]; [auto|].
      inversion Hin; subst. repeat split; auto.
      intro E. apply C3. rewrite <- EA, <- EB. rewrite E. reflexivity.
    + rewrite unroute_snoc, UR. cbn [unroute_step fst snd]. rewrite EA, EB. reflexivity.
  - (* undo *)
    destruct (rev (out s)) as [|[gs|p q] r] eqn:E; try discriminate.
    inversion H; subst; clear H.
    assert (Eo : out s = rev r ++ [ES p q]).
    { rewrite <- (rev_involutive (out s)), E. reflexivity. }
    destruct (SW p q) as (Hp & Hq & Npq). { rewrite Eo. apply in_or_app. right. left. reflexivity. }
    assert (W0 := W). destruct W0 as (Ll & Lp & H1 & H2).
    destruct (H2 p Hp) as [PA EA]. destruct (H2 q Hq) as [PB EB].
    set (a := at_ (p2l s) p) in *. set (b := at_ (p2l s) q) in *.
    assert (Nab : a <> b).
    { intro Eab. apply Npq. rewrite <- EA, <- EB, Eab. reflexivity. }
    assert (W' := wf_maps_swap n _ _ a b W PA PB Nab). rewrite EA, EB in W'.
    constructor; cbn [rem l2p p2l out done update_maps].
    + exact W'.
    + intros p0 q0 Hin. apply SW. rewrite Eo. apply in_or_app. left. exact Hin.
    + rewrite Eo, unroute_snoc in UR. destruct (unroute n (rev r)) as [G m] eqn:Eu. cbn [unroute_step fst snd] in UR.
      assert (HG : G = flat_map igates (done s)) by congruence.
      assert (Hm : upd (upd m p (at_ m q)) q (at_ m p) = p2l s) by congruence.
      subst G. f_equal.
      assert (Lm : length m = n).
      { apply (f_equal (@length nat)) in Hm. rewrite !upd_length in Hm. congruence. }
      pose proof (swap_entries_invol m p q) as I. cbv zeta in I. rewrite Hm in I.
      symmetry. apply I; try lia; auto.
Qed.

Theorem inv1_run n chk items ops s :
  run n chk (init n items) ops = Some s -> inv1 n s.
Proof.
  apply (run_inv n chk (inv1 n)).
  - intros s0 o s1 I _ St. eapply inv1_step; eauto.
  - apply inv1_init.
Qed.

(* ------------------------------------------------------------------ invariant 2: linearisation *)
Definition Dsupp (a b : item) : Prop := disjb (iqs a) (iqs b) = true.
Definition Dgate (x y : gate) : Prop := forall q, In q (gqs x) -> ~ In q (gqs y).

Record inv2 (items : list item) (s : state) : Prop := {
  i2_lin : teq Dsupp items (done s ++ rem s)
}.

Lemma inv2_step n items s o s' :
  inv2 items s -> guard_front s o = true -> step n s o = Some s' -> inv2 items s'.
Proof.
  intros [L] G H. destruct o as [nm | a b |]; cbn [step guard_front] in H, G.
  - unfold in_front in G.
    destruct (extract _ (rem s)) as [[[pre it] post]|] eqn:E; [|discriminate].
    destruct (forallb _ (igates it) && forallb _ (iqs it)); [|discriminate].
    inversion H; subst; clear H. constructor; cbn.
    destruct (extract_spec _ _ _ _ _ _ E) as (Er & _ & _).
    rewrite Er in L. eapply teq_trans; [exact L|].
    rewrite <- app_assoc. apply teq_app_l. cbn [app].
    apply front_pull. intros b Hb. rewrite forallb_forall in G. apply G. exact Hb.
  - destruct ((a <? n) && (b <? n) && negb (a =? b)); [|discriminate].
    inversion H; subst. constructor; exact L.
  - destruct (rev (out s)) as [|[gs|p q] r]; try discriminate.
    inversion H; subst. constructor; exact L.
Qed.

Theorem inv2_run n chk items ops s :
  (forall s o, chk s o = true -> guard_front s o = true) ->
  run n chk (init n items) ops = Some s -> inv2 items s.
Proof.
  intro Hc. apply (run_inv n chk (inv2 items)).
  - intros s0 o s1 I C St. eapply inv2_step; eauto.
  - constructor. cbn. apply teq_refl.
Qed.

(* from item level to gate level *)
Definition wf_items (n : nat) (items : list item) : Prop :=
  forall it, In it items -> wf_item n it = true.

Lemma wf_item_gates n it g q :
  wf_item n it = true -> In g (igates it) -> In q (gqs g) -> In q (iqs it) /\ q < n.
Proof.
  unfold wf_item. intro H. apply andb_prop in H. destruct H as [H1 H2].
  rewrite forallb_forall in H1, H2. intros Hg Hq.
  specialize (H2 g Hg). apply andb_prop in H2. destruct H2 as [H2 _].
  assert (In q (iqs it)) by (eapply subsetb_In; eauto).
  split; auto. apply Nat.ltb_lt. apply H1. assumption.
Qed.

Lemma lin_gates n items l :
  wf_items n items -> teq Dsupp items l ->
  teq Dgate (flat_map igates items) (flat_map igates l).
Proof.
  intros W T.
  apply (teq_flat (fun a b => In a items /\ In b items /\ Dsupp a b) Dgate igates).
  - intros a b (Ia & Ib & Dab) x y Hx Hy q Hq Hq'.
    destruct (wf_item_gates n a x q (W a Ia) Hx Hq) as [Q1 _].
    destruct (wf_item_gates n b y q (W b Ib) Hy Hq') as [Q2 _].
    exact (disjb_spec _ _ Dab q Q1 Q2).
  - apply (teq_mono_in Dsupp _ items); auto.
Qed.

(* ------------------------------------------------------------------ invariant 3: edges *)
Record inv3 (n : nat) (G : graph) (items : list item) (s : state) : Prop := {
  i3_rem : forall it, In it (rem s) -> In it items;
  i3_edges : forallb (eblk_on_edges G) (out s) = true
}.

Lemma forallb_app_iff {A} (f : A -> bool) l1 l2 :
  forallb f (l1 ++ l2) = forallb f l1 && forallb f l2.
Proof. induction l1; cbn; auto. rewrite IHl1. apply andb_assoc. Qed.

Lemma wf_item_entangling n it g :
  wf_item n it = true -> In g (igates it) -> entangling g = true ->
  exists x y, gqs g = [x; y] /\ x <> y /\ In x (iqs it) /\ In y (iqs it).
Proof.
  intros W Hg He. unfold entangling in He. destruct (gkind g); [|discriminate].
  apply Nat.eqb_eq in He.
  destruct (gqs g) as [|x [|y [|z r]]] eqn:Eq; cbn in He; try discriminate.
  exists x, y. split; auto.
  unfold wf_item in W. apply andb_prop in W. destruct W as [_ W2].
  rewrite forallb_forall in W2. specialize (W2 g Hg). rewrite Eq in W2.
  apply andb_prop in W2. destruct W2 as [S N].
  apply nodupb_NoDup in N. inversion N; subst.
  repeat split.
  - intro E. subst. apply H1. left. reflexivity.
  - eapply subsetb_In; [exact S| left; reflexivity].
  - eapply subsetb_In; [exact S| right; left; reflexivity].
Qed.

Lemma inv3_step n G items s o s' :
  wf_items n items ->
  inv3 n G items s -> guard_edge G s o = true -> step n s o = Some s' -> inv3 n G items s'.
Proof.
  intros WI [R ED] Gd H. destruct o as [nm | a b |]; cbn [step guard_edge] in H, Gd.
  - unfold edge_ok in Gd.
    destruct (extract _ (rem s)) as [[[pre it] post]|] eqn:E; [|discriminate].
    destruct (forallb _ (igates it) && forallb _ (iqs it)); [|discriminate].
    inversion H; subst; clear H.
    destruct (extract_spec _ _ _ _ _ _ E) as (Er & _ & _).
    assert (Iit : In it items) by (apply R; rewrite Er; apply in_or_app; right; left; reflexivity).
    constructor; cbn.
    + intros x Hx. apply R. rewrite Er. apply in_app_or in Hx. apply in_or_app.
      destruct Hx; [left|right;right]; assumption.
    + rewrite forallb_app_iff, ED. cbn. rewrite andb_true_r.
      apply forallb_forall. intros g' Hg'. apply in_map_iff in Hg'. destruct Hg' as (g & <- & Hg).
      unfold gate_on_edge. destruct (entangling (relabel (l2p s) g)) eqn:Eg; [|reflexivity]. cbn [negb orb].
      assert (Eg' : entangling g = true).
      { unfold entangling, relabel in *. cbn in Eg. rewrite map_length in Eg. exact Eg. }
      destruct (wf_item_entangling n it g (WI it Iit) Hg Eg') as (x & y & Eq & Nxy & Hx & Hy).
      assert (Ent : entangled it = true).
      { unfold entangled. apply existsb_exists. exists g. split; auto. }
      rewrite Ent in Gd. cbn in Gd.
      destruct (iqs it) as [|u [|v [|w r]]] eqn:Ei; try discriminate.
      unfold relabel. cbn. rewrite Eq. cbn.
      destruct Hx as [<-|[<-|[]]]; destruct Hy as [<-|[<-|[]]]; try congruence.
      rewrite has_edge_sym. exact Gd.
  - destruct ((a <? n) && (b <? n) && negb (a =? b)); [|discriminate].
    inversion H; subst; clear H. constructor; cbn.
    + exact R.
    + rewrite forallb_app_iff, ED. cbn. rewrite Gd. reflexivity.
  - destruct (rev (out s)) as [|[gs|p q] r] eqn:E; try discriminate.
    inversion H; subst; clear H. constructor; cbn.
    + exact R.
    + assert (Eo : out s = rev r ++ [ES p q]).
      { rewrite <- (rev_involutive (out s)), E. reflexivity. }
      rewrite Eo, forallb_app_iff in ED. apply andb_prop in ED. tauto.
Qed.

Theorem inv3_run n G chk items ops s :
  wf_items n items ->
  (forall s o, chk s o = true -> guard_edge G s o = true) ->
  run n chk (init n items) ops = Some s -> inv3 n G items s.
Proof.
  intros WI Hc. apply (run_inv n chk (inv3 n G items)).
  - intros s0 o s1 I C St. eapply inv3_step; eauto.
  - constructor; cbn; auto.
Qed.

Lemma eflat_on_edges G o :
  forallb (eblk_on_edges G) o = true -> forallb (gate_on_edge G) (eflat o) = true.
Proof.
  unfold eflat. induction o as [|e o IH]; cbn; intro H; auto.
  apply andb_prop in H. destruct H as [H1 H2]. rewrite forallb_app_iff, (IH H2), andb_true_r.
  destruct e as [gs|p q]; cbn in *; auto.
  unfold gate_on_edge. cbn. rewrite H1. reflexivity.
Qed.

(* ------------------------------------------------------------------ collected statements *)
Theorem route_maps_bijective n chk items ops s :
  run n chk (init n items) ops = Some s -> wf_maps n (l2p s) (p2l s).
Proof. intro H. apply (inv1_run _ _ _ _ _ H). Qed.

Theorem route_unroute n chk items ops s :
  run n chk (init n items) ops = Some s ->
  unroute n (out s) = (flat_map igates (done s), p2l s).
Proof. intro H. apply (inv1_run _ _ _ _ _ H). Qed.

Theorem route_edges n G items ops s :
  wf_items n items ->
  run n (full_guard G) (init n items) ops = Some s ->
  forallb (gate_on_edge G) (eflat (out s)) = true.
Proof.
  intros W H. apply eflat_on_edges.
  assert (I : inv3 n G items s).
  { eapply (inv3_run n G (full_guard G)); [exact W| |exact H].
    intros s0 o C. unfold full_guard in C. apply andb_prop in C. tauto. }
  apply I.
Qed.

Theorem route_linearisation n G items ops s :
  wf_items n items ->
  run n (full_guard G) (init n items) ops = Some s ->
  teq Dgate (flat_map igates items) (flat_map igates (done s ++ rem s)).
Proof.
  intros W H. eapply lin_gates; [exact W|].
  assert (I : inv2 items s).
  { eapply (inv2_run n (full_guard G)); [|exact H].
    intros s0 o C. unfold full_guard in C. apply andb_prop in C. tauto. }
  apply I.
Qed.

(* at termination: un-routing the output gives a word trace-equivalent to the input *)
Theorem route_unroute_equiv n G items ops s :
  wf_items n items ->
  run n (full_guard G) (init n items) ops = Some s -> rem s = [] ->
  teq Dgate (flat_map igates items) (fst (unroute n (out s))).
Proof.
  intros W H E. rewrite (route_unroute _ _ _ _ _ H). cbn [fst].
  pose proof (route_linearisation n G items ops s W H) as L. rewrite E, app_nil_r in L. exact L.
Qed.
