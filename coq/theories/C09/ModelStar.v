(* C09/ModelStar.v : executable model of StarConnectivityRouter.__call__ and
   _find_connected_qubit (deterministic).  No proofs here.
   [mid] = position of the middle node in circuit.wire_names. *)
From Coq Require Import List Arith Bool Lia.
From QV Require Import C09.Trace C09.ModelRouter C09.ModelBlocks.
Import ListNotations.

Fixpoint index_of (x : nat) (l : list nat) : nat :=
  match l with [] => 0 | y :: l' => if y =? x then 0 else S (index_of x l') end.

(* _find_connected_qubit(qubits=(a,b), queue, mapping): measurement gates are skipped;
   None = raises (non-measurement gate on > 2 qubits) *)
Fixpoint find_connected (a : nat) (poss : list nat) (queue : list gate) (m : list nat) : option nat :=
  match queue with
  | [] => Some a
  | g :: rest =>
      if is_meas g then find_connected a poss rest m
      else if 2 <? nq g then None
      else if nq g =? 2 then
        let poss' := filter (fun x => mem x (map (at_ m) (gqs g))) poss in
        match poss' with
        | [] => Some a
        | [x] => Some x
        | _ => find_connected a poss' rest m
        end
      else find_connected a poss rest m
  end.

Definition swap_entries (l : list nat) (i j : nat) : list nat :=
  upd (upd l i (at_ l j)) j (at_ l i).

(* the loop of StarConnectivityRouter.__call__; accumulates the new circuit's queue *)
Fixpoint star_loop (mid : nat) (l2p : list nat) (queue : list gate) (acc : list gate)
  : option (list gate * list nat) :=
  match queue with
  | [] => Some (acc, l2p)
  | g :: rest =>
      let routed := map (at_ l2p) (gqs g) in
      if is_meas g then star_loop mid l2p rest (acc ++ [relabel l2p g])
      else if 2 <? length routed then None
      else
        match routed with
        | [ra; rb] =>
            if negb (mem mid routed) then
              match find_connected ra (if ra =? rb then [ra] else [ra; rb]) rest l2p with
              | Some nm =>
                  let l2p' := swap_entries l2p (index_of mid l2p) (index_of nm l2p) in
                  star_loop mid l2p' rest (acc ++ [mkG KU 0 [nm; mid]; relabel l2p' g])
              | None => None
              end
            else star_loop mid l2p rest (acc ++ [relabel l2p g])
        | _ => star_loop mid l2p rest (acc ++ [relabel l2p g])
        end
  end.

Definition star_route (n mid : nat) (queue : list gate) : option (list gate * list nat) :=
  star_loop mid (seq 0 n) queue [].

(* the same run as a sequence of ops of the generic transition system: one item per gate *)
Definition gate_items (queue : list gate) : list item :=
  map (fun ig => mkI (fst ig) (gqs (snd ig)) [snd ig]) (combine (seq 0 (length queue)) queue).

Fixpoint star_ops (mid : nat) (l2p : list nat) (i : nat) (queue : list gate) : option (list op) :=
  match queue with
  | [] => Some []
  | g :: rest =>
      let routed := map (at_ l2p) (gqs g) in
      if is_meas g then option_map (cons (OExec i)) (star_ops mid l2p (S i) rest)
      else if 2 <? length routed then None
      else
        match routed with
        | [ra; rb] =>
            if negb (mem mid routed) then
              match find_connected ra (if ra =? rb then [ra] else [ra; rb]) rest l2p with
              | Some nm =>
                  let i1 := index_of mid l2p in let i2 := index_of nm l2p in
                  option_map (fun r => OSwap i2 i1 :: OExec i :: r)
                             (star_ops mid (swap_entries l2p i1 i2) (S i) rest)
              | None => None
              end
            else option_map (cons (OExec i)) (star_ops mid l2p (S i) rest)
        | _ => option_map (cons (OExec i)) (star_ops mid l2p (S i) rest)
        end
  end.
