(* C09/ProofsDag.v : dag_front_sound -- the front layer read off the DAG built by _create_dag
   (after ANY valid transitive reduction, networkx being an oracle) is exactly
   "remaining blocks none of whose earlier remaining blocks shares a qubit with them",
   i.e. the front guard of the routing transition system. *)
From Coq Require Import List Arith Bool Lia.
From QV Require Import C09.Trace C09.ModelRouter C09.ModelDag C09.ProofsRouter.
Import ListNotations.

Lemma NoDup_app_snoc {A} (l : list A) x : NoDup l -> ~ In x l -> NoDup (l ++ [x]).
Proof.
  induction l as [|y l IH]; intros ND N; cbn.
  - constructor; [intros []|constructor].
  - inversion ND; subst. constructor.
    + rewrite in_app_iff. intros [H|[H|[]]]; [contradiction | apply N; left; symmetry; exact H].
    + apply IH; auto. intro H. apply N. right. exact H.
Qed.

(* ------------------------------------------------------------------ the innermost loop *)
Lemma dag_qubits_spec : forall qs idx nxt ng sat s es,
  dag_qubits idx nxt qs ng sat = (s, es) ->
  (forall x, In x sat -> In x s) /\
  (forall x, In x s -> In x sat \/ (In x qs /\ In x ng)) /\
  (NoDup sat -> NoDup s) /\
  (forall e, In e es -> e = (idx, nxt) /\ exists q, In q qs /\ In q ng).
Proof.
  induction qs as [|q qs IH]; intros idx nxt ng sat s es H; cbn [dag_qubits] in H.
  - inversion H; subst. split; [|split; [|split]]; auto. intros e0 [].
  - destruct (mem q ng && negb (mem q sat)) eqn:C.
    + destruct (dag_qubits idx nxt qs ng (sat ++ [q])) as [s' es'] eqn:R. inversion H; subst; clear H.
      apply andb_prop in C. destruct C as [C1 C2]. apply mem_In in C1. apply negb_true_iff in C2.
      destruct (IH _ _ _ _ _ _ R) as (A1 & A2 & A3 & A4).
      split; [|split; [|split]].
      * intros x Hx. apply A1. apply in_or_app. left. exact Hx.
      * intros x Hx. destruct (A2 x Hx) as [Hs|[Hq Hn]].
        -- apply in_app_or in Hs. destruct Hs as [Hs|[<-|[]]]; [left; exact Hs | right; split; [left; reflexivity | exact C1]].
        -- right. split; [right|]; assumption.
      * intro ND. apply A3. apply NoDup_app_snoc; auto. intro Hin. apply mem_In in Hin. congruence.
      * intros e0 [<-|He].
        -- split; auto. exists q. split; [left; reflexivity | exact C1].
        -- destruct (A4 e0 He) as (E & q' & Hq' & Hn'). split; auto. exists q'. split; [right|]; assumption.
    + destruct (IH _ _ _ _ _ _ H) as (A1 & A2 & A3 & A4).
      split; [|split; [|split]]; auto.
      * intros x Hx. destruct (A2 x Hx) as [Hs|[Hq Hn]]; auto. right. split; [right|]; assumption.
      * intros e0 He. destruct (A4 e0 He) as (E & q' & Hq' & Hn'). split; auto. exists q'. split; [right|]; assumption.
Qed.

Lemma dag_qubits_hit : forall qs idx nxt ng sat s es q,
  dag_qubits idx nxt qs ng sat = (s, es) ->
  In q qs -> In q ng -> ~ In q sat -> In (idx, nxt) es.
Proof.
  induction qs as [|q0 qs IH]; intros idx nxt ng sat s es q H Hq Hn Hs; [destruct Hq|].
  cbn [dag_qubits] in H.
  destruct (mem q0 ng && negb (mem q0 sat)) eqn:C.
  - destruct (dag_qubits idx nxt qs ng (sat ++ [q0])) as [s' es'] eqn:R. inversion H; subst. left. reflexivity.
  - destruct Hq as [->|Hq].
    + exfalso. apply mem_In in Hn. rewrite Hn in C. cbn in C. apply negb_false_iff in C. apply mem_In in C. contradiction.
    + eapply IH; eauto.
Qed.

(* ------------------------------------------------------------------ the scan over later blocks *)
Lemma dag_scan_sound : forall later idx nxt qs sat a b,
  In (a, b) (dag_scan idx nxt qs sat later) ->
  a = idx /\ exists d, b = nxt + d /\ d < length later /\ exists q, In q qs /\ In q (nth d later []).
Proof.
  induction later as [|ng later IH]; intros idx nxt qs sat a b H; cbn [dag_scan] in H; [destruct H|].
  destruct (dag_qubits idx nxt qs ng sat) as [s es] eqn:R.
  destruct (dag_qubits_spec _ _ _ _ _ _ _ R) as (_ & _ & _ & A4).
  assert (Hes : In (a, b) es -> a = idx /\ exists d, b = nxt + d /\ d < length (ng :: later) /\
                                  exists q, In q qs /\ In q (nth d (ng :: later) [])).
  { intro He. destruct (A4 _ He) as (E & q & Hq & Hn). inversion E; subst. split; auto.
    exists 0. cbn. repeat split; try lia. exists q. auto. }
  destruct (2 <=? length s); [apply Hes; exact H|].
  apply in_app_or in H. destruct H as [H|H]; [apply Hes; exact H|].
  destruct (IH _ _ _ _ _ _ H) as (E & d & Eb & Ld & q & Hq & Hn). split; auto.
  exists (S d). cbn. repeat split; try lia. exists q. auto.
Qed.

Lemma dag_scan_hit q qs idx : In q qs -> NoDup qs -> length qs <= 2 ->
  forall later nxt sat d,
  ~ In q sat -> NoDup sat -> incl sat qs ->
  d < length later -> In q (nth d later []) -> (forall m, m < d -> ~ In q (nth m later [])) ->
  In (idx, nxt + d) (dag_scan idx nxt qs sat later).
Proof.
  intros Hq NDq Lq. induction later as [|ng later IH]; intros nxt sat d Ns NDs Inc Ld Hd Hm; cbn in Ld; [lia|].
  cbn [dag_scan]. destruct (dag_qubits idx nxt qs ng sat) as [s es] eqn:R.
  destruct (dag_qubits_spec _ _ _ _ _ _ _ R) as (A1 & A2 & A3 & A4).
  destruct d as [|d].
  - cbn in Hd. pose proof (dag_qubits_hit _ _ _ _ _ _ _ q R Hq Hd Ns) as He.
    rewrite Nat.add_0_r. destruct (2 <=? length s); [exact He | apply in_or_app; left; exact He].
  - assert (Nng : ~ In q ng) by (apply (Hm 0); lia).
    assert (Nqs : ~ In q s).
    { intro Hin. destruct (A2 q Hin) as [H|[_ H]]; contradiction. }
    assert (NDs' : NoDup s) by (apply A3; exact NDs).
    assert (Inc' : incl s qs).
    { intros x Hx. destruct (A2 x Hx) as [H|[H _]]; auto. }
    assert (Ls : length s <= 1).
    { assert (NoDup (q :: s)) by (constructor; auto).
      assert (incl (q :: s) qs) by (intros x [<-|Hx]; auto).
      pose proof (NoDup_incl_length H H0). cbn in H1. lia. }
    destruct (2 <=? length s) eqn:C; [apply Nat.leb_le in C; lia|].
    apply in_or_app. right.
    replace (nxt + S d) with (S nxt + d) by lia.
    apply IH; auto; [lia|].
    intros m Lm. apply (Hm (S m)). lia.
Qed.

(* ------------------------------------------------------------------ all blocks *)
Lemma dag_from_sound : forall bl idx a b,
  In (a, b) (dag_from idx bl) ->
  exists i j, a = idx + i /\ b = idx + j /\ i < j /\ j < length bl /\
              exists q, In q (nth i bl []) /\ In q (nth j bl []).
Proof.
  induction bl as [|qs later IH]; intros idx a b H; cbn [dag_from] in H; [destruct H|].
  apply in_app_or in H. destruct H as [H|H].
  - destruct (dag_scan_sound _ _ _ _ _ _ _ H) as (E & d & Eb & Ld & q & Hq & Hn).
    exists 0, (S d). cbn. repeat split; try lia. exists q. auto.
  - destruct (IH _ _ _ H) as (i & j & Ea & Eb & Lij & Lj & q & Hi & Hj).
    exists (S i), (S j). cbn. repeat split; try lia. exists q. auto.
Qed.

Lemma dag_from_hit q : forall bl idx i j,
  i < j -> j < length bl ->
  NoDup (nth i bl []) -> length (nth i bl []) <= 2 ->
  In q (nth i bl []) -> In q (nth j bl []) -> (forall m, i < m < j -> ~ In q (nth m bl [])) ->
  In (idx + i, idx + j) (dag_from idx bl).
Proof.
  induction bl as [|qs later IH]; intros idx i j Lij Lj ND L2 Hi Hj Hm; cbn in Lj; [lia|].
  cbn [dag_from]. apply in_or_app. destruct i as [|i].
  - left. destruct j as [|j]; [lia|]. cbn in *.
    rewrite Nat.add_0_r. replace (idx + S j) with (S idx + j) by lia.
    apply (dag_scan_hit q qs idx Hi ND L2); auto; try lia.
    + constructor.
    + intros x [].
    + intros m Lm. apply (Hm (S m)). lia.
  - right. destruct j as [|j]; [lia|]. cbn in *.
    replace (idx + S i) with (S idx + i) by lia. replace (idx + S j) with (S idx + j) by lia.
    apply IH; auto; try lia. intros m Lm. apply (Hm (S m)). lia.
Qed.

(* ------------------------------------------------------------------ paths and closure *)
Inductive path (E : list (nat * nat)) : nat -> nat -> Prop :=
| path_refl i : path E i i
| path_step i k j : In (i, k) E -> path E k j -> path E i j.

Lemma path_snoc E i k j : path E i k -> In (k, j) E -> path E i j.
Proof.
  intros P. revert j. induction P as [i|i k k' Hik P IH]; intros j Hj.
  - eapply path_step; [exact Hj | apply path_refl].
  - eapply path_step; [exact Hik | apply IH; exact Hj].
Qed.

Lemma path_last E i j : path E i j -> i <> j -> exists k, path E i k /\ In (k, j) E.
Proof.
  intro P. induction P as [i|i k j Hik P IH]; intro N; [congruence|].
  destruct (Nat.eq_dec k j) as [->|Nk].
  - exists i. split; [apply path_refl | exact Hik].
  - destruct (IH Nk) as (k' & P' & Hk'). exists k'. split; auto. eapply path_step; eauto.
Qed.

Definition pred_closed (E : list (nat * nat)) (X : list nat) : Prop :=
  forall i j, In (i, j) E -> In j X -> In i X.

Lemma path_closed E X i j : pred_closed E X -> path E i j -> In j X -> In i X.
Proof. intros C P. induction P; auto. intro Hj. eapply C; eauto. Qed.

Lemma add_new_In acc new x : In x (add_new acc new) -> In x acc \/ In x new.
Proof.
  unfold add_new. revert acc. induction new as [|y new IH]; intros acc H; cbn in H; auto.
  apply IH in H. destruct H as [H|H]; [|right; right; exact H].
  destruct (mem y acc); auto. apply in_app_or in H. destruct H as [H|[<-|[]]]; auto. right. left. reflexivity.
Qed.

Lemma reach_set_sound E i : forall f l, (forall x, In x l -> path E i x) ->
  forall x, In x (reach_set E f l) -> path E i x.
Proof.
  induction f as [|f IH]; intros l H x Hx; cbn [reach_set] in Hx; auto.
  apply (IH (add_new l (succs E l))); auto.
  intros y Hy. apply add_new_In in Hy. destruct Hy as [Hy|Hy]; auto.
  unfold succs in Hy. apply in_flat_map in Hy. destruct Hy as ([a b] & He & Hb). cbn [fst snd] in Hb.
  destruct (mem a l) eqn:M; [|destruct Hb]. destruct Hb as [<-|[]].
  apply mem_In in M. apply (path_snoc E i a b); auto.
Qed.

Lemma reach_sound E : forall f i j, reach E f i j = true -> path E i j.
Proof.
  intros f i j H. unfold reach in H. apply mem_In in H.
  apply (reach_set_sound E i f [i]); auto. intros x [<-|[]]. apply path_refl.
Qed.

Lemma has_dag_edge_In E i j : has_dag_edge E i j = true <-> In (i, j) E.
Proof.
  unfold has_dag_edge. rewrite existsb_exists. split.
  - intros ([a b] & He & C). cbn in C. apply andb_prop in C. destruct C as [C1 C2].
    apply Nat.eqb_eq in C1, C2. subst. exact He.
  - intro H. exists (i, j). cbn. rewrite !Nat.eqb_refl. auto.
Qed.

(* ------------------------------------------------------------------ blocks as index -> qubits *)
Section Front.
  Variable bl : list (list nat).
  Let Bk (i : nat) : list nat := nth i bl [].
  Let E := create_dag_edges bl.
  Hypothesis blocks_ok : forall i, i < length bl -> NoDup (Bk i) /\ length (Bk i) <= 2.

  Lemma E_sound i j : In (i, j) E -> i < j /\ j < length bl /\ exists q, In q (Bk i) /\ In q (Bk j).
  Proof.
    intro H. destruct (dag_from_sound _ _ _ _ H) as (i' & j' & -> & -> & L1 & L2 & q & H1 & H2).
    cbn. repeat split; auto. exists q. auto.
  Qed.

  Lemma E_first i j q : i < j -> j < length bl -> In q (Bk i) -> In q (Bk j) ->
    (forall m, i < m < j -> ~ In q (Bk m)) -> In (i, j) E.
  Proof.
    intros L1 L2 Hi Hj Hm. destruct (blocks_ok i) as [ND L]; [lia|].
    exact (dag_from_hit q bl 0 i j L1 L2 ND L Hi Hj Hm).
  Qed.

  Lemma last_before q : forall j i, i < j -> In q (Bk i) ->
    exists k, i <= k < j /\ In q (Bk k) /\ forall m, k < m < j -> ~ In q (Bk m).
  Proof.
    induction j as [|j IH]; intros i L Hi; [lia|].
    destruct (in_dec Nat.eq_dec q (Bk j)) as [Hj|Nj].
    - exists j. split; [lia|]. split; [exact Hj|]. intros m Lm. lia.
    - assert (Lij : i < j).
      { destruct (Nat.eq_dec i j) as [->|]; [contradiction | lia]. }
      destruct (IH i Lij Hi) as (k & Lk & Hk & Hm). exists k. split; [lia|]. split; [exact Hk|].
      intros m Lm. destruct (Nat.eq_dec m j) as [->|]; [exact Nj | apply Hm; lia].
  Qed.

  (* two blocks sharing a qubit are connected by a path along that qubit *)
  Lemma chain q : forall k i, i <= k -> k < length bl -> In q (Bk i) -> In q (Bk k) -> path E i k.
  Proof.
    induction k as [k IH] using lt_wf_ind. intros i L Lk Hi Hk.
    destruct (Nat.eq_dec i k) as [->|N]; [apply path_refl|].
    assert (Lik : i < k) by lia.
    destruct (last_before q k i Lik Hi) as (k' & Lk' & Hk' & Hm).
    apply (path_snoc E i k' k).
    - apply IH; auto; lia.
    - apply (E_first k' k q); auto; lia.
  Qed.

  (* front layer of the unreduced DAG *)
  Theorem front_unreduced X j :
    pred_closed E X -> j < length bl -> ~ In j X ->
    ((forall i, In (i, j) E -> In i X) <->
     (forall i, i < j -> ~ In i X -> forall q, In q (Bk i) -> ~ In q (Bk j))).
  Proof.
    intros C Lj Nj. split.
    - intros H i Li Ni q Hi Hj.
      destruct (last_before q j i Li Hi) as (k & Lk & Hk & Hm).
      assert (Ek : In (k, j) E) by (apply (E_first k j q); auto; lia).
      assert (Xk : In k X) by (apply H; exact Ek).
      apply Ni. apply (path_closed E X i k C); auto.
      apply (chain q); auto; lia.
    - intros H i Hi. destruct (E_sound i j Hi) as (Li & _ & q & H1 & H2).
      destruct (in_dec Nat.eq_dec i X) as [|Ni]; auto. exfalso. exact (H i Li Ni q H1 H2).
  Qed.

  (* any valid transitive reduction E' (oracle output, checked by tr_okb) has the same front layer *)
  Variable E' : list (nat * nat).
  Hypothesis TR : tr_okb E E' = true.

  Lemma tr_sub i j : In (i, j) E' -> In (i, j) E.
  Proof.
    unfold tr_okb in TR. apply andb_prop in TR. destruct TR as [T1 _].
    rewrite forallb_forall in T1. intro H. apply has_dag_edge_In. apply (T1 (i, j) H).
  Qed.
  Lemma tr_path i j : In (i, j) E -> path E' i j.
  Proof.
    unfold tr_okb in TR. apply andb_prop in TR. destruct TR as [_ T2].
    rewrite forallb_forall in T2. intro H. apply (reach_sound E' (length E')). apply (T2 (i, j) H).
  Qed.

  Lemma closed_lift X : pred_closed E' X -> pred_closed E X.
  Proof. intros C i j H Hj. apply (path_closed E' X i j C); auto. apply tr_path. exact H. Qed.

  Theorem front_reduced X j :
    pred_closed E' X -> j < length bl -> ~ In j X ->
    ((forall i, In (i, j) E' -> In i X) <->
     (forall i, i < j -> ~ In i X -> forall q, In q (Bk i) -> ~ In q (Bk j))).
  Proof.
    intros C Lj Nj. rewrite <- (front_unreduced X j (closed_lift X C) Lj Nj). split.
    - intros H i Hi. destruct (E_sound i j Hi) as (Li & _).
      destruct (path_last E' i j (tr_path i j Hi)) as (k & P & Hk); [lia|].
      apply (path_closed E' X i k C P). apply H. exact Hk.
    - intros H i Hi. apply H. apply tr_sub. exact Hi.
  Qed.

  (* executable form: the two filters coincide *)
  Theorem dag_front_eq_spec X :
    pred_closed E' X -> dag_front E' (length bl) X = spec_front bl X.
  Proof.
    intro C. unfold dag_front, spec_front. apply filter_ext_in. intros j Hj.
    apply in_seq in Hj. destruct (mem j X) eqn:Mj; [reflexivity|]. cbn [negb andb].
    assert (Nj : ~ In j X) by (intro H; apply mem_In in H; congruence).
    destruct (front_reduced X j C) as [F1 F2]; [lia | exact Nj|].
    apply Bool.eq_true_iff_eq. rewrite !forallb_forall. split.
    - intros H i Hi. apply in_seq in Hi.
      destruct (mem i X) eqn:Mi; [reflexivity|]. cbn [orb].
      assert (Ni : ~ In i X) by (intro Hx; apply mem_In in Hx; congruence).
      assert (HE : forall i0, In (i0, j) E' -> In i0 X).
      { intros i0 H0. specialize (H (i0, j) H0). cbn in H. rewrite Nat.eqb_refl in H. cbn in H.
        apply mem_In. exact H. }
      assert (Lij : i < j) by lia.
      pose proof (F1 HE i Lij Ni) as D.
      unfold disjb. apply forallb_forall. intros q Hq. apply negb_true_iff.
      destruct (mem q (nth j bl [])) eqn:Mq; auto. exfalso. apply mem_In in Mq. exact (D q Hq Mq).
    - intros H [a b] He. cbn [fst snd].
      destruct (b =? j) eqn:Eb; [|reflexivity]. apply Nat.eqb_eq in Eb. subst b. cbn [negb orb].
      apply mem_In. apply F2; auto. intros i Li Ni q Hi Hq.
      assert (Hs : In i (seq 0 j)) by (apply in_seq; lia).
      specialize (H i Hs). assert (Mi : mem i X = false).
      { destruct (mem i X) eqn:M; auto. apply mem_In in M. contradiction. }
      rewrite Mi in H. cbn in H. exact (disjb_spec _ _ H q Hi Hq).
  Qed.

  (* executing a block of the front layer keeps the executed set predecessor-closed *)
  Lemma closed_step X j :
    pred_closed E' X -> In j (dag_front E' (length bl) X) -> pred_closed E' (X ++ [j]).
  Proof.
    intros C Hj i k He Hk. apply in_or_app. apply in_app_or in Hk. destruct Hk as [Hk|[<-|[]]].
    - left. eapply C; eauto.
    - left. unfold dag_front in Hj. apply filter_In in Hj. destruct Hj as [_ Hj].
      apply andb_prop in Hj. destruct Hj as [_ Hj]. rewrite forallb_forall in Hj.
      specialize (Hj (i, j) He). cbn in Hj. rewrite Nat.eqb_refl in Hj. cbn in Hj. apply mem_In. exact Hj.
  Qed.
End Front.

Lemma pred_closed_nil E : pred_closed E [].
Proof. intros i j _ []. Qed.
