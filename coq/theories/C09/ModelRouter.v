(* C09/ModelRouter.v : executable model of qibo's routing machinery
   (transpiler/router.py: CircuitMap.update / undo / execute_block / _update_mappings_swap /
   final_layout, the front-layer semantics of _create_dag, Sabre._swap_candidates,
   Sabre._shortest_path_routing, ShortestPaths._add_swaps).  No proofs here.

   Qubits are positions 0..n-1 (the routers relabel the connectivity graph by the position of
   each node in circuit.wire_names, so "physical qubit p" = node wire_names[p]).
   A gate is opaque: kind (unitary-like / measurement), a tag identifying it, qubit list.
   An item is a block of gates with a support (Block.qubits, sorted pair) and a name; for the
   StarConnectivityRouter an item is a single gate.

   The router is a TRANSITION SYSTEM: ops [OExec name | OSwap l1 l2 | OUndo].  [step] follows the
   real CircuitMap methods (which have no guards); the guards the routers are supposed to
   establish are the separate boolean [guard].  All heuristics (costs, seeds, look-ahead, decay,
   thresholds) only choose WHICH guarded op comes next, so theorems over all guarded op
   sequences cover all of them. *)
From Coq Require Import List Arith Bool Lia.
From QV Require Import C09.Trace.
Import ListNotations.

Inductive kind := KU | KM.
Definition kind_eqb (a b : kind) : bool :=
  match a, b with KU, KU => true | KM, KM => true | _, _ => false end.

Record gate := mkG { gkind : kind; gtag : nat; gqs : list nat }.
Record item := mkI { iname : nat; iqs : list nat; igates : list gate }.

Fixpoint list_eqb (a b : list nat) : bool :=
  match a, b with
  | [], [] => true
  | x :: a', y :: b' => Nat.eqb x y && list_eqb a' b'
  | _, _ => false
  end.
Definition gate_eqb (a b : gate) : bool :=
  kind_eqb (gkind a) (gkind b) && Nat.eqb (gtag a) (gtag b) && list_eqb (gqs a) (gqs b).

Definition mem (q : nat) (l : list nat) : bool := existsb (Nat.eqb q) l.
Definition disjb (a b : list nat) : bool := forallb (fun q => negb (mem q b)) a.
Definition subsetb (a b : list nat) : bool := forallb (fun q => mem q b) a.

(* a two-qubit operation that needs connectivity (measurements never do) *)
Definition entangling (g : gate) : bool :=
  match gkind g with KU => Nat.eqb (length (gqs g)) 2 | KM => false end.
(* Block.entangled = _count_2q_gates > 0 *)
Definition entangled (it : item) : bool := existsb entangling (igates it).

(* ---- connectivity: undirected edge list on positions *)
Definition graph := list (nat * nat).
Definition has_edge (G : graph) (p q : nat) : bool :=
  existsb (fun e => (Nat.eqb (fst e) p && Nat.eqb (snd e) q) || (Nat.eqb (fst e) q && Nat.eqb (snd e) p)) G.
Definition neighbors (G : graph) (p : nat) : list nat :=
  flat_map (fun e => (if Nat.eqb (fst e) p then [snd e] else []) ++
                     (if Nat.eqb (snd e) p then [fst e] else [])) G.

(* ---- emitted routed blocks *)
Inductive eblk := EB (gs : list gate) | ES (p q : nat).

Definition eflat (o : list eblk) : list gate :=
  flat_map (fun e => match e with EB gs => gs | ES p q => [mkG KU 0 [p; q]] end) o.

(* ---- list update *)
Fixpoint upd (l : list nat) (i v : nat) : list nat :=
  match l, i with
  | [], _ => []
  | _ :: l', O => v :: l'
  | x :: l', S i' => x :: upd l' i' v
  end.
Definition at_ (l : list nat) (i : nat) : nat := nth i l 0.

Definition relabel (m : list nat) (g : gate) : gate := mkG (gkind g) (gtag g) (map (at_ m) (gqs g)).

Record state := mkS {
  rem : list item;        (* CircuitMap.circuit_blocks: blocks not yet executed, program order *)
  l2p : list nat;         (* CircuitMap._l2p *)
  p2l : list nat;         (* CircuitMap._p2l *)
  out : list eblk;        (* CircuitMap._routed_blocks *)
  done : list item        (* ghost: executed blocks in execution order *)
}.

Definition init (n : nat) (items : list item) : state :=
  mkS items (seq 0 n) (seq 0 n) [] [].

Inductive op := OExec (nm : nat) | OSwap (l1 l2 : nat) | OUndo.

(* CircuitMap._update_mappings_swap(logical_swap = (a,b), physical_swap = (p,q)) *)
Definition update_maps (s : state) (a b p q : nat) (o' : list eblk) : state :=
  mkS (rem s) (upd (upd (l2p s) a q) b p) (upd (upd (p2l s) p b) q a) o' (done s).

Definition step (n : nat) (s : state) (o : op) : option state :=
  match o with
  | OExec nm =>
      (* execute_block: routed_blocks.add_block(block.on_qubits(get_physical_qubits(block)));
         circuit_blocks.remove_block(block).  on_qubits only knows the block's own qubits. *)
      match extract (fun it => Nat.eqb (iname it) nm) (rem s) with
      | Some (pre, it, post) =>
          if forallb (fun g => subsetb (gqs g) (iqs it)) (igates it) && forallb (fun q => q <? n) (iqs it)
          then Some (mkS (pre ++ post) (l2p s) (p2l s)
                         (out s ++ [EB (map (relabel (l2p s)) (igates it))]) (done s ++ [it]))
          else None
      | None => None
      end
  | OSwap a b =>
      (* update(logical_swap): physical = (l2p[a], l2p[b]); emits SWAP on the physical pair *)
      if (a <? n) && (b <? n) && negb (Nat.eqb a b) then
        let p := at_ (l2p s) a in let q := at_ (l2p s) b in
        Some (update_maps s a b p q (out s ++ [ES p q]))
      else None
  | OUndo =>
      (* undo(): the last routed block must be the swap to take back *)
      match rev (out s) with
      | ES p q :: r =>
          let a := at_ (p2l s) p in let b := at_ (p2l s) q in
          Some (update_maps s a b p q (rev r))
      | _ => None
      end
  end.

(* ---- guards the routers are responsible for *)
(* front layer of _create_dag: no earlier remaining block shares a qubit *)
Definition in_front (s : state) (nm : nat) : bool :=
  match extract (fun it => Nat.eqb (iname it) nm) (rem s) with
  | Some (pre, it, _) => forallb (fun b => disjb (iqs b) (iqs it)) pre
  | None => false
  end.
(* _check_execution: physical pair of the block is an edge, or the block is not entangled *)
Definition edge_ok (G : graph) (s : state) (nm : nat) : bool :=
  match extract (fun it => Nat.eqb (iname it) nm) (rem s) with
  | Some (_, it, _) =>
      negb (entangled it) ||
      match iqs it with
      | [a; b] => has_edge G (at_ (l2p s) a) (at_ (l2p s) b)
      | _ => false
      end
  | None => false
  end.

Definition guard_front (s : state) (o : op) : bool :=
  match o with OExec nm => in_front s nm | _ => true end.
Definition guard_edge (G : graph) (s : state) (o : op) : bool :=
  match o with
  | OExec nm => edge_ok G s nm
  | OSwap a b => has_edge G (at_ (l2p s) a) (at_ (l2p s) b)
  | OUndo => true
  end.

(* run a list of ops; [chk] is the guard demanded at every step *)
Fixpoint run (n : nat) (chk : state -> op -> bool) (s : state) (ops : list op) : option state :=
  match ops with
  | [] => Some s
  | o :: ops' =>
      if chk s o then
        match step n s o with
        | Some s' => run n chk s' ops'
        | None => None
        end
      else None
  end.

Definition no_guard (s : state) (o : op) : bool := true.
Definition full_guard (G : graph) (s : state) (o : op) : bool := guard_front s o && guard_edge G s o.

(* trace of all intermediate (l2p, p2l) for the correspondence run *)
Fixpoint run_trace (n : nat) (s : state) (ops : list op) : list (list nat * list nat) * option state :=
  match ops with
  | [] => ([], Some s)
  | o :: ops' =>
      match step n s o with
      | Some s' => let '(t, r) := run_trace n s' ops' in ((l2p s', p2l s') :: t, r)
      | None => ([], None)
      end
  end.

(* un-routing: read the routed blocks back through the evolving physical->logical map and
   delete the inserted SWAPs *)
Definition unroute_step (acc : list gate * list nat) (e : eblk) : list gate * list nat :=
  match e with
  | EB gs => (fst acc ++ map (relabel (snd acc)) gs, snd acc)
  | ES p q => (fst acc, upd (upd (snd acc) p (at_ (snd acc) q)) q (at_ (snd acc) p))
  end.
Definition unroute (n : nat) (o : list eblk) : list gate * list nat :=
  fold_left unroute_step o ([], seq 0 n).

(* ---- generators of swap transitions *)
(* Sabre._swap_candidates: logical pairs (sorted) sharing a qubit with a front-layer block *)
Definition sorted_pair (a b : nat) : nat * nat := if a <=? b then (a, b) else (b, a).
Definition front_items (s : state) : list item :=
  filter (fun it => in_front s (iname it)) (rem s).
Definition swap_candidates (G : graph) (s : state) : list (nat * nat) :=
  flat_map (fun it =>
    flat_map (fun ql =>
      let q := at_ (l2p s) ql in
      map (fun c => sorted_pair (at_ (p2l s) q) (at_ (p2l s) c)) (neighbors G q))
      (iqs it)) (front_items s).

(* apply logical swaps one after the other (each is CircuitMap.update); [chk] is the guard
   demanded of every swap (no_guard = what the code does, guard_edge G = what it should meet) *)
Fixpoint apply_swaps (n : nat) (chk : state -> op -> bool) (s : state) (f : list (state -> nat * nat)) : option state :=
  match f with
  | [] => Some s
  | g :: f' =>
      let '(a, b) := g s in
      if chk s (OSwap a b) then
        match step n s (OSwap a b) with
        | Some s' => apply_swaps n chk s' f'
        | None => None
        end
      else None
  end.

(* ShortestPaths._add_swaps(candidate = (path, meeting_point)), current source:
     for previous, f in zip(forward[:-1], forward[1:]):  update((p2l[f], p2l[previous]))
   and the same for backward: CONSECUTIVE path nodes are exchanged *)
Fixpoint consecutive (l : list nat) : list (nat * nat) :=
  match l with
  | a :: ((b :: _) as l') => (a, b) :: consecutive l'
  | _ => []
  end.
Definition add_swaps_ops (path : list nat) (mp : nat) : list (state -> nat * nat) :=
  let forward := firstn (mp + 1) path in
  let backward := rev (skipn (mp + 1) path) in
  map (fun pf s => (at_ (p2l s) (snd pf), at_ (p2l s) (fst pf))) (consecutive forward) ++
  map (fun pf s => (at_ (p2l s) (snd pf), at_ (p2l s) (fst pf))) (consecutive backward).
(* HISTORICAL (before the repair of qibo): for f in forward[1:]: update((p2l[f], p2l[forward[0]])) *)
Definition add_swaps_prefix_formula_ops (path : list nat) (mp : nat) : list (state -> nat * nat) :=
  let forward := firstn (mp + 1) path in
  let backward := rev (skipn (mp + 1) path) in
  map (fun f s => (at_ (p2l s) f, at_ (p2l s) (hd 0 forward))) (tl forward) ++
  map (fun b s => (at_ (p2l s) b, at_ (p2l s) (hd 0 backward))) (tl backward).

(* Sabre._shortest_path_routing: q1 = p2l[path[0]]; for q2 in path[1:-1]: update((q1, p2l[q2])) *)
Definition sabre_sp_ops (path : list nat) (q1 : nat) : list (state -> nat * nat) :=
  map (fun q2 s => (q1, at_ (p2l s) q2)) (removelast (tl path)).

(* the physical pairs of the swaps emitted between two states *)
Definition emitted_swaps (o : list eblk) : list (nat * nat) :=
  flat_map (fun e => match e with ES p q => [(p, q)] | EB _ => [] end) o.

(* a path of the graph (checked, networkx is an oracle) *)
Fixpoint is_path (G : graph) (l : list nat) : bool :=
  match l with
  | a :: ((b :: _) as l') => has_edge G a b && is_path G l'
  | _ => true
  end.

(* CircuitMap.final_layout: {wire_names[i]: l2p[i]} ; here the list l2p itself *)
Definition final_layout (s : state) : list nat := l2p s.

(* output-side predicate: every two-qubit gate of the routed circuit is on an edge *)
Definition gate_on_edge (G : graph) (g : gate) : bool :=
  negb (entangling g) || match gqs g with [p; q] => has_edge G p q | _ => false end.
Definition eblk_on_edges (G : graph) (e : eblk) : bool :=
  match e with EB gs => forallb (gate_on_edge G) gs | ES p q => has_edge G p q end.

(* well-formed items (what block_decomposition produces / single gates of the star router) *)
Fixpoint nodupb (l : list nat) : bool :=
  match l with [] => true | x :: l' => negb (mem x l') && nodupb l' end.
Definition wf_item (n : nat) (it : item) : bool :=
  forallb (fun q => q <? n) (iqs it) &&
  forallb (fun g => subsetb (gqs g) (iqs it) && nodupb (gqs g)) (igates it).
Definition names_unique (items : list item) : bool := nodupb (map iname items).
