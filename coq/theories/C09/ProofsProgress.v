(* C09/ProofsProgress.v : progress (the models cannot loop).
   - executing a block strictly decreases the number of remaining blocks;
   - ShortestPaths._find_new_mapping (current _add_swaps) makes the chosen front block executable:
     after the swaps its two qubits sit on consecutive nodes of the path, so the next
     _check_execution executes it;
   - Sabre._shortest_path_routing (the reset path taken when swap_threshold is exceeded) makes the
     chosen front block executable in the same sense: this is Sabre's progress guarantee;
   - StarConnectivityRouter is a structural recursion over the queue: at most one SWAP per gate. *)
From Coq Require Import List Arith Bool Lia.
From QV Require Import C09.Trace C09.ModelRouter C09.ModelBlocks C09.ModelStar C09.ProofsRouter C09.ProofsGuards
                       C09.ProofsBlocksEquiv.
Import ListNotations.

(* ------------------------------------------------------------------ executing decreases the measure *)
Lemma extract_length {A} (f : A -> bool) l pre y post :
  extract f l = Some (pre, y, post) -> length l = S (length pre + length post).
Proof.
  intro E. destruct (extract_spec _ _ _ _ _ _ E) as (-> & _). rewrite app_length. cbn. lia.
Qed.

Theorem exec_decreases n s nm s' :
  step n s (OExec nm) = Some s' -> length (rem s') < length (rem s).
Proof.
  cbn [step]. destruct (extract _ (rem s)) as [[[pre it] post]|] eqn:E; [|discriminate].
  destruct (forallb _ (igates it) && forallb _ (iqs it)); [|discriminate].
  intro H. inversion H; subst. cbn [rem]. rewrite (extract_length _ _ _ _ _ E), app_length. lia.
Qed.

Theorem swap_keeps_remaining n s a b s' :
  step n s (OSwap a b) = Some s' -> rem s' = rem s.
Proof.
  cbn [step]. destruct ((a <? n) && (b <? n) && negb (a =? b)); [|discriminate].
  intro H. inversion H; subst. reflexivity.
Qed.

(* ------------------------------------------------------------------ one logical qubit walking along a path *)
Definition pair_ops (prs : list (nat * nat)) : list (state -> nat * nat) :=
  map (fun pf s => (at_ (p2l s) (snd pf), at_ (p2l s) (fst pf))) prs.

Lemma last_default {A} (l : list A) d d' : l <> [] -> last l d = last l d'.
Proof.
  induction l as [|x l IH]; intro N; [congruence|]. destruct l as [|y l]; [reflexivity|].
  cbn [last] in *. apply IH. discriminate.
Qed.

Lemma last_cons {A} (x : A) l d : last (x :: l) d = last l x.
Proof.
  destruct l as [|y l]; [reflexivity|].
  change (last (x :: y :: l) d) with (last (y :: l) d). apply last_default. discriminate.
Qed.

Lemma walk n G : graph_ok n G -> forall nodes c s q,
  wf_maps n (l2p s) (p2l s) ->
  (forall pf, In pf (consecutive (c :: nodes)) -> has_edge G (fst pf) (snd pf) = true) ->
  q < n -> c < n -> at_ (l2p s) q = c ->
  exists s', apply_swaps n (guard_edge G) s (pair_ops (consecutive (c :: nodes))) = Some s' /\
             wf_maps n (l2p s') (p2l s') /\
             at_ (l2p s') q = last nodes c /\
             (forall r, r < n -> ~ In (at_ (l2p s) r) (c :: nodes) -> at_ (l2p s') r = at_ (l2p s) r) /\
             rem s' = rem s.
Proof.
  intros GO. induction nodes as [|x nodes IH]; intros c s q W HE Lq Lc Eq.
  - exists s. split; [reflexivity|]. split; [exact W|]. split; [exact Eq|]. split; [intros; reflexivity | reflexivity].
  - change (consecutive (c :: x :: nodes)) with ((c, x) :: consecutive (x :: nodes)) in *.
    cbn [pair_ops map apply_swaps fst snd].
    assert (Ecx : has_edge G c x = true) by (apply (HE (c, x)); left; reflexivity).
    destruct (has_edge_ok n G _ _ GO Ecx) as (_ & Lx & Ncx).
    assert (W0 := W). destruct W0 as (Ll & Lp & H1 & H2).
    destruct (H2 x Lx) as [Ax Bx]. destruct (H1 q Lq) as [_ Bq].
    assert (Pc : at_ (p2l s) c = q) by (rewrite <- Eq; exact Bq).
    rewrite Pc.
    assert (HE' : has_edge G (at_ (l2p s) (at_ (p2l s) x)) (at_ (l2p s) q) = true).
    { rewrite Bx, Eq, has_edge_sym. exact Ecx. }
    destruct (swap_step_ok n G s _ _ GO W Ax Lq HE') as (s1 & St & Gd & W1 & L1).
    rewrite Gd, St.
    assert (Naq : at_ (p2l s) x <> q).
    { intro E. apply Ncx. rewrite <- Eq, <- E. exact Bx. }
    assert (Q1 : at_ (l2p s1) q = x).
    { rewrite L1. rewrite swap2_b by lia. exact Bx. }
    assert (R1 : rem s1 = rem s) by (eapply swap_keeps_remaining; eauto).
    destruct (IH x s1 q W1) as (s' & A & W' & Q' & U' & R'); auto.
    { intros pf Hpf. apply HE. right. exact Hpf. }
    exists s'. split; [exact A|]. split; [exact W'|]. split.
    + rewrite Q'. symmetry. apply last_cons.
    + split; [|congruence].
      intros r Lr Nr.
      assert (Nrq : r <> q) by (intro E; apply Nr; left; rewrite E; symmetry; exact Eq).
      assert (Nra : r <> at_ (p2l s) x) by (intro E; apply Nr; right; left; rewrite E; symmetry; exact Bx).
      assert (E1 : at_ (l2p s1) r = at_ (l2p s) r) by (rewrite L1; apply swap2_o; auto).
      rewrite U'; auto. rewrite E1. intro Hin. apply Nr. right. exact Hin.
Qed.

Lemma apply_swaps_app' n chk f1 : forall s f2,
  apply_swaps n chk s (f1 ++ f2) =
  match apply_swaps n chk s f1 with Some s' => apply_swaps n chk s' f2 | None => None end.
Proof. exact (apply_swaps_app n chk f1). Qed.

(* ------------------------------------------------------------------ ShortestPaths: after _add_swaps the block is executable *)
Theorem shortest_paths_progress n G fw bw s la lb :
  graph_ok n G -> wf_maps n (l2p s) (p2l s) ->
  fw <> [] -> bw <> [] -> NoDup (fw ++ bw) ->
  (forall pf, In pf (consecutive (fw ++ bw)) -> has_edge G (fst pf) (snd pf) = true) ->
  la < n -> lb < n ->
  at_ (l2p s) la = hd 0 fw -> at_ (l2p s) lb = last bw 0 ->
  exists s', apply_swaps n (guard_edge G) s (pair_ops (consecutive fw) ++ pair_ops (consecutive (rev bw))) = Some s' /\
             at_ (l2p s') la = last fw 0 /\ at_ (l2p s') lb = hd 0 bw /\
             has_edge G (at_ (l2p s') la) (at_ (l2p s') lb) = true /\
             rem s' = rem s.
Proof.
  intros GO W Nf Nb ND HE Lla Llb Ea Eb.
  destruct fw as [|f0 fw']; [congruence|]. cbn [hd] in Ea.
  destruct (nodup_app_inv _ _ ND) as (NDf & NDb & Dis).
  (* pairs of the sub-paths are pairs of the path *)
  assert (HF : forall pf, In pf (consecutive (f0 :: fw')) -> has_edge G (fst pf) (snd pf) = true).
  { intros [a b] H. apply in_consecutive_split in H. destruct H as (l1 & l2 & E).
    apply HE. apply in_consecutive_split. exists l1, (l2 ++ bw). rewrite E, <- app_assoc. reflexivity. }
  assert (HB : forall pf, In pf (consecutive (rev bw)) -> has_edge G (fst pf) (snd pf) = true).
  { intros [a b] H. cbn. apply in_consecutive_split in H. destruct H as (l1 & l2 & E).
    rewrite has_edge_sym. apply (HE (b, a)). apply in_consecutive_split.
    exists ((f0 :: fw') ++ rev l2), (rev l1).
    rewrite <- (rev_involutive bw), E, rev_app_distr. cbn [rev]. rewrite <- !app_assoc. reflexivity. }
  (* the meeting pair *)
  assert (Hmeet : has_edge G (last (f0 :: fw') 0) (hd 0 bw) = true).
  { destruct bw as [|b0 bw']; [congruence|]. cbn [hd].
    apply (HE (last (f0 :: fw') 0, b0)). apply in_consecutive_split.
    exists (removelast (f0 :: fw')), bw'.
    rewrite (app_removelast_last 0 (l := f0 :: fw')) at 1 by discriminate.
    rewrite <- app_assoc. reflexivity. }
  assert (Lf0 : f0 < n).
  { destruct fw' as [|f1 fw''].
    - destruct (has_edge_ok n G _ _ GO Hmeet) as (A & _). exact A.
    - assert (E : has_edge G f0 f1 = true) by (apply (HF (f0, f1)); left; reflexivity).
      destruct (has_edge_ok n G _ _ GO E) as (A & _). exact A. }
  destruct (walk n G GO fw' f0 s la W HF Lla Lf0 Ea) as (s1 & A1 & W1 & Q1 & U1 & R1).
  (* lb has not moved: its position is in bw, disjoint from fw *)
  assert (Inb : In (last bw 0) bw).
  { destruct bw as [|b0 bw']; [congruence|]. rewrite (app_removelast_last 0 (l := b0 :: bw')) at 2 by discriminate.
    apply in_or_app. right. left. reflexivity. }
  assert (Eb1 : at_ (l2p s1) lb = last bw 0).
  { rewrite U1; auto. rewrite Eb. intro Hin. exact (Dis _ Hin Inb). }
  (* backward walk: c = hd (rev bw) = last bw *)
  assert (Erev : rev bw = last bw 0 :: tl (rev bw)).
  { assert (E : rev bw = last bw 0 :: rev (removelast bw)).
    { rewrite (app_removelast_last 0 (l := bw)) at 1 by exact Nb.
      rewrite rev_app_distr. reflexivity. }
    rewrite E. reflexivity. }
  assert (Llast : last bw 0 < n).
  { destruct W1 as (_ & _ & H1' & _). destruct (H1' lb Llb) as [A _]. rewrite Eb1 in A. exact A. }
  rewrite Erev in HB.
  destruct (walk n G GO (tl (rev bw)) (last bw 0) s1 lb W1 HB Llb Llast Eb1) as (s2 & A2 & W2 & Q2 & U2 & R2).
  exists s2. rewrite apply_swaps_app', A1. rewrite Erev. split; [exact A2|].
  assert (Qa : at_ (l2p s2) la = last (f0 :: fw') 0).
  { rewrite U2; auto.
    - rewrite Q1. symmetry. apply last_cons.
    - rewrite <- Erev. rewrite Q1. intro Hin. apply in_rev in Hin.
      apply (Dis (last fw' f0)); auto.
      rewrite <- (last_cons f0 fw' 0).
      rewrite (app_removelast_last 0 (l := f0 :: fw')) at 2 by discriminate.
      apply in_or_app. right. left. reflexivity. }
  assert (Qb : at_ (l2p s2) lb = hd 0 bw).
  { rewrite Q2. destruct bw as [|b0 bw']; [congruence|]. cbn [hd].
    rewrite <- (last_cons (last (b0 :: bw') 0) (tl (rev (b0 :: bw'))) 0).
    rewrite <- Erev. cbn [rev]. apply last_last. }
  split; [exact Qa|]. split; [exact Qb|]. split; [rewrite Qa, Qb; exact Hmeet | congruence].
Qed.

Lemma last_skipn : forall (l : list nat) k, k < length l -> last (skipn k l) 0 = last l 0.
Proof.
  induction l as [|x l IH]; intros k L; cbn in L; [lia|]. destruct k as [|k]; [reflexivity|].
  cbn [skipn]. rewrite IH by lia. destruct l as [|y l]; [cbn in L; lia | reflexivity].
Qed.

(* in terms of ShortestPaths._add_swaps(path, meeting_point): the block whose qubits sit at the two
   ends of a simple path of the graph is executable afterwards, and nothing was executed meanwhile *)
Theorem shortest_paths_find_new_mapping_progress n G path mp s la lb :
  graph_ok n G -> wf_maps n (l2p s) (p2l s) ->
  is_path G path = true -> NoDup path -> mp + 1 < length path ->
  la < n -> lb < n -> at_ (l2p s) la = hd 0 path -> at_ (l2p s) lb = last path 0 ->
  exists s', apply_swaps n (guard_edge G) s (add_swaps_ops path mp) = Some s' /\
             rem s' = rem s /\
             has_edge G (at_ (l2p s') la) (at_ (l2p s') lb) = true /\
             forall nm pre it post,
               extract (fun it0 => iname it0 =? nm) (rem s') = Some (pre, it, post) ->
               iqs it = [la; lb] -> edge_ok G s' nm = true.
Proof.
  intros GO W P ND L Lla Llb Ea Eb.
  set (fw := firstn (mp + 1) path). set (bw := skipn (mp + 1) path).
  assert (Efb : fw ++ bw = path) by apply firstn_skipn.
  assert (Nf : fw <> []).
  { unfold fw. destruct path; cbn in L; [lia|]. rewrite Nat.add_1_r. discriminate. }
  assert (Nb : bw <> []).
  { unfold bw. intro E. apply (f_equal (@length nat)) in E. rewrite skipn_length in E. cbn in E. lia. }
  assert (Hf : hd 0 fw = hd 0 path) by (unfold fw; destruct path; [cbn in L; lia | rewrite Nat.add_1_r; reflexivity]).
  assert (Hl : last bw 0 = last path 0) by (apply last_skipn; lia).
  destruct (shortest_paths_progress n G fw bw s la lb GO W Nf Nb) as (s' & A & Qa & Qb & HE & R); auto.
  - rewrite Efb. exact ND.
  - rewrite Efb. intros [a b] H. apply (is_path_pairs G path P). exact H.
  - rewrite Hf. exact Ea.
  - rewrite Hl. exact Eb.
  - exists s'. split; [exact A|]. split; [exact R|]. split; [exact HE|].
    intros nm pre it post Ex Eq. unfold edge_ok. rewrite Ex, Eq, HE. apply orb_true_r.
Qed.

(* ------------------------------------------------------------------ Sabre._shortest_path_routing *)
Lemma walk_sabre n G : graph_ok n G -> forall mid c s q1,
  wf_maps n (l2p s) (p2l s) ->
  (forall pf, In pf (consecutive (c :: mid)) -> has_edge G (fst pf) (snd pf) = true) ->
  q1 < n -> c < n -> at_ (l2p s) q1 = c ->
  exists s', apply_swaps n (guard_edge G) s (map (fun q2 s => (q1, at_ (p2l s) q2)) mid) = Some s' /\
             wf_maps n (l2p s') (p2l s') /\
             at_ (l2p s') q1 = last mid c /\
             (forall r, r < n -> ~ In (at_ (l2p s) r) (c :: mid) -> at_ (l2p s') r = at_ (l2p s) r) /\
             rem s' = rem s.
Proof.
  intros GO. induction mid as [|x mid IH]; intros c s q1 W HE Lq Lc Eq.
  - exists s. split; [reflexivity|]. split; [exact W|]. split; [exact Eq|]. split; [intros; reflexivity | reflexivity].
  - change (consecutive (c :: x :: mid)) with ((c, x) :: consecutive (x :: mid)) in *.
    cbn [map apply_swaps].
    assert (Ecx : has_edge G c x = true) by (apply (HE (c, x)); left; reflexivity).
    destruct (has_edge_ok n G _ _ GO Ecx) as (_ & Lx & Ncx).
    assert (W0 := W). destruct W0 as (Ll & Lp & H1 & H2).
    destruct (H2 x Lx) as [Ax Bx].
    assert (HE' : has_edge G (at_ (l2p s) q1) (at_ (l2p s) (at_ (p2l s) x)) = true) by (rewrite Eq, Bx; exact Ecx).
    destruct (swap_step_ok n G s _ _ GO W Lq Ax HE') as (s1 & St & Gd & W1 & L1).
    rewrite Gd, St.
    assert (Nqa : q1 <> at_ (p2l s) x).
    { intro E. apply Ncx. rewrite <- Eq, E. exact Bx. }
    assert (Q1 : at_ (l2p s1) q1 = x) by (rewrite L1, swap2_a by (auto; lia); exact Bx).
    assert (R1 : rem s1 = rem s) by (eapply swap_keeps_remaining; eauto).
    destruct (IH x s1 q1 W1) as (s' & A & W' & Q' & U' & R'); auto.
    { intros pf Hpf. apply HE. right. exact Hpf. }
    exists s'. split; [exact A|]. split; [exact W'|]. split; [rewrite Q'; symmetry; apply last_cons|].
    split; [|congruence]. intros r Lr Nr.
    assert (Nrq : r <> q1) by (intro E; apply Nr; left; rewrite E; symmetry; exact Eq).
    assert (Nra : r <> at_ (p2l s) x) by (intro E; apply Nr; right; left; rewrite E; symmetry; exact Bx).
    assert (E1 : at_ (l2p s1) r = at_ (l2p s) r) by (rewrite L1; apply swap2_o; auto).
    rewrite U'; auto. rewrite E1. intro Hin. apply Nr. right. exact Hin.
Qed.

(* Sabre's reset path: after _shortest_path_routing along a simple path c .. z between the two
   qubits of a front block, the block is executable *)
Theorem sabre_shortest_path_routing_progress n G c mid z s q1 q2 :
  graph_ok n G -> wf_maps n (l2p s) (p2l s) ->
  is_path G (c :: mid ++ [z]) = true -> NoDup (c :: mid ++ [z]) ->
  q1 < n -> q2 < n -> at_ (l2p s) q1 = c -> at_ (l2p s) q2 = z ->
  exists s', apply_swaps n (guard_edge G) s (sabre_sp_ops (c :: mid ++ [z]) q1) = Some s' /\
             rem s' = rem s /\
             has_edge G (at_ (l2p s') q1) (at_ (l2p s') q2) = true.
Proof.
  intros GO W P ND L1 L2 E1 E2.
  unfold sabre_sp_ops. cbn [tl]. rewrite removelast_last.
  assert (HP := is_path_pairs G _ P).
  assert (HE : forall pf, In pf (consecutive (c :: mid)) -> has_edge G (fst pf) (snd pf) = true).
  { intros [a b] H. apply HP. apply in_consecutive_split in H. destruct H as (l1 & l2 & E).
    apply in_consecutive_split. exists l1, (l2 ++ [z]).
    change (c :: mid ++ [z]) with ((c :: mid) ++ [z]). rewrite E, <- app_assoc. reflexivity. }
  assert (Hlast : has_edge G (last mid c) z = true).
  { apply (HP (last mid c) z). apply in_consecutive_split. exists (removelast (c :: mid)), [].
    change (c :: mid ++ [z]) with ((c :: mid) ++ [z]).
    rewrite (app_removelast_last 0 (l := c :: mid)) at 1 by discriminate.
    rewrite <- app_assoc. cbn [app]. rewrite last_cons. reflexivity. }
  assert (Lc : c < n).
  { destruct mid as [|x mid'].
    - cbn in Hlast. destruct (has_edge_ok n G _ _ GO Hlast) as (A & _). exact A.
    - assert (E : has_edge G c x = true) by (apply (HE (c, x)); left; reflexivity).
      destruct (has_edge_ok n G _ _ GO E) as (A & _). exact A. }
  destruct (walk_sabre n G GO mid c s q1 W HE L1 Lc E1) as (s' & A & W' & Q' & U' & R').
  exists s'. split; [exact A|]. split; [exact R'|].
  rewrite Q', U'; auto.
  - rewrite E2. exact Hlast.
  - rewrite E2. intro Hin. change (c :: mid ++ [z]) with ((c :: mid) ++ [z]) in ND.
    destruct (nodup_app_inv _ _ ND) as (_ & _ & D). apply (D z Hin). left. reflexivity.
Qed.

(* ------------------------------------------------------------------ StarConnectivityRouter: structural recursion *)
Theorem star_loop_bound mid : forall queue l acc o l',
  star_loop mid l queue acc = Some (o, l') -> length o <= length acc + 2 * length queue.
Proof.
  induction queue as [|g rest IH]; intros l acc o l' H; cbn [star_loop] in H.
  - inversion H; subst. lia.
  - cbn [length].
    destruct (is_meas g).
    { apply IH in H. rewrite app_length in H. cbn in H. lia. }
    destruct (2 <? length (map (at_ l) (gqs g))); [discriminate|].
    destruct (map (at_ l) (gqs g)) as [|ra [|rb [|rc r]]];
      try (apply IH in H; rewrite app_length in H; cbn in H; lia).
    destruct (negb (mem mid [ra; rb])).
    + destruct (find_connected ra _ rest l) as [nm|]; [|discriminate].
      apply IH in H. rewrite app_length in H. cbn in H. lia.
    + apply IH in H. rewrite app_length in H. cbn in H. lia.
Qed.
