(* C09/Trace.v : minimal partially-commutative-monoid library used by C09/C11 (self-contained;
   a general Base/Trace.v may exist later, this one does not depend on it).

   [teq D l1 l2] : l2 is obtained from l1 by repeatedly exchanging ADJACENT letters a b with
   [D a b] (an independence relation, e.g. "the gates act on disjoint qubits").
   Main lemma [front_pull]: a letter all of whose predecessors are independent of it can be
   pulled to the front.  [lin_check] is an executable checker "l2 is a dependency-respecting
   reordering of l1", proved sound w.r.t. teq. *)
From Coq Require Import List Arith Bool Lia.
Import ListNotations.

Section Trace.
  Variable A : Type.
  Variable D : A -> A -> Prop.

  Inductive teq : list A -> list A -> Prop :=
  | teq_refl l : teq l l
  | teq_swap l1 a b l2 : D a b -> teq (l1 ++ a :: b :: l2) (l1 ++ b :: a :: l2)
  | teq_trans l1 l2 l3 : teq l1 l2 -> teq l2 l3 -> teq l1 l3.

  Lemma teq_app_l p l l' : teq l l' -> teq (p ++ l) (p ++ l').
  Proof.
    induction 1.
    - apply teq_refl.
    - rewrite !app_assoc. apply teq_swap; assumption.
    - eapply teq_trans; eassumption.
  Qed.

  Lemma teq_app_r s l l' : teq l l' -> teq (l ++ s) (l' ++ s).
  Proof.
    induction 1.
    - apply teq_refl.
    - rewrite <- !app_assoc. cbn [app]. apply teq_swap; assumption.
    - eapply teq_trans; eassumption.
  Qed.

  Lemma teq_cons a l l' : teq l l' -> teq (a :: l) (a :: l').
  Proof. intro H. apply (teq_app_l [a]) in H. exact H. Qed.

  Lemma teq_app l1 l1' l2 l2' : teq l1 l1' -> teq l2 l2' -> teq (l1 ++ l2) (l1' ++ l2').
  Proof.
    intros H1 H2. eapply teq_trans.
    - apply teq_app_r. exact H1.
    - apply teq_app_l. exact H2.
  Qed.

  Lemma teq_sym : (forall a b, D a b -> D b a) -> forall l l', teq l l' -> teq l' l.
  Proof.
    intros Hs l l' H. induction H.
    - apply teq_refl.
    - apply teq_swap. apply Hs. assumption.
    - eapply teq_trans; eassumption.
  Qed.

  Lemma teq_perm l l' : teq l l' -> forall x, In x l <-> In x l'.
  Proof.
    induction 1; intro x.
    - tauto.
    - rewrite !in_app_iff. cbn [In]. tauto.
    - rewrite IHteq1. apply IHteq2.
  Qed.

  Lemma teq_length l l' : teq l l' -> length l = length l'.
  Proof.
    induction 1.
    - reflexivity.
    - rewrite !app_length. reflexivity.
    - congruence.
  Qed.

  (* a letter whose predecessors are all independent of it moves to the front *)
  Lemma front_pull pre a post :
    (forall b, In b pre -> D b a) -> teq (pre ++ a :: post) (a :: pre ++ post).
  Proof.
    induction pre as [|b pre IH]; intro H.
    - apply teq_refl.
    - cbn [app]. eapply teq_trans.
      + apply teq_cons. apply IH. intros c Hc. apply H. right. exact Hc.
      + apply (teq_swap [] b a (pre ++ post)). apply H. left. reflexivity.
  Qed.

  (* executable version: extraction of the first letter satisfying a predicate *)
  Variable Db : A -> A -> bool.
  Hypothesis Db_sound : forall a b, Db a b = true -> D a b.

  Fixpoint extract (f : A -> bool) (l : list A) : option (list A * A * list A) :=
    match l with
    | [] => None
    | x :: l' =>
        if f x then Some ([], x, l')
        else match extract f l' with
             | Some (pre, y, post) => Some (x :: pre, y, post)
             | None => None
             end
    end.

  Lemma extract_spec f l pre y post :
    extract f l = Some (pre, y, post) ->
    l = pre ++ y :: post /\ f y = true /\ forall z, In z pre -> f z = false.
  Proof.
    revert pre y post. induction l as [|x l IH]; intros pre y post H; cbn in H.
    - discriminate.
    - destruct (f x) eqn:Ef.
      + inversion H; subst. repeat split; auto. intros z [].
      + destruct (extract f l) as [[[p0 y0] q0]|] eqn:E; [|discriminate].
        inversion H; subst. destruct (IH _ _ _ eq_refl) as (-> & Hy & Hp).
        repeat split; auto. intros z [<-|Hz]; auto.
  Qed.

  Definition front_ok (pre : list A) (a : A) : bool := forallb (fun b => Db b a) pre.

  Lemma front_ok_sound pre a : front_ok pre a = true -> forall b, In b pre -> D b a.
  Proof.
    unfold front_ok. rewrite forallb_forall. intros H b Hb. apply Db_sound. apply H. exact Hb.
  Qed.

  (* [lin_check same l1 l2]: consume l2 letter by letter; each letter must be (same as) the
     first matching letter of what remains of l1 and all its predecessors there independent. *)
  Variable same : A -> A -> bool.
  Hypothesis same_eq : forall a b, same a b = true -> a = b.

  Fixpoint lin_check (l1 l2 : list A) : bool :=
    match l2 with
    | [] => match l1 with [] => true | _ => false end
    | a :: l2' =>
        match extract (same a) l1 with
        | Some (pre, y, post) => front_ok pre y && lin_check (pre ++ post) l2'
        | None => false
        end
    end.

  Theorem lin_check_sound l1 l2 : lin_check l1 l2 = true -> teq l1 l2.
  Proof.
    revert l1. induction l2 as [|a l2 IH]; intros l1 H; cbn in H.
    - destruct l1; [apply teq_refl | discriminate].
    - destruct (extract (same a) l1) as [[[pre y] post]|] eqn:E; [|discriminate].
      apply andb_prop in H. destruct H as [Hf Hr].
      destruct (extract_spec _ _ _ _ _ E) as (-> & Hy & _).
      apply same_eq in Hy. subst y.
      eapply teq_trans.
      + apply front_pull. apply front_ok_sound. exact Hf.
      + apply teq_cons. apply IH. exact Hr.
  Qed.
End Trace.

Arguments teq {A} D _ _.
Arguments teq_refl {A D} l.
Arguments teq_trans {A D} l1 l2 l3 _ _.
Arguments extract {A} f l.
Arguments front_ok {A} Db pre a.
Arguments lin_check {A} Db same l1 l2.

(* monotonicity in the independence relation and transport along a map *)
Lemma teq_mono {A} (D D' : A -> A -> Prop) :
  (forall a b, D a b -> D' a b) -> forall l l', teq D l l' -> teq D' l l'.
Proof.
  intros H l l' T. induction T.
  - apply teq_refl.
  - apply teq_swap. apply H. assumption.
  - eapply teq_trans; eassumption.
Qed.

(* restricted variant: independence only needed for letters of the list *)
Lemma teq_mono_in {A} (D D' : A -> A -> Prop) l0 :
  (forall a b, In a l0 -> In b l0 -> D a b -> D' a b) ->
  forall l l', teq D l l' -> (forall x, In x l -> In x l0) -> teq D' l l'.
Proof.
  intros H l l' T. induction T; intro Hin.
  - apply teq_refl.
  - apply teq_swap. apply H; auto; apply Hin; rewrite in_app_iff; cbn; auto.
  - eapply teq_trans.
    + apply IHT1. exact Hin.
    + apply IHT2. intros x Hx. apply Hin. apply (teq_perm _ _ _ _ T1). exact Hx.
Qed.

(* flattening: words of words *)
Lemma teq_flat {A B} (D : A -> A -> Prop) (E : B -> B -> Prop) (f : A -> list B) :
  (forall a b, D a b -> forall x y, In x (f a) -> In y (f b) -> E x y) ->
  forall l l', teq D l l' -> teq E (flat_map f l) (flat_map f l').
Proof.
  intros H l l' T. induction T.
  - apply teq_refl.
  - rewrite !flat_map_app. cbn [flat_map]. rewrite !app_assoc.
    apply teq_app_r. rewrite <- !app_assoc. apply teq_app_l.
    (* f a ++ f b  ~  f b ++ f a  when every letter of f a is independent of every letter of f b *)
    specialize (H a b H0). clear H0.
    generalize (f b) H. clear H. generalize (f a). clear.
    intros u. induction u as [|x u IH]; intros v H.
    + cbn [app]. rewrite app_nil_r. apply teq_refl.
    + cbn [app]. eapply teq_trans.
      * apply teq_cons. apply IH. intros x' y Hx Hy. apply H; [right|]; assumption.
      * change (x :: v ++ u) with ([x] ++ v ++ u).
        change (v ++ x :: u) with (v ++ [x] ++ u).
        rewrite !app_assoc. apply teq_app_r.
        (* x passes every letter of v *)
        assert (Hx : forall y, In y v -> E x y) by (intros y Hy; apply H; [left; reflexivity | exact Hy]).
        clear -Hx. induction v as [|y v IHv].
        -- apply teq_refl.
        -- cbn [app]. eapply teq_trans.
           ++ apply (teq_swap _ _ [] x y (v)). apply Hx. left. reflexivity.
           ++ cbn [app]. apply teq_cons. apply IHv. intros z Hz. apply Hx. right. exact Hz.
  - eapply teq_trans; eassumption.
Qed.
