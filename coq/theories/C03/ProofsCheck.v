(* C03/ProofsCheck.v : the decidable oracle [explainsb]/[shots_okb] that the harness evaluates on
   the outputs of the real implementation is sound for the specification [explains]/[shots_ok]. *)
From Coq Require Import List Bool Arith ZArith Lia.
From QV Require Import Base.Mat C03.ModelSamples C03.ModelProbs C03.ModelResult
     C03.ProofsSamples C03.ProofsResult.
Import ListNotations.

Lemma list_eqb_eq {A} (e : A -> A -> bool) (He : forall x y, e x y = true -> x = y) :
  forall a b, list_eqb e a b = true -> a = b.
Proof.
  induction a as [|x a IH]; intros [|y b] H; cbn [list_eqb] in H; try discriminate; [reflexivity|].
  apply andb_true_iff in H. destruct H as [H1 H2]. f_equal; auto.
Qed.

Lemma bits_eqb_eq a : forall b, bits_eqb a b = true -> a = b.
Proof.
  induction a as [|x a IH]; intros [|y b] H; cbn [bits_eqb] in H; try discriminate; [reflexivity|].
  apply andb_true_iff in H. destruct H as [H1 H2]. apply eqb_prop in H1. f_equal; auto.
Qed.

Lemma nat_eqb_eq x y : Nat.eqb x y = true -> x = y.
Proof. apply Nat.eqb_eq. Qed.
Lemma z_eqb_eq x y : Z.eqb x y = true -> x = y.
Proof. apply Z.eqb_eq. Qed.

Lemma lookup_notin v f : ~ In v (keys f) -> lookup v f = 0.
Proof.
  induction f as [|[k c] f IH]; intros H; [reflexivity|]. cbn [lookup]. cbn [keys map fst] in H.
  destruct (v =? k) eqn:E; [apply Nat.eqb_eq in E; subst; exfalso; apply H; now left|].
  apply IH. intros Hin. apply H. now right.
Qed.

Lemma counts_okb_sound f l : counts_okb f l = true -> counts_ok f l.
Proof.
  unfold counts_okb. intros H. apply andb_true_iff in H. destruct H as [H1 H2].
  split; [now apply nodupb_NoDup|]. intros v. rewrite forallb_forall in H2.
  destruct (in_dec Nat.eq_dec v (keys f ++ l)) as [Hin|Hnin].
  - apply Nat.eqb_eq. now apply H2.
  - rewrite in_app_iff in Hnin. rewrite lookup_notin by tauto.
    unfold count. symmetry. apply count_occ_not_In. tauto.
Qed.

Lemma bcounts_okb_sound k fb l :
  bcounts_okb k fb l = true -> exists f, fb = fbin k f /\ counts_ok f l.
Proof.
  unfold bcounts_okb. intros H. apply andb_true_iff in H. destruct H as [H1 H2].
  exists (map (fun p => (to_dec (fst p), snd p)) fb). split; [|now apply counts_okb_sound].
  revert H1. apply list_eqb_eq. intros [a x] [b y] H. cbn [fst snd] in H.
  apply andb_true_iff in H. destruct H as [Ha Hx]. apply bits_eqb_eq in Ha. apply Nat.eqb_eq in Hx. now subst.
Qed.

Lemma forall2b_sound {A B} (p : A -> B -> bool) (P : A -> B -> Prop) :
  (forall a b, p a b = true -> P a b) -> forall l l', forall2b p l l' = true -> Forall2 P l l'.
Proof.
  intros Hp. induction l as [|x l IH]; intros [|y l'] H; cbn [forall2b] in H; try discriminate; constructor.
  - apply Hp. apply andb_true_iff in H. tauto.
  - apply IH. apply andb_true_iff in H. tauto.
Qed.

Theorem explainsb_sound_thm cfg w sh o x : explainsb cfg w sh o x = true -> explains cfg w sh o x.
Proof.
  destruct o as [w' ns|r b rg d|r b rg fd|r qs|]; destruct x; cbn [explainsb explains]; try discriminate; auto;
    try (destruct b, rg; try discriminate).
  all: try (intros H; exact I).
  - apply list_eqb_eq. apply bits_eqb_eq.
  - apply list_eqb_eq. apply nat_eqb_eq.
  - apply list_eqb_eq. apply list_eqb_eq. apply bits_eqb_eq.
  - apply list_eqb_eq. apply list_eqb_eq. apply nat_eqb_eq.
  - apply counts_okb_sound.
  - apply bcounts_okb_sound.
  - apply forall2b_sound. intros reg f0. apply counts_okb_sound.
  - apply forall2b_sound. intros reg fb0. apply bcounts_okb_sound.
  - apply list_eqb_eq. apply z_eqb_eq.
Qed.

Theorem shots_okb_sound_thm cfg w ns sh : shots_okb cfg w ns sh = true -> shots_ok cfg w ns sh.
Proof.
  unfold shots_okb, shots_ok. intros H. apply andb_true_iff in H. destruct H as [H1 H2].
  split; [now apply Nat.eqb_eq|]. apply Forall_forall. intros s Hs.
  rewrite forallb_forall in H2. specialize (H2 s Hs). unfold in_support in H2.
  apply andb_true_iff in H2. destruct H2 as [Ha Hb]. apply Nat.ltb_lt in Ha.
  apply negb_true_iff in Hb. apply Z.eqb_neq in Hb. tauto.
Qed.
