(* C03/PropsHandles.v : per-register handles of results built from given samples (round 5).
   Model: C03/ModelHandles.v (MeasurementOutcomes.__init__ samples branch, MeasurementResult views);
   tied to /repo by harness/c03_g.py (part routes) on every run, for every construction route of a
   result object crossed with non-ascending and cyclic register layouts. *)
From Coq Require Import List Bool Arith ZArith.
From QV Require Import Base.Mat C03.ModelSamples C03.ModelProbs C03.ModelResult C03.ModelRepeated C03.ModelHandles
     C03.ProofsHandles.
Import ListNotations.

(* For EVERY register layout (any partition, any qubit order -- no well-formedness hypothesis is
   needed) and every list of shots: the samples (binary / decimal) and frequencies (binary / decimal)
   shown by the handles after the constructor registered the given samples are explained by those
   shots as the registers=True views, i.e. handle k shows the bits of the qubits of register k, in
   the order they were given to the measurement. *)
Theorem constructed_handles_ok :
  forall cfg (w : list Z) sh o, needs_shots o = true ->
    explains cfg w sh
      (match o with Samples r b _ d => Samples r b true d | Freqs r b _ d => Freqs r b true d | o' => o' end)
      (handles_view cfg sh o).
Proof. exact handles_view_explained. Qed.
Print Assumptions constructed_handles_ok.

(* the handles hold exactly what result.samples(registers=True) of the same result returns *)
Theorem constructed_handles_are_register_view :
  forall cfg sh r rg d, handles_view cfg sh (Samples r true rg d) = rep_view cfg sh (Samples r true true d).
Proof. reflexivity. Qed.
Print Assumptions constructed_handles_are_register_view.

(* result.symbols[i] of register j is the outcome of qubit reg_j[i] in the last shot *)
Theorem constructed_handle_symbols_ok :
  forall cfg sh j i reg, sh <> [] -> nth_error (c_regs cfg) j = Some reg -> i < length reg ->
    handle_symbol (nth j (ctor_handles cfg sh) []) i
    = nth (index_of (nth i reg 0) (cQ cfg)) (to_bin (ck cfg) (last sh 0)) false.
Proof. exact handle_symbols_ok. Qed.
Print Assumptions constructed_handle_symbols_ok.

(* non-vacuity on a cyclic layout: registers (2,0) and (1) of 3 qubits, one shot "100" over the
   measured order (2,0,1), i.e. qubit 2 = 1, qubit 0 = 0, qubit 1 = 0.  A lookup in ascending qubit
   order (columns of (0,1,2)) would give register (2,0) the row [0;1] and register (1) the row [0]. *)
Example constructed_handles_nonvacuous :
  ctor_handles (mkcfg 3 [[2; 0]; [1]]) [4] = [[[true; false]]; [[false]]] /\
  handle_symbol (nth 0 (ctor_handles (mkcfg 3 [[2; 0]; [1]]) [4]) []) 0 = true.
Proof. vm_compute. split; reflexivity. Qed.
