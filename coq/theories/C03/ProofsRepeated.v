(* C03/ProofsRepeated.v : every sample/frequency view of a repeated-execution result is the same
   data as its samples. *)
From Coq Require Import List Bool Arith ZArith Lia.
From QV Require Import Base.Mat C03.ModelSamples C03.ModelProbs C03.ModelResult C03.ModelRepeated
     C03.ProofsSamples C03.ProofsProbs C03.ProofsResult.
Import ListNotations.

Lemma keys_bump_in v n f x : In x (keys (bump v n f)) -> x = v \/ In x (keys f).
Proof.
  rewrite keys_bump. destruct (existsb (Nat.eqb v) (keys f)); [now right|].
  rewrite in_app_iff. intros [H|[H|[]]]; auto.
Qed.

Lemma keys_calc_freq_in l x : In x (keys (calc_freq l)) -> In x l.
Proof.
  unfold calc_freq.
  assert (H : forall f, In x (keys (fold_left (fun f v => bump v 1 f) l f)) -> In x l \/ In x (keys f)).
  { induction l as [|v l IH]; intros f Hx; cbn [fold_left] in Hx; [now right|].
    destruct (IH _ Hx) as [H|H]; [left; now right|].
    apply keys_bump_in in H. destruct H as [->|H]; [left; now left | now right]. }
  intros Hx. destruct (H [] Hx) as [H1|[]]. exact H1.
Qed.

Lemma fbin_dec_id k f : (forall v, In v (keys f) -> v < 2 ^ k) ->
  map (fun p => (to_dec (fst p), snd p)) (fbin k f) = f.
Proof.
  intros H. unfold fbin. rewrite map_map. rewrite <- (map_id f) at 2. apply map_ext_in.
  intros [v c] Hin. cbn [fst snd]. f_equal. apply bin_dec_inverse_l. apply H.
  unfold keys. apply in_map_iff. exists (v, c). auto.
Qed.

Theorem rep_views_explained cfg (w : list Z) sh o :
  Forall (fun s => s < 2 ^ ck cfg) sh -> needs_shots o = true ->
  explains cfg w sh o (rep_view cfg sh o).
Proof.
  intros Hlt Hn.
  assert (Edec : map to_dec (map (to_bin (ck cfg)) sh) = sh).
  { rewrite map_map. rewrite <- (map_id sh) at 2. apply map_ext_in. intros s Hs.
    rewrite Forall_forall in Hlt. now apply bin_dec_inverse_l, Hlt. }
  assert (Hc : counts_ok (calc_freq sh) sh).
  { split; [apply nodup_calc_freq | intros v; apply lookup_calc_freq]. }
  destruct o as [w' ns|r b rg d|r b rg fd|r qs|]; try discriminate; unfold rep_view; rewrite Edec.
  - destruct rg, b; cbn [explains].
    + apply own_rows.
    + apply own_rows_dec.
    + reflexivity.
    + reflexivity.
  - destruct rg, b; cbn [explains].
    + apply fl_bin_ok. now apply own_freqs_ok.
    + now apply own_freqs_ok.
    + exists (calc_freq sh). split; [reflexivity | exact Hc].
    + rewrite fbin_dec_id; [exact Hc|]. intros v Hv. apply keys_calc_freq_in in Hv.
      rewrite Forall_forall in Hlt. now apply Hlt.
Qed.
