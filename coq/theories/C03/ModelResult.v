(* C03/ModelResult.v : state machine of the result objects of ONE circuit object
   (result.py MeasurementOutcomes / CircuitResult, measurements.py MeasurementResult,
   backends/numpy.py execute_circuit), for circuits without collapse / repeated execution and
   without bit-flip noise (p = 0).  Shared between C03 (one result, all accessor orders) and C14
   (several executions of the same circuit object).  No proofs here.

   Heap:
     m_gates    one cache per measurement gate of circuit.measurements: M.result._samples and
                M.result._frequencies.  These objects belong to the CIRCUIT; a result WRITES them
                (for the handles returned by circuit.add) but never reads them back;
     m_results  the result objects created so far (own _probs/_samples/_frequencies, own state);
     m_final    circuit._final_state (index of the last result).
   Random draws are not modelled: every operation carries the value the implementation drew
   (np.random.choice in sample_shots, np.random.shuffle, sample_frequencies) as an oracle input;
   [oracle_ok] states the contract of the sampler that the theorems assume and the harness
   checks on every draw. *)
From Coq Require Import List Bool Arith ZArith Lia.
From QV Require Import Base.Mat C03.ModelSamples C03.ModelProbs.
Import ListNotations.

Record config := mkcfg { c_n : nat ; c_regs : list (list nat) }.
Definition cQ (cfg : config) : list nat := global_qubits (c_regs cfg).
Definition ck (cfg : config) : nat := length (cQ cfg).

Record gcache := mkg { gs : option (list bits) ; gf : option counter }.
Record result := mkr { r_w : list Z ; r_nshots : nat ; r_probs : list Z ;
                       r_samples : option (list bits) ; r_freqs : option counter }.
Record machine := mkm { m_gates : list gcache ; m_results : list result ; m_final : option nat }.

Definition init (cfg : config) : machine :=
  mkm (map (fun _ => mkg None None) (c_regs cfg)) [] None.

Inductive op :=
| Exec (w : list Z) (nshots : nat)                     (* r = circuit(initial_state, nshots); w_x = |final state_x|^2 *)
| Samples (r : nat) (binary registers : bool) (draw : list nat)   (* results[r].samples(binary, registers) *)
| Freqs (r : nat) (binary registers : bool) (fdraw : counter)     (* results[r].frequencies(binary, registers) *)
| Probs (r : nat) (qs : list nat)                       (* results[r].probabilities(qs) *)
| Final.                                                (* circuit.final_state (which result object) *)

Inductive out :=
| ODone
| OSamplesBin (s : list bits)
| OSamplesDec (s : list nat)
| ORegSamplesBin (s : list (list bits))
| ORegSamplesDec (s : list (list nat))
| OFreqDec (f : counter)
| OFreqBin (f : bcounter)
| ORegFreqDec (f : list counter)
| ORegFreqBin (f : list bcounter)
| OProbs (p : list Z)
| OFinal (r : option nat)
| OErr (code : nat).

Fixpoint update_nth {A} (i : nat) (x : A) (l : list A) : list A :=
  match l, i with
  | [], _ => []
  | _ :: l', O => x :: l'
  | y :: l', S i' => y :: update_nth i' x l'
  end.

Definition set_samples (R : result) (s : list bits) : result :=
  mkr (r_w R) (r_nshots R) (r_probs R) (Some s) (r_freqs R).
Definition set_freqs (R : result) (f : counter) : result :=
  mkr (r_w R) (r_nshots R) (r_probs R) (r_samples R) (Some f).

Definition has_own_samples (R : result) : bool :=
  match r_samples R with Some _ => true | None => false end.

(* [qubits.index(q) for q in gate.target_qubits] : positions of a register's qubits among the
   globally measured qubits, used for the views computed from the result's OWN data *)
Definition own_cols (cfg : config) (reg : list nat) : list nat :=
  map (fun q => index_of q (cQ cfg)) reg.

(* the part of MeasurementOutcomes.samples that fills self._samples.  A result of a simulation
   always carries self._probs, so the branch that reads the samples registered on the
   measurement gates (`self._probs is None and measurements[0].result.has_samples()`, kept for
   results built without probabilities, e.g. by hardware backends) is never taken for the
   results of this machine: a result only ever WRITES the gate caches. *)
Definition materialise (cfg : config) (m : machine) (r : nat) (draw : list nat) : option machine :=
  match nth_error (m_results m) r with
  | None => None
  | Some R =>
    match r_samples R with
    | Some _ => Some m
    | None =>
        (* draw = sample_shots(self._probs, nshots), or the shuffled expansion of self._frequencies *)
        let sm := map (to_bin (ck cfg)) draw in
        let Q := cQ cfg in
        Some (mkm (map (fun rg => mkg (Some (map (take_cols (reg_cols Q (fst rg))) sm)) (gf (snd rg)))
                       (combine (c_regs cfg) (m_gates m)))
                  (update_nth r (set_samples R sm) (m_results m)) (m_final m))
    end
  end.

Definition step_samples (cfg : config) (m : machine) (r : nat) (binary registers : bool)
           (draw : list nat) : machine * out :=
  match materialise cfg m r draw with
  | None => (m, OErr 1)
  | Some m1 =>
    match nth_error (m_results m1) r with
    | Some R1 =>
      match r_samples R1 with
      | Some sm =>
        if registers then
          (* {gate.register_name: self._register_samples(gate, binary)} : columns of own samples *)
          let l := map (fun reg => map (take_cols (own_cols cfg reg)) sm) (c_regs cfg) in
          (m1, if binary then ORegSamplesBin l else ORegSamplesDec (map (map to_dec) l))
        else (m1, if binary then OSamplesBin sm else OSamplesDec (map to_dec sm))
      | None => (m1, OErr 3)
      end
    | None => (m1, OErr 4)
    end
  end.

Definition step_freqs (cfg : config) (m : machine) (r : nat) (binary registers : bool)
           (fdraw : counter) : machine * out :=
  match nth_error (m_results m) r with
  | None => (m, OErr 4)
  | Some R =>
    let k := ck cfg in
    (* fill self._frequencies *)
    let m1 :=
      match r_freqs R with
      | Some _ => m
      | None =>
        match r_samples R with
        | Some sm =>
            (* has_samples(): calculate_frequencies(self.samples(binary=False)) *)
            mkm (m_gates m) (update_nth r (set_freqs R (calc_freq (map to_dec sm))) (m_results m)) (m_final m)
        | None =>
            (* fdraw = sample_frequencies(self._probs, nshots); the rfreqs loop registers the
               projections on every gate (written, never read back by a result) *)
            let Q := cQ cfg in
            mkm (map (fun rg => mkg (gs (snd rg)) (Some (reg_freq k (reg_cols Q (fst rg)) fdraw)))
                     (combine (c_regs cfg) (m_gates m)))
                (update_nth r (set_freqs R fdraw) (m_results m)) (m_final m)
        end
      end in
    match nth_error (m_results m1) r with
    | Some R1 =>
      match r_freqs R1 with
      | Some F =>
        if registers then
          (* {gate.register_name: self._register_frequencies(gate, binary)} : own frequencies *)
          let l := map (fun reg => reg_freq k (own_cols cfg reg) F) (c_regs cfg) in
          (m1, if binary
               then ORegFreqBin (map (fun rf => fbin (length (fst rf)) (snd rf)) (combine (c_regs cfg) l))
               else ORegFreqDec l)
        else (m1, if binary then OFreqBin (fbin k F) else OFreqDec F)
      | None => (m1, OErr 3)
      end
    | None => (m1, OErr 4)
    end
  end.

Definition step (cfg : config) (m : machine) (o : op) : machine * out :=
  match o with
  | Exec w nshots =>
      (* CircuitResult.__init__: probs = QuantumState.probabilities(self, qubits) over the global
         measured qubits; nothing is written to the measurement gates; circuit._final_state = it *)
      (mkm (m_gates m)
           (m_results m ++ [mkr w nshots (calc_probs (c_n cfg) (cQ cfg) w) None None])
           (Some (length (m_results m))), ODone)
  | Samples r b rg draw => step_samples cfg m r b rg draw
  | Freqs r b rg fdraw => step_freqs cfg m r b rg fdraw
  | Probs r qs =>
      match nth_error (m_results m) r with
      | Some R => (m, OProbs (calc_probs (c_n cfg) qs (r_w R)))
      | None => (m, OErr 4)
      end
  | Final => (m, OFinal (m_final m))
  end.

Fixpoint run (cfg : config) (m : machine) (h : list op) : list out * machine :=
  match h with
  | [] => ([], m)
  | o :: h' =>
      let '(m1, x) := step cfg m o in
      let '(xs, mf) := run cfg m1 h' in
      (x :: xs, mf)
  end.

(* ---- the sampler contract (oracle premises), decidable *)
Definition count (l : list nat) (v : nat) : nat := count_occ Nat.eq_dec l v.

Definition in_support (k : nat) (probs : list Z) (s : nat) : bool :=
  (s <? 2 ^ k) && negb (Z.eqb (nth s probs 0%Z) 0%Z).

Fixpoint nodupb (l : list nat) : bool :=
  match l with [] => true | x :: l' => negb (existsb (Nat.eqb x) l') && nodupb l' end.

Definition oracle_ok (cfg : config) (m : machine) (o : op) : bool :=
  let k := ck cfg in
  match o with
  | Samples r _ _ draw =>
      match nth_error (m_results m) r with
      | None => true
      | Some R =>
        match r_samples R with
        | Some _ => true
        | None =>
          match r_freqs R with
          | Some F => (* np.random.shuffle returns a permutation of its input *)
              forallb (fun v => count draw v =? count (expand F) v) (draw ++ expand F)
          | None => (* np.random.choice: nshots values of non-zero probability *)
              (length draw =? r_nshots R) && forallb (in_support k (r_probs R)) draw
          end
        end
      end
  | Freqs r _ _ fdraw =>
      match nth_error (m_results m) r with
      | None => true
      | Some R =>
        match r_freqs R with
        | Some _ => true
        | None =>
          if has_own_samples R then true
          else (* sample_frequencies: a Counter of positive counts over the support, total nshots *)
            nodupb (keys fdraw) && (total fdraw =? r_nshots R) &&
            forallb (fun p => in_support k (r_probs R) (fst p) && (0 <? snd p)) fdraw
        end
      end
  | _ => true
  end.

Fixpoint oracles_ok (cfg : config) (m : machine) (h : list op) : bool :=
  match h with
  | [] => true
  | o :: h' => oracle_ok cfg m o && oracles_ok cfg (fst (step cfg m o)) h'
  end.

(* ---- specification: every view of a result is a function of ONE list of shots S of that
   result (decimal, over the global measured qubits Q in the order they were given) *)
Definition spec_reg_row (cfg : config) (reg : list nat) (s : nat) : bits :=
  map (fun q => nth (index_of q (cQ cfg)) (to_bin (ck cfg) s) false) reg.
Definition spec_reg_dec (cfg : config) (reg : list nat) (s : nat) : nat := to_dec (spec_reg_row cfg reg s).

Definition counts_ok (f : counter) (l : list nat) : Prop :=
  NoDup (keys f) /\ forall v, lookup v f = count l v.

Definition target (o : op) : option nat :=
  match o with Exec _ _ => None | Final => None | Samples r _ _ _ => Some r | Freqs r _ _ _ => Some r | Probs r _ => Some r end.

Definition explains (cfg : config) (w : list Z) (sh : list nat) (o : op) (x : out) : Prop :=
  match o, x with
  | Exec _ _, ODone => True
  | Samples _ true false _, OSamplesBin s => s = map (to_bin (ck cfg)) sh
  | Samples _ false false _, OSamplesDec s => s = sh
  | Samples _ true true _, ORegSamplesBin l =>
      l = map (fun reg => map (spec_reg_row cfg reg) sh) (c_regs cfg)
  | Samples _ false true _, ORegSamplesDec l =>
      l = map (fun reg => map (spec_reg_dec cfg reg) sh) (c_regs cfg)
  | Freqs _ false false _, OFreqDec f => counts_ok f sh
  | Freqs _ true false _, OFreqBin fb => exists f, fb = fbin (ck cfg) f /\ counts_ok f sh
  | Freqs _ false true _, ORegFreqDec l =>
      Forall2 (fun reg f => counts_ok f (map (spec_reg_dec cfg reg) sh)) (c_regs cfg) l
  | Freqs _ true true _, ORegFreqBin l =>
      Forall2 (fun reg fb => exists f, fb = fbin (length reg) f /\ counts_ok f (map (spec_reg_dec cfg reg) sh))
              (c_regs cfg) l
  | Probs _ qs, OProbs p => p = born_vec (c_n cfg) qs w
  | _, _ => False
  end.

(* the shots S are admissible for the execution (w, nshots) *)
Definition shots_ok (cfg : config) (w : list Z) (nshots : nat) (sh : list nat) : Prop :=
  length sh = nshots /\
  Forall (fun s => s < 2 ^ ck cfg /\ nth s (born_vec (c_n cfg) (cQ cfg) w) 0%Z<> 0%Z) sh.

Definition needs_shots (o : op) : bool :=
  match o with Samples _ _ _ _ => true | Freqs _ _ _ _ => true | _ => false end.
Definition sampled (r : nat) (h : list op) : Prop :=
  exists o, In o h /\ target o = Some r /\ needs_shots o = true.

(* "each result is a pure function of its own execution": for every result r of the history
   there is one list of shots that explains every output read from r, and it is admissible for
   r's own execution (state, shot count) as soon as r was asked for samples or frequencies *)
Definition standalone (cfg : config) (h : list op) : Prop :=
  let '(xs, mf) := run cfg (init cfg) h in
  forall r R, nth_error (m_results mf) r = Some R ->
    exists sh, (sampled r h -> shots_ok cfg (r_w R) (r_nshots R) sh) /\
      forall i o x, nth_error h i = Some o -> nth_error xs i = Some x -> target o = Some r ->
                    explains cfg (r_w R) sh o x.

(* ---- well-formed inputs: what the real code accepts *)
(* at least one register, no qubit measured twice, all qubits in range *)
Definition cfg_wf (cfg : config) : Prop :=
  c_regs cfg <> [] /\ NoDup (cQ cfg) /\ (forall q, In q (cQ cfg) -> q < c_n cfg).
(* an accessor can only be called on a result that exists; probabilities(qubits) raises for
   repeated or out-of-range qubits *)
Definition op_wf (cfg : config) (nres : nat) (o : op) : bool :=
  match o with
  | Exec _ _ => true
  | Samples r _ _ _ => r <? nres
  | Freqs r _ _ _ => r <? nres
  | Probs r qs => (r <? nres) && nodupb qs && forallb (fun q => q <? c_n cfg) qs
  | Final => true
  end.
Fixpoint hist_wf (cfg : config) (nres : nat) (h : list op) : bool :=
  match h with
  | [] => true
  | o :: h' => op_wf cfg nres o &&
               hist_wf cfg (match o with Exec _ _ => S nres | _ => nres end) h'
  end.
(* samples()/frequencies() are only ever called on the result r0 *)
Definition single_reader (r0 : nat) (h : list op) : bool :=
  forallb (fun o => match o with
                    | Samples r _ _ _ => r =? r0
                    | Freqs r _ _ _ => r =? r0
                    | _ => true
                    end) h.

(* ---- decidable version of [explains], used by the harness as the Coq-side oracle for the
   outputs of the real implementation *)
Definition counts_okb (f : counter) (l : list nat) : bool :=
  nodupb (keys f) && forallb (fun v => lookup v f =? count l v) (keys f ++ l).
Fixpoint bits_eqb (a b : bits) : bool :=
  match a, b with
  | [], [] => true
  | x :: a', y :: b' => Bool.eqb x y && bits_eqb a' b'
  | _, _ => false
  end.
Fixpoint list_eqb {A} (e : A -> A -> bool) (a b : list A) : bool :=
  match a, b with
  | [], [] => true
  | x :: a', y :: b' => e x y && list_eqb e a' b'
  | _, _ => false
  end.
Definition bcounts_okb (k : nat) (fb : bcounter) (l : list nat) : bool :=
  let f := map (fun p => (to_dec (fst p), snd p)) fb in
  list_eqb (fun p q => bits_eqb (fst p) (fst q) && (snd p =? snd q)) fb (fbin k f) && counts_okb f l.
Fixpoint forall2b {A B} (p : A -> B -> bool) (a : list A) (b : list B) : bool :=
  match a, b with
  | [], [] => true
  | x :: a', y :: b' => p x y && forall2b p a' b'
  | _, _ => false
  end.

Definition explainsb (cfg : config) (w : list Z) (sh : list nat) (o : op) (x : out) : bool :=
  match o, x with
  | Exec _ _, ODone => true
  | Samples _ true false _, OSamplesBin s => list_eqb bits_eqb s (map (to_bin (ck cfg)) sh)
  | Samples _ false false _, OSamplesDec s => list_eqb Nat.eqb s sh
  | Samples _ true true _, ORegSamplesBin l =>
      list_eqb (list_eqb bits_eqb) l (map (fun reg => map (spec_reg_row cfg reg) sh) (c_regs cfg))
  | Samples _ false true _, ORegSamplesDec l =>
      list_eqb (list_eqb Nat.eqb) l (map (fun reg => map (spec_reg_dec cfg reg) sh) (c_regs cfg))
  | Freqs _ false false _, OFreqDec f => counts_okb f sh
  | Freqs _ true false _, OFreqBin fb => bcounts_okb (ck cfg) fb sh
  | Freqs _ false true _, ORegFreqDec l =>
      forall2b (fun reg f => counts_okb f (map (spec_reg_dec cfg reg) sh)) (c_regs cfg) l
  | Freqs _ true true _, ORegFreqBin l =>
      forall2b (fun reg fb => bcounts_okb (length reg) fb (map (spec_reg_dec cfg reg) sh)) (c_regs cfg) l
  | Probs _ qs, OProbs p => list_eqb Z.eqb p (born_vec (c_n cfg) qs w)
  | _, _ => false
  end.
Definition shots_okb (cfg : config) (w : list Z) (nshots : nat) (sh : list nat) : bool :=
  (length sh =? nshots) &&
  forallb (fun s => in_support (ck cfg) (born_vec (c_n cfg) (cQ cfg) w) s) sh.
