(* C03/ModelRepeated.v : the views of a result of shot-by-shot execution
   (backends/numpy.py execute_circuit_repeated: state-vector circuits with collapsing measurements
   or unitary channels).  The result is a MeasurementOutcomes built from the aggregated samples:
   self._samples = samples (given), self._repeated_execution_frequencies =
   calculate_frequencies(list of the shots as bit strings), self._frequencies = None.
   [rep_view cfg S o] is what the accessor o returns for the shots S (decimal, over the measured
   qubits in the order given).  No proofs here. *)
From Coq Require Import List Bool Arith ZArith.
From QV Require Import Base.Mat C03.ModelSamples C03.ModelProbs C03.ModelResult.
Import ListNotations.

Definition rep_view (cfg : config) (sh : list nat) (o : op) : out :=
  let k := ck cfg in
  let sm := map (to_bin k) sh in                 (* self._samples *)
  match o with
  | Samples _ b rg _ =>
      if rg then
        let l := map (fun reg => map (take_cols (own_cols cfg reg)) sm) (c_regs cfg) in
        if b then ORegSamplesBin l else ORegSamplesDec (map (map to_dec) l)
      else if b then OSamplesBin sm else OSamplesDec (map to_dec sm)
  | Freqs _ b rg _ =>
      if rg then
        (* `registers` given: falls through to self._frequencies =
           calculate_frequencies(self.samples(binary=False)) and the own-register projection *)
        let F := calc_freq (map to_dec sm) in
        let l := map (fun reg => reg_freq k (own_cols cfg reg) F) (c_regs cfg) in
        if b then ORegFreqBin (map (fun rf => fbin (length (fst rf)) (snd rf)) (combine (c_regs cfg) l))
        else ORegFreqDec l
      else
        (* self._repeated_execution_frequencies: a Counter keyed by the bit strings of the shots;
           binary=False converts the keys with int(key, 2) *)
        let R := fbin k (calc_freq (map to_dec sm)) in
        if b then OFreqBin R else OFreqDec (map (fun p => (to_dec (fst p), snd p)) R)
  | _ => OErr 0
  end.
