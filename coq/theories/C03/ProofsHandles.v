(* C03/ProofsHandles.v : the handles of a result built from given samples show the register
   projections of exactly those shots (any register layout, any qubit order). *)
From Coq Require Import List Bool Arith ZArith Lia.
From QV Require Import Base.Mat C03.ModelSamples C03.ModelProbs C03.ModelResult C03.ModelRepeated C03.ModelHandles
     C03.ProofsSamples C03.ProofsProbs C03.ProofsResult C03.ProofsRepeated.
Import ListNotations.

Lemma handle_rows_dec cfg reg sh :
  handle_dec (map (take_cols (own_cols cfg reg)) (map (to_bin (ck cfg)) sh)) = map (spec_reg_dec cfg reg) sh.
Proof.
  unfold handle_dec. rewrite !map_map. apply map_ext. intros s. unfold spec_reg_dec. now rewrite own_row.
Qed.

Lemma handle_freqs_ok cfg sh rs :
  Forall2 (fun reg f => counts_ok f (map (spec_reg_dec cfg reg) sh)) rs
          (map handle_freq (map (fun reg => map (take_cols (own_cols cfg reg)) (map (to_bin (ck cfg)) sh)) rs)).
Proof.
  induction rs as [|reg rs IH]; cbn [map]; constructor; [|exact IH].
  unfold handle_freq. rewrite handle_rows_dec.
  split; [apply nodup_calc_freq | intros v; apply lookup_calc_freq].
Qed.

Lemma combine_map_r {A B C} (f : B -> C) (l : list A) (m : list B) :
  combine l (map f m) = map (fun p => (fst p, f (snd p))) (combine l m).
Proof. revert m. induction l as [|a l IH]; intros [|b m]; cbn; [reflexivity..|]. now rewrite IH. Qed.

Theorem handles_view_explained cfg (w : list Z) sh o :
  needs_shots o = true ->
  explains cfg w sh
    (match o with Samples r b _ d => Samples r b true d | Freqs r b _ d => Freqs r b true d | o' => o' end)
    (handles_view cfg sh o).
Proof.
  intros Hn. destruct o as [w' ns|r b rg d|r b rg fd|r qs|]; try discriminate; unfold handles_view, ctor_handles.
  - destruct b; cbn [explains].
    + apply own_rows.
    + apply own_rows_dec.
  - destruct b; cbn [explains].
    + assert (E : forall hs,
                 map (fun rf : list nat * list bits => fbin (length (fst rf)) (handle_freq (snd rf))) (combine (c_regs cfg) hs)
                 = map (fun rf => fbin (length (fst rf)) (snd rf)) (combine (c_regs cfg) (map handle_freq hs))).
      { intros hs. rewrite combine_map_r, map_map. reflexivity. }
      rewrite E. apply fl_bin_ok. apply handle_freqs_ok.
    + apply handle_freqs_ok.
Qed.

(* symbol i of the handle of register reg shows the outcome of qubit reg[i] in the last shot *)
Theorem handle_symbols_ok cfg sh j i reg :
  sh <> [] -> nth_error (c_regs cfg) j = Some reg -> i < length reg ->
  handle_symbol (nth j (ctor_handles cfg sh) []) i
  = nth (index_of (nth i reg 0) (cQ cfg)) (to_bin (ck cfg) (last sh 0)) false.
Proof.
  intros Hne Hj Hi. unfold ctor_handles, handle_symbol.
  assert (Hn : nth j (map (fun reg0 => map (take_cols (own_cols cfg reg0)) (map (to_bin (ck cfg)) sh)) (c_regs cfg)) []
               = map (take_cols (own_cols cfg reg)) (map (to_bin (ck cfg)) sh)).
  { apply nth_error_nth with (d := []). rewrite nth_error_map, Hj. reflexivity. }
  rewrite Hn, map_map.
  assert (Hl : forall (f : nat -> bits) l, l <> [] -> last (map f l) [] = f (last l 0)).
  { intros f l. induction l as [|a [|b l] IH]; intros H; [congruence | reflexivity |].
    change (last (f a :: map f (b :: l)) [] = f (last (a :: b :: l) 0)).
    cbn [last map]. cbn [last map] in IH. apply IH. discriminate. }
  rewrite Hl by exact Hne.
  rewrite own_row. unfold spec_reg_row.
  assert (Hm : forall (f : nat -> bool) l k, k < length l -> nth k (map f l) false = f (nth k l 0)).
  { intros f l. induction l as [|a l IH]; intros [|k] H; cbn in *; try lia; [reflexivity | apply IH; lia]. }
  now rewrite Hm.
Qed.
