(* C03/ProofsSamples.v : samples_to_binary / samples_to_decimal are mutually inverse, Counters
   count, frequency totals, register columns. *)
From Coq Require Import List Bool Arith Lia.
From QV Require Import Base.Mat C03.ModelSamples.
Import ListNotations.

(* ---------- binary <-> decimal *)
Lemma qrange_S k : qrange (S k) = k :: qrange k.
Proof. unfold qrange. rewrite seq_S, rev_app_distr. reflexivity. Qed.

Lemma to_bin_S k s : to_bin (S k) s = Nat.testbit s k :: to_bin k s.
Proof. unfold to_bin. rewrite qrange_S. cbn [map]. now rewrite <- Nat.testbit_odd. Qed.

Lemma to_bin_length k s : length (to_bin k s) = k.
Proof. unfold to_bin, qrange. now rewrite map_length, rev_length, seq_length. Qed.

Lemma to_bin_testbit k s : to_bin k s = map (Nat.testbit s) (qrange k).
Proof. unfold to_bin. apply map_ext. intros e. now rewrite Nat.testbit_odd. Qed.

Lemma in_qrange e k : In e (qrange k) -> e < k.
Proof. unfold qrange. rewrite <- in_rev, in_seq. lia. Qed.

Lemma to_bin_mod k s : to_bin k (s mod 2 ^ k) = to_bin k s.
Proof.
  rewrite !to_bin_testbit. apply map_ext_in. intros e He.
  apply Nat.mod_pow2_bits_low. now apply in_qrange.
Qed.

Lemma pow2_pos k : 2 ^ k <> 0.
Proof. apply Nat.pow_nonzero. lia. Qed.

Lemma to_dec_to_bin_mod k s : to_dec (to_bin k s) = s mod 2 ^ k.
Proof.
  induction k as [|k IH].
  - change (2 ^ 0) with 1. rewrite Nat.mod_1_r. reflexivity.
  - rewrite to_bin_S. cbn [to_dec]. rewrite to_bin_length, IH.
    rewrite Nat.pow_succ_r', (Nat.mul_comm 2).
    rewrite Nat.mod_mul_r by (try apply pow2_pos; lia).
    rewrite <- Nat.testbit_spec'.
    destruct (Nat.testbit s k); cbn [Nat.b2n]; lia.
Qed.

Lemma to_dec_lt b : to_dec b < 2 ^ length b.
Proof.
  induction b as [|x b IH]; cbn [to_dec length].
  - cbn. lia.
  - rewrite Nat.pow_succ_r'. destruct x; lia.
Qed.

Lemma to_bin_to_dec b : to_bin (length b) (to_dec b) = b.
Proof.
  induction b as [|x b IH]; [reflexivity|].
  cbn [length to_dec]. rewrite to_bin_S. f_equal.
  - pose proof (to_dec_lt b) as Hlt. pose proof (pow2_pos (length b)) as Hp.
    apply Nat.b2n_inj. rewrite Nat.testbit_spec'.
    destruct x.
    + replace (2 ^ length b + to_dec b) with (1 * 2 ^ length b + to_dec b) by lia.
      rewrite Nat.div_add_l by assumption. rewrite Nat.div_small by assumption. reflexivity.
    + cbn [Nat.b2n]. rewrite Nat.add_0_l, Nat.div_small by assumption. reflexivity.
  - rewrite <- to_bin_mod.
    pose proof (to_dec_lt b) as Hlt. pose proof (pow2_pos (length b)) as Hp.
    destruct x.
    + replace (2 ^ length b + to_dec b) with (to_dec b + 1 * 2 ^ length b) by lia.
      rewrite Nat.mod_add by assumption. rewrite Nat.mod_small by assumption. exact IH.
    + rewrite Nat.add_0_l, Nat.mod_small by assumption. exact IH.
Qed.

Lemma bin_dec_inverse_l k s : s < 2 ^ k -> to_dec (to_bin k s) = s.
Proof. intros H. rewrite to_dec_to_bin_mod. now apply Nat.mod_small. Qed.

Lemma bin_dec_inverse_r k b : length b = k -> to_bin k (to_dec b) = b.
Proof. intros <-. apply to_bin_to_dec. Qed.

(* to_dec is the row-major index of Base.Mat *)
Lemma idx_acc_to_dec b : forall acc, idx_acc acc b = acc * 2 ^ length b + to_dec b.
Proof.
  induction b as [|x b IH]; intros acc; cbn [idx_acc to_dec length].
  - cbn. lia.
  - rewrite IH, Nat.pow_succ_r'. destruct x; lia.
Qed.
Lemma idx_to_dec b : idx b = to_dec b.
Proof. unfold idx. rewrite idx_acc_to_dec. lia. Qed.

(* ---------- Counters *)
Definition cnt (l : list nat) (v : nat) : nat := count_occ Nat.eq_dec l v.

Lemma lookup_bump u v n f :
  lookup u (bump v n f) = lookup u f + (if u =? v then n else 0).
Proof.
  induction f as [|[k c] f IH]; cbn [bump lookup].
  - destruct (u =? v); lia.
  - destruct (v =? k) eqn:E.
    + apply Nat.eqb_eq in E. subst k. cbn [lookup]. destruct (u =? v); lia.
    + cbn [lookup]. destruct (u =? k) eqn:E2.
      * apply Nat.eqb_eq in E2. subst k.
        rewrite Nat.eqb_sym in E. rewrite E. lia.
      * exact IH.
Qed.

Lemma total_bump v n f : total (bump v n f) = total f + n.
Proof.
  induction f as [|[k c] f IH]; cbn [bump total fold_right snd].
  - lia.
  - destruct (v =? k); cbn [total fold_right snd]; fold (total f); fold (total (bump v n f)); lia.
Qed.

Lemma keys_bump v n f :
  keys (bump v n f) = if existsb (Nat.eqb v) (keys f) then keys f else keys f ++ [v].
Proof.
  induction f as [|[k c] f IH]; cbn [bump keys map fst existsb]; [reflexivity|].
  destruct (v =? k) eqn:E; cbn [map fst orb].
  - apply Nat.eqb_eq in E. now subst.
  - fold (keys (bump v n f)). fold (keys f). rewrite IH.
    destruct (existsb (Nat.eqb v) (keys f)); reflexivity.
Qed.

Lemma existsb_eqb_In v l : existsb (Nat.eqb v) l = true <-> In v l.
Proof.
  rewrite existsb_exists. split.
  - intros [x [Hx E]]. apply Nat.eqb_eq in E. now subst.
  - intros H. exists v. split; [assumption | apply Nat.eqb_refl].
Qed.

Lemma NoDup_snoc {A} (l : list A) v : NoDup l -> ~ In v l -> NoDup (l ++ [v]).
Proof.
  induction l as [|x l IH]; intros Hnd Hnin; cbn [app].
  - constructor; [intros []|constructor].
  - inversion Hnd as [|? ? Hx Hl]; subst. constructor.
    + rewrite in_app_iff. intros [H|[H|[]]]; [contradiction|]. subst. apply Hnin. now left.
    + apply IH; [assumption|]. intros H. apply Hnin. now right.
Qed.

Lemma nodup_keys_bump v n f : NoDup (keys f) -> NoDup (keys (bump v n f)).
Proof.
  intros H. rewrite keys_bump. destruct (existsb (Nat.eqb v) (keys f)) eqn:E; [assumption|].
  apply NoDup_snoc; [exact H|].
  intros Hin. apply existsb_eqb_In in Hin. congruence.
Qed.

Lemma calc_freq_acc l : forall f,
  (forall v, lookup v (fold_left (fun f v => bump v 1 f) l f) = lookup v f + cnt l v) /\
  total (fold_left (fun f v => bump v 1 f) l f) = total f + length l /\
  (NoDup (keys f) -> NoDup (keys (fold_left (fun f v => bump v 1 f) l f))).
Proof.
  induction l as [|x l IH]; intros f; cbn [fold_left].
  - repeat split; cbn; auto.
  - destruct (IH (bump x 1 f)) as [H1 [H2 H3]]. repeat split.
    + intros v. rewrite H1, lookup_bump. unfold cnt. cbn [count_occ].
      destruct (Nat.eq_dec x v) as [->|Hne].
      * rewrite Nat.eqb_refl. lia.
      * destruct (v =? x) eqn:E; [apply Nat.eqb_eq in E; congruence | lia].
    + rewrite H2, total_bump. cbn [length]. lia.
    + intros Hnd. apply H3. now apply nodup_keys_bump.
Qed.

Lemma lookup_calc_freq l v : lookup v (calc_freq l) = cnt l v.
Proof. unfold calc_freq. destruct (calc_freq_acc l []) as [H _]. now rewrite H. Qed.

Lemma total_calc_freq l : total (calc_freq l) = length l.
Proof. unfold calc_freq. destruct (calc_freq_acc l []) as [_ [H _]]. now rewrite H. Qed.

Lemma nodup_calc_freq l : NoDup (keys (calc_freq l)).
Proof. unfold calc_freq. destruct (calc_freq_acc l []) as [_ [_ H]]. apply H. constructor. Qed.

(* ---------- expansion of a Counter *)
Lemma cnt_app a b v : cnt (a ++ b) v = cnt a v + cnt b v.
Proof. apply count_occ_app. Qed.

Lemma cnt_repeat x n v : cnt (repeat x n) v = if v =? x then n else 0.
Proof.
  induction n as [|n IH]; cbn [repeat]; unfold cnt in *; cbn [count_occ].
  - now destruct (v =? x).
  - destruct (Nat.eq_dec x v) as [->|Hne].
    + rewrite Nat.eqb_refl in *. lia.
    + destruct (v =? x) eqn:E; [apply Nat.eqb_eq in E; congruence | exact IH].
Qed.

Lemma length_expand f : length (expand f) = total f.
Proof.
  induction f as [|[k c] f IH]; [reflexivity|].
  cbn [expand flat_map total fold_right fst snd]. rewrite app_length, repeat_length.
  fold (expand f). fold (total f). lia.
Qed.

Lemma cnt_expand f v : NoDup (keys f) -> cnt (expand f) v = lookup v f.
Proof.
  induction f as [|[k c] f IH]; intros Hnd; [reflexivity|].
  cbn [expand flat_map fst snd lookup]. fold (expand f). rewrite cnt_app, cnt_repeat.
  cbn [keys map fst] in Hnd. inversion Hnd as [|? ? Hnotin Hnd']; subst.
  destruct (v =? k) eqn:E.
  - apply Nat.eqb_eq in E. subst v.
    rewrite IH by assumption.
    assert (lookup k f = 0) as ->; [|lia].
    clear -Hnotin. induction f as [|[k' c'] f IH]; [reflexivity|].
    cbn [lookup]. cbn [keys map fst] in Hnotin.
    destruct (k =? k') eqn:E; [apply Nat.eqb_eq in E; subst; exfalso; apply Hnotin; now left|].
    apply IH. intros H. apply Hnotin. now right.
  - rewrite IH by assumption. lia.
Qed.

Lemma map_repeat' {A B} (g : A -> B) x n : map g (repeat x n) = repeat (g x) n.
Proof. induction n as [|n IH]; cbn [repeat map]; [reflexivity | now rewrite IH]. Qed.

(* projecting a Counter = counting the projected expansion (the rfreqs loop) *)
Lemma lookup_reg_freq_acc k cols f : forall acc u,
  lookup u (fold_left (fun acc p => bump (to_dec (take_cols cols (to_bin k (fst p)))) (snd p) acc) f acc)
  = lookup u acc + cnt (map (fun s => to_dec (take_cols cols (to_bin k s))) (expand f)) u.
Proof.
  induction f as [|[v c] f IH]; intros acc u; cbn [fold_left expand flat_map map fst snd].
  - cbn. lia.
  - rewrite IH, lookup_bump. fold (expand f). rewrite map_app, cnt_app.
    rewrite map_repeat', cnt_repeat. lia.
Qed.

Lemma lookup_reg_freq k cols f u :
  lookup u (reg_freq k cols f) = cnt (map (fun s => to_dec (take_cols cols (to_bin k s))) (expand f)) u.
Proof. unfold reg_freq. now rewrite lookup_reg_freq_acc. Qed.

Lemma total_reg_freq k cols f : total (reg_freq k cols f) = total f.
Proof.
  unfold reg_freq.
  assert (H : forall acc, total (fold_left (fun acc p => bump (to_dec (take_cols cols (to_bin k (fst p)))) (snd p) acc) f acc)
                          = total acc + total f).
  { induction f as [|[v c] f IH]; intros acc; cbn [fold_left]; [cbn; lia|].
    rewrite IH, total_bump. cbn [total fold_right fst snd]. fold (total f). lia. }
  rewrite H. reflexivity.
Qed.

Lemma nodup_reg_freq k cols f : NoDup (keys (reg_freq k cols f)).
Proof.
  unfold reg_freq.
  assert (forall acc, NoDup (keys acc) ->
    NoDup (keys (fold_left (fun acc p => bump (to_dec (take_cols cols (to_bin k (fst p)))) (snd p) acc) f acc))) as H.
  { induction f as [|p f IH]; intros acc Hacc; cbn [fold_left]; [assumption|].
    apply IH. now apply nodup_keys_bump. }
  apply H. constructor.
Qed.

(* ---------- registers *)
Lemma qmap_get_from_spec Q : forall i q cur, NoDup Q ->
  qmap_get_from i Q q cur = if existsb (Nat.eqb q) Q then Some (i + index_of q Q) else cur.
Proof.
  induction Q as [|x Q IH]; intros i q cur Hnd; cbn [qmap_get_from existsb index_of]; [reflexivity|].
  inversion Hnd as [|? ? Hnotin Hnd']; subst.
  rewrite IH by assumption.
  destruct (x =? q) eqn:E.
  - apply Nat.eqb_eq in E. subst x. rewrite Nat.eqb_refl. cbn [orb].
    destruct (existsb (Nat.eqb q) Q) eqn:E2.
    + apply existsb_eqb_In in E2. contradiction.
    + f_equal. lia.
  - rewrite Nat.eqb_sym in E. rewrite E. cbn [orb].
    destruct (existsb (Nat.eqb q) Q); [f_equal; lia | reflexivity].
Qed.

Lemma qmap_get_index_of Q q : NoDup Q -> In q Q -> qmap_get Q q = index_of q Q.
Proof.
  intros Hnd Hin. unfold qmap_get. rewrite qmap_get_from_spec by assumption.
  apply existsb_eqb_In in Hin. now rewrite Hin.
Qed.

Lemma nth_index_of_map {A} (sigma : nat -> A) Q q d :
  In q Q -> nth (index_of q Q) (map sigma Q) d = sigma q.
Proof.
  induction Q as [|x Q IH]; intros Hin; [destruct Hin|].
  cbn [index_of map]. destruct (x =? q) eqn:E.
  - apply Nat.eqb_eq in E. now subst.
  - cbn [nth]. apply IH. destruct Hin as [->|H]; [rewrite Nat.eqb_refl in E; discriminate | assumption].
Qed.

(* register data = the outcome read along the register's own qubit list *)
Lemma register_view Q reg (sigma : nat -> bool) :
  NoDup Q -> incl reg Q -> take_cols (reg_cols Q reg) (map sigma Q) = map sigma reg.
Proof.
  intros Hnd Hincl. unfold take_cols, reg_cols. rewrite map_map.
  apply map_ext_in. intros q Hq.
  rewrite qmap_get_index_of by auto. apply nth_index_of_map. auto.
Qed.

Lemma reg_cols_index_of Q reg :
  NoDup Q -> incl reg Q -> reg_cols Q reg = map (fun q => index_of q Q) reg.
Proof.
  intros Hnd Hincl. unfold reg_cols. apply map_ext_in. intros q Hq.
  apply qmap_get_index_of; auto.
Qed.
