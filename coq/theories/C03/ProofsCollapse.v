(* C03/ProofsCollapse.v : the model of collapse_state (transpose, select the block of the shot,
   re-insert the measured axes one by one with _append_zeros) is the projection onto
   "qubit qs[j] has the value of bit j of the shot", for every strictly ascending in-range qubit
   list (what M.apply passes: sorted(target_qubits)). *)
From Coq Require Import List Bool Arith ZArith Lia Permutation.
From QV Require Import Base.Mat Base.Zi C03.ModelSamples C03.ModelProbs C03.ModelCollapse
     C03.ProofsSamples C03.ProofsProbs.
Import ListNotations.

(* strictly ascending, all elements >= lo *)
Fixpoint asc (lo : nat) (l : list nat) : bool :=
  match l with [] => true | x :: l' => (lo <=? x) && asc (S x) l' end.

Lemma asc_ge lo l : asc lo l = true -> forall x, In x l -> lo <= x.
Proof.
  revert lo. induction l as [|y l IH]; intros lo H x Hin; [destruct Hin|].
  cbn [asc] in H. apply andb_true_iff in H. destruct H as [H1 H2]. apply Nat.leb_le in H1.
  destruct Hin as [<-|Hin]; [exact H1|]. specialize (IH _ H2 x Hin). lia.
Qed.

Lemma asc_bound N l : forall lo, asc lo l = true -> (forall x, In x l -> x < N) -> l <> [] -> lo + length l <= N.
Proof.
  induction l as [|y l IH]; intros lo H Hlt Hne; [congruence|].
  cbn [asc] in H. apply andb_true_iff in H. destruct H as [H1 H2]. apply Nat.leb_le in H1.
  cbn [length]. destruct l as [|z l'].
  - cbn [length]. specialize (Hlt y (or_introl eq_refl)). lia.
  - assert (S y + length (z :: l') <= N).
    { apply IH; [exact H2 | | discriminate]. intros x Hx. apply Hlt. now right. }
    lia.
Qed.

Lemma asc_weaken lo lo' l : lo' <= lo -> asc lo l = true -> asc lo' l = true.
Proof.
  destruct l as [|x l]; [reflexivity|]. cbn [asc]. intros Hle H.
  apply andb_true_iff in H. destruct H as [H1 H2]. apply Nat.leb_le in H1.
  apply andb_true_iff. split; [apply Nat.leb_le; lia | exact H2].
Qed.

Lemma asc_NoDup lo l : asc lo l = true -> NoDup l.
Proof.
  revert lo. induction l as [|x l IH]; intros lo H; [constructor|].
  cbn [asc] in H. apply andb_true_iff in H. destruct H as [_ H2]. constructor; [|eauto].
  intros Hin. pose proof (asc_ge _ _ H2 x Hin). lia.
Qed.

(* ---------- selecting the positions that satisfy a predicate *)
Fixpoint psel (p : nat -> bool) (a : nat) (x : bits) : bits :=
  match x with
  | [] => []
  | b :: x' => if p a then b :: psel p (S a) x' else psel p (S a) x'
  end.

Lemma psel_ext p p' x : forall a, (forall i, a <= i -> p i = p' i) -> psel p a x = psel p' a x.
Proof.
  induction x as [|b x IH]; intros a H; [reflexivity|]. cbn [psel].
  rewrite (H a) by lia. rewrite (IH (S a)) by (intros i Hi; apply H; lia). reflexivity.
Qed.

(* positions below every excluded index are kept *)
Lemma psel_prefix p x : forall a j, (forall i, a <= i < a + j -> p i = true) -> j <= length x ->
  psel p a x = firstn j x ++ psel p (a + j) (skipn j x).
Proof.
  induction x as [|b x IH]; intros a j H Hj; cbn [length] in Hj.
  - assert (j = 0) as -> by lia. now rewrite Nat.add_0_r.
  - destruct j as [|j]; [now rewrite Nat.add_0_r|].
    cbn [psel firstn skipn]. rewrite (H a) by lia.
    rewrite (IH (S a) j) by (try lia; intros i Hi; apply H; lia).
    now replace (a + S j) with (S a + j) by lia.
Qed.

Lemma sel_filter_seq p x : forall a,
  map (fun i => nth (i - a) x false) (filter p (seq a (length x))) = psel p a x.
Proof.
  induction x as [|b x IH]; intros a; [reflexivity|].
  cbn [length seq filter psel]. destruct (p a).
  - cbn [map]. rewrite Nat.sub_diag. cbn [nth]. f_equal.
    rewrite <- IH. apply map_ext_in. intros i Hi. apply filter_In in Hi. destruct Hi as [Hi _].
    apply in_seq in Hi. replace (i - a) with (S (i - S a)) by lia. reflexivity.
  - rewrite <- IH. apply map_ext_in. intros i Hi. apply filter_In in Hi. destruct Hi as [Hi _].
    apply in_seq in Hi. replace (i - a) with (S (i - S a)) by lia. reflexivity.
Qed.

Lemma sel_filter_seq0 p n x : length x = n -> sel (filter p (seq 0 n)) x = psel p 0 x.
Proof.
  intros <-. rewrite <- sel_filter_seq. unfold sel. apply map_ext. intros i. now rewrite Nat.sub_0_r.
Qed.

Definition notin (qs : list nat) (i : nat) : bool := negb (mem i qs).

Lemma remove_psel q qs y :
  (forall x, In x qs -> q < x) -> q < length y ->
  nth q (psel (notin qs) 0 y) false = nth q y false /\
  remove_nth q (psel (notin qs) 0 y) = psel (notin (q :: qs)) 0 y.
Proof.
  intros Hgt Hq.
  assert (Hp : forall i, 0 <= i < 0 + S q -> notin qs i = true).
  { intros i Hi. unfold notin. destruct (mem i qs) eqn:E; [|reflexivity].
    apply mem_In in E. specialize (Hgt i E). lia. }
  split.
  - rewrite (psel_prefix _ y 0 (S q) Hp) by lia.
    rewrite app_nth1 by (rewrite firstn_length; lia).
    rewrite <- (firstn_skipn (S q) y) at 2. rewrite app_nth1 by (rewrite firstn_length; lia). reflexivity.
  - assert (Hp' : forall i, 0 <= i < 0 + q -> notin qs i = true) by (intros i Hi; apply Hp; lia).
    assert (Hp2 : forall i, 0 <= i < 0 + q -> notin (q :: qs) i = true).
    { intros i Hi. unfold notin, mem. cbn [existsb].
      assert (i =? q = false) as -> by (apply Nat.eqb_neq; lia). cbn [orb]. apply Hp'. lia. }
    rewrite (psel_prefix _ y 0 q Hp') by lia. rewrite (psel_prefix _ y 0 q Hp2) by lia.
    cbn [Nat.add].
    destruct (skipn q y) as [|b rest] eqn:Es.
    { exfalso. assert (length (skipn q y) = length y - q) by apply skipn_length. rewrite Es in H. cbn in H. lia. }
    cbn [psel].
    assert (notin qs q = true) as ->.
    { unfold notin. destruct (mem q qs) eqn:E; [|reflexivity]. apply mem_In in E. specialize (Hgt q E). lia. }
    assert (notin (q :: qs) q = false) as ->.
    { unfold notin, mem. cbn [existsb]. now rewrite Nat.eqb_refl. }
    unfold remove_nth.
    assert (Hl : length (firstn q y) = q) by (rewrite firstn_length; lia).
    rewrite firstn_app, Hl, Nat.sub_diag, firstn_O, app_nil_r.
    rewrite firstn_all2 by lia.
    rewrite skipn_app, Hl. replace (S q - q) with 1 by lia.
    rewrite (skipn_all2 (n := S q) (firstn q y)) by lia. cbn [skipn app]. f_equal.
    apply psel_ext. intros i Hi. unfold notin, mem. cbn [existsb].
    assert (i =? q = false) as -> by (apply Nat.eqb_neq; lia). reflexivity.
Qed.

(* ---------- _append_zeros on an ascending qubit list *)
Lemma append_zeros_asc qs : forall rs lo m (sub : @tens Zi),
  asc lo qs = true -> length rs = length qs -> (forall q, In q qs -> q < m + length qs) ->
  exists T, append_zeros qs rs (Some (m, sub)) = Some (m + length qs, T) /\
            forall y, length y = m + length qs ->
              T y = if beqb (sel qs y) rs then sub (psel (notin qs) 0 y) else zi0.
Proof.
  induction qs as [|q qs IH]; intros rs lo m sub Hasc Hlen Hlt.
  - destruct rs; [|discriminate]. exists sub. split.
    + unfold append_zeros. cbn [combine fold_left length]. now rewrite Nat.add_0_r.
    + intros y Hy. cbn [sel map beqb]. f_equal.
      clear. generalize 0. induction y as [|b y IHy]; intros a; [reflexivity|].
      cbn [psel notin mem existsb negb]. now rewrite <- IHy.
  - destruct rs as [|r rs]; [discriminate|]. cbn [length] in *.
    pose proof Hasc as Hasc0.
    cbn [asc] in Hasc. apply andb_true_iff in Hasc. destruct Hasc as [Hlo Hasc].
    assert (Hq : q <= m).
    { pose proof (asc_bound (m + S (length qs)) (q :: qs) lo Hasc0) as Hb.
      cbn [length] in Hb. destruct qs as [|q' qs'].
      - specialize (Hlt q (or_introl eq_refl)). cbn [length] in Hlt. lia.
      - pose proof (asc_bound (m + S (length (q' :: qs'))) (q' :: qs') (S q) Hasc) as Hb'.
        assert (S q + length (q' :: qs') <= m + S (length (q' :: qs'))).
        { apply Hb'; [|discriminate]. intros x Hx. apply Hlt. now right. }
        lia. }
    set (t1 := fun y : bits => if Bool.eqb (nth q y false) r then sub (remove_nth q y) else zi0).
    assert (E1 : append_zeros (q :: qs) (r :: rs) (Some (m, sub)) = append_zeros qs rs (Some (S m, t1))).
    { unfold append_zeros. cbn [combine fold_left fst snd]. unfold append_zero at 2.
      assert (q <=? m = true) as -> by (apply Nat.leb_le; exact Hq). reflexivity. }
    rewrite E1.
    destruct (IH rs (S q) (S m) t1 Hasc) as [T [HT1 HT2]].
    + lia.
    + intros x Hx. specialize (Hlt x (or_intror Hx)). lia.
    + exists T. split.
      * transitivity (Some (S m + length qs, T)); [exact HT1 | f_equal; f_equal; lia].
      * intros y Hy. rewrite HT2 by lia.
        assert (Hgt : forall x, In x qs -> q < x).
        { intros x Hx. pose proof (asc_ge _ _ Hasc x Hx). lia. }
        destruct (remove_psel q qs y Hgt) as [R1 R2]; [lia|].
        cbn [sel map beqb]. fold (sel qs y). unfold t1. rewrite R1, R2.
        destruct (Bool.eqb (nth q y false) r), (beqb (sel qs y) rs); reflexivity.
Qed.

Lemma NoDup_app_intro {A} (l l' : list A) :
  NoDup l -> NoDup l' -> (forall x, In x l -> In x l' -> False) -> NoDup (l ++ l').
Proof.
  induction l as [|x l IH]; intros H1 H2 H3; cbn [app]; [assumption|].
  inversion H1 as [|? ? Hx Hl]; subst. constructor.
  - rewrite in_app_iff. intros [H|H]; [contradiction | apply (H3 x); [now left | assumption]].
  - apply IH; [assumption | assumption |]. intros y Hy. apply H3. now right.
Qed.

(* ---------- un-transposing: an index list that enumerates all axes *)
Lemma untranspose order N y :
  NoDup order -> length order = N -> (forall a, a < N -> In a order) -> length y = N ->
  map (fun a => nth (index_of a order) (sel order y) false) (seq 0 (length order)) = y.
Proof.
  intros Hnd Hlen Hall Hy. rewrite Hlen.
  apply (nth_ext _ _ false false).
  - now rewrite map_length, seq_length.
  - intros i Hi. rewrite map_length, seq_length in Hi.
    rewrite (nth_map_lt _ _ _ 0) by (rewrite seq_length; exact Hi).
    rewrite seq_nth by exact Hi. cbn [Nat.add]. unfold sel.
    apply (nth_index_of_map (fun q => nth q y false)). now apply Hall.
Qed.

Section Collapse.
  Variables (n : nat) (qs : list nat).
  Hypothesis Hasc : asc 0 qs = true.
  Hypothesis Hlt : forall q, In q qs -> q < n.

  Let k := length qs.

  Lemma un_length : length (unmeasured n qs) = n - k.
  Proof.
    pose proof (filter_length_compl (fun i => mem i qs) (seq 0 n)) as H. rewrite seq_length in H.
    pose proof (msort_length n qs (asc_NoDup _ _ Hasc) Hlt) as H2.
    unfold unmeasured. fold k in H2. lia.
  Qed.

  Lemma k_le_n : k <= n.
  Proof.
    pose proof (filter_length_compl (fun i => mem i qs) (seq 0 n)) as H. rewrite seq_length in H.
    pose proof (msort_length n qs (asc_NoDup _ _ Hasc) Hlt) as H2. fold k in H2. lia.
  Qed.

  Lemma order_ok :
    NoDup (qs ++ unmeasured n qs) /\ length (qs ++ unmeasured n qs) = n /\
    (forall a, a < n -> In a (qs ++ unmeasured n qs)).
  Proof.
    split; [|split].
    - apply NoDup_app_intro.
      + exact (asc_NoDup _ _ Hasc).
      + apply NoDup_filter, seq_NoDup.
      + intros x Hx Hu. apply filter_In in Hu. destruct Hu as [_ Hu].
        apply mem_In in Hx. now rewrite Hx in Hu.
    - rewrite app_length, un_length. pose proof k_le_n. fold k. lia.
    - intros a Ha. apply in_or_app. destruct (mem a qs) eqn:E.
      + left. now apply mem_In.
      + right. apply filter_In. split; [apply in_seq; lia | now rewrite E].
  Qed.

  Theorem collapse_state_sorted shot psi :
    collapse_state n qs shot psi = Some (project n qs (to_bin k shot) psi).
  Proof.
    unfold collapse_state. fold k.
    destruct (append_zeros_asc qs (to_bin k shot) 0 (n - k) (collapse_sub n qs shot psi) Hasc) as [T [HT1 HT2]].
    - now rewrite to_bin_length.
    - intros q Hq. pose proof (Hlt q Hq). pose proof k_le_n. fold k. lia.
    - rewrite HT1. pose proof k_le_n as Hk. fold k.
      assert (n - k + k =? n = true) as -> by (apply Nat.eqb_eq; lia).
      f_equal. unfold project. apply map_ext_in. intros y Hy. apply allbits_length in Hy.
      rewrite HT2 by (fold k; lia).
      destruct (beqb (sel qs y) (to_bin k shot)) eqn:E; [|reflexivity].
      apply beqb_eq in E. unfold collapse_sub, np_transpose, reshape_state. fold k.
      rewrite <- E.
      replace (psel (notin qs) 0 y) with (sel (unmeasured n qs) y)
        by (unfold unmeasured; now apply sel_filter_seq0).
      assert (Esel : sel qs y ++ sel (unmeasured n qs) y = sel (qs ++ unmeasured n qs) y)
        by (unfold sel; now rewrite map_app).
      rewrite Esel. destruct order_ok as [O1 [O2 O3]].
      rewrite (untranspose _ n y O1 O2 O3 Hy). reflexivity.
  Qed.
End Collapse.

(* ---------- summing over the block of a shot = summing over the states that project onto it *)
Fixpoint pmerge (p : nat -> bool) (a n : nat) (bin beta : bits) : bits :=
  match n with
  | O => []
  | S n' => if p a then hd false bin :: pmerge p (S a) n' (tl bin) beta
            else hd false beta :: pmerge p (S a) n' bin (tl beta)
  end.

Definition cntp (p : nat -> bool) (a n : nat) : nat := length (filter p (seq a n)).

Lemma cntp_S p a n : cntp p a (S n) = (if p a then 1 else 0) + cntp p (S a) n.
Proof. unfold cntp. cbn [seq filter]. destruct (p a); reflexivity. Qed.

Lemma cntp_le p n : forall a, cntp p a n <= n.
Proof. induction n as [|n IH]; intros a; [cbn; lia|]. rewrite cntp_S. specialize (IH (S a)). destruct (p a); lia. Qed.

Lemma filter_map_cons (c : bool) (g : bits -> bool) l :
  filter (fun x => g x) (map (cons c) l) = map (cons c) (filter (fun x => g (c :: x)) l).
Proof.
  induction l as [|x l IH]; [reflexivity|]. cbn [map filter]. destruct (g (c :: x)); cbn [map]; now rewrite IH.
Qed.

Lemma filter_false {A} (l : list A) : filter (fun _ => false) l = [].
Proof. induction l; auto. Qed.

Lemma filter_merge p n : forall a bin, length bin = cntp p a n ->
  filter (fun x => beqb (psel p a x) bin) (allbits n) = map (pmerge p a n bin) (allbits (n - length bin)).
Proof.
  induction n as [|n IH]; intros a bin Hlen.
  - cbn in Hlen. destruct bin; [|discriminate]. reflexivity.
  - rewrite cntp_S in Hlen. cbn [allbits]. rewrite filter_app, !filter_map_cons.
    destruct (p a) eqn:Hp.
    + destruct bin as [|b0 bin]; [discriminate|]. cbn [length] in *.
      replace (S n - S (length bin)) with (n - length bin) by lia.
      assert (E : forall c, filter (fun x => beqb (psel p a (c :: x)) (b0 :: bin)) (allbits n)
                            = if Bool.eqb c b0 then map (pmerge p (S a) n bin) (allbits (n - length bin)) else []).
      { intros c. cbn [psel]. rewrite Hp. cbn [beqb].
        destruct (Bool.eqb c b0); cbn [andb]; [apply IH; lia | apply filter_false]. }
      rewrite !E.
      assert (Em : forall beta, pmerge p a (S n) (b0 :: bin) beta = b0 :: pmerge p (S a) n bin beta).
      { intros beta. cbn [pmerge]. rewrite Hp. reflexivity. }
      rewrite (map_ext _ _ Em).
      destruct b0; cbn [Bool.eqb map app]; rewrite ?app_nil_r, map_map; reflexivity.
    + cbn [Nat.add] in Hlen.
      pose proof (cntp_le p n (S a)) as Hle.
      replace (S n - length bin) with (S (n - length bin)) by lia. cbn [allbits].
      assert (E : forall c, filter (fun x => beqb (psel p a (c :: x)) bin) (allbits n)
                            = map (pmerge p (S a) n bin) (allbits (n - length bin))).
      { intros c. cbn [psel]. rewrite Hp. now apply IH. }
      rewrite !E, map_app, !map_map. f_equal; apply map_ext; intros beta; cbn [pmerge]; rewrite Hp; reflexivity.
Qed.

Lemma pmerge_spec p n : forall a bin beta, length bin = cntp p a n -> length beta = n - cntp p a n ->
  length (pmerge p a n bin beta) = n /\
  psel p a (pmerge p a n bin beta) = bin /\
  psel (fun i => negb (p i)) a (pmerge p a n bin beta) = beta.
Proof.
  induction n as [|n IH]; intros a bin beta Hb Hbe.
  - cbn in Hb, Hbe. destruct bin, beta; try discriminate. repeat split.
  - rewrite cntp_S in Hb, Hbe. pose proof (cntp_le p n (S a)) as Hle.
    cbn [pmerge psel]. destruct (p a) eqn:Hp.
    + destruct bin as [|b0 bin]; [discriminate|]. cbn [length hd tl] in *.
      destruct (IH (S a) bin beta) as [H1 [H2 H3]]; [lia | lia |].
      cbn [psel length]. rewrite Hp. cbn [negb]. rewrite H1, H2, H3. repeat split.
    + destruct beta as [|c0 beta]; [cbn [length] in Hbe; lia|]. cbn [length hd tl] in *.
      destruct (IH (S a) bin beta) as [H1 [H2 H3]]; [lia | lia |].
      cbn [psel length]. rewrite Hp. cbn [negb]. rewrite H1, H2, H3. repeat split.
Qed.

Lemma filter_none {A} (p : A -> bool) l : (forall x, In x l -> p x = false) -> filter p l = [].
Proof.
  induction l as [|x l IH]; intros H; [reflexivity|]. cbn [filter].
  rewrite (H x) by now left. apply IH. intros y Hy. apply H. now right.
Qed.

(* an ascending list is the increasing enumeration of its elements *)
Lemma asc_filter m : forall a qs, asc a qs = true -> (forall q, In q qs -> q < a + m) ->
  filter (fun i => mem i qs) (seq a m) = qs.
Proof.
  induction m as [|m IH]; intros a qs Hasc Hlt.
  - destruct qs as [|q qs]; [reflexivity|]. exfalso.
    pose proof (asc_ge _ _ Hasc q (or_introl eq_refl)). specialize (Hlt q (or_introl eq_refl)). lia.
  - cbn [seq filter]. destruct qs as [|q qs].
    + cbn [mem existsb]. apply filter_none. reflexivity.
    + pose proof Hasc as Hasc0. cbn [asc] in Hasc. apply andb_true_iff in Hasc. destruct Hasc as [Hlo Hasc].
      apply Nat.leb_le in Hlo.
      destruct (Nat.eq_dec a q) as [->|Hne].
      * assert (mem q (q :: qs) = true) as -> by (apply mem_In; now left).
        f_equal. transitivity (filter (fun i => mem i qs) (seq (S q) m)); [|apply IH; [exact Hasc|]].
        -- apply filter_ext_in. intros i Hi. apply in_seq in Hi. unfold mem. cbn [existsb].
           assert (i =? q = false) as -> by (apply Nat.eqb_neq; lia). reflexivity.
        -- intros x Hx. specialize (Hlt x (or_intror Hx)). lia.
      * assert (mem a (q :: qs) = false) as ->.
        { destruct (mem a (q :: qs)) eqn:E; [|reflexivity]. apply mem_In in E.
          pose proof (asc_ge _ _ Hasc0 a E). destruct E as [E|E]; [lia|].
          pose proof (asc_ge _ _ Hasc a E). lia. }
        apply IH.
        -- cbn [asc]. apply andb_true_iff. split; [apply Nat.leb_le; lia | exact Hasc].
        -- intros x Hx. specialize (Hlt x Hx). lia.
Qed.

Section CollapseNorm.
  Variables (n : nat) (qs : list nat).
  Hypothesis Hasc : asc 0 qs = true.
  Hypothesis Hlt : forall q, In q qs -> q < n.

  Let k := length qs.
  Let p := fun i => mem i qs.

  Lemma cntp_k : cntp p 0 n = k.
  Proof. unfold cntp, p. now rewrite asc_filter. Qed.

  Lemma sel_qs_psel x : length x = n -> sel qs x = psel p 0 x.
  Proof. intros Hx. rewrite <- (sel_filter_seq0 p n x Hx). unfold p. now rewrite asc_filter. Qed.

  Lemma sel_un_psel x : length x = n -> sel (unmeasured n qs) x = psel (fun i => negb (p i)) 0 x.
  Proof. intros Hx. unfold unmeasured. now apply sel_filter_seq0. Qed.

  (* the entry of the selected block at beta is the amplitude at the merged index *)
  Lemma collapse_sub_merge shot psi beta : length beta = n - k ->
    collapse_sub n qs shot psi beta = nth (idx (pmerge p 0 n (to_bin k shot) beta)) psi zi0.
  Proof.
    intros Hbe. unfold collapse_sub, np_transpose, reshape_state. fold k.
    destruct (pmerge_spec p n 0 (to_bin k shot) beta) as [M1 [M2 M3]].
    { now rewrite to_bin_length, cntp_k. }
    { now rewrite cntp_k. }
    set (y := pmerge p 0 n (to_bin k shot) beta) in *.
    assert (Esel : to_bin k shot ++ beta = sel (qs ++ unmeasured n qs) y).
    { unfold sel. rewrite map_app. fold (sel qs y). fold (sel (unmeasured n qs) y).
      rewrite (sel_qs_psel y M1), (sel_un_psel y M1), M2, M3. reflexivity. }
    rewrite Esel. destruct (order_ok n qs Hasc Hlt) as [O1 [O2 O3]].
    rewrite (untranspose _ n y O1 O2 O3 M1). reflexivity.
  Qed.

  Theorem collapse_norm2_born shot psi :
    collapse_norm2 n qs shot psi = born n qs (map zi_norm2 psi) (to_bin k shot).
  Proof.
    unfold collapse_norm2, born. fold k. f_equal.
    assert (Ef : filter (fun x => beqb (sel qs x) (to_bin k shot)) (allbits n)
                 = filter (fun x => beqb (psel p 0 x) (to_bin k shot)) (allbits n)).
    { apply filter_ext_in. intros x Hx. apply allbits_length in Hx. now rewrite sel_qs_psel. }
    rewrite Ef, filter_merge by (now rewrite to_bin_length, cntp_k).
    rewrite to_bin_length, map_map. apply map_ext_in. intros beta Hb. apply allbits_length in Hb.
    rewrite collapse_sub_merge by exact Hb.
    change 0%Z with (zi_norm2 zi0). now rewrite map_nth.
  Qed.
End CollapseNorm.

(* ---------- sorting the gate's qubits *)
Lemma insert_asc q : forall l lo, asc lo l = true -> lo <= q -> ~ In q l -> asc lo (insert_sorted q l) = true.
Proof.
  induction l as [|x l IH]; intros lo Hasc Hlo Hnin; cbn [insert_sorted asc].
  - apply andb_true_iff. split; [now apply Nat.leb_le | reflexivity].
  - cbn [asc] in Hasc. apply andb_true_iff in Hasc. destruct Hasc as [H1 H2]. apply Nat.leb_le in H1.
    destruct (q <=? x) eqn:E.
    + apply Nat.leb_le in E. assert (q <> x) by (intros ->; apply Hnin; now left).
      cbn [asc]. rewrite (proj2 (Nat.leb_le lo q) Hlo). cbn [andb].
      rewrite (proj2 (Nat.leb_le (S q) x)) by lia. exact H2.
    + apply Nat.leb_gt in E. cbn [asc]. rewrite (proj2 (Nat.leb_le lo x) H1). cbn [andb].
      apply IH; [exact H2 | lia | intros H; apply Hnin; now right].
Qed.

Lemma insert_In q l x : In x (insert_sorted q l) <-> x = q \/ In x l.
Proof.
  induction l as [|y l IH]; cbn [insert_sorted]; [cbn; intuition|].
  destruct (q <=? y); cbn [In]; [intuition|]. rewrite IH. intuition.
Qed.

Lemma insert_length q l : length (insert_sorted q l) = S (length l).
Proof. induction l as [|y l IH]; cbn [insert_sorted]; [reflexivity|]. destruct (q <=? y); cbn [length]; auto. Qed.

Lemma sort_nat_spec l : NoDup l ->
  asc 0 (sort_nat l) = true /\ (forall x, In x (sort_nat l) <-> In x l) /\ length (sort_nat l) = length l.
Proof.
  induction 1 as [|x l Hx Hnd IH]; [cbn; intuition|].
  destruct IH as [I1 [I2 I3]]. cbn [sort_nat fold_right]. fold (sort_nat l). split; [|split].
  - apply insert_asc; [exact I1 | lia | now rewrite I2].
  - intros y. rewrite insert_In, I2. cbn [In]. intuition.
  - now rewrite insert_length, I3.
Qed.

Lemma sort_nat_asc_id l : forall lo, asc lo l = true -> sort_nat l = l.
Proof.
  induction l as [|x l IH]; intros lo H; [reflexivity|].
  cbn [asc] in H. apply andb_true_iff in H. destruct H as [_ H].
  cbn [sort_nat fold_right]. fold (sort_nat l). rewrite (IH _ H).
  destruct l as [|y l']; [reflexivity|]. cbn [insert_sorted].
  cbn [asc] in H. apply andb_true_iff in H. destruct H as [H _]. apply Nat.leb_le in H.
  now rewrite (proj2 (Nat.leb_le x y)) by lia.
Qed.

(* ---------- M.apply: the bits recorded in the gate's own qubit order *)
Lemma reorder_select qs tq x b :
  NoDup qs -> (forall q, In q qs <-> In q tq) -> length b = length qs ->
  beqb (sel qs x) b = beqb (sel tq x) (reorder_bits qs tq b).
Proof.
  intros Hnd Hin Hb. apply beqb_iff. unfold reorder_bits. split; intros E.
  - unfold sel. apply map_ext_in. intros q Hq. rewrite <- E. unfold sel.
    symmetry. apply (nth_index_of_map (fun q0 => nth q0 x false)). now apply Hin.
  - apply (nth_ext _ _ false false).
    + unfold sel. now rewrite map_length.
    + intros a Ha. unfold sel in Ha. rewrite map_length in Ha.
      unfold sel at 1. rewrite (nth_map_lt _ _ _ 0) by exact Ha.
      assert (Hq : In (nth a qs 0) tq) by (apply Hin; now apply nth_In).
      apply (In_nth _ _ 0) in Hq. destruct Hq as [j [Hj Ej]].
      assert (E2 : nth j (sel tq x) false = nth j (map (fun q => nth (index_of q qs) b false) tq) false) by now rewrite E.
      unfold sel in E2. rewrite !(nth_map_lt _ _ _ 0) in E2 by exact Hj.
      rewrite Ej in E2. rewrite E2. now rewrite index_of_nth.
Qed.

(* M.apply: the state is the projection onto the recorded outcome, the recorded bits being read
   in the order of the gate's own qubits (any order); the squared norm is its Born probability *)
Theorem m_apply_correct n tq shot psi :
  NoDup tq -> (forall q, In q tq -> q < n) ->
  collapsed (m_apply n tq shot psi) = Some (project n tq (recorded (m_apply n tq shot psi)) psi) /\
  cnorm2 (m_apply n tq shot psi) = born n tq (map zi_norm2 psi) (recorded (m_apply n tq shot psi)).
Proof.
  intros Hnd Hlt. destruct (sort_nat_spec tq Hnd) as [S1 [S2 S3]].
  assert (Hsel : forall x, beqb (sel (sort_nat tq) x) (to_bin (length (sort_nat tq)) shot)
                           = beqb (sel tq x) (recorded (m_apply n tq shot psi))).
  { intros x. unfold m_apply. cbn [recorded].
    apply reorder_select; [exact (asc_NoDup _ _ S1) | exact S2 | apply to_bin_length]. }
  split.
  - unfold m_apply at 1. cbn [collapsed].
    rewrite collapse_state_sorted by (try exact S1; intros q Hq; apply Hlt; now apply S2).
    f_equal. unfold project. apply map_ext. intros x. now rewrite Hsel.
  - unfold m_apply at 1. cbn [cnorm2].
    rewrite collapse_norm2_born by (try exact S1; intros q Hq; apply Hlt; now apply S2).
    unfold born. f_equal. f_equal. apply filter_ext. exact Hsel.
Qed.

Lemma m_apply_recorded_order n tq shot psi :
  NoDup tq -> (forall q, In q tq -> q < n) ->
  collapsed (m_apply n tq shot psi) = Some (project n tq (recorded (m_apply n tq shot psi)) psi).
Proof. intros H1 H2. exact (proj1 (m_apply_correct n tq shot psi H1 H2)). Qed.

(* a gate conditioned on result.symbols[i] sees the value that qubit target_qubits[i] has on the
   whole support of the collapsed state *)
Theorem symbols_gate_order n tq shot psi i x :
  i < length tq ->
  beqb (sel tq x) (recorded (m_apply n tq shot psi)) = true ->
  nth (nth i tq 0) x false = symbol_outcome (m_apply n tq shot psi) i.
Proof.
  intros Hi E. apply beqb_eq in E. unfold symbol_outcome. rewrite <- E.
  unfold sel. now rewrite (nth_map_lt _ _ _ 0).
Qed.
