(* C03/ProofsCollapse.v : the model of collapse_state (transpose, select the block of the shot,
   re-insert the measured axes one by one with _append_zeros) is the projection onto
   "qubit qs[j] has the value of bit j of the shot", for every strictly ascending in-range qubit
   list (what M.apply passes: sorted(target_qubits)). *)
From Coq Require Import List Bool Arith ZArith Lia Permutation.
From QV Require Import Base.Mat Base.Zi C03.ModelSamples C03.ModelProbs C03.ModelCollapse
     C03.ProofsSamples C03.ProofsProbs.
Import ListNotations.

(* strictly ascending, all elements >= lo *)
Fixpoint asc (lo : nat) (l : list nat) : bool :=
  match l with [] => true | x :: l' => (lo <=? x) && asc (S x) l' end.

Lemma asc_ge lo l : asc lo l = true -> forall x, In x l -> lo <= x.
Proof.
  revert lo. induction l as [|y l IH]; intros lo H x Hin; [destruct Hin|].
  cbn [asc] in H. apply andb_true_iff in H. destruct H as [H1 H2]. apply Nat.leb_le in H1.
  destruct Hin as [<-|Hin]; [exact H1|]. specialize (IH _ H2 x Hin). lia.
Qed.

Lemma asc_bound N l : forall lo, asc lo l = true -> (forall x, In x l -> x < N) -> l <> [] -> lo + length l <= N.
Proof.
  induction l as [|y l IH]; intros lo H Hlt Hne; [congruence|].
  cbn [asc] in H. apply andb_true_iff in H. destruct H as [H1 H2]. apply Nat.leb_le in H1.
  cbn [length]. destruct l as [|z l'].
  - cbn [length]. specialize (Hlt y (or_introl eq_refl)). lia.
  - assert (S y + length (z :: l') <= N).
    { apply IH; [exact H2 | | discriminate]. intros x Hx. apply Hlt. now right. }
    lia.
Qed.

Lemma asc_weaken lo lo' l : lo' <= lo -> asc lo l = true -> asc lo' l = true.
Proof.
  destruct l as [|x l]; [reflexivity|]. cbn [asc]. intros Hle H.
  apply andb_true_iff in H. destruct H as [H1 H2]. apply Nat.leb_le in H1.
  apply andb_true_iff. split; [apply Nat.leb_le; lia | exact H2].
Qed.

Lemma asc_NoDup lo l : asc lo l = true -> NoDup l.
Proof.
  revert lo. induction l as [|x l IH]; intros lo H; [constructor|].
  cbn [asc] in H. apply andb_true_iff in H. destruct H as [_ H2]. constructor; [|eauto].
  intros Hin. pose proof (asc_ge _ _ H2 x Hin). lia.
Qed.

(* ---------- selecting the positions that satisfy a predicate *)
Fixpoint psel (p : nat -> bool) (a : nat) (x : bits) : bits :=
  match x with
  | [] => []
  | b :: x' => if p a then b :: psel p (S a) x' else psel p (S a) x'
  end.

Lemma psel_ext p p' x : forall a, (forall i, a <= i -> p i = p' i) -> psel p a x = psel p' a x.
Proof.
  induction x as [|b x IH]; intros a H; [reflexivity|]. cbn [psel].
  rewrite (H a) by lia. rewrite (IH (S a)) by (intros i Hi; apply H; lia). reflexivity.
Qed.

(* positions below every excluded index are kept *)
Lemma psel_prefix p x : forall a j, (forall i, a <= i < a + j -> p i = true) -> j <= length x ->
  psel p a x = firstn j x ++ psel p (a + j) (skipn j x).
Proof.
  induction x as [|b x IH]; intros a j H Hj; cbn [length] in Hj.
  - assert (j = 0) as -> by lia. now rewrite Nat.add_0_r.
  - destruct j as [|j]; [now rewrite Nat.add_0_r|].
    cbn [psel firstn skipn]. rewrite (H a) by lia.
    rewrite (IH (S a) j) by (try lia; intros i Hi; apply H; lia).
    now replace (a + S j) with (S a + j) by lia.
Qed.

Lemma sel_filter_seq p x : forall a,
  map (fun i => nth (i - a) x false) (filter p (seq a (length x))) = psel p a x.
Proof.
  induction x as [|b x IH]; intros a; [reflexivity|].
  cbn [length seq filter psel]. destruct (p a).
  - cbn [map]. rewrite Nat.sub_diag. cbn [nth]. f_equal.
    rewrite <- IH. apply map_ext_in. intros i Hi. apply filter_In in Hi. destruct Hi as [Hi _].
    apply in_seq in Hi. replace (i - a) with (S (i - S a)) by lia. reflexivity.
  - rewrite <- IH. apply map_ext_in. intros i Hi. apply filter_In in Hi. destruct Hi as [Hi _].
    apply in_seq in Hi. replace (i - a) with (S (i - S a)) by lia. reflexivity.
Qed.

Lemma sel_filter_seq0 p n x : length x = n -> sel (filter p (seq 0 n)) x = psel p 0 x.
Proof.
  intros <-. rewrite <- sel_filter_seq. unfold sel. apply map_ext. intros i. now rewrite Nat.sub_0_r.
Qed.

Definition notin (qs : list nat) (i : nat) : bool := negb (mem i qs).

Lemma remove_psel q qs y :
  (forall x, In x qs -> q < x) -> q < length y ->
  nth q (psel (notin qs) 0 y) false = nth q y false /\
  remove_nth q (psel (notin qs) 0 y) = psel (notin (q :: qs)) 0 y.
Proof.
  intros Hgt Hq.
  assert (Hp : forall i, 0 <= i < 0 + S q -> notin qs i = true).
  { intros i Hi. unfold notin. destruct (mem i qs) eqn:E; [|reflexivity].
    apply mem_In in E. specialize (Hgt i E). lia. }
  split.
  - rewrite (psel_prefix _ y 0 (S q) Hp) by lia.
    rewrite app_nth1 by (rewrite firstn_length; lia).
    rewrite <- (firstn_skipn (S q) y) at 2. rewrite app_nth1 by (rewrite firstn_length; lia). reflexivity.
  - assert (Hp' : forall i, 0 <= i < 0 + q -> notin qs i = true) by (intros i Hi; apply Hp; lia).
    assert (Hp2 : forall i, 0 <= i < 0 + q -> notin (q :: qs) i = true).
    { intros i Hi. unfold notin, mem. cbn [existsb].
      assert (i =? q = false) as -> by (apply Nat.eqb_neq; lia). cbn [orb]. apply Hp'. lia. }
    rewrite (psel_prefix _ y 0 q Hp') by lia. rewrite (psel_prefix _ y 0 q Hp2) by lia.
    cbn [Nat.add].
    destruct (skipn q y) as [|b rest] eqn:Es.
    { exfalso. assert (length (skipn q y) = length y - q) by apply skipn_length. rewrite Es in H. cbn in H. lia. }
    cbn [psel].
    assert (notin qs q = true) as ->.
    { unfold notin. destruct (mem q qs) eqn:E; [|reflexivity]. apply mem_In in E. specialize (Hgt q E). lia. }
    assert (notin (q :: qs) q = false) as ->.
    { unfold notin, mem. cbn [existsb]. now rewrite Nat.eqb_refl. }
    unfold remove_nth.
    assert (Hl : length (firstn q y) = q) by (rewrite firstn_length; lia).
    rewrite firstn_app, Hl, Nat.sub_diag, firstn_O, app_nil_r.
    rewrite firstn_all2 by lia.
    rewrite skipn_app, Hl. replace (S q - q) with 1 by lia.
    rewrite (skipn_all2 (n := S q) (firstn q y)) by lia. cbn [skipn app]. f_equal.
    apply psel_ext. intros i Hi. unfold notin, mem. cbn [existsb].
    assert (i =? q = false) as -> by (apply Nat.eqb_neq; lia). reflexivity.
Qed.

(* ---------- _append_zeros on an ascending qubit list *)
Lemma append_zeros_asc qs : forall rs lo m (sub : @tens Zi),
  asc lo qs = true -> length rs = length qs -> (forall q, In q qs -> q < m + length qs) ->
  exists T, append_zeros qs rs (Some (m, sub)) = Some (m + length qs, T) /\
            forall y, length y = m + length qs ->
              T y = if beqb (sel qs y) rs then sub (psel (notin qs) 0 y) else zi0.
Proof.
  induction qs as [|q qs IH]; intros rs lo m sub Hasc Hlen Hlt.
  - destruct rs; [|discriminate]. exists sub. split.
    + unfold append_zeros. cbn [combine fold_left length]. now rewrite Nat.add_0_r.
    + intros y Hy. cbn [sel map beqb]. f_equal.
      clear. generalize 0. induction y as [|b y IHy]; intros a; [reflexivity|].
      cbn [psel notin mem existsb negb]. now rewrite <- IHy.
  - destruct rs as [|r rs]; [discriminate|]. cbn [length] in *.
    pose proof Hasc as Hasc0.
    cbn [asc] in Hasc. apply andb_true_iff in Hasc. destruct Hasc as [Hlo Hasc].
    assert (Hq : q <= m).
    { pose proof (asc_bound (m + S (length qs)) (q :: qs) lo Hasc0) as Hb.
      cbn [length] in Hb. destruct qs as [|q' qs'].
      - specialize (Hlt q (or_introl eq_refl)). cbn [length] in Hlt. lia.
      - pose proof (asc_bound (m + S (length (q' :: qs'))) (q' :: qs') (S q) Hasc) as Hb'.
        assert (S q + length (q' :: qs') <= m + S (length (q' :: qs'))).
        { apply Hb'; [|discriminate]. intros x Hx. apply Hlt. now right. }
        lia. }
    unfold append_zeros. cbn [combine fold_left fst snd]. unfold append_zero at 2.
    assert (q <=? m = true) as -> by (apply Nat.leb_le; exact Hq).
    set (t1 := fun y : bits => if Bool.eqb (nth q y false) r then sub (remove_nth q y) else zi0).
    destruct (IH rs (S q) (S m) t1 Hasc) as [T [HT1 HT2]].
    + lia.
    + intros x Hx. specialize (Hlt x (or_intror Hx)). lia.
    + exists T. split.
      * unfold append_zeros in HT1. rewrite HT1. f_equal. f_equal. lia.
      * intros y Hy. rewrite HT2 by lia.
        assert (Hgt : forall x, In x qs -> q < x).
        { intros x Hx. pose proof (asc_ge _ _ Hasc x Hx). lia. }
        destruct (remove_psel q qs y Hgt) as [R1 R2]; [lia|].
        cbn [sel map beqb]. fold (sel qs y). unfold t1. rewrite R1, R2.
        destruct (Bool.eqb (nth q y false) r), (beqb (sel qs y) rs); reflexivity.
Qed.

(* ---------- un-transposing: an index list that enumerates all axes *)
Lemma untranspose order N y :
  NoDup order -> length order = N -> (forall a, a < N -> In a order) -> length y = N ->
  map (fun a => nth (index_of a order) (sel order y) false) (seq 0 (length order)) = y.
Proof.
  intros Hnd Hlen Hall Hy. rewrite Hlen.
  apply (nth_ext _ _ false false).
  - now rewrite map_length, seq_length.
  - intros i Hi. rewrite map_length, seq_length in Hi.
    rewrite (nth_map_lt _ _ _ 0) by (rewrite seq_length; exact Hi).
    rewrite seq_nth by exact Hi. cbn [Nat.add]. unfold sel.
    apply nth_index_of_map. now apply Hall.
Qed.

Section Collapse.
  Variables (n : nat) (qs : list nat).
  Hypothesis Hasc : asc 0 qs = true.
  Hypothesis Hlt : forall q, In q qs -> q < n.

  Let k := length qs.

  Lemma un_length : length (unmeasured n qs) = n - k.
  Proof.
    pose proof (filter_length_compl (fun i => mem i qs) (seq 0 n)) as H. rewrite seq_length in H.
    pose proof (msort_length n qs (asc_NoDup _ _ Hasc) Hlt) as H2.
    unfold unmeasured. fold k in H2. lia.
  Qed.

  Lemma k_le_n : k <= n.
  Proof.
    pose proof (filter_length_compl (fun i => mem i qs) (seq 0 n)) as H. rewrite seq_length in H.
    pose proof (msort_length n qs (asc_NoDup _ _ Hasc) Hlt) as H2. fold k in H2. lia.
  Qed.

  Lemma order_ok :
    NoDup (qs ++ unmeasured n qs) /\ length (qs ++ unmeasured n qs) = n /\
    (forall a, a < n -> In a (qs ++ unmeasured n qs)).
  Proof.
    split; [|split].
    - apply NoDup_app_intro.
      + exact (asc_NoDup _ _ Hasc).
      + apply NoDup_filter, seq_NoDup.
      + intros x Hx Hu. apply filter_In in Hu. destruct Hu as [_ Hu].
        apply mem_In in Hx. now rewrite Hx in Hu.
    - rewrite app_length, un_length. pose proof k_le_n. fold k. lia.
    - intros a Ha. apply in_or_app. destruct (mem a qs) eqn:E.
      + left. now apply mem_In.
      + right. apply filter_In. split; [apply in_seq; lia | now rewrite E].
  Qed.

  Theorem collapse_state_sorted shot psi :
    collapse_state n qs shot psi = Some (project n qs (to_bin k shot) psi).
  Proof.
    unfold collapse_state. fold k.
    destruct (append_zeros_asc qs (to_bin k shot) 0 (n - k) (collapse_sub n qs shot psi) Hasc) as [T [HT1 HT2]].
    - now rewrite to_bin_length.
    - intros q Hq. specialize (Hlt q Hq). pose proof k_le_n. fold k. lia.
    - rewrite HT1. pose proof k_le_n as Hk. fold k.
      assert (n - k + k =? n = true) as -> by (apply Nat.eqb_eq; lia).
      f_equal. unfold project. apply map_ext_in. intros y Hy. apply allbits_length in Hy.
      rewrite HT2 by (fold k; lia).
      destruct (beqb (sel qs y) (to_bin k shot)) eqn:E; [|reflexivity].
      apply beqb_eq in E. unfold collapse_sub, np_transpose, reshape_state. fold k.
      rewrite <- E.
      replace (psel (notin qs) 0 y) with (sel (unmeasured n qs) y)
        by (unfold unmeasured; now apply sel_filter_seq0).
      assert (Esel : sel qs y ++ sel (unmeasured n qs) y = sel (qs ++ unmeasured n qs) y)
        by (unfold sel; now rewrite map_app).
      rewrite Esel. destruct order_ok as [O1 [O2 O3]].
      rewrite (untranspose _ n y O1 O2 O3 Hy). reflexivity.
  Qed.
End Collapse.
