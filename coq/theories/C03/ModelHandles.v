(* C03/ModelHandles.v : what the per-register handles (the MeasurementResult objects returned by
   circuit.add(gates.M(...)), i.e. gate.result of every measurement gate of a result) hold and show
   when a result object is BUILT FROM GIVEN SAMPLES -- shot-by-shot execution
   (execute_circuit_repeated: mid-circuit collapse, unitary noise on state vectors), from_dict /
   load_result, direct construction:

     result.py  MeasurementOutcomes.__init__ (samples is not None):
        for m in measurements:
            indices = [self.measurement_gate.qubits.index(q) for q in m.qubits]
            m.result.register_samples(samples[:, indices])
     measurements.py  MeasurementResult.samples(binary) / frequencies(binary) / symbols[i].outcome()

   The shots are decimal numbers over the measured qubits in the order they were given (as in
   C03/ModelResult.v).  No proofs here. *)
From Coq Require Import List Bool Arith ZArith.
From QV Require Import Base.Mat Base.Zi C03.ModelSamples C03.ModelProbs C03.ModelCollapse C03.ModelResult.
Import ListNotations.

(* the rows registered on every gate by the constructor *)
Definition ctor_handles (cfg : config) (sh : list nat) : list (list bits) :=
  let sm := map (to_bin (ck cfg)) sh in
  map (fun reg => map (take_cols (own_cols cfg reg)) sm) (c_regs cfg).

(* MeasurementResult.samples(binary=False) : samples_to_decimal(self._samples, len(target_qubits)) *)
Definition handle_dec (rows : list bits) : list nat := map to_dec rows.
(* MeasurementResult.frequencies(binary=False) : calculate_frequencies(self.samples(binary=False)) *)
Definition handle_freq (rows : list bits) : counter := calc_freq (handle_dec rows).
(* MeasurementSymbol(i, result).outcome() = result.samples()[-1][i] *)
Definition handle_symbol (rows : list bits) (i : nat) : bool := nth i (last rows []) false.

(* the four handle views collected over the registers, as `out` values of the registers=True views *)
Definition handles_view (cfg : config) (sh : list nat) (o : op) : out :=
  let hs := ctor_handles cfg sh in
  match o with
  | Samples _ true _ _ => ORegSamplesBin hs
  | Samples _ false _ _ => ORegSamplesDec (map handle_dec hs)
  | Freqs _ false _ _ => ORegFreqDec (map handle_freq hs)
  | Freqs _ true _ _ =>
      ORegFreqBin (map (fun rf => fbin (length (fst rf)) (handle_freq (snd rf))) (combine (c_regs cfg) hs))
  | _ => OErr 0
  end.

(* ---- executable helpers for the generated correspondence files (harness/c03_g.py) *)
(* the bits the symbols of register reg must show: the outcome of qubit reg[i] in the last shot *)
Definition symbols_spec (cfg : config) (reg : list nat) (sh : list nat) : bits :=
  spec_reg_row cfg reg (last sh 0).

(* density matrix: the projection P rho P onto the outcome the implementation recorded (bits in the
   gate's own qubit order), flattened row by row as (re, im) pairs, and its trace *)
Definition flat_zi' (l : list Zi) : list Z := flat_map (fun z => [fst z; snd z]) l.
Definition projection_dm_on_recorded (n : nat) (tq : list nat) (rho : list (list Zi)) (rec_impl : bits)
  : list Z * (Z * Z) :=
  let p := project_dm n tq rec_impl rho in
  let tr := zisum (map (fun i => nth i (nth i p []) zi0) (seq 0 (length p))) in
  (flat_map flat_zi' p, tr).
(* a matrix gate sequence applied to rho: U rho U^dagger for permutation / phase gates is not needed:
   the density-matrix cases observe the state right after M.apply_density_matrix *)
