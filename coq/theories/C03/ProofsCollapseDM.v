(* C03/ProofsCollapseDM.v : the model of collapse_density_matrix is P rho P for the projector P
   onto "qubit qs[j] has the value of bit j of the shot" (ascending in-range qubit lists), and
   the trace used for the normalisation is the Born probability of the shot. *)
From Coq Require Import List Bool Arith ZArith Lia Permutation.
From QV Require Import Base.Mat Base.Zi C03.ModelSamples C03.ModelProbs C03.ModelCollapse
     C03.ProofsSamples C03.ProofsProbs C03.ProofsCollapse C03.ProofsProbsDM.
Import ListNotations.

Lemma asc_app l1 : forall lo mid l2,
  asc lo l1 = true -> (forall x, In x l1 -> x < mid) -> asc mid l2 = true -> lo <= mid -> asc lo (l1 ++ l2) = true.
Proof.
  induction l1 as [|x l1 IH]; intros lo mid l2 H1 Hlt H2 Hle; cbn [app].
  - now apply (asc_weaken mid lo).
  - cbn [asc] in *. apply andb_true_iff in H1. destruct H1 as [Ha Hb]. rewrite Ha. cbn [andb].
    apply (IH (S x) mid); [exact Hb | intros y Hy; apply Hlt; now right | exact H2 |].
    specialize (Hlt x (or_introl eq_refl)). lia.
Qed.

Lemma asc_shift n l : forall lo, asc lo l = true -> asc (lo + n) (map (fun i => i + n) l) = true.
Proof.
  induction l as [|x l IH]; intros lo H; [reflexivity|]. cbn [map asc] in *.
  apply andb_true_iff in H. destruct H as [Ha Hb]. apply Nat.leb_le in Ha.
  apply andb_true_iff. split; [apply Nat.leb_le; lia|]. apply (IH (S x)). exact Hb.
Qed.

Lemma seq_shift_add n m : forall a, map (fun i => i + n) (seq a m) = seq (a + n) m.
Proof. induction m as [|m IH]; intros a; [reflexivity|]. cbn [seq map]. f_equal. apply (IH (S a)). Qed.

Lemma filter_map {A B} (f : B -> bool) (g : A -> B) l : filter f (map g l) = map g (filter (fun x => f (g x)) l).
Proof. induction l as [|x l IH]; [reflexivity|]. cbn [map filter]. destruct (f (g x)); cbn [map]; now rewrite IH. Qed.

Lemma beqb_app a : forall b c d, length a = length b ->
  beqb (a ++ c) (b ++ d) = beqb a b && beqb c d.
Proof.
  induction a as [|x a IH]; intros [|y b] c d H; cbn [length] in H; try discriminate; [reflexivity|].
  cbn [app beqb]. rewrite IH by lia. now rewrite andb_assoc.
Qed.

Lemma mem_app i l1 l2 : mem i (l1 ++ l2) = mem i l1 || mem i l2.
Proof. unfold mem. apply existsb_app. Qed.

Lemma mem_shift i n l : mem (i + n) (map (fun j => j + n) l) = mem i l.
Proof.
  unfold mem. induction l as [|x l IH]; [reflexivity|]. cbn [map existsb]. rewrite IH. f_equal.
  destruct (i =? x) eqn:E.
  - apply Nat.eqb_eq in E. subst. apply Nat.eqb_refl.
  - apply Nat.eqb_neq in E. apply Nat.eqb_neq. lia.
Qed.

Lemma mem_none i l : (forall x, In x l -> x <> i) -> mem i l = false.
Proof.
  intros H. destruct (mem i l) eqn:E; [|reflexivity]. apply mem_In in E. now specialize (H i E).
Qed.

Section CollapseDM.
  Variables (n : nat) (qs : list nat).
  Hypothesis Hasc : asc 0 qs = true.
  Hypothesis Hlt : forall q, In q qs -> q < n.

  Let k := length qs.
  Let qn := map (fun q => q + n) qs.
  Let un := unmeasured n qs.
  Let unn := map (fun q => q + n) un.
  Let qs2 := qs ++ qn.
  Let order := qs ++ qn ++ un ++ unn.

  Lemma qs2_asc : asc 0 qs2 = true.
  Proof.
    unfold qs2. apply (asc_app qs 0 n qn Hasc Hlt); [|lia].
    apply (asc_shift n qs 0 Hasc).
  Qed.

  Lemma qs2_lt q : In q qs2 -> q < n + n.
  Proof.
    unfold qs2, qn. rewrite in_app_iff, in_map_iff. intros [H|[i [<- H]]]; specialize (Hlt _ H); lia.
  Qed.

  Lemma notin_qs2_low i : i < n -> notin qs2 i = notin qs i.
  Proof.
    intros Hi. unfold notin, qs2. rewrite mem_app. f_equal.
    rewrite (mem_none i qn); [apply orb_false_r|].
    intros x Hx. unfold qn in Hx. apply in_map_iff in Hx. destruct Hx as [j [<- _]]. lia.
  Qed.

  Lemma notin_qs2_high i : notin qs2 (i + n) = notin qs i.
  Proof.
    unfold notin, qs2. rewrite mem_app. f_equal. unfold qn. rewrite mem_shift.
    rewrite (mem_none (i + n) qs); [reflexivity|]. intros x Hx. specialize (Hlt x Hx). lia.
  Qed.

  Lemma un2 : filter (notin qs2) (seq 0 (n + n)) = un ++ unn.
  Proof.
    rewrite seq_app, filter_app. rewrite <- (seq_shift_add n n 0). f_equal.
    - apply filter_ext_in. intros i Hi. apply in_seq in Hi. apply notin_qs2_low. lia.
    - rewrite filter_map. unfold unn. f_equal.
      apply filter_ext. intros i. apply notin_qs2_high.
  Qed.

  Lemma order_perm : Permutation order ((qs ++ un) ++ map (fun i => i + n) (qs ++ un)).
  Proof.
    unfold order. rewrite map_app. fold qn. fold unn. rewrite <- app_assoc.
    apply Permutation_app_head. rewrite !app_assoc. apply Permutation_app_tail. apply Permutation_app_comm.
  Qed.

  Lemma order_ok_dm : NoDup order /\ length order = n + n /\ (forall a, a < n + n -> In a order).
  Proof.
    pose proof (order2_ok n qs (asc_NoDup _ _ Hasc) Hlt) as [P1 [P2 P3]].
    rewrite (sort_nat_asc_id qs 0 Hasc) in P1, P2, P3.
    pose proof order_perm as Hp. fold un in P1, P2, P3. split; [|split].
    - eapply Permutation_NoDup; [symmetry; exact Hp | exact P1].
    - rewrite (Permutation_length Hp). exact P2.
    - intros a Ha. eapply Permutation_in; [symmetry; exact Hp | now apply P3].
  Qed.

  Lemma k_le_n' : k <= n.
  Proof. apply (k_le_n n qs Hasc Hlt). Qed.

  Theorem collapse_dm_sorted shot rho :
    collapse_dm n qs shot rho = Some (project_dm n qs (to_bin k shot) rho).
  Proof.
    unfold collapse_dm. fold k. fold qn. fold qs2.
    set (b := to_bin k shot). assert (Hb : length b = k) by apply to_bin_length.
    pose proof k_le_n' as Hk.
    destruct (append_zeros_asc qs2 (b ++ b) 0 (2 * (n - k)) (collapse_sub_dm n qs shot rho) qs2_asc) as [T [HT1 HT2]].
    - unfold qs2, qn. rewrite !app_length, map_length, Hb. reflexivity.
    - intros q Hq. apply qs2_lt in Hq. unfold qs2, qn. rewrite app_length, map_length. fold k. lia.
    - rewrite HT1.
      assert (Hl2 : length qs2 = k + k) by (unfold qs2, qn; now rewrite app_length, map_length).
      rewrite Hl2. assert (2 * (n - k) + (k + k) =? 2 * n = true) as -> by (apply Nat.eqb_eq; lia).
      f_equal. unfold project_dm. apply map_ext_in. intros r Hr. apply map_ext_in. intros c Hc.
      apply allbits_length in Hr. apply allbits_length in Hc.
      rewrite HT2 by (rewrite app_length, Hl2; lia).
      assert (Es2 : sel qs2 (r ++ c) = sel qs r ++ sel qs c).
      { unfold qs2, sel. rewrite map_app. fold (sel qs (r ++ c)). fold (sel qn (r ++ c)).
        rewrite (sel_app_l qs r c) by (intros i Hi; rewrite Hr; now apply Hlt).
        unfold qn. now rewrite (sel_shift qs n r c Hr). }
      rewrite Es2, beqb_app by (unfold sel; now rewrite map_length, Hb).
      destruct (beqb (sel qs r) b && beqb (sel qs c) b) eqn:E; [|reflexivity].
      apply andb_true_iff in E. destruct E as [E1 E2]. apply beqb_eq in E1. apply beqb_eq in E2.
      unfold collapse_sub_dm, np_transpose. fold k. fold b. fold qn. fold un. fold unn.
      assert (Hrc : length (r ++ c) = n + n) by (rewrite app_length; lia).
      assert (Ez : b ++ b ++ psel (notin qs2) 0 (r ++ c) = sel order (r ++ c)).
      { rewrite <- (sel_filter_seq0 (notin qs2) (n + n) (r ++ c) Hrc), un2.
        unfold order, sel. rewrite !map_app. fold (sel qs (r ++ c)). fold (sel qn (r ++ c)).
        fold (sel un (r ++ c)). fold (sel unn (r ++ c)).
        rewrite (sel_app_l qs r c) by (intros i Hi; rewrite Hr; now apply Hlt).
        unfold qn at 1. rewrite (sel_shift qs n r c Hr), E1, E2. reflexivity. }
      fold order. rewrite Ez.
      destruct order_ok_dm as [O1 [O2 O3]].
      rewrite (untranspose order (n + n) (r ++ c) O1 O2 O3 Hrc).
      unfold reshape_dm. rewrite <- Hr at 1 2.
      rewrite firstn_app, Nat.sub_diag, firstn_O, app_nil_r, firstn_all.
      rewrite skipn_app, Nat.sub_diag, skipn_all. cbn [skipn app]. reflexivity.
  Qed.
End CollapseDM.
