(* C03/ModelCollapse.v : executable models of
     backends/numpy.py   _append_zeros / collapse_state / collapse_density_matrix
     gates/measurements.py  M.apply / M.apply_density_matrix  (collapse=True)
     measurements.py     MeasurementResult.add_shot, MeasurementSymbol.outcome
   No proofs here.  States are over Zi and un-normalised: the model returns the projected
   vector and its squared norm separately (the real code divides by sqrt(norm2)). *)
From Coq Require Import List Bool Arith ZArith Lia.
From QV Require Import Base.Mat Base.Zi C03.ModelSamples C03.ModelProbs.
Import ListNotations.

Definition remove_nth {A} (q : nat) (l : list A) : list A := firstn q l ++ skipn (S q) l.

(* a numpy array with its rank; None = numpy raised (AxisError) *)
Definition rtens := option (nat * @tens Zi).

(* state = expand_dims(state, q); state = concatenate([zeros, state] if r == 1 else [state, zeros], q) *)
Definition append_zero (q : nat) (r : bool) (st : rtens) : rtens :=
  match st with
  | None => None
  | Some (rk, t) =>
      if q <=? rk
      then Some (S rk, fun y => if Bool.eqb (nth q y false) r then t (remove_nth q y) else zi0)
      else None
  end.
Definition append_zeros (qs : list nat) (rs : bits) (st : rtens) : rtens :=
  fold_left (fun s qr => append_zero (fst qr) (snd qr) s) (combine qs rs) st.

Definition reshape_state (psi : list Zi) : @tens Zi := fun x => nth (idx x) psi zi0.

(* reshape(n*(2,)); transpose(qubits + rest); reshape((2^k,) + (n-k)*(2,))[int(shot)] *)
Definition collapse_sub (n : nat) (qs : list nat) (shot : nat) (psi : list Zi) : @tens Zi :=
  let order := qs ++ unmeasured n qs in
  let tt := np_transpose order (reshape_state psi) in
  fun beta => tt (to_bin (length qs) shot ++ beta).

(* sum(abs(state)**2) of the selected block *)
Definition collapse_norm2 (n : nat) (qs : list nat) (shot : nat) (psi : list Zi) : Z :=
  zsum (map (fun beta => zi_norm2 (collapse_sub n qs shot psi beta)) (allbits (n - length qs))).

(* collapse_state(..., normalize=False) *)
Definition collapse_state (n : nat) (qs : list nat) (shot : nat) (psi : list Zi) : option (list Zi) :=
  let k := length qs in
  match append_zeros qs (to_bin k shot) (Some (n - k, collapse_sub n qs shot psi)) with
  | Some (rk, t) => if rk =? n then Some (map t (allbits n)) else None
  | None => None
  end.

(* M.apply with collapse=True:  qubits = sorted(target_qubits); shot drawn from
   calculate_probabilities(state, qubits) (oracle); the state is collapsed on the sorted qubits;
   MeasurementResult.add_shot computes bshot = samples_to_binary(shot, len(qubits)) (bits of the
   SORTED qubits) and appends  bshot[:, [qubits.index(q) for q in self.target_qubits]],
   i.e. the bits re-ordered to the gate's own qubit order. *)
Record mapply := { recorded : bits ; collapsed : option (list Zi) ; cnorm2 : Z }.
Definition reorder_bits (qs tq : list nat) (b : bits) : bits :=
  map (fun q => nth (index_of q qs) b false) tq.
Definition m_apply (n : nat) (tq : list nat) (shot : nat) (psi : list Zi) : mapply :=
  let qs := sort_nat tq in
  {| recorded := reorder_bits qs tq (to_bin (length qs) shot) ;
     collapsed := collapse_state n qs shot psi ;
     cnorm2 := collapse_norm2 n qs shot psi |}.
(* MeasurementSymbol(i, result).outcome() = result.samples()[-1][i]; symbol i belongs to
   target_qubits[i] *)
Definition symbol_outcome (m : mapply) (i : nat) : bool := nth i (recorded m) false.

(* ---- density matrix *)
Definition collapse_sub_dm (n : nat) (qs : list nat) (shot : nat) (rho : list (list Zi)) : @tens Zi :=
  let un := unmeasured n qs in
  let order := qs ++ map (fun q => q + n) qs ++ un ++ map (fun q => q + n) un in
  let tt := np_transpose order (reshape_dm n rho) in
  let b := to_bin (length qs) shot in
  fun beta => tt (b ++ b ++ beta).

(* trace(reshape(state, (m, m))) of the selected block *)
Definition collapse_trace_dm (n : nat) (qs : list nat) (shot : nat) (rho : list (list Zi)) : Zi :=
  zisum (map (fun beta => collapse_sub_dm n qs shot rho (beta ++ beta)) (allbits (n - length qs))).

Definition collapse_dm (n : nat) (qs : list nat) (shot : nat) (rho : list (list Zi))
  : option (list (list Zi)) :=
  let k := length qs in
  let b := to_bin k shot in
  match append_zeros (qs ++ map (fun q => q + n) qs) (b ++ b)
                     (Some (2 * (n - k), collapse_sub_dm n qs shot rho)) with
  | Some (rk, t) =>
      if rk =? 2 * n
      then Some (map (fun r => map (fun c => t (r ++ c)) (allbits n)) (allbits n))
      else None
  | None => None
  end.

(* ---- specification *)
(* the projector onto "qubit qs[j] has value b[j]" applied to psi *)
Definition project (n : nat) (qs : list nat) (b : bits) (psi : list Zi) : list Zi :=
  map (fun x => if beqb (sel qs x) b then nth (idx x) psi zi0 else zi0) (allbits n).
Definition project_dm (n : nat) (qs : list nat) (b : bits) (rho : list (list Zi)) : list (list Zi) :=
  map (fun r => map (fun c =>
         if beqb (sel qs r) b && beqb (sel qs c) b then nth (idx c) (nth (idx r) rho []) zi0 else zi0)
       (allbits n)) (allbits n).
