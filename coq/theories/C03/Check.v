(* C03/Check.v : executable comparison functions used by the generated correspondence files
   (harness/c03.py, harness/c14.py).  No proofs here; nothing in the theorems depends on this
   file.  Counters are compared as finite maps, exactly like Python compares Counter objects. *)
From Coq Require Import List Bool Arith ZArith Lia.
From QV Require Import Base.Mat Base.Zi C03.ModelSamples C03.ModelProbs C03.ModelCollapse C03.ModelResult.
Import ListNotations.

Definition counter_eqb (f g : counter) : bool :=
  nodupb (keys f) && nodupb (keys g) &&
  forallb (fun v => lookup v f =? lookup v g) (keys f ++ keys g).
(* bit-string keys, encoded injectively (a leading 1 keeps the length) *)
Definition benc (fb : bcounter) : counter := map (fun p => (to_dec (true :: fst p), snd p)) fb.
Definition bcounter_eqb (f g : bcounter) : bool := counter_eqb (benc f) (benc g).

Definition zi_list_eqb := list_eqb zi_eqb.
Definition opt_eqb {A} (e : A -> A -> bool) (a b : option A) : bool :=
  match a, b with Some x, Some y => e x y | None, None => true | _, _ => false end.

Definition out_eqb (a b : out) : bool :=
  match a, b with
  | ODone, ODone => true
  | OSamplesBin x, OSamplesBin y => list_eqb bits_eqb x y
  | OSamplesDec x, OSamplesDec y => list_eqb Nat.eqb x y
  | ORegSamplesBin x, ORegSamplesBin y => list_eqb (list_eqb bits_eqb) x y
  | ORegSamplesDec x, ORegSamplesDec y => list_eqb (list_eqb Nat.eqb) x y
  | OFreqDec x, OFreqDec y => counter_eqb x y
  | OFreqBin x, OFreqBin y => bcounter_eqb x y
  | ORegFreqDec x, ORegFreqDec y => list_eqb counter_eqb x y
  | ORegFreqBin x, ORegFreqBin y => list_eqb bcounter_eqb x y
  | OProbs x, OProbs y => list_eqb Z.eqb x y
  | OFinal x, OFinal y => opt_eqb Nat.eqb x y
  | OErr x, OErr y => x =? y
  | _, _ => false
  end.

(* correspondence of one history: oracle contract, then one boolean per operation *)
Definition check_history (cfg : config) (h : list op) (impl : list out) : list bool :=
  oracles_ok cfg (init cfg) h ::
  (length impl =? length h) ::
  map (fun p => out_eqb (fst p) (snd p)) (combine (fst (run cfg (init cfg) h)) impl).

(* the final caches of the model, to compare with the attributes of the real objects *)
Definition final_samples (cfg : config) (h : list op) : list (option (list nat)) :=
  map (fun R => option_map (map to_dec) (r_samples R)) (m_results (snd (run cfg (init cfg) h))).

(* ---- specification verdict for the outputs of the real implementation, per result:
   0 = explained by the candidate shots (or nothing to explain), 1 = violated (the outputs
   force the shots and they are not admissible for / not consistent with the result's own
   execution), 2 = not explained by the candidate but the outputs do not force the shots *)
Definition items_of (r : nat) (h : list op) (xs : list out) : list (op * out) :=
  filter (fun p => match target (fst p) with Some r' => r' =? r | None => false end) (combine h xs).
Definition forces (o : op) : bool :=
  match o with Samples _ _ _ _ => true | Freqs _ _ false _ => true | _ => false end.

(* two reads of the same view of one result must agree, whatever the shots are *)
Definition same_view (a b : op) : bool :=
  match a, b with
  | Samples _ b1 g1 _, Samples _ b2 g2 _ => Bool.eqb b1 b2 && Bool.eqb g1 g2
  | Freqs _ b1 g1 _, Freqs _ b2 g2 _ => Bool.eqb b1 b2 && Bool.eqb g1 g2
  | Probs _ q1, Probs _ q2 => list_eqb Nat.eqb q1 q2
  | _, _ => false
  end.
Definition contradictory (items : list (op * out)) : bool :=
  existsb (fun p => existsb (fun q => same_view (fst p) (fst q) && negb (out_eqb (snd p) (snd q))) items) items.

(* a per-register frequency view that no list of nshots admissible shots can produce: a register
   total differs from nshots, or a key is not the projection of any shot of non-zero probability *)
Definition marginal_support (cfg : config) (w : list Z) (reg : list nat) : list nat :=
  map (spec_reg_dec cfg reg)
      (filter (in_support (ck cfg) (born_vec (c_n cfg) (cQ cfg) w)) (seq 0 (2 ^ ck cfg))).
Definition regfreq_impossible (cfg : config) (w : list Z) (ns : nat) (x : out) : bool :=
  match x with
  | ORegFreqDec l =>
      negb (forall2b (fun reg f => (total f =? ns) &&
                                   forallb (fun v => existsb (Nat.eqb v) (marginal_support cfg w reg)) (keys f))
                     (c_regs cfg) l)
  | ORegFreqBin l =>
      negb (forall2b (fun reg fb => (total (benc fb) =? ns) &&
                                    forallb (fun p => existsb (Nat.eqb (to_dec (fst p))) (marginal_support cfg w reg)) fb)
                     (c_regs cfg) l)
  | _ => false
  end.

Definition spec_verdict (cfg : config) (h : list op) (xs : list out) (r : nat) (R : result)
           (cand : option (list nat)) : nat :=
  let items := items_of r h xs in
  match cand with
  | None =>
      if forallb (fun p => negb (needs_shots (fst p)) && explainsb cfg (r_w R) [] (fst p) (snd p)) items
      then 0 else 1
  | Some sh =>
      if shots_okb cfg (r_w R) (r_nshots R) sh &&
         forallb (fun p => explainsb cfg (r_w R) sh (fst p) (snd p)) items
      then 0
      else if existsb (fun p => forces (fst p)) items || contradictory items
              || existsb (fun p => regfreq_impossible cfg (r_w R) (r_nshots R) (snd p)) items
              || negb (forallb (fun p => needs_shots (fst p) || explainsb cfg (r_w R) sh (fst p) (snd p)) items)
           then 1 else 2
  end.

Definition spec_verdicts (cfg : config) (h : list op) (xs : list out)
           (cands : list (option (list nat))) : list nat :=
  let mf := snd (run cfg (init cfg) h) in
  map (fun p => spec_verdict cfg h xs (fst (fst p)) (snd (fst p)) (snd p))
      (combine (combine (seq 0 (length (m_results mf))) (m_results mf)) cands).

(* ---- collapse cases: everything the harness needs about one M.apply, flattened for printing *)
Definition flat_zi (l : list Zi) : list Z := flat_map (fun z => [fst z; snd z]) l.
Definition mat_vec (U : mat Zi) (psi : list Zi) : list Zi :=
  map (fun row => zisum (map (fun p => zi_mul (fst p) (snd p)) (combine row psi))) U.

Definition collapse_case (n : nat) (tq : list nat) (shot : nat) (psi : list Zi) (post : list (gapp Zi))
           (rec_impl : bits) (* the bits the implementation recorded on the gate's MeasurementResult *) :=
  let m := m_apply n tq shot psi in
  (recorded m, option_map flat_zi (collapsed m), cnorm2 m,
   option_map (fun c => flat_zi (mat_vec (circ_mat Ziops n post) c)) (collapsed m),
   (* specification: the state is the projection onto the recorded outcome, the recorded bits
      being read in the order of the gate's own qubits *)
   opt_eqb zi_list_eqb (collapsed m) (Some (project n tq rec_impl psi)),
   (* what the code does: the recorded bits belong to the sorted qubits *)
   opt_eqb zi_list_eqb (collapsed m) (Some (project n (sort_nat tq) (recorded m) psi))).

(* specification side only: the projection onto the outcome the IMPLEMENTATION recorded (read in the
   gate's own qubit order) and its squared norm, to judge the implementation's collapsed state *)
Definition projection_on_recorded (n : nat) (tq : list nat) (psi : list Zi) (rec_impl : bits) : list Z * Z :=
  let p := project n tq rec_impl psi in (flat_zi p, zsum (map zi_norm2 p)).

Definition mat_eqb (a b : list (list Zi)) : bool := list_eqb zi_list_eqb a b.

(* ---- Circuit.add bookkeeping and per-shot execution of circuits whose measurements were
   turned into collapsing ones by later gates *)
From QV Require Import C03.ModelCircuit.

(* XC q terms : RX(q, theta = pi * sum_j coef_j * result_j.symbols[bit_j]) -- a gate whose angle is
   an integer combination (coef, measurement index, bit index) of collapsed outcomes *)
Inductive xop :=
| XM (qs : list nat) (name : option nat) (c : bool)
| XG (g : gapp Zi)
| XC (q : nat) (terms : list (nat * nat * nat)).
Definition xop_cop (x : xop) : cop :=
  match x with
  | XM qs nm c => AddM qs nm c
  | XG (cs, ts, _) => AddG (cs ++ ts)          (* gate.qubits = control_qubits + target_qubits *)
  | XC q _ => AddG [q]
  end.
Definition build_circ (xs : list xop) : option circ := add_ops circ0 (map xop_cop xs).

Definition mrec_eqb (a b : mrec) : bool :=
  list_eqb Nat.eqb (m_qs a) (m_qs b) && rname_eqb (m_name a) (m_name b) && Bool.eqb (m_coll a) (m_coll b).
Definition circ_eqb (a b : circ) : bool :=
  list_eqb mrec_eqb (k_ms a) (k_ms b) && list_eqb Nat.eqb (k_meas a) (k_meas b) && Bool.eqb (k_hc a) (k_hc b).

(* one shot of execute_circuit_repeated: gates are applied, measurements whose collapse flag is
   set collapse the state with the drawn outcome and record it; the remaining measurements
   (circuit.measurements) are sampled once from the final state.
   Result: recorded bits per collapsing measurement (by index), rows per remaining register,
   and whether every drawn outcome had non-zero probability *)
(* RX(k pi) = cos(k pi/2) I - i sin(k pi/2) X, exact over Z[i] *)
Definition rx_kpi (k : nat) : list (list Zi) :=
  match k mod 4 with
  | 0 => [[zi1; zi0]; [zi0; zi1]]
  | 1 => [[zi0; (0, -1)%Z]; [(0, -1)%Z; zi0]]
  | 2 => [[(-1, 0)%Z; zi0]; [zi0; (-1, 0)%Z]]
  | _ => [[zi0; zii]; [zii; zi0]]
  end.
(* MeasurementSymbol(bit, result_midx).outcome(): the bit recorded by THAT measurement in this shot *)
Definition symbol_value (racc : list (nat * bits)) (midx bit : nat) : nat :=
  match find (fun p => fst p =? midx) racc with
  | Some p => if nth bit (snd p) false then 1 else 0
  | None => 0
  end.
Definition angle_k (racc : list (nat * bits)) (terms : list (nat * nat * nat)) : nat :=
  fold_right (fun t acc => fst (fst t) * symbol_value racc (snd (fst t)) (snd t) + acc) 0 terms.

Fixpoint exec_items (n : nat) (fin : circ) (xs : list xop) (midx : nat) (psi : list Zi) (draws : list nat)
         (racc : list (nat * bits)) (kacc : list nat) (ok : bool)
  : option (list (nat * bits) * list nat * list Zi * list nat * bool) :=
  match xs with
  | [] => Some (racc, kacc, psi, draws, ok)
  | XG g :: xs' => exec_items n fin xs' midx (mat_vec (gmat Ziops n g) psi) draws racc kacc ok
  | XC q terms :: xs' =>
      (* gate.substitute_symbols() evaluates the angle with the outcomes recorded so far *)
      let k := angle_k racc terms in
      exec_items n fin xs' midx (mat_vec (gmat Ziops n ([], [q], rx_kpi k)) psi) draws racc (kacc ++ [k]) ok
  | XM _ _ _ :: xs' =>
      let m := nth midx (k_ms fin) mrec0 in
      if m_coll m then
        match draws with
        | d :: ds =>
            let a := m_apply n (m_qs m) d psi in
            match collapsed a with
            | Some psi' => exec_items n fin xs' (S midx) psi' ds (racc ++ [(midx, recorded a)]) kacc
                                      (ok && negb (Z.eqb (cnorm2 a) 0%Z))
            | None => None
            end
        | [] => None
        end
      else exec_items n fin xs' (S midx) psi draws racc kacc ok
  end.

(* recorded bits per collapsing measurement, the multiples of pi seen by the conditioned gates,
   rows per remaining register, sampler contract *)
Definition exec_shot_full (n : nat) (fin : circ) (xs : list xop) (psi : list Zi) (draws : list nat)
  : option (list (nat * bits) * list nat * list bits * bool) :=
  match exec_items n fin xs 0 psi draws [] [] true with
  | Some (rec, ks, pf, d :: _, ok) =>
      let regs := map (fun i => m_qs (nth i (k_ms fin) mrec0)) (k_meas fin) in
      let Q := global_qubits regs in
      let row := to_bin (length Q) d in
      Some (rec, ks, map (fun reg => take_cols (reg_cols Q reg) row) regs,
            ok && in_support (length Q) (calc_probs_state n Q pf) d)
  | _ => None
  end.
Definition exec_shot (n : nat) (fin : circ) (xs : list xop) (psi : list Zi) (draws : list nat)
  : option (list (nat * bits) * list bits * bool) :=
  match exec_shot_full n fin xs psi draws with
  | Some (rec, _, fr, ok) => Some (rec, fr, ok)
  | None => None
  end.

Definition rec_eqb (a b : list (nat * bits)) : bool :=
  list_eqb (fun p q => (fst p =? fst q) && bits_eqb (snd p) (snd q)) a b.

(* [model ran; recorded outcomes agree; final register rows agree; sampler contract] *)
Definition shot_check (n : nat) (xs : list xop) (psi : list Zi) (draws : list nat)
           (impl_rec : list (nat * bits)) (impl_final : list bits) : list bool :=
  match build_circ xs with
  | Some fin =>
      match exec_shot n fin xs psi draws with
      | Some (rec, fr, ok) => [true; rec_eqb rec impl_rec; list_eqb bits_eqb fr impl_final; ok]
      | None => [false; false; false; false]
      end
  | None => [false; false; false; false]
  end.

(* the same with the multiples of pi that the gates conditioned on collapsed outcomes received:
   [model ran; recorded agree; conditioned angles agree; final rows agree; sampler contract] *)
Definition shot_check_cond (n : nat) (xs : list xop) (psi : list Zi) (draws : list nat)
           (impl_rec : list (nat * bits)) (impl_ks : list nat) (impl_final : list bits) : list bool :=
  match build_circ xs with
  | Some fin =>
      match exec_shot_full n fin xs psi draws with
      | Some (rec, ks, fr, ok) =>
          [true; rec_eqb rec impl_rec; list_eqb Nat.eqb ks impl_ks; list_eqb bits_eqb fr impl_final; ok]
      | None => [false; false; false; false; false]
      end
  | None => [false; false; false; false; false]
  end.

(* ---- deterministic bit-flip noise (p0 = p1 in {0,1} per qubit): the noisy shot is the
   noiseless one with the bits of the flipped qubits inverted; mask is over the measured qubits
   in the order they were given *)
Definition flip_shot (k : nat) (mask : bits) (s : nat) : nat :=
  to_dec (map (fun p => xorb (fst p) (snd p)) (combine (to_bin k s) mask)).

(* ---- the caches written on the circuit's measurement gates (what the handles returned by
   circuit.add show): decimal samples and frequencies per gate at the end of a history *)
Definition final_gates (cfg : config) (h : list op) : list (option (list nat) * option counter) :=
  map (fun g => (option_map (map to_dec) (gs g), gf g)) (m_gates (snd (run cfg (init cfg) h))).
Definition gates_eqb (a b : list (option (list nat) * option counter)) : bool :=
  list_eqb (fun p q => opt_eqb (list_eqb Nat.eqb) (fst p) (fst q) && opt_eqb counter_eqb (snd p) (snd q)) a b.
(* specification of a handle's frequencies right after result.frequencies() drew the global
   Counter fdraw: the register projection of those shots, summing to nshots *)
Definition handle_freq_okb (cfg : config) (reg : list nat) (fdraw hf : counter) (ns : nat) : bool :=
  counts_okb hf (map (spec_reg_dec cfg reg) (expand fdraw)) && (total hf =? ns).

(* post-hoc accessor result.apply_bitflips(p0, p1) with a deterministic map: the returned shot is the
   stored one with noiseless + (1 - noiseless) * flip_0 - noiseless * flip_1 applied bit by bit; m0 / m1
   are over the measured qubits in the order they were given (0->1 fires / 1->0 fires) *)
Definition flip_shot01 (k : nat) (m0 m1 : bits) (s : nat) : nat :=
  to_dec (map (fun p : bool * bool * bool => if fst (fst p) then negb (snd p) else snd (fst p))
              (combine (combine (to_bin k s) m0) m1)).
