(* C03/ProofsProbsDM.v : the model of calculate_probabilities_density_matrix (before np.abs)
   is the Born marginal of the diagonal of rho in the requested qubit order. *)
From Coq Require Import List Bool Arith ZArith Lia Permutation.
From QV Require Import Base.Mat Base.Zi C03.ModelSamples C03.ModelProbs C03.ModelCollapse
     C03.ProofsSamples C03.ProofsProbs C03.ProofsCollapse.
Import ListNotations.

Lemma dm_diag_nth rho i : nth i (dm_diag rho) zi0 = nth i (nth i rho []) zi0.
Proof.
  unfold dm_diag. destruct (Nat.lt_ge_cases i (length rho)) as [H|H].
  - rewrite (nth_map_lt _ _ _ 0) by (rewrite seq_length; exact H). now rewrite seq_nth.
  - rewrite nth_overflow by (rewrite map_length, seq_length; exact H).
    rewrite (nth_overflow rho) by exact H. now destruct i.
Qed.

Lemma sel_app_l o y y' : (forall i, In i o -> i < length y) -> sel o (y ++ y') = sel o y.
Proof. intros H. unfold sel. apply map_ext_in. intros i Hi. apply app_nth1. auto. Qed.

Lemma sel_shift o n y y' : length y = n -> sel (map (fun i => i + n) o) (y ++ y') = sel o y'.
Proof.
  intros Hy. unfold sel. rewrite map_map. apply map_ext. intros i.
  rewrite app_nth2 by lia. f_equal. lia.
Qed.

Section DM.
  Variables (n : nat) (qs : list nat).
  Hypothesis Hnd : NoDup qs.
  Hypothesis Hlt : forall q, In q qs -> q < n.

  Let k := length qs.
  Let sq := sort_nat qs.
  Let p := fun i => mem i qs.

  Lemma sq_spec : asc 0 sq = true /\ (forall x, In x sq <-> In x qs) /\ length sq = k.
  Proof. apply sort_nat_spec. exact Hnd. Qed.

  Lemma sq_lt q : In q sq -> q < n.
  Proof. intros H. apply Hlt. now apply sq_spec. Qed.

  Lemma mem_sq i : mem i sq = mem i qs.
  Proof.
    destruct (mem i sq) eqn:E1, (mem i qs) eqn:E2; try reflexivity.
    - apply mem_In in E1. apply sq_spec in E1. apply mem_In in E1. congruence.
    - apply mem_In in E2. apply sq_spec in E2. apply mem_In in E2. congruence.
  Qed.

  Lemma un_sq : unmeasured n qs = unmeasured n sq.
  Proof. unfold unmeasured. apply filter_ext. intros i. now rewrite mem_sq. Qed.

  Lemma msort_sq : filter (fun i => mem i qs) (seq 0 n) = sq.
  Proof.
    transitivity (filter (fun i => mem i sq) (seq 0 n)).
    - apply filter_ext. intros i. now rewrite mem_sq.
    - apply asc_filter; [apply sq_spec|]. intros q Hq. apply sq_lt in Hq. lia.
  Qed.

  Let o := sq ++ unmeasured n qs.
  Let order2 := o ++ map (fun i => i + n) o.

  Lemma o_ok : NoDup o /\ length o = n /\ (forall a, a < n -> In a o) /\ (forall a, In a o -> a < n).
  Proof.
    unfold o. rewrite un_sq.
    destruct (order_ok n sq (proj1 sq_spec) sq_lt) as [O1 [O2 O3]].
    repeat split; try assumption.
    intros a Ha. apply in_app_or in Ha. destruct Ha as [Ha|Ha]; [now apply sq_lt|].
    apply filter_In in Ha. destruct Ha as [Ha _]. apply in_seq in Ha. lia.
  Qed.

  Lemma order2_ok : NoDup order2 /\ length order2 = n + n /\ (forall a, a < n + n -> In a order2).
  Proof.
    destruct o_ok as [O1 [O2 [O3 O4]]]. unfold order2. split; [|split].
    - apply NoDup_app_intro.
      + exact O1.
      + apply FinFun.Injective_map_NoDup; [|exact O1]. intros a b H. lia.
      + intros x Hx Hy. apply in_map_iff in Hy. destruct Hy as [i [<- Hi]]. specialize (O4 _ Hx). lia.
    - rewrite app_length, map_length, O2. reflexivity.
    - intros a Ha. apply in_or_app. destruct (Nat.lt_ge_cases a n) as [H|H].
      + left. now apply O3.
      + right. apply in_map_iff. exists (a - n). split; [lia|]. apply O3. lia.
  Qed.

  (* the entry of the transposed, reshaped rho at (a, beta, a, beta) is a diagonal entry *)
  Lemma dm_entry rho a beta : length a = k -> length beta = n - k ->
    np_transpose order2 (reshape_dm n rho) (a ++ beta ++ a ++ beta)
    = nth (idx (pmerge p 0 n a beta)) (dm_diag rho) zi0.
  Proof.
    intros Ha Hb.
    destruct sq_spec as [S1 [S2 S3]].
    assert (Hcnt : cntp p 0 n = k).
    { unfold cntp, p. rewrite msort_sq. exact S3. }
    destruct (pmerge_spec p n 0 a beta) as [M1 [M2 M3]]; [now rewrite Hcnt | now rewrite Hcnt |].
    set (y := pmerge p 0 n a beta) in *.
    assert (Esq : sel sq y = a).
    { rewrite <- msort_sq. rewrite (sel_filter_seq0 _ n y M1). exact M2. }
    assert (Eun : sel (unmeasured n qs) y = beta).
    { unfold unmeasured. rewrite (sel_filter_seq0 _ n y M1). exact M3. }
    assert (Eo : sel o y = a ++ beta).
    { unfold o, sel. rewrite map_app. fold (sel sq y). fold (sel (unmeasured n qs) y). now rewrite Esq, Eun. }
    destruct o_ok as [O1 [O2 [O3 O4]]].
    assert (Ez : a ++ beta ++ a ++ beta = sel order2 (y ++ y)).
    { unfold order2, sel. rewrite map_app. fold (sel o (y ++ y)). fold (sel (map (fun i => i + n) o) (y ++ y)).
      rewrite sel_app_l by (intros i Hi; rewrite M1; now apply O4).
      rewrite (sel_shift o n y y M1), Eo. now rewrite <- app_assoc. }
    destruct order2_ok as [P1 [P2 P3]].
    unfold np_transpose. rewrite Ez.
    rewrite (untranspose order2 (n + n) (y ++ y) P1 P2 P3) by (rewrite app_length; lia).
    unfold reshape_dm. rewrite <- M1 at 1 2.
    rewrite firstn_app, Nat.sub_diag, firstn_O, app_nil_r, firstn_all.
    rewrite skipn_app, Nat.sub_diag, skipn_all. cbn [skipn app].
    now rewrite dm_diag_nth.
  Qed.

  Lemma probs_dm_entry rho b : length b = k ->
    np_transpose (map (reduced qs) qs) (dm_partial_diag n qs rho) b = born_zi n qs (dm_diag rho) b.
  Proof.
    intros Hb. unfold np_transpose at 1. unfold dm_partial_diag.
    fold sq. fold o. fold order2. fold k.
    set (y' := map (fun a => nth (index_of a (map (reduced qs) qs)) b false) (seq 0 (length (map (reduced qs) qs)))).
    assert (Hy' : length y' = k) by (unfold y'; now rewrite !map_length, seq_length).
    destruct sq_spec as [S1 [S2 S3]].
    assert (Hcnt : cntp p 0 n = k) by (unfold cntp, p; rewrite msort_sq; exact S3).
    unfold born_zi. f_equal.
    assert (Ef : filter (fun x => beqb (sel qs x) b) (allbits n)
                 = filter (fun x => beqb (psel p 0 x) y') (allbits n)).
    { apply filter_ext_in. intros x Hx. apply allbits_length in Hx.
      rewrite <- (sel_filter_seq0 p n x Hx). unfold p, y'. symmetry.
      apply (transpose_select n qs Hnd Hlt x b Hb). }
    rewrite Ef, filter_merge by (now rewrite Hy', Hcnt).
    rewrite Hy', map_map. apply map_ext_in. intros beta Hbeta. apply allbits_length in Hbeta.
    now apply dm_entry.
  Qed.

  Theorem probs_dm_pre_correct rho : calc_probs_dm_pre n qs rho = born_vec_zi n qs (dm_diag rho).
  Proof.
    unfold calc_probs_dm_pre, born_vec_zi. apply map_ext_in. intros b Hb.
    apply probs_dm_entry. now apply allbits_length.
  Qed.
End DM.

(* ---------- np.abs of the partial traces: for a diagonal that is real and non-negative (every
   density matrix) the reported probabilities are the Born marginal of the diagonal itself *)
Lemma zisum_fst l : fst (zisum l) = zsum (map fst l).
Proof. induction l as [|x l IH]; [reflexivity|]. cbn [zisum fold_right map zsum]. unfold zi_add at 1. cbn [fst]. fold (zisum l). fold (zsum (map fst l)). now rewrite IH. Qed.

Lemma zsum_nonneg l : Forall (fun z => (0 <= z)%Z) l -> (0 <= zsum l)%Z.
Proof. induction 1 as [|x l Hx Hl IH]; cbn [zsum fold_right]; [lia|]. fold (zsum l). lia. Qed.

Theorem probs_dm_correct n qs rho :
  NoDup qs -> (forall q, In q qs -> q < n) ->
  Forall (fun z => (0 <= fst z)%Z) (dm_diag rho) ->
  calc_probs_dm n qs rho = born_vec n qs (map fst (dm_diag rho)).
Proof.
  intros Hnd Hlt Hpos. unfold calc_probs_dm. rewrite probs_dm_pre_correct by assumption.
  unfold born_vec_zi, born_vec. rewrite map_map. apply map_ext. intros b.
  unfold born_zi, born. rewrite zisum_fst, map_map.
  assert (E : map (fun x => fst (nth (idx x) (dm_diag rho) zi0)) (filter (fun x => beqb (sel qs x) b) (allbits n))
              = map (fun x => nth (idx x) (map fst (dm_diag rho)) 0%Z) (filter (fun x => beqb (sel qs x) b) (allbits n))).
  { apply map_ext. intros x. change 0%Z with (fst zi0). now rewrite map_nth. }
  rewrite E. apply Z.abs_eq. apply zsum_nonneg. apply Forall_forall. intros z Hz.
  apply in_map_iff in Hz. destruct Hz as [x [<- _]].
  destruct (Nat.lt_ge_cases (idx x) (length (map fst (dm_diag rho)))) as [H|H].
  - rewrite Forall_forall in Hpos. rewrite map_length in H.
    change 0%Z with (fst zi0) at 2. rewrite map_nth. apply Hpos. now apply nth_In.
  - rewrite nth_overflow by exact H. lia.
Qed.
