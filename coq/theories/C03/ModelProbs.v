(* C03/ModelProbs.v : executable models of
     backends/numpy.py  _order_probabilities / calculate_probabilities /
                        calculate_probabilities_density_matrix
   and the Born-rule specification.  No proofs here.

   A numpy array of shape (2,)*k is modelled as a function on bit lists of length k
   (only arguments of length k matter); reshape((2,)*n) of a flat vector is indexing by the
   big-endian bit list, ravel is the enumeration [allbits k] (row-major).
   The carrier of probabilities is Z: entry x of the weight vector is |psi_x|^2 (zi_norm2). *)
From Coq Require Import List Bool Arith ZArith Lia.
From QV Require Import Base.Mat Base.Zi C03.ModelSamples.
Import ListNotations.

Definition mem (i : nat) (qs : list nat) : bool := existsb (Nat.eqb i) qs.

Section Tensor.
  Context {A : Type}.
  Definition tens := bits -> A.

  (* np.transpose(t, axes):  out[y_0..y_{k-1}] = t[x]  with  x[axes[j]] = y[j] *)
  Definition np_transpose (axes : list nat) (t : tens) : tens :=
    fun y => t (map (fun a => nth (index_of a axes) y false) (seq 0 (length axes))).
End Tensor.

Definition zsum (l : list Z) : Z := fold_right Z.add 0%Z l.

(* np.reshape(w, n*(2,)) *)
Definition reshape_bits (w : list Z) : @tens Z := fun x => nth (idx x) w 0%Z.

(* np.sum(t, axis=axes) for t of shape (2,)*n : the kept axes stay in ascending order *)
Definition np_sum_axes (n : nat) (axes : list nat) (t : @tens Z) : @tens Z :=
  let kept := filter (fun i => negb (mem i axes)) (seq 0 n) in
  fun y => zsum (map t (filter (fun x => beqb (sel kept x) y) (allbits n))).

(* _order_probabilities: while scanning i = 0..n-1, len(unmeasured) = #{j < i : j not in qubits},
   reduced[i] = i - len(unmeasured);  the transposition is [reduced.get(q) for q in qubits] *)
Definition reduced (qs : list nat) (i : nat) : nat :=
  i - length (filter (fun j => negb (mem j qs)) (seq 0 i)).
Definition order_probabilities (qs : list nat) (t : @tens Z) : @tens Z :=
  np_transpose (map (reduced qs) qs) t.

Definition unmeasured (n : nat) (qs : list nat) : list nat :=
  filter (fun i => negb (mem i qs)) (seq 0 n).

(* calculate_probabilities on the weights w_x = |state_x|^2.
   The real code raises for a qubit >= n or a repeated qubit (transpose error). *)
Definition calc_probs (n : nat) (qs : list nat) (w : list Z) : list Z :=
  map (order_probabilities qs (np_sum_axes n (unmeasured n qs) (reshape_bits w)))
      (allbits (length qs)).
Definition calc_probs_state (n : nat) (qs : list nat) (psi : list Zi) : list Z :=
  calc_probs n qs (map zi_norm2 psi).

(* ---- density matrices.  rho is a list of rows over Zi; reshape(2n*(2,)) indexes by r ++ c *)
Fixpoint insert_sorted (q : nat) (l : list nat) : list nat :=
  match l with
  | [] => [q]
  | x :: l' => if q <=? x then q :: l else x :: insert_sorted q l'
  end.
Definition sort_nat (l : list nat) : list nat := fold_right insert_sorted [] l.

Definition reshape_dm (n : nat) (rho : list (list Zi)) : @tens Zi :=
  fun rc => nth (idx (skipn n rc)) (nth (idx (firstn n rc)) rho []) zi0.

Definition zisum (l : list Zi) : Zi := fold_right zi_add zi0 l.

(* order = sorted(qubits) + unmeasured; order += [i + n for i in order];
   transpose; reshape (2^k, 2^(n-k), 2^k, 2^(n-k)); einsum("abab->a") *)
Definition dm_partial_diag (n : nat) (qs : list nat) (rho : list (list Zi)) : @tens Zi :=
  let o := sort_nat qs ++ unmeasured n qs in
  let order := o ++ map (fun i => i + n) o in
  let t := np_transpose order (reshape_dm n rho) in
  fun a => zisum (map (fun b => t (a ++ b ++ a ++ b)) (allbits (n - length qs))).

(* the value before np.abs, in the requested qubit order, ravelled *)
Definition calc_probs_dm_pre (n : nat) (qs : list nat) (rho : list (list Zi)) : list Zi :=
  map (np_transpose (map (reduced qs) qs) (dm_partial_diag n qs rho)) (allbits (length qs)).
(* np.abs of it, meaningful when the partial traces are real (Hermitian rho) *)
Definition calc_probs_dm (n : nat) (qs : list nat) (rho : list (list Zi)) : list Z :=
  map (fun s => Z.abs (fst s)) (calc_probs_dm_pre n qs rho).

(* ---- specification: Born-rule marginal in the requested qubit order *)
Definition born (n : nat) (qs : list nat) (w : list Z) (b : bits) : Z :=
  zsum (map (fun x => nth (idx x) w 0%Z) (filter (fun x => beqb (sel qs x) b) (allbits n))).
Definition born_vec (n : nat) (qs : list nat) (w : list Z) : list Z :=
  map (born n qs w) (allbits (length qs)).

Definition dm_diag (rho : list (list Zi)) : list Zi :=
  map (fun i => nth i (nth i rho []) zi0) (seq 0 (length rho)).
Definition born_zi (n : nat) (qs : list nat) (d : list Zi) (b : bits) : Zi :=
  zisum (map (fun x => nth (idx x) d zi0) (filter (fun x => beqb (sel qs x) b) (allbits n))).
Definition born_vec_zi (n : nat) (qs : list nat) (d : list Zi) : list Zi :=
  map (born_zi n qs d) (allbits (length qs)).
