From QV Require Import C03.ModelSamples C03.ModelProbs C03.ModelCollapse C03.ModelResult.
