(* C03/Props.v : property theorems for "measurements follow the Born rule and are reported
   consistently".  Models: C03/ModelProbs.v, ModelSamples.v, ModelCollapse.v, ModelResult.v
   (tied to /repo by the exact correspondence of harness/c03.py on every run).
   All theorems are for every number of qubits n, every duplicate-free in-range qubit list in
   ANY order (unless stated), every state / weight vector over Z resp. Z[i]. *)
From Coq Require Import List Bool Arith ZArith.
From QV Require Import Base.Mat Base.Zi C03.ModelSamples C03.ModelProbs C03.ModelCollapse C03.ModelResult
     C03.ProofsSamples C03.ProofsProbs C03.ProofsProbsDM C03.ProofsCollapse C03.ProofsCollapseDM
     C03.ProofsResult C03.ProofsCheck C03.ModelCircuit C03.ProofsCircuit C03.ModelRepeated C03.ProofsRepeated.
Import ListNotations.

(* calculate_probabilities = Born marginal sum_{x : x|qs = b} |psi_x|^2 in the requested order.
   The real code raises (numpy transpose) for repeated or out-of-range qubits. *)
Theorem probs_sv_ok :
  forall n qs w, NoDup qs -> (forall q, In q qs -> q < n) -> calc_probs n qs w = born_vec n qs w.
Proof. exact probs_sv_correct. Qed.
Print Assumptions probs_sv_ok.

Example probs_sv_ok_nonvacuous :
  NoDup [2; 0] /\ (forall q, In q [2; 0] -> q < 3) /\
  calc_probs 3 [2; 0] [1; 4; 9; 16; 25; 36; 49; 25]%Z = [10; 74; 20; 61]%Z.
Proof.
  split; [|split].
  - constructor; [cbn; intros [H|[]]; discriminate | constructor; [intros [] | constructor]].
  - intros q [<-|[<-|[]]]; auto.
  - vm_compute. reflexivity.
Qed.

(* calculate_probabilities_density_matrix: the value before np.abs is the Born marginal of the
   diagonal of rho (over Z[i], any matrix); for a real non-negative diagonal np.abs is the
   identity and the reported probabilities are the Born marginal *)
Theorem probs_dm_pre_ok :
  forall n qs, NoDup qs -> (forall q, In q qs -> q < n) -> forall rho,
    calc_probs_dm_pre n qs rho = born_vec_zi n qs (dm_diag rho).
Proof. exact probs_dm_pre_correct. Qed.
Print Assumptions probs_dm_pre_ok.

Theorem probs_dm_ok :
  forall n qs rho, NoDup qs -> (forall q, In q qs -> q < n) ->
    Forall (fun z => (0 <= fst z)%Z) (dm_diag rho) ->
    calc_probs_dm n qs rho = born_vec n qs (map fst (dm_diag rho)).
Proof. exact probs_dm_correct. Qed.
Print Assumptions probs_dm_ok.

(* samples_to_binary / samples_to_decimal are mutually inverse *)
Theorem bin_dec_inverse :
  (forall k s, s < 2 ^ k -> to_dec (to_bin k s) = s) /\
  (forall k b, length b = k -> to_bin k (to_dec b) = b).
Proof. exact (conj bin_dec_inverse_l bin_dec_inverse_r). Qed.
Print Assumptions bin_dec_inverse.

(* calculate_frequencies: a Counter with distinct keys whose entries are the numbers of
   occurrences, hence summing to the number of shots *)
Theorem freq_total :
  forall l, total (calc_freq l) = length l /\ NoDup (keys (calc_freq l)) /\
            forall v, lookup v (calc_freq l) = count_occ Nat.eq_dec l v.
Proof. intros l. exact (conj (total_calc_freq l) (conj (nodup_calc_freq l) (lookup_calc_freq l))). Qed.
Print Assumptions freq_total.

(* register data = the outcome read along the register's own qubit list: if the row of the
   global samples is the outcome sigma read along the global measured qubits Q (in the order
   the qubits were given), the columns samples[:, rqubits] of a register are sigma read along
   the register's qubits in their own order.  Needs that no qubit is measured twice. *)
Theorem register_view_ok :
  forall Q reg (sigma : nat -> bool), NoDup Q -> incl reg Q ->
    take_cols (reg_cols Q reg) (map sigma Q) = map sigma reg.
Proof. exact register_view. Qed.
Print Assumptions register_view_ok.

(* the projection of frequencies onto a register (the rfreqs loop) counts the projected shots *)
Theorem register_freq_ok :
  forall k cols f u, NoDup (keys (reg_freq k cols f)) /\
    lookup u (reg_freq k cols f) =
    count_occ Nat.eq_dec (map (fun s => to_dec (take_cols cols (to_bin k s))) (expand f)) u /\
    total (reg_freq k cols f) = total f.     (* no shot is lost: every register sums to nshots *)
Proof. intros. exact (conj (nodup_reg_freq k cols f) (conj (lookup_reg_freq k cols f u) (total_reg_freq k cols f))). Qed.
Print Assumptions register_freq_ok.

(* every view returned by a result is a function of one list of shots of that result: invariant
   over ALL operation sequences (any order and flags of samples()/frequencies()/probabilities()
   on any result, any number of executions of the circuit before, between or after); the shots
   have the right count and non-zero probability ([shots_ok], from the sampler contract
   [oracles_ok]) *)
Theorem views_consistent :
  forall cfg, cfg_wf cfg -> forall h,
    hist_wf cfg 0 h = true -> oracles_ok cfg (init cfg) h = true -> standalone cfg h.
Proof. exact all_histories_standalone. Qed.
Print Assumptions views_consistent.

Example views_consistent_nonvacuous :
  let cfg := mkcfg 3 [[2; 0]; [1]] in
  let h := [Exec [1; 0; 0; 1; 0; 0; 2; 0]%Z 3; Freqs 0 false true [(0, 1); (5, 2)];
            Samples 0 true true [5; 0; 5]; Probs 0 [1; 2]; Freqs 0 true false []; Samples 0 false false []] in
  hist_wf cfg 0 h = true /\ oracles_ok cfg (init cfg) h = true /\
  fst (run cfg (init cfg) h) =
    [ODone; ORegFreqDec [[(0, 1); (2, 2)]; [(0, 1); (1, 2)]];
     ORegSamplesBin [[[true; false]; [false; false]; [true; false]]; [[true]; [false]; [true]]];
     OProbs [1; 0; 2; 1]%Z; OFreqBin [([false; false; false], 1); ([true; false; true], 2)];
     OSamplesDec [5; 0; 5]].
Proof. vm_compute. auto. Qed.

(* M.apply with collapse=True, for the gate's qubits in ANY order: the state becomes the
   (un-normalised) projection P psi onto the recorded outcome, the recorded bits being read in the
   order of the gate's own qubits, and the squared norm used for the normalisation is the Born
   probability of that outcome.  (Before the repair of MeasurementResult.add_shot the bits were
   recorded in sorted-qubit order and this statement was false for unsorted lists, e.g.
   M(2,0,collapse=True) on |100>.) *)
Theorem collapse_ok :
  forall n tq shot psi, NoDup tq -> (forall q, In q tq -> q < n) ->
    collapsed (m_apply n tq shot psi) = Some (project n tq (recorded (m_apply n tq shot psi)) psi) /\
    cnorm2 (m_apply n tq shot psi) = born n tq (map zi_norm2 psi) (recorded (m_apply n tq shot psi)).
Proof. exact m_apply_correct. Qed.
Print Assumptions collapse_ok.

Theorem collapse_recorded_order :
  forall n tq shot psi, NoDup tq -> (forall q, In q tq -> q < n) ->
    collapsed (m_apply n tq shot psi) = Some (project n tq (recorded (m_apply n tq shot psi)) psi).
Proof. exact m_apply_recorded_order. Qed.
Print Assumptions collapse_recorded_order.

Example collapse_recorded_order_nonvacuous :
  NoDup [2; 0] /\ (forall q, In q [2; 0] -> q < 3) /\
  recorded (m_apply 3 [2; 0] 2 [zi0; zi0; zi0; zi0; zi1; zi0; zi0; zi0]) = [false; true] /\
  collapsed (m_apply 3 [2; 0] 2 [zi0; zi0; zi0; zi0; zi1; zi0; zi0; zi0])
    = Some [zi0; zi0; zi0; zi0; zi1; zi0; zi0; zi0].
Proof.
  split; [|split; [|split]].
  - constructor; [cbn; intros [H|[]]; discriminate | constructor; [intros [] | constructor]].
  - intros q [<-|[<-|[]]]; auto.
  - reflexivity.
  - vm_compute. reflexivity.
Qed.

(* result.symbols[i] stands for target_qubits[i]: on the support of the collapsed state
   (= where sel tq x is the recorded outcome, by collapse_ok) that qubit has the symbol's value *)
Theorem symbols_follow_gate_order :
  forall n tq shot psi i x, i < length tq ->
    beqb (sel tq x) (recorded (m_apply n tq shot psi)) = true ->
    nth (nth i tq 0) x false = symbol_outcome (m_apply n tq shot psi) i.
Proof. exact symbols_gate_order. Qed.
Print Assumptions symbols_follow_gate_order.

(* collapse_density_matrix (what M.apply_density_matrix calls on the sorted qubits) = P rho P *)
Theorem collapse_dm_ok :
  forall n qs, asc 0 qs = true -> (forall q, In q qs -> q < n) -> forall shot rho,
    collapse_dm n qs shot rho = Some (project_dm n qs (to_bin (length qs) shot) rho).
Proof. exact collapse_dm_sorted. Qed.
Print Assumptions collapse_dm_ok.

(* the decidable oracle that harness/c03.py and harness/c14.py evaluate (by vm_compute) on the
   outputs of the REAL implementation is sound for the specification *)
Theorem explainsb_sound :
  forall cfg w sh o x, explainsb cfg w sh o x = true -> explains cfg w sh o x.
Proof. exact explainsb_sound_thm. Qed.
Print Assumptions explainsb_sound.

Theorem shots_okb_sound :
  forall cfg w ns sh, shots_okb cfg w ns sh = true -> shots_ok cfg w ns sh.
Proof. exact shots_okb_sound_thm. Qed.
Print Assumptions shots_okb_sound.

(* Circuit.add, measurement bookkeeping when gates follow a measurement: after adding a gate on
   the qubits gq, EVERY previously added non-collapsing measurement that shares a qubit with it
   has collapse = True and is no longer in circuit.measurements; every other measurement
   (untouched ones, and those that were already collapsing) is unchanged, the order of
   circuit.measurements is kept, has_collapse is set iff some measurement was converted or it was
   set before.  [circ_wf] (no index twice in measurements, all of them non-collapsing) holds for
   every circuit built by add calls (circuit_bookkeeping_invariant). *)
Theorem circuit_add_gate_ok :
  forall st gq, circ_wf st ->
  exists st', add_op st (AddG gq) = Some st' /\
    length (k_ms st') = length (k_ms st) /\
    (forall j, m_qs (nth j (k_ms st') mrec0) = m_qs (nth j (k_ms st) mrec0) /\
               m_name (nth j (k_ms st') mrec0) = m_name (nth j (k_ms st) mrec0)) /\
    (forall i, In i (k_meas st) -> touched st gq i = true ->
               m_coll (nth i (k_ms st') mrec0) = true /\ ~ In i (k_meas st')) /\
    (forall i, In i (k_meas st) -> touched st gq i = false ->
               m_coll (nth i (k_ms st') mrec0) = false /\ In i (k_meas st')) /\
    (forall j, ~ In j (k_meas st) -> m_coll (nth j (k_ms st') mrec0) = m_coll (nth j (k_ms st) mrec0)) /\
    k_meas st' = filter (fun i => negb (touched st gq i)) (k_meas st) /\
    k_hc st' = k_hc st || existsb (touched st gq) (k_meas st) /\
    circ_wf st'.
Proof. exact add_gate_spec. Qed.
Print Assumptions circuit_add_gate_ok.

Theorem circuit_add_measurement_ok :
  forall st qs name c st', circ_wf st -> add_op st (AddM qs name c) = Some st' ->
  k_ms st' = k_ms st ++ [mkmrec qs (match name with Some s => inr s | None => inl (length (k_ms st)) end) c] /\
  k_meas st' = (if c then k_meas st else k_meas st ++ [length (k_ms st)]) /\
  k_hc st' = k_hc st || c /\ circ_wf st'.
Proof. exact add_measurement_spec. Qed.
Print Assumptions circuit_add_measurement_ok.

Theorem circuit_bookkeeping_invariant :
  forall l st', add_ops circ0 l = Some st' -> circ_wf st'.
Proof. intros l st'. exact (add_ops_wf l circ0 st' circ0_wf). Qed.
Print Assumptions circuit_bookkeeping_invariant.

(* two registers, then a CNOT touching both: both are converted *)
Example circuit_add_gate_nonvacuous :
  add_ops circ0 [AddM [0] (Some 0) false; AddM [1] (Some 1) false; AddM [2] None false; AddG [0; 1]] =
  Some (mkcirc [mkmrec [0] (inr 0) true; mkmrec [1] (inr 1) true; mkmrec [2] (inl 2) false] [2] true).
Proof. reflexivity. Qed.

(* results of shot-by-shot execution (collapsing measurements / unitary channels on state
   vectors): every samples/frequencies view, including the pre-computed
   _repeated_execution_frequencies and its int(key, 2) conversion, is the same data as the
   aggregated samples *)
Theorem repeated_execution_views_ok :
  forall cfg (w : list Z) sh o, Forall (fun s => s < 2 ^ ck cfg) sh -> needs_shots o = true ->
    explains cfg w sh o (rep_view cfg sh o).
Proof. exact rep_views_explained. Qed.
Print Assumptions repeated_execution_views_ok.
