(* C03/ModelSamples.v : executable models of
     backends/numpy.py   samples_to_binary / samples_to_decimal / calculate_frequencies
     measurements.py     frequencies_to_binary
     gates/measurements.py  M.add  (global measurement gate = concatenation of the registers)
     result.py           the register projection of samples (samples[:, rqubits]) and of
                         frequencies (the rfreqs loop of MeasurementOutcomes.frequencies)
   No proofs here.  A shot in decimal form is a nat, in binary form a list of bool (head = first
   measured qubit = most significant bit).  A collections.Counter is an insertion-ordered
   association list with distinct keys; Python compares Counters as finite maps, and so do the
   theorems (through [lookup]) and the harness (after sorting). *)
From Coq Require Import List Bool Arith Lia.
From QV Require Import Base.Mat.
Import ListNotations.

Definition bits := list bool.

(* qrange = arange(nqubits-1, -1, -1);  mod(right_shift(s, qrange), 2) *)
Definition qrange (k : nat) : list nat := rev (seq 0 k).
Definition to_bin (k s : nat) : bits := map (fun e => Nat.odd (Nat.shiftr s e)) (qrange k).

(* matmul(samples, 2**qrange) *)
Fixpoint to_dec (b : bits) : nat :=
  match b with
  | [] => 0
  | x :: b' => (if x then 2 ^ length b' else 0) + to_dec b'
  end.

(* ---- Counters *)
Definition counter := list (nat * nat).
Fixpoint lookup (v : nat) (f : counter) : nat :=
  match f with
  | [] => 0
  | (k, c) :: f' => if v =? k then c else lookup v f'
  end.
(* c[v] += n *)
Fixpoint bump (v n : nat) (f : counter) : counter :=
  match f with
  | [] => [(v, n)]
  | (k, c) :: f' => if v =? k then (k, c + n) :: f' else (k, c) :: bump v n f'
  end.
Definition total (f : counter) : nat := fold_right (fun p a => snd p + a) 0 f.
Definition keys (f : counter) : list nat := map fst f.

(* np.unique(samples, return_counts=True) -> Counter(dict(zip(res, counts))) *)
Definition calc_freq (l : list nat) : counter := fold_left (fun f v => bump v 1 f) l [].

(* frequencies_to_binary: keys "{:b}".format(k).zfill(nqubits).  For k >= 2^nqubits the real
   code produces a longer string; the model is only used below that bound. *)
Definition bcounter := list (bits * nat).
Definition fbin (k : nat) (f : counter) : bcounter := map (fun p => (to_bin k (fst p), snd p)) f.

(* the samples an existing Counter stands for: concatenate([repeat(x, f) for x, f in items]) *)
Definition expand (f : counter) : list nat := flat_map (fun p => repeat (fst p) (snd p)) f.

(* ---- registers *)
(* M.add: target_qubits += gate.target_qubits, starting from a copy of the first gate *)
Definition global_qubits (regs : list (list nat)) : list nat := concat regs.

(* qubit_map = {q: i for i, q in enumerate(qubits)} ; .get(q): the LAST position wins when a
   qubit occurs twice, None (modelled as length) when absent *)
Fixpoint qmap_get_from (i : nat) (Q : list nat) (q : nat) (cur : option nat) : option nat :=
  match Q with
  | [] => cur
  | x :: Q' => qmap_get_from (S i) Q' q (if x =? q then Some i else cur)
  end.
Definition qmap_get (Q : list nat) (q : nat) : nat :=
  match qmap_get_from 0 Q q None with Some i => i | None => length Q end.
Definition reg_cols (Q reg : list nat) : list nat := map (qmap_get Q) reg.

(* samples[:, rqubits] on one row *)
Definition take_cols (cols : list nat) (row : bits) : bits := map (fun j => nth j row false) cols.

(* the rfreqs loop: idx = sum_i [bitstring[qubit_map[q_i]] == '1'] * 2^(len - i - 1) ; rfreqs[idx] += freq *)
Definition reg_freq (k : nat) (cols : list nat) (f : counter) : counter :=
  fold_left (fun acc p => bump (to_dec (take_cols cols (to_bin k (fst p)))) (snd p) acc) f [].

(* first position of q in Q (specification side) *)
Fixpoint index_of (q : nat) (Q : list nat) : nat :=
  match Q with
  | [] => 0
  | x :: Q' => if x =? q then 0 else S (index_of q Q')
  end.
