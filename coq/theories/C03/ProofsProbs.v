(* C03/ProofsProbs.v : the model of calculate_probabilities equals the Born marginal in the
   requested qubit order, for every n, every duplicate-free in-range qubit list in any order and
   every weight vector. *)
From Coq Require Import List Bool Arith ZArith Lia Permutation.
From QV Require Import Base.Mat Base.Zi C03.ModelSamples C03.ModelProbs C03.ProofsSamples.
Import ListNotations.

(* ---------- generic list facts *)
Lemma beqb_eq a : forall b, beqb a b = true <-> a = b.
Proof.
  induction a as [|x a IH]; intros [|y b]; cbn [beqb]; try (split; [discriminate|discriminate]); [tauto|].
  rewrite andb_true_iff, IH. split.
  - intros [H1 H2]. apply eqb_prop in H1. now subst.
  - intros H. inversion H; subst. split; [apply eqb_reflx | reflexivity].
Qed.

Lemma beqb_iff a b c d : (a = b <-> c = d) -> beqb a b = beqb c d.
Proof.
  intros H. destruct (beqb a b) eqn:E1, (beqb c d) eqn:E2; try reflexivity.
  - apply beqb_eq in E1. apply H in E1. apply beqb_eq in E1. congruence.
  - apply beqb_eq in E2. apply H in E2. apply beqb_eq in E2. congruence.
Qed.

Lemma allbits_length n : forall b, In b (allbits n) -> length b = n.
Proof.
  induction n as [|n IH]; intros b Hb; cbn [allbits] in Hb.
  - destruct Hb as [<-|[]]. reflexivity.
  - apply in_app_or in Hb. destruct Hb as [Hb|Hb]; apply in_map_iff in Hb;
      destruct Hb as [b' [<- Hb']]; cbn [length]; f_equal; auto.
Qed.

Lemma nth_map_lt {A B} (f : A -> B) l i d d' : i < length l -> nth i (map f l) d' = f (nth i l d).
Proof.
  revert i. induction l as [|x l IH]; intros i Hi; cbn [length] in Hi; [lia|].
  destruct i; cbn [map nth]; [reflexivity|]. apply IH. lia.
Qed.

Lemma mem_In i qs : mem i qs = true <-> In i qs.
Proof. unfold mem. apply existsb_eqb_In. Qed.

Lemma filter_length_compl {A} (p : A -> bool) l :
  length (filter p l) + length (filter (fun x => negb (p x)) l) = length l.
Proof.
  induction l as [|x l IH]; [reflexivity|]. cbn [filter]. destruct (p x); cbn [negb length]; lia.
Qed.

(* the position of i in the increasing enumeration of {j < n | p j} *)
Lemma rank_nth (p : nat -> bool) n i d : i < n -> p i = true ->
  nth (length (filter p (seq 0 i))) (filter p (seq 0 n)) d = i /\
  length (filter p (seq 0 i)) < length (filter p (seq 0 n)).
Proof.
  intros Hi Hp.
  replace n with (i + S (n - i - 1)) by lia.
  rewrite seq_app. cbn [seq Nat.add]. rewrite filter_app. cbn [filter]. rewrite Hp.
  split.
  - rewrite app_nth2 by lia. rewrite Nat.sub_diag. reflexivity.
  - rewrite app_length. cbn [length]. lia.
Qed.

Lemma index_of_nth l : forall j, NoDup l -> j < length l -> index_of (nth j l 0) l = j.
Proof.
  induction l as [|x l IH]; intros j Hnd Hj; cbn [length] in Hj; [lia|].
  inversion Hnd as [|? ? Hx Hl]; subst.
  destruct j; cbn [nth index_of].
  - now rewrite Nat.eqb_refl.
  - destruct (x =? nth j l 0) eqn:E.
    + apply Nat.eqb_eq in E. exfalso. apply Hx. rewrite E. apply nth_In. lia.
    + f_equal. apply IH; [assumption | lia].
Qed.

(* ---------- the transposition computed by _order_probabilities *)
Section Order.
  Variables (n : nat) (qs : list nat).
  Hypothesis Hnd : NoDup qs.
  Hypothesis Hlt : forall q, In q qs -> q < n.

  Let k := length qs.
  Let msort := filter (fun i => mem i qs) (seq 0 n).
  Let perm := map (reduced qs) qs.

  Lemma kept_is_msort :
    filter (fun i => negb (mem i (unmeasured n qs))) (seq 0 n) = msort.
  Proof.
    apply filter_ext_in. intros i Hi. unfold unmeasured.
    destruct (mem i qs) eqn:E.
    - destruct (mem i (filter (fun i0 => negb (mem i0 qs)) (seq 0 n))) eqn:E2; [|reflexivity].
      apply mem_In in E2. apply filter_In in E2. rewrite E in E2. now destruct E2.
    - assert (mem i (filter (fun i0 => negb (mem i0 qs)) (seq 0 n)) = true) as ->; [|reflexivity].
      apply mem_In. apply filter_In. now rewrite E.
  Qed.

  Lemma msort_perm : Permutation msort qs.
  Proof.
    apply NoDup_Permutation.
    - apply NoDup_filter, seq_NoDup.
    - exact Hnd.
    - intros x. unfold msort. rewrite filter_In, in_seq, mem_In. split; [tauto|].
      intros H. split; [|assumption]. specialize (Hlt x H). lia.
  Qed.

  Lemma msort_length : length msort = k.
  Proof. apply Permutation_length, msort_perm. Qed.

  Lemma reduced_rank i : reduced qs i = length (filter (fun j => mem j qs) (seq 0 i)).
  Proof.
    unfold reduced.
    pose proof (filter_length_compl (fun j => mem j qs) (seq 0 i)) as H.
    rewrite seq_length in H. lia.
  Qed.

  Lemma perm_spec j : j < k ->
    nth j perm 0 < k /\ nth (nth j perm 0) msort 0 = nth j qs 0.
  Proof.
    intros Hj. unfold perm. rewrite (nth_map_lt _ _ _ 0) by exact Hj.
    rewrite reduced_rank.
    assert (In (nth j qs 0) qs) as Hin by (apply nth_In; exact Hj).
    destruct (rank_nth (fun i => mem i qs) n (nth j qs 0) 0 (Hlt _ Hin)) as [H1 H2].
    { now apply mem_In. }
    fold msort in H1, H2. rewrite msort_length in H2. split; assumption.
  Qed.

  Lemma perm_length : length perm = k.
  Proof. unfold perm. apply map_length. Qed.

  Lemma perm_nodup : NoDup perm.
  Proof.
    apply (NoDup_nth perm 0). intros i j Hi Hj E.
    rewrite perm_length in Hi, Hj.
    destruct (perm_spec i Hi) as [_ Hi2]. destruct (perm_spec j Hj) as [_ Hj2].
    rewrite E in Hi2. rewrite Hi2 in Hj2.
    apply (proj1 (NoDup_nth qs 0) Hnd i j Hi Hj Hj2).
  Qed.

  Lemma perm_surj a : a < k -> exists j, j < k /\ nth j perm 0 = a.
  Proof.
    intros Ha.
    assert (incl (seq 0 k) perm) as Hincl.
    { apply NoDup_length_incl.
      - apply perm_nodup.
      - rewrite seq_length, perm_length. lia.
      - intros x Hx. apply (In_nth _ _ 0) in Hx. destruct Hx as [j [Hj <-]].
        rewrite perm_length in Hj. apply in_seq. destruct (perm_spec j Hj). lia. }
    assert (In a perm) as Hin by (apply Hincl, in_seq; lia).
    apply (In_nth _ _ 0) in Hin. destruct Hin as [j [Hj E]].
    rewrite perm_length in Hj. eauto.
  Qed.

  (* selecting the sorted measured qubits and un-transposing = selecting qs directly *)
  Lemma transpose_select x b : length b = k ->
    beqb (sel msort x) (map (fun a => nth (index_of a perm) b false) (seq 0 (length perm))) =
    beqb (sel qs x) b.
  Proof.
    intros Hb. apply beqb_iff. rewrite perm_length.
    set (y := map (fun a => nth (index_of a perm) b false) (seq 0 k)).
    assert (Hy : forall a, a < k -> nth a y false = nth (index_of a perm) b false).
    { intros a Ha. unfold y. rewrite (nth_map_lt _ _ _ 0) by (rewrite seq_length; exact Ha).
      rewrite seq_nth by exact Ha. reflexivity. }
    assert (Hsm : forall a, a < k -> nth a (sel msort x) false = nth (nth a msort 0) x false).
    { intros a Ha. unfold sel. rewrite (nth_map_lt _ _ _ 0); [reflexivity|]. rewrite msort_length. exact Ha. }
    assert (Hsq : forall j, j < k -> nth j (sel qs x) false = nth (nth j qs 0) x false).
    { intros j Hj. unfold sel. rewrite (nth_map_lt _ _ _ 0); [reflexivity|]. exact Hj. }
    split; intros E.
    - apply (nth_ext _ _ false false).
      + unfold sel. rewrite map_length. symmetry. exact Hb.
      + intros j Hj. unfold sel in Hj. rewrite map_length in Hj. fold k in Hj.
        destruct (perm_spec j Hj) as [Hp1 Hp2].
        rewrite Hsq by exact Hj. rewrite <- Hp2, <- Hsm by exact Hp1.
        rewrite E, Hy by exact Hp1.
        rewrite index_of_nth; [reflexivity | apply perm_nodup | rewrite perm_length; exact Hj].
    - apply (nth_ext _ _ false false).
      + unfold sel, y. rewrite !map_length, seq_length. apply msort_length.
      + intros a Ha. unfold sel in Ha. rewrite map_length, msort_length in Ha.
        destruct (perm_surj a Ha) as [j [Hj Hja]].
        destruct (perm_spec j Hj) as [Hp1 Hp2].
        rewrite Hsm, Hy by exact Ha. rewrite <- Hja at 1. rewrite Hp2, <- Hsq by exact Hj.
        rewrite E, <- Hja.
        rewrite index_of_nth; [reflexivity | apply perm_nodup | rewrite perm_length; exact Hj].
  Qed.

  Lemma probs_sv_entry w b : length b = k ->
    order_probabilities qs (np_sum_axes n (unmeasured n qs) (reshape_bits w)) b = born n qs w b.
  Proof.
    intros Hb. unfold order_probabilities, np_transpose, np_sum_axes, born.
    rewrite kept_is_msort. fold perm. unfold reshape_bits.
    f_equal. f_equal. apply filter_ext. intros x. apply transpose_select. exact Hb.
  Qed.
End Order.

Lemma probs_sv_correct n qs w :
  NoDup qs -> (forall q, In q qs -> q < n) -> calc_probs n qs w = born_vec n qs w.
Proof.
  intros Hnd Hlt. unfold calc_probs, born_vec. apply map_ext_in. intros b Hb.
  apply probs_sv_entry; try assumption. now apply allbits_length.
Qed.
