(* C03/ProofsCircuit.v : adding a gate converts EVERY earlier non-collapsing measurement that
   shares a qubit with it, and nothing else. *)
From Coq Require Import List Bool Arith Lia.
From QV Require Import Base.Mat C03.ModelSamples C03.ModelProbs C03.ModelCircuit C03.ProofsSamples C03.ProofsProbs.
Import ListNotations.

Definition circ_wf (st : circ) : Prop :=
  NoDup (k_meas st) /\ (forall i, In i (k_meas st) -> i < length (k_ms st) /\ m_coll (nth i (k_ms st) mrec0) = false).

Lemma set_coll_length i : forall ms, length (set_coll i ms) = length ms.
Proof. induction i as [|i IH]; intros [|m ms]; cbn [set_coll length]; auto. Qed.

Lemma set_coll_nth i : forall ms j,
  nth j (set_coll i ms) mrec0 =
  if (j =? i) && (j <? length ms)
  then mkmrec (m_qs (nth j ms mrec0)) (m_name (nth j ms mrec0)) true
  else nth j ms mrec0.
Proof.
  induction i as [|i IH]; intros [|m ms] j; destruct j; try reflexivity.
  - cbn. now rewrite andb_false_r.
  - cbn [set_coll nth length]. rewrite IH. reflexivity.
Qed.

Lemma remove_first_filter i l : NoDup l -> remove_first i l = filter (fun x => negb (x =? i)) l.
Proof.
  induction 1 as [|x l Hx Hl IH]; [reflexivity|]. cbn [remove_first filter].
  destruct (x =? i) eqn:E; cbn [negb].
  - apply Nat.eqb_eq in E. subst. symmetry.
    rewrite <- (filter_ext_in (fun _ => true)).
    + clear. induction l; cbn; congruence.
    + intros y Hy. destruct (y =? i) eqn:E2; [apply Nat.eqb_eq in E2; subst; contradiction | reflexivity].
  - now rewrite IH.
Qed.

Lemma filter_filter_and' {A} (f g : A -> bool) l :
  filter f (filter g l) = filter (fun x => f x && g x) l.
Proof.
  induction l as [|x l IH]; [reflexivity|]. cbn [filter].
  destruct (g x); cbn [filter]; destruct (f x); cbn [andb]; now rewrite IH.
Qed.

Lemma existsb_ext' {A} (f g : A -> bool) l : (forall x, f x = g x) -> existsb f l = existsb g l.
Proof. intros H. induction l as [|x l IH]; [reflexivity|]. cbn [existsb]. now rewrite H, IH. Qed.

(* what a gate on qubits gq does to the measurement with index i *)
Definition touched (st : circ) (gq : list nat) (i : nat) : bool :=
  overlap (m_qs (nth i (k_ms st) mrec0)) gq.

Notation coll st j := (m_coll (nth j (k_ms st) mrec0)).

(* one iteration of the loop *)
Lemma convert_step gq st i :
  let st1 := convert_one gq st i in
  length (k_ms st1) = length (k_ms st) /\
  (forall j, m_qs (nth j (k_ms st1) mrec0) = m_qs (nth j (k_ms st) mrec0)) /\
  (forall j, m_name (nth j (k_ms st1) mrec0) = m_name (nth j (k_ms st) mrec0)) /\
  (forall j, coll st1 j = coll st j || ((j =? i) && (j <? length (k_ms st)) && touched st gq i)) /\
  k_meas st1 = (if touched st gq i then remove_first i (k_meas st) else k_meas st) /\
  k_hc st1 = k_hc st || touched st gq i.
Proof.
  cbn zeta. unfold convert_one. fold (touched st gq i). destruct (touched st gq i); cbn [k_ms k_meas k_hc].
  - split; [apply set_coll_length|]. repeat split; try (intros j; rewrite set_coll_nth;
      destruct ((j =? i) && (j <? length (k_ms st))); cbn [m_qs m_name m_coll]; rewrite ?andb_true_r, ?orb_true_r, ?orb_false_r; reflexivity).
    now rewrite orb_true_r.
  - repeat split; try (intros j; now rewrite andb_false_r, orb_false_r). now rewrite orb_false_r.
Qed.

Lemma touched_step gq st i j : touched (convert_one gq st i) gq j = touched st gq j.
Proof. unfold touched. destruct (convert_step gq st i) as [_ [H _]]. now rewrite H. Qed.

Lemma mem_false_notin i l : ~ In i l -> mem i l = false.
Proof. intros H. destruct (mem i l) eqn:E; [apply mem_In in E; contradiction | reflexivity]. Qed.

Lemma filter_true {A} (l : list A) : filter (fun _ => true) l = l.
Proof. induction l; cbn; congruence. Qed.

Lemma convert_fold gq l : forall st, NoDup l -> NoDup (k_meas st) ->
  let st' := fold_left (convert_one gq) l st in
  length (k_ms st') = length (k_ms st) /\
  (forall j, m_qs (nth j (k_ms st') mrec0) = m_qs (nth j (k_ms st) mrec0)) /\
  (forall j, m_name (nth j (k_ms st') mrec0) = m_name (nth j (k_ms st) mrec0)) /\
  (forall j, coll st' j = coll st j || (mem j l && (j <? length (k_ms st)) && touched st gq j)) /\
  k_meas st' = filter (fun i => negb (mem i l && touched st gq i)) (k_meas st) /\
  k_hc st' = k_hc st || existsb (touched st gq) l.
Proof.
  induction l as [|i l IH]; intros st Hl Hm; cbn [fold_left].
  - cbn zeta. repeat split; try (intros j; cbn [mem existsb andb]; now rewrite orb_false_r).
    + cbn [mem existsb andb negb]. now rewrite filter_true.
    + cbn [existsb]. now rewrite orb_false_r.
  - inversion Hl as [|? ? Hi Hl']; subst.
    destruct (convert_step gq st i) as [S1 [S2 [S3 [S4 [S5 S6]]]]]. cbn zeta in *.
    set (st1 := convert_one gq st i) in *.
    assert (Hm1 : NoDup (k_meas st1)).
    { rewrite S5. destruct (touched st gq i); [|exact Hm].
      rewrite remove_first_filter by exact Hm. now apply NoDup_filter. }
    destruct (IH st1 Hl' Hm1) as [I1 [I2 [I3 [I4 [I5 I6]]]]]. cbn zeta in *.
    assert (Ht : forall j, touched st1 gq j = touched st gq j) by (intros j; apply touched_step).
    split; [congruence|]. split; [intros j; now rewrite I2, S2|]. split; [intros j; now rewrite I3, S3|].
    split; [|split].
    + intros j. rewrite I4, S4, S1, Ht. unfold mem at 2. cbn [existsb]. fold (mem j l).
      destruct (j =? i) eqn:E; [apply Nat.eqb_eq in E; subst j|];
        destruct (coll st _), (mem _ l), (_ <? _), (touched st gq _); reflexivity.
    + rewrite I5, S5.
      assert (E0 : (if touched st gq i then remove_first i (k_meas st) else k_meas st)
                   = filter (fun x => negb ((x =? i) && touched st gq i)) (k_meas st)).
      { destruct (touched st gq i).
        - rewrite remove_first_filter by exact Hm. apply filter_ext. intros x. now rewrite andb_true_r.
        - rewrite <- (filter_true (k_meas st)) at 1. apply filter_ext. intros x. now rewrite andb_false_r. }
      rewrite E0, filter_filter_and'. apply filter_ext. intros x. rewrite Ht.
      unfold mem at 2. cbn [existsb]. fold (mem x l).
      destruct (x =? i) eqn:E; [apply Nat.eqb_eq in E; subst x|];
        destruct (mem _ l);
        repeat match goal with |- context [touched st gq ?a] => destruct (touched st gq a) end; reflexivity.
    + rewrite I6, S6. cbn [existsb]. rewrite (existsb_ext' _ _ _ Ht). now rewrite orb_assoc.
Qed.

(* ---------- adding a gate *)
Theorem add_gate_spec st gq :
  circ_wf st ->
  exists st', add_op st (AddG gq) = Some st' /\
    length (k_ms st') = length (k_ms st) /\
    (forall j, m_qs (nth j (k_ms st') mrec0) = m_qs (nth j (k_ms st) mrec0) /\
               m_name (nth j (k_ms st') mrec0) = m_name (nth j (k_ms st) mrec0)) /\
    (* every earlier non-collapsing measurement sharing a qubit with the gate is converted ... *)
    (forall i, In i (k_meas st) -> touched st gq i = true -> coll st' i = true /\ ~ In i (k_meas st')) /\
    (* ... every other one stays a final-state measurement ... *)
    (forall i, In i (k_meas st) -> touched st gq i = false -> coll st' i = false /\ In i (k_meas st')) /\
    (* ... measurements that were already collapsing are untouched, the order is kept *)
    (forall j, ~ In j (k_meas st) -> coll st' j = coll st j) /\
    k_meas st' = filter (fun i => negb (touched st gq i)) (k_meas st) /\
    k_hc st' = k_hc st || existsb (touched st gq) (k_meas st) /\
    circ_wf st'.
Proof.
  intros [Hnd Hwf]. eexists. split; [reflexivity|].
  destruct (convert_fold gq (k_meas st) st Hnd Hnd) as [F1 [F2 [F3 [F4 [F5 F6]]]]]. cbn zeta in *.
  set (st' := fold_left (convert_one gq) (k_meas st) st) in *.
  assert (Hmeas : k_meas st' = filter (fun i => negb (touched st gq i)) (k_meas st)).
  { rewrite F5. apply filter_ext_in. intros i Hi. apply mem_In in Hi. now rewrite Hi. }
  split; [exact F1|]. split; [intros j; split; [apply F2 | apply F3]|].
  split; [|split; [|split; [|split; [exact Hmeas | split; [exact F6|]]]]].
  - intros i Hi Ht. destruct (Hwf i Hi) as [Hlt Hc]. split.
    + rewrite F4. apply mem_In in Hi. rewrite Hi, Ht. apply Nat.ltb_lt in Hlt. rewrite Hlt. now rewrite orb_true_r.
    + rewrite Hmeas, filter_In, Ht. intros [_ H]. discriminate.
  - intros i Hi Ht. destruct (Hwf i Hi) as [Hlt Hc]. split.
    + rewrite F4, Hc, Ht. now rewrite andb_false_r.
    + rewrite Hmeas, filter_In, Ht. auto.
  - intros j Hj. rewrite F4. rewrite (mem_false_notin _ _ Hj). cbn [andb]. now rewrite orb_false_r.
  - split.
    + rewrite Hmeas. now apply NoDup_filter.
    + intros i Hi. rewrite Hmeas in Hi. apply filter_In in Hi. destruct Hi as [Hi Ht].
      apply negb_true_iff in Ht. destruct (Hwf i Hi) as [Hlt Hc]. split; [now rewrite F1|].
      rewrite F4, Hc, Ht. now rewrite andb_false_r.
Qed.

(* ---------- adding a measurement *)
Theorem add_measurement_spec st qs name c st' :
  circ_wf st -> add_op st (AddM qs name c) = Some st' ->
  k_ms st' = k_ms st ++ [mkmrec qs (match name with Some s => inr s | None => inl (length (k_ms st)) end) c] /\
  k_meas st' = (if c then k_meas st else k_meas st ++ [length (k_ms st)]) /\
  k_hc st' = k_hc st || c /\ circ_wf st'.
Proof.
  intros [Hnd Hwf] H. cbn [add_op] in H.
  destruct (match name with Some s => _ | None => false end); [discriminate|]. inversion H; subst st'. clear H.
  cbn [k_ms k_meas k_hc]. repeat split.
  - destruct c; [exact Hnd|]. apply NoDup_snoc; [exact Hnd|]. intros Hin. destruct (Hwf _ Hin). lia.
  - cbn [k_ms k_meas] in *. rewrite app_length. cbn [length].
    destruct c; [destruct (Hwf i H); lia|]. apply in_app_or in H. destruct H as [H|[<-|[]]]; [destruct (Hwf i H)|]; lia.
  - cbn [k_ms k_meas] in *. destruct c.
    + destruct (Hwf i H) as [Hlt Hc]. now rewrite app_nth1.
    + apply in_app_or in H. destruct H as [H|[<-|[]]].
      * destruct (Hwf i H) as [Hlt Hc]. now rewrite app_nth1.
      * rewrite app_nth2 by lia. now rewrite Nat.sub_diag.
Qed.

Lemma circ0_wf : circ_wf circ0.
Proof. split; [constructor | intros i []]. Qed.

(* every circuit built by a sequence of add calls satisfies the invariant *)
Lemma add_ops_wf l : forall st st', circ_wf st -> add_ops st l = Some st' -> circ_wf st'.
Proof.
  induction l as [|o l IH]; intros st st' Hwf H; cbn [add_ops] in H; [now inversion H; subst|].
  destruct (add_op st o) as [st1|] eqn:E; [|discriminate].
  apply (IH st1); [|exact H]. destruct o as [qs name c|gq].
  - now destruct (add_measurement_spec st qs name c st1 Hwf E) as [_ [_ [_ W]]].
  - destruct (add_gate_spec st gq Hwf) as [st2 [E2 R]]. rewrite E in E2. inversion E2; subst. apply R.
Qed.
