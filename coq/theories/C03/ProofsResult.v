(* C03/ProofsResult.v : invariant of the result state machine for histories in which samples()
   and frequencies() are only ever called on ONE result r0 of the circuit (any number of
   executions, probabilities() on any result, any accessor order).  Refinement proof: every
   reachable machine state is the concretisation [conc] of an abstract state consisting of one
   list of shots [a_sh] for r0 plus flags saying which caches are filled; every output is
   explained by that list. *)
From Coq Require Import List Bool Arith ZArith Lia Permutation.
From QV Require Import Base.Mat C03.ModelSamples C03.ModelProbs C03.ModelResult
     C03.ProofsSamples C03.ProofsProbs.
Import ListNotations.

(* ---------- lists *)
Lemma update_nth_length {A} (l : list A) : forall i x, length (update_nth i x l) = length l.
Proof. induction l as [|y l IH]; intros [|i] x; cbn [update_nth length]; auto. Qed.

Lemma nodupb_NoDup l : nodupb l = true -> NoDup l.
Proof.
  induction l as [|x l IH]; cbn [nodupb]; intros H; [constructor|].
  apply andb_true_iff in H. destruct H as [H1 H2]. constructor; [|auto].
  intros Hin. apply existsb_eqb_In in Hin. rewrite Hin in H1. discriminate.
Qed.

Lemma cnt_count l v : count l v = cnt l v.
Proof. reflexivity. Qed.

Lemma counts_ok_perm f l l' : (forall v, cnt l v = cnt l' v) -> counts_ok f l -> counts_ok f l'.
Proof. intros H [H1 H2]. split; [assumption|]. intros v. rewrite H2. apply H. Qed.

Lemma cnt_map_perm (g : nat -> nat) l l' :
  (forall v, cnt l v = cnt l' v) -> forall u, cnt (map g l) u = cnt (map g l') u.
Proof.
  intros H. apply (Permutation_count_occ Nat.eq_dec). apply Permutation_map.
  apply (Permutation_count_occ Nat.eq_dec). exact H.
Qed.

Lemma Forall_cnt_perm (P : nat -> Prop) l l' :
  (forall v, cnt l v = cnt l' v) -> Forall P l -> Forall P l'.
Proof.
  intros H HF. apply (Permutation_count_occ Nat.eq_dec) in H.
  eapply Permutation_Forall; eauto.
Qed.

Lemma length_cnt_perm l l' : (forall v, cnt l v = cnt l' v) -> length l = length l'.
Proof. intros H. apply (Permutation_count_occ Nat.eq_dec) in H. now apply Permutation_length. Qed.

Lemma Forall2_impl' {A B} (P P' : A -> B -> Prop) l l' :
  (forall a b, P a b -> P' a b) -> Forall2 P l l' -> Forall2 P' l l'.
Proof. intros H HF. induction HF; constructor; auto. Qed.

Definition isSome {A} (o : option A) : bool := match o with Some _ => true | None => false end.

Section Single.
  Variable cfg : config.
  Variable r0 : nat.
  Hypothesis Hcfg : cfg_wf cfg.

  Notation n := (c_n cfg).
  Notation regs := (c_regs cfg).
  Notation Q := (cQ cfg).
  Notation k := (ck cfg).

  Lemma regs_in_Q reg : In reg regs -> incl reg Q.
  Proof. intros H q Hq. unfold cQ, global_qubits. apply in_concat. eauto. Qed.

  (* ---------- canonical form of the measurement-gate caches *)
  Definition gcol (reg : list nat) (sh : list nat) : list bits :=
    map (fun s => take_cols (reg_cols Q reg) (to_bin k s)) sh.

  Fixpoint build (rs : list (list nat)) (samp : bool) (sh : list nat) (gfl : list (option counter))
    : list gcache :=
    match rs, gfl with
    | reg :: rs', gfo :: gfl' =>
        mkg (if samp then Some (gcol reg sh) else None) gfo :: build rs' samp sh gfl'
    | _, _ => []
    end.

  Fixpoint fl_of (rs : list (list nat)) (gfl : list (option counter)) (sh : list nat) : list counter :=
    match rs, gfl with
    | reg :: rs', gfo :: gfl' =>
        (match gfo with Some f => f | None => calc_freq (map to_dec (gcol reg sh)) end) :: fl_of rs' gfl' sh
    | _, _ => []
    end.

  Lemma build_false_sh rs sh sh' : forall gfl, build rs false sh gfl = build rs false sh' gfl.
  Proof. induction rs as [|reg rs IH]; intros [|gfo gfl]; cbn [build]; try reflexivity. now rewrite IH. Qed.

  Lemma g0_build samp sh gfl rs fin :
    regs <> [] -> length gfl = length regs ->
    g0_has_samples (mkm (build regs samp sh gfl) rs fin) = samp.
  Proof.
    intros Hne Hlen. unfold g0_has_samples. cbn [m_gates].
    destruct regs as [|reg rs']; [congruence|]. destruct gfl as [|gfo gfl]; [discriminate|].
    cbn [build gs]. now destruct samp.
  Qed.

  Lemma all_gs_build_true rs sh : forall gfl, length gfl = length rs ->
    all_gs (build rs true sh gfl) = Some (map (fun reg => gcol reg sh) rs).
  Proof.
    induction rs as [|reg rs IH]; intros [|gfo gfl] Hlen; cbn [length] in Hlen; try discriminate; [reflexivity|].
    cbn [build]. unfold all_gs in *. cbn [fold_right gs map]. rewrite IH by lia. reflexivity.
  Qed.

  Lemma materialise_gates rs samp sh draw : forall gfl, length gfl = length rs ->
    map (fun rg => mkg (Some (map (take_cols (reg_cols Q (fst rg))) (map (to_bin k) draw))) (gf (snd rg)))
        (combine rs (build rs samp sh gfl)) = build rs true draw gfl.
  Proof.
    induction rs as [|reg rs IH]; intros [|gfo gfl] Hlen; cbn [length] in Hlen; try discriminate; [reflexivity|].
    cbn [build combine map fst snd gf]. rewrite IH by lia. f_equal.
    unfold gcol. now rewrite map_map.
  Qed.

  Lemma freq_gates rs sh sh' fdraw : forall gfl, length gfl = length rs ->
    map (fun rg => mkg (gs (snd rg)) (Some (reg_freq k (reg_cols Q (fst rg)) fdraw)))
        (combine rs (build rs false sh gfl))
    = build rs false sh' (map (fun reg => Some (reg_freq k (reg_cols Q reg) fdraw)) rs).
  Proof.
    induction rs as [|reg rs IH]; intros [|gfo gfl] Hlen; cbn [length] in Hlen; try discriminate; [reflexivity|].
    cbn [build combine map fst snd gs]. now rewrite IH by lia.
  Qed.

  Lemma fl_of_length rs sh : forall gfl, length gfl = length rs -> length (fl_of rs gfl sh) = length rs.
  Proof.
    induction rs as [|reg rs IH]; intros [|gfo gfl] Hlen; cbn [length] in Hlen; try discriminate; [reflexivity|].
    cbn [fl_of length]. now rewrite IH by lia.
  Qed.

  Lemma build_length rs samp sh : forall gfl, length gfl = length rs -> length (build rs samp sh gfl) = length rs.
  Proof.
    induction rs as [|reg rs IH]; intros [|gfo gfl] Hlen; cbn [length] in Hlen; try discriminate; [reflexivity|].
    cbn [build length]. now rewrite IH by lia.
  Qed.

  Lemma gate_freq_build rs samp sh : forall gfl, length gfl = length rs ->
    (samp = true \/ Forall (fun gfo => isSome gfo = true) gfl) ->
    opt_all (map gate_freq (build rs samp sh gfl))
    = Some (combine (build rs samp sh (map Some (fl_of rs gfl sh))) (fl_of rs gfl sh)).
  Proof.
    induction rs as [|reg rs IH]; intros [|gfo gfl] Hlen Hc; cbn [length] in Hlen; try discriminate; [reflexivity|].
    cbn [build map fl_of combine]. unfold opt_all in *. cbn [fold_right].
    rewrite IH; [|lia|].
    - destruct gfo as [f|]; unfold gate_freq; cbn [gf gs]; [reflexivity|].
      destruct samp; [reflexivity|].
      destruct Hc as [Hc|Hc]; [discriminate|]. inversion Hc as [|? ? Hh Ht]; subst. discriminate.
    - destruct Hc as [Hc|Hc]; [now left | right]. now inversion Hc.
  Qed.

  Lemma map_fst_combine {A B} (a : list A) : forall (b : list B), length a = length b -> map fst (combine a b) = a.
  Proof. induction a as [|x a IH]; intros [|y b] H; cbn in *; try discriminate; [reflexivity|]. f_equal. apply IH. lia. Qed.
  Lemma map_snd_combine {A B} (a : list A) : forall (b : list B), length a = length b -> map snd (combine a b) = b.
  Proof. induction a as [|x a IH]; intros [|y b] H; cbn in *; try discriminate; [reflexivity|]. f_equal. apply IH. lia. Qed.

  (* ---------- canonical form of the result objects *)
  Definition mkres (smp : option (list bits)) (frq : option counter) (r : nat) (e : list Z * nat) : result :=
    mkr (fst e) (snd e) (calc_probs n Q (fst e))
        (if r =? r0 then smp else None) (if r =? r0 then frq else None).
  Fixpoint mk_results_from (i : nat) smp frq (es : list (list Z * nat)) : list result :=
    match es with [] => [] | e :: es' => mkres smp frq i e :: mk_results_from (S i) smp frq es' end.

  Lemma mk_results_nth smp frq es : forall i r,
    nth_error (mk_results_from i smp frq es) r = option_map (mkres smp frq (i + r)) (nth_error es r).
  Proof.
    induction es as [|e es IH]; intros i [|r]; cbn [mk_results_from nth_error option_map]; try reflexivity.
    - now rewrite Nat.add_0_r.
    - rewrite IH. now replace (S i + r) with (i + S r) by lia.
  Qed.

  Lemma mk_results_length smp frq es : forall i, length (mk_results_from i smp frq es) = length es.
  Proof. induction es as [|e es IH]; intros i; cbn [mk_results_from length]; auto. Qed.

  Lemma mk_results_irrelevant smp frq smp' frq' es : forall i, r0 < i ->
    mk_results_from i smp frq es = mk_results_from i smp' frq' es.
  Proof.
    induction es as [|e es IH]; intros i Hi; cbn [mk_results_from]; [reflexivity|].
    rewrite (IH (S i)) by lia. f_equal. unfold mkres.
    assert (i =? r0 = false) as -> by (apply Nat.eqb_neq; lia). reflexivity.
  Qed.

  Lemma mk_results_update smp frq smp' frq' es : forall i r e,
    i + r = r0 -> nth_error es r = Some e ->
    update_nth r (mkres smp' frq' r0 e) (mk_results_from i smp frq es) = mk_results_from i smp' frq' es.
  Proof.
    induction es as [|e0 es IH]; intros i [|r] e Hir He; cbn [nth_error] in He; try discriminate.
    - inversion He; subst e0. cbn [mk_results_from update_nth]. rewrite Nat.add_0_r in Hir. subst i.
      f_equal. apply mk_results_irrelevant. lia.
    - cbn [mk_results_from update_nth]. rewrite (IH (S i) r e) by (assumption || lia). f_equal.
      unfold mkres. assert (i =? r0 = false) as -> by (apply Nat.eqb_neq; lia). reflexivity.
  Qed.

  Lemma mk_results_app smp frq es e : forall i,
    mk_results_from i smp frq (es ++ [e]) = mk_results_from i smp frq es ++ [mkres smp frq (i + length es) e].
  Proof.
    induction es as [|e0 es IH]; intros i; cbn [app mk_results_from length].
    - now rewrite Nat.add_0_r.
    - rewrite IH. now replace (S i + length es) with (i + S (length es)) by lia.
  Qed.

  (* ---------- abstract state *)
  Record ast := mka { a_execs : list (list Z * nat); a_smp : bool; a_sh : list nat;
                      a_frq : option counter; a_gfl : list (option counter); a_fin : option nat }.
  Definition smp_of (st : ast) : option (list bits) :=
    if a_smp st then Some (map (to_bin k) (a_sh st)) else None.
  Definition conc (st : ast) : machine :=
    mkm (build regs (a_smp st) (a_sh st) (a_gfl st))
        (mk_results_from 0 (smp_of st) (a_frq st) (a_execs st)) (a_fin st).

  Definition gf_ok (sh : list nat) (reg : list nat) (gfo : option counter) : Prop :=
    match gfo with None => True | Some f => counts_ok f (map (spec_reg_dec cfg reg) sh) end.

  Record wf (st : ast) : Prop := mkwf {
    wf_len : length (a_gfl st) = length regs;
    wf_gf : Forall2 (gf_ok (a_sh st)) regs (a_gfl st);
    wf_frq : match a_frq st with Some F => counts_ok F (a_sh st) | None => True end;
    wf_nosamp : a_smp st = false -> Forall (fun gfo => isSome gfo = isSome (a_frq st)) (a_gfl st);
    wf_active : a_smp st = true \/ isSome (a_frq st) = true ->
                exists e, nth_error (a_execs st) r0 = Some e /\ shots_ok cfg (fst e) (snd e) (a_sh st)
  }.

  Definition item_ok (st : ast) (p : op * out) : Prop :=
    match target (fst p) with
    | None => True
    | Some r => match nth_error (a_execs st) r with
                | Some e => explains cfg (fst e) (if r =? r0 then a_sh st else []) (fst p) (snd p)
                | None => False
                end
    end.
  Definition no_samples_item (p : op * out) : Prop :=
    match fst p with Samples _ _ _ _ => False | _ => True end.

  Definition INV (st : ast) (past : list (op * out)) : Prop :=
    wf st /\ Forall (item_ok st) past /\ (a_smp st = false -> Forall no_samples_item past).

  Definition reader_ok (o : op) : bool :=
    match o with Samples r _ _ _ => r =? r0 | Freqs r _ _ _ => r =? r0 | _ => true end.

  (* ---------- the spec side of the register columns *)
  Lemma gcol_spec reg sh : In reg regs -> gcol reg sh = map (spec_reg_row cfg reg) sh.
  Proof.
    intros Hin. unfold gcol, spec_reg_row. apply map_ext. intros s.
    destruct Hcfg as [_ [Hnd _]].
    rewrite reg_cols_index_of by (auto using regs_in_Q). unfold take_cols. now rewrite map_map.
  Qed.

  Lemma gcol_dec_spec reg sh : In reg regs -> map to_dec (gcol reg sh) = map (spec_reg_dec cfg reg) sh.
  Proof. intros Hin. rewrite gcol_spec by assumption. now rewrite map_map. Qed.

  Lemma map_gcol_spec sh : map (fun reg => gcol reg sh) regs = map (fun reg => map (spec_reg_row cfg reg) sh) regs.
  Proof. apply map_ext_in. intros reg Hin. now apply gcol_spec. Qed.

  Lemma map_gcol_dec_spec sh :
    map (map to_dec) (map (fun reg => gcol reg sh) regs) = map (fun reg => map (spec_reg_dec cfg reg) sh) regs.
  Proof. rewrite map_map. apply map_ext_in. intros reg Hin. now apply gcol_dec_spec. Qed.

  Lemma dec_bin_shots (w : list Z) ns sh : shots_ok cfg w ns sh -> map to_dec (map (to_bin k) sh) = sh.
  Proof.
    intros [_ HF]. rewrite map_map. rewrite <- (map_id sh) at 2. apply map_ext_in. intros s Hs.
    rewrite Forall_forall in HF. destruct (HF s Hs) as [Hlt _]. now apply bin_dec_inverse_l.
  Qed.

  Lemma probs_born w : calc_probs n Q w = born_vec n Q w.
  Proof. destruct Hcfg as [_ [Hnd Hlt]]. now apply probs_sv_correct. Qed.

  (* ---------- explained items survive the transitions *)
  Lemma explains_perm w sh sh' o x :
    (forall v, cnt sh v = cnt sh' v) -> no_samples_item (o, x) ->
    explains cfg w sh o x -> explains cfg w sh' o x.
  Proof.
    intros Hp Hns. destruct o as [w' ns|r b rg d|r b rg fd|r qs|]; cbn [no_samples_item fst] in Hns; try contradiction;
      try (intros H; exact H).
    - (* Freqs *)
      destruct b, rg; destruct x; cbn [explains]; try (intros H; exact H).
      + intros H. eapply Forall2_impl'; [|exact H]. intros reg fb [f0 [E C]]. exists f0. split; [assumption|].
        eapply counts_ok_perm; [|exact C]. now apply cnt_map_perm.
      + intros [f0 [E C]]. exists f0. split; [assumption|]. eapply counts_ok_perm; eauto.
      + intros H. eapply Forall2_impl'; [|exact H]. intros reg f0 C.
        eapply counts_ok_perm; [|exact C]. now apply cnt_map_perm.
      + intros C. eapply counts_ok_perm; eauto.
  Qed.

  Lemma item_ok_mono st st' p :
    (forall r e, nth_error (a_execs st) r = Some e -> nth_error (a_execs st') r = Some e) ->
    (a_sh st' = a_sh st \/ ((forall v, cnt (a_sh st) v = cnt (a_sh st') v) /\ no_samples_item p)) ->
    item_ok st p -> item_ok st' p.
  Proof.
    intros Hex Hsh. unfold item_ok. destruct (target (fst p)) as [r|]; [|auto].
    destruct (nth_error (a_execs st) r) as [e|] eqn:E; [|contradiction].
    rewrite (Hex r e E). destruct Hsh as [->|[Hp Hns]]; [auto|].
    destruct (r =? r0); [|auto]. destruct p as [o x]. now apply explains_perm.
  Qed.
End Single.
