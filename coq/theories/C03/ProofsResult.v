(* C03/ProofsResult.v : invariant of the result state machine for histories in which samples()
   and frequencies() are only ever called on ONE result r0 of the circuit (any number of
   executions, probabilities() on any result, any accessor order).  Refinement proof: every
   reachable machine state is the concretisation [conc] of an abstract state consisting of one
   list of shots [a_sh] for r0 plus flags saying which caches are filled; every output is
   explained by that list. *)
From Coq Require Import List Bool Arith ZArith Lia Permutation.
From QV Require Import Base.Mat C03.ModelSamples C03.ModelProbs C03.ModelResult
     C03.ProofsSamples C03.ProofsProbs.
Import ListNotations.

(* ---------- lists *)
Lemma update_nth_length {A} (l : list A) : forall i x, length (update_nth i x l) = length l.
Proof. induction l as [|y l IH]; intros [|i] x; cbn [update_nth length]; auto. Qed.

Lemma nodupb_NoDup l : nodupb l = true -> NoDup l.
Proof.
  induction l as [|x l IH]; cbn [nodupb]; intros H; [constructor|].
  apply andb_true_iff in H. destruct H as [H1 H2]. constructor; [|auto].
  intros Hin. apply existsb_eqb_In in Hin. rewrite Hin in H1. discriminate.
Qed.

Lemma cnt_count l v : count l v = cnt l v.
Proof. reflexivity. Qed.

Lemma counts_ok_perm f l l' : (forall v, cnt l v = cnt l' v) -> counts_ok f l -> counts_ok f l'.
Proof. intros H [H1 H2]. split; [assumption|]. intros v. rewrite H2. apply H. Qed.

Lemma cnt_map_perm (g : nat -> nat) l l' :
  (forall v, cnt l v = cnt l' v) -> forall u, cnt (map g l) u = cnt (map g l') u.
Proof.
  intros H. apply (Permutation_count_occ Nat.eq_dec). apply Permutation_map.
  apply (Permutation_count_occ Nat.eq_dec). exact H.
Qed.

Lemma Forall_cnt_perm (P : nat -> Prop) l l' :
  (forall v, cnt l v = cnt l' v) -> Forall P l -> Forall P l'.
Proof.
  intros H HF. apply (Permutation_count_occ Nat.eq_dec) in H.
  eapply Permutation_Forall; eauto.
Qed.

Lemma length_cnt_perm l l' : (forall v, cnt l v = cnt l' v) -> length l = length l'.
Proof. intros H. apply (Permutation_count_occ Nat.eq_dec) in H. now apply Permutation_length. Qed.

Lemma Forall2_impl' {A B} (P P' : A -> B -> Prop) l l' :
  (forall a b, P a b -> P' a b) -> Forall2 P l l' -> Forall2 P' l l'.
Proof. intros H HF. induction HF; constructor; auto. Qed.

Definition isSome {A} (o : option A) : bool := match o with Some _ => true | None => false end.

Section Single.
  Variable cfg : config.
  Variable r0 : nat.
  Hypothesis Hcfg : cfg_wf cfg.

  Notation n := (c_n cfg).
  Notation regs := (c_regs cfg).
  Notation Q := (cQ cfg).
  Notation k := (ck cfg).

  Lemma regs_in_Q reg : In reg regs -> incl reg Q.
  Proof. intros H q Hq. unfold cQ, global_qubits. apply in_concat. eauto. Qed.

  (* ---------- canonical form of the measurement-gate caches *)
  Definition gcol (reg : list nat) (sh : list nat) : list bits :=
    map (fun s => take_cols (reg_cols Q reg) (to_bin k s)) sh.

  Fixpoint build (rs : list (list nat)) (samp : bool) (sh : list nat) (gfl : list (option counter))
    : list gcache :=
    match rs, gfl with
    | reg :: rs', gfo :: gfl' =>
        mkg (if samp then Some (gcol reg sh) else None) gfo :: build rs' samp sh gfl'
    | _, _ => []
    end.

  Fixpoint fl_of (rs : list (list nat)) (gfl : list (option counter)) (sh : list nat) : list counter :=
    match rs, gfl with
    | reg :: rs', gfo :: gfl' =>
        (match gfo with Some f => f | None => calc_freq (map to_dec (gcol reg sh)) end) :: fl_of rs' gfl' sh
    | _, _ => []
    end.

  Lemma build_false_sh rs sh sh' : forall gfl, build rs false sh gfl = build rs false sh' gfl.
  Proof. induction rs as [|reg rs IH]; intros [|gfo gfl]; cbn [build]; try reflexivity. now rewrite IH. Qed.

  Lemma g0_build samp sh gfl rs fin :
    regs <> [] -> length gfl = length regs ->
    g0_has_samples (mkm (build regs samp sh gfl) rs fin) = samp.
  Proof.
    intros Hne Hlen. unfold g0_has_samples. cbn [m_gates].
    destruct regs as [|reg rs']; [congruence|]. destruct gfl as [|gfo gfl]; [discriminate|].
    cbn [build gs]. now destruct samp.
  Qed.

  Lemma all_gs_build_true rs sh : forall gfl, length gfl = length rs ->
    all_gs (build rs true sh gfl) = Some (map (fun reg => gcol reg sh) rs).
  Proof.
    induction rs as [|reg rs IH]; intros [|gfo gfl] Hlen; cbn [length] in Hlen; try discriminate; [reflexivity|].
    cbn [build]. unfold all_gs in *. cbn [fold_right gs map]. rewrite IH by lia. reflexivity.
  Qed.

  Lemma materialise_gates rs samp sh draw : forall gfl, length gfl = length rs ->
    map (fun rg => mkg (Some (map (take_cols (reg_cols Q (fst rg))) (map (to_bin k) draw))) (gf (snd rg)))
        (combine rs (build rs samp sh gfl)) = build rs true draw gfl.
  Proof.
    induction rs as [|reg rs IH]; intros [|gfo gfl] Hlen; cbn [length] in Hlen; try discriminate; [reflexivity|].
    cbn [build combine map fst snd gf]. rewrite IH by lia. f_equal.
    unfold gcol. now rewrite map_map.
  Qed.

  Lemma freq_gates rs sh sh' fdraw : forall gfl, length gfl = length rs ->
    map (fun rg => mkg (gs (snd rg)) (Some (reg_freq k (reg_cols Q (fst rg)) fdraw)))
        (combine rs (build rs false sh gfl))
    = build rs false sh' (map (fun reg => Some (reg_freq k (reg_cols Q reg) fdraw)) rs).
  Proof.
    induction rs as [|reg rs IH]; intros [|gfo gfl] Hlen; cbn [length] in Hlen; try discriminate; [reflexivity|].
    cbn [build combine map fst snd gs]. now rewrite IH by lia.
  Qed.

  Lemma fl_of_length rs sh : forall gfl, length gfl = length rs -> length (fl_of rs gfl sh) = length rs.
  Proof.
    induction rs as [|reg rs IH]; intros [|gfo gfl] Hlen; cbn [length] in Hlen; try discriminate; [reflexivity|].
    cbn [fl_of length]. now rewrite IH by lia.
  Qed.

  Lemma build_length rs samp sh : forall gfl, length gfl = length rs -> length (build rs samp sh gfl) = length rs.
  Proof.
    induction rs as [|reg rs IH]; intros [|gfo gfl] Hlen; cbn [length] in Hlen; try discriminate; [reflexivity|].
    cbn [build length]. now rewrite IH by lia.
  Qed.

  Lemma gate_freq_build rs samp sh : forall gfl, length gfl = length rs ->
    (samp = true \/ Forall (fun gfo => isSome gfo = true) gfl) ->
    opt_all (map gate_freq (build rs samp sh gfl))
    = Some (combine (build rs samp sh (map Some (fl_of rs gfl sh))) (fl_of rs gfl sh)).
  Proof.
    induction rs as [|reg rs IH]; intros [|gfo gfl] Hlen Hc; cbn [length] in Hlen; try discriminate; [reflexivity|].
    cbn [build map fl_of combine]. unfold opt_all in *. cbn [fold_right].
    rewrite IH; [|lia|].
    - destruct gfo as [f|]; unfold gate_freq; cbn [gf gs]; [reflexivity|].
      destruct samp; [reflexivity|].
      destruct Hc as [Hc|Hc]; [discriminate|]. inversion Hc as [|? ? Hh Ht]; subst. discriminate.
    - destruct Hc as [Hc|Hc]; [now left | right]. now inversion Hc.
  Qed.

  Lemma map_fst_combine {A B} (a : list A) : forall (b : list B), length a = length b -> map fst (combine a b) = a.
  Proof. induction a as [|x a IH]; intros [|y b] H; cbn in *; try discriminate; [reflexivity|]. f_equal. apply IH. lia. Qed.
  Lemma map_snd_combine {A B} (a : list A) : forall (b : list B), length a = length b -> map snd (combine a b) = b.
  Proof. induction a as [|x a IH]; intros [|y b] H; cbn in *; try discriminate; [reflexivity|]. f_equal. apply IH. lia. Qed.

  (* ---------- canonical form of the result objects *)
  Definition mkres (smp : option (list bits)) (frq : option counter) (r : nat) (e : list Z * nat) : result :=
    mkr (fst e) (snd e) (calc_probs n Q (fst e))
        (if r =? r0 then smp else None) (if r =? r0 then frq else None).
  Fixpoint mk_results_from (i : nat) smp frq (es : list (list Z * nat)) : list result :=
    match es with [] => [] | e :: es' => mkres smp frq i e :: mk_results_from (S i) smp frq es' end.

  Lemma mk_results_nth smp frq es : forall i r,
    nth_error (mk_results_from i smp frq es) r = option_map (mkres smp frq (i + r)) (nth_error es r).
  Proof.
    induction es as [|e es IH]; intros i [|r]; cbn [mk_results_from nth_error option_map]; try reflexivity.
    - now rewrite Nat.add_0_r.
    - rewrite IH. now replace (S i + r) with (i + S r) by lia.
  Qed.

  Lemma mk_results_length smp frq es : forall i, length (mk_results_from i smp frq es) = length es.
  Proof. induction es as [|e es IH]; intros i; cbn [mk_results_from length]; auto. Qed.

  Lemma mk_results_irrelevant smp frq smp' frq' es : forall i, r0 < i ->
    mk_results_from i smp frq es = mk_results_from i smp' frq' es.
  Proof.
    induction es as [|e es IH]; intros i Hi; cbn [mk_results_from]; [reflexivity|].
    rewrite (IH (S i)) by lia. f_equal. unfold mkres.
    assert (i =? r0 = false) as -> by (apply Nat.eqb_neq; lia). reflexivity.
  Qed.

  Lemma mk_results_update smp frq smp' frq' es : forall i r e,
    i + r = r0 -> nth_error es r = Some e ->
    update_nth r (mkres smp' frq' r0 e) (mk_results_from i smp frq es) = mk_results_from i smp' frq' es.
  Proof.
    induction es as [|e0 es IH]; intros i [|r] e Hir He; cbn [nth_error] in He; try discriminate.
    - inversion He; subst e0. cbn [mk_results_from update_nth]. rewrite Nat.add_0_r in Hir. subst i.
      f_equal. apply mk_results_irrelevant. lia.
    - cbn [mk_results_from update_nth]. rewrite (IH (S i) r e) by (assumption || lia). f_equal.
      unfold mkres. assert (i =? r0 = false) as -> by (apply Nat.eqb_neq; lia). reflexivity.
  Qed.

  Lemma mk_results_app smp frq es e : forall i,
    mk_results_from i smp frq (es ++ [e]) = mk_results_from i smp frq es ++ [mkres smp frq (i + length es) e].
  Proof.
    induction es as [|e0 es IH]; intros i; cbn [app mk_results_from length].
    - now rewrite Nat.add_0_r.
    - rewrite IH. now replace (S i + length es) with (i + S (length es)) by lia.
  Qed.

  (* ---------- abstract state *)
  Record ast := mka { a_execs : list (list Z * nat); a_smp : bool; a_sh : list nat;
                      a_frq : option counter; a_gfl : list (option counter); a_fin : option nat }.
  Definition smp_of (st : ast) : option (list bits) :=
    if a_smp st then Some (map (to_bin k) (a_sh st)) else None.
  Definition conc (st : ast) : machine :=
    mkm (build regs (a_smp st) (a_sh st) (a_gfl st))
        (mk_results_from 0 (smp_of st) (a_frq st) (a_execs st)) (a_fin st).

  Definition gf_ok (sh : list nat) (reg : list nat) (gfo : option counter) : Prop :=
    match gfo with None => True | Some f => counts_ok f (map (spec_reg_dec cfg reg) sh) end.

  Record wf (st : ast) : Prop := mkwf {
    wf_len : length (a_gfl st) = length regs;
    wf_gf : Forall2 (gf_ok (a_sh st)) regs (a_gfl st);
    wf_frq : match a_frq st with Some F => counts_ok F (a_sh st) | None => True end;
    wf_nosamp : a_smp st = false -> Forall (fun gfo => isSome gfo = isSome (a_frq st)) (a_gfl st);
    wf_active : a_smp st = true \/ isSome (a_frq st) = true ->
                exists e, nth_error (a_execs st) r0 = Some e /\ shots_ok cfg (fst e) (snd e) (a_sh st)
  }.

  Definition item_ok (st : ast) (p : op * out) : Prop :=
    match target (fst p) with
    | None => True
    | Some r => match nth_error (a_execs st) r with
                | Some e => explains cfg (fst e) (if r =? r0 then a_sh st else []) (fst p) (snd p)
                | None => False
                end
    end.
  Definition no_samples_item (p : op * out) : Prop :=
    match fst p with Samples _ _ _ _ => False | _ => True end.

  Definition INV (st : ast) (past : list (op * out)) : Prop :=
    wf st /\ Forall (item_ok st) past /\
    (a_smp st = false -> Forall no_samples_item past) /\
    (a_smp st = false -> a_frq st = None -> Forall (fun p => needs_shots (fst p) = false) past).

  Definition reader_ok (o : op) : bool :=
    match o with Samples r _ _ _ => r =? r0 | Freqs r _ _ _ => r =? r0 | _ => true end.

  (* ---------- the spec side of the register columns *)
  Lemma gcol_spec reg sh : In reg regs -> gcol reg sh = map (spec_reg_row cfg reg) sh.
  Proof.
    intros Hin. unfold gcol, spec_reg_row. apply map_ext. intros s.
    destruct Hcfg as [_ [Hnd _]].
    rewrite reg_cols_index_of by (auto using regs_in_Q). unfold take_cols. now rewrite map_map.
  Qed.

  Lemma gcol_dec_spec reg sh : In reg regs -> map to_dec (gcol reg sh) = map (spec_reg_dec cfg reg) sh.
  Proof. intros Hin. rewrite gcol_spec by assumption. now rewrite map_map. Qed.

  Lemma map_gcol_spec sh : map (fun reg => gcol reg sh) regs = map (fun reg => map (spec_reg_row cfg reg) sh) regs.
  Proof. apply map_ext_in. intros reg Hin. now apply gcol_spec. Qed.

  Lemma map_gcol_dec_spec sh :
    map (map to_dec) (map (fun reg => gcol reg sh) regs) = map (fun reg => map (spec_reg_dec cfg reg) sh) regs.
  Proof. rewrite map_map. apply map_ext_in. intros reg Hin. now apply gcol_dec_spec. Qed.

  Lemma dec_bin_shots (w : list Z) ns sh : shots_ok cfg w ns sh -> map to_dec (map (to_bin k) sh) = sh.
  Proof.
    intros [_ HF]. rewrite map_map. rewrite <- (map_id sh) at 2. apply map_ext_in. intros s Hs.
    rewrite Forall_forall in HF. destruct (HF s Hs) as [Hlt _]. now apply bin_dec_inverse_l.
  Qed.

  Lemma probs_born w : calc_probs n Q w = born_vec n Q w.
  Proof. destruct Hcfg as [_ [Hnd Hlt]]. now apply probs_sv_correct. Qed.

  (* ---------- explained items survive the transitions *)
  Lemma explains_perm w sh sh' o x :
    (forall v, cnt sh v = cnt sh' v) -> no_samples_item (o, x) ->
    explains cfg w sh o x -> explains cfg w sh' o x.
  Proof.
    intros Hp Hns. destruct o as [w' ns|r b rg d|r b rg fd|r qs|]; cbn [no_samples_item fst] in Hns; try contradiction;
      try (intros H; exact H).
    - (* Freqs *)
      destruct b, rg; destruct x; cbn [explains]; try (intros H; exact H).
      + intros H. eapply Forall2_impl'; [|exact H]. intros reg fb [f0 [E C]]. exists f0. split; [assumption|].
        eapply counts_ok_perm; [|exact C]. now apply cnt_map_perm.
      + intros [f0 [E C]]. exists f0. split; [assumption|]. eapply counts_ok_perm; eauto.
      + intros H. eapply Forall2_impl'; [|exact H]. intros reg f0 C.
        eapply counts_ok_perm; [|exact C]. now apply cnt_map_perm.
      + intros C. eapply counts_ok_perm; eauto.
  Qed.

  Lemma explains_nosh w sh sh' o x :
    needs_shots o = false -> explains cfg w sh o x -> explains cfg w sh' o x.
  Proof. destruct o; cbn [needs_shots]; try discriminate; auto. Qed.

  Lemma item_ok_mono st st' p :
    (forall r e, nth_error (a_execs st) r = Some e -> nth_error (a_execs st') r = Some e) ->
    (a_sh st' = a_sh st \/ ((forall v, cnt (a_sh st) v = cnt (a_sh st') v) /\ no_samples_item p)
     \/ needs_shots (fst p) = false) ->
    item_ok st p -> item_ok st' p.
  Proof.
    intros Hex Hsh. unfold item_ok. destruct (target (fst p)) as [r|]; [|auto].
    destruct (nth_error (a_execs st) r) as [e|] eqn:E; [|contradiction].
    rewrite (Hex r e E). destruct Hsh as [->|[[Hp Hns]|Hn]]; [auto| |].
    - destruct (r =? r0); [|auto]. destruct p as [o x]. now apply explains_perm.
    - destruct (r =? r0); [|auto]. now apply explains_nosh.
  Qed.

  (* ---------- auxiliary facts for the step lemma *)
  Lemma forallb_count_all draw l :
    forallb (fun v => count draw v =? count l v) (draw ++ l) = true -> forall v, cnt draw v = cnt l v.
  Proof.
    intros H v. rewrite forallb_forall in H.
    destruct (in_dec Nat.eq_dec v (draw ++ l)) as [Hin|Hnin].
    - apply Nat.eqb_eq. apply (H v Hin).
    - unfold cnt. rewrite in_app_iff in Hnin.
      rewrite (proj1 (count_occ_not_In Nat.eq_dec draw v)) by tauto.
      rewrite (proj1 (count_occ_not_In Nat.eq_dec l v)) by tauto. reflexivity.
  Qed.

  Lemma in_support_spec probs s :
    in_support k probs s = true -> s < 2 ^ k /\ nth s probs 0%Z <> 0%Z.
  Proof.
    unfold in_support. rewrite andb_true_iff, negb_true_iff, Nat.ltb_lt, Z.eqb_neq. tauto.
  Qed.

  Lemma col_spec reg s : In reg regs -> take_cols (reg_cols Q reg) (to_bin k s) = spec_reg_row cfg reg s.
  Proof.
    intros Hin. pose proof (gcol_spec reg [s] Hin) as H. unfold gcol in H. cbn [map] in H. now inversion H.
  Qed.

  Lemma gf_ok_none sh : forall rs gfl, length gfl = length rs ->
    Forall (fun gfo : option counter => isSome gfo = false) gfl -> Forall2 (gf_ok sh) rs gfl.
  Proof.
    induction rs as [|reg rs IH]; intros [|gfo gfl] Hlen HF; cbn [length] in Hlen; try discriminate; constructor.
    - inversion HF; subst. destruct gfo; [discriminate | exact I].
    - apply IH; [lia | now inversion HF].
  Qed.

  Lemma gf_ok_perm sh sh' rs gfl :
    (forall v, cnt sh v = cnt sh' v) -> Forall2 (gf_ok sh) rs gfl -> Forall2 (gf_ok sh') rs gfl.
  Proof.
    intros Hp. apply Forall2_impl'. intros reg [f|]; cbn [gf_ok]; [|auto].
    apply counts_ok_perm. now apply cnt_map_perm.
  Qed.

  Lemma fl_ok sh : forall rs gfl, (forall reg, In reg rs -> In reg regs) ->
    Forall2 (gf_ok sh) rs gfl ->
    Forall2 (fun reg f => counts_ok f (map (spec_reg_dec cfg reg) sh)) rs (fl_of rs gfl sh).
  Proof.
    intros rs gfl Hin HF. induction HF as [|reg gfo rs gfl Hh Ht IH]; cbn [fl_of]; constructor.
    - destruct gfo as [f|]; [exact Hh|].
      rewrite gcol_dec_spec by (apply Hin; now left).
      split; [apply nodup_calc_freq | intros v; apply lookup_calc_freq].
    - apply IH. intros reg' H. apply Hin. now right.
  Qed.

  Lemma fl_ok_some sh rs fl :
    Forall2 (fun reg f => counts_ok f (map (spec_reg_dec cfg reg) sh)) rs fl ->
    Forall2 (gf_ok sh) rs (map Some fl).
  Proof. intros HF. induction HF; cbn [map]; constructor; auto. Qed.

  Lemma fl_bin_ok sh rs fl :
    Forall2 (fun reg f => counts_ok f (map (spec_reg_dec cfg reg) sh)) rs fl ->
    Forall2 (fun reg fb => exists f, fb = fbin (length reg) f /\ counts_ok f (map (spec_reg_dec cfg reg) sh))
            rs (map (fun rf => fbin (length (fst rf)) (snd rf)) (combine rs fl)).
  Proof. intros HF. induction HF; cbn [combine map fst snd]; constructor; eauto. Qed.

  Lemma reg_freq_ok fdraw : forall rs, (forall reg, In reg rs -> In reg regs) ->
    Forall2 (gf_ok (expand fdraw)) rs (map (fun reg => Some (reg_freq k (reg_cols Q reg) fdraw)) rs).
  Proof.
    induction rs as [|reg rs IH]; intros Hin; cbn [map]; constructor.
    - cbn [gf_ok]. split; [apply nodup_reg_freq|]. intros v. rewrite lookup_reg_freq.
      assert (E : map (fun s => to_dec (take_cols (reg_cols Q reg) (to_bin k s))) (expand fdraw)
                  = map (spec_reg_dec cfg reg) (expand fdraw)).
      { apply map_ext. intros s. unfold spec_reg_dec. rewrite col_spec by (apply Hin; now left). reflexivity. }
      rewrite E. reflexivity.
    - apply IH. intros reg' H. apply Hin. now right.
  Qed.

  Lemma nth_error_app_some {A} (l l' : list A) r e : nth_error l r = Some e -> nth_error (l ++ l') r = Some e.
  Proof. intros H. rewrite nth_error_app1; [assumption|]. apply nth_error_Some. congruence. Qed.

  (* ---------- the output of samples() once the shots are materialised *)
  Lemma result_r0 st e :
    nth_error (a_execs st) r0 = Some e ->
    nth_error (m_results (conc st)) r0 = Some (mkres (smp_of st) (a_frq st) r0 e).
  Proof. intros He. cbn [conc m_results]. rewrite mk_results_nth, He. reflexivity. Qed.

  Lemma mkres_samples smp frq e : r_samples (mkres smp frq r0 e) = smp.
  Proof. unfold mkres. cbn [r_samples]. now rewrite Nat.eqb_refl. Qed.
  Lemma mkres_freqs smp frq e : r_freqs (mkres smp frq r0 e) = frq.
  Proof. unfold mkres. cbn [r_freqs]. now rewrite Nat.eqb_refl. Qed.

  Lemma mat_idem st e d :
    a_smp st = true -> nth_error (a_execs st) r0 = Some e ->
    materialise cfg (conc st) r0 d = Some (conc st).
  Proof.
    intros Hs He. unfold materialise. rewrite (result_r0 st e He), mkres_samples.
    unfold smp_of. now rewrite Hs.
  Qed.

  Lemma step_samples_mat m m1 r b rg d d' :
    materialise cfg m r d = Some m1 -> materialise cfg m1 r d' = Some m1 ->
    step_samples cfg m r b rg d = step_samples cfg m1 r b rg d'.
  Proof. intros H1 H2. unfold step_samples. now rewrite H1, H2. Qed.

  Lemma samples_output st e (b rg : bool) d :
    wf st -> a_smp st = true -> nth_error (a_execs st) r0 = Some e ->
    exists x, step_samples cfg (conc st) r0 b rg d = (conc st, x) /\
              explains cfg (fst e) (a_sh st) (Samples r0 b rg d) x.
  Proof.
    intros Hwf Hs He. destruct Hwf as [Hlen _ _ _ Hact].
    destruct (Hact (or_introl Hs)) as [e' [He' Hshots]]. rewrite He in He'. inversion He'; subst e'.
    unfold step_samples. rewrite (mat_idem st e d Hs He), (result_r0 st e He), mkres_samples.
    unfold smp_of. rewrite Hs.
    destruct rg.
    - cbn [conc m_gates]. rewrite Hs. rewrite all_gs_build_true by assumption.
      destruct b; eexists; (split; [reflexivity|]); cbn [explains].
      + apply map_gcol_spec.
      + apply map_gcol_dec_spec.
    - destruct b; eexists; (split; [reflexivity|]); cbn [explains]; [reflexivity|].
      eapply dec_bin_shots; eauto.
  Qed.

  Lemma set_samples_mkres smp frq e sm : set_samples (mkres smp frq r0 e) sm = mkres (Some sm) frq r0 e.
  Proof. unfold set_samples, mkres. cbn [r_w r_nshots r_probs r_freqs]. now rewrite Nat.eqb_refl. Qed.
  Lemma set_freqs_mkres smp frq e F : set_freqs (mkres smp frq r0 e) F = mkres smp (Some F) r0 e.
  Proof. unfold set_freqs, mkres. cbn [r_w r_nshots r_probs r_samples]. now rewrite Nat.eqb_refl. Qed.
  Lemma mkres_probs smp frq r e : r_probs (mkres smp frq r e) = calc_probs n Q (fst e).
  Proof. reflexivity. Qed.
  Lemma mkres_nshots smp frq r e : r_nshots (mkres smp frq r e) = snd e.
  Proof. reflexivity. Qed.

  Lemma Forall_app_one {A} (P : A -> Prop) l x : Forall P l -> P x -> Forall P (l ++ [x]).
  Proof. intros H1 H2. apply Forall_app. split; [assumption | constructor; [assumption | constructor]]. Qed.

  Lemma support_shots w ns d :
    length d = ns -> forallb (in_support k (calc_probs n Q w)) d = true -> shots_ok cfg w ns d.
  Proof.
    intros Hl Hs. split; [assumption|]. apply Forall_forall. intros s Hin.
    rewrite forallb_forall in Hs. specialize (Hs s Hin). apply in_support_spec in Hs.
    now rewrite <- probs_born.
  Qed.

  Lemma g0_conc st : length (a_gfl st) = length regs -> g0_has_samples (conc st) = a_smp st.
  Proof. intros H. unfold conc. apply g0_build; [apply Hcfg | exact H]. Qed.

  Lemma step_samples_inv st past (b rg : bool) d :
    INV st past -> r0 < length (a_execs st) ->
    oracle_ok cfg (conc st) (Samples r0 b rg d) = true ->
    exists st' x, step_samples cfg (conc st) r0 b rg d = (conc st', x) /\
                  INV st' (past ++ [(Samples r0 b rg d, x)]) /\ a_execs st' = a_execs st.
  Proof.
    intros [Hwf [Hitems [Hns Hnn]]] Hr Hor.
    destruct (nth_error (a_execs st) r0) as [e|] eqn:He; [|apply nth_error_None in He; lia].
    destruct (a_smp st) eqn:Hs.
    - (* shots already materialised *)
      destruct (samples_output st e b rg d Hwf Hs He) as [x [Hx Hex]].
      exists st, x. split; [exact Hx|]. split; [|reflexivity].
      split; [exact Hwf|]. split; [|split; intros; congruence].
      apply Forall_app_one; [exact Hitems|].
      unfold item_ok. cbn [fst snd target]. rewrite He, Nat.eqb_refl. exact Hex.
    - (* first materialisation: the drawn values become the shots *)
      pose proof Hwf as [Hlen Hgf Hfrq Hnosamp Hact].
      destruct Hcfg as [Hne [HndQ HltQ]].
      set (st' := mka (a_execs st) true d (a_frq st) (a_gfl st) (a_fin st)).
      assert (Hmat : materialise cfg (conc st) r0 d = Some (conc st')).
      { unfold materialise. rewrite (result_r0 st e He), mkres_samples. unfold smp_of at 1. rewrite Hs.
        rewrite g0_conc by assumption. rewrite Hs.
        cbn [conc m_gates m_results m_final]. rewrite materialise_gates by assumption.
        unfold smp_of. rewrite Hs. rewrite set_samples_mkres.
        rewrite (mk_results_update _ _ (Some (map (to_bin k) d)) (a_frq st) _ 0 r0 e) by (reflexivity || assumption).
        reflexivity. }
      assert (He' : nth_error (a_execs st') r0 = Some e) by exact He.
      assert (Hs' : a_smp st' = true) by reflexivity.
      (* the new abstract state is well formed *)
      unfold oracle_ok in Hor. rewrite (result_r0 st e He), mkres_samples in Hor.
      unfold smp_of in Hor. rewrite Hs in Hor.
      rewrite g0_conc in Hor by assumption. rewrite Hs in Hor.
      rewrite mkres_freqs, mkres_probs, mkres_nshots in Hor.
      assert (Hwf' : wf st' /\ Forall (item_ok st') past).
      { destruct (a_frq st) as [F|] eqn:Hf.
        - (* shuffle of the expansion of the frequencies *)
          pose proof (forallb_count_all _ _ Hor) as Hp.
          destruct Hfrq as [HndF HlF].
          assert (Hperm : forall v, cnt (a_sh st) v = cnt d v).
          { intros v. rewrite Hp, (cnt_expand F v HndF). symmetry. apply HlF. }
          split.
          + constructor; cbn [st' a_gfl a_sh a_frq a_smp a_execs].
            * exact Hlen.
            * eapply gf_ok_perm; eauto.
            * eapply counts_ok_perm; eauto. split; assumption.
            * discriminate.
            * intros _. destruct (Hact (or_intror eq_refl)) as [e0 [He0 [Hl0 HF0]]].
              exists e0. split; [exact He0|]. split.
              -- rewrite <- Hl0. symmetry. now apply length_cnt_perm.
              -- eapply Forall_cnt_perm; eauto.
          + specialize (Hns eq_refl). rewrite Forall_forall in *. intros p Hin.
            apply (item_ok_mono st st'); [auto | | auto].
            right. left. split; [exact Hperm | auto].
        - (* fresh draw from the probabilities *)
          apply andb_true_iff in Hor. destruct Hor as [Hl Hsup]. apply Nat.eqb_eq in Hl.
          split.
          + constructor; cbn [st' a_gfl a_sh a_frq a_smp a_execs].
            * exact Hlen.
            * apply gf_ok_none; [exact Hlen|]. specialize (Hnosamp Hs). exact Hnosamp.
            * exact I.
            * discriminate.
            * intros _. exists e. split; [exact He|]. now apply support_shots.
          + specialize (Hnn eq_refl eq_refl). rewrite Forall_forall in *. intros p Hin.
            apply (item_ok_mono st st'); [auto | | auto]. right. right. auto. }
      destruct Hwf' as [Hwf' Hitems'].
      destruct (samples_output st' e b rg d Hwf' Hs' He') as [x [Hx Hex]].
      exists st', x. split.
      + rewrite (step_samples_mat _ _ _ _ _ _ d Hmat (mat_idem st' e d Hs' He')). exact Hx.
      + split; [|reflexivity]. split; [exact Hwf'|]. split; [|split; intros; discriminate].
        apply Forall_app_one; [exact Hitems'|].
        unfold item_ok. cbn [fst snd target]. rewrite He', Nat.eqb_refl. exact Hex.
  Qed.

  (* ---------- frequencies(): the two halves of step_freqs *)
  Definition fill (m : machine) (r : nat) (R : result) (fdraw : counter) : option machine :=
    match r_freqs R with
    | Some _ => Some m
    | None =>
      if g0_has_samples m || (match r_samples R with Some _ => true | None => false end) then
        match materialise cfg m r [] with
        | None => None
        | Some m' =>
          match nth_error (m_results m') r with
          | Some R' =>
            match r_samples R' with
            | Some sm => Some (mkm (m_gates m')
                                  (update_nth r (set_freqs R' (calc_freq (map to_dec sm))) (m_results m'))
                                  (m_final m'))
            | None => None
            end
          | None => None
          end
        end
      else
        Some (mkm (map (fun rg => mkg (gs (snd rg)) (Some (reg_freq k (reg_cols Q (fst rg)) fdraw)))
                       (combine regs (m_gates m)))
                  (update_nth r (set_freqs R fdraw) (m_results m)) (m_final m))
    end.

  Definition ftail (m1 : machine) (r : nat) (binary registers : bool) : machine * out :=
    match nth_error (m_results m1) r with
    | Some R1 =>
      match r_freqs R1 with
      | Some F =>
        if registers then
          match opt_all (map gate_freq (m_gates m1)) with
          | Some gl =>
              let m2 := mkm (map fst gl) (m_results m1) (m_final m1) in
              (m2, if binary
                   then ORegFreqBin (map (fun rf => fbin (length (fst rf)) (snd rf))
                                         (combine regs (map snd gl)))
                   else ORegFreqDec (map snd gl))
          | None => (m1, OErr 2)
          end
        else (m1, if binary then OFreqBin (fbin k F) else OFreqDec F)
      | None => (m1, OErr 3)
      end
    | None => (m1, OErr 4)
    end.

  Lemma step_freqs_unfold m r b rg fd :
    step_freqs cfg m r b rg fd =
    match nth_error (m_results m) r with
    | None => (m, OErr 4)
    | Some R => match fill m r R fd with None => (m, OErr 1) | Some m1 => ftail m1 r b rg end
    end.
  Proof. reflexivity. Qed.

  Lemma freqs_output st e (b rg : bool) F :
    wf st -> a_frq st = Some F -> nth_error (a_execs st) r0 = Some e ->
    exists st' x, ftail (conc st) r0 b rg = (conc st', x) /\ wf st' /\
                  a_sh st' = a_sh st /\ a_execs st' = a_execs st /\ a_smp st' = a_smp st /\
                  a_frq st' = a_frq st /\
                  forall fd, explains cfg (fst e) (a_sh st) (Freqs r0 b rg fd) x.
  Proof.
    intros Hwf Hf He. pose proof Hwf as [Hlen Hgf Hfrq Hnosamp Hact].
    unfold ftail. rewrite (result_r0 st e He), mkres_freqs, Hf. rewrite Hf in Hfrq.
    destruct rg.
    - set (fl := fl_of regs (a_gfl st) (a_sh st)).
      assert (Hfl : Forall2 (fun reg f => counts_ok f (map (spec_reg_dec cfg reg) (a_sh st))) regs fl).
      { apply fl_ok; auto. }
      assert (Hfll : length fl = length regs) by (apply fl_of_length; exact Hlen).
      cbn [conc m_gates m_results m_final].
      rewrite gate_freq_build; [|exact Hlen|].
      2:{ destruct (a_smp st) eqn:Hs; [now left | right].
          specialize (Hnosamp eq_refl). rewrite Hf in Hnosamp. exact Hnosamp. }
      fold fl.
      rewrite map_fst_combine by (rewrite build_length; rewrite ?map_length; lia).
      rewrite map_snd_combine by (rewrite build_length; rewrite ?map_length; lia).
      exists (mka (a_execs st) (a_smp st) (a_sh st) (a_frq st) (map Some fl) (a_fin st)).
      eexists. split; [reflexivity|].
      split; [|split; [reflexivity|split; [reflexivity|split; [reflexivity|split; [cbn [a_frq]; exact Hf|]]]]].
      + constructor; cbn [a_gfl a_sh a_frq a_smp a_execs].
        * now rewrite map_length.
        * now apply fl_ok_some.
        * now rewrite Hf.
        * intros _. rewrite Hf. clear. induction fl; cbn [map]; constructor; auto.
        * exact Hact.
      + intros fd. destruct b; cbn [explains]; [now apply fl_bin_ok | exact Hfl].
    - exists st. eexists. split; [reflexivity|].
      split; [exact Hwf|split; [reflexivity|split; [reflexivity|split; [reflexivity|split; [exact Hf|]]]]].
      intros fd. destruct b; cbn [explains]; [exists F; split; [reflexivity | exact Hfrq] | exact Hfrq].
  Qed.

  Lemma expand_keys f s : In s (expand f) -> exists c, In (s, c) f.
  Proof.
    induction f as [|[v c] f IH]; cbn [expand flat_map fst snd]; [intros []|].
    rewrite in_app_iff. intros [H|H].
    - apply repeat_spec in H. subst. exists c. now left.
    - destruct (IH H) as [c' Hc]. exists c'. now right.
  Qed.

  Lemma fill_inv st past e fd (b rg : bool) :
    INV st past -> nth_error (a_execs st) r0 = Some e ->
    oracle_ok cfg (conc st) (Freqs r0 b rg fd) = true ->
    exists st1 F, fill (conc st) r0 (mkres (smp_of st) (a_frq st) r0 e) fd = Some (conc st1) /\
                  INV st1 past /\ a_frq st1 = Some F /\ a_execs st1 = a_execs st.
  Proof.
    intros [Hwf [Hitems [Hns Hnn]]] He Hor.
    pose proof Hwf as [Hlen Hgf Hfrq Hnosamp Hact].
    unfold fill. rewrite mkres_freqs, mkres_samples.
    destruct (a_frq st) as [F|] eqn:Hf.
    - exists st, F. split; [reflexivity|]. split; [|split; [exact Hf | reflexivity]].
      split; [exact Hwf|]. split; [exact Hitems|]. split; [exact Hns|]. intros _ H. rewrite Hf in H. discriminate.
    - rewrite g0_conc by exact Hlen. unfold smp_of at 1. destruct (a_smp st) eqn:Hs.
      + (* frequencies computed from the existing samples *)
        cbn [orb]. rewrite (mat_idem st e [] Hs He), (result_r0 st e He), mkres_samples.
        unfold smp_of. rewrite Hs, Hf.
        destruct (Hact (or_introl eq_refl)) as [e' [He' Hshots]]. rewrite He in He'. inversion He'; subst e'.
        rewrite (dec_bin_shots _ _ _ Hshots).
        set (st1 := mka (a_execs st) true (a_sh st) (Some (calc_freq (a_sh st))) (a_gfl st) (a_fin st)).
        exists st1, (calc_freq (a_sh st)). split.
        * cbn [conc m_gates m_results m_final]. rewrite Hs. rewrite set_freqs_mkres.
          unfold smp_of. rewrite Hs, Hf.
          rewrite (mk_results_update _ _ (Some (map (to_bin k) (a_sh st))) (Some (calc_freq (a_sh st))) _ 0 r0 e)
            by (reflexivity || assumption).
          reflexivity.
        * split; [|split; reflexivity]. split; [|split; [|split; intros; discriminate]].
          -- constructor; cbn [st1 a_gfl a_sh a_frq a_smp a_execs].
             ++ exact Hlen.
             ++ exact Hgf.
             ++ split; [apply nodup_calc_freq | intros v; apply lookup_calc_freq].
             ++ discriminate.
             ++ intros _. exists e. split; assumption.
          -- rewrite Forall_forall in *. intros p Hin. apply (item_ok_mono st st1); auto.
      + (* frequencies drawn by sample_frequencies and registered on every gate *)
        cbn [orb]. unfold smp_of. rewrite Hs.
        unfold oracle_ok in Hor. rewrite (result_r0 st e He), mkres_freqs, Hf in Hor.
        rewrite g0_conc in Hor by exact Hlen. rewrite Hs, mkres_samples in Hor.
        unfold smp_of in Hor. rewrite Hs in Hor. cbn [orb] in Hor.
        rewrite mkres_probs, mkres_nshots in Hor.
        apply andb_true_iff in Hor. destruct Hor as [Hor Hsup].
        apply andb_true_iff in Hor. destruct Hor as [Hnd Htot].
        apply nodupb_NoDup in Hnd. apply Nat.eqb_eq in Htot.
        set (gfl1 := map (fun reg => Some (reg_freq k (reg_cols Q reg) fd)) regs).
        set (st1 := mka (a_execs st) false (expand fd) (Some fd) gfl1 (a_fin st)).
        exists st1, fd. split.
        * cbn [conc m_gates m_results m_final]. rewrite Hs.
          rewrite (freq_gates _ _ (expand fd)) by exact Hlen.
          rewrite set_freqs_mkres. unfold smp_of. rewrite Hs, Hf. cbn [st1 a_smp].
          rewrite (mk_results_update _ _ None (Some fd) _ 0 r0 e) by (reflexivity || assumption).
          reflexivity.
        * split; [|split; reflexivity].
          specialize (Hnn eq_refl eq_refl).
          split; [|split; [|split; [|intros _ H; discriminate]]].
          -- constructor; cbn [st1 a_gfl a_sh a_frq a_smp a_execs].
             ++ unfold gfl1. now rewrite map_length.
             ++ apply reg_freq_ok. auto.
             ++ split; [exact Hnd | intros v; symmetry; now apply cnt_expand].
             ++ intros _. unfold gfl1. clear. induction regs; cbn [map]; constructor; auto.
             ++ intros _. exists e. split; [exact He|]. split.
                ** now rewrite length_expand.
                ** apply Forall_forall. intros s Hin. apply expand_keys in Hin. destruct Hin as [c Hc].
                   rewrite forallb_forall in Hsup. specialize (Hsup _ Hc). cbn [fst snd] in Hsup.
                   apply andb_true_iff in Hsup. destruct Hsup as [Hsup _].
                   apply in_support_spec in Hsup. now rewrite <- probs_born.
          -- rewrite Forall_forall in *. intros p Hin. apply (item_ok_mono st st1); auto.
          -- intros _. rewrite Forall_forall in *. intros p Hin. specialize (Hnn p Hin).
             unfold no_samples_item. destruct (fst p); cbn [needs_shots] in Hnn; try discriminate; exact I.
  Qed.

  Lemma step_freqs_inv st past (b rg : bool) fd :
    INV st past -> r0 < length (a_execs st) ->
    oracle_ok cfg (conc st) (Freqs r0 b rg fd) = true ->
    exists st' x, step_freqs cfg (conc st) r0 b rg fd = (conc st', x) /\
                  INV st' (past ++ [(Freqs r0 b rg fd, x)]) /\ a_execs st' = a_execs st.
  Proof.
    intros HINV Hr Hor.
    destruct (nth_error (a_execs st) r0) as [e|] eqn:He; [|apply nth_error_None in He; lia].
    destruct (fill_inv st past e fd b rg HINV He Hor) as [st1 [F [Hfill [[Hwf1 [Hit1 [Hns1 Hnn1]]] [Hf1 Hex1]]]]].
    assert (He1 : nth_error (a_execs st1) r0 = Some e) by (rewrite Hex1; exact He).
    destruct (freqs_output st1 e b rg F Hwf1 Hf1 He1) as [st' [x [Ht [Hwf' [Hsh [Hex' [Hsm [Hfr Hexpl]]]]]]]].
    exists st', x. split.
    - rewrite step_freqs_unfold, (result_r0 st e He), Hfill. exact Ht.
    - split; [|congruence]. split; [exact Hwf'|]. split; [|split].
      + apply Forall_app_one.
        * rewrite Forall_forall in *. intros p Hin. apply (item_ok_mono st1 st'); auto.
          intros r e0. now rewrite Hex'.
        * unfold item_ok. cbn [fst snd target]. rewrite Hex', He1, Nat.eqb_refl, Hsh. apply Hexpl.
      + rewrite Hsm. intros H. apply Forall_app_one; [auto | exact I].
      + rewrite Hsm, Hfr, Hf1. intros _ H. discriminate.
  Qed.

  (* ---------- one step *)
  Lemma step_inv st past o :
    INV st past -> op_wf cfg (length (a_execs st)) o = true ->
    oracle_ok cfg (conc st) o = true -> reader_ok o = true ->
    exists st' x, step cfg (conc st) o = (conc st', x) /\ INV st' (past ++ [(o, x)]) /\
      length (a_execs st') = (match o with Exec _ _ => S (length (a_execs st)) | _ => length (a_execs st) end) /\
      (forall r e, nth_error (a_execs st) r = Some e -> nth_error (a_execs st') r = Some e).
  Proof.
    intros HINV Hop Hor Hrd. destruct o as [w ns|r b rg d|r b rg fd|r qs|].
    - (* Exec *)
      destruct HINV as [Hwf [Hitems [Hns Hnn]]]. pose proof Hwf as [Hlen Hgf Hfrq Hnosamp Hact].
      set (st' := mka (a_execs st ++ [(w, ns)]) (a_smp st) (a_sh st) (a_frq st) (a_gfl st) (Some (length (a_execs st)))).
      exists st', ODone. split; [|split; [|split]].
      + unfold st', conc. cbn [step m_gates m_results m_final a_execs a_smp a_sh a_frq a_gfl a_fin].
        rewrite mk_results_length, mk_results_app. cbn [Nat.add].
        assert (E : mkres (smp_of st) (a_frq st) (length (a_execs st)) (w, ns) = mkr w ns (calc_probs n Q w) None None).
        { unfold mkres. cbn [fst snd]. destruct (length (a_execs st) =? r0) eqn:E; [|reflexivity].
          apply Nat.eqb_eq in E.
          destruct (a_smp st) eqn:Hs.
          - destruct (Hact (or_introl eq_refl)) as [e [He _]].
            assert (r0 < length (a_execs st)) by (apply nth_error_Some; congruence). lia.
          - destruct (a_frq st) eqn:Hf.
            + destruct (Hact (or_intror eq_refl)) as [e [He _]].
              assert (r0 < length (a_execs st)) by (apply nth_error_Some; congruence). lia.
            + unfold smp_of. rewrite Hs. reflexivity. }
        change (smp_of {| a_execs := a_execs st ++ [(w, ns)]; a_smp := a_smp st; a_sh := a_sh st;
                          a_frq := a_frq st; a_gfl := a_gfl st; a_fin := Some (length (a_execs st)) |})
          with (smp_of st).
        rewrite E. reflexivity.
      + split; [|split; [|split]].
        * constructor; cbn [st' a_gfl a_sh a_frq a_smp a_execs]; try assumption.
          intros H. destruct (Hact H) as [e [He Hs]]. exists e. split; [|exact Hs].
          now apply nth_error_app_some.
        * apply Forall_app_one; [|exact I].
          rewrite Forall_forall in *. intros p Hin. apply (item_ok_mono st st'); auto.
          intros r e He. now apply nth_error_app_some.
        * intros H. apply Forall_app_one; [auto | exact I].
        * intros H1 H2. apply Forall_app_one; [auto | reflexivity].
      + cbn [st' a_execs]. rewrite app_length. cbn [length]. lia.
      + intros r e He. now apply nth_error_app_some.
    - (* Samples *)
      cbn [reader_ok] in Hrd. apply Nat.eqb_eq in Hrd. subst r.
      cbn [op_wf] in Hop. apply Nat.ltb_lt in Hop.
      destruct (step_samples_inv st past b rg d HINV Hop Hor) as [st' [x [H1 [H2 H3]]]].
      exists st', x. cbn [step]. split; [exact H1|]. split; [exact H2|]. rewrite H3. split; auto.
    - (* Freqs *)
      cbn [reader_ok] in Hrd. apply Nat.eqb_eq in Hrd. subst r.
      cbn [op_wf] in Hop. apply Nat.ltb_lt in Hop.
      destruct (step_freqs_inv st past b rg fd HINV Hop Hor) as [st' [x [H1 [H2 H3]]]].
      exists st', x. cbn [step]. split; [exact H1|]. split; [exact H2|]. rewrite H3. split; auto.
    - (* Probs *)
      cbn [op_wf] in Hop. apply andb_true_iff in Hop. destruct Hop as [Hop Hq].
      apply andb_true_iff in Hop. destruct Hop as [Hr Hnd]. apply Nat.ltb_lt in Hr.
      apply nodupb_NoDup in Hnd.
      destruct (nth_error (a_execs st) r) as [e|] eqn:He; [|apply nth_error_None in He; lia].
      exists st, (OProbs (calc_probs n qs (fst e))). split; [|split; [|split; auto]].
      + cbn [step conc m_results]. rewrite mk_results_nth, He. reflexivity.
      + destruct HINV as [Hwf [Hitems [Hns Hnn]]]. split; [exact Hwf|]. split; [|split].
        * apply Forall_app_one; [exact Hitems|].
          unfold item_ok. cbn [fst snd target]. rewrite He. cbn [explains].
          apply probs_sv_correct; [exact Hnd|]. intros q Hin. rewrite forallb_forall in Hq.
          apply Nat.ltb_lt. now apply Hq.
        * intros H. apply Forall_app_one; [auto | exact I].
        * intros H1 H2. apply Forall_app_one; [auto | reflexivity].
    - (* Final *)
      exists st, (OFinal (a_fin st)). split; [reflexivity|]. split; [|split; auto].
      destruct HINV as [Hwf [Hitems [Hns Hnn]]]. split; [exact Hwf|]. split; [|split].
      + apply Forall_app_one; [exact Hitems | exact I].
      + intros H. apply Forall_app_one; [auto | exact I].
      + intros H1 H2. apply Forall_app_one; [auto | reflexivity].
  Qed.

  (* ---------- whole histories *)
  Lemma run_inv h : forall st past,
    INV st past -> hist_wf cfg (length (a_execs st)) h = true ->
    oracles_ok cfg (conc st) h = true -> single_reader r0 h = true ->
    exists st' xs, run cfg (conc st) h = (xs, conc st') /\ INV st' (past ++ combine h xs) /\
                   length xs = length h.
  Proof.
    induction h as [|o h IH]; intros st past HINV Hwf Hor Hsr.
    - exists st, []. cbn [run combine]. rewrite app_nil_r. auto.
    - cbn [hist_wf] in Hwf. apply andb_true_iff in Hwf. destruct Hwf as [Hop Hwf].
      cbn [oracles_ok] in Hor. apply andb_true_iff in Hor. destruct Hor as [Ho Hor].
      cbn [single_reader forallb] in Hsr. apply andb_true_iff in Hsr. destruct Hsr as [Hrd Hsr].
      assert (Hrd' : reader_ok o = true) by (destruct o; exact Hrd).
      destruct (step_inv st past o HINV Hop Ho Hrd') as [st1 [x [Hstep [HINV1 [Hlen1 _]]]]].
      rewrite Hstep in Hor. cbn [fst] in Hor.
      assert (Hwf1 : hist_wf cfg (length (a_execs st1)) h = true).
      { rewrite Hlen1. destruct o; exact Hwf. }
      destruct (IH st1 (past ++ [(o, x)]) HINV1 Hwf1 Hor Hsr) as [st' [xs [Hrun [HINV' Hl]]]].
      exists st', (x :: xs). cbn [run]. rewrite Hstep, Hrun. split; [reflexivity|].
      cbn [combine length]. rewrite <- app_assoc in HINV'. cbn [app] in HINV'. auto.
  Qed.

  Definition st0 : ast := mka [] false [] None (map (fun _ => None) regs) None.

  Lemma build_init : forall rs : list (list nat),
    build rs false [] (map (fun _ => None) rs) = map (fun _ => mkg None None) rs.
  Proof. induction rs as [|reg rs IH]; cbn [build map]; [reflexivity | now rewrite IH]. Qed.

  Lemma conc_st0 : conc st0 = init cfg.
  Proof. unfold conc, st0, init. cbn [a_smp a_sh a_gfl a_execs a_fin a_frq mk_results_from]. now rewrite build_init. Qed.

  Lemma INV_st0 : INV st0 [].
  Proof.
    split; [|split; [constructor | split; intros; constructor]].
    constructor; cbn [st0 a_gfl a_sh a_frq a_smp a_execs].
    - now rewrite map_length.
    - apply gf_ok_none; [now rewrite map_length|]. clear. induction regs; cbn [map]; constructor; auto.
    - exact I.
    - intros _. clear. induction regs; cbn [map]; constructor; auto.
    - intros [H|H]; discriminate.
  Qed.

  Lemma nth_error_combine {A B} (l : list A) : forall (l' : list B) i a b,
    nth_error l i = Some a -> nth_error l' i = Some b -> In (a, b) (combine l l').
  Proof.
    induction l as [|x l IH]; intros [|y l'] [|i] a b Ha Hb; cbn [nth_error] in *; try discriminate.
    - inversion Ha; inversion Hb; subst. now left.
    - right. eapply IH; eauto.
  Qed.

  Theorem single_reader_standalone h :
    hist_wf cfg 0 h = true -> oracles_ok cfg (init cfg) h = true -> single_reader r0 h = true ->
    standalone cfg h.
  Proof.
    intros Hwf Hor Hsr. unfold standalone. rewrite <- conc_st0 in *.
    destruct (run_inv h st0 [] INV_st0 Hwf Hor Hsr) as [st' [xs [Hrun [[Hwf' [Hitems [Hns Hnn]]] Hl]]]].
    rewrite Hrun. cbn [app] in *. intros r R HR.
    cbn [conc m_results] in HR. rewrite mk_results_nth in HR. cbn [Nat.add] in HR.
    destruct (nth_error (a_execs st') r) as [e|] eqn:He; [|discriminate].
    cbn [option_map] in HR. inversion HR; subst R. clear HR.
    exists (if r =? r0 then a_sh st' else []). split.
    - intros [o [Hin [Ht Hn]]].
      assert (r = r0) as ->.
      { unfold single_reader in Hsr. rewrite forallb_forall in Hsr. specialize (Hsr o Hin).
        destruct o; cbn [target needs_shots] in *; try discriminate; inversion Ht; subst;
          now apply Nat.eqb_eq. }
      rewrite Nat.eqb_refl.
      assert (Hactive : a_smp st' = true \/ isSome (a_frq st') = true).
      { destruct (a_smp st') eqn:Hs; [now left | right].
        destruct (a_frq st') eqn:Hf; [reflexivity | exfalso].
        specialize (Hnn eq_refl eq_refl). rewrite Forall_forall in Hnn.
        apply (In_nth_error) in Hin. destruct Hin as [i Hi].
        assert (i < length xs) by (rewrite Hl; apply nth_error_Some; congruence).
        destruct (nth_error xs i) as [x|] eqn:Hx; [|apply nth_error_None in Hx; lia].
        specialize (Hnn (o, x) (nth_error_combine _ _ _ _ _ Hi Hx)). cbn [fst] in Hnn. congruence. }
      destruct Hwf' as [_ _ _ _ Hact]. destruct (Hact Hactive) as [e' [He' Hs]].
      rewrite He in He'. inversion He'; subst e'. exact Hs.
    - intros i o x Hi Hx Ht. rewrite Forall_forall in Hitems.
      specialize (Hitems (o, x) (nth_error_combine _ _ _ _ _ Hi Hx)).
      unfold item_ok in Hitems. cbn [fst snd] in Hitems. rewrite Ht, He in Hitems. exact Hitems.
  Qed.
End Single.
