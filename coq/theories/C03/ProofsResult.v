(* C03/ProofsResult.v : invariant of the result state machine for ALL histories (any number of
   executions of the circuit object, samples()/frequencies()/probabilities() on any result in
   any order).  Refinement proof: the list of result objects of every reachable machine state is
   the concretisation of a list of abstract entries, one per result, each consisting of that
   result's own list of shots plus flags saying which of its caches are filled; every output
   read from a result is explained by its own list.  The caches on the measurement gates are
   unconstrained: results write them but never read them. *)
From Coq Require Import List Bool Arith ZArith Lia Permutation.
From QV Require Import Base.Mat C03.ModelSamples C03.ModelProbs C03.ModelResult
     C03.ProofsSamples C03.ProofsProbs.
Import ListNotations.

(* ---------- lists *)
Lemma update_nth_length {A} (l : list A) : forall i x, length (update_nth i x l) = length l.
Proof. induction l as [|y l IH]; intros [|i] x; cbn [update_nth length]; auto. Qed.

Lemma nodupb_NoDup l : nodupb l = true -> NoDup l.
Proof.
  induction l as [|x l IH]; cbn [nodupb]; intros H; [constructor|].
  apply andb_true_iff in H. destruct H as [H1 H2]. constructor; [|auto].
  intros Hin. apply existsb_eqb_In in Hin. rewrite Hin in H1. discriminate.
Qed.

Lemma cnt_count l v : count l v = cnt l v.
Proof. reflexivity. Qed.

Lemma counts_ok_perm f l l' : (forall v, cnt l v = cnt l' v) -> counts_ok f l -> counts_ok f l'.
Proof. intros H [H1 H2]. split; [assumption|]. intros v. rewrite H2. apply H. Qed.

Lemma cnt_map_perm (g : nat -> nat) l l' :
  (forall v, cnt l v = cnt l' v) -> forall u, cnt (map g l) u = cnt (map g l') u.
Proof.
  intros H. apply (Permutation_count_occ Nat.eq_dec). apply Permutation_map.
  apply (Permutation_count_occ Nat.eq_dec). exact H.
Qed.

Lemma Forall_cnt_perm (P : nat -> Prop) l l' :
  (forall v, cnt l v = cnt l' v) -> Forall P l -> Forall P l'.
Proof.
  intros H HF. apply (Permutation_count_occ Nat.eq_dec) in H.
  eapply Permutation_Forall; eauto.
Qed.

Lemma length_cnt_perm l l' : (forall v, cnt l v = cnt l' v) -> length l = length l'.
Proof. intros H. apply (Permutation_count_occ Nat.eq_dec) in H. now apply Permutation_length. Qed.

Lemma Forall2_impl' {A B} (P P' : A -> B -> Prop) l l' :
  (forall a b, P a b -> P' a b) -> Forall2 P l l' -> Forall2 P' l l'.
Proof. intros H HF. induction HF; constructor; auto. Qed.

Definition isSome {A} (o : option A) : bool := match o with Some _ => true | None => false end.


Lemma update_nth_map {A B} (f : A -> B) (l : list A) : forall i x,
  map f (update_nth i x l) = update_nth i (f x) (map f l).
Proof. induction l as [|y l IH]; intros [|i] x; cbn [update_nth map]; try reflexivity. now rewrite IH. Qed.

Lemma update_nth_same {A} (l : list A) : forall i x, nth_error l i = Some x -> update_nth i x l = l.
Proof.
  induction l as [|y l IH]; intros [|i] x H; cbn [nth_error] in H; try discriminate; cbn [update_nth].
  - now inversion H.
  - now rewrite IH.
Qed.

Lemma nth_error_update_eq {A} (l : list A) : forall i x, i < length l -> nth_error (update_nth i x l) i = Some x.
Proof. induction l as [|y l IH]; intros [|i] x H; cbn [length] in H; try lia; cbn [update_nth nth_error]; [reflexivity|]. apply IH. lia. Qed.

Lemma nth_error_update_neq {A} (l : list A) : forall i j x, i <> j -> nth_error (update_nth i x l) j = nth_error l j.
Proof.
  induction l as [|y l IH]; intros [|i] [|j] x H; cbn [update_nth nth_error]; try reflexivity; try congruence.
  apply IH. congruence.
Qed.

Lemma Forall_app_one {A} (P : A -> Prop) l x : Forall P l -> P x -> Forall P (l ++ [x]).
Proof. intros H1 H2. apply Forall_app. split; [assumption | constructor; [assumption | constructor]]. Qed.

Lemma Forall_update_nth {A} (P : A -> Prop) (l : list A) : forall i x, Forall P l -> P x -> Forall P (update_nth i x l).
Proof.
  induction l as [|y l IH]; intros [|i] x H Hx; cbn [update_nth]; try assumption; inversion H; subst; constructor; auto.
Qed.

Lemma nth_error_app_some {A} (l l' : list A) r e : nth_error l r = Some e -> nth_error (l ++ l') r = Some e.
Proof. intros H. rewrite nth_error_app1; [assumption|]. apply nth_error_Some. congruence. Qed.

Lemma nth_error_combine {A B} (l : list A) : forall (l' : list B) i a b,
  nth_error l i = Some a -> nth_error l' i = Some b -> In (a, b) (combine l l').
Proof.
  induction l as [|x l IH]; intros [|y l'] [|i] a b Ha Hb; cbn [nth_error] in *; try discriminate.
  - inversion Ha; inversion Hb; subst. now left.
  - right. eapply IH; eauto.
Qed.

Lemma forallb_count_all draw l :
  forallb (fun v => count draw v =? count l v) (draw ++ l) = true -> forall v, cnt draw v = cnt l v.
Proof.
  intros H v. rewrite forallb_forall in H.
  destruct (in_dec Nat.eq_dec v (draw ++ l)) as [Hin|Hnin].
  - apply Nat.eqb_eq. apply (H v Hin).
  - unfold cnt. rewrite in_app_iff in Hnin.
    rewrite (proj1 (count_occ_not_In Nat.eq_dec draw v)) by tauto.
    rewrite (proj1 (count_occ_not_In Nat.eq_dec l v)) by tauto. reflexivity.
Qed.

Lemma expand_keys f s : In s (expand f) -> exists c, In (s, c) f.
Proof.
  induction f as [|[v c] f IH]; cbn [expand flat_map fst snd]; [intros []|].
  rewrite in_app_iff. intros [H|H].
  - apply repeat_spec in H. subst. exists c. now left.
  - destruct (IH H) as [c' Hc]. exists c'. now right.
Qed.

Section All.
  Variable cfg : config.
  Hypothesis Hcfg : cfg_wf cfg.

  Notation n := (c_n cfg).
  Notation regs := (c_regs cfg).
  Notation Q := (cQ cfg).
  Notation k := (ck cfg).

  (* ---------- abstract entry of one result object *)
  Record aent := mkent { e_w : list Z ; e_ns : nat ; e_smp : bool ; e_sh : list nat ; e_frq : option counter }.
  Definition conc_ent (a : aent) : result :=
    mkr (e_w a) (e_ns a) (calc_probs n Q (e_w a))
        (if e_smp a then Some (map (to_bin k) (e_sh a)) else None) (e_frq a).
  Definition rel (m : machine) (al : list aent) : Prop := m_results m = map conc_ent al.

  Record wfe (a : aent) : Prop := mkwfe {
    wfe_frq : match e_frq a with Some F => counts_ok F (e_sh a) | None => True end;
    wfe_active : e_smp a = true \/ isSome (e_frq a) = true -> shots_ok cfg (e_w a) (e_ns a) (e_sh a)
  }.

  Definition item_ok (al : list aent) (p : op * out) : Prop :=
    match target (fst p) with
    | None => True
    | Some r => match nth_error al r with
                | Some a => explains cfg (e_w a) (e_sh a) (fst p) (snd p)
                | None => False
                end
    end.
  Definition no_samples_item (p : op * out) : Prop :=
    match fst p with Samples _ _ _ _ => False | _ => True end.
  Definition on (r : nat) (p : op * out) : Prop := target (fst p) = Some r.

  Definition INV (al : list aent) (past : list (op * out)) : Prop :=
    Forall wfe al /\ Forall (item_ok al) past /\
    (forall r a, nth_error al r = Some a -> e_smp a = false ->
                 Forall (fun p => on r p -> no_samples_item p) past) /\
    (forall r a, nth_error al r = Some a -> e_smp a = false -> e_frq a = None ->
                 Forall (fun p => on r p -> needs_shots (fst p) = false) past).

  (* ---------- facts about the views *)
  Lemma probs_born w : calc_probs n Q w = born_vec n Q w.
  Proof. destruct Hcfg as [_ [Hnd Hlt]]. now apply probs_sv_correct. Qed.

  Lemma own_row reg s : take_cols (own_cols cfg reg) (to_bin k s) = spec_reg_row cfg reg s.
  Proof. unfold take_cols, own_cols, spec_reg_row. now rewrite map_map. Qed.

  Lemma own_rows sh :
    map (fun reg => map (take_cols (own_cols cfg reg)) (map (to_bin k) sh)) regs
    = map (fun reg => map (spec_reg_row cfg reg) sh) regs.
  Proof. apply map_ext. intros reg. rewrite map_map. apply map_ext. intros s. apply own_row. Qed.

  Lemma own_rows_dec sh :
    map (map to_dec) (map (fun reg => map (take_cols (own_cols cfg reg)) (map (to_bin k) sh)) regs)
    = map (fun reg => map (spec_reg_dec cfg reg) sh) regs.
  Proof. rewrite own_rows, map_map. apply map_ext. intros reg. now rewrite map_map. Qed.

  Lemma dec_bin_shots (w : list Z) ns sh : shots_ok cfg w ns sh -> map to_dec (map (to_bin k) sh) = sh.
  Proof.
    intros [_ HF]. rewrite map_map. rewrite <- (map_id sh) at 2. apply map_ext_in. intros s Hs.
    rewrite Forall_forall in HF. destruct (HF s Hs) as [Hlt _]. now apply bin_dec_inverse_l.
  Qed.

  Lemma own_freq_ok reg F sh :
    counts_ok F sh -> counts_ok (reg_freq k (own_cols cfg reg) F) (map (spec_reg_dec cfg reg) sh).
  Proof.
    intros [Hnd Hl]. split; [apply nodup_reg_freq|]. intros u. rewrite lookup_reg_freq.
    assert (E : map (fun s => to_dec (take_cols (own_cols cfg reg) (to_bin k s))) (expand F)
                = map (spec_reg_dec cfg reg) (expand F)).
    { apply map_ext. intros s. unfold spec_reg_dec. now rewrite own_row. }
    rewrite E. apply cnt_map_perm. intros v. rewrite (cnt_expand F v Hnd). apply Hl.
  Qed.

  Lemma own_freqs_ok F sh :
    counts_ok F sh ->
    Forall2 (fun reg f => counts_ok f (map (spec_reg_dec cfg reg) sh)) regs
            (map (fun reg => reg_freq k (own_cols cfg reg) F) regs).
  Proof. intros H. induction regs as [|reg rs IH]; cbn [map]; constructor; [now apply own_freq_ok | exact IH]. Qed.

  Lemma fl_bin_ok sh rs fl :
    Forall2 (fun reg f => counts_ok f (map (spec_reg_dec cfg reg) sh)) rs fl ->
    Forall2 (fun reg fb => exists f, fb = fbin (length reg) f /\ counts_ok f (map (spec_reg_dec cfg reg) sh))
            rs (map (fun rf => fbin (length (fst rf)) (snd rf)) (combine rs fl)).
  Proof. intros HF. induction HF; cbn [combine map fst snd]; constructor; eauto. Qed.

  Lemma in_support_spec probs s :
    in_support k probs s = true -> s < 2 ^ k /\ nth s probs 0%Z <> 0%Z.
  Proof. unfold in_support. rewrite andb_true_iff, negb_true_iff, Nat.ltb_lt, Z.eqb_neq. tauto. Qed.

  Lemma support_shots w ns d :
    length d = ns -> forallb (in_support k (calc_probs n Q w)) d = true -> shots_ok cfg w ns d.
  Proof.
    intros Hl Hs. split; [assumption|]. apply Forall_forall. intros s Hin.
    rewrite forallb_forall in Hs. specialize (Hs s Hin). apply in_support_spec in Hs.
    now rewrite <- probs_born.
  Qed.

  (* ---------- explained items survive the transitions *)
  Lemma explains_perm w sh sh' o x :
    (forall v, cnt sh v = cnt sh' v) -> no_samples_item (o, x) ->
    explains cfg w sh o x -> explains cfg w sh' o x.
  Proof.
    intros Hp Hns. destruct o as [w' ns|r b rg d|r b rg fd|r qs|]; cbn [no_samples_item fst] in Hns; try contradiction;
      try (intros H; exact H).
    destruct b, rg; destruct x; cbn [explains]; try (intros H; exact H).
    + intros H. eapply Forall2_impl'; [|exact H]. intros reg fb [f0 [E C]]. exists f0. split; [assumption|].
      eapply counts_ok_perm; [|exact C]. now apply cnt_map_perm.
    + intros [f0 [E C]]. exists f0. split; [assumption|]. eapply counts_ok_perm; eauto.
    + intros H. eapply Forall2_impl'; [|exact H]. intros reg f0 C.
      eapply counts_ok_perm; [|exact C]. now apply cnt_map_perm.
    + intros C. eapply counts_ok_perm; eauto.
  Qed.

  Lemma explains_nosh w sh sh' o x :
    needs_shots o = false -> explains cfg w sh o x -> explains cfg w sh' o x.
  Proof. destruct o; cbn [needs_shots]; try discriminate; auto. Qed.

  (* replacing the entry of result r0 by one with the same state and compatible shots *)
  Lemma item_ok_update al r0 a a' p :
    nth_error al r0 = Some a -> e_w a' = e_w a ->
    (e_sh a' = e_sh a \/ ((forall v, cnt (e_sh a) v = cnt (e_sh a') v) /\ (on r0 p -> no_samples_item p))
     \/ (on r0 p -> needs_shots (fst p) = false)) ->
    item_ok al p -> item_ok (update_nth r0 a' al) p.
  Proof.
    intros Ha Hw Hsh. unfold item_ok. destruct (target (fst p)) as [r|] eqn:Et; [|auto].
    destruct (Nat.eq_dec r0 r) as [<-|Hne].
    - rewrite Ha, nth_error_update_eq by (apply nth_error_Some; congruence). rewrite Hw.
      destruct Hsh as [->|[[Hp Hns]|Hn]]; [auto| |].
      + destruct p as [o x]. apply explains_perm; [exact Hp | now apply Hns].
      + apply explains_nosh. now apply Hn.
    - now rewrite nth_error_update_neq by exact Hne.
  Qed.

  Lemma rel_nth m al r a : rel m al -> nth_error al r = Some a -> nth_error (m_results m) r = Some (conc_ent a).
  Proof. intros H Ha. rewrite H. now rewrite nth_error_map, Ha. Qed.

  Lemma INV_update al past r0 a a' :
    INV al past -> nth_error al r0 = Some a -> e_w a' = e_w a -> wfe a' ->
    (e_sh a' = e_sh a
     \/ ((forall v, cnt (e_sh a) v = cnt (e_sh a') v) /\ e_smp a = false)
     \/ (e_smp a = false /\ e_frq a = None)) ->
    (e_smp a' = false -> e_smp a = false) ->
    (e_smp a' = false -> e_frq a' = None -> e_frq a = None) ->
    INV (update_nth r0 a' al) past.
  Proof.
    intros [Hwf [Hit [Hf1 Hf2]]] Ha Hw Hwf' Hsh Hs1 Hs2.
    assert (Hr0 : r0 < length al) by (apply nth_error_Some; congruence).
    split; [now apply Forall_update_nth|]. split; [|split].
    - rewrite Forall_forall in *. intros p Hp. apply (item_ok_update al r0 a a' p Ha Hw); [|now apply Hit].
      destruct Hsh as [H|[[Hc Hs]|[Hs Hf]]]; [now left | right; left | right; right].
      + split; [exact Hc|]. specialize (Hf1 r0 a Ha Hs). rewrite Forall_forall in Hf1. now apply Hf1.
      + specialize (Hf2 r0 a Ha Hs Hf). rewrite Forall_forall in Hf2. now apply Hf2.
    - intros r b Hb Hsb. destruct (Nat.eq_dec r0 r) as [<-|Hne].
      + rewrite nth_error_update_eq in Hb by exact Hr0. inversion Hb; subst b. apply (Hf1 r0 a Ha). now apply Hs1.
      + rewrite nth_error_update_neq in Hb by exact Hne. now apply (Hf1 r b).
    - intros r b Hb Hsb Hfb. destruct (Nat.eq_dec r0 r) as [<-|Hne].
      + rewrite nth_error_update_eq in Hb by exact Hr0. inversion Hb; subst b.
        apply (Hf2 r0 a Ha); [now apply Hs1 | now apply Hs2].
      + rewrite nth_error_update_neq in Hb by exact Hne. now apply (Hf2 r b).
  Qed.

  Lemma INV_snoc al past o x :
    INV al past -> item_ok al (o, x) ->
    (forall r a, target o = Some r -> nth_error al r = Some a -> e_smp a = false -> no_samples_item (o, x)) ->
    (forall r a, target o = Some r -> nth_error al r = Some a -> e_smp a = false -> e_frq a = None -> needs_shots o = false) ->
    INV al (past ++ [(o, x)]).
  Proof.
    intros [Hwf [Hit [Hf1 Hf2]]] Hi H1 H2. split; [exact Hwf|]. split; [now apply Forall_app_one|]. split.
    - intros r a Ha Hs. apply Forall_app_one; [now apply (Hf1 r a)|]. intros Hon. now apply (H1 r a).
    - intros r a Ha Hs Hf. apply Forall_app_one; [now apply (Hf2 r a)|]. intros Hon. now apply (H2 r a).
  Qed.

  Lemma rel_update m al r a' gates fin :
    rel m al ->
    rel (mkm gates (update_nth r (conc_ent a') (m_results m)) fin) (update_nth r a' al).
  Proof. unfold rel. intros H. cbn [m_results]. now rewrite H, update_nth_map. Qed.

  (* ---------- samples() *)
  Lemma samples_tail al r a (b rg : bool) m d :
    rel m al -> nth_error al r = Some a -> e_smp a = true -> wfe a ->
    exists x, step_samples cfg m r b rg d = (m, x) /\ explains cfg (e_w a) (e_sh a) (Samples r b rg d) x.
  Proof.
    intros Hrel Ha Hs [_ Hact]. pose proof (Hact (or_introl Hs)) as Hshots.
    unfold step_samples, materialise. rewrite (rel_nth m al r a Hrel Ha).
    unfold conc_ent at 1. cbn [r_samples]. rewrite Hs.
    rewrite (rel_nth m al r a Hrel Ha). unfold conc_ent. cbn [r_samples]. rewrite Hs.
    destruct rg, b; eexists; (split; [reflexivity|]); cbn [explains].
    - apply own_rows.
    - apply own_rows_dec.
    - reflexivity.
    - eapply dec_bin_shots; eauto.
  Qed.

  Lemma step_samples_inv m al past r (b rg : bool) d :
    rel m al -> INV al past -> r < length al ->
    oracle_ok cfg m (Samples r b rg d) = true ->
    exists al' m' x, step_samples cfg m r b rg d = (m', x) /\ rel m' al' /\
                     INV al' (past ++ [(Samples r b rg d, x)]) /\ length al' = length al.
  Proof.
    intros Hrel HINV Hr Hor.
    destruct (nth_error al r) as [a|] eqn:Ha; [|apply nth_error_None in Ha; lia].
    pose proof HINV as [Hwf [Hitems [Hf1 Hf2]]].
    assert (Hwa : wfe a) by (rewrite Forall_forall in Hwf; apply Hwf; eapply nth_error_In; eauto).
    destruct (e_smp a) eqn:Hs.
    - destruct (samples_tail al r a b rg m d Hrel Ha Hs Hwa) as [x [Hx Hex]].
      exists al, m, x. split; [exact Hx|]. split; [exact Hrel|]. split; [|reflexivity].
      apply INV_snoc; [exact HINV | | |].
      + unfold item_ok. cbn [fst snd target]. now rewrite Ha.
      + intros r' a' Ht Ha' Hs'. cbn [target] in Ht. inversion Ht; subst r'. congruence.
      + intros r' a' Ht Ha' Hs'. cbn [target] in Ht. inversion Ht; subst r'. congruence.
    - (* first materialisation *)
      set (a' := mkent (e_w a) (e_ns a) true d (e_frq a)).
      unfold oracle_ok in Hor. rewrite (rel_nth m al r a Hrel Ha) in Hor.
      unfold conc_ent in Hor. cbn [r_samples r_freqs r_probs r_nshots] in Hor. rewrite Hs in Hor.
      destruct Hwa as [Hfrq Hact].
      assert (Hcase : wfe a' /\ ((forall v, cnt (e_sh a) v = cnt d v) \/ e_frq a = None)).
      { destruct (e_frq a) as [F|] eqn:Hf.
        - pose proof (forallb_count_all _ _ Hor) as Hp. destruct Hfrq as [HndF HlF].
          assert (Hperm : forall v, cnt (e_sh a) v = cnt d v).
          { intros v. rewrite Hp, (cnt_expand F v HndF). symmetry. apply HlF. }
          split; [|now left]. constructor; cbn [a' e_frq e_sh e_smp e_w e_ns].
          + eapply counts_ok_perm; eauto. split; assumption.
          + intros _. destruct (Hact (or_intror eq_refl)) as [Hl0 HF0]. split.
            * rewrite <- Hl0. symmetry. now apply length_cnt_perm.
            * eapply Forall_cnt_perm; eauto.
        - apply andb_true_iff in Hor. destruct Hor as [Hl Hsup]. apply Nat.eqb_eq in Hl.
          split; [|now right]. constructor; cbn [a' e_frq e_sh e_smp e_w e_ns].
          + exact I.
          + intros _. now apply support_shots. }
      destruct Hcase as [Hwa' Hcase].
      set (al' := update_nth r a' al).
      set (m1 := mkm (map (fun rg0 => mkg (Some (map (take_cols (reg_cols Q (fst rg0))) (map (to_bin k) d))) (gf (snd rg0)))
                          (combine regs (m_gates m)))
                     (update_nth r (conc_ent a') (m_results m)) (m_final m)).
      assert (Hmat : materialise cfg m r d = Some m1).
      { unfold materialise. rewrite (rel_nth m al r a Hrel Ha). unfold conc_ent at 1. cbn [r_samples]. rewrite Hs.
        unfold m1.
        assert (E : set_samples (conc_ent a) (map (to_bin k) d) = conc_ent a') by reflexivity.
        now rewrite E. }
      assert (Hrel1 : rel m1 al') by (apply rel_update; exact Hrel).
      assert (Ha' : nth_error al' r = Some a') by (apply nth_error_update_eq; exact Hr).
      assert (HINV1 : INV al' past).
      { apply (INV_update al past r a a' HINV Ha eq_refl Hwa').
        - destruct Hcase as [Hp|Hf]; [right; left; split; [exact Hp | exact Hs] | right; right; split; [exact Hs | exact Hf]].
        - discriminate.
        - discriminate. }
      destruct (samples_tail al' r a' b rg m1 d Hrel1 Ha' eq_refl Hwa') as [x [Hx Hex]].
      exists al', m1, x. split.
      + unfold step_samples. rewrite Hmat. unfold step_samples in Hx.
        assert (Hm1 : materialise cfg m1 r d = Some m1).
        { unfold materialise. rewrite (rel_nth m1 al' r a' Hrel1 Ha'). reflexivity. }
        rewrite Hm1 in Hx. exact Hx.
      + split; [exact Hrel1|]. split; [|apply update_nth_length].
        apply INV_snoc; [exact HINV1 | | |].
        * unfold item_ok. cbn [fst snd target]. now rewrite Ha'.
        * intros r' b' Ht Hb' Hs'. cbn [target] in Ht. inversion Ht; subst r'. rewrite Ha' in Hb'. inversion Hb'; subst b'. discriminate.
        * intros r' b' Ht Hb' Hs'. cbn [target] in Ht. inversion Ht; subst r'. rewrite Ha' in Hb'. inversion Hb'; subst b'. discriminate.
  Qed.

  (* ---------- frequencies() *)
  Lemma freqs_tail al r a (b rg : bool) m1 F :
    rel m1 al -> nth_error al r = Some a -> e_frq a = Some F -> wfe a ->
    exists x,
      (match nth_error (m_results m1) r with
       | Some R1 =>
         match r_freqs R1 with
         | Some F0 =>
           if rg then
             let l := map (fun reg => reg_freq k (own_cols cfg reg) F0) regs in
             (m1, if b then ORegFreqBin (map (fun rf => fbin (length (fst rf)) (snd rf)) (combine regs l))
                  else ORegFreqDec l)
           else (m1, if b then OFreqBin (fbin k F0) else OFreqDec F0)
         | None => (m1, OErr 3)
         end
       | None => (m1, OErr 4)
       end) = (m1, x) /\ forall fd, explains cfg (e_w a) (e_sh a) (Freqs r b rg fd) x.
  Proof.
    intros Hrel Ha Hf [Hfrq _]. rewrite Hf in Hfrq.
    rewrite (rel_nth m1 al r a Hrel Ha). unfold conc_ent. cbn [r_freqs]. rewrite Hf.
    destruct rg, b; eexists; (split; [reflexivity|]); intros fd; cbn [explains].
    - apply fl_bin_ok. now apply own_freqs_ok.
    - now apply own_freqs_ok.
    - exists F. split; [reflexivity | exact Hfrq].
    - exact Hfrq.
  Qed.

  Lemma step_freqs_inv m al past r (b rg : bool) fd :
    rel m al -> INV al past -> r < length al ->
    oracle_ok cfg m (Freqs r b rg fd) = true ->
    exists al' m' x, step_freqs cfg m r b rg fd = (m', x) /\ rel m' al' /\
                     INV al' (past ++ [(Freqs r b rg fd, x)]) /\ length al' = length al.
  Proof.
    intros Hrel HINV Hr Hor.
    destruct (nth_error al r) as [a|] eqn:Ha; [|apply nth_error_None in Ha; lia].
    pose proof HINV as [Hwf [Hitems [Hf1 Hf2]]].
    assert (Hwa : wfe a) by (rewrite Forall_forall in Hwf; apply Hwf; eapply nth_error_In; eauto).
    unfold step_freqs. rewrite (rel_nth m al r a Hrel Ha). cbv zeta.
    change (r_freqs (conc_ent a)) with (e_frq a).
    change (r_samples (conc_ent a)) with (if e_smp a then Some (map (to_bin k) (e_sh a)) else None).
    (* the filled state *)
    assert (Hfill : exists a1 F gates1,
              (match e_frq a with
               | Some _ => m
               | None =>
                 match (if e_smp a then Some (map (to_bin k) (e_sh a)) else None) with
                 | Some sm => mkm (m_gates m) (update_nth r (set_freqs (conc_ent a) (calc_freq (map to_dec sm))) (m_results m)) (m_final m)
                 | None => mkm (map (fun rg0 => mkg (gs (snd rg0)) (Some (reg_freq k (reg_cols Q (fst rg0)) fd))) (combine regs (m_gates m)))
                               (update_nth r (set_freqs (conc_ent a) fd) (m_results m)) (m_final m)
                 end
               end) = mkm gates1 (update_nth r (conc_ent a1) (m_results m)) (m_final m) /\
              e_frq a1 = Some F /\ INV (update_nth r a1 al) past /\ wfe a1).
    { destruct (e_frq a) as [F|] eqn:Hf.
      - exists a, F, (m_gates m). split.
        + rewrite (update_nth_same (m_results m) r (conc_ent a)) by (now apply (rel_nth m al)). now destruct m.
        + split; [exact Hf|]. split; [|exact Hwa]. now rewrite (update_nth_same al r a Ha).
      - destruct (e_smp a) eqn:Hs.
        + destruct Hwa as [_ Hact]. pose proof (Hact (or_introl Hs)) as Hshots.
          set (a1 := mkent (e_w a) (e_ns a) true (e_sh a) (Some (calc_freq (e_sh a)))).
          assert (Hwa1 : wfe a1).
          { constructor; cbn [a1 e_frq e_sh e_smp e_w e_ns]; [|auto].
            split; [apply nodup_calc_freq | intros v; apply lookup_calc_freq]. }
          exists a1, (calc_freq (e_sh a)), (m_gates m). split; [|split; [reflexivity|split; [|exact Hwa1]]].
          * rewrite (dec_bin_shots _ _ _ Hshots).
            assert (E : set_freqs (conc_ent a) (calc_freq (e_sh a)) = conc_ent a1) by (unfold set_freqs, conc_ent, a1; cbn; now rewrite Hs).
            now rewrite E.
          * apply (INV_update al past r a a1 HINV Ha eq_refl Hwa1); [now left | discriminate | discriminate].
        + unfold oracle_ok in Hor. rewrite (rel_nth m al r a Hrel Ha) in Hor.
          unfold conc_ent in Hor. cbn [r_samples r_freqs r_probs r_nshots has_own_samples] in Hor.
          rewrite Hf, Hs in Hor.
          apply andb_true_iff in Hor. destruct Hor as [Hor Hsup].
          apply andb_true_iff in Hor. destruct Hor as [Hnd Htot].
          apply nodupb_NoDup in Hnd. apply Nat.eqb_eq in Htot.
          set (a1 := mkent (e_w a) (e_ns a) false (expand fd) (Some fd)).
          assert (Hwa1 : wfe a1).
          { constructor; cbn [a1 e_frq e_sh e_smp e_w e_ns].
            - split; [exact Hnd | intros v; symmetry; now apply cnt_expand].
            - intros _. split; [now rewrite length_expand|].
              apply Forall_forall. intros s Hin. apply expand_keys in Hin. destruct Hin as [c Hc].
              rewrite forallb_forall in Hsup. specialize (Hsup _ Hc). cbn [fst snd] in Hsup.
              apply andb_true_iff in Hsup. destruct Hsup as [Hsup _].
              apply in_support_spec in Hsup. now rewrite <- probs_born. }
          eexists a1, fd, _. split; [|split; [reflexivity|split; [|exact Hwa1]]].
          * assert (E : set_freqs (conc_ent a) fd = conc_ent a1) by (unfold set_freqs, conc_ent, a1; cbn; now rewrite Hs).
            now rewrite E.
          * apply (INV_update al past r a a1 HINV Ha eq_refl Hwa1); [right; right; split; [exact Hs | exact Hf] | auto | discriminate]. }
    destruct Hfill as [a1 [F [gates1 [Hm1 [Hf1' [HINV1 Hwa1]]]]]].
    rewrite Hm1.
    set (m1 := mkm gates1 (update_nth r (conc_ent a1) (m_results m)) (m_final m)).
    set (al' := update_nth r a1 al).
    assert (Hrel1 : rel m1 al') by (apply rel_update; exact Hrel).
    assert (Ha1 : nth_error al' r = Some a1) by (apply nth_error_update_eq; exact Hr).
    destruct (freqs_tail al' r a1 b rg m1 F Hrel1 Ha1 Hf1' Hwa1) as [x [Hx Hex]].
    exists al', m1, x. split; [exact Hx|]. split; [exact Hrel1|]. split; [|apply update_nth_length].
    apply INV_snoc; [exact HINV1 | | |].
    - unfold item_ok. cbn [fst snd target]. rewrite Ha1. apply Hex.
    - intros; exact I.
    - intros r' b' Ht Hb' Hs' Hfb. cbn [target] in Ht. inversion Ht; subst r'. rewrite Ha1 in Hb'. inversion Hb'; subst b'. congruence.
  Qed.

  (* ---------- one step *)
  Lemma step_inv m al past o :
    rel m al -> INV al past -> op_wf cfg (length al) o = true -> oracle_ok cfg m o = true ->
    exists al' m' x, step cfg m o = (m', x) /\ rel m' al' /\ INV al' (past ++ [(o, x)]) /\
      length al' = (match o with Exec _ _ => S (length al) | _ => length al end).
  Proof.
    intros Hrel HINV Hop Hor. destruct o as [w ns|r b rg d|r b rg fd|r qs|].
    - (* Exec *)
      set (a := mkent w ns false [] None).
      exists (al ++ [a]), (mkm (m_gates m) (m_results m ++ [conc_ent a]) (Some (length (m_results m)))), ODone.
      split; [reflexivity|]. split; [|split].
      + unfold rel in *. cbn [m_results]. now rewrite Hrel, map_app.
      + destruct HINV as [Hwf [Hit [Hf1 Hf2]]]. split; [|split; [|split]].
        * apply Forall_app_one; [exact Hwf|]. constructor; cbn [a e_frq e_smp]; [exact I | intros [H|H]; discriminate].
        * apply Forall_app_one; [|exact I]. rewrite Forall_forall in *. intros p Hp. specialize (Hit p Hp).
          unfold item_ok in *. destruct (target (fst p)) as [r|]; [|exact I].
          destruct (nth_error al r) as [e|] eqn:E; [|contradiction]. now rewrite (nth_error_app_some al [a] r e E).
        * intros r e He Hs. apply Forall_app_one; [|intros H; discriminate H].
          destruct (Nat.lt_ge_cases r (length al)) as [Hlt|Hge].
          -- rewrite nth_error_app1 in He by exact Hlt. now apply (Hf1 r e).
          -- rewrite Forall_forall in *. intros p Hp Hon. exfalso. specialize (Hit p Hp). unfold item_ok, on in *.
             rewrite Hon in Hit. destruct (nth_error al r) eqn:E; [|exact Hit]. apply nth_error_None in Hge. congruence.
        * intros r e He Hs Hf. apply Forall_app_one; [|intros H; discriminate H].
          destruct (Nat.lt_ge_cases r (length al)) as [Hlt|Hge].
          -- rewrite nth_error_app1 in He by exact Hlt. now apply (Hf2 r e).
          -- rewrite Forall_forall in *. intros p Hp Hon. exfalso. specialize (Hit p Hp). unfold item_ok, on in *.
             rewrite Hon in Hit. destruct (nth_error al r) eqn:E; [|exact Hit]. apply nth_error_None in Hge. congruence.
      + rewrite app_length. cbn [length]. lia.
    - cbn [op_wf] in Hop. apply Nat.ltb_lt in Hop.
      destruct (step_samples_inv m al past r b rg d Hrel HINV Hop Hor) as [al' [m' [x [H1 [H2 [H3 H4]]]]]].
      exists al', m', x. cbn [step]. auto.
    - cbn [op_wf] in Hop. apply Nat.ltb_lt in Hop.
      destruct (step_freqs_inv m al past r b rg fd Hrel HINV Hop Hor) as [al' [m' [x [H1 [H2 [H3 H4]]]]]].
      exists al', m', x. cbn [step]. auto.
    - (* Probs *)
      cbn [op_wf] in Hop. apply andb_true_iff in Hop. destruct Hop as [Hop Hq].
      apply andb_true_iff in Hop. destruct Hop as [Hr Hnd]. apply Nat.ltb_lt in Hr. apply nodupb_NoDup in Hnd.
      destruct (nth_error al r) as [a|] eqn:Ha; [|apply nth_error_None in Ha; lia].
      exists al, m, (OProbs (calc_probs n qs (e_w a))). split; [|split; [exact Hrel|split; [|reflexivity]]].
      + cbn [step]. now rewrite (rel_nth m al r a Hrel Ha).
      + apply INV_snoc; [exact HINV | | intros; exact I | intros; reflexivity].
        unfold item_ok. cbn [fst snd target]. rewrite Ha. cbn [explains].
        apply probs_sv_correct; [exact Hnd|]. intros q Hin. rewrite forallb_forall in Hq.
        apply Nat.ltb_lt. now apply Hq.
    - exists al, m, (OFinal (m_final m)). split; [reflexivity|]. split; [exact Hrel|]. split; [|reflexivity].
      apply INV_snoc; [exact HINV | exact I | intros r a Ht; discriminate Ht | intros r a Ht; discriminate Ht].
  Qed.

  (* ---------- whole histories *)
  Lemma run_inv h : forall m al past,
    rel m al -> INV al past -> hist_wf cfg (length al) h = true -> oracles_ok cfg m h = true ->
    exists al' xs mf, run cfg m h = (xs, mf) /\ rel mf al' /\ INV al' (past ++ combine h xs) /\ length xs = length h.
  Proof.
    induction h as [|o h IH]; intros m al past Hrel HINV Hwf Hor.
    - exists al, [], m. cbn [run combine]. rewrite app_nil_r. auto.
    - cbn [hist_wf] in Hwf. apply andb_true_iff in Hwf. destruct Hwf as [Hop Hwf].
      cbn [oracles_ok] in Hor. apply andb_true_iff in Hor. destruct Hor as [Ho Hor].
      destruct (step_inv m al past o Hrel HINV Hop Ho) as [al1 [m1 [x [Hstep [Hrel1 [HINV1 Hlen1]]]]]].
      rewrite Hstep in Hor. cbn [fst] in Hor.
      assert (Hwf1 : hist_wf cfg (length al1) h = true) by (rewrite Hlen1; destruct o; exact Hwf).
      destruct (IH m1 al1 (past ++ [(o, x)]) Hrel1 HINV1 Hwf1 Hor) as [al' [xs [mf [Hrun [Hrel' [HINV' Hl]]]]]].
      exists al', (x :: xs), mf. cbn [run]. rewrite Hstep, Hrun. split; [reflexivity|]. split; [exact Hrel'|].
      cbn [combine length]. rewrite <- app_assoc in HINV'. cbn [app] in HINV'. auto.
  Qed.

  Theorem all_histories_standalone h :
    hist_wf cfg 0 h = true -> oracles_ok cfg (init cfg) h = true -> standalone cfg h.
  Proof.
    intros Hwf Hor. unfold standalone.
    assert (Hrel0 : rel (init cfg) []) by reflexivity.
    assert (HINV0 : INV [] []).
    { split; [constructor|]. split; [constructor|]. split; intros; constructor. }
    destruct (run_inv h (init cfg) [] [] Hrel0 HINV0 Hwf Hor) as [al [xs [mf [Hrun [Hrel [[Hwfe [Hitems [Hf1 Hf2]]] Hl]]]]]].
    rewrite Hrun. cbn [app] in *. intros r R HR.
    rewrite Hrel, nth_error_map in HR. destruct (nth_error al r) as [a|] eqn:Ha; [|discriminate].
    cbn [option_map] in HR. inversion HR; subst R. clear HR. cbn [conc_ent r_w r_nshots].
    exists (e_sh a). split.
    - intros [o [Hin [Ht Hn]]].
      assert (Hwa : wfe a) by (rewrite Forall_forall in Hwfe; apply Hwfe; eapply nth_error_In; eauto).
      destruct Hwa as [_ Hact]. apply Hact.
      destruct (e_smp a) eqn:Hs; [now left | right].
      destruct (e_frq a) eqn:Hf; [reflexivity | exfalso].
      specialize (Hf2 r a Ha Hs Hf). rewrite Forall_forall in Hf2.
      apply In_nth_error in Hin. destruct Hin as [i Hi].
      assert (i < length xs) by (rewrite Hl; apply nth_error_Some; congruence).
      destruct (nth_error xs i) as [x|] eqn:Hx; [|apply nth_error_None in Hx; lia].
      specialize (Hf2 (o, x) (nth_error_combine _ _ _ _ _ Hi Hx) Ht). cbn [fst] in Hf2. congruence.
    - intros i o x Hi Hx Ht. rewrite Forall_forall in Hitems.
      specialize (Hitems (o, x) (nth_error_combine _ _ _ _ _ Hi Hx)).
      unfold item_ok in Hitems. cbn [fst snd] in Hitems. now rewrite Ht, Ha in Hitems.
  Qed.
End All.
