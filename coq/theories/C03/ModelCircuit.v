(* C03/ModelCircuit.v : executable model of the measurement bookkeeping of
   models/circuit.py Circuit.add (register names, measurements list, has_collapse, conversion of
   earlier measurements into collapsing ones when a later gate touches their qubits).  No proofs.

   k_ms    every measurement gate added so far, in queue order (its index is its identity);
           m_coll is the gate's `collapse` attribute (mutable!)
   k_meas  circuit.measurements: indices of the non-collapsing measurements, in order
   k_hc    circuit.has_collapse *)
From Coq Require Import List Bool Arith.
From QV Require Import C03.ModelSamples C03.ModelProbs.
Import ListNotations.

(* register name: inl i = the default f"register{i}", inr s = a user-supplied name (coded) *)
Definition rname := (nat + nat)%type.
Definition rname_eqb (a b : rname) : bool :=
  match a, b with inl x, inl y => x =? y | inr x, inr y => x =? y | _, _ => false end.

Record mrec := mkmrec { m_qs : list nat ; m_name : rname ; m_coll : bool }.
Record circ := mkcirc { k_ms : list mrec ; k_meas : list nat ; k_hc : bool }.
Definition circ0 : circ := mkcirc [] [] false.
Definition mrec0 : mrec := mkmrec [] (inl 0) false.

Inductive cop :=
| AddM (qs : list nat) (name : option nat) (collapse : bool)   (* circuit.add(gates.M( *qs, register_name, collapse)) *)
| AddG (qs : list nat).                                         (* circuit.add(gate) with gate.qubits = qs *)

(* set(measurement.qubits) & set(gate.qubits) *)
Definition overlap (a b : list nat) : bool := existsb (fun q => mem q b) a.

(* list.remove: the first occurrence *)
Fixpoint remove_first (i : nat) (l : list nat) : list nat :=
  match l with [] => [] | x :: l' => if x =? i then l' else x :: remove_first i l' end.

Fixpoint set_coll (i : nat) (ms : list mrec) : list mrec :=
  match ms, i with
  | [], _ => []
  | m :: ms', O => mkmrec (m_qs m) (m_name m) true :: ms'
  | m :: ms', S i' => m :: set_coll i' ms'
  end.

(* body of:  for measurement in list(self.measurements):
                 if set(measurement.qubits) & set(gate.qubits):
                     measurement.collapse = True; self.has_collapse = True
                     self.measurements.remove(measurement) *)
Definition convert_one (gq : list nat) (st : circ) (i : nat) : circ :=
  if overlap (m_qs (nth i (k_ms st) mrec0)) gq
  then mkcirc (set_coll i (k_ms st)) (remove_first i (k_meas st)) true
  else st.

(* None = Circuit.add raises KeyError (register name already exists) *)
Definition add_op (st : circ) (o : cop) : option circ :=
  match o with
  | AddG gq => Some (fold_left (convert_one gq) (k_meas st) st)   (* iterates over a COPY of the list *)
  | AddM qs name coll =>
      let idx := length (k_ms st) in                (* queue.nmeasurements - 1 after the append *)
      let clash := match name with
                   | Some s => existsb (fun i => rname_eqb (m_name (nth i (k_ms st) mrec0)) (inr s)) (k_meas st)
                   | None => false
                   end in
      if clash then None
      else Some (mkcirc (k_ms st ++ [mkmrec qs (match name with Some s => inr s | None => inl idx end) coll])
                        (if coll then k_meas st else k_meas st ++ [idx])
                        (k_hc st || coll))
  end.

Fixpoint add_ops (st : circ) (l : list cop) : option circ :=
  match l with
  | [] => Some st
  | o :: l' => match add_op st o with Some st' => add_ops st' l' | None => None end
  end.
