(* C16/ModelSched.v : adiabatic schedules that leave [0, 1] (executable definitions only).
   BaseAdiabaticHamiltonian.__call__(t)  returns  h0 * (1 - st) + h1 * st  with  st = schedule(t / total_time)
   and NO restriction on the value st: the library only requires s(0) = 0 and s(1) = 1
   (AdiabaticEvolution.schedule setter); non-monotone, overshooting (> 1), undershooting (< 0),
   piecewise-constant and parametrised schedules s(t, p) are legal.
   The correspondence evaluates the schedule HERE (exact rationals) and compares den * H(t) with
   ad_ham num den h0 h1 of C16/Model.v for the reduced fraction st = num / den. *)
From Coq Require Import ZArith List Bool QArith.
From QV Require Import Base.Mat Base.Zi C15.MatDefs C15.Model C16.Model.
Import ListNotations.
Local Open Scope Q_scope.

(* s(u) = c0 + c1 u + c2 u^2 + ...   |   piecewise constant: value of the last breakpoint b <= u (0 before the first) *)
Inductive sched := SPoly (cs : list Q) | SSteps (bps : list (Q * Q)).

Fixpoint horner (cs : list Q) (x : Q) : Q :=
  match cs with [] => 0 | c :: r => Qred (c + x * horner r x) end.
Fixpoint steps_val (bps : list (Q * Q)) (x : Q) (cur : Q) : Q :=
  match bps with
  | [] => cur
  | (b, v) :: r => if Qle_bool b x then steps_val r x v else cur
  end.
Definition sched_eval (s : sched) (x : Q) : Q :=
  Qred (match s with SPoly cs => horner cs x | SSteps bps => steps_val bps x 0 end).

(* the weight used at time t of an evolution with total time T: the code returns h0 itself at t = 0 *)
Definition ad_s (s : sched) (T t : Q) : Q := if Qeq_bool t 0 then 0 else sched_eval s (Qred (t / T)).

(* den * ((1 - st) H0 + st H1) for the rational st (any sign, any size) *)
Definition ad_ham_q (st : Q) (H0 H1 : mat Zi) : mat Zi := ad_ham (Qnum st) (Zpos (Qden st)) H0 H1.
Definition ad_ham_at (s : sched) (T t : Q) (H0 H1 : mat Zi) : mat Zi := ad_ham_q (ad_s s T t) H0 H1.
(* SymbolicAdiabaticHamiltonian.circuit(dt, t): coefficients {h0: 1 - st, h1: st} *)
Definition ad_coeffs_at (s : sched) (T t : Q) : list Q := [Qred (1 - ad_s s T t); Qred (ad_s s T t)].

(* what a "round-off guard" would compute instead (NOT the model; used by the refutation in PropsSched.v) *)
Definition clampZ (num den : Z) : Z := Z.min (Z.max num 0) den.
Definition ad_ham_clamped (num den : Z) (H0 H1 : mat Zi) : mat Zi := ad_ham (clampZ num den) den H0 H1.

(* one object, several queries: the state that matters is (schedule, total_time); every operation
   either replaces one of them or observes the Hamiltonian at a time *)
Inductive ad_op := OSetSched (s : sched) | OSetTime (T : Q) | OQuery (t : Q).
Definition ad_obj := (option sched * option Q)%type.
Definition ad_query (o : ad_obj) (t : Q) : option Q :=
  if Qeq_bool t 0 then Some 0 else
  match o with (Some s, Some T) => Some (sched_eval s (Qred (t / T))) | _ => None end.
Fixpoint ad_run (o : ad_obj) (ops : list ad_op) : list (option Q) :=
  match ops with
  | [] => []
  | OSetSched s :: r => ad_run (Some s, snd o) r
  | OSetTime T :: r => ad_run (fst o, Some T) r
  | OQuery t :: r => ad_query o t :: ad_run o r
  end.
(* the latest schedule / total time set before the end of the list *)
Fixpoint last_sched (cur : option sched) (ops : list ad_op) : option sched :=
  match ops with [] => cur | OSetSched s :: r => last_sched (Some s) r | _ :: r => last_sched cur r end.
Fixpoint last_time (cur : option Q) (ops : list ad_op) : option Q :=
  match ops with [] => cur | OSetTime T :: r => last_time (Some T) r | _ :: r => last_time cur r end.
Definition oq_eqb (a b : option Q) : bool :=
  match a, b with Some x, Some y => Qeq_bool x y | None, None => true | _, _ => false end.
