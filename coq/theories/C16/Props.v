(* C16/Props.v : the property theorems for time evolution.  Model: C16/Model.v. *)
From Coq Require Import ZArith List Bool Arith Permutation Floats Ring QArith.
From QV Require Import Base.Mat Base.Zi C15.MatDefs C15.Model C15.MatAlg C16.Model C16.Proofs C16.ProofsRK C16.ProofsRKw C16.ProofsMerge C16.ProofsRKt.
Import ListNotations.
Local Close Scope Q_scope.

(* ---- TermGroup.from_terms: every term lands in exactly one group; every group is a parent
        followed by children whose supports lie inside the parent's ---- *)
Theorem grouping_partition : forall ts,
  Permutation (concat (from_terms ts)) ts /\ Forall nested (from_terms ts).
Proof. intros ts. split; [apply from_terms_perm|apply from_terms_nested]. Qed.
Print Assumptions grouping_partition.

Example grouping_nonvacuous :
  let ts : list hterm := [([0], pmat PX); ([1; 0], kron ZK (pmat PZ) (pmat PZ)); ([1], pmat PY); ([2], pmat PZ)] in
  map (map fst) (from_terms ts) = [[[1; 0]; [0]; [1]]; [[2]]].
Proof. vm_compute. reflexivity. Qed.

(* ---- HamiltonianTerm.merge (kron with the identity, reshape, transpose with the `order` list,
        reshape back, add): the child matrix ends up embedded at the positions its targets have inside
        the parent's target list -- the reshape/transpose index theorem, for every number of targets,
        every (non-ascending) order and every matrix; non-subset children are refused ---- *)
Theorem merge_ok : forall s t,
  NoDup (fst s) -> NoDup (fst t) -> subset (fst t) (fst s) = true ->
  wfm (2 ^ tlen t) (2 ^ tlen t) (snd t) -> merge s t = Some (merge_spec s t).
Proof. exact merge_is_spec. Qed.
Print Assumptions merge_ok.

Theorem merge_refuses : forall s t, subset (fst t) (fst s) = false -> merge s t = None.
Proof. intros s t H. unfold merge. now rewrite H. Qed.
Print Assumptions merge_refuses.

Example merge_ok_nonvacuous :   (* parent on qubits (2,0), child on qubit 0 = second tensor factor *)
  let s : hterm := ([2; 0], kron ZK (pmat PX) (pmat PX)) in let t : hterm := ([0], pmat PZ) in
  NoDup (fst s) /\ NoDup (fst t) /\ subset (fst t) (fst s) = true /\
  merge s t = Some ([2; 0], madd ZK (kron ZK (pmat PX) (pmat PX)) (kron ZK (pmat PI) (pmat PZ))).
Proof.
  repeat split; try (vm_compute; reflexivity); repeat constructor; cbn; intuition discriminate.
Qed.

(* ---- SymbolicHamiltonian.circuit: groups forward, then backward (each at dt/2) ---- *)
Theorem trotter_structure : forall ts l, circuit_terms ts = Some l ->
  exists ms, opt_all (map (fun g => to_term g []) (from_terms ts)) = Some ms /\
             l = ms ++ rev ms /\ length ms = length (from_terms ts).
Proof. exact circuit_terms_structure. Qed.
Print Assumptions trotter_structure.

(* the gate list is a palindrome, hence U(dt) = S~(dt/2) S(dt/2) and U(dt) U(-dt) = I in every
   monoid in which each term evolution satisfies U_a(x) U_a(-x) = I (the structural fact behind
   second order; the O(dt^3) bound itself is not proved) *)
Theorem trotter_symmetric :
  forall (M A X : Type) (op : M -> M -> M) (e : M) (neg : X -> X) (U : A -> X -> M),
  (forall a b c, op a (op b c) = op (op a b) c) -> (forall a, op e a = a) -> (forall a, op a e = a) ->
  (forall a x, op (U a x) (U a (neg x)) = e) ->
  forall l x,
    rev (trotter_seq l) = trotter_seq l /\
    circ M A X op e U (trotter_seq l) x = op (circ M A X op e U (rev l) x) (circ M A X op e U l x) /\
    op (circ M A X op e U (trotter_seq l) x) (circ M A X op e U (trotter_seq l) (neg x)) = e.
Proof.
  intros M A X op e neg U H1 H2 H3 H4 l x. split; [apply trotter_seq_palindrome|]. split.
  - now apply trotter_split.
  - now apply (trotter_inverse M A X op e neg U).
Qed.
Print Assumptions trotter_symmetric.

Example trotter_symmetric_nonvacuous :   (* the additive group of integers: U_a(x) = a x *)
  let U := fun (a x : Z) => (a * x)%Z in
  (forall a x, (U a x + U a (- x) = 0)%Z) /\
  circ Z Z Z Z.add 0%Z U (trotter_seq [2; 3; 5]%Z) 7%Z = 140%Z.
Proof. split; [intros; cbn; ring|reflexivity]. Qed.

(* ---- adiabatic interpolation den * ((1 - s) H0 + s H1), s = num/den: the end points ---- *)
Theorem adiabatic_endpoints : forall a b d H0 H1, wfm a b H0 -> wfm a b H1 ->
  ad_ham 0 d H0 H1 = mscale ZK (d, 0%Z) H0 /\ ad_ham d d H0 H1 = mscale ZK (d, 0%Z) H1.
Proof. exact ad_ham_endpoints. Qed.
Print Assumptions adiabatic_endpoints.

(* ---- nsteps = int(round((T - t0)/dt)) in binary64 (Coq primitive floats, bit exact) ----
   What is proved: BOUNDED and exhaustive over the grid below (96 000 float triples): times written with
   k = 0..3 decimals, t0 = a 10^-k, dt = c 10^-k, T = (a + m c) 10^-k with 0 <= a < 20, 1 <= c <= 30,
   1 <= m <= 40, each the correctly rounded binary64 value of its decimal literal  =>  exactly m steps.
   Not proved: the statement for ALL float triples whose real quotient is within 1/2 of an integer
   (needs the IEEE-754 specification axioms of Coq's Floats library); beyond the grid the model is
   compared bit-exactly with StateEvolution.execute on every run (1 000 / 10 000 triples). *)
Theorem nsteps_ok_bounded : forall k a c m,
  In k [0; 1; 2; 3] -> In a (zrange 0 20) -> In c (zrange 1 30) -> In m (zrange 1 40) ->
  nsteps (dec k a) (dec k (a + m * c)) (dec k c) = Some m.
Proof. exact dec_grid_thm. Qed.
Print Assumptions nsteps_ok_bounded.

Example nsteps_nonvacuous : nsteps (dec 1 0) (dec 1 3) (dec 1 1) = Some 3%Z.   (* T = 0.3, dt = 0.1 *)
Proof. exact nsteps_example. Qed.

(* ---- StateEvolution.execute as a sequence of operations: exactly n solver steps, and the LAST operation is
        normalize_state -- with or without callbacks (so the returned Runge-Kutta state has norm 1) ---- *)
Theorem execute_normalises_last : forall cb n,
  (exists l, execute_trace cb n = l ++ [XNorm]) /\
  length (filter (fun o => xop_eqb o XStep) (execute_trace cb n)) = n.
Proof. intros cb n. split; [apply execute_ends_with_norm|apply execute_step_count]. Qed.
Print Assumptions execute_normalises_last.

Example execute_trace_nonvacuous :
  execute_trace false 2 = [XCb; XStep; XStep; XNorm] /\ execute_trace true 1 = [XCb; XStep; XNorm; XCb; XNorm].
Proof. split; reflexivity. Qed.

(* ---- exponential solver: k steps = P^k psi ---- *)
Theorem exp_solver_steps : forall n c P psi k, wfm (2 ^ n) (2 ^ n) P -> wfm (2 ^ n) c psi ->
  evolve (exp_step P) (Z.of_nat k) psi = mmul ZK (mpow ZK n P k) psi.
Proof. exact exp_steps. Qed.
Print Assumptions exp_solver_steps.

Example exp_solver_steps_nonvacuous :
  wfm (2 ^ 1) (2 ^ 1) (pmat PY) /\ wfm (2 ^ 1) 1 [[zi1]; [zii]] /\
  evolve (exp_step (pmat PY)) 3 [[zi1]; [zii]] = [[(1, 0)%Z]; [(0, 1)%Z]].
Proof. repeat split; try reflexivity; repeat constructor. Qed.

(* ---- Runge-Kutta steps for a constant Hamiltonian, in any commutative ring containing i and the
        inverses of the primes of the tableaux (the commutative algebra generated by H) ---- *)
Definition rk_ring_ok {R} (K : rk_ring R) : Prop :=
  ring_theory (r0 K) (r1 K) (radd K) (rmul K) (fun a b => radd K a (ropp K b)) (ropp K) eq /\
  rmul K (rz K 2) (u2 K) = r1 K /\ rmul K (rz K 3) (u3 K) = r1 K /\ rmul K (rz K 5) (u5 K) = r1 K /\
  rmul K (rz K 11) (u11 K) = r1 K /\ rmul K (rz K 13) (u13 K) = r1 K /\ rmul K (rz K 19) (u19 K) = r1 K.

Section Poly.
  Context {R} (K : rk_ring R).
  Notation "a + b" := (radd K a b). Notation "a * b" := (rmul K a b).
  Notation "a - b" := (radd K a (ropp K b)).
  Definition taylor5p (H dt psi : R) : R :=
    taylor5 K H dt psi + rpow K (ropp K (ri K) * dt * H) 6 * rinv K 5 0 1 0 1 0 * psi.
End Poly.

(* one RK4 step for a constant Hamiltonian = sum_{j<=4} (-i dt H)^j / j!  psi *)
Theorem rk4_taylor_ok : forall R (K : rk_ring R), rk_ring_ok K ->
  forall H dt psi, rk4_step K H dt psi = taylor4 K H dt psi.
Proof.
  intros R [o0 o1 oa om oo oi w2 w3 w5 w11 w13 w19] (Rth & i2 & i3 & _) H dt psi.
  exact (rk4_fixed_taylor R o0 o1 oa om oo oi w2 w3 w5 w11 w13 w19 Rth i2 i3 H dt psi).
Qed.
Print Assumptions rk4_taylor_ok.

(* one RK45 step (Fehlberg, 5th-order weights) = sum_{j<=5} (-i dt H)^j / j! psi + (1/2080) (-i dt H)^6 psi *)
Theorem rk45_taylor_ok : forall R (K : rk_ring R), rk_ring_ok K ->
  forall H dt psi, rk45_step K H dt psi = taylor5p K H dt psi.
Proof.
  intros R [o0 o1 oa om oo oi w2 w3 w5 w11 w13 w19] (Rth & i2 & i3 & i5 & i11 & i13 & i19) H dt psi.
  exact (rk45_fixed_taylor R o0 o1 oa om oo oi w2 w3 w5 w11 w13 w19 Rth i2 i3 i5 i11 i13 i19 H dt psi).
Qed.
Print Assumptions rk45_taylor_ok.

(* ---- time-dependent Hamiltonians: the stage Hamiltonians are separate arguments of the model
        (ham1 = H(t) in k1, ham2 = H(t + dt/2) in k2 and k3, ham3 = H(t + dt) in k4; RK45: one per stage at
        t, t+dt/4, t+3dt/8, t+12dt/13, t+dt, t+dt/2); with equal arguments they are the constant-H steps ---- *)
Theorem rk_steps_constant_case : forall R (K : rk_ring R) H dt psi,
  rk4_step_t K H H H dt psi = rk4_step K H dt psi /\ rk45_step_t K H H H H H H dt psi = rk45_step K H dt psi.
Proof. intros. split; reflexivity. Qed.
Print Assumptions rk_steps_constant_case.

(* commuting time dependence H(t + s) = f(s) H0 with f(s) = c0 + c1 s + c2 s^2 + c3 s^3: one RK4 step equals
   the order-4 Taylor polynomial of exp(-i H0 int_0^dt f) psi up to dt^5 times an explicit polynomial, i.e. the
   method keeps its order 4 for time-dependent Hamiltonians of this class.  (The analogous RK45 statement is
   not proved: its certificate is too large for `ring`; RK45 is covered by the exact correspondence.) *)
Theorem rk4_timedep_order : forall R (K : rk_ring R), rk_ring_ok K -> forall H0 c0 c1 c2 c3 dt psi,
  let f := fun s => radd K (radd K (radd K c0 (rmul K c1 s)) (rmul K c2 (rmul K s s))) (rmul K c3 (rmul K (rmul K s s) s)) in
  let F := radd K (radd K (radd K (rmul K c0 dt) (rmul K (rmul K c1 (rmul K dt dt)) (u2 K)))
                          (rmul K (rmul K c2 (rmul K (rmul K dt dt) dt)) (u3 K)))
                  (rmul K (rmul K c3 (rmul K (rmul K (rmul K dt dt) dt) dt)) (rmul K (u2 K) (u2 K))) in
  exists rem, rk4_step_t K (rmul K (f (r0 K)) H0) (rmul K (f (rmul K dt (u2 K))) H0) (rmul K (f dt) H0) dt psi
              = radd K (taylor4x K (rmul K H0 F) psi) (rmul K (rmul K (rmul K (rmul K (rmul K dt dt) dt) dt) dt) rem).
Proof.
  intros R [o0 o1 oa om oo oi w2 w3 w5 w11 w13 w19] (Rth & i2 & i3 & _) H0 c0 c1 c2 c3 dt psi f F.
  exists (rk4_td_rem R o0 o1 oa om oo oi w2 w3 w5 w11 w13 w19 c0 c1 c2 c3 H0 dt psi).
  exact (rk4_timedep R o0 o1 oa om oo oi w2 w3 w5 w11 w13 w19 Rth i2 i3 H0 c0 c1 c2 c3 dt psi).
Qed.
Print Assumptions rk4_timedep_order.

(* RK45 with a time-dependent Hamiltonian: the full analogue of rk4_timedep_order is not proved (certificate too
   large).  Proved part: the contribution that is LINEAR in the Hamiltonian, psi - i dt sum_i b_i H(t + c_i dt) psi,
   integrates every polynomial time dependence of degree <= 4 exactly (quadrature order 5): with the weights b
   (last row of Model.rk45_tableau) and the stage times c = 0 :: Model.rk45_nodes (the times the real solver
   queries, checked by the spy correspondence)  sum_i b_i c_i^k = 1/(k+1) for k = 0..4; and it fails for k = 5. *)
Definition q_of (nd : Z * Z) : Q := Qmake (fst nd) (Z.to_pos (snd nd)).
Definition rk45_moment (k : nat) : Q :=
  fold_right Qplus 0%Q (map (fun bc : (Z * Z) * (Z * Z) => (q_of (fst bc) * Qpower (q_of (snd bc)) (Z.of_nat k))%Q)
                            (combine (nth 5 rk45_tableau []) ((0, 1)%Z :: rk45_nodes))).
Theorem rk45_quadrature_order :
  (forall k, (k < 5)%nat -> Qeq (rk45_moment k) (1 # Pos.of_nat (S k))) /\ ~ Qeq (rk45_moment 5) (1 # 6).
Proof.
  split.
  - intros k Hk. do 5 (destruct k as [|k]; [vm_compute; reflexivity|]). exfalso. apply (Nat.nlt_0_r k). do 5 apply Nat.succ_lt_mono in Hk. exact Hk.
  - vm_compute. discriminate.
Qed.
Print Assumptions rk45_quadrature_order.

(* ---- repeated executions of one AdiabaticEvolution object: the schedule arguments t / total_time of
        every run are those of a fresh object with that run's final time ---- *)
Theorem adiabatic_history_ok : forall runs st,
  ad_history st runs = map (fun r : Q * list Q => snd (ad_execute None (fst r) (snd r))) runs.
Proof. exact ad_history_fresh. Qed.
Print Assumptions adiabatic_history_ok.

Example adiabatic_history_nonvacuous :
  ad_history None [(1%Q, exp_eval_times 0 1 (1 # 4)); (2%Q, exp_eval_times 0 2 (1 # 2))]
  = [[(1 # 4)%Q; (1 # 2)%Q; (3 # 4)%Q; 1%Q]; [(1 # 4)%Q; (1 # 2)%Q; (3 # 4)%Q; 1%Q]].
Proof. vm_compute. reflexivity. Qed.

Example rk_ring_ok_nonvacuous : rk_ring_ok KQ.
Proof. exact (conj gc_ring (conj KQ_inv2 (conj KQ_inv3 (conj KQ_inv5 (conj KQ_inv11 (conj KQ_inv13 KQ_inv19)))))). Qed.
