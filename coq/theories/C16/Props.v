(* C16/Props.v : the property theorems for time evolution.  Model: C16/Model.v. *)
From Coq Require Import ZArith List Bool Arith Permutation Floats Ring.
From QV Require Import Base.Mat Base.Zi C15.MatDefs C15.Model C15.MatAlg C16.Model C16.Proofs C16.ProofsRK C16.ProofsRKw.
Import ListNotations.

(* ---- TermGroup.from_terms: every term lands in exactly one group; every group is a parent
        followed by children whose supports lie inside the parent's ---- *)
Theorem grouping_partition : forall ts,
  Permutation (concat (from_terms ts)) ts /\ Forall nested (from_terms ts).
Proof. intros ts. split; [apply from_terms_perm|apply from_terms_nested]. Qed.
Print Assumptions grouping_partition.

Example grouping_nonvacuous :
  let ts : list hterm := [([0], pmat PX); ([1; 0], kron ZK (pmat PZ) (pmat PZ)); ([1], pmat PY); ([2], pmat PZ)] in
  map (map fst) (from_terms ts) = [[[1; 0]; [0]; [1]]; [[2]]].
Proof. vm_compute. reflexivity. Qed.

(* ---- HamiltonianTerm.merge: proved part = target bookkeeping and refusal; the matrix identity
        merge s t = merge_spec s t (child matrix embedded at its positions inside the parent, i.e.
        the reshape/transpose index theorem) is NOT proved; it is checked per case by the
        correspondence run (merged matrix embedded on n qubits = sum of embedded members). ---- *)
Theorem merge_ok_partial : forall s t,
  (subset (fst t) (fst s) = true -> exists m, merge s t = Some m /\ fst m = fst s) /\
  (subset (fst t) (fst s) = false -> merge s t = None).
Proof.
  intros s t. unfold merge. split; intros H; rewrite H; [eexists; split; reflexivity|reflexivity].
Qed.
Print Assumptions merge_ok_partial.

(* ---- SymbolicHamiltonian.circuit: groups forward, then backward (each at dt/2) ---- *)
Theorem trotter_structure : forall ts l, circuit_terms ts = Some l ->
  exists ms, opt_all (map (fun g => to_term g []) (from_terms ts)) = Some ms /\
             l = ms ++ rev ms /\ length ms = length (from_terms ts).
Proof. exact circuit_terms_structure. Qed.
Print Assumptions trotter_structure.

(* the gate list is a palindrome, hence U(dt) = S~(dt/2) S(dt/2) and U(dt) U(-dt) = I in every
   monoid in which each term evolution satisfies U_a(x) U_a(-x) = I (the structural fact behind
   second order; the O(dt^3) bound itself is not proved) *)
Theorem trotter_symmetric :
  forall (M A X : Type) (op : M -> M -> M) (e : M) (neg : X -> X) (U : A -> X -> M),
  (forall a b c, op a (op b c) = op (op a b) c) -> (forall a, op e a = a) -> (forall a, op a e = a) ->
  (forall a x, op (U a x) (U a (neg x)) = e) ->
  forall l x,
    rev (trotter_seq l) = trotter_seq l /\
    circ M A X op e U (trotter_seq l) x = op (circ M A X op e U (rev l) x) (circ M A X op e U l x) /\
    op (circ M A X op e U (trotter_seq l) x) (circ M A X op e U (trotter_seq l) (neg x)) = e.
Proof.
  intros M A X op e neg U H1 H2 H3 H4 l x. split; [apply trotter_seq_palindrome|]. split.
  - now apply trotter_split.
  - now apply (trotter_inverse M A X op e neg U).
Qed.
Print Assumptions trotter_symmetric.

Example trotter_symmetric_nonvacuous :   (* the additive group of integers: U_a(x) = a x *)
  let U := fun (a x : Z) => (a * x)%Z in
  (forall a x, (U a x + U a (- x) = 0)%Z) /\
  circ Z Z Z Z.add 0%Z U (trotter_seq [2; 3; 5]%Z) 7%Z = 140%Z.
Proof. split; [intros; cbn; ring|reflexivity]. Qed.

(* ---- nsteps = int((T - t0)/dt) in binary64 ----
   full statement: forall decimals a,b,c (k digits) with b - a = m c:  nsteps = Some m.  FALSE: *)
Theorem nsteps_refuted : exists (k : nat) (a b c m : Z),
  (0 < c)%Z /\ (b - a = m * c)%Z /\ nsteps (dec k a) (dec k b) (dec k c) <> Some m.
Proof.
  exists 1, 0%Z, 3%Z, 1%Z, 3%Z. split; [reflexivity|]. split; [reflexivity|].
  destruct nsteps_witness as (H & _). unfold w_nsteps in H. rewrite H. discriminate.
Qed.
Print Assumptions nsteps_refuted.

(* proved part (bounded, exhaustive): integer times 0 <= a <= b <= 40, 1 <= c <= 40 *)
Theorem nsteps_ok_partial_int_grid : forall a b c,
  In a (zrange 0 41) -> In b (zrange 0 41) -> In c (zrange 1 40) -> (a <= b)%Z ->
  nsteps (fz a) (fz b) (fz c) = Some ((b - a) / c)%Z.
Proof. exact int_grid_thm. Qed.
Print Assumptions nsteps_ok_partial_int_grid.

(* the proposed repair (round to nearest) on decimal grids (bounded, exhaustive):
   k in {1,2} digits, 0 <= a < 20, 1 <= c <= 30, 1 <= m <= 40 *)
Theorem nsteps_fixed_dec_grid : forall k a c m,
  In k [1; 2] -> In a (zrange 0 20) -> In c (zrange 1 30) -> In m (zrange 1 40) ->
  nsteps_fixed (dec k a) (dec k (a + m * c)) (dec k c) = Some m.
Proof. exact dec_grid_fixed_thm. Qed.
Print Assumptions nsteps_fixed_dec_grid.

(* ---- exponential solver: k steps = P^k psi ---- *)
Theorem exp_solver_steps : forall n c P psi k, wfm (2 ^ n) (2 ^ n) P -> wfm (2 ^ n) c psi ->
  evolve (exp_step P) (Z.of_nat k) psi = mmul ZK (mpow ZK n P k) psi.
Proof. exact exp_steps. Qed.
Print Assumptions exp_solver_steps.

Example exp_solver_steps_nonvacuous :
  wfm (2 ^ 1) (2 ^ 1) (pmat PY) /\ wfm (2 ^ 1) 1 [[zi1]; [zii]] /\
  evolve (exp_step (pmat PY)) 3 [[zi1]; [zii]] = [[(1, 0)%Z]; [(0, 1)%Z]].
Proof. repeat split; try reflexivity; repeat constructor. Qed.

(* ---- Runge-Kutta steps for a constant Hamiltonian, in any commutative ring containing i and the
        inverses of the primes of the tableaux (the commutative algebra generated by H) ---- *)
Definition rk_ring_ok {R} (K : rk_ring R) : Prop :=
  ring_theory (r0 K) (r1 K) (radd K) (rmul K) (fun a b => radd K a (ropp K b)) (ropp K) eq /\
  rmul K (rz K 2) (u2 K) = r1 K /\ rmul K (rz K 3) (u3 K) = r1 K /\ rmul K (rz K 5) (u5 K) = r1 K /\
  rmul K (rz K 11) (u11 K) = r1 K /\ rmul K (rz K 13) (u13 K) = r1 K /\ rmul K (rz K 19) (u19 K) = r1 K.

Section Poly.
  Context {R} (K : rk_ring R).
  Notation "a + b" := (radd K a b). Notation "a * b" := (rmul K a b).
  Notation "a - b" := (radd K a (ropp K b)).
  (* psi - i (dt H + dt^2 H^2/2 + dt^3 H^3/6 + dt^4 H^4/24) psi *)
  Definition rk4_poly (H dt psi : R) : R :=
    psi - ri K * (dt * H + dt * dt * H * H * u2 K + dt * dt * dt * H * H * H * (u2 K * u3 K)
                  + dt * dt * dt * dt * H * H * H * H * (u2 K * u2 K * u2 K * u3 K)) * psi.
  (* ... + dt^5 H^5/120 + dt^6 H^6/2080 *)
  Definition rk45_poly (H dt psi : R) : R :=
    psi - ri K * (dt * H + dt * dt * H * H * u2 K + dt * dt * dt * H * H * H * (u2 K * u3 K)
                  + dt * dt * dt * dt * H * H * H * H * (u2 K * u2 K * u2 K * u3 K)
                  + dt * dt * dt * dt * dt * H * H * H * H * H * (u2 K * u2 K * u2 K * u3 K * u5 K)
                  + dt * dt * dt * dt * dt * dt * H * H * H * H * H * H * rinv K 5 0 1 0 1 0) * psi.
  Definition taylor5p (H dt psi : R) : R :=
    taylor5 K H dt psi + rpow K (ropp K (ri K) * dt * H) 6 * rinv K 5 0 1 0 1 0 * psi.
End Poly.

(* what RungeKutta4.__call__ computes: NOT the Taylor polynomial of exp(-i dt H) *)
Theorem rk4_step_polynomial : forall R (K : rk_ring R), rk_ring_ok K ->
  forall H dt psi, rk4_step K H dt psi = rk4_poly K H dt psi.
Proof.
  intros R [o0 o1 oa om oo oi w2 w3 w5 w11 w13 w19] (Rth & i2 & i3 & _) H dt psi.
  exact (rk4_step_formula R o0 o1 oa om oo oi w2 w3 w5 w11 w13 w19 Rth i2 i3 H dt psi).
Qed.
Print Assumptions rk4_step_polynomial.

(* full statement  rk4_taylor : forall K ok H dt psi, rk4_step K H dt psi = taylor4 K H dt psi  is FALSE *)
Theorem rk4_taylor_refuted : exists R (K : rk_ring R), rk_ring_ok K /\
  rmul K (ri K) (ri K) = ropp K (r1 K) /\
  exists H dt psi, rk4_step K H dt psi <> taylor4 K H dt psi.
Proof.
  exists GC, KQ. split; [|split; [exact KQ_ii|]].
  - exact (conj gc_ring (conj KQ_inv2 (conj KQ_inv3 (conj KQ_inv5 (conj KQ_inv11 (conj KQ_inv13 KQ_inv19)))))).
  - exists (r1 KQ), (r1 KQ), (r1 KQ). apply rk4_witness.
Qed.
Print Assumptions rk4_taylor_refuted.

(* the repaired step (stages evaluate -i H s) is the Taylor polynomial up to order 4 *)
Theorem rk4_fixed_taylor_ok : forall R (K : rk_ring R), rk_ring_ok K ->
  forall H dt psi, rk4_step_fixed K H dt psi = taylor4 K H dt psi.
Proof.
  intros R [o0 o1 oa om oo oi w2 w3 w5 w11 w13 w19] (Rth & i2 & i3 & _) H dt psi.
  exact (rk4_fixed_taylor R o0 o1 oa om oo oi w2 w3 w5 w11 w13 w19 Rth i2 i3 H dt psi).
Qed.
Print Assumptions rk4_fixed_taylor_ok.

Theorem rk45_step_polynomial : forall R (K : rk_ring R), rk_ring_ok K ->
  forall H dt psi, rk45_step K H dt psi = rk45_poly K H dt psi.
Proof.
  intros R [o0 o1 oa om oo oi w2 w3 w5 w11 w13 w19] (Rth & i2 & i3 & i5 & i11 & i13 & i19) H dt psi.
  exact (rk45_step_formula R o0 o1 oa om oo oi w2 w3 w5 w11 w13 w19 Rth i2 i3 i5 i11 i13 i19 H dt psi).
Qed.
Print Assumptions rk45_step_polynomial.

Theorem rk45_taylor_refuted : exists R (K : rk_ring R), rk_ring_ok K /\
  exists H dt psi, rk45_step K H dt psi <> taylor5 K H dt psi.
Proof.
  exists GC, KQ. split.
  - exact (conj gc_ring (conj KQ_inv2 (conj KQ_inv3 (conj KQ_inv5 (conj KQ_inv11 (conj KQ_inv13 KQ_inv19)))))).
  - exists (r1 KQ), (r1 KQ), (r1 KQ). apply rk45_witness.
Qed.
Print Assumptions rk45_taylor_refuted.

(* the repaired RK45 step: Taylor polynomial up to order 5, plus (1/2080) (-i dt H)^6 *)
Theorem rk45_fixed_taylor_ok : forall R (K : rk_ring R), rk_ring_ok K ->
  forall H dt psi, rk45_step_fixed K H dt psi = taylor5p K H dt psi.
Proof.
  intros R [o0 o1 oa om oo oi w2 w3 w5 w11 w13 w19] (Rth & i2 & i3 & i5 & i11 & i13 & i19) H dt psi.
  exact (rk45_fixed_taylor R o0 o1 oa om oo oi w2 w3 w5 w11 w13 w19 Rth i2 i3 i5 i11 i13 i19 H dt psi).
Qed.
Print Assumptions rk45_fixed_taylor_ok.

Example rk_ring_ok_nonvacuous : rk_ring_ok KQ.
Proof. exact (conj gc_ring (conj KQ_inv2 (conj KQ_inv3 (conj KQ_inv5 (conj KQ_inv11 (conj KQ_inv13 KQ_inv19)))))). Qed.
