(* C16/ProofsRKw.v : the Gaussian rationals Q(i) (pairs of canonical rationals) as a commutative
   ring with the inverses required by C16/ProofsRK.v; the witness for rk4_taylor_refuted *)
From Coq Require Import ZArith QArith Qcanon Ring.
From QV Require Import C16.Model C16.ProofsRK.

Definition GC := (Qc * Qc)%type.
Definition gc (a b : Q) : GC := (Q2Qc a, Q2Qc b).
Definition gc_add (x y : GC) : GC := (fst x + fst y, snd x + snd y)%Qc.
Definition gc_mul (x y : GC) : GC := (fst x * fst y - snd x * snd y, fst x * snd y + snd x * fst y)%Qc.
Definition gc_opp (x : GC) : GC := (- fst x, - snd x)%Qc.

Lemma gc_ring : ring_theory (gc 0 0) (gc 1 0) gc_add gc_mul (fun a b => gc_add a (gc_opp b)) gc_opp eq.
Proof.
  constructor; intros; repeat match goal with x : GC |- _ => destruct x end;
    unfold gc_add, gc_mul, gc_opp, gc; cbn [fst snd]; try reflexivity; f_equal; ring.
Qed.

Definition KQ : rk_ring GC :=
  K GC (gc 0 0) (gc 1 0) gc_add gc_mul gc_opp (gc 0 1)
    (gc (1 # 2) 0) (gc (1 # 3) 0) (gc (1 # 5) 0) (gc (1 # 11) 0) (gc (1 # 13) 0) (gc (1 # 19) 0).

Lemma gc_eq (x y : GC) : (this (fst x) == this (fst y))%Q -> (this (snd x) == this (snd y))%Q -> x = y.
Proof. destruct x, y. cbn. intros H1 H2. f_equal; now apply Qc_is_canon. Qed.

Lemma KQ_inv2 : rmul KQ (rz KQ 2) (u2 KQ) = r1 KQ. Proof. apply gc_eq; vm_compute; reflexivity. Qed.
Lemma KQ_inv3 : rmul KQ (rz KQ 3) (u3 KQ) = r1 KQ. Proof. apply gc_eq; vm_compute; reflexivity. Qed.
Lemma KQ_inv5 : rmul KQ (rz KQ 5) (u5 KQ) = r1 KQ. Proof. apply gc_eq; vm_compute; reflexivity. Qed.
Lemma KQ_inv11 : rmul KQ (rz KQ 11) (u11 KQ) = r1 KQ. Proof. apply gc_eq; vm_compute; reflexivity. Qed.
Lemma KQ_inv13 : rmul KQ (rz KQ 13) (u13 KQ) = r1 KQ. Proof. apply gc_eq; vm_compute; reflexivity. Qed.
Lemma KQ_inv19 : rmul KQ (rz KQ 19) (u19 KQ) = r1 KQ. Proof. apply gc_eq; vm_compute; reflexivity. Qed.
Lemma KQ_ii : rmul KQ (ri KQ) (ri KQ) = ropp KQ (r1 KQ). Proof. apply gc_eq; vm_compute; reflexivity. Qed.

(* H = dt = psi = 1: the code's step is 1 - (41/24) i, the Taylor polynomial is 13/24 - (5/6) i *)
Lemma rk4_witness :
  rk4_step_prefix KQ (r1 KQ) (r1 KQ) (r1 KQ) <> taylor4 KQ (r1 KQ) (r1 KQ) (r1 KQ) /\
  rk4_step KQ (r1 KQ) (r1 KQ) (r1 KQ) = taylor4 KQ (r1 KQ) (r1 KQ) (r1 KQ).
Proof.
  split.
  - intro E. apply (f_equal fst) in E. apply (f_equal this) in E. vm_compute in E. discriminate E.
  - apply gc_eq; vm_compute; reflexivity.
Qed.
Lemma rk45_witness :
  rk45_step_prefix KQ (r1 KQ) (r1 KQ) (r1 KQ) <> taylor5 KQ (r1 KQ) (r1 KQ) (r1 KQ).
Proof. intro E. apply (f_equal fst) in E. apply (f_equal this) in E. vm_compute in E. discriminate E. Qed.
