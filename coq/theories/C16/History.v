(* C16/History.v : HISTORICAL lemmas about the implementation as it was BEFORE the repairs of
   StateEvolution.execute (nsteps = int((T - t0)/dt), truncation) and of RungeKutta4 / RungeKutta45
   (stages evaluated with H s instead of -i H s).  The *_prefix functions of Model.v model that old
   code; nothing here is a statement about the current tree.  The harness uses them only to
   classify a regression (a reverted repair) precisely. *)
From Coq Require Import ZArith List Bool Floats.
From QV Require Import C16.Model C16.Proofs C16.ProofsRK C16.ProofsRKw.
Import ListNotations.

Lemma prefix_nsteps_witness :
  nsteps_prefix (dec 1 0) (dec 1 3) (dec 1 1) = Some 2%Z /\
  PrimFloat.eqb (dec 1 3) 0x1.3333333333333p-2%float = true /\
  PrimFloat.eqb (dec 1 1) 0x1.999999999999ap-4%float = true.
Proof. repeat split; vm_compute; reflexivity. Qed.

(* how often the truncation was wrong on the grid of Proofs.dec_grid_ok *)
Definition prefix_trunc_failures : nat :=
  length (filter (fun x => negb x)
    (flat_map (fun k => flat_map (fun a => flat_map (fun c => map (fun m =>
       ozeqb (nsteps_prefix (dec k a) (dec k (a + m * c)) (dec k c)) (Some m))
    (zrange 1 40)) (zrange 1 30)) (zrange 0 20)) [1; 2])).

(* the old RK4 step was  psi - i (dt H + dt^2 H^2/2 + dt^3 H^3/6 + dt^4 H^4/24) psi  (rk4_step_formula in
   ProofsRK.v), which is not the Taylor polynomial of exp(-i dt H): *)
Lemma prefix_rk4_witness : rk4_step_prefix KQ (r1 KQ) (r1 KQ) (r1 KQ) <> taylor4 KQ (r1 KQ) (r1 KQ) (r1 KQ).
Proof. apply rk4_witness. Qed.
Lemma prefix_rk45_witness : rk45_step_prefix KQ (r1 KQ) (r1 KQ) (r1 KQ) <> taylor5 KQ (r1 KQ) (r1 KQ) (r1 KQ).
Proof. apply rk45_witness. Qed.
