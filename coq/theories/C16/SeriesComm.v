(* C16/SeriesComm.v : for pairwise COMMUTING generators the product of exponentials equals the exponential
   of the sum in EVERY coefficient of dt (all orders), over an arbitrary ring (Ncring class).
   Full formal series in exponential-generating form: f : nat -> R stands for sum_n f n dt^n / n!,
   exp(x dt) = (n |-> x^n), product = binomial convolution.  The core is the binomial theorem, proved
   through the Leibniz rule  (f g)' = f' g + f g'  (Pascal's rule). *)
From Coq Require Import Ncring Ncring_tac List Setoid Morphisms Arith Lia.
Import ListNotations.

Section Comm.
  Context {R : Type} `{Rr : Ring R}.

  Fixpoint npow (x : R) (n : nat) : R := match n with O => 1 | S m => x * npow x m end.
  Fixpoint nsc (n : nat) (x : R) : R := match n with O => 0 | S m => x + nsc m x end.
  Fixpoint bsum (F : nat -> R) (n : nat) : R := match n with O => F O | S m => bsum F m + F (S m) end.
  Fixpoint binom (n k : nat) : nat :=
    match n, k with
    | _, O => 1%nat
    | O, S _ => 0%nat
    | S n', S k' => (binom n' k' + binom n' (S k'))%nat
    end.
  Definition conv (f g : nat -> R) (n : nat) : R := bsum (fun k => nsc (binom n k) (f k * g (n - k)%nat)) n.
  Definition shift (f : nat -> R) (k : nat) : R := f (S k).

  Lemma binom_gt n : forall k, (n < k)%nat -> binom n k = 0%nat.
  Proof. induction n as [|n IH]; intros [|k] H; try lia; cbn; [reflexivity|]. rewrite !IH by lia. reflexivity. Qed.
  Lemma binom_n0 n : binom n 0 = 1%nat. Proof. destruct n; reflexivity. Qed.

  Global Instance nsc_proper n : Proper (_==_ ==> _==_) (nsc n).
  Proof. intros x y H. induction n; cbn; [reflexivity|]. now apply ring_plus_comp. Qed.
  Lemma nsc_add p q x : nsc (p + q) x == nsc p x + nsc q x.
  Proof. induction p; cbn; [non_commutative_ring|]. rewrite IHp. non_commutative_ring. Qed.
  Lemma nsc_mul_l p a x : nsc p (a * x) == a * nsc p x.
  Proof. induction p; cbn; [non_commutative_ring|]. rewrite IHp. non_commutative_ring. Qed.
  Lemma nsc_0 x : nsc 0 x == 0. Proof. reflexivity. Qed.

  Lemma bsum_ext F G n : (forall k, (k <= n)%nat -> F k == G k) -> bsum F n == bsum G n.
  Proof.
    induction n as [|n IH]; intros H; cbn; [apply H; lia|].
    rewrite IH by (intros; apply H; lia). now rewrite (H (S n)) by lia.
  Qed.
  Lemma bsum_add F G n : bsum (fun k => F k + G k) n == bsum F n + bsum G n.
  Proof. induction n as [|n IH]; cbn; [reflexivity|]. rewrite IH. non_commutative_ring. Qed.
  Lemma bsum_mul_l a F n : bsum (fun k => a * F k) n == a * bsum F n.
  Proof. induction n as [|n IH]; cbn; [reflexivity|]. rewrite IH. non_commutative_ring. Qed.
  Lemma bsum_head F n : bsum F (S n) == F O + bsum (fun k => F (S k)) n.
  Proof.
    induction n as [|n IH]; [reflexivity|].
    change (bsum F (S (S n))) with (bsum F (S n) + F (S (S n))). rewrite IH. cbn [bsum]. non_commutative_ring.
  Qed.

  (* Leibniz / Pascal *)
  Lemma conv_succ f g n : conv f g (S n) == conv (shift f) g n + conv f (shift g) n.
  Proof.
    unfold conv. rewrite bsum_head. cbn [binom Nat.sub].
    (* split the Pascal sum *)
    rewrite (bsum_ext (fun k => nsc (binom n k + binom n (S k)) (f (S k) * g (n - k)%nat))
                      (fun k => nsc (binom n k) (f (S k) * g (n - k)%nat) + nsc (binom n (S k)) (f (S k) * g (n - k)%nat)))
      by (intros k Hk; apply nsc_add).
    rewrite bsum_add. unfold shift at 1.
    (* the second part, re-indexed, plus the k = 0 term, is conv f (shift g) n *)
    assert (E : nsc 1 (f O * g (S n)) + bsum (fun k => nsc (binom n (S k)) (f (S k) * g (n - k)%nat)) n
                == bsum (fun k => nsc (binom n k) (f k * shift g (n - k)%nat)) n).
    { set (G' := fun k => nsc (binom n k) (f k * g (S n - k)%nat)).
      transitivity (G' O + bsum (fun k => G' (S k)) n).
      - unfold G'. rewrite binom_n0. reflexivity.
      - rewrite <- (bsum_head G' n). cbn [bsum]. unfold G' at 2. rewrite (binom_gt n (S n)) by lia. rewrite nsc_0.
        rewrite (bsum_ext G' (fun k => nsc (binom n k) (f k * shift g (n - k)%nat)) n).
        + non_commutative_ring.
        + intros k Hk. unfold G', shift. replace (S n - k)%nat with (S (n - k)) by lia. reflexivity. }
    rewrite <- E. cbn [nsc]. non_commutative_ring.
  Qed.

  Lemma conv_ext_r f g g' n : (forall k, (k <= n)%nat -> g k == g' k) -> conv f g n == conv f g' n.
  Proof. intros H. unfold conv. apply bsum_ext. intros k Hk. now rewrite (H (n - k)%nat) by lia. Qed.
  Lemma conv_mul_l a f g n : conv (fun k => a * f k) g n == a * conv f g n.
  Proof.
    unfold conv. rewrite <- bsum_mul_l. apply bsum_ext. intros k _. rewrite <- nsc_mul_l. apply nsc_proper. non_commutative_ring.
  Qed.
  Lemma conv_mul_r b f g n : (forall k, f k * b == b * f k) -> conv f (fun k => b * g k) n == b * conv f g n.
  Proof.
    intros H. unfold conv. rewrite <- bsum_mul_l. apply bsum_ext. intros k _. rewrite <- nsc_mul_l. apply nsc_proper.
    rewrite ring_mul_assoc, H. non_commutative_ring.
  Qed.

  Lemma npow_comm a b k : a * b == b * a -> npow a k * b == b * npow a k.
  Proof.
    intros H. induction k as [|k IH]; cbn; [non_commutative_ring|].
    rewrite <- ring_mul_assoc, IH, ring_mul_assoc, H. non_commutative_ring.
  Qed.

  (* binomial theorem: exp(a dt) exp(b dt) = exp((a + b) dt), all coefficients, for commuting a, b *)
  Theorem exp_add a b : a * b == b * a -> forall n, conv (npow a) (npow b) n == npow (a + b) n.
  Proof.
    intros H n. induction n as [|n IH].
    - unfold conv. cbn. non_commutative_ring.
    - rewrite conv_succ.
      change (conv (shift (npow a)) (npow b) n) with (conv (fun k => a * npow a k) (npow b) n).
      change (conv (npow a) (shift (npow b)) n) with (conv (npow a) (fun k => b * npow b k) n).
      rewrite conv_mul_l, conv_mul_r by (intros k; now apply npow_comm).
      rewrite IH. cbn [npow]. non_commutative_ring.
  Qed.

  (* any number of pairwise commuting generators *)
  Definition cprod (l : list R) : nat -> R := fold_right (fun x acc => conv (npow x) acc) (npow 0) l.
  Definition lsum (l : list R) : R := fold_right (fun x acc => x + acc) 0 l.
  Definition commutes_all (x : R) (l : list R) : Prop := Forall (fun y => x * y == y * x) l.

  Lemma comm_lsum x l : commutes_all x l -> x * lsum l == lsum l * x.
  Proof.
    induction 1 as [|y l Hy Hl IH]; cbn; [non_commutative_ring|].
    rewrite ring_distr_r, ring_distr_l, Hy, IH. reflexivity.
  Qed.

  Theorem commuting_exact l : ForallOrdPairs (fun x y => x * y == y * x) l ->
    forall n, cprod l n == npow (lsum l) n.
  Proof.
    induction 1 as [|x l Hx Hl IH]; intros n; cbn [cprod lsum fold_right]; [reflexivity|].
    fold (cprod l) (lsum l). rewrite (conv_ext_r _ _ (npow (lsum l)) n) by (intros; apply IH).
    apply exp_add. now apply comm_lsum.
  Qed.
End Comm.

Section Corollary.
  Context {R : Type} `{Rr : Ring R}.
  Lemma pairwise_ord (l : list R) : (forall x y, In x l -> In y l -> x * y == y * x) ->
    ForallOrdPairs (fun x y => x * y == y * x) l.
  Proof.
    induction l as [|x l IH]; intros H; constructor.
    - apply Forall_forall. intros y Hy. apply H; [now left|now right].
    - apply IH. intros a b Ha Hb. apply H; now right.
  Qed.
  (* the Trotter gate list (groups forward, then backward) for pairwise commuting generators:
     exact in every order of dt *)
  Theorem trotter_commuting_all_orders (l : list R) :
    (forall x y, In x l -> In y l -> x * y == y * x) ->
    forall n, cprod (l ++ rev l) n == npow (lsum (l ++ rev l)) n.
  Proof.
    intros H. apply commuting_exact, pairwise_ord. intros x y Hx Hy.
    apply H; [apply in_app_or in Hx as [Hx|Hx]|apply in_app_or in Hy as [Hy|Hy]]; try assumption; now apply in_rev.
  Qed.
End Corollary.
