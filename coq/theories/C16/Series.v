(* C16/Series.v : order statements as identities between formal power series in dt, truncated after
   dt^2, over an ARBITRARY (non-commutative) ring (Coq's Ncring class: any type with ring operations
   and a ring-congruent equality ==; square matrices of a fixed size are an instance).  No analysis.

   A series  c0 + c1 dt + c2 dt^2/2! + O(dt^3)  is the triple (c0, c1, c2) of its EXPONENTIAL generating
   coefficients, so that exp(x dt) = (1, x, x^2) needs no division and the product is the binomial
   convolution.  Everything is proved with `non_commutative_ring`. *)
From Coq Require Import Ncring Ncring_tac List Setoid Morphisms.
Import ListNotations.

Section Series.
  Context {R : Type} `{Rr : Ring R}.

  Definition ser : Type := (R * R * R)%type.
  Definition c0 (x : ser) : R := fst (fst x).
  Definition c1 (x : ser) : R := snd (fst x).
  Definition c2 (x : ser) : R := snd x.
  (* equality of the coefficients of dt^0, dt^1, dt^2 *)
  Definition seq3 (x y : ser) : Prop := c0 x == c0 y /\ c1 x == c1 y /\ c2 x == c2 y.
  Definition smul (x y : ser) : ser :=
    (c0 x * c0 y, c0 x * c1 y + c1 x * c0 y, c0 x * c2 y + (c1 x * c1 y + c1 x * c1 y) + c2 x * c0 y).
  Definition sone : ser := (1, 0, 0).
  (* exp(x dt) mod dt^3 *)
  Definition sexp (x : R) : ser := (1, x, x * x).
  Definition sprod (l : list ser) : ser := fold_right smul sone l.

  Global Instance seq3_equiv : Equivalence seq3.
  Proof.
    split.
    - intros x. repeat split; reflexivity.
    - intros x y (H0 & H1 & H2). repeat split; symmetry; assumption.
    - intros x y z (H0 & H1 & H2) (K0 & K1 & K2). repeat split; etransitivity; eassumption.
  Qed.
  Global Instance smul_proper : Proper (seq3 ==> seq3 ==> seq3) smul.
  Proof.
    intros x x' (H0 & H1 & H2) y y' (K0 & K1 & K2). unfold smul, seq3, c0, c1, c2 in *. cbn [fst snd].
    repeat split; rewrite ?H0, ?H1, ?H2, ?K0, ?K1, ?K2; reflexivity.
  Qed.
  Global Instance sexp_proper : Proper (_==_ ==> seq3) sexp.
  Proof. intros x y H. unfold sexp, seq3, c0, c1, c2. cbn [fst snd]. repeat split; rewrite ?H; reflexivity. Qed.

  Lemma smul_assoc x y z : seq3 (smul (smul x y) z) (smul x (smul y z)).
  Proof. destruct x as [[x0 x1] x2], y as [[y0 y1] y2], z as [[z0 z1] z2]. unfold smul, seq3, c0, c1, c2. cbn [fst snd]. repeat split; non_commutative_ring. Qed.
  Lemma smul_one_l x : seq3 (smul sone x) x.
  Proof. destruct x as [[x0 x1] x2]. unfold smul, sone, seq3, c0, c1, c2. cbn [fst snd]. repeat split; non_commutative_ring. Qed.
  Lemma smul_one_r x : seq3 (smul x sone) x.
  Proof. destruct x as [[x0 x1] x2]. unfold smul, sone, seq3, c0, c1, c2. cbn [fst snd]. repeat split; non_commutative_ring. Qed.
  Lemma sexp_zero : seq3 (sexp 0) sone.
  Proof. unfold sexp, sone, seq3, c0, c1, c2. cbn [fst snd]. repeat split; non_commutative_ring. Qed.

  (* the symmetric (Strang) product of two exponentials, for ALL a, b (no commutation assumed):
     exp(a dt) exp(b dt) exp(a dt) = exp((a + b + a) dt) + O(dt^3) *)
  Theorem strang2 a b : seq3 (smul (smul (sexp a) (sexp b)) (sexp a)) (sexp (a + b + a)).
  Proof. unfold smul, sexp, seq3, c0, c1, c2. cbn [fst snd]. repeat split; non_commutative_ring. Qed.

  (* the first-order (Lie) product agrees only to first order: the dt^2 coefficients differ by the commutator *)
  Theorem lie_defect a b : c2 (smul (sexp a) (sexp b)) + b * a == c2 (sexp (a + b)) + a * b.
  Proof. unfold smul, sexp, c0, c1, c2. cbn [fst snd]. non_commutative_ring. Qed.

  (* m-term symmetric splitting, the shape SymbolicHamiltonian.circuit emits: groups forward, then backward *)
  Fixpoint sym (l : list R) : ser :=
    match l with [] => sone | x :: l' => smul (smul (sexp x) (sym l')) (sexp x) end.
  Fixpoint total (l : list R) : R := match l with [] => 0 | x :: l' => x + x + total l' end.

  Theorem sym_second_order l : seq3 (sym l) (sexp (total l)).
  Proof.
    induction l as [|x l IH]; cbn [sym total]; [symmetry; apply sexp_zero|].
    rewrite IH, strang2. apply sexp_proper. non_commutative_ring.
  Qed.

  Lemma sprod_app l1 l2 : seq3 (sprod (l1 ++ l2)) (smul (sprod l1) (sprod l2)).
  Proof.
    induction l1 as [|x l1 IH]; cbn [app sprod fold_right]; [symmetry; apply smul_one_l|].
    fold (sprod (l1 ++ l2)) (sprod l1). now rewrite IH, smul_assoc.
  Qed.
  (* the gate list  l ++ rev l  (Model.trotter_seq) multiplies to the nested symmetric product *)
  Lemma sprod_palindrome l : seq3 (sprod (map sexp (l ++ rev l))) (sym l).
  Proof.
    induction l as [|x l IH]; [reflexivity|].
    cbn [rev app]. rewrite app_assoc. cbn [map sprod fold_right]. fold (sprod (map sexp ((l ++ rev l) ++ [x]))).
    rewrite map_app, sprod_app, IH. cbn [map sprod fold_right]. rewrite smul_one_r. cbn [sym]. now rewrite smul_assoc.
  Qed.

  (* SECOND ORDER of the Trotter step for every number of groups and all (non-commuting) group generators:
     with x_i = -i G_i dt/2 the circuit product equals exp(sum_i 2 x_i) = exp(-i H dt) up to O(dt^3) *)
  Theorem trotter_second_order l : seq3 (sprod (map sexp (l ++ rev l))) (sexp (total l)).
  Proof. now rewrite sprod_palindrome, sym_second_order. Qed.

  (* formal n-step statement: if a one-step map agrees with the exact one-step series up to dt^2, so do n steps *)
  Fixpoint spow (s : ser) (n : nat) : ser := match n with O => sone | S n' => smul s (spow s n') end.
  Theorem steps_agree s e n : seq3 s e -> seq3 (spow s n) (spow e n).
  Proof. intros H. induction n as [|n IH]; cbn [spow]; [reflexivity|]. now apply smul_proper. Qed.
End Series.
