(* C16/ProofsMerge.v : HamiltonianTerm.merge computes merge_spec: the reshape / transpose of
   kron(child, I) places the child matrix at the positions its targets have inside the parent *)
From Coq Require Import ZArith List Bool Arith Lia.
From QV Require Import Base.Mat Base.Zi C15.MatDefs C15.Model C15.MatAlg C15.Proofs C15.Proofs6 C15.Proofs7 C16.Model C16.Proofs.
Import ListNotations.

(* ---------------- entries of kron M I *)
Lemma idx_app u : forall w, idx (u ++ w) = idx u * 2 ^ length w + idx w.
Proof.
  induction u as [|b u IH]; intros w; [change (idx []) with 0; cbn [app]; lia|].
  cbn [app]. rewrite !idx_cons, IH, app_length, Nat.pow_add_r. destruct b; lia.
Qed.

Lemma nth_flat_rows (M B : mat Zi) p : length B = p -> forall i i', i < length M -> i' < p ->
  nth (i * p + i') (flat_map (fun ra => map (fun rb => krow ZK ra rb) B) M) [] = krow ZK (nth i M []) (nth i' B []).
Proof.
  intros LB. unfold mat, vec in *. induction M as [|ra M IH]; intros i i' Hi Hi'; [cbn in Hi; lia|].
  cbn [flat_map]. destruct i as [|i].
  - cbn [Nat.mul Nat.add nth]. rewrite app_nth1 by (rewrite map_length; unfold mat, vec in *; lia).
    rewrite (nth_indep _ [] (krow ZK ra [])) by (rewrite map_length; unfold mat, vec in *; lia).
    now rewrite (map_nth (fun rb => krow ZK ra rb)).
  - rewrite app_nth2 by (rewrite map_length; unfold mat, vec in *; lia). rewrite map_length.
    replace (S i * p + i' - length B) with (i * p + i') by (unfold mat, vec in *; lia). cbn [nth]. apply IH; [cbn in Hi; lia|assumption].
Qed.
Lemma nth_krow (a b : vec Zi) q : length b = q -> forall j j', j < length a -> j' < q ->
  nth (j * q + j') (krow ZK a b) zi0 = zi_mul (nth j a zi0) (nth j' b zi0).
Proof.
  intros Lb. induction a as [|x a IH]; intros j j' Hj Hj'; [cbn in Hj; lia|].
  cbn [krow]. destruct j as [|j].
  - cbn [Nat.mul Nat.add nth]. rewrite app_nth1 by (rewrite (vscale_length ZK); lia). apply (nth_vscale ZK ZL).
  - rewrite app_nth2 by (rewrite (vscale_length ZK); lia). rewrite (vscale_length ZK).
    replace (S j * q + j' - length b) with (j * q + j') by lia. cbn [nth]. apply IH; [cbn in Hj; lia|assumption].
Qed.

Lemma mget_identity b w x : length w = b -> length x = b ->
  mget ZK (midentity ZK b) (idx w) (idx x) = if beqb w x then zi1 else zi0.
Proof.
  intros Hw Hx. rewrite identity_rows. unfold mget.
  rewrite (nth_indep _ [] (irow b [])) by (rewrite map_length, allbits_length; rewrite <- Hw; apply idx_lt).
  rewrite (map_nth (irow b)), nth_allbits by assumption. unfold irow. cbn [zero Ziops].
  rewrite (nth_indep _ zi0 ((fun c => if beqb w c then zi1 else zi0) []))
    by (rewrite map_length, allbits_length; rewrite <- Hx; apply idx_lt).
  now rewrite (map_nth (fun c => if beqb w c then zi1 else zi0)), nth_allbits by assumption.
Qed.

Lemma mget_kron_id a b M u v w x : wfm (2 ^ a) (2 ^ a) M ->
  length u = a -> length v = a -> length w = b -> length x = b ->
  mget ZK (kron ZK M (midentity ZK b)) (idx (u ++ w)) (idx (v ++ x)) =
  if beqb w x then mget ZK M (idx u) (idx v) else zi0.
Proof.
  intros [LM FM] Hu Hv Hw Hx. unfold kron, mget. rewrite !idx_app, Hw, Hx.
  destruct (midentity_wf ZK b) as [LI FI].
  assert (Iu : idx u < 2 ^ a) by (rewrite <- Hu; apply idx_lt).
  assert (Iv : idx v < 2 ^ a) by (rewrite <- Hv; apply idx_lt).
  assert (Iw : idx w < 2 ^ b) by (rewrite <- Hw; apply idx_lt).
  assert (Ix : idx x < 2 ^ b) by (rewrite <- Hx; apply idx_lt).
  rewrite (nth_flat_rows M (midentity ZK b) (2 ^ b)) by (assumption || lia).
  assert (Lr : length (nth (idx u) M []) = 2 ^ a).
  { eapply Forall_forall in FM; [exact FM|]. apply nth_In. lia. }
  assert (Lb : length (nth (idx w) (midentity ZK b) []) = 2 ^ b).
  { eapply Forall_forall in FI; [exact FI|]. apply nth_In. lia. }
  cbn [zero Ziops]. rewrite (nth_krow _ _ (2 ^ b)) by (assumption || lia).
  pose proof (mget_identity b w x Hw Hx) as E. unfold mget in E. cbn [zero Ziops] in E. rewrite E.
  destruct (nth (idx v) (nth (idx u) M []) zi0) as [p q]. destruct (beqb w x); unfold zi_mul, zi1, zi0; cbn [fst snd]; f_equal; lia.
Qed.

(* ---------------- index_of *)
Lemma io_sound p l : forall j, index_of p l = Some j -> j < length l /\ nth j l 0 = p /\ forall j', j' < j -> nth j' l 0 <> p.
Proof.
  induction l as [|y l IH]; intros j H; [discriminate|]. cbn [index_of] in H.
  destruct (Nat.eqb_spec p y) as [->|N].
  - inversion H; subst. cbn. repeat split; [lia|]. intros; lia.
  - destruct (index_of p l) as [m|] eqn:E; [|discriminate]. cbn in H. inversion H; subst.
    destruct (IH m eq_refl) as (L & V & F). cbn [length nth]. repeat split; [lia|assumption|].
    intros [|j'] Hj'; cbn [nth]; [congruence|]. apply F. lia.
Qed.
Lemma io_first p l : forall j, j < length l -> nth j l 0 = p -> (forall j', j' < j -> nth j' l 0 <> p) -> index_of p l = Some j.
Proof.
  induction l as [|y l IH]; intros j L V F; [cbn in L; lia|]. cbn [index_of].
  destruct j as [|j].
  - cbn in V. subst. now rewrite Nat.eqb_refl.
  - destruct (Nat.eqb_spec p y) as [->|N]; [exfalso; apply (F 0); [lia|reflexivity]|].
    rewrite (IH j); [reflexivity|cbn in L; lia|exact V|]. intros j' Hj'. apply (F (S j')). lia.
Qed.
Lemma io_none p l : index_of p l = None -> forall j, j < length l -> nth j l 0 <> p.
Proof.
  intros H j L E. destruct (index_of_In p l) as (m & Em & _); [subst; now apply nth_In|]. congruence.
Qed.
Lemma io_nodup l : NoDup l -> forall p, p < length l -> index_of (nth p l 0) l = Some p.
Proof.
  intros ND p L. apply io_first; [assumption|reflexivity|].
  intros j' Hj' E. apply (NoDup_nth l 0) in E; [lia|assumption|lia|assumption].
Qed.

(* ---------------- the `order` list of merge *)
Section Order.
  Variables (st tt : list nat).
  Hypothesis NDs : NoDup st.
  Hypothesis NDt : NoDup tt.
  Hypothesis Inc : incl tt st.
  Let a := length tt.
  Let k := length st.
  Definition nonm (q : nat) : bool := match index_of q tt with Some _ => false | None => true end.
  Definition cnt (l : list nat) : nat := length (filter nonm l).

  Lemma mo_length l : forall i, length (merge_order i l tt) = length l.
  Proof. induction l as [|q l IH]; intros i; cbn [merge_order]; [reflexivity|]. destruct (index_of q tt); cbn; now rewrite IH. Qed.

  Lemma mo_spec l : forall i j, j < length l ->
    nth j (merge_order i l tt) 0 =
    match index_of (nth j l 0) tt with Some m => m | None => i + cnt (firstn j l) end.
  Proof.
    induction l as [|q l IH]; intros i j H; [cbn in H; lia|]. cbn [merge_order].
    destruct j as [|j].
    - cbn [nth firstn]. unfold cnt. cbn. destruct (index_of q tt); cbn; lia.
    - cbn [firstn]. unfold cnt. cbn [filter]. unfold nonm at 1.
      destruct (index_of q tt) as [m|] eqn:E; cbn [nth]; rewrite IH by (cbn in H; lia);
        destruct (index_of (nth j l 0) tt); try reflexivity. unfold cnt. cbn [length]. lia.
  Qed.

  Let sigma := merge_order a st tt.

  Lemma a_le_members : a <= length (filter (fun q => negb (nonm q)) st).
  Proof.
    apply NoDup_incl_length; [exact NDt|]. intros q Hq. apply filter_In. split; [now apply Inc|].
    unfold nonm. destruct (index_of_In q tt Hq) as (m & E & _). now rewrite E.
  Qed.
  Lemma filter_split (f : nat -> bool) l : length (filter f l) + length (filter (fun q => negb (f q)) l) = length l.
  Proof. induction l as [|x l IH]; [reflexivity|]. cbn [filter]. destruct (f x); cbn; lia. Qed.
  Lemma cnt_total : a + cnt st <= k.
  Proof.
    pose proof a_le_members. pose proof (filter_split nonm st). unfold cnt, k. lia.
  Qed.
  Lemma cnt_firstn_lt j : j < k -> nonm (nth j st 0) = true -> cnt (firstn j st) < cnt st.
  Proof.
    intros Hj N. rewrite <- (firstn_skipn j st) at 2. unfold cnt. rewrite filter_app, app_length.
    assert (E : skipn j st = nth j st 0 :: skipn (S j) st).
    { clear -Hj. unfold k in Hj. revert j Hj. induction st as [|x l IH]; intros j Hj; [cbn in Hj; lia|].
      destruct j; [reflexivity|]. cbn [skipn nth]. apply IH. cbn in Hj. lia. }
    rewrite E. cbn [filter]. rewrite N. cbn. lia.
  Qed.
  Lemma cnt_firstn_mono j j' : j' < j -> j < k -> nonm (nth j' st 0) = true -> cnt (firstn j' st) < cnt (firstn j st).
  Proof.
    intros H Hj N.
    assert (E : firstn j' st = firstn j' (firstn j st)) by (rewrite firstn_firstn; f_equal; lia).
    rewrite E. 
    assert (G : forall l n, n < length l -> nonm (nth n l 0) = true -> cnt (firstn n l) < cnt l).
    { clear. intros l. induction l as [|x l IH]; intros n Hn N; [cbn in Hn; lia|].
      destruct n as [|n]; cbn [firstn nth] in *; unfold cnt in *; cbn [filter].
      - rewrite N. cbn. lia.
      - cbn in Hn. assert (Hn' : n < length l) by lia. specialize (IH n Hn' N). destruct (nonm x); cbn [length]; lia. }
    apply G.
    - rewrite firstn_length. unfold k in Hj. lia.
    - rewrite <- (firstn_skipn j st) in N. rewrite app_nth1 in N; [exact N|]. rewrite firstn_length. unfold k in Hj. lia.
  Qed.

  Lemma sigma_member j m : j < k -> index_of (nth j st 0) tt = Some m -> nth j sigma 0 = m /\ m < a.
  Proof.
    intros Hj E. unfold sigma. rewrite mo_spec by exact Hj. rewrite E. split; [reflexivity|].
    destruct (io_sound _ _ _ E) as (L & _). exact L.
  Qed.
  Lemma sigma_nonmember j : j < k -> index_of (nth j st 0) tt = None ->
    nth j sigma 0 = a + cnt (firstn j st) /\ a <= nth j sigma 0 < k.
  Proof.
    intros Hj E. unfold sigma. rewrite mo_spec by exact Hj. rewrite E. split; [reflexivity|].
    pose proof cnt_total. assert (N : nonm (nth j st 0) = true) by (unfold nonm; now rewrite E).
    pose proof (cnt_firstn_lt j Hj N). lia.
  Qed.

  (* position of a child target inside the parent *)
  Definition posq (q : nat) : nat := match index_of q st with Some j => j | None => 0 end.
  Lemma posq_spec q : In q tt -> posq q < k /\ nth (posq q) st 0 = q.
  Proof.
    intros H. unfold posq. destruct (index_of_In q st (Inc q H)) as (j & E & L). rewrite E.
    destruct (io_sound _ _ _ E) as (_ & V & _). split; assumption.
  Qed.

  (* step 2: where the first |tt| old axes come from *)
  Lemma src_member p : p < a -> index_of p sigma = Some (posq (nth p tt 0)).
  Proof.
    intros Hp. assert (Hin : In (nth p tt 0) tt) by (apply nth_In; exact Hp).
    destruct (posq_spec _ Hin) as (L & V).
    apply io_first.
    - unfold sigma. now rewrite mo_length.
    - destruct (sigma_member (posq (nth p tt 0)) p L) as (E & _); [rewrite V; now apply io_nodup|exact E].
    - intros j' Hj' E.
      destruct (index_of (nth j' st 0) tt) as [m|] eqn:M.
      + destruct (sigma_member j' m) as (E' & _); [lia|exact M|]. rewrite E' in E. subst m.
        destruct (io_sound _ _ _ M) as (_ & V' & _). rewrite <- V in V'.
        pose proof (proj1 (NoDup_nth st 0) NDs (posq (nth p tt 0)) j') as Hinj. unfold k in *. specialize (Hinj L ltac:(lia) V'). lia.
      + destruct (sigma_nonmember j') as (_ & B); [lia|exact M|]. lia.
  Qed.
  (* step 3: where the remaining old axes come from *)
  Lemma src_nonmember j : j < k -> index_of (nth j st 0) tt = None -> index_of (nth j sigma 0) sigma = Some j.
  Proof.
    intros Hj M. destruct (sigma_nonmember j Hj M) as (E & B).
    apply io_first; [unfold sigma; now rewrite mo_length|reflexivity|].
    intros j' Hj' E'. destruct (index_of (nth j' st 0) tt) as [m|] eqn:M'.
    - destruct (sigma_member j' m) as (E2 & Lm); [lia|exact M'|]. lia.
    - destruct (sigma_nonmember j') as (E2 & _); [lia|exact M'|].
      assert (N : nonm (nth j' st 0) = true) by (unfold nonm; now rewrite M').
      pose proof (cnt_firstn_mono j j' Hj' Hj N). lia.
  Qed.
  Lemma src_range p m : index_of p sigma = Some m -> a <= p -> m < k /\ index_of (nth m st 0) tt = None.
  Proof.
    intros E Hp. destruct (io_sound _ _ _ E) as (L & V & _). unfold sigma in L. rewrite mo_length in L.
    split; [exact L|]. destruct (index_of (nth m st 0) tt) as [x|] eqn:M; [|reflexivity].
    destruct (sigma_member m x L M) as (E2 & Lx). lia.
  Qed.
End Order.

(* ---------------- boolean characterisations *)
Lemma beqb_map {X} (f g : X -> bool) l : beqb (map f l) (map g l) = true <-> forall x, In x l -> f x = g x.
Proof.
  induction l as [|x l IH]; cbn [map beqb]; [split; [intros _ y []|reflexivity]|].
  rewrite andb_true_iff, IH. split.
  - intros [H1 H2] y [<-|Hy]; [now apply Bool.eqb_prop|now apply H2].
  - intros H. split; [rewrite (H x) by (now left); apply Bool.eqb_reflx|intros y Hy; apply H; now right].
Qed.
Lemma agree_spec qs r : forall i c, length r = length c ->
  (agree_off_from i qs r c = true <->
   forall j, j < length r -> existsb (Nat.eqb (i + j)) qs = true \/ nth j r false = nth j c false).
Proof.
  induction r as [|x r IH]; intros i [|y c] L; cbn [length] in L; try lia.
  - cbn. split; [intros _ j Hj; lia|reflexivity].
  - cbn [agree_off_from length]. rewrite andb_true_iff, (IH (S i) c) by lia. split.
    + intros [H1 H2] [|j] Hj.
      * rewrite Nat.add_0_r. cbn [nth]. destruct (existsb (Nat.eqb i) qs); [now left|right; now apply Bool.eqb_prop].
      * cbn [nth]. replace (i + S j) with (S i + j) by lia. apply H2. lia.
    + intros H. split.
      * destruct (H 0 ltac:(lia)) as [E|E]; [rewrite Nat.add_0_r in E; now rewrite E|].
        cbn in E. subst. destruct (existsb (Nat.eqb i) qs); [reflexivity|apply Bool.eqb_reflx].
      * intros j Hj. replace (S i + j) with (i + S j) by lia. apply (H (S j)). lia.
Qed.
Lemma map_seq_nth {X} (g : nat -> X) l : map (fun p => g (nth p l 0)) (seq 0 (length l)) = map g l.
Proof.
  induction l as [|x l IH]; [reflexivity|]. cbn [length seq map nth]. f_equal.
  rewrite <- seq_shift, map_map. exact IH.
Qed.

Lemma eq_true_iff (b1 b2 : bool) : (b1 = true <-> b2 = true) -> b1 = b2.
Proof. destruct b1, b2; intros [H1 H2]; try reflexivity; [symmetry; now apply H1|now apply H2]. Qed.

(* ---------------- the index theorem *)
Theorem merge_matrix st tt M :
  NoDup st -> NoDup tt -> incl tt st -> wfm (2 ^ length tt) (2 ^ length tt) M ->
  transpose_axes (length st) (merge_order (length tt) st tt) (kron ZK M (midentity ZK (length st - length tt)))
  = embed ZK (length st) (positions st tt) M.
Proof.
  intros NDs NDt Inc HM. set (k := length st). set (a := length tt). set (sigma := merge_order a st tt).
  pose proof (cnt_total st tt NDt Inc) as Hak. fold a k in Hak. assert (Hle : a <= k) by lia.
  unfold transpose_axes. rewrite (embed_entry ZK).
  apply map_ext_in. intros r Hr. apply map_ext_in. intros c Hc.
  apply allbits_In_length in Hr, Hc.
  set (F := fun (x : list bool) p => match index_of p sigma with Some m => nth m x false | None => false end).
  assert (OB : forall x, oldbits sigma k x = map (F x) (seq 0 a) ++ map (F x) (seq a (k - a))).
  { intros x. unfold oldbits. rewrite <- map_app, <- seq_app. now replace (a + (k - a)) with k by lia. }
  assert (P_eq : positions st tt = map (posq st) tt) by reflexivity.
  assert (U : forall x, map (F x) (seq 0 a) = sel (positions st tt) x).
  { intros x. rewrite P_eq. unfold sel. rewrite map_map. unfold a. rewrite <- (map_seq_nth (fun q => nth (posq st q) x false) tt).
    apply map_ext_in. intros p Hp. apply in_seq in Hp. unfold F, sigma, a.
    now rewrite (src_member st tt NDs NDt Inc p) by lia. }
  rewrite !OB, !U.
  rewrite (mget_kron_id a (k - a)); [|exact HM|unfold sel; now rewrite map_length, P_eq, map_length| unfold sel; now rewrite map_length, P_eq, map_length|now rewrite map_length, seq_length|now rewrite map_length, seq_length].
  unfold entry, agree_off.
  replace (beqb (map (F r) (seq a (k - a))) (map (F c) (seq a (k - a)))) with (agree_off_from 0 (positions st tt) r c); [reflexivity|].
  apply eq_true_iff. rewrite beqb_map, (agree_spec _ r 0 c) by congruence. rewrite Hr.
  (* membership of a position in P *)
  assert (MEM : forall j, j < k -> (existsb (Nat.eqb j) (positions st tt) = true <-> index_of (nth j st 0) tt <> None)).
  { intros j Hj. rewrite P_eq, existsb_exists. split.
    - intros (x & Hx & E). apply Nat.eqb_eq in E. subst x. apply in_map_iff in Hx as (q & Eq & Hq).
      destruct (posq_spec st tt Inc q Hq) as (_ & V). rewrite Eq in V. rewrite V.
      destruct (index_of_In q tt Hq) as (m & Em & _). congruence.
    - intros N. destruct (index_of (nth j st 0) tt) as [m|] eqn:Em; [|congruence].
      exists j. split; [|apply Nat.eqb_refl]. apply in_map_iff. exists (nth j st 0). split.
      + unfold posq. now rewrite (io_nodup st NDs j Hj).
      + destruct (io_sound _ _ _ Em) as (Lm & Vm & _). rewrite <- Vm. now apply nth_In. }
  split.
  - intros H p Hp. apply in_seq in Hp. unfold F. destruct (index_of p sigma) as [m|] eqn:E; [|reflexivity].
    destruct (src_range st tt p m E) as (Lm & Nm); [lia|].
    destruct (H m Lm) as [X|X]; [|exact X]. cbn [Nat.add] in X. apply (MEM m Lm) in X. congruence.
  - intros H j Hj. cbn [Nat.add]. destruct (index_of (nth j st 0) tt) as [m|] eqn:Em.
    + left. apply (MEM j Hj). congruence.
    + right. destruct (sigma_nonmember st tt NDt Inc j Hj Em) as (_ & B).
      pose proof (src_nonmember st tt NDt Inc j Hj Em) as S. fold a sigma in B, S.
      specialize (H (nth j sigma 0)). unfold F in H. rewrite S in H. apply H. apply in_seq. lia.
Qed.

Theorem merge_is_spec s t :
  NoDup (fst s) -> NoDup (fst t) -> subset (fst t) (fst s) = true ->
  wfm (2 ^ tlen t) (2 ^ tlen t) (snd t) -> merge s t = Some (merge_spec s t).
Proof.
  intros NDs NDt Sub HM. unfold merge, merge_spec. rewrite Sub. f_equal. f_equal. f_equal.
  unfold tlen in *. apply merge_matrix; try assumption. now apply subset_incl.
Qed.
