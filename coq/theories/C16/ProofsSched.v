(* C16/ProofsSched.v : the adiabatic interpolation is the affine combination for EVERY value of the schedule
   (no range restriction), it determines the schedule value, and the observation on a long-lived object is a
   function of its current (schedule, total_time) only. *)
From Coq Require Import ZArith List Bool Arith Lia QArith.
From QV Require Import Base.Mat Base.Zi C15.MatDefs C15.Model C15.MatAlg C15.Proofs C16.Model C16.ModelSched.
Import ListNotations.
Local Close Scope Q_scope.
Local Open Scope Z_scope.

(* ---- additivity in (num, den): ad_ham is Z-linear in the pair, for all integers ---- *)
Lemma ad_ham_additive n1 d1 n2 d2 H0 H1 :
  ad_ham (n1 + n2) (d1 + d2) H0 H1 = madd ZK (ad_ham n1 d1 H0 H1) (ad_ham n2 d2 H0 H1).
Proof.
  unfold ad_ham.
  replace ((d1 + d2 - (n1 + n2))%Z, 0%Z) with (add ZK ((d1 - n1)%Z, 0%Z) ((d2 - n2)%Z, 0%Z))
    by (cbn; unfold zi_add; cbn; f_equal; lia).
  replace ((n1 + n2)%Z, 0%Z) with (add ZK (n1, 0%Z) (n2, 0%Z)) by (cbn; unfold zi_add; cbn; f_equal; lia).
  rewrite !(mscale_add ZK ZL). apply (madd_swap ZK ZL).
Qed.

(* ---- entries ---- *)
Lemma nth_vadd (u : list Zi) : forall v j, length u = length v ->
  nth j (vadd ZK u v) zi0 = zi_add (nth j u zi0) (nth j v zi0).
Proof.
  induction u as [|x u IH]; intros [|y v] j L; cbn in L; try discriminate.
  - destruct j; reflexivity.
  - destruct j; cbn [vadd nth]; [reflexivity|]. apply IH. lia.
Qed.

Lemma mget_madd a b (A : mat Zi) : forall B i j, wfm a b A -> wfm a b B -> (i < a)%nat ->
  mget ZK (madd ZK A B) i j = zi_add (mget ZK A i j) (mget ZK B i j).
Proof.
  revert a. induction A as [|r A IH]; intros a B i j [LA FA] [LB FB] Hi.
  - cbn in LA. lia.
  - destruct B as [|s B]; [cbn in LA, LB; lia|].
    cbn [madd]. destruct i.
    + unfold mget. cbn [nth]. apply nth_vadd.
      inversion FA; inversion FB; subst. congruence.
    + unfold mget. cbn [nth].
      cbn in LA, LB. inversion FA; inversion FB; subst.
      apply (IH (length A) B i j); [split; [reflexivity|assumption]|split; [lia|assumption]|lia].
Qed.

Lemma ad_ham_entry a b num den H0 H1 i j : wfm a b H0 -> wfm a b H1 -> (i < a)%nat ->
  mget ZK (ad_ham num den H0 H1) i j
  = zi_add (zi_mul ((den - num)%Z, 0%Z) (mget ZK H0 i j)) (zi_mul (num, 0%Z) (mget ZK H1 i j)).
Proof.
  intros W0 W1 Hi. unfold ad_ham.
  rewrite (mget_madd a b) by (try apply (mscale_wf ZK); assumption).
  now rewrite !(mget_mscale ZK ZL).
Qed.

(* ---- the interpolated matrix determines the value of the schedule wherever H0 and H1 differ ---- *)
Lemma ad_ham_determines_s a b n n' d H0 H1 i j : wfm a b H0 -> wfm a b H1 -> (i < a)%nat ->
  mget ZK H0 i j <> mget ZK H1 i j ->
  ad_ham n d H0 H1 = ad_ham n' d H0 H1 -> n = n'.
Proof.
  intros W0 W1 Hi Hne E.
  assert (E2 : mget ZK (ad_ham n d H0 H1) i j = mget ZK (ad_ham n' d H0 H1) i j) by now rewrite E.
  rewrite !(ad_ham_entry a b) in E2 by assumption.
  destruct (mget ZK H0 i j) as [x0 y0] eqn:E0. destruct (mget ZK H1 i j) as [x1 y1] eqn:E1.
  unfold zi_add, zi_mul in E2. cbn [fst snd] in E2. injection E2 as Ex Ey.
  assert (Hx : ((n - n') * (x1 - x0) = 0)%Z) by nia.
  assert (Hy : ((n - n') * (y1 - y0) = 0)%Z) by nia.
  destruct (Z.eq_dec n n') as [|Hn]; [assumption|exfalso].
  apply Hne. f_equal; nia.
Qed.

(* ---- a guard that clamps the schedule value to [0, 1] is NOT the interpolation ---- *)
Lemma ad_ham_clamp_differs :
  exists num den H0 H1, (0 < den < num)%Z /\ ad_ham_clamped num den H0 H1 <> ad_ham num den H0 H1.
Proof. exists 4%Z, 3%Z, [[(0, 0); (1, 0)]; [(1, 0); (0, 0)]], [[(1, 0); (0, 0)]; [(0, 0); (-1, 0)]]. split; [lia|]. vm_compute. discriminate. Qed.
Lemma ad_ham_clamp_differs_below :
  exists num den H0 H1, (num < 0 < den)%Z /\ ad_ham_clamped num den H0 H1 <> ad_ham num den H0 H1.
Proof. exists (-1)%Z, 3%Z, [[(0, 0); (1, 0)]; [(1, 0); (0, 0)]], [[(1, 0); (0, 0)]; [(0, 0); (-1, 0)]]. split; [lia|]. vm_compute. discriminate. Qed.
(* inside the range the guard is invisible: this is why schedules within [0, 1] cannot detect it *)
Lemma ad_ham_clamp_inside num den H0 H1 : (0 <= num <= den)%Z -> ad_ham_clamped num den H0 H1 = ad_ham num den H0 H1.
Proof. intros H. unfold ad_ham_clamped, clampZ. now rewrite Z.max_l, Z.min_l by lia. Qed.

(* ---- histories on one object: every query sees the latest schedule and the latest total time ---- *)
Lemma ad_run_app o pre rest :
  ad_run o (pre ++ rest) = ad_run o pre ++ ad_run (last_sched (fst o) pre, last_time (snd o) pre) rest.
Proof.
  revert o. induction pre as [|op pre IH]; intros [s T]; cbn [app ad_run last_sched last_time fst snd]; [reflexivity|].
  destruct op; cbn [ad_run last_sched last_time fst snd].
  - apply IH.
  - apply IH.
  - now rewrite IH.
Qed.

Lemma ad_run_query o pre t post :
  nth (length (ad_run o pre)) (ad_run o (pre ++ OQuery t :: post)) None
  = ad_query (last_sched (fst o) pre, last_time (snd o) pre) t.
Proof.
  rewrite ad_run_app. rewrite app_nth2 by lia. rewrite Nat.sub_diag. reflexivity.
Qed.
