(* C16/Proofs.v : grouping, Trotter structure, step counting, exponential solver *)
From Coq Require Import ZArith List Bool Arith Lia Permutation Floats QArith.
From QV Require Import Base.Mat Base.Zi C15.MatDefs C15.Model C15.MatAlg C15.Proofs C16.Model.
Import ListNotations.
Local Close Scope Q_scope.

(* ------------------------------------------------------------------ from_terms *)
Lemma insert_desc_perm t l : Permutation (insert_desc t l) (t :: l).
Proof.
  induction l as [|u l IH]; cbn [insert_desc]; [reflexivity|].
  destruct (tlen u <? tlen t); [reflexivity|].
  rewrite IH. apply perm_swap.
Qed.
Lemma ordered_acc ts : forall acc,
  Permutation (fold_left (fun a t => insert_desc t a) ts acc) (acc ++ ts).
Proof.
  induction ts as [|t ts IH]; intros acc; cbn [fold_left]; [now rewrite app_nil_r|].
  rewrite IH, insert_desc_perm. cbn [app]. apply Permutation_middle.
Qed.
Lemma ordered_perm ts : Permutation (ordered ts) ts.
Proof. unfold ordered. now rewrite ordered_acc. Qed.

Lemma place_perm t gs : Permutation (concat (place t gs)) (t :: concat gs).
Proof.
  induction gs as [|g gs IH]; cbn [place concat]; [reflexivity|].
  destruct (can_append g t); cbn [concat].
  - rewrite <- app_assoc. cbn [app]. symmetry. apply Permutation_middle.
  - rewrite IH. symmetry. apply Permutation_middle.
Qed.
Lemma from_terms_acc l : forall gs,
  Permutation (concat (fold_left (fun gs t => place t gs) l gs)) (concat gs ++ l).
Proof.
  induction l as [|t l IH]; intros gs; cbn [fold_left]; [now rewrite app_nil_r|].
  rewrite IH, place_perm. cbn [app]. apply Permutation_middle.
Qed.
Theorem from_terms_perm ts : Permutation (concat (from_terms ts)) ts.
Proof. unfold from_terms. rewrite from_terms_acc. cbn. apply ordered_perm. Qed.

Lemma mem_In x l : mem x l = true <-> In x l.
Proof.
  unfold mem. rewrite existsb_exists. split.
  - intros (y & Hy & E). apply Nat.eqb_eq in E. now subst.
  - intros H. exists x. split; [assumption|apply Nat.eqb_refl].
Qed.
Lemma subset_incl a b : subset a b = true <-> incl a b.
Proof.
  unfold subset, incl. rewrite forallb_forall. split; intros H x Hx; [now apply mem_In, H|now apply mem_In, H].
Qed.

(* a group: a parent followed by children whose supports lie inside the parent's *)
Definition nested (g : group) : Prop :=
  exists h rest, g = h :: rest /\ forall t, In t g -> incl (fst t) (fst h).

Lemma nested_targets g : nested g -> forall h rest, g = h :: rest -> incl (group_targets g) (fst h).
Proof.
  intros (h0 & r0 & E & H) h rest E'. rewrite E in E'. inversion E'; subst.
  intros q Hq. unfold group_targets in Hq. apply in_flat_map in Hq as (t & Ht & Hq). now apply (H t Ht).
Qed.

Lemma place_nested t gs : Forall nested gs -> Forall nested (place t gs).
Proof.
  induction 1 as [|g gs Hg Hgs IH]; cbn [place].
  - constructor; [|constructor]. exists t, []. split; [reflexivity|]. intros u [<-|[]]. apply incl_refl.
  - destruct (can_append g t) eqn:C; constructor; try assumption.
    destruct Hg as (h & rest & E & H). exists h, (rest ++ [t]). split; [subst; reflexivity|].
    intros u Hu. apply in_app_or in Hu as [Hu|[<-|[]]]; [now apply H|].
    unfold can_append in C. apply subset_incl in C.
    intros q Hq. eapply (nested_targets g); [exists h, rest; split; eauto|exact E|]. now apply C.
Qed.

Theorem from_terms_nested ts : Forall nested (from_terms ts).
Proof.
  unfold from_terms. generalize (ordered ts). intros l.
  assert (G : forall gs, Forall nested gs -> Forall nested (fold_left (fun gs t => place t gs) l gs)).
  { induction l as [|t l IH]; intros gs H; cbn [fold_left]; [assumption|]. apply IH. now apply place_nested. }
  apply G. constructor.
Qed.

(* ------------------------------------------------------------------ Trotter structure *)
Lemma trotter_seq_palindrome {A} (l : list A) : rev (trotter_seq l) = trotter_seq l.
Proof. unfold trotter_seq. now rewrite rev_app_distr, rev_involutive. Qed.

Lemma circuit_terms_structure ts l : circuit_terms ts = Some l ->
  exists ms, opt_all (map (fun g => to_term g []) (from_terms ts)) = Some ms /\
             l = ms ++ rev ms /\ length ms = length (from_terms ts).
Proof.
  unfold circuit_terms. destruct (opt_all _) as [ms|] eqn:E; [|discriminate].
  intros H. inversion H; subst. exists ms. repeat split.
  clear H. revert ms E. generalize (from_terms ts). intros gs.
  induction gs as [|g gs IH]; intros ms E; cbn [map opt_all] in E.
  - now inversion E.
  - destruct (to_term g []); [|discriminate]. destruct (opt_all _) as [ms'|]; [|discriminate].
    cbn in E. inversion E; subst. cbn. f_equal. now apply IH.
Qed.

(* U(dt) U(-dt) = I for any family of term evolutions with U_a(x) U_a(-x) = I, in any monoid *)
Section Symmetric.
  Variables (M A X : Type) (op : M -> M -> M) (e : M) (neg : X -> X) (U : A -> X -> M).
  Hypothesis op_assoc : forall a b c, op a (op b c) = op (op a b) c.
  Hypothesis op_e_l : forall a, op e a = a.
  Hypothesis op_e_r : forall a, op a e = a.
  Hypothesis U_inv : forall a x, op (U a x) (U a (neg x)) = e.
  (* first element applied first: the product is U_last ... U_first *)
  Definition circ (l : list A) (x : X) : M := fold_left (fun acc a => op (U a x) acc) l e.

  Lemma circ_acc l x : forall acc, fold_left (fun acc a => op (U a x) acc) l acc = op (circ l x) acc.
  Proof.
    unfold circ. induction l as [|a l IH]; intros acc; cbn [fold_left]; [now rewrite op_e_l|].
    rewrite IH, (IH (op (U a x) e)), op_e_r. now rewrite op_assoc.
  Qed.
  Lemma circ_cons a l x : circ (a :: l) x = op (circ l x) (U a x).
  Proof. unfold circ at 1. cbn [fold_left]. now rewrite circ_acc, op_e_r. Qed.
  Lemma circ_app l1 l2 x : circ (l1 ++ l2) x = op (circ l2 x) (circ l1 x).
  Proof.
    induction l1 as [|a l1 IH]; cbn [app]; [unfold circ at 3; cbn; now rewrite op_e_r|].
    now rewrite !circ_cons, IH, op_assoc.
  Qed.
  Lemma circ_rev_inv l x : op (circ l x) (circ (rev l) (neg x)) = e.
  Proof.
    induction l as [|a l IH]; [unfold circ; cbn; apply op_e_l|].
    cbn [rev]. rewrite circ_cons, circ_app. unfold circ at 2. cbn [fold_left]. rewrite op_e_r.
    rewrite <- op_assoc, (op_assoc (U a x)), U_inv, op_e_l. exact IH.
  Qed.
  Theorem trotter_inverse l x : op (circ (trotter_seq l) x) (circ (trotter_seq l) (neg x)) = e.
  Proof. rewrite <- (trotter_seq_palindrome l) at 2. apply circ_rev_inv. Qed.
  (* U(dt) = S~(dt/2) S(dt/2) with S~ the reversed product *)
  Theorem trotter_split l x : circ (trotter_seq l) x = op (circ (rev l) x) (circ l x).
  Proof. unfold trotter_seq. apply circ_app. Qed.
End Symmetric.

(* ------------------------------------------------------------------ number of steps *)
Lemma grid3 (f : Z -> Z -> Z -> bool) la lb lc :
  forallb (fun a => forallb (fun b => forallb (fun c => f a b c) lc) lb) la = true ->
  forall a b c, In a la -> In b lb -> In c lc -> f a b c = true.
Proof.
  intros G a b c Ha Hb Hc. rewrite forallb_forall in G. specialize (G a Ha).
  rewrite forallb_forall in G. specialize (G b Hb). rewrite forallb_forall in G. exact (G c Hc).
Qed.
Lemma grid4 (f : nat -> Z -> Z -> Z -> bool) lk la lb lc :
  forallb (fun k => forallb (fun a => forallb (fun b => forallb (fun c => f k a b c) lc) lb) la) lk = true ->
  forall k a b c, In k lk -> In a la -> In b lb -> In c lc -> f k a b c = true.
Proof.
  intros G k a b c Hk. rewrite forallb_forall in G. specialize (G k Hk). now apply grid3.
Qed.
Definition zrange (lo n : nat) : list Z := map Z.of_nat (seq lo n).
Lemma ozeqb_some x v : ozeqb x (Some v) = true -> x = Some v.
Proof. destruct x as [y|]; cbn; [|discriminate]. intros H. apply Z.eqb_eq in H. now subst. Qed.

(* StateEvolution.execute with int(round(...)): times given with k decimals (k = 0: integers),
   T - t0 = m dt exactly as decimals  =>  m steps.
   BOUNDED, exhaustive: k in 0..3, 0 <= a < 20, 1 <= c <= 30, 1 <= m <= 40 (96 000 float triples) *)
Definition dec_grid_f (k : nat) (a c m : Z) : bool :=
  ozeqb (nsteps (dec k a) (dec k (a + m * c)) (dec k c)) (Some m).
Lemma dec_grid_ok :
  forallb (fun k => forallb (fun a => forallb (fun c => forallb (fun m => dec_grid_f k a c m)
    (zrange 1 40)) (zrange 1 30)) (zrange 0 20)) [0; 1; 2; 3] = true.
Proof. vm_compute. reflexivity. Qed.
Theorem dec_grid_thm k a c m :
  In k [0; 1; 2; 3] -> In a (zrange 0 20) -> In c (zrange 1 30) -> In m (zrange 1 40) ->
  nsteps (dec k a) (dec k (a + m * c)) (dec k c) = Some m.
Proof.
  intros Hk Ha Hc Hm. pose proof (grid4 _ _ _ _ _ dec_grid_ok k a c m Hk Ha Hc Hm) as G.
  now apply ozeqb_some.
Qed.
Lemma nsteps_example : nsteps (dec 1 0) (dec 1 3) (dec 1 1) = Some 3%Z.
Proof. vm_compute. reflexivity. Qed.

(* ------------------------------------------------------------------ exponential solver *)
Theorem exp_steps n c P psi k : wfm (2 ^ n) (2 ^ n) P -> wfm (2 ^ n) c psi ->
  evolve (exp_step P) (Z.of_nat k) psi = mmul ZK (mpow ZK n P k) psi.
Proof.
  intros HP Hpsi. unfold evolve. rewrite Nat2Z.id. induction k as [|k IH].
  - cbn. symmetry. now apply (mmul_id_l ZK ZL n c).
  - change (Nat.iter (S k) (exp_step P) psi) with (exp_step P (Nat.iter k (exp_step P) psi)).
    rewrite IH. cbn [mpow]. unfold exp_step. now rewrite (mmul_assoc ZK ZL).
Qed.
Lemma evolve_nonpos {S} (step : S -> S) z s : (z <= 0)%Z -> evolve step z s = s.
Proof. intros H. unfold evolve. destruct z; try reflexivity. lia. Qed.

(* ------------------------------------------------------------------ repeated executions *)
(* the schedule arguments of every run are those of a fresh object: execute() overwrites total_time *)
Theorem ad_history_fresh runs : forall st,
  ad_history st runs = map (fun r : Q * list Q => snd (ad_execute None (fst r) (snd r))) runs.
Proof.
  induction runs as [|[T times] runs IH]; intros st; [reflexivity|].
  cbn [ad_history map fst snd ad_execute]. now rewrite IH.
Qed.
Lemma ad_stale_differs :   (* the defect class is visible on a history of two runs with different T *)
  snd (ad_execute_stale (Some 1%Q) 2%Q [(1 # 2)%Q]) <> snd (ad_execute (Some 1%Q) 2%Q [(1 # 2)%Q]).
Proof. vm_compute. discriminate. Qed.

(* the last operation of execute is the normalisation, with or without callbacks, for every number of steps *)
Theorem execute_ends_with_norm cb n : exists l, execute_trace cb n = l ++ [XNorm].
Proof. unfold execute_trace. eexists (XCb :: _). reflexivity. Qed.
Theorem execute_step_count cb n : length (filter (fun o => xop_eqb o XStep) (execute_trace cb n)) = n.
Proof.
  unfold execute_trace. cbn [filter xop_eqb]. rewrite filter_app, app_length. cbn [filter xop_eqb length].
  rewrite Nat.add_0_r. induction n as [|n IH]; [reflexivity|].
  cbn [repeat concat]. rewrite filter_app, app_length, IH. destruct cb; reflexivity.
Qed.

(* ------------------------------------------------------------------ adiabatic interpolation: end points *)
From QV Require Import C15.Proofs2.
Theorem ad_ham_endpoints a b d H0 H1 : wfm a b H0 -> wfm a b H1 ->
  ad_ham 0 d H0 H1 = mscale ZK (d, 0%Z) H0 /\ ad_ham d d H0 H1 = mscale ZK (d, 0%Z) H1.
Proof.
  intros W0 W1. unfold ad_ham. rewrite Z.sub_0_r, Z.sub_diag. split.
  - change (0%Z, 0%Z) with zi0. apply (madd_zeros_r_gen a b); [now apply mscale_wf|exact W1].
  - change (0%Z, 0%Z) with zi0. rewrite (madd_comm ZK ZL). apply (madd_zeros_r_gen a b); [now apply mscale_wf|exact W0].
Qed.
