(* C16/PropsSeries.v : the order statements of the Trotter step as theorems about formal power series in dt
   over an arbitrary non-commutative ring (kept apart from Props.v because Ncring's notations clash). *)
From Coq Require Import Ncring Ncring_initial List ZArith.
From QV Require Import C16.Series C16.SeriesComm.
Import ListNotations.

(* ---- ORDER of the Trotter step, as identities between formal power series in dt over an ARBITRARY
        (non-commutative) ring -- Coq's Ncring class, of which n x n matrices are an instance; no analysis.
        A series c0 + c1 dt + c2 dt^2/2! + O(dt^3) is the triple of its exponential-generating coefficients;
        sexp x = exp(x dt) = (1, x, x^2); smul = product; seq3 = equality of the dt^0, dt^1, dt^2 coefficients.
        With x_i = -i G_i dt/2 (G_i the merged group matrices) the gate list of circuit(dt) is
        map sexp (l ++ rev l) (trotter_structure) and total l = sum_i 2 x_i = -i H dt. ---- *)
Theorem trotter_second_order_ok : forall (R : Type) (r0 r1 : R) (radd rmul rsub : R -> R -> R) (ropp : R -> R)
  (req : R -> R -> Prop) (Ro : @Ring_ops R r0 r1 radd rmul rsub ropp req) (Rr : @Ring R r0 r1 radd rmul rsub ropp req Ro)
  (l : list R), seq3 (sprod (map sexp (l ++ rev l))) (sexp (total l)).
Proof. intros. apply trotter_second_order. Qed.
Print Assumptions trotter_second_order_ok.

(* two generators, all a, b; and the first-order (unsymmetrised) product is off by exactly the commutator at dt^2 *)
Theorem strang_and_lie : forall (R : Type) (r0 r1 : R) (radd rmul rsub : R -> R -> R) (ropp : R -> R)
  (req : R -> R -> Prop) (Ro : @Ring_ops R r0 r1 radd rmul rsub ropp req) (Rr : @Ring R r0 r1 radd rmul rsub ropp req Ro) (a b : R),
  seq3 (smul (smul (sexp a) (sexp b)) (sexp a)) (sexp (radd (radd a b) a)) /\
  req (radd (c2 (smul (sexp a) (sexp b))) (rmul b a)) (radd (c2 (sexp (radd a b))) (rmul a b)).
Proof. intros. split; [apply strang2|apply lie_defect]. Qed.
Print Assumptions strang_and_lie.

(* pairwise commuting generators: exact in EVERY coefficient of dt (full formal series, binomial theorem);
   cprod = product of the series exp(x dt) over the gate list, npow x n = coefficient of dt^n/n! of exp(x dt) *)
Theorem trotter_commuting_exact_all_orders : forall (R : Type) (r0 r1 : R) (radd rmul rsub : R -> R -> R) (ropp : R -> R)
  (req : R -> R -> Prop) (Ro : @Ring_ops R r0 r1 radd rmul rsub ropp req) (Rr : @Ring R r0 r1 radd rmul rsub ropp req Ro) (l : list R),
  (forall x y, In x l -> In y l -> req (rmul x y) (rmul y x)) ->
  forall n, req (cprod (l ++ rev l) n) (npow (lsum (l ++ rev l)) n).
Proof. intros. now apply trotter_commuting_all_orders. Qed.
Print Assumptions trotter_commuting_exact_all_orders.

(* formal n-step statement: a one-step series that agrees with the exact one-step series in the coefficients
   of dt^0..dt^2 gives, after n steps, a series that agrees with the exact n-step series in dt^0..dt^2
   (n fixed; this is NOT the analytic global bound |error| = O(dt^2) for n = T/dt, which needs norms) *)
Theorem steps_agree_formal : forall (R : Type) (r0 r1 : R) (radd rmul rsub : R -> R -> R) (ropp : R -> R)
  (req : R -> R -> Prop) (Ro : @Ring_ops R r0 r1 radd rmul rsub ropp req) (Rr : @Ring R r0 r1 radd rmul rsub ropp req Ro)
  (s e : ser) (n : nat), seq3 s e -> seq3 (spow s n) (spow e n).
Proof. intros. now apply steps_agree. Qed.
Print Assumptions steps_agree_formal.

Example series_nonvacuous :   (* the integers: exp(2 dt) exp(3 dt) exp(2 dt) = exp(7 dt) mod dt^3, and all orders *)
  smul (smul (sexp 2%Z) (sexp 3%Z)) (sexp 2%Z) = (1%Z, 7%Z, 49%Z) /\ cprod [2%Z; 3%Z; 2%Z] 5 = (7 ^ 5)%Z.
Proof. split; reflexivity. Qed.

