(* C16/PropsSched.v : property theorems for adiabatic schedules whose values leave [0, 1] and for histories of
   queries on one adiabatic Hamiltonian object (statements only; proofs in ProofsSched.v). *)
From Coq Require Import ZArith List Bool Arith QArith.
From QV Require Import Base.Mat Base.Zi C15.MatDefs C15.Model C15.MatAlg C16.Model C16.ModelSched C16.ProofsSched.
Import ListNotations.
Local Close Scope Q_scope.
Local Open Scope Z_scope.

(* ---- for EVERY schedule value s = num/den (any integers: s < 0, s > 1 included) every entry of the model
        Hamiltonian den * H is the affine combination (den - num) H0[i,j] + num H1[i,j] ---- *)
Theorem adiabatic_affine_all_s : forall a b num den H0 H1 i j, wfm a b H0 -> wfm a b H1 -> (i < a)%nat ->
  mget ZK (ad_ham num den H0 H1) i j
  = zi_add (zi_mul ((den - num)%Z, 0%Z) (mget ZK H0 i j)) (zi_mul (num, 0%Z) (mget ZK H1 i j)).
Proof. exact ad_ham_entry. Qed.
Print Assumptions adiabatic_affine_all_s.

Example adiabatic_affine_all_s_nonvacuous :     (* s = 4/3 > 1 and s = -1/3 < 0 on X -> Z *)
  ad_ham 4 3 [[(0, 0); (1, 0)]; [(1, 0); (0, 0)]] [[(1, 0); (0, 0)]; [(0, 0); (-1, 0)]] = [[(4, 0); (-1, 0)]; [(-1, 0); (-4, 0)]] /\
  ad_ham (-1) 3 [[(0, 0); (1, 0)]; [(1, 0); (0, 0)]] [[(1, 0); (0, 0)]; [(0, 0); (-1, 0)]] = [[(-1, 0); (4, 0)]; [(4, 0); (1, 0)]].
Proof. split; vm_compute; reflexivity. Qed.

(* ---- Z-linearity in (num, den), all integers ---- *)
Theorem adiabatic_additive : forall n1 d1 n2 d2 H0 H1,
  ad_ham (n1 + n2) (d1 + d2) H0 H1 = madd ZK (ad_ham n1 d1 H0 H1) (ad_ham n2 d2 H0 H1).
Proof. exact ad_ham_additive. Qed.
Print Assumptions adiabatic_additive.

(* ---- H(t) determines s(t/T) as soon as H0 and H1 differ somewhere: two different schedule values can never
        give the same Hamiltonian (so comparing H(t) at the queried times decides the schedule value used) ---- *)
Theorem adiabatic_determines_s : forall a b n n' d H0 H1 i j, wfm a b H0 -> wfm a b H1 -> (i < a)%nat ->
  mget ZK H0 i j <> mget ZK H1 i j -> ad_ham n d H0 H1 = ad_ham n' d H0 H1 -> n = n'.
Proof. exact ad_ham_determines_s. Qed.
Print Assumptions adiabatic_determines_s.

Example adiabatic_determines_s_nonvacuous :
  wfm 2 2 [[(0, 0); (1, 0)]; [(1, 0); (0, 0)]] /\ wfm 2 2 [[(1, 0); (0, 0)]; [(0, 0); (-1, 0)]] /\
  mget ZK [[(0, 0); (1, 0)]; [(1, 0); (0, 0)]] 0 0 <> mget ZK [[(1, 0); (0, 0)]; [(0, 0); (-1, 0)]] 0 0.
Proof. repeat split; try (repeat constructor); vm_compute; discriminate. Qed.

(* ---- clamping the schedule value to [0, 1] is refuted as a model of the interpolation (above 1 and below 0),
        and is invisible for values inside [0, 1] ---- *)
Theorem adiabatic_clamp_refuted :
  (exists num den H0 H1, (0 < den < num)%Z /\ ad_ham_clamped num den H0 H1 <> ad_ham num den H0 H1) /\
  (exists num den H0 H1, (num < 0 < den)%Z /\ ad_ham_clamped num den H0 H1 <> ad_ham num den H0 H1).
Proof. exact (conj ad_ham_clamp_differs ad_ham_clamp_differs_below). Qed.
Print Assumptions adiabatic_clamp_refuted.

Theorem adiabatic_clamp_invisible_inside : forall num den H0 H1, (0 <= num <= den)%Z ->
  ad_ham_clamped num den H0 H1 = ad_ham num den H0 H1.
Proof. exact ad_ham_clamp_inside. Qed.
Print Assumptions adiabatic_clamp_invisible_inside.

(* ---- one long-lived adiabatic Hamiltonian object: after ANY history of schedule / total-time assignments and
        queries, a query at time t returns the value for the LATEST schedule and the LATEST total time, i.e. what a
        fresh object with these two settings returns ---- *)
Theorem adiabatic_object_history : forall o pre t post,
  nth (length (ad_run o pre)) (ad_run o (pre ++ OQuery t :: post)) None
  = ad_query (last_sched (fst o) pre, last_time (snd o) pre) t.
Proof. exact ad_run_query. Qed.
Print Assumptions adiabatic_object_history.

Example adiabatic_object_history_nonvacuous :
  ad_run (None, None) [OSetSched (SPoly [0; 4; -3]%Q); OSetTime 2%Q; OQuery 1%Q; OSetSched (SPoly [0; -2; 3]%Q); OQuery 1%Q;
                       OSetTime 1%Q; OQuery (1 # 2)%Q]
  = [Some (5 # 4)%Q; Some (-1 # 4)%Q; Some (-1 # 4)%Q].
Proof. vm_compute. reflexivity. Qed.
