(* C16/Model.v : executable model of the time-evolution machinery.  No proofs here.
   Anchors (src/qibo):
     hamiltonians/terms.py     TermGroup.from_terms / can_append / to_term, HamiltonianTerm.merge
     hamiltonians/hamiltonians.py  SymbolicHamiltonian.circuit (symmetric Trotter step)
     solvers.py                Exponential, RungeKutta4, RungeKutta45
     models/evolution.py       StateEvolution.execute (nsteps = int((T - t0)/dt))            *)
From Coq Require Import ZArith List Bool Arith Floats Uint63.
From QV Require Import Base.Mat Base.Zi C15.MatDefs C15.Model.
Import ListNotations.

(* ------------------------------------------------------------------ terms and groups *)
(* HamiltonianTerm: target qubits (in the order given) and the matrix on them *)
Definition hterm := (list nat * mat Zi)%type.
Definition tlen (t : hterm) : nat := length (fst t).
Definition group := list hterm.

Definition mem (x : nat) (l : list nat) : bool := existsb (Nat.eqb x) l.
Definition subset (a b : list nat) : bool := forallb (fun x => mem x b) a.

(* TermGroup.target_qubits: union of the targets of all members *)
Definition group_targets (g : group) : list nat := flat_map fst g.
Definition can_append (g : group) (t : hterm) : bool := subset (fst t) (group_targets g).

(* from_terms, first half: `orders` dictionary iterated by decreasing order = stable sort by
   decreasing number of targets *)
Fixpoint insert_desc (t : hterm) (l : list hterm) : list hterm :=
  match l with
  | [] => [t]
  | u :: l' => if tlen u <? tlen t then t :: l else u :: insert_desc t l'
  end.
Definition ordered (ts : list hterm) : list hterm := fold_left (fun acc t => insert_desc t acc) ts [].

(* second half: every child is appended to the first group that can take it *)
Fixpoint place (t : hterm) (gs : list group) : list group :=
  match gs with
  | [] => [[t]]
  | g :: gs' => if can_append g t then (g ++ [t]) :: gs' else g :: place t gs'
  end.
Definition from_terms (ts : list hterm) : list group :=
  fold_left (fun gs t => place t gs) (ordered ts) [].

(* ------------------------------------------------------------------ merge *)
(* the `order` list of HamiltonianTerm.merge (first half) *)
Fixpoint merge_order (i : nat) (st tt : list nat) : list nat :=
  match st with
  | [] => []
  | q :: st' => match index_of q tt with
                | Some j => j :: merge_order i st' tt
                | None => i :: merge_order (S i) st' tt
                end
  end.

(* np.transpose(np.reshape(K, 2k*(2,)), order + [x + k for x in order]) reshaped back:
   axis j of the result is axis order[j] of K, so the old bit at position p is the new bit at
   the position m with order[m] = p *)
Definition oldbits (order : list nat) (k : nat) (r : list bool) : list bool :=
  map (fun p => match index_of p order with Some m => nth m r false | None => false end) (seq 0 k).
Definition transpose_axes (k : nat) (order : list nat) (K : mat Zi) : mat Zi :=
  map (fun r => map (fun c => mget ZK K (idx (oldbits order k r)) (idx (oldbits order k c)))
                    (allbits k)) (allbits k).

(* self.merge(term); None = ValueError (targets of term not a subset of the targets of self) *)
Definition merge (s t : hterm) : option hterm :=
  if subset (fst t) (fst s) then
    let k := tlen s in
    let K := kron ZK (snd t) (midentity ZK (k - tlen t)) in
    Some (fst s, madd ZK (snd s) (transpose_axes k (merge_order (tlen t) (fst s) (fst t)) K))
  else None.

(* what merge should produce: the child matrix embedded at the positions its targets have
   inside the parent's target list *)
Definition positions (st tt : list nat) : list nat :=
  map (fun q => match index_of q st with Some j => j | None => 0 end) tt.
Definition merge_spec (s t : hterm) : hterm :=
  (fst s, madd ZK (snd s) (embed ZK (tlen s) (positions (fst s) (fst t)) (snd t))).

Definition tscale (c : option Zi) (t : hterm) : hterm :=
  match c with Some c' => (fst t, mscale ZK c' (snd t)) | None => t end.

(* TermGroup.to_term(coefficients): coefficients per member (None = not in the dictionary) *)
Fixpoint scale_all (g : group) (cs : list (option Zi)) : group :=
  match g, cs with
  | t :: g', c :: cs' => tscale c t :: scale_all g' cs'
  | _, _ => g
  end.
Definition to_term_from (h : hterm) (rest : group) : option hterm :=
  fold_left (fun acc t => match acc with Some a => merge a t | None => None end) rest (Some h).
Definition to_term (g : group) (cs : list (option Zi)) : option hterm :=
  match scale_all g cs with [] => None | h :: rest => to_term_from h rest end.

(* the operator of a term / of a group on n qubits *)
Definition hterm_full (n : nat) (t : hterm) : mat Zi := embed ZK n (fst t) (snd t).
Definition group_full (n : nat) (g : group) : mat Zi := msum ZK (map (hterm_full n) g).

(* SymbolicHamiltonian.circuit(dt): one expgate(dt/2) per merged group, groups forward then
   backward.  The structure (which merged term, in which order) is what is modelled. *)
Definition trotter_seq {A} (gs : list A) : list A := gs ++ rev gs.
Definition circuit_terms (ts : list hterm) : option (list hterm) :=
  option_map trotter_seq (opt_all (map (fun g => to_term g []) (from_terms ts))).

(* ------------------------------------------------------------------ number of steps (binary64) *)
Definition fz (z : Z) : float :=
  if (z <? 0)%Z then PrimFloat.opp (of_uint63 (Uint63.of_Z (- z))) else of_uint63 (Uint63.of_Z z).
(* the float with integer mantissa m (|m| < 2^53) and exponent e:  m * 2^e  (float.hex data) *)
Definition fme (m e : Z) : float := Z.ldexp (fz m) e.
(* python int(x): truncation towards zero; None for nan / inf (ValueError / OverflowError) *)
Definition ftrunc (x : float) : option Z :=
  match Prim2SF x with
  | S754_zero _ => Some 0%Z
  | S754_finite s m e =>
      let v := if (0 <=? e)%Z then Z.shiftl (Zpos m) e else Z.shiftr (Zpos m) (- e) in
      Some (if s then (- v)%Z else v)
  | _ => None
  end.
(* python round(x) for a float: nearest integer, ties to even; None for nan / inf *)
Definition fround (x : float) : option Z :=
  match Prim2SF x with
  | S754_zero _ => Some 0%Z
  | S754_finite s m e =>
      let v :=
        if (0 <=? e)%Z then Z.shiftl (Zpos m) e
        else
          let sh := (- e)%Z in
          let q := Z.shiftr (Zpos m) sh in
          let r := (Zpos m - Z.shiftl q sh)%Z in
          let half := Z.shiftl 1 (sh - 1) in
          if (half <? r)%Z || ((half =? r)%Z && Z.odd q) then (q + 1)%Z else q in
      Some (if s then (- v)%Z else v)
  | _ => None
  end.
(* StateEvolution.execute: nsteps = int(round((final_time - start_time) / self.solver.dt)) *)
Definition nsteps (t0 T dt : float) : option Z := fround (PrimFloat.div (PrimFloat.sub T t0) dt).
(* HISTORICAL (before the repair): nsteps = int((final_time - start_time) / self.solver.dt) *)
Definition nsteps_prefix (t0 T dt : float) : option Z := ftrunc (PrimFloat.div (PrimFloat.sub T t0) dt).
(* the binary64 value of the decimal literal  x * 10^-k  (correctly rounded quotient of two exact integers) *)
Definition dec (k : nat) (x : Z) : float := PrimFloat.div (fz x) (fz (10 ^ Z.of_nat k)).

(* the loop: range(nsteps) is empty for nsteps <= 0 *)
Definition evolve {S} (step : S -> S) (n : Z) (s : S) : S := Nat.iter (Z.to_nat n) step s.
(* Exponential solver on a constant Hamiltonian: state <- propagator @ state *)
Definition exp_step (P : mat Zi) (s : mat Zi) : mat Zi := mmul ZK P s.

(* ------------------------------------------------------------------ Runge-Kutta steps *)
(* over a commutative ring given by its operations; division by a literal is multiplication by
   the inverse element supplied in the record (hypotheses p * inv_p = 1 live in the proofs).
   State, Hamiltonian, dt and the imaginary unit are ring elements: every expression is linear
   in the state and polynomial in the (constant) Hamiltonian, so this is the commutative algebra
   generated by H. *)
Record rk_ring (R : Type) := mk_rk {
  r0 : R; r1 : R; radd : R -> R -> R; rmul : R -> R -> R; ropp : R -> R;
  ri : R;                           (* imaginary unit *)
  u2 : R; u3 : R; u5 : R; u11 : R; u13 : R; u19 : R   (* inverses of the primes in the tableaux *)
}.
Arguments r0 {R}. Arguments r1 {R}. Arguments radd {R}. Arguments rmul {R}. Arguments ropp {R}.
Arguments ri {R}. Arguments u2 {R}. Arguments u3 {R}. Arguments u5 {R}. Arguments u11 {R}.
Arguments u13 {R}. Arguments u19 {R}.

Section RK.
  Context {R : Type} (K : rk_ring R).
  Notation "a + b" := (radd K a b). Notation "a * b" := (rmul K a b).
  Notation "a - b" := (radd K a (ropp K b)).
  Fixpoint rnat (n : nat) : R := match n with O => r0 K | S n' => r1 K + rnat n' end.
  Fixpoint rpos (p : positive) : R :=
    match p with
    | xH => r1 K
    | xO p' => (r1 K + r1 K) * rpos p'
    | xI p' => r1 K + (r1 K + r1 K) * rpos p'
    end.
  Definition rz (z : Z) : R :=
    match z with Z0 => r0 K | Zpos p => rpos p | Zneg p => ropp K (rpos p) end.
  Fixpoint rpow (x : R) (n : nat) : R := match n with O => r1 K | S n' => x * rpow x n' end.
  (* 1 / (2^a 3^b 5^c 11^d 13^e 19^f) *)
  Definition rinv (a b c d e f : nat) : R :=
    rpow (u2 K) a * (rpow (u3 K) b * (rpow (u5 K) c * (rpow (u11 K) d * (rpow (u13 K) e * rpow (u19 K) f)))).

  (* HISTORICAL (before the repair): the stages were evaluated with H s instead of -i H s *)
  Definition rk4_step_prefix (H dt psi : R) : R :=
    let k1 := H * psi in
    let k2 := H * (psi + dt * k1 * u2 K) in
    let k3 := H * (psi + dt * k2 * u2 K) in
    let k4 := H * (psi + dt * k3) in
    psi - ri K * dt * (k1 + rz 2 * k2 + rz 2 * k3 + k4) * rinv 1 1 0 0 0 0.
  (* solvers.RungeKutta4.__call__ for a constant Hamiltonian H: stages k = -i H (...) *)
  Definition rk4_step (H dt psi : R) : R :=
    let f := fun s => ropp K (ri K) * (H * s) in
    let k1 := f psi in
    let k2 := f (psi + dt * k1 * u2 K) in
    let k3 := f (psi + dt * k2 * u2 K) in
    let k4 := f (psi + dt * k3) in
    psi + dt * (k1 + rz 2 * k2 + rz 2 * k3 + k4) * rinv 1 1 0 0 0 0.

  (* the same with the stage Hamiltonians as separate arguments: ham1 = H(t) for k1, ham2 = H(t + dt/2)
     for k2 AND k3, ham3 = H(t + dt) for k4 (time-dependent Hamiltonians) *)
  Definition rk4_step_t (H1 H2 H3 dt psi : R) : R :=
    let f := fun h s => ropp K (ri K) * (h * s) in
    let k1 := f H1 psi in
    let k2 := f H2 (psi + dt * k1 * u2 K) in
    let k3 := f H2 (psi + dt * k2 * u2 K) in
    let k4 := f H3 (psi + dt * k3) in
    psi + dt * (k1 + rz 2 * k2 + rz 2 * k3 + k4) * rinv 1 1 0 0 0 0.

  (* sum_{j<=m} (-i x)^j / j!  psi  for a given exponent x (e.g. x = H0 * int f) *)
  Definition taylor4x (x psi : R) : R :=
    let y := ropp K (ri K) * x in
    (r1 K + y + rpow y 2 * rinv 1 0 0 0 0 0 + rpow y 3 * rinv 1 1 0 0 0 0 + rpow y 4 * rinv 3 1 0 0 0 0) * psi.

  (* sum_{j<=m} (-i dt H)^j / j!  psi *)
  Definition taylor4 (H dt psi : R) : R :=
    let x := ropp K (ri K) * dt * H in
    (r1 K + x + rpow x 2 * rinv 1 0 0 0 0 0 + rpow x 3 * rinv 1 1 0 0 0 0 + rpow x 4 * rinv 3 1 0 0 0 0) * psi.
  Definition taylor5 (H dt psi : R) : R :=
    let x := ropp K (ri K) * dt * H in
    (r1 K + x + rpow x 2 * rinv 1 0 0 0 0 0 + rpow x 3 * rinv 1 1 0 0 0 0 + rpow x 4 * rinv 3 1 0 0 0 0
     + rpow x 5 * rinv 3 1 1 0 0 0) * psi.

  (* solvers.RungeKutta45.__call__ (Fehlberg tableau, 5th-order weights) for constant H.
     216 = 2^3 3^3, 513 = 3^3 19, 4104 = 2^3 3^3 19, 2197 = 13^3, 2565 = 3^3 5 19, 40 = 2^3 5,
     135 = 3^3 5, 12825 = 3^3 5^2 19, 56430 = 2 3^3 5 11 19, 50 = 2 5^2, 55 = 5 11, 32 = 2^5, 27 = 3^3 *)
  Definition rk45_stages (f : R -> R) (dt psi : R) : R * R * R * R * R * R :=
    let k1 := f psi in
    let k2 := f (psi + dt * k1 * rinv 2 0 0 0 0 0) in
    let k3 := f (psi + dt * (rz 3 * k1 + rz 9 * k2) * rinv 5 0 0 0 0 0) in
    let k4 := f (psi + dt * (rz 1932 * k1 - rz 7200 * k2 + rz 7296 * k3) * rinv 0 0 0 0 3 0) in
    let k5 := f (psi + dt * (rz 439 * k1 * rinv 3 3 0 0 0 0 - rz 8 * k2 + rz 3680 * k3 * rinv 0 3 0 0 0 1
                             - rz 845 * k4 * rinv 3 3 0 0 0 1)) in
    let k6 := f (psi + dt * (ropp K (rz 8 * k1 * rinv 0 3 0 0 0 0) + rz 2 * k2 - rz 3544 * k3 * rinv 0 3 1 0 0 1
                             + rz 1859 * k4 * rinv 3 3 0 0 0 1 - rz 11 * k5 * rinv 3 0 1 0 0 0)) in
    (k1, k2, k3, k4, k5, k6).
  (* stage i uses its own Hamiltonian: ham1 = H(t), ham2 = H(t + dt/4), ham3 = H(t + 3dt/8),
     ham4 = H(t + 12dt/13), ham5 = H(t + dt), ham6 = H(t + dt/2) *)
  Definition rk45_stages_t (H1 H2 H3 H4 H5 H6 : R) (dt psi : R) : R * R * R * R * R * R :=
    let f := fun h s => ropp K (ri K) * (h * s) in
    let k1 := f H1 psi in
    let k2 := f H2 (psi + dt * k1 * rinv 2 0 0 0 0 0) in
    let k3 := f H3 (psi + dt * (rz 3 * k1 + rz 9 * k2) * rinv 5 0 0 0 0 0) in
    let k4 := f H4 (psi + dt * (rz 1932 * k1 - rz 7200 * k2 + rz 7296 * k3) * rinv 0 0 0 0 3 0) in
    let k5 := f H5 (psi + dt * (rz 439 * k1 * rinv 3 3 0 0 0 0 - rz 8 * k2 + rz 3680 * k3 * rinv 0 3 0 0 0 1
                                - rz 845 * k4 * rinv 3 3 0 0 0 1)) in
    let k6 := f H6 (psi + dt * (ropp K (rz 8 * k1 * rinv 0 3 0 0 0 0) + rz 2 * k2 - rz 3544 * k3 * rinv 0 3 1 0 0 1
                                + rz 1859 * k4 * rinv 3 3 0 0 0 1 - rz 11 * k5 * rinv 3 0 1 0 0 0)) in
    (k1, k2, k3, k4, k5, k6).
  Definition rk45_weights (ks : R * R * R * R * R * R) : R :=
    let '(k1, k2, k3, k4, k5, k6) := ks in
    rz 16 * k1 * rinv 0 3 1 0 0 0 + rz 6656 * k3 * rinv 0 3 2 0 0 1 + rz 28561 * k4 * rinv 1 3 1 1 0 1
    - rz 9 * k5 * rinv 1 0 2 0 0 0 + rz 2 * k6 * rinv 0 0 1 1 0 0.
  Definition rk45_step_prefix (H dt psi : R) : R :=
    psi - ri K * dt * rk45_weights (rk45_stages (fun s => H * s) dt psi).
  Definition rk45_step_t (H1 H2 H3 H4 H5 H6 dt psi : R) : R :=
    psi + dt * rk45_weights (rk45_stages_t H1 H2 H3 H4 H5 H6 dt psi).
  Definition rk45_step (H dt psi : R) : R :=
    psi + dt * rk45_weights (rk45_stages (fun s => ropp K (ri K) * (H * s)) dt psi).
End RK.

(* the tableau literals as data, compared with the literals parsed from solvers.py on every run:
   (numerator, denominator) lists *)
Definition rk4_tableau : list (Z * Z) := [(1, 2); (1, 2); (1, 1); (1, 6); (2, 6); (2, 6); (1, 6)]%Z.
(* times (as fractions of dt after t) at which the stage Hamiltonians ham2, ham3, ... are evaluated *)
Definition rk4_nodes : list (Z * Z) := [(1, 2); (1, 1)]%Z.
Definition rk45_nodes : list (Z * Z) := [(1, 4); (3, 8); (12, 13); (1, 1); (1, 2)]%Z.
Definition rk45_tableau : list (list (Z * Z)) :=
  [[(1, 4)];
   [(3, 32); (9, 32)];
   [(1932, 2197); (-7200, 2197); (7296, 2197)];
   [(439, 216); (-8, 1); (3680, 513); (-845, 4104)];
   [(-8, 27); (2, 1); (-3544, 2565); (1859, 4104); (-11, 40)];
   [(16, 135); (0, 1); (6656, 12825); (28561, 56430); (-9, 50); (2, 55)]]%Z.

(* ------------------------------------------------------------------ helpers for generated files *)
Definition zterm (qs : list Z) (M : mat Zi) : hterm := (nats qs, M).
Definition hterm_eqb (a b : hterm) : bool := list_eqb Nat.eqb (fst a) (fst b) && meqb (snd a) (snd b).
Definition ohterm_eqb (a : option hterm) (b : option hterm) : bool :=
  match a, b with Some x, Some y => hterm_eqb x y | None, None => true | _, _ => false end.
Definition groups_eqb (a b : list group) : bool := list_eqb (list_eqb hterm_eqb) a b.
Definition ozeqb (a : option Z) (b : option Z) : bool :=
  match a, b with Some x, Some y => (x =? y)%Z | None, None => true | _, _ => false end.

(* Gaussian rationals (pairs of Q, compared with Qeq) as an executable instance of rk_ring, used by
   the correspondence run to evaluate the Runge-Kutta models at rational points *)
From Coq Require Import QArith Qround.
Definition GQ := (Q * Q)%type.
Definition gq_add (x y : GQ) : GQ := (Qred (fst x + fst y), Qred (snd x + snd y))%Q.
Definition gq_mul (x y : GQ) : GQ :=
  (Qred (fst x * fst y - snd x * snd y), Qred (fst x * snd y + snd x * fst y))%Q.
Definition gq_opp (x : GQ) : GQ := (Qred (- fst x), Qred (- snd x))%Q.
Definition gq_of (q : Q) : GQ := (Qred q, 0%Q).
Definition gq_eqb (x y : GQ) : bool := Qeq_bool (fst x) (fst y) && Qeq_bool (snd x) (snd y).
Definition gq_ring : rk_ring GQ :=
  mk_rk GQ (gq_of 0) (gq_of 1) gq_add gq_mul gq_opp (0%Q, 1%Q)
        (gq_of (1 # 2)) (gq_of (1 # 3)) (gq_of (1 # 5)) (gq_of (1 # 11)) (gq_of (1 # 13)) (gq_of (1 # 19)).

(* ------------------------------------------------------------------ repeated executions (histories) *)
(* exact rational times: the correspondence uses dyadic dt, T, t0, for which the float arithmetic of
   `self.t += self.dt` and `t / total_time` is exact *)
Definition qsteps (t0 T dt : Q) : nat := Z.to_nat (Qfloor ((T - t0) / dt + (1 # 2))).   (* round, no ties in the tests *)
Definition qtime (t0 dt : Q) (j : nat) : Q := Qred (t0 + inject_Z (Z.of_nat j) * dt).
(* times at which the solver evaluates its Hamiltonian callable during StateEvolution.execute:
   `self.solver.t = start_time` evaluates at t0; every step evaluates the stage times and, through
   `self.t += self.dt`, the new time *)
Definition exp_eval_times (t0 T dt : Q) : list Q :=
  qtime t0 dt 0 :: map (fun j => qtime t0 dt j) (seq 1 (qsteps t0 T dt)).
Definition rk4_eval_times (t0 T dt : Q) : list Q :=
  qtime t0 dt 0 :: flat_map (fun j => [Qred (qtime t0 dt j + dt * (1 # 2)); qtime t0 dt (S j); qtime t0 dt (S j)])
                            (seq 0 (qsteps t0 T dt)).
(* the object state that matters across executions: hamiltonian.total_time *)
Definition ad_state := option Q.
(* AdiabaticEvolution.execute(final_time): total_time := final_time (start_time must be 0); the schedule
   is called with t / total_time at every evaluation time t <> 0 (at t = 0 h0 is returned directly) *)
Definition ad_execute (st : ad_state) (T : Q) (times : list Q) : ad_state * list Q :=
  (Some T, map (fun t => Qred (t / T)) (filter (fun t => negb (Qeq_bool t 0)) times)).
Fixpoint ad_history (st : ad_state) (runs : list (Q * list Q)) : list (list Q) :=
  match runs with
  | [] => []
  | (T, times) :: rest => let '(st', args) := ad_execute st T times in args :: ad_history st' rest
  end.
(* HISTORICAL shape of the seeded defect class: total_time only set when it is None *)
Definition ad_execute_stale (st : ad_state) (T : Q) (times : list Q) : ad_state * list Q :=
  let T' := match st with Some T0 => T0 | None => T end in
  (Some T', map (fun t => Qred (t / T')) (filter (fun t => negb (Qeq_bool t 0)) times)).
Definition qlist_eqb (a b : list Q) : bool := list_eqb Qeq_bool a b.
(* TrotterizedExponential on an adiabatic Hamiltonian: circuit(dt, t) at the step time, then the setter *)
Definition trotter_eval_times (t0 T dt : Q) : list Q :=
  qtime t0 dt 0 :: flat_map (fun j => [qtime t0 dt j; qtime t0 dt (S j)]) (seq 0 (qsteps t0 T dt)).

(* ------------------------------------------------------------------ StateEvolution.execute as a trace of operations *)
(* calculate_callbacks(state); for each step: state = solver(state); if callbacks: normalize, callbacks;
   finally state = normalize_state(state) (the identity for non-RK solvers, state / ||state|| for rk4 / rk45) *)
Inductive xop := XCb | XStep | XNorm.
Definition xop_eqb (a b : xop) : bool :=
  match a, b with XCb, XCb | XStep, XStep | XNorm, XNorm => true | _, _ => false end.
Definition execute_trace (callbacks : bool) (n : nat) : list xop :=
  XCb :: concat (repeat (XStep :: (if callbacks then [XNorm; XCb] else [])) n) ++ [XNorm].

(* ------------------------------------------------------------------ adiabatic interpolation *)
(* BaseAdiabaticHamiltonian.__call__(t): h0 * (1 - st) + h1 * st with st = schedule(t / total_time).
   For st = num / den the matrix times den, over the (Gaussian) integers *)
Definition ad_ham (num den : Z) (H0 H1 : mat Zi) : mat Zi :=
  madd ZK (mscale ZK ((den - num)%Z, 0%Z) H0) (mscale ZK (num, 0%Z) H1).
(* polynomial schedules s(x) = x^p used by the correspondence *)
Definition sched_pow (p : nat) (x : Q) : Q := Qred (Qpower x (Z.of_nat p)).
(* SymbolicAdiabaticHamiltonian.circuit(dt, t): coefficients {h0: 1 - st, h1: st} *)
Definition ad_coeffs (p : nat) (x : Q) : list Q := [Qred (1 - sched_pow p x); sched_pow p x].
