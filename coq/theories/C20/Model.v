(* C20/Model.v : executable models of the gate-list generators of qibo's library circuits
   (models/qft.py, models/encodings.py).  No proofs here.

   QFT, comp_basis_encoder, ghz_state, phase_encoder, unary_encoder / _generate_rbs_pairs (tree and
   diagonal), _get_markers / _get_next_bistring / _ehrlich_algorithm, the gate skeleton of
   hamming_weight_encoder, the control structure of _binary_encoder_hopf.
   Angles that are computed from data (acos / arctan2 / norms) are NOT modelled here; the structure
   (which gate, which qubits, which parameter index) is. *)
From Coq Require Import List Bool Arith Lia.
Import ListNotations.

(* ------------------------------------------------------------------ QFT *)
Inductive qgate :=
| QH (q : nat)
| QCU1 (c t k : nat)        (* gates.CU1(c, t, pi / 2^k) *)
| QSWAP (a b : nat).

Definition qft_block (n i1 : nat) : list qgate :=
  QH i1 :: map (fun i2 => QCU1 i2 i1 (i2 - i1)) (seq (S i1) (n - S i1)).

Definition qft (n : nat) (with_swaps : bool) : list qgate :=
  flat_map (qft_block n) (seq 0 n) ++
  (if with_swaps then map (fun i => QSWAP i (n - i - 1)) (seq 0 (n / 2)) else []).

Definition qcode (g : qgate) : nat * list nat * nat :=
  match g with QH q => (0, [q], 0) | QCU1 c t k => (1, [c; t], k) | QSWAP a b => (2, [a; b], 0) end.

(* ------------------------------------------------------------------ basis-state semantics *)
Definition bits := list bool.

Fixpoint flip (q : nat) (s : bits) : bits :=
  match s, q with
  | [], _ => []
  | b :: s', O => negb b :: s'
  | b :: s', S q' => b :: flip q' s'
  end.

Definition cnot (c t : nat) (s : bits) : bits := if nth c s false then flip t s else s.

(* comp_basis_encoder: X on every position holding a 1 *)
Fixpoint ones_from (i : nat) (b : bits) : list nat :=
  match b with
  | [] => []
  | x :: b' => (if x then [i] else []) ++ ones_from (S i) b'
  end.
Definition comp_basis (b : bits) : list nat := ones_from 0 b.     (* qubits of the X gates, in order *)
Definition run_x (gs : list nat) (s : bits) : bits := fold_left (fun s q => flip q s) gs s.

(* f"{x:0{n}b}" for x < 2^n: big-endian, n digits *)
Fixpoint bits_of_nat (n x : nat) : bits :=
  match n with
  | O => []
  | S n' => bits_of_nat n' (x / 2) ++ [Nat.odd x]
  end.

(* ghz_state: H(0), CNOT(q, q+1) for q < n-1.  After H on |0..0> the state is the equal superposition
   (amplitude 1/sqrt2 each) of the two basis labels  00..0  and  10..0 ; CNOTs permute basis labels. *)
Definition ghz_cnots (n : nat) : list (nat * nat) := map (fun q => (q, S q)) (seq 0 (n - 1)).
Definition h0_branches (n : nat) : list bits := [repeat false n; flip 0 (repeat false n)].
Definition run_cnots (gs : list (nat * nat)) (s : bits) : bits :=
  fold_left (fun s g => cnot (fst g) (snd g) s) gs s.
Definition ghz_branches (n : nat) : list bits := map (run_cnots (ghz_cnots n)) (h0_branches n).

(* ------------------------------------------------------------------ unary encoder: RBS pairs *)
(* diagonal: one pair per row: (n-1-i, n-2-i) *)
Definition rbs_pairs_diagonal (n : nat) : list (nat * nat) :=
  map (fun i => (n - 1 - i, n - 1 - S i)) (seq 0 (n - 1)).

(* tree (n a power of two): row d (d = 1..log2 n) pairs (idx, idx + n/2^d) for idx in the indexes of
   the previous row (flattened), then mirrored q -> n-1-q *)
Fixpoint tree_rows (fuel : nat) (n step : nat) (indexes : list nat) : list (list (nat * nat)) :=
  match fuel with
  | O => []
  | S f =>
      if Nat.eqb step 0 then []
      else let row := map (fun i => (i, i + step)) indexes in
           row :: tree_rows f n (step / 2) (flat_map (fun p => [fst p; snd p]) row)
  end.
Definition rbs_rows_tree (n : nat) : list (list (nat * nat)) :=
  map (map (fun p => (n - 1 - fst p, n - 1 - snd p))) (tree_rows n n (n / 2) [0]).
Definition rbs_pairs_tree (n : nat) : list (nat * nat) := concat (rbs_rows_tree n).

(* ------------------------------------------------------------------ Ehrlich walk *)
Fixpoint take_while {A} (p : A -> bool) (l : list A) : list A :=
  match l with [] => [] | x :: l' => if p x then x :: take_while p l' else [] end.

(* _get_markers(bitstring, last_run=True) as a membership vector: the maximal suffix of positions
   carrying the value of the last position *)
Definition suffix_run (s : bits) : list bool :=
  let n := length s in
  let cnt := length (take_while (Bool.eqb (last s false)) (rev s)) in
  repeat false (n - cnt) ++ repeat true cnt.
(* last_run=False: the complement *)
Definition markers0 (s : bits) : list bool := map negb (suffix_run s).

Fixpoint positions (v : bool) (i : nat) (s : bits) : list nat :=
  match s with [] => [] | b :: s' => (if Bool.eqb b v then [i] else []) ++ positions v (S i) s' end.

Fixpoint max_true (i : nat) (m : list bool) : option nat :=
  match m with
  | [] => None
  | b :: m' => match max_true (S i) m' with Some j => Some j | None => if b then Some i else None end
  end.

Fixpoint set_nth {A} (i : nat) (v : A) (l : list A) : list A :=
  match l, i with
  | [], _ => []
  | _ :: l', O => v :: l'
  | x :: l', S i' => x :: set_nth i' v l'
  end.

Definition last_opt {A} (l : list A) : option A := match rev l with [] => None | x :: _ => Some x end.

Fixpoint zip_or (a b : list bool) : list bool :=
  match a, b with x :: a', y :: b' => (x || y) :: zip_or a' b' | _, _ => [] end.

Record estep := mkE { e_string : bits; e_markers : list bool; e_out : nat; e_in : nat; e_controls : list nat }.

(* _get_next_bistring; None = the real code raises (IndexError) or returns early (empty markers) *)
Definition next_bitstring (s : bits) (markers : list bool) : option estep :=
  match max_true 0 markers with
  | None => None
  | Some mx =>
      let n := length s in
      let ones := positions true 0 s in
      let zeros := positions false 0 s in
      let nearest_one := hd_error (filter (fun i => mx <? i) ones) in
      let new :=
        match nth mx s false, nearest_one with
        | false, Some o => Some (set_nth o false (set_nth mx true s))
        | _, _ =>
            let fz := filter (fun i => (mx <? i) && match nearest_one with Some o => i <? o | None => true end) zeros in
            match last_opt fz with
            | None => None
            | Some z => Some (set_nth z true (set_nth mx false s))
            end
        end in
      match new with
      | None => None
      | Some s' =>
          let lastrun := suffix_run s' in
          let add := map (fun i => (mx <? i) && negb (nth i lastrun false)) (seq 0 n) in
          let markers' := zip_or (set_nth mx false markers) add in
          let new_ones := positions true 0 s' in
          let controls := filter (fun i => existsb (Nat.eqb i) new_ones) ones in
          match filter (fun i => negb (nth i s' false)) ones, filter (fun i => negb (nth i s false)) new_ones with
          | o :: _, i :: _ => Some (mkE s' markers' o i controls)
          | _, _ => None
          end
      end
  end.

Fixpoint binom (n k : nat) : nat :=
  match n, k with
  | _, O => 1
  | O, S _ => 0
  | S n', S k' => binom n' k' + binom n' k
  end.

Fixpoint walk (fuel : nat) (s : bits) (markers : list bool) : option (list estep) :=
  match fuel with
  | O => Some []
  | S f => match next_bitstring s markers with
           | None => None
           | Some e => option_map (cons e) (walk f (e_string e) (e_markers e))
           end
  end.

Definition weight (s : bits) : nat := length (filter (fun b => b) s).

(* _ehrlich_algorithm(initial_string): the bit strings visited (as arrays, index 0 first; the real
   code reports them reversed, as text) and the (out, in, controls) triple of every move *)
Definition ehrlich (s0 : bits) : option (list bits * list (nat * nat * list nat)) :=
  let k := weight s0 in
  let n := length s0 in
  if (Nat.eqb k 0) || (Nat.eqb k n) then Some ([s0], [])
  else option_map (fun es => (s0 :: map e_string es, map (fun e => (e_out e, e_in e, e_controls e)) es))
                  (walk (binom n k - 1) s0 (markers0 s0)).

Definition initial_string (n k : nat) : bits := repeat true k ++ repeat false (n - k).

(* ------------------------------------------------------------------ hamming_weight_encoder: gate skeleton *)
(* per move: RBS(in = last-t0, out = last-t1) controlled by the (mirrored, sorted) controls that survive
   optimize_controls: control number j (ascending) is kept from move number binom(n-j', k-j')-1 on *)
Fixpoint insert_sorted (x : nat) (l : list nat) : list nat :=
  match l with [] => [x] | y :: l' => if x <=? y then x :: l else y :: insert_sorted x l' end.
Definition sort (l : list nat) : list nat := fold_right insert_sorted [] l.

Fixpoint mask {A} (m : list bool) (l : list A) : list A :=
  match m, l with b :: m', x :: l' => (if b then [x] else []) ++ mask m' l' | _, _ => [] end.

Definition hw_indices (n k : nat) : list nat :=
  map (fun j => binom (n - j) (k - j) - 1) (rev (seq 1 (k - 1))).

Definition hw_gates (n k : nat) (optimize : bool) (s0 : bits) : option (list (nat * nat * list nat)) :=
  option_map (fun r =>
    map (fun km : nat * (nat * nat * list nat) =>
           let '(o, i, cs) := snd km in
           let last := n - 1 in
           let cs' := sort (map (fun c => last - c) cs) in
           (last - o, last - i,
            if optimize then mask (map (fun ind => ind <=? fst km) (hw_indices n k)) cs' else cs'))
        (combine (seq 0 (length (snd r))) (snd r)))
    (ehrlich s0).

(* the X gates preparing the first string: range(last, last - k, -1) *)
Definition hw_x_gates (n k : nat) : list nat := map (fun j => n - 1 - j) (seq 0 k).

(* strings of weight k as integers (text reversed = big-endian), rank in sorted order = data index *)
Definition int_of_string (s : bits) : nat :=   (* int(''.join(string[::-1]), 2) *)
  fold_left (fun (acc : nat) (b : bool) => 2 * acc + (if b then 1 else 0)) (rev s) 0.

(* ------------------------------------------------------------------ binary_encoder: gate skeletons *)
(* codes: (0,[q]) = X(q);  (1, target :: sorted controls) = RY(target).controlled_by(controls) *)
(* _binary_encoder_hopf: level lvl (target qubit lvl) has 2^lvl gates, one per value j of the qubits above;
   qubits above holding 1 are controls, qubits above holding 0 and ALL qubits below are anticontrols
   (X before and after) *)
Definition hopf_gate (n lvl j : nat) : list (nat * list nat) :=
  let up := bits_of_nat lvl j in
  let anti := positions false 0 up ++ seq (S lvl) (n - S lvl) in
  let ctrl := positions true 0 up in
  map (fun q => (0, [q])) anti ++ [(1, lvl :: sort (ctrl ++ anti))] ++ map (fun q => (0, [q])) anti.
Definition hopf_skeleton (n : nat) : list (nat * list nat) :=
  flat_map (fun lvl => flat_map (hopf_gate n lvl) (seq 0 (2 ^ lvl))) (seq 0 n).

(* _binary_encoder_hyperspherical (real data): RY(last); for weight w = 1..n-1 the Hamming-weight
   encoder started at the current initial string (full_hwp, controls not optimised), then the
   intermediate gate RY(index).controlled_by(ones of the last string of the block), where index is the
   first 0 of the last string (text order = big-endian) if w is even and its last 0 if w is odd; the
   next block starts from that string with position index set to 1.
   codes: (2, in :: out :: sorted controls) = RBS(in, out).controlled_by(controls) *)
Definition text_of (s : bits) : bits := rev s.        (* array (index 0 first) -> text / qubit order *)

Fixpoint hyper_blocks (fuel : nat) (n w : nat) (init : bits) : option (list (nat * list nat)) :=
  match fuel with
  | O => Some []
  | S f =>
      match ehrlich init, hw_gates n w false init with
      | Some (strs, _), Some gs =>
          let lasttxt := text_of (last strs []) in
          let controls := positions true 0 lasttxt in
          let zeros := positions false 0 lasttxt in
          match (if Nat.even w then hd_error zeros else last_opt zeros) with
          | None => None
          | Some index =>
              let init' := rev (set_nth index true lasttxt) in
              option_map (fun rest =>
                            map (fun g : nat * nat * list nat => let '(a, b, cs) := g in (2, a :: b :: cs)) gs
                            ++ [(1, index :: controls)] ++ rest)
                         (hyper_blocks f n (S w) init')
          end
      | _, _ => None
      end
  end.

Definition hyper_skeleton (n : nat) : option (list (nat * list nat)) :=
  option_map (cons (1, [n - 1])) (hyper_blocks (n - 1) n 1 (true :: repeat false (n - 1))).

(* ------------------------------------------------------------------ QFT: product-state semantics *)
(* A register whose qubits are UNENTANGLED, each either a basis state |b> or
   (|0> + e^{2 pi i num / 2^n} |1>)/sqrt2  (num is read modulo 2^n).  Textbook action of the gates on such
   product states (None = the rule does not apply, e.g. a control that is not a basis state):
     H |b>                      = (|0> + (-1)^b |1>)/sqrt2             : num = b 2^(n-1)
     CU1(c,t,pi/2^k), |b_c>|phi> : the |1> component of t gets e^{i pi b_c / 2^k} : num += b_c 2^(n-1-k)
     SWAP                       : exchanges the two qubit states *)
Inductive qstate := QB (b : bool) | QP (num : nat).
Definition qst := nat -> qstate.
Definition b2n (b : bool) : nat := if b then 1 else 0.
Definition upd (f : qst) (q : nat) (v : qstate) : qst := fun p => if Nat.eqb p q then v else f p.

Definition pstep (n : nat) (f : qst) (g : qgate) : option qst :=
  match g with
  | QH q => match f q with QB b => Some (upd f q (QP (b2n b * 2 ^ (n - 1)))) | _ => None end
  | QCU1 c t k =>
      match f c, f t with
      | QB bc, QP num => if k <? n then Some (upd f t (QP (num + b2n bc * 2 ^ (n - 1 - k)))) else None
      | _, _ => None
      end
  | QSWAP a b => Some (upd (upd f a (f b)) b (f a))
  end.

Definition prun (n : nat) (gs : list qgate) (f : qst) : option qst :=
  fold_left (fun o g => match o with Some s => pstep n s g | None => None end) gs (Some f).

Definition qinit (x : bits) : qst := fun q => QB (nth q x false).

(* 2^n times the binary fraction 0.x_q x_{q+1} ... x_{n-1} *)
Definition qphase (n : nat) (x : bits) (q : nat) : nat :=
  list_sum (map (fun c => b2n (nth c x false) * 2 ^ (n - 1 - (c - q))) (seq q (n - q))).

(* ------------------------------------------------------------------ entangling_layer: the qubit pairs per architecture *)
Inductive arch := ADiagonal | AEven | AOdd | AShifted | ANextNearest | APyramid | AV | AX.

Definition nn_pairs (n : nat) : list (nat * nat) := map (fun q => (q, S q)) (seq 0 (n - 1)).   (* (q, q+1), q < n-1 *)
Definition evens (m : nat) : list nat := filter Nat.even (seq 0 m).
Definition odds (m : nat) : list nat := filter Nat.odd (seq 0 m).

(* closed_boundary adds gate(n-1, 0); it is ignored by pyramid / v / x *)
Definition ent_pairs (a : arch) (n : nat) (closed : bool) : list (nat * nat) :=
  let P := nn_pairs n in
  let bd := if closed then [(n - 1, 0)] else [] in
  match a with
  | ADiagonal => P ++ bd
  | AEven => map (fun q => (q, S q)) (evens (n - 1)) ++ bd
  | AOdd => map (fun q => (q, S q)) (odds (n - 1)) ++ bd
  | AShifted => map (fun q => (q, S q)) (evens (n - 1) ++ odds (n - 1)) ++ bd
  | ANextNearest => map (fun q => (q, S (S q))) (seq 0 (n - 2)) ++ bd
  | APyramid => P ++ flat_map (fun k => firstn (n - 1 - k) P) (seq 1 (n - 2))
  | AV => P ++ tl (rev P)
  | AX => let len := n - 1 in let mid := len / 2 in
          flat_map (fun i => [nth i P (0, 0); nth (len - 1 - i) P (0, 0)]) (seq 0 mid)
          ++ [nth mid P (0, 0)]
          ++ flat_map (fun i => [nth (mid - 1 - i) P (0, 0); nth (len - mid + i) P (0, 0)]) (seq 0 mid)
  end.

(* ------------------------------------------------------------------ phase_encoder: one rotation per qubit carrying data[q] *)
Definition phase_gates {D} (data : list D) : list (nat * D) := combine (seq 0 (length data)) data.
