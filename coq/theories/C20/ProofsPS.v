(* C20/ProofsPS.v : the product-state rules of Model.v ([pstep]: H / CU1 / SWAP on unentangled
   registers) AGREE WITH THE MATRIX SEMANTICS of Base/Mat.v: the 2^n x 2^n matrix [embed n qs M]
   applied (Mat.mmul) to the column vector of a product state is the column vector of the product
   state the rule predicts.  Everything is over an arbitrary commutative ring T (Mat.ops built from
   its operations); the instance for the QFT is in the last section. *)
From Coq Require Import List Bool Arith Lia Ring.
From QV Require Import Base.Mat C20.Model.
Import ListNotations.

Section PS.
  Variables (T : Type) (t0 t1 : T) (tadd tmul tsub : T -> T -> T) (topp : T -> T).
  Hypothesis Tring : ring_theory t0 t1 tadd tmul tsub topp (@eq T).
  Add Ring TR : Tring.
  Definition KT : ops T := mkops T t0 t1 tadd tmul.

  Notation "a +' b" := (tadd a b) (at level 50, left associativity).
  Notation "a *' b" := (tmul a b) (at level 40, left associativity).

  (* ---------------------------------------------------------------- sums over all bit strings *)
  Definition tsum (l : list T) : T := fold_right tadd t0 l.
  Definition bsum (n : nat) (F : list bool -> T) : T := tsum (map F (allbits n)).

  Lemma tsum_app a b : tsum (a ++ b) = tsum a +' tsum b.
  Proof. induction a as [|x a IH]; simpl; [ring | rewrite IH; ring]. Qed.

  Lemma bsum_S n F : bsum (S n) F = bsum n (fun c => F (false :: c)) +' bsum n (fun c => F (true :: c)).
  Proof. unfold bsum. simpl. now rewrite map_app, tsum_app, !map_map. Qed.

  Lemma bsum_ext n F G : (forall c, length c = n -> F c = G c) -> bsum n F = bsum n G.
  Proof.
    revert F G. induction n as [|n IH]; intros F G H.
    - unfold bsum. simpl. now rewrite (H [] eq_refl).
    - rewrite !bsum_S. f_equal; apply IH; intros c Hc; apply H; simpl; now rewrite Hc.
  Qed.

  Lemma bsum_S_ext n F G0 G1 :
    (forall c, length c = n -> F (false :: c) = G0 c) ->
    (forall c, length c = n -> F (true :: c) = G1 c) ->
    bsum (S n) F = bsum n G0 +' bsum n G1.
  Proof. intros H0 H1. rewrite bsum_S. f_equal; now apply bsum_ext. Qed.

  Lemma bsum_scale n k F : bsum n (fun c => k *' F c) = k *' bsum n F.
  Proof.
    revert F. induction n as [|n IH]; intros F.
    - unfold bsum. simpl. ring.
    - rewrite !bsum_S, !IH. ring.
  Qed.

  Lemma bsum_zero n : bsum n (fun _ => t0) = t0.
  Proof. induction n as [|n IH]; [unfold bsum; simpl; ring | rewrite bsum_S, IH; ring]. Qed.

  (* sum against a delta *)
  Lemma bsum_delta : forall n r F, length r = n ->
    bsum n (fun c => (if beqb r c then F c else t0)) = F r.
  Proof.
    induction n as [|n IH]; intros r F H.
    - destruct r; [|discriminate]. unfold bsum. simpl. ring.
    - destruct r as [|x r]; [discriminate|]. injection H as H. rewrite bsum_S.
      destruct x; simpl.
      + rewrite bsum_zero, (IH r (fun c => F (true :: c)) H). ring.
      + rewrite bsum_zero, (IH r (fun c => F (false :: c)) H). ring.
  Qed.

  (* ---------------------------------------------------------------- matrix times column vector *)
  Definition col (v : list T) : mat T := map (fun x => [x]) v.
  Fixpoint vdot (r v : list T) : T :=
    match r, v with x :: r', y :: v' => x *' y +' vdot r' v' | _, _ => t0 end.

  Lemma rowmul_col : forall r v, length r = length v -> r <> [] -> rowmul KT r (col v) = [vdot r v].
  Proof.
    induction r as [|x r IH]; intros v H NE; [congruence|].
    destruct v as [|y v]; [discriminate|]. injection H as H. simpl.
    destruct r as [|x2 r].
    - destruct v; [|discriminate]. simpl. f_equal. ring.
    - rewrite (IH v H ltac:(discriminate)). simpl. reflexivity.
  Qed.

  Lemma vdot_map {A} (h f : A -> T) l : vdot (map h l) (map f l) = tsum (map (fun c => h c *' f c) l).
  Proof. induction l as [|a l IH]; simpl; [reflexivity | now rewrite IH]. Qed.

  Lemma allbits_length n : length (allbits n) = 2 ^ n.
  Proof. induction n as [|n IH]; simpl; [reflexivity|]. rewrite app_length, !map_length, IH. lia. Qed.

  Lemma allbits_nonempty n : allbits n <> [].
  Proof. intros E. pose proof (allbits_length n) as L. rewrite E in L. simpl in L. pose proof (Nat.pow_nonzero 2 n). lia. Qed.

  Lemma allbits_len n c : In c (allbits n) -> length c = n.
  Proof.
    revert c. induction n as [|n IH]; intros c H; simpl in H.
    - destruct H as [<-|[]]. reflexivity.
    - apply in_app_or in H as [H|H]; apply in_map_iff in H as [c' [<- H]]; simpl; f_equal; now apply IH.
  Qed.

  (* the vector of a function of bit strings *)
  Definition bvec (n : nat) (f : list bool -> T) : list T := map f (allbits n).

  (* [embed n qs M] times the column of f, entry by entry *)
  Lemma embed_col n qs M f :
    mmul KT (embed KT n qs M) (col (bvec n f)) =
    col (bvec n (fun r => bsum n (fun c =>
           (if agree_off qs r c then mget KT M (idx (sel qs r)) (idx (sel qs c)) else t0) *' f c))).
  Proof.
    unfold mmul, embed. rewrite map_map.
    match goal with |- _ = col (bvec n ?G) => change (col (bvec n G)) with (map (fun x => [x]) (map G (allbits n))) end.
    rewrite map_map. apply map_ext. intros r.
    rewrite rowmul_col.
    - f_equal. unfold bsum, bvec. now rewrite vdot_map.
    - unfold bvec. now rewrite !map_length.
    - intros E. apply map_eq_nil in E. now apply allbits_nonempty in E.
  Qed.

  (* ---------------------------------------------------------------- product states *)
  Notation amp := (T * T)%type.      (* amplitudes of |0> and |1> of one qubit *)
  Definition pick (a : amp) (b : bool) : T := if b then snd a else fst a.
  Fixpoint den (amps : list amp) (c : list bool) : T :=
    match amps, c with
    | a :: amps', b :: c' => pick a b *' den amps' c'
    | [], [] => t1
    | _, _ => t0
    end.
  Definition pvec (n : nat) (amps : list amp) : list T := bvec n (den amps).

  (* linearity in one factor *)
  Lemma den_hole : forall k amps r u, k < length amps -> length r = length amps ->
    den (set_nth k (u, u) amps) r = u *' den (set_nth k (t1, t1) amps) r.
  Proof.
    induction k as [|k IH]; intros [|a amps] [|x r] u H L; simpl in *; try lia; try discriminate.
    - destruct x; simpl; ring.
    - rewrite (IH amps r u) by lia. ring.
  Qed.

  (* a factor only matters at the bit it is evaluated on *)
  Lemma den_at : forall k amps r a a', k < length amps -> length r = length amps ->
    pick a (nth k r false) = pick a' (nth k r false) ->
    den (set_nth k a amps) r = den (set_nth k a' amps) r.
  Proof.
    induction k as [|k IH]; intros [|b amps] [|x r] a a' H L E; simpl in *; try lia; try discriminate.
    - now rewrite E.
    - f_equal. apply IH; try lia. exact E.
  Qed.

  Lemma set_nth_same {A} : forall k (l : list A) d, k < length l -> set_nth k (nth k l d) l = l.
  Proof. induction k as [|k IH]; intros [|x l] d H; simpl in *; try lia; [reflexivity | f_equal; apply IH; lia]. Qed.

  Lemma set_nth_length {A} : forall k (l : list A) v, length (set_nth k v l) = length l.
  Proof. induction k as [|k IH]; intros [|x l] v; simpl; auto. Qed.

  (* ---------------------------------------------------------------- agree_off on suffixes *)
  (* once every listed qubit is behind the offset, agreement is equality *)
  Lemma agree_past : forall r c i qs, (forall q, In q qs -> q < i) ->
    agree_off_from i qs r c = beqb r c.
  Proof.
    induction r as [|x r IH]; intros [|y c] i qs H; simpl; try reflexivity.
    assert (E : existsb (Nat.eqb i) qs = false).
    { destruct (existsb (Nat.eqb i) qs) eqn:E; [|reflexivity].
      apply existsb_exists in E as [q [Hq E]]. apply Nat.eqb_eq in E. subst. specialize (H _ Hq). lia. }
    rewrite E. f_equal. apply IH. intros q Hq. specialize (H q Hq). lia.
  Qed.

  (* only the membership of positions >= offset matters *)
  Lemma agree_cong : forall r c i qs qs',
    (forall p, i <= p -> existsb (Nat.eqb p) qs = existsb (Nat.eqb p) qs') ->
    agree_off_from i qs r c = agree_off_from i qs' r c.
  Proof.
    induction r as [|x r IH]; intros [|y c] i qs qs' H; simpl; try reflexivity.
    rewrite (H i (le_n i)). f_equal. apply IH. intros p Hp. apply H. lia.
  Qed.

  (* ---------------------------------------------------------------- one free qubit *)
  Lemma sum_one : forall m i q (W : bool -> T) r amps,
    length r = m -> length amps = m -> i <= q < i + m ->
    bsum m (fun c => (if agree_off_from i [q] r c then W (nth (q - i) c false) else t0) *' den amps c)
    = den (set_nth (q - i) (let a := nth (q - i) amps (t0, t0) in
                            let s := W false *' fst a +' W true *' snd a in (s, s)) amps) r.
  Proof.
    induction m as [|m IH]; intros i q W r amps Lr La Hq; [lia|].
    destruct r as [|x r]; [discriminate|]. destruct amps as [|a amps]; [discriminate|].
    injection Lr as Lr. injection La as La.
    destruct (Nat.eq_dec i q) as [->|Ne].
    - (* the free qubit is here *)
      rewrite Nat.sub_diag. cbn [nth set_nth].
      rewrite (bsum_S_ext m _ (fun c => if beqb r c then W false *' fst a *' den amps c else t0)
                              (fun c => if beqb r c then W true *' snd a *' den amps c else t0)).
      + rewrite !bsum_delta by exact Lr. simpl. destruct x; simpl; ring.
      + intros c Hc. cbn [agree_off_from existsb]. rewrite Nat.eqb_refl. cbn [orb andb].
        rewrite (agree_past r c (S q) [q]) by (intros p [<-|[]]; lia).
        simpl. destruct (beqb r c); ring.
      + intros c Hc. cbn [agree_off_from existsb]. rewrite Nat.eqb_refl. cbn [orb andb].
        rewrite (agree_past r c (S q) [q]) by (intros p [<-|[]]; lia).
        simpl. destruct (beqb r c); ring.
    - (* an ordinary position: the bit must agree *)
      replace (q - i) with (S (q - S i)) by lia. cbn [nth set_nth].
      pose (G := fun c => (if agree_off_from (S i) [q] r c then W (nth (q - S i) c false) else t0) *' den amps c).
      assert (EG : bsum m G = den (set_nth (q - S i)
                     (let a0 := nth (q - S i) amps (t0, t0) in
                      let s := W false *' fst a0 +' W true *' snd a0 in (s, s)) amps) r)
        by (apply (IH (S i) q W r amps Lr La); lia).
      assert (NEq : (i =? q) = false) by now apply Nat.eqb_neq.
      destruct x.
      + rewrite (bsum_S_ext m _ (fun _ => t0) (fun c => snd a *' G c)).
        * rewrite bsum_zero, bsum_scale, EG. simpl. ring.
        * intros c Hc. cbn [agree_off_from existsb]. rewrite NEq. simpl. ring.
        * intros c Hc. cbn [agree_off_from existsb]. rewrite NEq. unfold G. simpl.
          destruct (agree_off_from (S i) [q] r c); ring.
      + rewrite (bsum_S_ext m _ (fun c => fst a *' G c) (fun _ => t0)).
        * rewrite bsum_zero, bsum_scale, EG. simpl. ring.
        * intros c Hc. cbn [agree_off_from existsb]. rewrite NEq. unfold G. simpl.
          destruct (agree_off_from (S i) [q] r c); ring.
        * intros c Hc. cbn [agree_off_from existsb]. rewrite NEq. simpl. ring.
  Qed.
  (* ---------------------------------------------------------------- two free qubits *)
  Definition sum4 (W : bool -> bool -> T) (A B : amp) : T :=
    W false false *' fst A *' fst B +' W false true *' fst A *' snd B +'
    W true false *' snd A *' fst B +' W true true *' snd A *' snd B.

  Lemma pick_one x : pick (t1, t1) x = t1.
  Proof. now destruct x. Qed.

  Lemma sum_two : forall m i a b (W : bool -> bool -> T) r amps,
    length r = m -> length amps = m -> a <> b -> i <= a < i + m -> i <= b < i + m ->
    bsum m (fun c => (if agree_off_from i [a; b] r c
                      then W (nth (a - i) c false) (nth (b - i) c false) else t0) *' den amps c)
    = sum4 W (nth (a - i) amps (t0, t0)) (nth (b - i) amps (t0, t0)) *'
      den (set_nth (a - i) (t1, t1) (set_nth (b - i) (t1, t1) amps)) r.
  Proof.
    induction m as [|m IH]; intros i a b W r amps Lr La Nab Ha Hb; [lia|].
    destruct r as [|x r]; [discriminate|]. destruct amps as [|A0 amps]; [discriminate|].
    injection Lr as Lr. injection La as La.
    destruct (Nat.eq_dec i a) as [->|Na]; [|destruct (Nat.eq_dec i b) as [->|Nb]].
    - (* qubit a is here; what remains has the single free qubit b *)
      rewrite Nat.sub_diag. replace (b - a) with (S (b - S a)) by lia. cbn [nth set_nth].
      pose (G := fun (y : bool) c => (if agree_off_from (S a) [b] r c then W y (nth (b - S a) c false) else t0) *' den amps c).
      assert (EG : forall y, bsum m (G y) =
                   (W y false *' fst (nth (b - S a) amps (t0, t0)) +' W y true *' snd (nth (b - S a) amps (t0, t0))) *'
                   den (set_nth (b - S a) (t1, t1) amps) r).
      { intros y. unfold G. rewrite (sum_one m (S a) b (W y) r amps Lr La) by lia.
        cbv zeta. rewrite den_hole; [reflexivity | lia | lia]. }
      rewrite (bsum_S_ext m _ (fun c => fst A0 *' G false c) (fun c => snd A0 *' G true c)).
      + rewrite !bsum_scale, !EG. unfold sum4. simpl. rewrite pick_one. ring.
      + intros c Hc. cbn [agree_off_from existsb]. rewrite Nat.eqb_refl. cbn [orb andb].
        rewrite (agree_cong r c (S a) [a; b] [b]).
        * unfold G. simpl. destruct (agree_off_from (S a) [b] r c); ring.
        * intros p Hp. simpl. replace (p =? a) with false by (symmetry; apply Nat.eqb_neq; lia). reflexivity.
      + intros c Hc. cbn [agree_off_from existsb]. rewrite Nat.eqb_refl. cbn [orb andb].
        rewrite (agree_cong r c (S a) [a; b] [b]).
        * unfold G. simpl. destruct (agree_off_from (S a) [b] r c); ring.
        * intros p Hp. simpl. replace (p =? a) with false by (symmetry; apply Nat.eqb_neq; lia). reflexivity.
    - (* qubit b is here; what remains has the single free qubit a *)
      rewrite Nat.sub_diag. replace (a - b) with (S (a - S b)) by lia. cbn [nth set_nth].
      pose (G := fun (z : bool) c => (if agree_off_from (S b) [a] r c then W (nth (a - S b) c false) z else t0) *' den amps c).
      assert (EG : forall z, bsum m (G z) =
                   (W false z *' fst (nth (a - S b) amps (t0, t0)) +' W true z *' snd (nth (a - S b) amps (t0, t0))) *'
                   den (set_nth (a - S b) (t1, t1) amps) r).
      { intros z. unfold G. rewrite (sum_one m (S b) a (fun y => W y z) r amps Lr La) by lia.
        cbv zeta. rewrite den_hole; [reflexivity | lia | lia]. }
      rewrite (bsum_S_ext m _ (fun c => fst A0 *' G false c) (fun c => snd A0 *' G true c)).
      + rewrite !bsum_scale, !EG. unfold sum4. simpl. rewrite pick_one. ring.
      + intros c Hc. cbn [agree_off_from existsb]. rewrite Nat.eqb_refl. cbn [orb andb].
        replace (b =? a) with false by (symmetry; apply Nat.eqb_neq; lia). cbn [orb].
        rewrite (agree_cong r c (S b) [a; b] [a]).
        * unfold G. simpl. destruct (agree_off_from (S b) [a] r c); ring.
        * intros p Hp. simpl. replace (p =? b) with false by (symmetry; apply Nat.eqb_neq; lia).
          destruct (p =? a); reflexivity.
      + intros c Hc. cbn [agree_off_from existsb]. rewrite Nat.eqb_refl. cbn [orb andb].
        replace (b =? a) with false by (symmetry; apply Nat.eqb_neq; lia). cbn [orb].
        rewrite (agree_cong r c (S b) [a; b] [a]).
        * unfold G. simpl. destruct (agree_off_from (S b) [a] r c); ring.
        * intros p Hp. simpl. replace (p =? b) with false by (symmetry; apply Nat.eqb_neq; lia).
          destruct (p =? a); reflexivity.
    - (* an ordinary position *)
      replace (a - i) with (S (a - S i)) by lia. replace (b - i) with (S (b - S i)) by lia. cbn [nth set_nth].
      pose (G := fun c => (if agree_off_from (S i) [a; b] r c
                           then W (nth (a - S i) c false) (nth (b - S i) c false) else t0) *' den amps c).
      assert (EG : bsum m G = sum4 W (nth (a - S i) amps (t0, t0)) (nth (b - S i) amps (t0, t0)) *'
                              den (set_nth (a - S i) (t1, t1) (set_nth (b - S i) (t1, t1) amps)) r)
        by (apply (IH (S i) a b W r amps Lr La Nab); lia).
      assert (NE : existsb (Nat.eqb i) [a; b] = false).
      { simpl. replace (i =? a) with false by (symmetry; now apply Nat.eqb_neq).
        replace (i =? b) with false by (symmetry; now apply Nat.eqb_neq). reflexivity. }
      destruct x.
      + rewrite (bsum_S_ext m _ (fun _ => t0) (fun c => snd A0 *' G c)).
        * rewrite bsum_zero, bsum_scale, EG. simpl. ring.
        * intros c Hc. cbn [agree_off_from]. rewrite NE. simpl. ring.
        * intros c Hc. cbn [agree_off_from]. rewrite NE. unfold G. simpl.
          destruct (agree_off_from (S i) [a; b] r c); ring.
      + rewrite (bsum_S_ext m _ (fun c => fst A0 *' G c) (fun _ => t0)).
        * rewrite bsum_zero, bsum_scale, EG. simpl. ring.
        * intros c Hc. cbn [agree_off_from]. rewrite NE. unfold G. simpl.
          destruct (agree_off_from (S i) [a; b] r c); ring.
        * intros c Hc. cbn [agree_off_from]. rewrite NE. simpl. ring.
  Qed.
  (* ---------------------------------------------------------------- holes *)
  Lemma den_pull : forall k amps r U, k < length amps -> length r = length amps ->
    den (set_nth k U amps) r = pick U (nth k r false) *' den (set_nth k (t1, t1) amps) r.
  Proof.
    induction k as [|k IH]; intros [|a amps] [|x r] U H L; simpl in *; try lia; try discriminate.
    - rewrite pick_one. ring.
    - rewrite (IH amps r U) by lia. ring.
  Qed.

  Lemma set_nth_comm {A} : forall a b (l : list A) u v, a <> b ->
    set_nth a u (set_nth b v l) = set_nth b v (set_nth a u l).
  Proof.
    induction a as [|a IH]; intros [|b] [|x l] u v H; simpl; try reflexivity; try lia.
    f_equal. apply IH. lia.
  Qed.

  Lemma bvec_ext n F G : (forall r, length r = n -> F r = G r) -> bvec n F = bvec n G.
  Proof. intros H. unfold bvec. apply map_ext_in. intros r Hr. apply H. now apply allbits_len. Qed.

  Lemma idx1 b : idx [b] = if b then 1 else 0.
  Proof. now destruct b. Qed.
  Lemma idx2 y z : idx [y; z] = (if y then 2 else 0) + (if z then 1 else 0).
  Proof. now destruct y, z. Qed.

  (* ---------------------------------------------------------------- single-qubit gate on a product state *)
  Theorem embed1_product n q (m00 m01 m10 m11 : T) amps :
    q < n -> length amps = n ->
    let a := nth q amps (t0, t0) in
    mmul KT (embed KT n [q] [[m00; m01]; [m10; m11]]) (col (pvec n amps)) =
    col (pvec n (set_nth q (m00 *' fst a +' m01 *' snd a, m10 *' fst a +' m11 *' snd a) amps)).
  Proof.
    intros Hq La a. unfold pvec. rewrite embed_col. f_equal. apply bvec_ext. intros r Lr.
    unfold agree_off.
    pose (W := fun b : bool => mget KT [[m00; m01]; [m10; m11]] (idx (sel [q] r)) (idx [b])).
    transitivity (bsum n (fun c => (if agree_off_from 0 [q] r c then W (nth (q - 0) c false) else t0) *' den amps c)).
    { apply bsum_ext. intros c Lc. unfold W, sel. simpl map. now rewrite Nat.sub_0_r. }
    rewrite (sum_one n 0 q W r amps Lr La) by lia. rewrite Nat.sub_0_r. cbv zeta. fold a. unfold W.
    apply den_at; try (lia).
    unfold sel. simpl map. rewrite !idx1. destruct (nth q r false); reflexivity.
  Qed.

  (* ---------------------------------------------------------------- two-qubit gate on a product state, entry by entry *)
  Lemma embed2_entry n a b M amps r :
    a <> b -> a < n -> b < n -> length amps = n -> length r = n ->
    bsum n (fun c => (if agree_off [a; b] r c then mget KT M (idx (sel [a; b] r)) (idx (sel [a; b] c)) else t0) *' den amps c)
    = sum4 (fun y z => mget KT M (idx (sel [a; b] r)) (idx [y; z])) (nth a amps (t0, t0)) (nth b amps (t0, t0)) *'
      den (set_nth a (t1, t1) (set_nth b (t1, t1) amps)) r.
  Proof.
    intros Nab Ha Hb La Lr. unfold agree_off.
    pose (W := fun y z : bool => mget KT M (idx (sel [a; b] r)) (idx [y; z])).
    transitivity (bsum n (fun c => (if agree_off_from 0 [a; b] r c
                                    then W (nth (a - 0) c false) (nth (b - 0) c false) else t0) *' den amps c)).
    { apply bsum_ext. intros c Lc. unfold W. unfold sel at 2. simpl map. now rewrite !Nat.sub_0_r. }
    rewrite (sum_two n 0 a b W r amps Lr La Nab) by lia. now rewrite !Nat.sub_0_r.
  Qed.

  Definition swapM : mat T :=
    [[t1; t0; t0; t0]; [t0; t0; t1; t0]; [t0; t1; t0; t0]; [t0; t0; t0; t1]].
  Definition cphaseM (phi : T) : mat T :=
    [[t1; t0; t0; t0]; [t0; t1; t0; t0]; [t0; t0; t1; t0]; [t0; t0; t0; phi]].

  Lemma den_two_holes a b U V amps r :
    a <> b -> a < length amps -> b < length amps -> length r = length amps ->
    den (set_nth a U (set_nth b V amps)) r =
    pick U (nth a r false) *' pick V (nth b r false) *' den (set_nth a (t1, t1) (set_nth b (t1, t1) amps)) r.
  Proof.
    intros Nab Ha Hb L.
    rewrite den_pull by (rewrite ?set_nth_length; assumption).
    rewrite (set_nth_comm a b amps (t1, t1) V Nab).
    rewrite den_pull by (rewrite ?set_nth_length; assumption).
    rewrite (set_nth_comm b a amps (t1, t1) (t1, t1)) by auto. ring.
  Qed.

  Theorem swap_product n a b amps :
    a <> b -> a < n -> b < n -> length amps = n ->
    mmul KT (embed KT n [a; b] swapM) (col (pvec n amps)) =
    col (pvec n (set_nth a (nth b amps (t0, t0)) (set_nth b (nth a amps (t0, t0)) amps))).
  Proof.
    intros Nab Ha Hb La. unfold pvec. rewrite embed_col. f_equal. apply bvec_ext. intros r Lr.
    rewrite (embed2_entry n a b swapM amps r Nab Ha Hb La Lr).
    rewrite (den_two_holes a b (nth b amps (t0, t0)) (nth a amps (t0, t0)) amps r) by lia.
    unfold sel. simpl map. rewrite idx2. unfold sum4. rewrite !idx2.
    destruct (nth a r false), (nth b r false); unfold mget, swapM, KT; simpl; ring.
  Qed.

  (* controlled phase with the control in a basis state: only the |1> amplitude of the target changes *)
  Theorem cphase_product n c t phi (bc : bool) amps :
    c <> t -> c < n -> t < n -> length amps = n ->
    nth c amps (t0, t0) = (if bc then (t0, t1) else (t1, t0)) ->
    let B := nth t amps (t0, t0) in
    mmul KT (embed KT n [c; t] (cphaseM phi)) (col (pvec n amps)) =
    col (pvec n (set_nth t (fst B, snd B *' (if bc then phi else t1)) amps)).
  Proof.
    intros Nct Hc Ht La EA B. unfold pvec. rewrite embed_col. f_equal. apply bvec_ext. intros r Lr.
    rewrite (embed2_entry n c t (cphaseM phi) amps r Nct Hc Ht La Lr).
    assert (E : set_nth t (fst B, snd B *' (if bc then phi else t1)) amps =
                set_nth c (nth c amps (t0, t0)) (set_nth t (fst B, snd B *' (if bc then phi else t1)) amps)).
    { rewrite set_nth_comm by auto. rewrite set_nth_same by (lia). reflexivity. }
    rewrite E. rewrite (den_two_holes c t (nth c amps (t0, t0)) (fst B, snd B *' (if bc then phi else t1)) amps r) by lia.
    unfold sel. simpl map. rewrite idx2. unfold sum4. rewrite !idx2. fold B. rewrite EA.
    destruct bc, (nth c r false), (nth t r false); unfold mget, cphaseM, KT; simpl; ring.
  Qed.
  (* ================================================================ pstep is sound for the matrix semantics *)
  Section Rules.
    Variables (h : T) (e : nat -> T) (n : nat).
    Hypothesis e_0 : e 0 = t1.
    Hypothesis e_add : forall x y, e (x + y) = e x *' e y.
    Hypothesis e_half : e (2 ^ (n - 1)) = topp t1.

    (* |b>  and  h (|0> + e(num) |1>) *)
    Definition amp_of (s : qstate) : amp :=
      match s with QB b => if b then (t0, t1) else (t1, t0) | QP u => (h, h *' e u) end.
    Definition amps_of (f : qst) : list amp := map (fun q => amp_of (f q)) (seq 0 n).

    (* the matrices of the gates: H = h [[1,1],[1,-1]], CU1(pi/2^k) = diag(1,1,1,e(2^(n-1-k))), SWAP *)
    Definition gate_mat (g : qgate) : mat T :=
      match g with
      | QH q => embed KT n [q] [[h; h]; [h; topp h]]
      | QCU1 c t k => embed KT n [c; t] (cphaseM (e (2 ^ (n - 1 - k))))
      | QSWAP a b => embed KT n [a; b] swapM
      end.
    Definition wf_gate (g : qgate) : Prop :=
      match g with
      | QH q => q < n
      | QCU1 c t _ => c <> t /\ c < n /\ t < n
      | QSWAP a b => a <> b /\ a < n /\ b < n
      end.

    Lemma amps_of_length f : length (amps_of f) = n.
    Proof. unfold amps_of. now rewrite map_length, seq_length. Qed.

    Lemma amps_of_nth f q : q < n -> nth q (amps_of f) (t0, t0) = amp_of (f q).
    Proof.
      intros H. unfold amps_of.
      rewrite (nth_indep _ (t0, t0) (amp_of (f 0))) by (now rewrite map_length, seq_length).
      change (amp_of (f 0)) with ((fun q => amp_of (f q)) 0). rewrite map_nth.
      now rewrite seq_nth.
    Qed.

    Lemma set_nth_map_seq {A} (F : nat -> A) v : forall m k q, q < m ->
      set_nth q v (map F (seq k m)) = map (fun p => if p =? k + q then v else F p) (seq k m).
    Proof.
      induction m as [|m IH]; intros k q H; [lia|]. destruct q as [|q]; simpl.
      - rewrite Nat.add_0_r, Nat.eqb_refl. f_equal. apply map_ext_in. intros p Hp. apply in_seq in Hp.
        replace (p =? k) with false by (symmetry; apply Nat.eqb_neq; lia). reflexivity.
      - replace (k =? k + S q) with false by (symmetry; apply Nat.eqb_neq; lia). f_equal.
        rewrite (IH (S k) q) by lia. apply map_ext. intros p. now replace (S k + q) with (k + S q) by lia.
    Qed.

    Lemma amps_of_upd f q v : q < n -> amps_of (upd f q v) = set_nth q (amp_of v) (amps_of f).
    Proof.
      intros H. unfold amps_of. rewrite set_nth_map_seq by exact H. apply map_ext. intros p.
      unfold upd. simpl. now destruct (p =? q).
    Qed.

    Theorem pstep_sound f g f' :
      wf_gate g -> pstep n f g = Some f' ->
      mmul KT (gate_mat g) (col (pvec n (amps_of f))) = col (pvec n (amps_of f')).
    Proof.
      destruct g as [q|c t k|a b]; simpl; intros W P.
      - destruct (f q) as [b|] eqn:Fq; [|discriminate]. injection P as <-.
        rewrite embed1_product by (rewrite ?amps_of_length; auto). cbv zeta.
        rewrite amps_of_upd, amps_of_nth, Fq by exact W. do 3 f_equal.
        destruct b; simpl.
        + rewrite Nat.add_0_r, e_half. f_equal; ring.
        + rewrite e_0. f_equal; ring.
      - destruct W as [Nct [Hc Ht]].
        destruct (f c) as [bc|] eqn:Fc; [|discriminate]. destruct (f t) as [|num] eqn:Ft; [discriminate|].
        destruct (k <? n); [|discriminate]. injection P as <-.
        rewrite (cphase_product n c t _ bc) by (rewrite ?amps_of_length, ?amps_of_nth, ?Fc; auto; now destruct bc).
        cbv zeta. rewrite amps_of_upd, amps_of_nth, Ft by exact Ht. do 3 f_equal. simpl. f_equal.
        destruct bc; simpl.
        + rewrite Nat.add_0_r, e_add. ring.
        + rewrite Nat.add_0_r. ring.
      - destruct W as [Nab [Ha Hb]]. injection P as <-.
        rewrite swap_product by (rewrite ?amps_of_length; auto).
        rewrite !amps_of_upd, !amps_of_nth by assumption. now rewrite set_nth_comm by auto.
    Qed.

    (* state-vector simulation with the Base/Mat.v matrices: apply the gate matrices one after the other *)
    Definition apply_gates (gs : list qgate) (v : mat T) : mat T :=
      fold_left (fun v g => mmul KT (gate_mat g) v) gs v.

    Theorem prun_sound : forall gs f f',
      Forall wf_gate gs -> prun n gs f = Some f' ->
      apply_gates gs (col (pvec n (amps_of f))) = col (pvec n (amps_of f')).
    Proof.
      induction gs as [|g gs IH]; intros f f' W P.
      - injection P as <-. reflexivity.
      - inversion W as [|? ? Wg Wgs]; subst. unfold prun in P. simpl in P.
        destruct (pstep n f g) as [f1|] eqn:E.
        + simpl. rewrite (pstep_sound f g f1 Wg E). apply IH; assumption.
        + exfalso. clear -P. induction gs as [|g' gs IHg]; simpl in P; [discriminate | auto].
    Qed.

    (* a basis column and a column of phases as product states *)
    Lemma den_basis : forall (x c : list bool), length c = length x ->
      den (map (fun b : bool => if b then (t0, t1) else (t1, t0)) x) c = if beqb x c then t1 else t0.
    Proof.
      induction x as [|b x IH]; intros [|y c] L; try discriminate; simpl; [reflexivity|].
      injection L as L. rewrite (IH c L). destruct b, y; simpl; destruct (beqb x c); ring.
    Qed.

    Fixpoint tpow (a : T) (k : nat) : T := match k with O => t1 | S k' => a *' tpow a k' end.

    Lemma den_phases : forall (ps : list nat) (y : list bool), length y = length ps ->
      den (map (fun p => (h, h *' e p)) ps) y =
      tpow h (length ps) *' e (list_sum (map (fun yp => b2n (fst yp) * snd yp) (combine y ps))).
    Proof.
      induction ps as [|p ps IH]; intros [|b y] L; try discriminate; simpl.
      - rewrite e_0. ring.
      - injection L as L. rewrite (IH y L), e_add. destruct b; simpl.
        + rewrite Nat.add_0_r. ring.
        + rewrite e_0. ring.
    Qed.
  End Rules.
End PS.
