(* C20/ProofsHWOpt4.v : hamming_weight_encoder for ALL n and k with the control sets the code emits
   (Model.hw_gates = mirror, sort, optimisation mask), both optimize_controls settings: hw_ok n k opt = true. *)
From Coq Require Import List Bool Arith Lia.
From QV Require Import C20.Model C20.Proofs C20.ProofsEhrlich C20.ProofsEhrlichG1 C20.ProofsEhrlichG2
                       C20.ProofsEhrlichG3 C20.ProofsEhrlichG4 C20.ProofsEhrlichG5 C20.ProofsHW C20.ProofsHWAll
                       C20.ProofsHWOpt1 C20.ProofsHWOpt2 C20.ProofsHWOpt3.
Import ListNotations.

Definition sel_ctrls (n w : nat) (opt : bool) (idx : nat) (e : estep) : list nat :=
  if opt then skipn (Jk n w idx) (e_controls e) else e_controls e.

Lemma combine_map_r {A B C} (g : B -> C) (l : list A) (es : list B) :
  combine l (map g es) = map (fun ie => (fst ie, g (snd ie))) (combine l es).
Proof.
  revert l. induction es as [|e es IH]; intros [|x l]; simpl; try reflexivity. now rewrite IH.
Qed.

Lemma in_combine_seq {A} (es : list A) : forall k i e, In (i, e) (combine (seq k (length es)) es) -> nth_error es (i - k) = Some e /\ k <= i.
Proof.
  induction es as [|x es IH]; intros k i e H; simpl in H; [destruct H|].
  destruct H as [H|H].
  - injection H as <- <-. rewrite Nat.sub_diag. now split.
  - destruct (IH (S k) i e H) as [H1 H2]. split; [|lia]. replace (i - k) with (S (i - S k)) by lia. exact H1.
Qed.

Lemma nth_error_string (s : bits) es i e : nth_error es i = Some e -> nth (S i) (s :: map e_string es) [] = e_string e.
Proof.
  intros H. simpl. revert i H. induction es as [|x es IH]; intros [|i] H; simpl in *; try discriminate.
  - now injection H as <-.
  - now apply IH.
Qed.

Lemma In_firstn_nth {A} (l : list A) d : forall i t, In t (firstn i l) -> exists i', i' < i /\ i' < length l /\ nth i' l d = t.
Proof.
  induction l as [|x l IH]; intros [|i] t H; simpl in H; try destruct H.
  - exists 0. simpl. repeat split; try lia. exact H.
  - destruct (IH i t H) as [i' [H1 [H2 H3]]]. exists (S i'). simpl. repeat split; try lia. exact H3.
Qed.

Section Step.
  Variables (w a : nat).
  Let n := w + a.
  Let s0 := cf 0 w a.
  Hypothesis Hw : 1 <= w.
  Hypothesis Ha : 1 <= a.
  Variable es : list estep.
  Hypothesis W : walk (binom n w - 1) s0 (markers0 s0) = Some es.

  Let strs := s0 :: map e_string es.

  Lemma step_facts i e : nth_error es i = Some e ->
    exists M', next_bitstring (nth i strs []) M' = Some e /\
      length (nth i strs []) = n /\ weight (nth i strs []) = w.
  Proof.
    intros H. destruct (walk_nth _ _ _ _ i e W H) as [M' NB]. exists M'. split; [exact NB|].
    pose proof (walk_chain _ _ _ _ W) as Ch. pose proof (chain_weights es s0 Ch) as F.
    assert (L0 : length s0 = n /\ weight s0 = w) by (unfold s0, n; now rewrite cf_length, cf_weight).
    destruct i as [|i]; [exact L0|].
    assert (Hi : nth_error es i <> None).
    { intros C. apply nth_error_None in C. assert (nth_error es (S i) = None) by (apply nth_error_None; lia). congruence. }
    destruct (nth_error es i) as [e'|] eqn:E'; [|congruence].
    unfold strs. rewrite (nth_error_string s0 es i e' E').
    rewrite Forall_forall in F. destruct (F e' (nth_error_In _ _ E')) as [A B]. lia.
  Qed.

  (* the dropped controls are prefix positions, on which all loaded strings carry ones *)
  Lemma dropped_ok i e : nth_error es i = Some e ->
    forall t, In t (firstn i strs) -> forall p, In p (e_controls e) -> ~ In p (sel_ctrls n w true i e) ->
    nth p t false = true.
  Proof.
    intros H t Ht p Hp Np. unfold sel_ctrls in Np. set (J := Jk n w i) in *.
    destruct (step_facts i e H) as [M' [NB [Ln Wn]]].
    destruct (controls_facts _ _ _ NB) as [SA [CB CL]].
    destruct (Jk_spec n w i ltac:(unfold n; lia) (w - 1) ltac:(lia)) as [JN [JS _]]. fold (Jk n w i) in JN, JS. fold J in JN, JS.
    destruct (Nat.eq_dec J 0) as [J0|J0]; [rewrite J0 in Np; simpl in Np; contradiction|].
    assert (IJ : i < Iidx n w J) by (apply Nat.ltb_lt; apply JS; lia).
    unfold Iidx in IJ.
    assert (PB : forall i', i' <= S i -> forall q, q < J -> nth q (nth i' strs []) false = true).
    { intros i' Hi' q Hq. apply (prefix_block w a J es ltac:(lia) W i'); [fold n; lia | exact Hq]. }
    (* the first J controls are 0 .. J-1 *)
    assert (C0 : forall q, 0 <= q < 0 + J -> In q (e_controls e)).
    { intros q Hq. apply (controls_In _ _ _ q NB). repeat split.
      - lia.
      - apply PB; lia.
      - unfold strs in PB. rewrite <- (nth_error_string s0 es i e H). apply PB; lia. }
    assert (LB0 : forall y, In y (e_controls e) -> 0 <= y) by (intros; lia).
    destruct (sasc_prefix J (e_controls e) 0 SA LB0 C0) as [F1 _].
    assert (In p (firstn J (e_controls e))).
    { rewrite <- (firstn_skipn J (e_controls e)) in Hp. apply in_app_or in Hp as [Hp|Hp]; [exact Hp | contradiction]. }
    rewrite F1 in H0. apply in_seq in H0.
    destruct (In_firstn_nth strs [] i t Ht) as [i' [A1 [A2 <-]]]. apply PB; lia.
  Qed.

  (* the emitted control list is the mirror of the selected array controls *)
  Lemma emitted_ctrls (opt : bool) i e : nth_error es i = Some e ->
    (if opt then mask (map (fun ind => ind <=? i) (hw_indices n w)) (sort (map (fun c => n - 1 - c) (e_controls e)))
     else sort (map (fun c => n - 1 - c) (e_controls e)))
    = rev (map (mir n) (sel_ctrls n w opt i e)).
  Proof.
    intros H. destruct (step_facts i e H) as [M' [NB [Ln Wn]]].
    destruct (controls_facts _ _ _ NB) as [SA [CB CL]]. rewrite Ln in CB. rewrite Wn in CL.
    assert (SD : sort (map (fun c => n - 1 - c) (e_controls e)) = rev (map (mir n) (e_controls e))).
    { apply sort_sdesc. apply map_mirror_sdesc; assumption. }
    unfold sel_ctrls. destruct opt; [|exact SD].
    rewrite SD. set (J := Jk n w i).
    destruct (Jk_spec n w i ltac:(unfold n; lia) (w - 1) ltac:(lia)) as [JN [_ MS]]. fold (Jk n w i) in JN, MS. fold J in JN, MS.
    rewrite hw_indices_eq, map_map. rewrite MS.
    rewrite <- (firstn_skipn J (e_controls e)) at 1. rewrite map_app, rev_app_distr.
    apply mask_app.
    - rewrite rev_length, map_length, skipn_length. lia.
    - rewrite rev_length, map_length, firstn_length. lia.
  Qed.
End Step.

Theorem hw_ok_all' w a (opt : bool) : 1 <= w -> 1 <= a -> hw_ok (w + a) w opt = true.
Proof.
  intros Hw Ha.
  destruct (markers0_ok (cf 0 w a)) as [LM OK]. rewrite cf_length in LM.
  destruct (main_all (w + a) 0 w a eq_refl [] (markers0 (cf 0 w a)) LM OK) as [es [W [_ [F [ND _]]]]].
  simpl app in *.
  assert (E0 : initial_string (w + a) w = cf 0 w a).
  { unfold initial_string, cf. simpl. do 2 f_equal. lia. }
  assert (Eh : ehrlich (cf 0 w a) = Some (cf 0 w a :: map e_string es, map (fun e => (e_out e, e_in e, e_controls e)) es)).
  { unfold ehrlich. rewrite cf_weight, cf_length. simpl "+".
    replace ((w =? 0) || (w =? w + a)) with false.
    - rewrite W. reflexivity.
    - symmetry. apply orb_false_iff. split; apply Nat.eqb_neq; lia. }
  unfold hw_ok, hw_texts, hw_cgates, hw_gates. rewrite E0, Eh. cbn [option_map fst snd].
  rewrite map_length, combine_map_r, !map_map.
  rewrite (map_ext_in _ (fun ie => mgate (w + a) (mkCG (e_out (snd ie)) (e_in (snd ie)) (sel_ctrls (w + a) w opt (fst ie) (snd ie))))).
  2:{ intros [i e] Hin. apply in_combine_seq in Hin as [Hi _]. rewrite Nat.sub_0_r in Hi.
      cbn [fst snd]. unfold mgate, mir. cbn [g_in g_out g_ctrls]. f_equal.
      exact (emitted_ctrls w a Hw Ha es W opt i e Hi). }
  rewrite <- (map_map (fun ie => mkCG (e_out (snd ie)) (e_in (snd ie)) (sel_ctrls (w + a) w opt (fst ie) (snd ie))) (mgate (w + a))).
  apply (chain_ok_mir (w + a) _ _ []).
  - intros t [].
  - apply Forall_forall. intros g Hg. apply in_map_iff in Hg as [[i e] [<- Hin]].
    apply in_combine_seq in Hin as [Hi _]. rewrite Nat.sub_0_r in Hi. cbn [fst snd g_ctrls].
    destruct (step_facts w a Hw Ha es W i e Hi) as [M' [NB [Ln _]]].
    destruct (controls_facts _ _ _ NB) as [_ [CB _]]. rewrite Ln in CB.
    intros c Hc. apply CB. unfold sel_ctrls in Hc. destruct opt; [|exact Hc].
    rewrite <- (firstn_skipn (Jk (w + a) w i) (e_controls e)). apply in_or_app. now right.
  - apply (chain_ok_sel (w + a) w (sel_ctrls (w + a) w opt) (binom (w + a) w - 1) (cf 0 w a) (markers0 (cf 0 w a)) es [] 0 W).
    + apply cf_length.
    + apply cf_weight.
    + intros t [].
    + exact ND.
    + intros i e Hi. simpl "+". split.
      * unfold sel_ctrls. destruct opt; [|apply incl_refl].
        intros c Hc. rewrite <- (firstn_skipn (Jk (w + a) w i) (e_controls e)). apply in_or_app. now right.
      * cbn [app]. destruct opt.
        -- apply (dropped_ok w a Hw Ha es W i e Hi).
        -- intros t _ p Hp Np. unfold sel_ctrls in Np. contradiction.
Qed.

Theorem hw_ok_all n w opt : 1 <= w < n -> hw_ok n w opt = true.
Proof.
  intros H. replace n with (w + (n - w)) by lia. apply hw_ok_all'; lia.
Qed.
