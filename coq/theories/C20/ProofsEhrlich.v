(* C20/ProofsEhrlich.v : the LOCAL half of ehrlich_enumerates for ALL n and ALL initial strings:
   whenever _get_next_bistring returns a string, it is the previous one with exactly one 1 and one 0
   exchanged (so weight and length are preserved, Hamming distance 2), and the reported (out, in)
   positions are that transposition.  Hence every walk of the model consists of weight-k strings, each
   obtained from its predecessor by one transposition.
   NOT proved here (bounded in Proofs.v, n <= 10): that the walk visits every weight-k string once. *)
From Coq Require Import List Bool Arith Lia.
From QV Require Import C20.Model.
Import ListNotations.

Lemma set_nth_len {A} : forall k (l : list A) v, length (set_nth k v l) = length l.
Proof. induction k as [|k IH]; intros [|x l] v; simpl; auto. Qed.

Lemma nth_set_nth {A} : forall k (l : list A) v p d, k < length l ->
  nth p (set_nth k v l) d = if Nat.eqb p k then v else nth p l d.
Proof.
  induction k as [|k IH]; intros [|x l] v p d H; simpl in *; try lia.
  - destruct p; reflexivity.
  - destruct p; [reflexivity|]. rewrite IH by lia. reflexivity.
Qed.

Lemma positions_In v : forall s i p,
  In p (positions v i s) <-> (i <= p < i + length s /\ nth (p - i) s (negb v) = v).
Proof.
  induction s as [|b s IH]; intros i p; simpl.
  - split; [intros [] | intros [H _]; lia].
  - rewrite in_app_iff, IH. split.
    + intros [H|[H1 H2]].
      * destruct (Bool.eqb b v) eqn:E; [|destruct H]. destruct H as [<-|[]].
        rewrite Nat.sub_diag. split; [lia|]. now apply eqb_prop.
      * split; [lia|]. replace (p - i) with (S (p - S i)) by lia. exact H2.
    + intros [H1 H2]. destruct (Nat.eq_dec p i) as [->|Ne].
      * left. rewrite Nat.sub_diag in H2. subst b. rewrite eqb_reflx. now left.
      * right. split; [lia|]. replace (p - i) with (S (p - S i)) in H2 by lia. exact H2.
Qed.

Lemma positions_true s p : In p (positions true 0 s) <-> (p < length s /\ nth p s false = true).
Proof. rewrite positions_In, Nat.sub_0_r. simpl. split; intros [H1 H2]; (split; [lia | exact H2]). Qed.

Lemma positions_false s p : In p (positions false 0 s) <-> (p < length s /\ nth p s false = false).
Proof.
  rewrite positions_In, Nat.sub_0_r. simpl. split; intros [H1 H2]; (split; [lia|]).
  - rewrite (nth_indep s false true) by lia. exact H2.
  - rewrite (nth_indep s true false) by lia. exact H2.
Qed.

Lemma last_opt_In {A} (l : list A) x : last_opt l = Some x -> In x l.
Proof.
  unfold last_opt. intros H. destruct (rev l) as [|y r] eqn:E; [discriminate|]. injection H as ->.
  apply in_rev. rewrite E. now left.
Qed.

Lemma hd_error_In {A} (l : list A) x : hd_error l = Some x -> In x l.
Proof. destruct l; simpl; [discriminate | intros H; injection H as ->; now left]. Qed.

(* a transposition: position o goes 1 -> 0, position i goes 0 -> 1, nothing else changes *)
Definition transposes (s s' : bits) (o i : nat) : Prop :=
  o < length s /\ i < length s /\ o <> i /\ nth o s false = true /\ nth i s false = false /\
  s' = set_nth i true (set_nth o false s).

(* the shape of the new string in both branches of _get_next_bistring *)
Lemma new_string_cases s mx s' :
  (exists o, nth mx s false = false /\ In o (positions true 0 s) /\ mx < o /\ mx < length s /\
             s' = set_nth o false (set_nth mx true s)) \/
  (exists z, In z (positions false 0 s) /\ mx < z /\ mx < length s /\ s' = set_nth z true (set_nth mx false s)) ->
  forall o' i' ro ri,
    filter (fun p => negb (nth p s' false)) (positions true 0 s) = o' :: ro ->
    filter (fun p => negb (nth p s false)) (positions true 0 s') = i' :: ri ->
    transposes s s' o' i'.
Proof.
  intros H o' i' ro ri Fo Fi.
  assert (Ho : In o' (filter (fun p => negb (nth p s' false)) (positions true 0 s))) by (rewrite Fo; now left).
  assert (Hi : In i' (filter (fun p => negb (nth p s false)) (positions true 0 s'))) by (rewrite Fi; now left).
  apply filter_In in Ho as [Ho1 Ho2]. apply filter_In in Hi as [Hi1 Hi2].
  apply positions_true in Ho1 as [Ho1 Ho3]. apply positions_true in Hi1 as [Hi1 Hi3].
  apply negb_true_iff in Ho2, Hi2.
  destruct H as [[o [M0 [Oo [Lt [Lm ->]]]]] | [z [Zz [Lt [Lm ->]]]]].
  - apply positions_true in Oo as [Lo So].
    rewrite !set_nth_len in Hi1.
    rewrite !nth_set_nth in Ho2, Hi3 by (rewrite ?set_nth_len; lia).
    assert (o' = o).
    { destruct (Nat.eqb_spec o' o); [assumption|]. destruct (Nat.eqb_spec o' mx); [discriminate | congruence]. }
    assert (i' = mx).
    { destruct (Nat.eqb_spec i' o); [discriminate|]. destruct (Nat.eqb_spec i' mx); [assumption | congruence]. }
    subst. unfold transposes. repeat split; try assumption; try lia.
    (* the two assignments commute *)
    clear -Lt Lo Lm. revert mx o Lt Lo Lm. induction s as [|b s IH]; intros mx o Lt Lo Lm; simpl in *; [lia|].
    destruct o; [lia|]. destruct mx; simpl; [reflexivity|]. f_equal. apply IH; lia.
  - apply positions_false in Zz as [Lz Sz].
    rewrite !set_nth_len in Hi1.
    rewrite !nth_set_nth in Ho2, Hi3 by (rewrite ?set_nth_len; lia).
    assert (o' = mx).
    { destruct (Nat.eqb_spec o' z); [discriminate|]. destruct (Nat.eqb_spec o' mx); [assumption | congruence]. }
    assert (i' = z).
    { destruct (Nat.eqb_spec i' z); [assumption|]. destruct (Nat.eqb_spec i' mx); [discriminate | congruence]. }
    subst. unfold transposes. repeat split; try assumption; lia.
Qed.

Theorem next_bitstring_transposes s m e :
  next_bitstring s m = Some e -> transposes s (e_string e) (e_out e) (e_in e).
Proof.
  unfold next_bitstring. destruct (max_true 0 m) as [mx|]; [|discriminate].
  set (ones := positions true 0 s). set (zeros := positions false 0 s).
  set (no := hd_error (filter (fun i => mx <? i) ones)).
  (* mx must be a position of s for anything to be returned *)
  destruct (Nat.lt_ge_cases mx (length s)) as [Lm|Gm].
  2:{ (* out of range: both branches leave weight unchanged only vacuously; show None *)
      intros H. exfalso.
      assert (N : nth mx s false = false) by (apply nth_overflow; lia). rewrite N in H.
      assert (S1 : forall v, set_nth mx v s = s).
      { intros v. clear -Gm. revert mx Gm. induction s as [|b s IH]; intros [|mx] G; simpl in *; try reflexivity; try lia.
        f_equal. apply IH. lia. }
      destruct no as [o|] eqn:NO.
      - rewrite S1 in H.
        destruct (filter (fun i => negb (nth i (set_nth o false s) false)) ones) as [|o' ro] eqn:Fo; [discriminate|].
        destruct (filter (fun i => negb (nth i s false)) (positions true 0 (set_nth o false s))) as [|i' ri] eqn:Fi; [discriminate|].
        assert (Hi : In i' (i' :: ri)) by now left. rewrite <- Fi in Hi. apply filter_In in Hi as [Hi1 Hi2].
        apply positions_true in Hi1 as [Hi1 Hi3]. apply negb_true_iff in Hi2.
        apply hd_error_In in NO. apply filter_In in NO as [NO _]. apply positions_true in NO as [Lo _].
        rewrite nth_set_nth in Hi3 by lia. destruct (i' =? o); congruence.
      - destruct (last_opt (filter (fun i => (mx <? i) && true) zeros)) as [z|] eqn:LZ; [|discriminate].
        apply last_opt_In in LZ. apply filter_In in LZ as [LZ1 LZ2]. apply positions_false in LZ1 as [Lz _].
        apply andb_true_iff in LZ2 as [LZ2 _]. apply Nat.ltb_lt in LZ2. lia. }
  intros H.
  assert (C : exists s', (
      (exists o, nth mx s false = false /\ In o ones /\ mx < o /\ mx < length s /\ s' = set_nth o false (set_nth mx true s)) \/
      (exists z, In z zeros /\ mx < z /\ mx < length s /\ s' = set_nth z true (set_nth mx false s))) /\
      match filter (fun i => negb (nth i s' false)) ones, filter (fun i => negb (nth i s false)) (positions true 0 s') with
      | o :: _, i :: _ => Some (mkE s' (zip_or (set_nth mx false m)
                                  (map (fun i0 => (mx <? i0) && negb (nth i0 (suffix_run s') false)) (seq 0 (length s))))
                                  o i (filter (fun i0 => existsb (Nat.eqb i0) (positions true 0 s')) ones))
      | _, _ => None
      end = Some e).
  { destruct (nth mx s false) eqn:N.
    - destruct (last_opt (filter (fun i => (mx <? i) && match no with Some o => i <? o | None => true end) zeros)) as [z|] eqn:LZ;
        [|discriminate].
      exists (set_nth z true (set_nth mx false s)). split; [|exact H]. right. exists z.
      apply last_opt_In in LZ. apply filter_In in LZ as [LZ1 LZ2]. apply andb_true_iff in LZ2 as [LZ2 _].
      apply Nat.ltb_lt in LZ2. repeat split; assumption.
    - destruct no as [o|] eqn:NO.
      + exists (set_nth o false (set_nth mx true s)). split; [|exact H]. left. exists o.
        apply hd_error_In in NO. apply filter_In in NO as [NO1 NO2]. apply Nat.ltb_lt in NO2.
        repeat split; assumption.
      + destruct (last_opt (filter (fun i => (mx <? i) && true) zeros)) as [z|] eqn:LZ; [|discriminate].
        exists (set_nth z true (set_nth mx false s)). split; [|exact H]. right. exists z.
        apply last_opt_In in LZ. apply filter_In in LZ as [LZ1 LZ2]. apply andb_true_iff in LZ2 as [LZ2 _].
        apply Nat.ltb_lt in LZ2. repeat split; assumption. }
  destruct C as [s' [Cs R]].
  destruct (filter (fun i => negb (nth i s' false)) ones) as [|o' ro] eqn:Fo; [discriminate|].
  destruct (filter (fun i => negb (nth i s false)) (positions true 0 s')) as [|i' ri] eqn:Fi; [discriminate|].
  injection R as <-. simpl. exact (new_string_cases s mx s' Cs o' i' ro ri Fo Fi).
Qed.

(* consequences of a transposition *)
Lemma weight_set_nth : forall k s v, k < length s ->
  weight (set_nth k v s) + (if nth k s false then 1 else 0) = weight s + (if v then 1 else 0).
Proof.
  unfold weight. induction k as [|k IH]; intros [|b s] v H; simpl in *; try lia.
  - destruct b, v; simpl; lia.
  - specialize (IH s v ltac:(lia)). destruct b; simpl; lia.
Qed.

Lemma transposes_weight s s' o i : transposes s s' o i -> weight s' = weight s /\ length s' = length s.
Proof.
  intros [Lo [Li [Ne [So [Si ->]]]]]. split; [|now rewrite !set_nth_len].
  pose proof (weight_set_nth o s false Lo) as W1. rewrite So in W1.
  pose proof (weight_set_nth i (set_nth o false s) true ltac:(rewrite set_nth_len; lia)) as W2.
  rewrite nth_set_nth in W2 by lia. replace (i =? o) with false in W2 by (symmetry; apply Nat.eqb_neq; lia).
  rewrite Si in W2. simpl in *. lia.
Qed.

(* the whole walk *)
Fixpoint chain (s : bits) (es : list estep) : Prop :=
  match es with
  | [] => True
  | e :: es' => transposes s (e_string e) (e_out e) (e_in e) /\ chain (e_string e) es'
  end.

Theorem walk_chain : forall fuel s m es, walk fuel s m = Some es -> chain s es.
Proof.
  induction fuel as [|f IH]; intros s m es H; simpl in H.
  - injection H as <-. exact I.
  - destruct (next_bitstring s m) as [e|] eqn:N; [|discriminate].
    destruct (walk f (e_string e) (e_markers e)) as [es'|] eqn:W; [|discriminate].
    injection H as <-. split; [exact (next_bitstring_transposes s m e N) | exact (IH _ _ _ W)].
Qed.

Lemma chain_weights : forall es s, chain s es ->
  Forall (fun e => weight (e_string e) = weight s /\ length (e_string e) = length s) es.
Proof.
  induction es as [|e es IH]; intros s H; [constructor|].
  destruct H as [T C]. apply transposes_weight in T as [W L]. constructor; [now split|].
  specialize (IH _ C). eapply Forall_impl; [|exact IH]. intros a [A B]. split; congruence.
Qed.

Fixpoint steps_ok (strs : list bits) (moves : list (nat * nat * list nat)) : Prop :=
  match strs, moves with
  | a :: ((b :: _) as strs'), (o, i, _) :: moves' => transposes a b o i /\ steps_ok strs' moves'
  | [_], [] => True
  | _, _ => False
  end.

Lemma chain_steps : forall es s, chain s es ->
  steps_ok (s :: map e_string es) (map (fun e => (e_out e, e_in e, e_controls e)) es).
Proof.
  induction es as [|e es IH]; intros s H; simpl; [exact I|].
  destruct H as [T C]. split; [exact T | exact (IH _ C)].
Qed.

Theorem ehrlich_local s0 strs moves :
  ehrlich s0 = Some (strs, moves) ->
  Forall (fun s => weight s = weight s0 /\ length s = length s0) strs /\ steps_ok strs moves.
Proof.
  unfold ehrlich. destruct (_ || _).
  - intros H. injection H as <- <-. split; [constructor; [now split | constructor] | exact I].
  - destruct (walk _ _ _) as [es|] eqn:W; [|discriminate]. simpl. intros H. injection H as <- <-.
    apply walk_chain in W. split.
    + constructor; [now split|]. apply Forall_map. exact (chain_weights es s0 W).
    + now apply chain_steps.
Qed.
