(* C20/ProofsHWOpt1.v : Hamming-weight encoder with REDUCED control sets, array coordinates.
   A move's full controls are the k-1 common ones (ProofsHWAll).  A control may be dropped as soon as every
   string loaded so far carries a 1 there: the gate with the reduced set is active on an earlier string only if
   the gate with the full set is.  Second part: the first binom(n-J, w-J) - 1 moves of the walk from 1^w 0^a never
   leave the block of strings with prefix 1^J. *)
From Coq Require Import List Bool Arith Lia.
From QV Require Import C20.Model C20.Proofs C20.ProofsEhrlich C20.ProofsEhrlichG1 C20.ProofsEhrlichG2
                       C20.ProofsEhrlichG3 C20.ProofsEhrlichG4 C20.ProofsEhrlichG5 C20.ProofsHW C20.ProofsHWAll.
Import ListNotations.

Lemma active_mono qi qo (c c' : list nat) t :
  incl c' c -> active qi qo c t = true -> active qi qo c' t = true.
Proof.
  unfold active. intros I H. apply andb_true_iff in H as [H1 H2]. rewrite H2, andb_true_r.
  apply forallb_forall. intros q Hq. rewrite forallb_forall in H1. apply H1. now apply I.
Qed.

Lemma active_restore qi qo (c c' : list nat) t :
  (forall p, In p c -> ~ In p c' -> nth p t false = true) ->
  active qi qo c' t = true -> active qi qo c t = true.
Proof.
  unfold active. intros D H. apply andb_true_iff in H as [H1 H2]. rewrite H2, andb_true_r.
  rewrite forallb_forall in H1. apply forallb_forall. intros q Hq.
  destruct (in_dec Nat.eq_dec q c') as [I|I]; [now apply H1 | now apply D].
Qed.

Lemma gate_ok_reduce n g c' earlier b b' :
  gate_ok n g earlier b b' = true ->
  incl c' (g_ctrls g) ->
  (forall t, In t earlier -> forall p, In p (g_ctrls g) -> ~ In p c' -> nth p t false = true) ->
  gate_ok n (mkCG (g_in g) (g_out g) c') earlier b b' = true.
Proof.
  intros OK I D. unfold gate_ok in *. cbn [g_in g_out g_ctrls].
  repeat (apply andb_true_iff in OK as [OK ?]).
  rename H into He, H0 into Hb', H1 into Ho, H2 into Hi, H3 into Hc, H4 into Hco, H5 into Hci, H6 into Hne, H7 into Lo.
  assert (X : forall q, existsb (Nat.eqb q) (g_ctrls g) = false -> existsb (Nat.eqb q) c' = false).
  { intros q E. destruct (existsb (Nat.eqb q) c') eqn:E'; [|reflexivity].
    apply existsb_exists in E' as [z [Hz Ez]].
    assert (existsb (Nat.eqb q) (g_ctrls g) = true) by (apply existsb_exists; exists z; split; [now apply I | exact Ez]).
    congruence. }
  apply negb_true_iff in Hci, Hco.
  assert (F1 : forallb (fun q => nth q b false) c' = true).
  { apply forallb_forall. intros q Hq. rewrite forallb_forall in Hc. apply Hc. now apply I. }
  assert (F2 : forallb (fun e => negb (active (g_in g) (g_out g) c' e)) earlier = true).
  { apply forallb_forall. intros t Ht. rewrite forallb_forall in He. specialize (He t Ht).
    apply negb_true_iff in He. apply negb_true_iff.
    destruct (active (g_in g) (g_out g) c' t) eqn:A; [|reflexivity].
    rewrite (active_restore _ _ (g_ctrls g) c' t (D t Ht) A) in He. discriminate. }
  rewrite OK, Lo, Hne, (X _ Hci), (X _ Hco), F1, Hi, Ho, Hb', F2. reflexivity.
Qed.

(* the chain with a per-step selection of controls *)
Theorem chain_ok_sel n k (sel : nat -> estep -> list nat) : forall fuel s M es earlier idx,
  walk fuel s M = Some es ->
  length s = n -> weight s = k ->
  (forall t, In t earlier -> length t = n /\ weight t = k) ->
  NoDup (earlier ++ s :: map e_string es) ->
  (forall i e, nth_error es i = Some e ->
     incl (sel (idx + i) e) (e_controls e) /\
     forall t, In t (earlier ++ firstn i (s :: map e_string es)) ->
       forall p, In p (e_controls e) -> ~ In p (sel (idx + i) e) -> nth p t false = true) ->
  chain_ok n earlier (s :: map e_string es)
           (map (fun ie => mkCG (e_out (snd ie)) (e_in (snd ie)) (sel (fst ie) (snd ie))) (combine (seq idx (length es)) es)) = true.
Proof.
  induction fuel as [|f IH]; intros s M es earlier idx W Ls Ws HE ND SEL; simpl in W.
  - injection W as <-. simpl. now apply Nat.eqb_eq.
  - destruct (next_bitstring s M) as [e|] eqn:NB; [|discriminate].
    destruct (walk f (e_string e) (e_markers e)) as [es'|] eqn:W'; [|discriminate].
    injection W as <-. cbn [length seq combine map chain_ok fst snd].
    pose proof (next_bitstring_transposes s M e NB) as T. apply transposes_weight in T as [We Le].
    assert (NDs : ~ In s earlier /\ ~ In (e_string e) earlier /\ s <> e_string e).
    { repeat split.
      - intros C. apply NoDup_remove_2 in ND. apply ND. apply in_or_app. now left.
      - intros C. apply in_split in C as [l1 [l2 ->]]. rewrite <- app_assoc in ND. simpl in ND.
        apply NoDup_remove_2 in ND. apply ND. apply in_or_app. right. apply in_or_app. right. right. now left.
      - intros C. apply NoDup_app_r in ND. rewrite C in ND. inversion ND as [|? ? Hn _]. apply Hn. now left. }
    destruct NDs as [N1 [N2 N3]].
    destruct (SEL 0 e eq_refl) as [I0 D0]. rewrite Nat.add_0_r in I0, D0. simpl firstn in D0. rewrite app_nil_r in D0.
    apply andb_true_iff; split; [apply andb_true_iff; split; [apply andb_true_iff; split|]|].
    + now apply Nat.eqb_eq.
    + apply (gate_ok_reduce n (cg_of e) (sel idx e) earlier s (e_string e)).
      * apply (gate_ok_of_move n s M e earlier NB Ls). intros t Ht. destruct (HE t Ht) as [A B].
        repeat split; try lia; intros C; subst t; contradiction.
      * exact I0.
      * exact D0.
    + apply negb_true_iff. apply memb_false_iff. intros [C|C]; [now apply N3 | contradiction].
    + apply (IH (e_string e) (e_markers e) es' (s :: earlier) (S idx) W'); try lia.
      * intros t [<-|Ht]; [split; assumption | now apply HE].
      * cbn [app]. apply NoDup_cons.
        -- intros C. apply in_app_or in C as [C|C]; [contradiction|].
           apply NoDup_app_r in ND. inversion ND as [|? ? Hn _]; subst. contradiction.
        -- apply (NoDup_remove_1 earlier (e_string e :: map e_string es') s). exact ND.
      * intros i e' Hi. destruct (SEL (S i) e' Hi) as [I1 D1].
        replace (idx + S i) with (S idx + i) in I1, D1 by lia. split; [exact I1|].
        intros t Ht. apply D1. cbn [map firstn]. cbn [app] in Ht. destruct Ht as [<-|Ht].
        -- apply in_or_app. right. now left.
        -- apply in_app_or in Ht as [Ht|Ht]; apply in_or_app; [now left | right; now right].
Qed.

(* ---------------------------------------------------------------- the walk stays in its first blocks *)
Lemma walk_firstn : forall f s M es f', walk f s M = Some es -> f' <= f -> walk f' s M = Some (firstn f' es).
Proof.
  induction f as [|f IH]; intros s M es f' W Hf; simpl in W.
  - injection W as <-. assert (f' = 0) by lia. subst. reflexivity.
  - destruct (next_bitstring s M) as [e|] eqn:NB; [|discriminate].
    destruct (walk f (e_string e) (e_markers e)) as [es'|] eqn:W'; [|discriminate].
    injection W as <-. destruct f' as [|f']; [reflexivity|]. simpl. rewrite NB.
    now rewrite (IH _ _ _ f' W' ltac:(lia)).
Qed.

Lemma nth_repeat_true_app J l p : p < J -> nth p (repeat true J ++ l) false = true.
Proof. intros H. rewrite app_nth1 by (rewrite repeat_length; lia). apply nth_repeat_in. lia. Qed.

Lemma binom_block_mono a : forall J w, J <= w -> binom (w + a - J) (w - J) <= binom (w + a) w.
Proof.
  induction J as [|J IH]; intros w HJ.
  - rewrite !Nat.sub_0_r. lia.
  - destruct w as [|w]; [lia|]. specialize (IH w ltac:(lia)).
    replace (S w + a - S J) with (w + a - J) by lia. replace (S w - S J) with (w - J) by lia.
    simpl. lia.
Qed.

(* started at 1^w 0^a: every string up to index binom(n-J, w-J) - 1 has the prefix 1^J *)
Theorem prefix_block w a J es :
  let n := w + a in let s0 := cf 0 w a in
  J <= w ->
  walk (binom n w - 1) s0 (markers0 s0) = Some es ->
  forall i, i <= binom (n - J) (w - J) - 1 ->
  forall p, p < J -> nth p (nth i (s0 :: map e_string es) []) false = true.
Proof.
  intros n s0 HJ W i Hi p Hp.
  assert (E0 : s0 = repeat true J ++ cf 0 (w - J) a).
  { unfold s0, cf. simpl. rewrite app_assoc, repeat_plus. do 2 f_equal. lia. }
  destruct (markers0_ok s0) as [LM OK].
  assert (LM' : length (markers0 s0) = length (repeat true J) + (n - J)).
  { rewrite LM. unfold s0. rewrite cf_length, repeat_length. unfold n. lia. }
  assert (OK' : mk_ok (markers0 s0) (repeat true J ++ cf 0 (w - J) a) (length (repeat true J))).
  { rewrite <- E0. intros q Hq. apply OK. lia. }
  destruct (main_all (n - J) 0 (w - J) a ltac:(unfold n; lia) (repeat true J) (markers0 s0) LM' OK')
    as [es1 [W1 [_ [F1 _]]]].
  rewrite <- E0 in W1, F1.
  assert (Le : binom (n - J) (w - J) - 1 <= binom n w - 1).
  { pose proof (binom_block_mono a J w HJ). unfold n. lia. }
  pose proof (walk_firstn _ _ _ _ _ W Le) as W2. rewrite W1 in W2. injection W2 as ->.
  rewrite Forall_forall in F1.
  assert (In (nth i (s0 :: map e_string es) []) (strs_of s0 (firstn (binom (n - J) (w - J) - 1) es))).
  { unfold strs_of. destruct i as [|i]; [now left|]. right. simpl nth.
    pose proof (walk_length _ _ _ _ W) as L2.
    rewrite <- firstn_map. 
    assert (Hlt : i < length (firstn (binom (n - J) (w - J) - 1) (map e_string es))).
    { rewrite firstn_length, map_length, L2. lia. }
    replace (nth i (map e_string es) []) with (nth i (firstn (binom (n - J) (w - J) - 1) (map e_string es)) []).
    - now apply nth_In.
    - rewrite <- (firstn_skipn (binom (n - J) (w - J) - 1) (map e_string es)) at 2.
      now rewrite app_nth1. }
  destruct (F1 _ H) as [u [-> _]]. now apply nth_repeat_true_app.
Qed.
