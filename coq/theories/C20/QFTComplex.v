(* C20/QFTComplex.v : the complex-number instance of qft_matrix_column.
   T = C (Coquelicot), h = 1/sqrt2, e k = cis (2 pi k / 2^n) = exp(2 pi i k / 2^n):
   the gate matrices of [gate_mat] are then  H = (1/sqrt2)[[1,1],[1,-1]],
   CU1(pi/2^k) = diag(1,1,1,exp(i pi/2^k)),  SWAP,  and for every n >= 1 and every basis state |x>
       QFT(n)|x> = 2^{-n/2} sum_y exp(2 pi i X Y / 2^n) |y>          (state-vector semantics of Base/Mat.v). *)
From Coq Require Import Reals List Bool Arith Lia Lra Ring.
From Coquelicot Require Import Complex.
From QV Require Import Base.Cis Base.Mat C20.Model C20.ProofsPS C20.ProofsQFTMat.
Import ListNotations.
Local Open Scope R_scope.

Lemma C_ring : ring_theory (RtoC 0) (RtoC 1) Cplus Cmult Cminus Copp (@eq C).
Proof.
  constructor; intros.
  - apply Cplus_0_l.
  - apply Cplus_comm.
  - apply Cplus_assoc.
  - apply Cmult_1_l.
  - apply Cmult_comm.
  - apply Cmult_assoc.
  - apply Cmult_plus_distr_r.
  - reflexivity.
  - apply Cplus_opp_r.
Qed.

Definition ephase (n k : nat) : C := cis (2 * PI * INR k / 2 ^ n).

Lemma ephase_0 n : ephase n 0 = RtoC 1.
Proof. unfold ephase. simpl INR. replace (2 * PI * 0 / 2 ^ n) with 0 by (unfold Rdiv; ring). apply cis_0. Qed.

Lemma ephase_add n a b : ephase n (a + b) = Cmult (ephase n a) (ephase n b).
Proof.
  unfold ephase. rewrite plus_INR, <- cis_add. f_equal. unfold Rdiv. ring.
Qed.

Lemma ephase_half n : (1 <= n)%nat -> ephase n (2 ^ (n - 1)) = Copp (RtoC 1).
Proof.
  intros H. unfold ephase. rewrite pow_INR. simpl INR.
  replace (2 * PI * (1 + 1) ^ (n - 1) / 2 ^ n) with PI.
  - rewrite cis_PI. unfold Copp, RtoC. simpl. f_equal; ring.
  - replace n with (S (n - 1)) at 2 by lia. simpl pow.
    assert (P : 2 ^ (n - 1) <> 0) by (apply pow_nonzero; lra).
    replace (1 + 1) with 2 by ring. field. exact P.
Qed.

(* the phase of CU1(pi/2^k) is e(2^(n-1-k)) *)
Lemma ephase_cu1 n k : (k < n)%nat -> ephase n (2 ^ (n - 1 - k)) = cis (PI / 2 ^ k).
Proof.
  intros H. unfold ephase. f_equal. rewrite pow_INR. simpl INR. replace (1 + 1) with 2 by ring.
  replace n with (S k + (n - 1 - k))%nat at 2 by lia. rewrite pow_add. simpl pow.
  assert (P1 : 2 ^ k <> 0) by (apply pow_nonzero; lra).
  assert (P2 : 2 ^ (n - 1 - k) <> 0) by (apply pow_nonzero; lra).
  field. split; assumption.
Qed.

Definition hC : C := RtoC (/ sqrt 2).

Theorem qft_matrix_column_C (x : bits) :
  let n := length x in
  (1 <= n)%nat ->
  apply_gates C (RtoC 0) (RtoC 1) Cplus Cmult Copp hC (ephase n) n (qft n true)
              (col C (bvec C n (fun c => if beqb x c then RtoC 1 else RtoC 0)))
  = col C (bvec C n (fun y => Cmult (tpow C (RtoC 1) Cmult hC n) (ephase n (qphase n x 0 * qphase n y 0)))).
Proof.
  intros n Hn.
  apply (qft_matrix_column C (RtoC 0) (RtoC 1) Cplus Cmult Cminus Copp C_ring hC (ephase n)
                           (ephase_0 n) (ephase_add n) x Hn (ephase_half n Hn)).
Qed.
