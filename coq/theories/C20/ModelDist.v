(* C20, round 5 (family D: rarely used public options).  Executable model of the DISTRIBUTED layout of the QFT,
   models/qft.py _DistributedQFT, reached through the public  QFT(nqubits, accelerators=...)  (with_swaps must be
   True): the final SWAPs are pulled inside the ladder.  For i1 >= icrit = ceil(n/2) the logical qubit i1 is first
   moved to wire i1eff = n-1-i1 by SWAP(i1, i1eff); the gates act on wire i1eff, the ANGLE still uses the logical
   distance i2 - i1.   No proofs here. *)
From Coq Require Import List Bool Arith.
From QV Require Import C20.Model.
Import ListNotations.

Definition icrit (n : nat) : nat := n / 2 + n mod 2.

Definition qft_dist_block (n i1 : nat) : list qgate :=
  let i1eff := if i1 <? icrit n then i1 else n - i1 - 1 in
  (if i1 <? icrit n then [] else [QSWAP i1 i1eff]) ++
  QH i1eff :: map (fun i2 => QCU1 i2 i1eff (i2 - i1)) (seq (S i1) (n - S i1)).

Definition qft_dist (n : nat) : list qgate := flat_map (qft_dist_block n) (seq 0 n).

(* the real code refuses the layout when there are more global qubits than icrit:
   nglobal = log2(total number of devices) *)
Definition dist_accepts (n nglobal : nat) : bool := nglobal <=? icrit n.

(* ---- agreement with the plain ladder on EVERY computational basis state, by the product-state rules [pstep]
   (sound for the matrices of Base/Mat.v: Props.pstep_rules_agree_with_matrices) *)
Definition qstate_eqb (n : nat) (a b : qstate) : bool :=
  match a, b with
  | QB x, QB y => Bool.eqb x y
  | QP p, QP q => Nat.eqb (p mod 2 ^ n) (q mod 2 ^ n)      (* num is read modulo 2^n *)
  | _, _ => false
  end.

Fixpoint all_bits (n : nat) : list (list bool) :=
  match n with
  | 0 => [[]]
  | S m => map (cons false) (all_bits m) ++ map (cons true) (all_bits m)
  end.

Definition same_product_state (n : nat) (gs1 gs2 : list qgate) (x : list bool) : bool :=
  match prun n gs1 (qinit x), prun n gs2 (qinit x) with
  | Some f, Some g => forallb (fun q => qstate_eqb n (f q) (g q)) (seq 0 n)
  | _, _ => false            (* a rule that does not apply is a failure, not an agreement *)
  end.

Definition dist_agrees (n : nat) : bool :=
  forallb (same_product_state n (qft_dist n) (qft n true)) (all_bits n).

(* gate census: (number of H, number of SWAP, list of CU1 exponents k sorted by insertion) *)
Definition count_kind (k : nat) (gs : list qgate) : nat :=
  length (filter (fun g => Nat.eqb (fst (fst (qcode g))) k) gs).
Definition cu1_exponent_count (k : nat) (gs : list qgate) : nat :=
  length (filter (fun g => match g with QCU1 _ _ k' => Nat.eqb k k' | _ => false end) gs).
Definition same_census (n : nat) : bool :=
  Nat.eqb (count_kind 0 (qft_dist n)) (count_kind 0 (qft n true)) &&
  Nat.eqb (count_kind 2 (qft_dist n)) (count_kind 2 (qft n true)) &&
  forallb (fun k => Nat.eqb (cu1_exponent_count k (qft_dist n)) (cu1_exponent_count k (qft n true))) (seq 0 (S n)).
