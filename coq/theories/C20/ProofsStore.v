(* C20/ProofsStore.v : proofs for Store.v *)
From Coq Require Import List Arith Bool Lia.
From QV Require Import C20.Store.
Import ListNotations.

Section Proofs.
  Variable P : Type.
  Notation store := (store P).

  Lemma set_parameters_other (c : circuit) : forall (s : store) vals j,
    ~ In j (ids c) -> set_parameters P s c vals j = s j.
  Proof.
    induction c as [|g c IH]; intros s vals j H; simpl; [reflexivity|].
    destruct vals as [|v vs]; [reflexivity|].
    rewrite IH.
    - unfold upd. destruct (Nat.eqb j (r_id g)) eqn:E; [|reflexivity].
      apply Nat.eqb_eq in E. exfalso. apply H. simpl. now left.
    - intros Hin. apply H. simpl. now right.
  Qed.

  Lemma observe_ext (c : circuit) (s1 s2 : store) :
    (forall j, In j (ids c) -> s1 j = s2 j) -> observe P s1 c = observe P s2 c.
  Proof.
    intros H. unfold observe. apply map_ext_in. intros g Hg. rewrite H; [reflexivity|].
    unfold ids. now apply in_map.
  Qed.

  Theorem independent (s : store) (c1 c2 : circuit) vals :
    disjoint (ids c1) (ids c2) -> observe P (set_parameters P s c1 vals) c2 = observe P s c2.
  Proof.
    intros D. apply observe_ext. intros j Hj. apply set_parameters_other.
    intros H1. exact (D j H1 Hj).
  Qed.

  Theorem independent_history (c : circuit) (ops : list (circuit * list P)) : forall s : store,
    Forall (fun cv => disjoint (ids (fst cv)) (ids c)) ops ->
    observe P (run_updates P s ops) c = observe P s c.
  Proof.
    unfold run_updates. induction ops as [|[c1 vs] ops IH]; intros s H; simpl; [reflexivity|].
    inversion H as [|x l H1 H2]; subst. rewrite IH by exact H2. now apply independent.
  Qed.

  Lemma ids_build_fresh shape : forall next, ids (build_fresh next shape) = seq next (length shape).
  Proof.
    induction shape as [|[k qs] t IH]; intros next; simpl; [reflexivity|]. now rewrite IH.
  Qed.

  Theorem fresh_builds_disjoint next sh1 sh2 :
    disjoint (ids (build_fresh next sh1)) (ids (build_fresh (next + length sh1) sh2)).
  Proof.
    rewrite !ids_build_fresh. intros x H1 H2. apply in_seq in H1. apply in_seq in H2. lia.
  Qed.
End Proofs.

(* a shared gate object: updating one circuit changes the other *)
Lemma shared_changes :
  let t := [mkRef 0 7 [0; 1]] in
  observe nat (set_parameters nat (fun _ => 0) (build_cached t) [5]) (build_cached t)
  <> observe nat (fun _ => 0) (build_cached t).
Proof. vm_compute. discriminate. Qed.
