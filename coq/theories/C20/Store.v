(* C20/Store.v : gate OBJECTS and the circuits that hold references to them (executable definitions only).

   A qibo circuit is a list of references to gate objects; the parameters live in the objects.
   Circuit.set_parameters writes the objects of one circuit.  Two circuits returned by two constructor calls must
   not influence each other: that is guaranteed exactly when they hold DISJOINT gate objects (what the harness checks
   with `is` on every pair of returned circuits: harness/c20_purity.py), and fails when a constructor hands out the
   gate objects of a memoised template ([build_cached]). *)
From Coq Require Import List Arith Bool.
Import ListNotations.

Section Store.
  Variable P : Type.                       (* parameter values *)

  Definition store := nat -> P.            (* object id -> current parameter *)
  Definition upd (s : store) (i : nat) (v : P) : store := fun j => if Nat.eqb j i then v else s j.

  Record gref := mkRef { r_id : nat; r_cls : nat; r_qubits : list nat }.
  Definition circuit := list gref.

  (* what executing / printing the circuit depends on *)
  Definition observe (s : store) (c : circuit) : list (nat * list nat * P) :=
    map (fun g => (r_cls g, r_qubits g, s (r_id g))) c.

  (* Circuit.set_parameters (one value per gate, in queue order) *)
  Fixpoint set_parameters (s : store) (c : circuit) (vals : list P) : store :=
    match c, vals with
    | g :: c', v :: vs => set_parameters (upd s (r_id g) v) c' vs
    | _, _ => s
    end.

  Definition ids (c : circuit) : list nat := map r_id c.
  Definition disjoint (a b : list nat) : Prop := forall x, In x a -> ~ In x b.

  (* a constructor that allocates new gate objects: ids next, next+1, ... *)
  Fixpoint build_fresh (next : nat) (shape : list (nat * list nat)) : circuit :=
    match shape with
    | [] => []
    | (k, qs) :: t => mkRef next k qs :: build_fresh (S next) t
    end.

  (* a constructor that returns the gate objects of a memoised template (ids fixed once and for all) *)
  Definition build_cached (template : circuit) : circuit := template.

  (* a history of caller-side updates: (circuit, new values) *)
  Definition run_updates (s : store) (ops : list (circuit * list P)) : store :=
    fold_left (fun s cv => set_parameters s (fst cv) (snd cv)) ops s.
End Store.
