(* C20/Props.v : property theorems for the library circuit constructors (proofs in Proofs.v).

   Models: C20/Model.v, tied to /repo on every run by harness/c20.py (exact structural correspondence
   of the gate lists / bit-string sequences).  The operator-level statement "QFT(n) is the DFT matrix"
   is proved per run for n = 1..5 (6 in the thorough tier) by Base/TrigMat.mcheck_eq on the traced
   real gate list: BOUNDED INSTANCES, generated obligations, not in this file.

   QFT at matrix level, ALL n >= 1: [qft_ok_state_vector] / [qft_ok_complex] -- applying the gate matrices
   (Base/Mat.v embed, mmul) of the ladder one after the other to the basis column |x> gives the DFT column.
   The product-state rules [pstep] are no longer trusted: [pstep_rules_agree_with_matrices].
   [qft_ok] / [qft_ok_complex_matrix]: the same for the PRODUCT matrix circ_mat (QFT n) of Base/Mat.v -- its
   column x is the DFT column, for every n >= 1 and every x (matrix associativity proved in ProofsAssoc.v).
   What remains outside: that the real gate matrices are H = [[h,h],[h,-h]], CU1 = diag(1,1,1,phi), SWAP --
   proved per run by TrigMat obligations on the traced matrices (k <= 6), compared numerically beyond.

   NOT PROVED (named honestly):
   - (hw_encoder_ok is proved for all n, k and both control settings at ring level; its complex-data RZ layers
     and the lexicographic data permutation are only tested); binary-encoder amplitudes; that the real angle
     formulas (acos/atan2/norms) satisfy the load equations (covered by the data-level tests, tolerance 1e-10). *)
From Coq Require Import List Bool Arith Lia Ring ZArith Reals Permutation.
From Coquelicot Require Import Complex.
From QV Require Import Base.Mat Base.Cis C20.Model C20.Proofs C20.ProofsQFT C20.ProofsPS C20.ProofsQFTMat C20.QFTComplex C20.ProofsAssoc C20.ProofsEhrlich C20.ProofsTree C20.ProofsHW C20.ProofsEhrlichG3 C20.ProofsEhrlichG4 C20.ProofsEhrlichG5 C20.ProofsHWAll C20.ProofsHWOpt1 C20.ProofsHWOpt2 C20.ProofsHWOpt3 C20.ProofsHWOpt4 C20.ProofsLayers.
Import ListNotations.

(* ---------------------------------------------------------------- comp_basis_encoder (all n, all bit strings) *)
(* the X gates flip |0...0> to |b> *)
Theorem comp_basis_ok : forall b : bits, run_x (comp_basis b) (repeat false (length b)) = b.
Proof. exact comp_basis_correct. Qed.
Print Assumptions comp_basis_ok.

Theorem comp_basis_gates : forall (b : bits) q, In q (comp_basis b) <-> nth q b false = true.
Proof.
  intros b q. unfold comp_basis. rewrite ones_from_spec, Nat.sub_0_r. split; [tauto | split; [lia | assumption]].
Qed.
Print Assumptions comp_basis_gates.

Example comp_basis_example : comp_basis (bits_of_nat 5 11) = [1; 3; 4].
Proof. reflexivity. Qed.

(* ---------------------------------------------------------------- ghz_state (all n >= 1; qibo rejects n < 2) *)
(* H(0) on |0..0> gives the two branches 00..0 and 10..0 with amplitude 1/sqrt2 each; the CNOT chain
   maps them to 00..0 and 11..1: the state is (|0..0> + |1..1>)/sqrt2 *)
Theorem ghz_ok : forall n, 1 <= n -> ghz_branches n = [repeat false n; repeat true n].
Proof. exact ghz_correct. Qed.
Print Assumptions ghz_ok.

(* ---------------------------------------------------------------- QFT gate list (all n) *)
Theorem qft_structure : forall n sw,
  (forall q, In (QH q) (qft n sw) <-> q < n) /\
  (forall c t k, In (QCU1 c t k) (qft n sw) <-> (t < c < n /\ k = c - t)) /\
  (forall a b, In (QSWAP a b) (qft n sw) <-> (sw = true /\ a < n / 2 /\ b = n - a - 1)) /\
  2 * length (qft n sw) = n * (n + 1) + (if sw then 2 * (n / 2) else 0).
Proof.
  intros n sw. split; [|split; [|split]].
  - intros q. apply qft_H_iff.
  - intros c t k. apply qft_CU1_iff.
  - intros a b. apply qft_SWAP_iff.
  - apply qft_length.
Qed.
Print Assumptions qft_structure.

(* ---------------------------------------------------------------- QFT on basis states, ALL n, product-state semantics *)
(* Model.v [pstep]: textbook action of H / CU1 / SWAP on unentangled registers whose qubits are |b> or
   (|0> + e^{2 pi i num/2^n}|1>)/sqrt2 -- these rules are a DEFINITION (trusted; validated against the
   matrices only through the bounded operator instances n <= 5/6 and the numeric test of the harness).
   Under them, for every n and every basis state |x>:
     QFT(n, with_swaps=False)|x> = (x)_q (|0> + e^{2 pi i 0.x_q x_{q+1}..x_{n-1}}|1>)/sqrt2       (bit-reversed order)
     QFT(n)|x>                   = the same with the qubits reversed,
   and the amplitude of |y> in the latter is 2^{-n/2} e^{2 pi i X Y / 2^n}: the DFT. *)
Theorem qft_product_state : forall x : bits,
  let n := length x in
  (exists f, prun n (qft n false) (qinit x) = Some f /\ forall q, q < n -> f q = QP (qphase n x q)) /\
  (exists f, prun n (qft n true) (qinit x) = Some f /\ forall q, q < n -> f q = QP (qphase n x (n - 1 - q))).
Proof. intros x n. split; [apply qft_noswap_product | apply qft_swap_product]. Qed.
Print Assumptions qft_product_state.

(* sum_q y_q * phase_q  =  X * Y  (mod 2^n), X = qphase n x 0 and Y = qphase n y 0 being the integers
   with big-endian digits x and y *)
Theorem qft_product_is_dft : forall n (x y : bits),
  exists K, qphase n x 0 * qphase n y 0
            = 2 ^ n * K + list_sum (map (fun q => b2n (nth q y false) * qphase n x (n - 1 - q)) (seq 0 n)).
Proof. exact dft_phase_congruence. Qed.
Print Assumptions qft_product_is_dft.

Example qphase_is_value : qphase 4 [true; false; true; true] 0 = 11 /\ qphase 4 [true; false; true; true] 2 = 12.
Proof. split; reflexivity. Qed.

(* ---------------------------------------------------------------- the product-state rules are sound for the MATRICES *)
Section Matrices.
  Variables (T : Type) (t0 t1 : T) (tadd tmul tsub : T -> T -> T) (topp : T -> T).
  Hypothesis Tring : ring_theory t0 t1 tadd tmul tsub topp (@eq T).
  Variables (h : T) (e : nat -> T) (n : nat).
  Hypothesis e_0 : e 0 = t1.
  Hypothesis e_add : forall x y, e (x + y) = tmul (e x) (e y).
  Hypothesis e_half : e (2 ^ (n - 1)) = topp t1.

  (* for every gate on arbitrary (distinct, in-range) qubits of an n-qubit register: the 2^n x 2^n matrix
     [embed n qs M] of Base/Mat.v times the column vector of a product state is the column vector of the
     product state computed by [pstep] *)
  Theorem pstep_rules_agree_with_matrices : forall f g f',
    wf_gate n g -> pstep n f g = Some f' ->
    mmul (KT T t0 t1 tadd tmul) (gate_mat T t0 t1 tadd tmul topp h e n g)
         (col T (pvec T t0 t1 tmul n (amps_of T t0 t1 tmul h e n f)))
    = col T (pvec T t0 t1 tmul n (amps_of T t0 t1 tmul h e n f')).
  Proof. exact (pstep_sound T t0 t1 tadd tmul tsub topp Tring h e n e_0 e_add e_half). Qed.
End Matrices.
Print Assumptions pstep_rules_agree_with_matrices.

(* QFT(n)|x> = h^n sum_y e(X Y)|y>  for ALL n >= 1, over any commutative ring with h and a character e *)
Theorem qft_ok_state_vector :
  forall (T : Type) (t0 t1 : T) (tadd tmul tsub : T -> T -> T) (topp : T -> T),
  ring_theory t0 t1 tadd tmul tsub topp (@eq T) ->
  forall (h : T) (e : nat -> T),
  e 0 = t1 -> (forall a b, e (a + b) = tmul (e a) (e b)) ->
  forall x : bits, let n := length x in
  1 <= n -> e (2 ^ (n - 1)) = topp t1 ->
  apply_gates T t0 t1 tadd tmul topp h e n (qft n true)
              (col T (bvec T n (fun c => if beqb x c then t1 else t0)))
  = col T (bvec T n (fun y => tmul (tpow T t1 tmul h n) (e (qphase n x 0 * qphase n y 0)))).
Proof. exact qft_matrix_column. Qed.
Print Assumptions qft_ok_state_vector.

(* the complex instance: h = 1/sqrt2, e k = exp(2 pi i k / 2^n); CU1's phase e(2^(n-1-k)) is exp(i pi / 2^k) *)
Theorem qft_ok_complex : forall x : bits, let n := length x in
  1 <= n ->
  apply_gates C (RtoC 0) (RtoC 1) Cplus Cmult Copp hC (ephase n) n (qft n true)
              (col C (bvec C n (fun c => if beqb x c then RtoC 1 else RtoC 0)))
  = col C (bvec C n (fun y => Cmult (tpow C (RtoC 1) Cmult hC n) (ephase n (qphase n x 0 * qphase n y 0)))).
Proof. exact qft_matrix_column_C. Qed.
Print Assumptions qft_ok_complex.

(* qft_ok: column x of the product matrix circ_mat(QFT n) is the DFT column -- all n >= 1, all x *)
Theorem qft_ok :
  forall (T : Type) (t0 t1 : T) (tadd tmul tsub : T -> T -> T) (topp : T -> T),
  ring_theory t0 t1 tadd tmul tsub topp (@eq T) ->
  forall (h : T) (e : nat -> T),
  e 0 = t1 -> (forall a b, e (a + b) = tmul (e a) (e b)) ->
  forall x : bits, let n := length x in
  1 <= n -> e (2 ^ (n - 1)) = topp t1 ->
  mmul (KT T t0 t1 tadd tmul)
       (circ_mat (KT T t0 t1 tadd tmul) n (map (to_gapp T t0 t1 topp h e n) (qft n true)))
       (col T (bvec T n (fun c => if beqb x c then t1 else t0)))
  = col T (bvec T n (fun y => tmul (tpow T t1 tmul h n) (e (qphase n x 0 * qphase n y 0)))).
Proof. exact qft_circ_mat_column. Qed.
Print Assumptions qft_ok.

Theorem qft_ok_complex_matrix : forall x : bits, let n := length x in
  1 <= n ->
  mmul (KT C (RtoC 0) (RtoC 1) Cplus Cmult)
       (circ_mat (KT C (RtoC 0) (RtoC 1) Cplus Cmult) n
                 (map (to_gapp C (RtoC 0) (RtoC 1) Copp hC (ephase n) n) (qft n true)))
       (col C (bvec C n (fun c => if beqb x c then RtoC 1 else RtoC 0)))
  = col C (bvec C n (fun y => Cmult (tpow C (RtoC 1) Cmult hC n) (ephase n (qphase n x 0 * qphase n y 0)))).
Proof.
  intros x n Hn.
  apply (qft_circ_mat_column C (RtoC 0) (RtoC 1) Cplus Cmult Cminus Copp C_ring hC (ephase n)
                             (ephase_0 n) (ephase_add n) x Hn (ephase_half n Hn)).
Qed.
Print Assumptions qft_ok_complex_matrix.

(* with_swaps=False: the documented bit reversal -- output |y> carries the DFT entry of the integer whose
   digits are y read backwards (rev_value n y = sum_q y_q 2^q); all n >= 1, product matrix of Base/Mat.v *)
Theorem qft_ok_noswap :
  forall (T : Type) (t0 t1 : T) (tadd tmul tsub : T -> T -> T) (topp : T -> T),
  ring_theory t0 t1 tadd tmul tsub topp (@eq T) ->
  forall (h : T) (e : nat -> T),
  e 0 = t1 -> (forall a b, e (a + b) = tmul (e a) (e b)) ->
  forall x : bits, let n := length x in
  1 <= n -> e (2 ^ (n - 1)) = topp t1 ->
  mmul (KT T t0 t1 tadd tmul)
       (circ_mat (KT T t0 t1 tadd tmul) n (map (to_gapp T t0 t1 topp h e n) (qft n false)))
       (col T (bvec T n (fun c => if beqb x c then t1 else t0)))
  = col T (bvec T n (fun y => tmul (tpow T t1 tmul h n) (e (qphase n x 0 * rev_value n y)))).
Proof. exact qft_circ_mat_column_noswap. Qed.
Print Assumptions qft_ok_noswap.

Theorem qft_ok_noswap_complex_matrix : forall x : bits, let n := length x in
  1 <= n ->
  mmul (KT C (RtoC 0) (RtoC 1) Cplus Cmult)
       (circ_mat (KT C (RtoC 0) (RtoC 1) Cplus Cmult) n
                 (map (to_gapp C (RtoC 0) (RtoC 1) Copp hC (ephase n) n) (qft n false)))
       (col C (bvec C n (fun c => if beqb x c then RtoC 1 else RtoC 0)))
  = col C (bvec C n (fun y => Cmult (tpow C (RtoC 1) Cmult hC n) (ephase n (qphase n x 0 * rev_value n y)))).
Proof.
  intros x n Hn.
  apply (qft_circ_mat_column_noswap C (RtoC 0) (RtoC 1) Cplus Cmult Cminus Copp C_ring hC (ephase n)
                                    (ephase_0 n) (ephase_add n) x Hn (ephase_half n Hn)).
Qed.
Print Assumptions qft_ok_noswap_complex_matrix.

Example rev_value_example : rev_value 4 [true; false; true; true] = 13 /\ qphase 4 [true; false; true; true] 0 = 11.
Proof. split; reflexivity. Qed.

(* the matrices behind [to_gapp]: non-vacuity / readability *)
Example to_gapp_H : to_gapp Z 0%Z 1%Z Z.opp 7%Z (fun _ => 1%Z) 3 (QH 1) = ([], [1], [[7; 7]; [7; -7]]%Z).
Proof. reflexivity. Qed.

Theorem qft_cu1_phase : forall n k, k < n -> ephase n (2 ^ (n - 1 - k)) = cis (PI / 2 ^ k).
Proof. exact ephase_cu1. Qed.
Print Assumptions qft_cu1_phase.

(* ---------------------------------------------------------------- Ehrlich walk: ehrlich_enumerates for ALL n *)
(* cf x j y = 0^x 1^j 0^y : every string whose ones are consecutive (the documented admissible inputs of
   _ehrlich_algorithm; hamming_weight_encoder starts from cf 0 k (n-k), the blocks of the binary encoder from
   other members).  For every n = x + j + y the walk succeeds, has binom n j strings without repetition, they are
   exactly the strings of length n and weight j, it ends on the closed form endf x j y, and (by the local
   theorem) consecutive strings differ by exactly the reported transposition.
   Proof: the marker automaton is a two-block recursion on the tail (bit p fixed, then one move at p, then bit p
   flipped), closed under the consecutive-ones shapes; induction on the tail length with the explicit end
   configurations (ProofsEhrlichG1..G5). *)
Theorem ehrlich_enumerates : forall x j y, let n := x + j + y in
  exists strs moves,
    ehrlich (cf x j y) = Some (strs, moves) /\
    length strs = binom n j /\
    NoDup strs /\
    (forall s, In s strs <-> (length s = n /\ weight s = j)) /\
    last strs [] = endf x j y /\
    steps_ok strs moves.
Proof.
  intros x j y n. destruct (ehrlich_cf x j y) as [strs [moves [E [L [N [S La]]]]]].
  exists strs, moves. split; [exact E|]. split; [exact L|]. split; [exact N|]. split; [exact S|]. split; [exact La|].
  exact (proj2 (ehrlich_local _ _ _ E)).
Qed.
Print Assumptions ehrlich_enumerates.

(* the start string of hamming_weight_encoder *)
Theorem ehrlich_enumerates_initial : forall n k, k <= n ->
  exists strs moves,
    ehrlich (initial_string n k) = Some (strs, moves) /\
    length strs = binom n k /\ NoDup strs /\
    (forall s, In s strs <-> (length s = n /\ weight s = k)) /\ steps_ok strs moves.
Proof.
  intros n k H. rewrite initial_string_cf.
  destruct (ehrlich_enumerates 0 k (n - k)) as [strs [moves [E [L [N [S [_ T]]]]]]].
  replace (0 + k + (n - k)) with n in * by lia. exists strs, moves.
  split; [exact E|]. split; [exact L|]. split; [exact N|]. split; [exact S | exact T].
Qed.
Print Assumptions ehrlich_enumerates_initial.

Example endf_examples : endf 0 3 3 = cf 1 3 2 /\ endf 0 2 4 = cf 4 2 0 /\ endf 2 3 1 = cf 0 3 3.
Proof. repeat split. Qed.

(* ---------------------------------------------------------------- Ehrlich walk: the LOCAL half for ALL n *)
(* for every n and EVERY initial string: if _ehrlich_algorithm returns, every string has the length and the
   weight of the first one, and each is obtained from its predecessor by exactly one transposition
   (position out: 1 -> 0, position in: 0 -> 1), which is the reported move *)
Theorem ehrlich_steps_are_transpositions : forall s0 strs moves,
  ehrlich s0 = Some (strs, moves) ->
  Forall (fun s => weight s = weight s0 /\ length s = length s0) strs /\ steps_ok strs moves.
Proof. exact ehrlich_local. Qed.
Print Assumptions ehrlich_steps_are_transpositions.

(* ---------------------------------------------------------------- Ehrlich walk (independent cross-check by computation, n <= 10) *)
(* for every 1 <= k < n <= 10 the walk started at 1^k 0^(n-k) has binom n k strings, without repetition,
   exactly the strings of length n and weight k; consecutive strings differ in exactly two positions (one
   transposition); every reported move (out, in, controls) is the transposition between its two strings
   and its controls are the k-1 ones they share *)
Theorem ehrlich_enumerates_bounded : forall n k, n <= 10 -> 1 <= k < n ->
  exists strs moves,
    ehrlich (initial_string n k) = Some (strs, moves) /\
    length strs = binom n k /\
    NoDup strs /\
    (forall s, In s strs <-> (length s = n /\ weight s = k)) /\
    adjacent_ok strs = true /\ moves_ok strs moves = true.
Proof. intros n k Hn Hk. apply walk_ok_spec. now apply walk_ok_bounded. Qed.
Print Assumptions ehrlich_enumerates_bounded.

(* the malformed input 1010 (ones not consecutive) is rejected: the real code raises IndexError *)
Example ehrlich_malformed : ehrlich [true; false; true; false] = None.
Proof. vm_compute. reflexivity. Qed.

(* ---------------------------------------------------------------- hamming_weight_encoder, ring level *)
(* GENERAL (all n, any strings/gates, any commutative ring): a chain of controlled RBS gates satisfying the
   decidable condition [chain_ok] (gate j active on string j with in=1/out=0, maps it to string j+1, inactive on
   all earlier strings, new string fresh) loads the diagonal spread  c0 r, s0 c1 r, s0 s1 c2 r, ...  on the
   strings in order and leaves amplitude 0 on every other basis state *)
Theorem hw_chain_ok_loads :
  forall (R : Type) (r0 r1 : R) (radd rmul rsub : R -> R -> R) (ropp : R -> R),
  ring_theory r0 r1 radd rmul rsub ropp (@eq R) ->
  forall n gs cs bs earlier E A rc,
  chain_ok n earlier bs gs = true -> length cs = length gs -> map fst E = earlier ->
  (forall b, hd_error bs = Some b -> describes R r0 n A ((b, rc) :: E)) ->
  describes R r0 n (run_hw R radd rmul rsub gs cs A) (rev (combine bs (spread R rmul cs rc)) ++ E).
Proof. exact run_hw_spec. Qed.
Print Assumptions hw_chain_ok_loads.

(* ALL n and k, qubit coordinates, the control sets the code EMITS (Model.hw_gates = mirror q = n-1-p, sort, and the
   optimisation mask `controls[k >= indices]`; tied to hamming_weight_encoder by the structural correspondence),
   both optimize_controls settings: the emitted chain satisfies chain_ok, hence the amplitude of the j-th walk
   string is the j-th entry of the spread and every other basis state has amplitude 0; with
   unary_diagonal_ok_ring (c_j N_j = x_j, s_j N_j = N_{j+1}) that is amplitude * ||x|| = datum.
   Why the reduced controls suffice: the mask drops, at move number idx, the J controls on the array positions
   0..J-1 where J = #{j : idx < binom(n-j, k-j) - 1}; by the block structure of the walk (prefix_block) every string
   loaded up to then has ones there, so the reduced gate is active on a loaded string only if the full one is.
   Complex data (the RZ layers) and the lexicographic re-ordering of the data are NOT in this theorem (tests). *)
Theorem hw_encoder_ok :
  forall (R : Type) (r0 r1 : R) (radd rmul rsub : R -> R -> R) (ropp : R -> R),
  ring_theory r0 r1 radd rmul rsub ropp (@eq R) ->
  forall n k opt, 1 <= k < n ->
  exists bs gs, hw_texts n k = Some bs /\ hw_cgates n k opt = Some gs /\
    forall (cs : list (R * R)) (r : R), length cs = length gs ->
    forall b0, hd_error bs = Some b0 ->
    forall x, length x = n ->
      run_hw R radd rmul rsub gs cs (fun y => if bits_eqb b0 y then r else r0) x
      = amp_of_list R r0 (rev (combine bs (spread R rmul cs r))) x.
Proof.
  intros R r0 r1 radd rmul rsub ropp Rring n k opt Hk.
  apply (hw_encoder_chain R r0 r1 radd rmul rsub ropp Rring). now apply hw_ok_all.
Qed.
Print Assumptions hw_encoder_ok.

Theorem hw_emitted_chain_ok : forall n k opt, 1 <= k < n -> hw_ok n k opt = true.
Proof. exact hw_ok_all. Qed.
Print Assumptions hw_emitted_chain_ok.

(* ALL n, full control sets (optimize_controls=False: the variant binary_encoder uses), array coordinates
   (position p of the bit string = qubit n-1-p): along the Ehrlich walk from ANY consecutive-ones string the gates
   RBS(out -> in) controlled by the k-1 common ones load the spread c0 r, s0 c1 r, ... on the walk strings (which
   are all weight-k strings, each once) and amplitude 0 on every other basis state.  The non-interference is a
   counting argument: k-1 controls plus exactly one of in/out pin a weight-k string to one of the two. *)
Theorem hw_encoder_ok_full_controls :
  forall (R : Type) (r0 r1 : R) (radd rmul rsub : R -> R -> R) (ropp : R -> R),
  ring_theory r0 r1 radd rmul rsub ropp (@eq R) ->
  forall x j y, let n := x + j + y in let s0 := cf x j y in
  exists es, walk (binom n j - 1) s0 (markers0 s0) = Some es /\
    NoDup (s0 :: map e_string es) /\
    (forall t, In t (s0 :: map e_string es) <-> (length t = n /\ weight t = j)) /\
    forall (cs : list (R * R)) (r : R), length cs = length es ->
    forall t, length t = n ->
      run_hw R radd rmul rsub (map cg_of es) cs (fun u => if bits_eqb s0 u then r else r0) t
      = amp_of_list R r0 (rev (combine (s0 :: map e_string es) (spread R rmul cs r))) t.
Proof. exact hw_all_n. Qed.
Print Assumptions hw_encoder_ok_full_controls.

Example hw_ok_example : hw_ok 5 2 true = true /\ hw_cgates 4 2 true = Some [mkCG 2 0 []; mkCG 0 1 []; mkCG 3 2 [1]; mkCG 1 0 [2]; mkCG 2 1 [0]].
Proof. split; vm_compute; reflexivity. Qed.

(* ---------------------------------------------------------------- entangling_layer, phase_encoder, binary_encoder (hopf): all n *)
(* every gate of every architecture (diagonal, even_layer, odd_layer, shifted, next_nearest, pyramid, v, x; with or
   without closed boundary) acts on two distinct qubits of the register *)
Theorem entangling_layer_ok : forall a n closed, 2 <= n ->
  forall pq, In pq (ent_pairs a n closed) -> fst pq < n /\ snd pq < n /\ fst pq <> snd pq.
Proof. exact ent_pairs_ok. Qed.
Print Assumptions entangling_layer_ok.

Theorem entangling_shifted_is_diagonal : forall n closed,
  Permutation (ent_pairs AShifted n closed) (ent_pairs ADiagonal n closed).
Proof. exact ent_shifted_perm. Qed.
Print Assumptions entangling_shifted_is_diagonal.

Theorem entangling_layer_sizes : forall n, 2 <= n ->
  length (ent_pairs ADiagonal n false) = n - 1 /\ length (ent_pairs ADiagonal n true) = n /\
  length (ent_pairs ANextNearest n false) = n - 2 /\ length (ent_pairs AV n false) = 2 * (n - 1) - 1.
Proof. exact ent_lengths. Qed.
Print Assumptions entangling_layer_sizes.

Theorem phase_encoder_ok : forall (D : Type) (data : list D) q d,
  nth_error (phase_gates data) q = Some (q, d) <-> nth_error data q = Some d.
Proof. intros D. exact (@phase_gates_spec D). Qed.
Print Assumptions phase_encoder_ok.

Theorem binary_hopf_rotations_fully_controlled : forall n lvl j, lvl < n ->
  exists anti ctrl,
    hopf_gate n lvl j = map (fun q => (0, [q])) anti ++ [(1, lvl :: sort (ctrl ++ anti))] ++ map (fun q => (0, [q])) anti /\
    Permutation (ctrl ++ anti) (seq 0 lvl ++ seq (S lvl) (n - S lvl)).
Proof. exact hopf_gate_shape. Qed.
Print Assumptions binary_hopf_rotations_fully_controlled.

(* ---------------------------------------------------------------- RBS chains on unary amplitudes (all n, ring level) *)
Section Unary.
  Variables (R : Type) (r0 r1 : R) (radd rmul rsub : R -> R -> R) (ropp : R -> R).
  Hypothesis Rring : ring_theory r0 r1 radd rmul rsub ropp (@eq R).

  (* the diagonal RBS ladder spreads the amplitude at position k as  c0 r, s0 c1 r, s0 s1 c2 r, ... *)
  Theorem rbs_chain_rotations : forall cs k (a : nat -> R),
    (forall p, k < p -> a p = r0) ->
    forall p, run_diag R radd rmul rsub k cs a p =
      if p <? k then a p else nth (p - k) (spread R rmul cs (a k)) r0.
  Proof. exact (run_diag_spec R r0 r1 radd rmul rsub ropp Rring). Qed.

  (* with c_k N_k = x_k and s_k N_k = N_{k+1} (last "norm" = last datum), every amplitude times N_0
     is the datum:  a_k * N_0 = x_k * r   -- i.e. a = x / ||x|| when r = 1 and N_0 = ||x|| <> 0 *)
  Theorem unary_diagonal_ok_ring : forall cs xs N r,
    loads R rmul cs xs N ->
    map (fun a => rmul a N) (spread R rmul cs r) = map (fun x => rmul x r) xs.
  Proof. exact (spread_loads R r0 r1 radd rmul rsub ropp Rring). Qed.

  (* tree loader, BREADTH-FIRST GATE LIST (Model.tree_rows = _generate_rbs_pairs in data coordinates
     p = n-1-qubit, tied to the real code by the structural correspondence): executing the RBS gates row by
     row on the unit amplitude r at position 0 leaves the amplitudes Lf on the leaf positions and zero
     elsewhere, and Lf * N0 = data * r whenever the angles satisfy the load equations level by level
     (c N_parent = N_left, s N_parent = N_right, as r_array / phases of _generate_rbs_angles; zero blocks
     included).  What stays tested: that acos(...) of the real code satisfies these equations. *)
  Theorem unary_tree_bfs_ok_ring : forall fuel n (rows : list (list (R * R))) (N0 r : R) (data : list R),
    rows_ok R 1 rows ->
    chain_loads R rmul fuel (n / 2) rows [N0] data ->
    let a := run_pair_rows R radd rmul rsub (tree_rows fuel n (n / 2) [0]) rows (fun p => if Nat.eqb p 0 then r else r0) in
    let Lf := levels R rmul fuel (n / 2) rows [r] in
    (forall p, a p = amp_at R r0 (leaves R fuel (n / 2) [0] rows) Lf p) /\
    map (fun u => rmul u N0) Lf = map (fun x => rmul x r) data.
  Proof. exact (tree_bfs_loads R r0 r1 radd rmul rsub ropp Rring). Qed.

  (* tree loader, recursive form: every leaf amplitude times the root norm is its datum, zero blocks included *)
  Theorem unary_tree_ok_ring : forall (t : ltree R) N a,
    loads_tree R rmul t N ->
    map (fun u => rmul u N) (spread_tree R rmul t a) = map (fun x => rmul x a) (tree_data R t).
  Proof. exact (spread_tree_loads R r0 r1 radd rmul rsub ropp Rring). Qed.
End Unary.
Print Assumptions unary_tree_ok_ring.
Print Assumptions unary_tree_bfs_ok_ring.
Print Assumptions rbs_chain_rotations.
Print Assumptions unary_diagonal_ok_ring.

(* non-vacuity over Z: data (3, 4) scaled: N0 = 5, c0 N0 = 3, s0 N0 = 4 with (c0, s0) = (3, 4), N0 = 1 *)
(* n = 8: three rows of gates, the leaves are the positions 0..7 in order; data (0,0,0,0,3,4,0,5) loads with
   N0 = 1 over Z (c, s) = (0,1) at the root ... : a concrete instance of chain_loads with zero blocks *)
Example tree_leaves_8 :
  leaves Z 3 4 [0] [[(0, 1)]; [(1, 0); (1, 1)]; [(1, 0); (1, 0); (3, 4); (0, 5)]]%Z = [0; 1; 2; 3; 4; 5; 6; 7].
Proof. reflexivity. Qed.
Example tree_chain_loads_8 :
  chain_loads Z Z.mul 3 4 [[(0, 1)]; [(1, 0); (1, 1)]; [(1, 0); (1, 0); (3, 4); (0, 5)]]%Z [1%Z] [0; 0; 0; 0; 3; 4; 0; 5]%Z.
Proof.
  simpl. exists [0; 1]%Z. split; [repeat split|]. exists [0; 0; 1; 1]%Z. split; [repeat split|].
  exists [0; 0; 0; 0; 3; 4; 0; 5]%Z. split; [repeat split | reflexivity].
Qed.

(* data (0, 0, 3, 4): the left block is all zero; theta = 0 there (c = 1, s = 0) *)
Example loads_tree_zero_block :
  loads_tree Z Z.mul (Node Z 0 1 (Node Z 1 0 (Leaf Z 0) (Leaf Z 0)) (Node Z 3 4 (Leaf Z 3) (Leaf Z 4)))%Z 1%Z.
Proof. simpl. repeat split; reflexivity. Qed.

Example loads_example : loads Z Z.mul [(3, 4)%Z] [3; 4]%Z 1%Z.
Proof. simpl. split; reflexivity. Qed.
