(* C20/Props.v : property theorems for the library circuit constructors (proofs in Proofs.v).

   Models: C20/Model.v, tied to /repo on every run by harness/c20.py (exact structural correspondence
   of the gate lists / bit-string sequences).  The operator-level statement "QFT(n) is the DFT matrix"
   is proved per run for n = 1..5 (6 in the thorough tier) by Base/TrigMat.mcheck_eq on the traced
   real gate list: BOUNDED INSTANCES, generated obligations, not in this file.

   NOT PROVED (named honestly):
   - qft_ok for all n at matrix level;
   - ehrlich_enumerates for all n (here: every 1 <= k < n <= 10, by computation);
   - unary_tree_ok, hw_encoder_ok, binary-encoder amplitudes (angles are acos/atan2/norms of the data;
     covered by the data-level tests of the harness, tolerance 1e-10). *)
From Coq Require Import List Bool Arith Lia Ring ZArith.
From QV Require Import C20.Model C20.Proofs.
Import ListNotations.

(* ---------------------------------------------------------------- comp_basis_encoder (all n, all bit strings) *)
(* the X gates flip |0...0> to |b> *)
Theorem comp_basis_ok : forall b : bits, run_x (comp_basis b) (repeat false (length b)) = b.
Proof. exact comp_basis_correct. Qed.
Print Assumptions comp_basis_ok.

Theorem comp_basis_gates : forall (b : bits) q, In q (comp_basis b) <-> nth q b false = true.
Proof.
  intros b q. unfold comp_basis. rewrite ones_from_spec, Nat.sub_0_r. split; [tauto | split; [lia | assumption]].
Qed.
Print Assumptions comp_basis_gates.

Example comp_basis_example : comp_basis (bits_of_nat 5 11) = [1; 3; 4].
Proof. reflexivity. Qed.

(* ---------------------------------------------------------------- ghz_state (all n >= 1; qibo rejects n < 2) *)
(* H(0) on |0..0> gives the two branches 00..0 and 10..0 with amplitude 1/sqrt2 each; the CNOT chain
   maps them to 00..0 and 11..1: the state is (|0..0> + |1..1>)/sqrt2 *)
Theorem ghz_ok : forall n, 1 <= n -> ghz_branches n = [repeat false n; repeat true n].
Proof. exact ghz_correct. Qed.
Print Assumptions ghz_ok.

(* ---------------------------------------------------------------- QFT gate list (all n) *)
Theorem qft_structure : forall n sw,
  (forall q, In (QH q) (qft n sw) <-> q < n) /\
  (forall c t k, In (QCU1 c t k) (qft n sw) <-> (t < c < n /\ k = c - t)) /\
  (forall a b, In (QSWAP a b) (qft n sw) <-> (sw = true /\ a < n / 2 /\ b = n - a - 1)) /\
  2 * length (qft n sw) = n * (n + 1) + (if sw then 2 * (n / 2) else 0).
Proof.
  intros n sw. split; [|split; [|split]].
  - intros q. apply qft_H_iff.
  - intros c t k. apply qft_CU1_iff.
  - intros a b. apply qft_SWAP_iff.
  - apply qft_length.
Qed.
Print Assumptions qft_structure.

(* ---------------------------------------------------------------- Ehrlich walk (BOUNDED: n <= 10) *)
(* for every 1 <= k < n <= 10 the walk started at 1^k 0^(n-k) has binom n k strings, without repetition,
   exactly the strings of length n and weight k; consecutive strings differ in exactly two positions (one
   transposition); every reported move (out, in, controls) is the transposition between its two strings
   and its controls are the k-1 ones they share *)
Theorem ehrlich_enumerates_bounded : forall n k, n <= 10 -> 1 <= k < n ->
  exists strs moves,
    ehrlich (initial_string n k) = Some (strs, moves) /\
    length strs = binom n k /\
    NoDup strs /\
    (forall s, In s strs <-> (length s = n /\ weight s = k)) /\
    adjacent_ok strs = true /\ moves_ok strs moves = true.
Proof. intros n k Hn Hk. apply walk_ok_spec. now apply walk_ok_bounded. Qed.
Print Assumptions ehrlich_enumerates_bounded.

(* the malformed input 1010 (ones not consecutive) is rejected: the real code raises IndexError *)
Example ehrlich_malformed : ehrlich [true; false; true; false] = None.
Proof. vm_compute. reflexivity. Qed.

(* ---------------------------------------------------------------- RBS chains on unary amplitudes (all n, ring level) *)
Section Unary.
  Variables (R : Type) (r0 r1 : R) (radd rmul rsub : R -> R -> R) (ropp : R -> R).
  Hypothesis Rring : ring_theory r0 r1 radd rmul rsub ropp (@eq R).

  (* the diagonal RBS ladder spreads the amplitude at position k as  c0 r, s0 c1 r, s0 s1 c2 r, ... *)
  Theorem rbs_chain_rotations : forall cs k (a : nat -> R),
    (forall p, k < p -> a p = r0) ->
    forall p, run_diag R radd rmul rsub k cs a p =
      if p <? k then a p else nth (p - k) (spread R rmul cs (a k)) r0.
  Proof. exact (run_diag_spec R r0 r1 radd rmul rsub ropp Rring). Qed.

  (* with c_k N_k = x_k and s_k N_k = N_{k+1} (last "norm" = last datum), every amplitude times N_0
     is the datum:  a_k * N_0 = x_k * r   -- i.e. a = x / ||x|| when r = 1 and N_0 = ||x|| <> 0 *)
  Theorem unary_diagonal_ok_ring : forall cs xs N r,
    loads R rmul cs xs N ->
    map (fun a => rmul a N) (spread R rmul cs r) = map (fun x => rmul x r) xs.
  Proof. exact (spread_loads R r0 r1 radd rmul rsub ropp Rring). Qed.
End Unary.
Print Assumptions rbs_chain_rotations.
Print Assumptions unary_diagonal_ok_ring.

(* non-vacuity over Z: data (3, 4) scaled: N0 = 5, c0 N0 = 3, s0 N0 = 4 with (c0, s0) = (3, 4), N0 = 1 *)
Example loads_example : loads Z Z.mul [(3, 4)%Z] [3; 4]%Z 1%Z.
Proof. simpl. split; reflexivity. Qed.
