(* C20/PropsAngles.v : property theorems tying the ANGLE formulas of models/encodings.py::_generate_rbs_angles
   (arctan2 of partial norms / acos of ratios of partial norms, with the zero-norm guard and the 2 pi - theta rule
   for negative odd entries) to the ring-level load equations of Props.v.  Proofs: C20/Angles.v.
   Carrier: Coq's real numbers (Reals axioms expected under Print Assumptions).

   Route taken for arctan2: BOTH.  Every theorem is stated for an arbitrary function a2 satisfying the polar
   contract [atan2_contract] (harness/c20.py checks the contract for numpy.arctan2 on every (y, x) pair the real
   code passes to it during the run), and the contract is proved for the concrete [atan2] built from Ratan.atan by
   the quadrant case split ([atan2_satisfies_contract]), which gives the closed instances *_atan2.

   Hypotheses are only: the length the real code accepts (>= 2; tree: a power of two >= 2) and data <> 0
   (norm data <> 0 <-> some entry non-zero: [norm_nonzero_iff]).  Zero entries, all-zero aligned blocks and
   negative entries are covered: no sign is lost (diagonal: cos theta_k carries the sign of x_k, the last angle is a
   full-quadrant arctan2; tree: acos in [0, pi] carries the sign of the even entry, theta -> 2 pi - theta the sign
   of the odd one). *)
From Coq Require Import List Bool Arith Lia Reals Lra ZArith.
From Coquelicot Require Import Complex.
From QV Require Import Base.Cis C20.Model C20.Proofs C20.ProofsTree C20.ProofsEhrlich C20.ProofsHW C20.Angles.
Import ListNotations.
Open Scope R_scope.

(* ---------------------------------------------------------------- arctan2 *)
Theorem atan2_satisfies_contract : atan2_contract atan2.
Proof. exact atan2_ok. Qed.
Print Assumptions atan2_satisfies_contract.

Theorem norm_nonzero_iff_some_entry_nonzero : forall l, norm l <> 0 <-> Exists (fun x => x <> 0) l.
Proof. exact norm_nonzero_iff. Qed.
Print Assumptions norm_nonzero_iff_some_entry_nonzero.

(* ---------------------------------------------------------------- diagonal architecture *)
(* the modelled phases satisfy the hypothesis [loads] of Props.unary_diagonal_ok_ring with N_k = ||data[k:]|| *)
Theorem diagonal_angles_satisfy_load_equations : forall a2, atan2_contract a2 ->
  forall data, (2 <= length data)%nat ->
  loads R Rmult (map cs_of (diag_angles a2 data)) data (norm data).
Proof. exact diag_loads. Qed.
Print Assumptions diagonal_angles_satisfy_load_equations.

(* unary_encoder(data, "diagonal") |0..0>  has amplitude data_p / ||data|| on the one-hot state of data position p
   (qubit n-1-p), for every real data <> 0 of length >= 2 *)
Theorem unary_diagonal_angles_ok : forall a2, atan2_contract a2 ->
  forall data, (2 <= length data)%nat -> norm data <> 0 ->
  forall p, run_diag R Rplus Rmult Rminus 0 (map cs_of (diag_angles a2 data)) delta0 p
            = nth p (map (fun x => x / norm data) data) 0.
Proof. exact diag_angles_ok. Qed.
Print Assumptions unary_diagonal_angles_ok.

Theorem unary_diagonal_angles_ok_atan2 :
  forall data, (2 <= length data)%nat -> norm data <> 0 ->
  forall p, run_diag R Rplus Rmult Rminus 0 (map cs_of (diag_angles atan2 data)) delta0 p
            = nth p (map (fun x => x / norm data) data) 0.
Proof. exact (diag_angles_ok atan2 atan2_ok). Qed.
Print Assumptions unary_diagonal_angles_ok_atan2.

(* hyperspherical coordinates: cos t0, sin t0 cos t1, sin t0 sin t1 cos t2, ... = data / ||data||
   (also the angle list of _binary_encoder_hyperspherical for real data, whose circuit semantics is NOT modelled) *)
Theorem hyperspherical_products_ok : forall a2, atan2_contract a2 ->
  forall data, (2 <= length data)%nat -> norm data <> 0 ->
  spread R Rmult (map cs_of (diag_angles a2 data)) 1 = map (fun x => x / norm data) data.
Proof. exact diag_spread. Qed.
Print Assumptions hyperspherical_products_ok.

(* ---------------------------------------------------------------- tree architecture *)
Theorem tree_angles_satisfy_load_equations : forall m (data : list R), let n := (2 ^ S m)%nat in
  length data = n ->
  let rows := map (map cs_of) (tree_angle_rows (S m) true data) in
  rows_ok R 1 rows /\ chain_loads R Rmult n (n / 2) rows [norm data] data.
Proof. exact tree_chain_loads. Qed.
Print Assumptions tree_angles_satisfy_load_equations.

(* unary_encoder(data, "tree") |0..0>, n = 2^(m+1): the breadth-first gate list of Model.tree_rows (tied to
   _generate_rbs_pairs by the structural correspondence) run with (cos, sin) of the modelled phases *)
Theorem unary_tree_angles_ok : forall m (data : list R), let n := (2 ^ S m)%nat in
  length data = n -> norm data <> 0 ->
  let rows := map (map cs_of) (tree_angle_rows (S m) true data) in
  forall p, run_pair_rows R Rplus Rmult Rminus (tree_rows n n (n / 2) [0%nat]) rows delta0 p
            = nth p (map (fun x => x / norm data) data) 0.
Proof. exact tree_angles_ok. Qed.
Print Assumptions unary_tree_angles_ok.

(* the products of cos / sin down the tree (also the RY(2 theta) angles of _binary_encoder_hopf, whose circuit
   semantics is NOT modelled) *)
Theorem tree_products_ok : forall m (data : list R), let n := (2 ^ S m)%nat in
  length data = n -> norm data <> 0 ->
  levels R Rmult n (n / 2) (map (map cs_of) (tree_angle_rows (S m) true data)) [1]
  = map (fun x => x / norm data) data.
Proof. exact tree_levels_ok. Qed.
Print Assumptions tree_products_ok.

(* ---------------------------------------------------------------- Hamming-weight encoder, real data *)
(* y = the data in the order of the Ehrlich walk (data[lex_order] in the real code; that re-ordering is tied per run) *)
Theorem hw_encoder_angles_ok : forall a2, atan2_contract a2 ->
  forall n k opt, (1 <= k < n)%nat ->
  exists bs gs, hw_texts n k = Some bs /\ hw_cgates n k opt = Some gs /\
    length bs = binom n k /\ (2 <= length bs)%nat /\
    forall y : list R, length y = length bs -> norm y <> 0 ->
    forall b0, hd_error bs = Some b0 ->
    forall x, length x = n ->
      run_hw R Rplus Rmult Rminus gs (map cs_of (diag_angles a2 y)) (fun u => if bits_eqb b0 u then 1 else 0) x
      = amp_of_list R 0 (rev (combine bs (map (fun v => v / norm y) y))) x.
Proof. exact hw_angles_ok. Qed.
Print Assumptions hw_encoder_angles_ok.

(* ---------------------------------------------------------------- Hamming-weight encoder, COMPLEX data *)
(* ring level, all n and k, the emitted control sets, both optimize_controls settings.  Per move the real code emits
   RBS(in, out, theta), RZ(in, -phi), RZ(out, phi), all with the move's controls ([cgate3]; h = e^{i phi/2}, hb = its
   inverse), and finally RZ(qz, 2 phi_last) controlled by the ones of the last walk string, qz a qubit where that
   string has a 0 ([crz]).  Result: the closed form [spread3c] on the walk strings, 0 on every other basis state. *)
Theorem hw_complex_chain_ok :
  forall (T : Type) (t0 t1 : T) (tadd tmul tsub : T -> T -> T) (topp : T -> T),
  ring_theory t0 t1 tadd tmul tsub topp (@eq T) ->
  forall n k opt, (1 <= k < n)%nat ->
  exists bs gs, hw_texts n k = Some bs /\ hw_cgates n k opt = Some gs /\ length bs = S (length gs) /\
    forall (cs : list (T * T * T * T)) (r : T), length cs = length gs -> units T t1 tmul cs ->
    forall b0, hd_error bs = Some b0 ->
    forall qz H HB, nth qz (last bs []) false = false ->
    forall x, length x = n ->
      crz T tmul qz (positions true 0 (last bs [])) H HB
          (run_hw3 T tadd tmul tsub gs cs (fun u => if bits_eqb b0 u then r else t0)) x
      = amp_of_list T t0 (rev (combine bs (spread3c T tmul cs r HB))) x.
Proof. exact hw_complex_chain. Qed.
Print Assumptions hw_complex_chain_ok.

(* over C with the angle formulas of the real code: thetas = diagonal angles of |y|, phis[k] = (-angle(y_k) + sum(phis[:k]))
   mod 2 pi with angle(z) = arctan2(Im z, Re z); y = the complex data in walk order, y <> 0.  Entries equal to 0 and
   arbitrary phases included.  (1/||y||) y_j on the j-th walk string, 0 elsewhere. *)
Theorem hw_encoder_complex_angles_ok : forall a2, atan2_contract a2 ->
  forall n k opt, (1 <= k < n)%nat ->
  exists bs gs, hw_texts n k = Some bs /\ hw_cgates n k opt = Some gs /\ length bs = binom n k /\
    forall y : list C, length y = length bs -> norm (map Cmod y) <> 0 ->
    let ts := diag_angles a2 (map Cmod y) in
    let ps := phis a2 y in
    forall b0, hd_error bs = Some b0 ->
    forall qz, nth qz (last bs []) false = false ->
    forall x, length x = n ->
      crz C Cmult qz (positions true 0 (last bs [])) (cis (last ps 0)) (cis (- last ps 0))
          (run_hw3 C Cplus Cmult Cminus gs (coefs ts (removelast ps))
                   (fun u => if bits_eqb b0 u then RtoC 1 else RtoC 0)) x
      = amp_of_list C (RtoC 0) (rev (combine bs (map (fun z => Cmult (RtoC (/ norm (map Cmod y))) z) y))) x.
Proof. exact hw_complex_angles_ok. Qed.
Print Assumptions hw_encoder_complex_angles_ok.

Theorem angle_mod_two_pi_ok : forall a, 0 <= mod2pi a < 2 * PI /\ cis (mod2pi a) = cis a.
Proof.
  intros a. split; [apply mod2pi_range|]. unfold mod2pi.
  replace (a - IZR (Int_part (a / (2 * PI))) * (2 * PI)) with (a + IZR (- Int_part (a / (2 * PI))) * (2 * PI))
    by (rewrite opp_IZR; ring).
  apply cis_shift.
Qed.
Print Assumptions angle_mod_two_pi_ok.

(* ---------------------------------------------------------------- the exact rational shadow used by the per-run tie *)
Theorem angle_cos2_is_rational : forall a2, atan2_contract a2 ->
  (forall y x, cos (a2 y x) * cos (a2 y x) * (x * x + y * y) = x * x) /\
  (forall a b, cos (theta_inner a b) * cos (theta_inner a b) * (b * b + a * a) = a * a) /\
  (forall a b, cos (theta_leaf a b) * cos (theta_leaf a b) * (b * b + a * a) = a * a).
Proof.
  intros a2 C. split; [exact (a2_cos2 a2 C)|]. split; [exact theta_inner_cos2 | exact theta_leaf_cos2].
Qed.
Print Assumptions angle_cos2_is_rational.

(* ---------------------------------------------------------------- non-vacuity *)
(* (3, 0, -4): a zero and a negative entry, ||.|| = 5 *)
Example diag_example_norm : norm [3; 0; -4] = 5.
Proof. unfold norm. simpl. apply sqrt_lem_1; lra. Qed.
Example diag_example :
  run_diag R Rplus Rmult Rminus 0 (map cs_of (diag_angles atan2 [3; 0; -4])) delta0 2 = -4 / 5.
Proof.
  rewrite unary_diagonal_angles_ok_atan2; [|simpl; lia | rewrite diag_example_norm; lra].
  rewrite diag_example_norm. reflexivity.
Qed.
(* (0, 0, -3, 4): an all-zero aligned block (zero partial norm) and a negative entry *)
Example tree_example_norm : norm [0; 0; -3; 4] = 5.
Proof. unfold norm. simpl. apply sqrt_lem_1; lra. Qed.
Example tree_example :
  run_pair_rows R Rplus Rmult Rminus (tree_rows 4 4 2 [0%nat])
                (map (map cs_of) (tree_angle_rows 2 true [0; 0; -3; 4])) delta0 2 = -3 / 5.
Proof.
  rewrite (unary_tree_angles_ok 1 [0; 0; -3; 4] eq_refl); [|rewrite tree_example_norm; lra].
  rewrite tree_example_norm. reflexivity.
Qed.
(* the zero-norm guard: theta = 0 on the all-zero block, and 2 pi - theta on a negative odd entry *)
Example theta_zero_block : theta_inner 0 0 = 0 /\ theta_leaf 0 0 = 0.
Proof.
  assert (E : theta_inner 0 0 = 0).
  { unfold theta_inner. destruct (Req_EM_T (sqrt (0 * 0 + 0 * 0)) 0) as [_|N]; [reflexivity|].
    exfalso. apply N. replace (0 * 0 + 0 * 0) with 0 by ring. apply sqrt_0. }
  split; [exact E|]. unfold theta_leaf. rewrite E. destruct (Rlt_dec 0 0); [lra | reflexivity].
Qed.
Example theta_negative_odd : theta_leaf 0 (-1) = 2 * PI - PI / 2.
Proof.
  unfold theta_leaf. destruct (Rlt_dec (-1) 0) as [_|N]; [|lra]. f_equal.
  unfold theta_inner. replace (-1 * -1 + 0 * 0) with 1 by ring. rewrite sqrt_1.
  destruct (Req_EM_T 1 0); [lra|]. replace (0 / 1) with 0 by field. apply acos_0.
Qed.
(* complex non-vacuity: y = (3i, -4): |y| = (3, 4), ||y|| = 5 *)
Example complex_example_norm : norm (map Cmod [(0, 3); (-4, 0)]) = 5.
Proof.
  unfold norm. cbn [map sumsq]. unfold Cmod. cbn [fst snd].
  replace (0 ^ 2 + 3 ^ 2) with (3 * 3) by ring. replace ((-4) ^ 2 + 0 ^ 2) with (4 * 4) by ring.
  rewrite !sqrt_square by lra. apply sqrt_lem_1; lra.
Qed.
