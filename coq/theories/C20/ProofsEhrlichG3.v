(* C20/ProofsEhrlichG3.v : composition of two blocks of the Ehrlich walk.
   Res pre U j M fuel endU : started on the string pre ++ U with markers M, the machine makes [fuel] moves,
   never touches pre, ends on pre ++ endU with all markers >= |pre| consumed, and the strings it visits are,
   without repetition, exactly pre ++ u for all u of the length and weight (= j) of U. *)
From Coq Require Import List Bool Arith Lia.
From QV Require Import C20.Model C20.ProofsEhrlich C20.ProofsEhrlichG1 C20.ProofsEhrlichG2.
Import ListNotations.

Definition mk_ok (M : list bool) (s : bits) (p : nat) : Prop :=
  forall q, p <= q < length s -> nth q M false = negb (nth q (suffix_run s) false).

Definition strs_of (s : bits) (es : list estep) : list bits := s :: map e_string es.

Definition Res (pre U : bits) (j : nat) (M : list bool) (fuel : nat) (endU : bits) : Prop :=
  let s := pre ++ U in
  exists es, walk fuel s M = Some es /\
    last_string s es = pre ++ endU /\
    Forall (fun t => exists u, t = pre ++ u /\ length u = length U /\ weight u = j) (strs_of s es) /\
    NoDup (strs_of s es) /\
    (forall u, length u = length U -> weight u = j -> In (pre ++ u) (strs_of s es)) /\
    length (last_markers M es) = length s /\
    (forall q, q < length pre -> nth q (last_markers M es) false = nth q M false) /\
    (forall q, length pre <= q < length s -> nth q (last_markers M es) false = false).

Lemma weight_cons b u : weight (b :: u) = b2n b + weight u.
Proof. unfold weight. destruct b; reflexivity. Qed.

Lemma weight_app u v : weight (u ++ v) = weight u + weight v.
Proof. unfold weight. now rewrite filter_app, app_length. Qed.

Lemma weight_repeat_false m : weight (repeat false m) = 0.
Proof. induction m; simpl; [reflexivity|]. now rewrite weight_cons. Qed.

Lemma weight_repeat_true m : weight (repeat true m) = m.
Proof. induction m; simpl; [reflexivity|]. rewrite weight_cons, IHm. reflexivity. Qed.

Lemma weight_le u : weight u <= length u.
Proof. induction u as [|b u IH]; [reflexivity|]. rewrite weight_cons. simpl. destruct b; simpl; lia. Qed.

Lemma weight_zero u : weight u = 0 -> u = repeat false (length u).
Proof.
  induction u as [|b u IH]; intros H; [reflexivity|]. rewrite weight_cons in H. destruct b; simpl in H; [lia|].
  simpl. f_equal. now apply IH.
Qed.

Lemma weight_full u : weight u = length u -> u = repeat true (length u).
Proof.
  induction u as [|b u IH]; intros H; [reflexivity|]. rewrite weight_cons in H. simpl in H. pose proof (weight_le u).
  destruct b; simpl in H; [|lia]. simpl. f_equal. apply IH. lia.
Qed.

(* the position |pre| is not in the trailing run when the rest holds both values *)
Lemma not_trail s p r1 r2 :
  p <= r1 < length s -> p <= r2 < length s -> nth r1 s false = true -> nth r2 s false = false ->
  nth p (suffix_run s) false = false.
Proof.
  intros H1 H2 T F. destruct (nth p (suffix_run s) false) eqn:E; [|reflexivity].
  pose proof (proj1 (trail_spec s p ltac:(lia)) E) as E'. rewrite (E' r1 H1) in T. rewrite (E' r2 H2) in F. congruence.
Qed.

(* a constant tail lies entirely in the trailing run *)
Lemma trail_const pre v m q :
  length pre <= q < length pre + m -> nth q (suffix_run (pre ++ repeat v m)) false = true.
Proof.
  intros H. set (s := pre ++ repeat v m).
  assert (Ls : length s = length pre + m) by (unfold s; now rewrite app_length, repeat_length).
  apply trail_spec; [lia|]. intros r Hr.
  assert (V : forall r, length pre <= r < length s -> nth r s false = v).
  { intros r0 H0. unfold s. rewrite app_nth2 by lia. apply nth_repeat_in. lia. }
  rewrite V by lia. rewrite last_nth by (intros E; rewrite E in Ls; simpl in Ls; lia).
  symmetry. apply V. lia.
Qed.

Lemma nodup_app_disjoint {A} (l1 l2 : list A) :
  NoDup l1 -> NoDup l2 -> (forall x, In x l1 -> In x l2 -> False) -> NoDup (l1 ++ l2).
Proof.
  induction l1 as [|a l1 IH]; intros N1 N2 D; simpl; [exact N2|].
  inversion N1 as [|? ? Na N1']; subst. constructor.
  - intros C. apply in_app_or in C as [C|C]; [contradiction|]. apply (D a); [now left | exact C].
  - apply IH; try assumption. intros x H1 H2. apply (D x); [now right | exact H2].
Qed.

(* ---------------------------------------------------------------- two blocks and the move between them *)
Lemma compose (b : bool) (pre U U' E E' : bits) (j j1 j2 f1 f2 : nat) (M : list bool) :
  let p := length pre in
  let s := pre ++ b :: U in
  length U' = length U -> length E = length U ->
  j1 + b2n b = j -> j2 + b2n (negb b) = j ->
  length M = length s -> mk_ok M s p ->
  nth p (suffix_run s) false = false ->
  Res (pre ++ [b]) U j1 M f1 E ->
  (forall M1, max_true 0 M1 = Some p ->
     exists o' i' cs, next_bitstring (pre ++ b :: E) M1 =
                      Some (mkE (pre ++ negb b :: U') (new_markers p M1 (pre ++ negb b :: U')) o' i' cs)) ->
  (forall M2, length M2 = length s -> mk_ok M2 (pre ++ negb b :: U') (S p) ->
     Res (pre ++ [negb b]) U' j2 M2 f2 E') ->
  Res pre (b :: U) j M (f1 + (1 + f2)) (negb b :: E').
Proof.
  intros p s LU' LE J1 J2 LM OK NT R1 MV R2.
  assert (Ls : length s = S (p + length U)) by (unfold s, p; rewrite app_length; simpl; lia).
  assert (A1 : (pre ++ [b]) ++ U = s) by (unfold s; now rewrite <- app_assoc).
  destruct R1 as [es1 [W1 [L1 [F1 [N1 [C1 [LM1 [B1 G1]]]]]]]]. rewrite A1 in *.
  rewrite app_length in B1, G1. simpl in B1, G1. fold p in B1, G1.
  set (M1 := last_markers M es1) in *.
  assert (L1' : last_string s es1 = pre ++ b :: E) by (rewrite L1, <- app_assoc; reflexivity).
  (* the marker at p is the largest one *)
  assert (MX : max_true 0 M1 = Some p).
  { apply (max_true_spec M1 0 p).
    - rewrite B1 by lia. rewrite (OK p) by lia. now rewrite NT.
    - intros q Hq. destruct (Nat.lt_ge_cases q (length s)) as [H|H]; [apply G1; lia|].
      apply nth_overflow. lia. }
  destruct (MV M1 MX) as [o' [i' [cs NB]]].
  set (s2 := pre ++ negb b :: U') in *.
  assert (Ls2 : length s2 = length s) by (unfold s2; rewrite app_length; simpl; fold p; lia).
  set (M2 := new_markers p M1 s2) in *.
  assert (LM2 : length M2 = length s) by (unfold M2; rewrite new_markers_length; lia).
  assert (OK2 : mk_ok M2 s2 (S p)).
  { intros q Hq. unfold M2. rewrite new_markers_nth by lia.
    replace (q <? p) with false by (symmetry; apply Nat.ltb_ge; lia).
    replace (q =? p) with false by (symmetry; apply Nat.eqb_neq; lia).
    rewrite G1 by lia. reflexivity. }
  destruct (R2 M2 LM2 OK2) as [es2 [W2 [L2 [F2 [N2 [C2 [LM2' [B2 G2]]]]]]]].
  assert (A2 : (pre ++ [negb b]) ++ U' = s2) by (unfold s2; now rewrite <- app_assoc).
  rewrite A2 in *. rewrite app_length in B2, G2. simpl in B2, G2. fold p in B2, G2.
  set (e := mkE s2 M2 o' i' cs) in *.
  unfold Res. cbv zeta. fold s. exists (es1 ++ e :: es2).
  assert (WW : walk (f1 + (1 + f2)) s M = Some (es1 ++ e :: es2)).
  { apply (walk_app f1 (1 + f2) s M es1 (e :: es2) W1). rewrite L1'. fold M1.
    change (1 + f2) with (S f2). simpl. rewrite NB. fold e. simpl. now rewrite W2. }
  assert (ST : strs_of s (es1 ++ e :: es2) = strs_of s es1 ++ strs_of s2 es2).
  { unfold strs_of. rewrite map_app. reflexivity. }
  split; [exact WW|]. split; [|split; [|split; [|split; [|split; [|split]]]]].
  - rewrite last_string_app. simpl. rewrite L2, <- app_assoc. reflexivity.
  - rewrite ST. apply Forall_app. split.
    + eapply Forall_impl; [|exact F1]. intros t [u [-> [Lu Wu]]]. exists (b :: u). repeat split.
      * now rewrite <- app_assoc.
      * simpl. now rewrite Lu.
      * rewrite weight_cons. lia.
    + eapply Forall_impl; [|exact F2]. intros t [u [-> [Lu Wu]]]. exists (negb b :: u). repeat split.
      * now rewrite <- app_assoc.
      * simpl. rewrite Lu. lia.
      * rewrite weight_cons. lia.
  - rewrite ST. apply nodup_app_disjoint; try assumption.
    intros t H1 H2. rewrite Forall_forall in F1, F2.
    destruct (F1 t H1) as [u1 [E1 _]]. destruct (F2 t H2) as [u2 [E2 _]].
    assert (X1 : nth p t false = b) by (rewrite E1, <- app_assoc; unfold p; apply nth_mid).
    assert (X2 : nth p t false = negb b) by (rewrite E2, <- app_assoc; unfold p; apply nth_mid).
    rewrite X1 in X2. now destruct b.
  - intros u Lu Wu. destruct u as [|c u]; [discriminate|]. simpl in Lu. injection Lu as Lu.
    rewrite weight_cons in Wu. rewrite ST. apply in_or_app.
    destruct (Bool.bool_dec c b) as [->|Nc].
    + left. replace (pre ++ b :: u) with ((pre ++ [b]) ++ u) by (now rewrite <- app_assoc).
      apply C1; [exact Lu | lia].
    + right. assert (c = negb b) by (destruct c, b; simpl; try reflexivity; exfalso; now apply Nc). subst c.
      replace (pre ++ negb b :: u) with ((pre ++ [negb b]) ++ u) by (now rewrite <- app_assoc).
      apply C2; [lia | lia].
  - rewrite last_markers_app. simpl. fold M1. rewrite LM2'. exact Ls2.
  - intros q Hq. rewrite last_markers_app. simpl. rewrite B2 by lia.
    unfold M2. rewrite new_markers_nth by lia.
    replace (q <? p) with true by (symmetry; apply Nat.ltb_lt; lia). apply B1. lia.
  - intros q Hq. rewrite last_markers_app. simpl.
    destruct (Nat.eq_dec q p) as [->|Nq].
    + rewrite B2 by lia. unfold M2. rewrite new_markers_nth by lia.
      rewrite Nat.ltb_irrefl, Nat.eqb_refl. reflexivity.
    + apply G2. rewrite Ls2. simpl in Hq. lia.
Qed.
