(* C20/ProofsQFT.v : the QFT ladder on computational basis states, for ALL n, in the product-state
   semantics of Model.v (pstep): after QFT(n, with_swaps=False) qubit q is
   (|0> + e^{2 pi i 0.x_q x_{q+1} ... x_{n-1}} |1>)/sqrt2 ; with swaps the order of the qubits is reversed. *)
From Coq Require Import List Bool Arith Lia.
From QV Require Import C20.Model.
Import ListNotations.

Lemma prun_app n a b f :
  prun n (a ++ b) f = match prun n a f with Some f1 => prun n b f1 | None => None end.
Proof.
  unfold prun. rewrite fold_left_app.
  destruct (fold_left _ a (Some f)) as [f1|]; [reflexivity|].
  induction b as [|g b IH]; simpl; [reflexivity | exact IH].
Qed.

Lemma prun_cons n g gs f :
  prun n (g :: gs) f = match pstep n f g with Some f1 => prun n gs f1 | None => None end.
Proof.
  change (g :: gs) with ([g] ++ gs). rewrite prun_app. reflexivity.
Qed.

Lemma list_sum_cons a l : list_sum (a :: l) = a + list_sum l.
Proof. reflexivity. Qed.

Lemma upd_same f q v : upd f q v q = v.
Proof. unfold upd. now rewrite Nat.eqb_refl. Qed.
Lemma upd_other f q v p : p <> q -> upd f q v p = f p.
Proof. intros H. unfold upd. apply Nat.eqb_neq in H. now rewrite H. Qed.

Section Ladder.
  Variables (n : nat) (x : bits).
  Let xb (c : nat) : bool := nth c x false.
  Let term (i c : nat) : nat := b2n (xb c) * 2 ^ (n - 1 - (c - i)).

  (* the controlled-phase gates of block i whose controls are c0 .. c0+m-1 *)
  Lemma inner : forall m c0 i f num,
    i < c0 -> c0 + m <= n ->
    f i = QP num ->
    (forall c, c0 <= c < c0 + m -> f c = QB (xb c)) ->
    exists f', prun n (map (fun i2 => QCU1 i2 i (i2 - i)) (seq c0 m)) f = Some f' /\
               f' i = QP (num + list_sum (map (term i) (seq c0 m))) /\
               (forall q, q <> i -> f' q = f q).
  Proof.
    induction m as [|m IH]; intros c0 i f num Hi Hn Fi Fc.
    - exists f. simpl. rewrite Nat.add_0_r. repeat split; auto.
    - cbn [seq map]. rewrite prun_cons. cbn [pstep].
      rewrite (Fc c0) by lia. rewrite Fi.
      replace (c0 - i <? n) with true by (symmetry; apply Nat.ltb_lt; lia).
      set (f1 := upd f i (QP (num + b2n (xb c0) * 2 ^ (n - 1 - (c0 - i))))).
      destruct (IH (S c0) i f1 (num + b2n (xb c0) * 2 ^ (n - 1 - (c0 - i)))) as [f' [R [P O]]].
      + lia.
      + lia.
      + apply upd_same.
      + intros c Hc. unfold f1. rewrite upd_other by lia. apply Fc. lia.
      + exists f'. split; [exact R|]. split.
        * rewrite P. apply (f_equal QP). rewrite list_sum_cons. unfold term. rewrite Nat.add_assoc. reflexivity.
        * intros q Hq. rewrite (O q Hq). unfold f1. now apply upd_other.
  Qed.

  Lemma block : forall i f,
    i < n ->
    (forall c, i <= c < n -> f c = QB (xb c)) ->
    exists f', prun n (qft_block n i) f = Some f' /\
               f' i = QP (qphase n x i) /\ (forall q, q <> i -> f' q = f q).
  Proof.
    intros i f Hi F. unfold qft_block. rewrite prun_cons. cbn [pstep]. rewrite (F i) by lia.
    set (f1 := upd f i (QP (b2n (xb i) * 2 ^ (n - 1)))).
    destruct (inner (n - S i) (S i) i f1 (b2n (xb i) * 2 ^ (n - 1))) as [f' [R [P O]]].
    - lia.
    - lia.
    - apply upd_same.
    - intros c Hc. unfold f1. rewrite upd_other by lia. apply F. lia.
    - exists f'. split; [exact R|]. split.
      + rewrite P. apply (f_equal QP). unfold qphase.
        replace (n - i) with (S (n - S i)) by lia. cbn [seq map]. rewrite list_sum_cons.
        unfold term, xb. rewrite Nat.sub_diag, Nat.sub_0_r. reflexivity.
      + intros q Hq. rewrite (O q Hq). unfold f1. now apply upd_other.
  Qed.

  Lemma blocks : forall m i f,
    i + m <= n ->
    (forall q, q < i -> f q = QP (qphase n x q)) ->
    (forall c, i <= c < n -> f c = QB (xb c)) ->
    exists f', prun n (flat_map (qft_block n) (seq i m)) f = Some f' /\
               (forall q, q < i + m -> f' q = QP (qphase n x q)) /\
               (forall c, i + m <= c < n -> f' c = QB (xb c)) /\
               (forall c, n <= c -> f' c = f c).
  Proof.
    induction m as [|m IH]; intros i f Hm Fp Fb.
    - exists f. simpl. rewrite Nat.add_0_r. repeat split; auto.
    - cbn [seq flat_map]. rewrite prun_app.
      destruct (block i f) as [f1 [R1 [P1 O1]]]; [lia | exact Fb |].
      rewrite R1.
      destruct (IH (S i) f1) as [f' [R [P [B O]]]].
      + lia.
      + intros q Hq. destruct (Nat.eq_dec q i) as [->|Ne]; [exact P1|].
        rewrite (O1 q Ne). apply Fp. lia.
      + intros c Hc. rewrite O1 by lia. apply Fb. lia.
      + exists f'. split; [exact R|]. repeat split.
        * intros q Hq. apply P. lia.
        * intros c Hc. apply B. lia.
        * intros c Hc. rewrite O by exact Hc. apply O1. lia.
  Qed.
End Ladder.

Theorem qft_noswap_product (x : bits) :
  let n := length x in
  exists f, prun n (qft n false) (qinit x) = Some f /\ forall q, q < n -> f q = QP (qphase n x q).
Proof.
  intros n. unfold qft. rewrite app_nil_r.
  destruct (blocks n x n 0 (qinit x)) as [f [R [P _]]].
  - lia.
  - intros q Hq. lia.
  - intros c _. reflexivity.
  - exists f. split; [exact R|]. intros q Hq. apply P. lia.
Qed.

(* the final SWAPs reverse the register *)
Lemma swaps_reverse n : forall m f,
  2 * m <= n ->
  exists f', prun n (map (fun i => QSWAP i (n - i - 1)) (seq 0 m)) f = Some f' /\
    (forall q, q < m -> f' q = f (n - 1 - q)) /\
    (forall q, q < m -> f' (n - 1 - q) = f q) /\
    (forall q, m <= q -> q + m < n -> f' q = f q) /\
    (forall q, n <= q -> f' q = f q).
Proof.
  induction m as [|m IH]; intros f Hm.
  - exists f. simpl. repeat split; auto; intros; lia.
  - rewrite seq_S, map_app, prun_app. simpl seq. cbn [map].
    destruct (IH f ltac:(lia)) as [f1 [R1 [A1 [B1 [C1 D1]]]]].
    rewrite R1. rewrite prun_cons. cbn [pstep].
    exists (upd (upd f1 m (f1 (n - m - 1))) (n - m - 1) (f1 m)). split; [reflexivity|].
    assert (Em : f1 m = f m) by (apply C1; lia).
    assert (En : f1 (n - m - 1) = f (n - m - 1)) by (apply C1; lia).
    repeat split.
    + intros q Hq. destruct (Nat.eq_dec q m) as [->|Ne].
      * rewrite upd_other by lia. rewrite upd_same, En. f_equal. lia.
      * rewrite upd_other by lia. rewrite upd_other by lia. apply A1. lia.
    + intros q Hq. destruct (Nat.eq_dec q m) as [->|Ne].
      * replace (n - 1 - m) with (n - m - 1) by lia. rewrite upd_same. exact Em.
      * rewrite upd_other by lia. rewrite upd_other by lia. apply B1. lia.
    + intros q H1 H2. rewrite upd_other by lia. rewrite upd_other by lia. apply C1; lia.
    + intros q Hq. rewrite upd_other by lia. rewrite upd_other by lia. now apply D1.
Qed.

Theorem qft_swap_product (x : bits) :
  let n := length x in
  exists f, prun n (qft n true) (qinit x) = Some f /\ forall q, q < n -> f q = QP (qphase n x (n - 1 - q)).
Proof.
  intros n. unfold qft. rewrite prun_app.
  destruct (blocks n x n 0 (qinit x)) as [f [R [P _]]]; try lia.
  - intros c _. reflexivity.
  - rewrite R.
    assert (H2 : 2 * (n / 2) <= n) by (pose proof (Nat.div_mod n 2 ltac:(lia)); lia).
    destruct (swaps_reverse n (n / 2) f H2) as [f' [R' [A [B [C _]]]]].
    exists f'. split; [exact R'|]. intros q Hq.
    destruct (Nat.lt_ge_cases q (n / 2)) as [L|G].
    + rewrite A by exact L. apply P. lia.
    + destruct (Nat.lt_ge_cases (q + n / 2) n) as [L2|G2].
      * (* the middle qubit of an odd register *)
        rewrite C by assumption.
        assert (E : n - 1 - q = q) by (pose proof (Nat.div_mod n 2 ltac:(lia)); pose proof (Nat.mod_upper_bound n 2 ltac:(lia)); lia).
        rewrite E. apply P. lia.
      * replace q with (n - 1 - (n - 1 - q)) at 1 by lia. rewrite B by lia. apply P. lia.
Qed.

(* ------------------------------------------------------------------ the product form IS the DFT column *)
(* amplitude of |y> in the product state with phases p_q:  2^{-n/2} e^{2 pi i (sum_q y_q p_q) / 2^n}.
   With swaps p_q = qphase n x (n-1-q), and  sum_q y_q p_q  is congruent to  X * Y  modulo 2^n, where
   X = qphase n x 0 and Y = qphase n y 0 are the integers whose big-endian digits are x and y. *)
Lemma list_sum_app a b : list_sum (a ++ b) = list_sum a + list_sum b.
Proof. induction a as [|u a IH]; simpl; [reflexivity | rewrite IH; lia]. Qed.

Lemma list_sum_scale (g : nat -> nat) k l : list_sum (map (fun c => g c * k) l) = list_sum (map g l) * k.
Proof. induction l as [|u l IH]; simpl; [reflexivity | rewrite IH; lia]. Qed.

Lemma list_sum_ext (f g : nat -> nat) l : (forall c, In c l -> f c = g c) -> list_sum (map f l) = list_sum (map g l).
Proof.
  induction l as [|u l IH]; intros H; simpl; [reflexivity|].
  rewrite (H u (or_introl eq_refl)), IH; [reflexivity|]. intros; apply H; now right.
Qed.

Lemma pow_split a b : 2 ^ (a + b) = 2 ^ a * 2 ^ b.
Proof. apply Nat.pow_add_r. Qed.

Lemma qphase_shift n x i : i <= n ->
  exists K, qphase n x 0 * 2 ^ i = 2 ^ n * K + qphase n x i.
Proof.
  intros Hi. unfold qphase. rewrite Nat.sub_0_r.
  assert (E : seq 0 n = seq 0 i ++ seq i (n - i)) by (rewrite <- seq_app; f_equal; lia).
  rewrite E, map_app, list_sum_app.
  exists (list_sum (map (fun c => b2n (nth c x false) * 2 ^ (i - 1 - c)) (seq 0 i))).
  rewrite Nat.mul_add_distr_r. f_equal.
  - rewrite <- list_sum_scale, Nat.mul_comm, <- list_sum_scale.
    apply list_sum_ext. intros c Hc. apply in_seq in Hc.
    rewrite Nat.sub_0_r, <- !Nat.mul_assoc. f_equal. rewrite <- !pow_split. f_equal. lia.
  - rewrite <- list_sum_scale. apply list_sum_ext. intros c Hc. apply in_seq in Hc.
    rewrite Nat.sub_0_r, <- Nat.mul_assoc. f_equal. rewrite <- pow_split. f_equal. lia.
Qed.

Lemma dft_phase_gen n x (yb : nat -> nat) : forall l,
  (forall q, In q l -> q < n) ->
  exists K, list_sum (map (fun q => yb q * (qphase n x 0 * 2 ^ (n - 1 - q))) l)
            = 2 ^ n * K + list_sum (map (fun q => yb q * qphase n x (n - 1 - q)) l).
Proof.
  induction l as [|q l IH]; intros H.
  - exists 0. simpl. lia.
  - destruct IH as [K1 E1]; [intros; apply H; now right|].
    destruct (qphase_shift n x (n - 1 - q) ltac:(lia)) as [K2 E2].
    exists (K1 + yb q * K2). cbn [map]. rewrite !list_sum_cons. rewrite E1, E2. lia.
Qed.

Theorem dft_phase_congruence n x y :
  exists K, qphase n x 0 * qphase n y 0
            = 2 ^ n * K + list_sum (map (fun q => b2n (nth q y false) * qphase n x (n - 1 - q)) (seq 0 n)).
Proof.
  destruct (dft_phase_gen n x (fun q => b2n (nth q y false)) (seq 0 n)) as [K E].
  - intros q Hq. apply in_seq in Hq. lia.
  - exists K. rewrite <- E. unfold qphase at 2. rewrite Nat.sub_0_r.
    rewrite Nat.mul_comm, <- list_sum_scale. apply list_sum_ext. intros c Hc.
    rewrite Nat.sub_0_r. lia.
Qed.

(* without swaps: sum_q y_q * phase_q  =  X * Yrev  (mod 2^n),  Yrev = sum_q y_q 2^q  (y read backwards) *)
Lemma dft_phase_gen_rev n x (yb : nat -> nat) : forall l,
  (forall q, In q l -> q < n) ->
  exists K, list_sum (map (fun q => yb q * (qphase n x 0 * 2 ^ q)) l)
            = 2 ^ n * K + list_sum (map (fun q => yb q * qphase n x q) l).
Proof.
  induction l as [|q l IH]; intros H.
  - exists 0. simpl. lia.
  - destruct IH as [K1 E1]; [intros; apply H; now right|].
    destruct (qphase_shift n x q) as [K2 E2]; [specialize (H q (or_introl eq_refl)); lia|].
    exists (K1 + yb q * K2). cbn [map]. rewrite !list_sum_cons. rewrite E1, E2. lia.
Qed.

Definition rev_value (n : nat) (y : bits) : nat :=
  list_sum (map (fun q => b2n (nth q y false) * 2 ^ q) (seq 0 n)).

Theorem dft_phase_congruence_rev n x y :
  exists K, qphase n x 0 * rev_value n y
            = 2 ^ n * K + list_sum (map (fun q => b2n (nth q y false) * qphase n x q) (seq 0 n)).
Proof.
  destruct (dft_phase_gen_rev n x (fun q => b2n (nth q y false)) (seq 0 n)) as [K E].
  - intros q Hq. apply in_seq in Hq. lia.
  - exists K. rewrite <- E. unfold rev_value.
    rewrite Nat.mul_comm, <- list_sum_scale. apply list_sum_ext. intros c Hc. lia.
Qed.
