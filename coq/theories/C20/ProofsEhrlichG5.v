(* C20/ProofsEhrlichG5.v : the eight shapes of the inductive step and the main theorem. *)
From Coq Require Import List Bool Arith Lia.
From QV Require Import C20.Model C20.ProofsEhrlich C20.ProofsEhrlichG1 C20.ProofsEhrlichG2 C20.ProofsEhrlichG3 C20.ProofsEhrlichG4.
Import ListNotations.

Lemma fuel_A L' j' : S j' <= L' ->
  binom (S L') (S j') - 1 = (binom L' (S j') - 1) + (1 + (binom L' j' - 1)).
Proof. intros H. simpl. pose proof (binom_pos L' j' ltac:(lia)). pose proof (binom_pos L' (S j') H). lia. Qed.

Lemma fuel_B L' j' : S j' <= L' ->
  binom (S L') (S j') - 1 = (binom L' j' - 1) + (1 + (binom L' (S j') - 1)).
Proof. intros H. simpl. pose proof (binom_pos L' j' ltac:(lia)). pose proof (binom_pos L' (S j') H). lia. Qed.

Theorem main_all : forall L, Main L.
Proof.
  induction L as [|L' IH]; intros x j y HL pre M LM OK.
  - (* empty tail *)
    assert (x = 0 /\ j = 0 /\ y = 0) as [-> [-> ->]] by lia.
    change (cf 0 0 0) with (repeat false 0). change (endf 0 0 0) with (repeat false 0).
    change (binom 0 0 - 1) with 0. change 0 with (weight (repeat false 0)) at 3.
    apply Res_const; [lia | exact OK].
  - destruct j as [|j'].
    { (* no ones: constant *)
      rewrite binom_0_r, endf_j0. change (1 - 1) with 0. rewrite cf_zero_j in *.
      replace 0 with (weight (repeat false (x + y))) at 1 by apply weight_repeat_false.
      apply Res_const; [lia | exact OK]. }
    destruct (x + y) as [|a] eqn:Ea.
    { (* no zeros: constant *)
      assert (x = 0 /\ y = 0) as [-> ->] by lia.
      assert (H : S j' = S L') by lia.
      replace (binom (S L') (S j')) with 1 by (rewrite <- H; symmetry; apply binom_diag).
      change (1 - 1) with 0. rewrite endf_full. rewrite cf_full in *.
      replace (S j') with (weight (repeat true (S j'))) at 2 by apply weight_repeat_true.
      apply Res_const; [lia | exact OK]. }
    assert (JL : S j' <= L') by lia.
    destruct x as [|x'].
    + (* ---- the tail starts with a one: 1^j 0^y, y >= 1 *)
      destruct y as [|y']; [lia|].
      destruct j' as [|j''].
      * (* B1: a single one *)
        apply (step_case L' IH true 0 0 (S y') y' 1 0 0 1 (S y') pre M); try (cbn [b2n negb]; lia); try reflexivity.
        -- intros M1 HM. rewrite endf_j0. simpl "+".
           pose proof (next_one_move pre y' [] M1 (or_introl eq_refl) HM) as N.
           cbv zeta in N. rewrite app_nil_r in N.
           replace (cf y' 1 0) with (repeat false y' ++ [true]) by (unfold cf; simpl; reflexivity).
           exact N.
        -- apply E1.
        -- apply (fuel_B L' 0). lia.
        -- exact OK.
      * destruct (Nat.even (S j'')) eqn:Ev.
        -- (* B2: j' = S j'' even, so j odd *)
           apply (step_case L' IH true 0 (S j'') (S y') y' (S (S j'')) 0 0 (S (S j'')) (S y') pre M); try (cbn [b2n negb]; lia); try reflexivity.
           ++ intros M1 HM. rewrite endf_nc_x0, Ev.
              replace (cf (S y') (S j'') 0) with (repeat false (S y') ++ true :: repeat true j'')
                by (unfold cf; simpl; now rewrite app_nil_r).
              pose proof (next_one_move pre y' (true :: repeat true j'') M1 (or_intror (ex_intro _ _ eq_refl)) HM) as N.
              cbv zeta in N.
              replace (cf y' (S (S j'')) 0) with (repeat false y' ++ true :: true :: repeat true j'')
                by (unfold cf; simpl; now rewrite app_nil_r).
              exact N.
           ++ now apply E2.
           ++ apply (fuel_B L' (S j'')). lia.
           ++ exact OK.
        -- (* B3: j' odd, so j even *)
           apply (step_case L' IH true 0 (S j'') (S y') 0 (S (S j'')) y' 0 (S (S j'')) (S y') pre M); try (cbn [b2n negb]; lia); try reflexivity.
           ++ intros M1 HM. rewrite endf_nc_x0, Ev.
              replace (cf 1 (S j'') y') with (repeat false 1 ++ true :: repeat true j'' ++ repeat false y') by (unfold cf; reflexivity).
              pose proof (next_one_move pre 0 (true :: repeat true j'' ++ repeat false y') M1 (or_intror (ex_intro _ _ eq_refl)) HM) as N.
              cbv zeta in N. simpl repeat in N. simpl app in N.
              replace (cf 0 (S (S j'')) y') with (true :: true :: repeat true j'' ++ repeat false y') by (unfold cf; reflexivity).
              exact N.
           ++ now apply E3.
           ++ apply (fuel_B L' (S j'')). lia.
           ++ exact OK.
    + (* ---- the tail starts with a zero *)
      destruct x' as [|x''].
      * (* x = 1: the rest is packed left *)
        destruct y as [|y'].
        -- (* A2a *)
           apply (step_case L' IH false 0 (S j') 0 1 j' 0 1 (S j') 0 pre M); try (cbn [b2n negb]; lia); try reflexivity.
           ++ intros M1 HM. rewrite endf_full.
              pose proof (next_zero_move pre 0 (repeat true j') M1 HM) as N. cbv zeta in N.
              replace (cf 1 j' 0) with (repeat false 0 ++ false :: repeat true j') by (unfold cf; simpl; now rewrite app_nil_r).
              exact N.
           ++ apply E4.
           ++ apply (fuel_A L' j'). lia.
           ++ exact OK.
        -- destruct (Nat.even (S j')) eqn:Ev.
           ++ (* A2b *)
              apply (step_case L' IH false 0 (S j') (S y') (S (S y')) j' 0 1 (S j') (S y') pre M); try (cbn [b2n negb]; lia); try reflexivity.
              ** intros M1 HM. rewrite endf_nc_x0, Ev.
                 replace (cf (S y') (S j') 0) with (repeat false (S y') ++ true :: repeat true j')
                   by (unfold cf; simpl; now rewrite app_nil_r).
                 pose proof (next_zero_move pre (S y') (repeat true j') M1 HM) as N. cbv zeta in N.
                 replace (cf (S (S y')) j' 0) with (repeat false (S y') ++ false :: repeat true j').
                 2:{ unfold cf. rewrite app_nil_r. rewrite repeat_app_cons. reflexivity. }
                 exact N.
              ** apply E5.
              ** apply (fuel_A L' j'). lia.
              ** exact OK.
           ++ (* A2c *)
              apply (step_case L' IH false 0 (S j') (S y') 2 j' y' 1 (S j') (S y') pre M); try (cbn [b2n negb]; lia); try reflexivity.
              ** intros M1 HM. rewrite endf_nc_x0, Ev.
                 replace (cf 1 (S j') y') with (repeat false 1 ++ true :: repeat true j' ++ repeat false y') by (unfold cf; reflexivity).
                 pose proof (next_zero_move pre 1 (repeat true j' ++ repeat false y') M1 HM) as N. cbv zeta in N.
                 replace (cf 2 j' y') with (repeat false 1 ++ false :: repeat true j' ++ repeat false y') by (unfold cf; reflexivity).
                 exact N.
              ** apply E6.
              ** apply (fuel_A L' j'). lia.
              ** exact OK.
      * (* A1: x >= 2 *)
        apply (step_case L' IH false (S x'') (S j') y 1 j' (S x'' + y) (S (S x'')) (S j') y pre M); try (cbn [b2n negb]; lia); try reflexivity.
        -- intros M1 HM. rewrite endf_nc_xpos.
           pose proof (next_zero_move pre 0 (repeat true j' ++ repeat false (S x'' + y)) M1 HM) as N. cbv zeta in N.
           replace (cf 0 (S j') (S x'' + y)) with (repeat false 0 ++ true :: repeat true j' ++ repeat false (S x'' + y)) by (unfold cf; reflexivity).
           replace (cf 1 j' (S x'' + y)) with (repeat false 0 ++ false :: repeat true j' ++ repeat false (S x'' + y)) by (unfold cf; reflexivity).
           exact N.
        -- apply E7.
        -- apply (fuel_A L' j'). lia.
        -- exact OK.
Qed.

(* ---------------------------------------------------------------- _ehrlich_algorithm on any string with consecutive ones *)
Lemma walk_length : forall fuel s M es, walk fuel s M = Some es -> length es = fuel.
Proof.
  induction fuel as [|f IH]; intros s M es H; simpl in H.
  - now injection H as <-.
  - destruct (next_bitstring s M) as [e|]; [|discriminate].
    destruct (walk f (e_string e) (e_markers e)) as [es'|] eqn:W; [|discriminate].
    injection H as <-. simpl. f_equal. exact (IH _ _ _ W).
Qed.

Lemma markers0_ok s : length (markers0 s) = length s /\ mk_ok (markers0 s) s 0.
Proof.
  unfold markers0. split; [now rewrite map_length, suffix_run_length|].
  intros q Hq. change false with (negb true) at 1. rewrite map_nth.
  f_equal. apply nth_indep. rewrite suffix_run_length. lia.
Qed.

Theorem ehrlich_cf x j y :
  let n := x + j + y in
  exists strs moves,
    ehrlich (cf x j y) = Some (strs, moves) /\
    length strs = binom n j /\
    NoDup strs /\
    (forall s, In s strs <-> (length s = n /\ weight s = j)) /\
    last strs [] = endf x j y.
Proof.
  intros n.
  destruct (markers0_ok (cf x j y)) as [LM OK]. rewrite cf_length in LM.
  destruct (main_all n x j y eq_refl [] (markers0 (cf x j y)) LM OK) as [es [W [LS [F [ND [C _]]]]]].
  simpl app in *.
  assert (Len : length es = binom n j - 1) by exact (walk_length _ _ _ _ W).
  assert (BP : 1 <= binom n j) by (apply binom_pos; unfold n; lia).
  assert (Spec : forall s, In s (strs_of (cf x j y) es) <-> length s = n /\ weight s = j).
  { intros s. split.
    - intros H. rewrite Forall_forall in F. destruct (F s H) as [u [-> [Lu Wu]]]. simpl.
      rewrite cf_length in Lu. split; [exact Lu | exact Wu].
    - intros [Ls Ws]. apply (C s); [now rewrite cf_length | exact Ws]. }
  assert (Last : last (strs_of (cf x j y) es) [] = endf x j y).
  { rewrite <- LS. clear. unfold strs_of. generalize (cf x j y). induction es as [|e es IH]; intros s; [reflexivity|].
    simpl last_string. rewrite <- IH. simpl. destruct es; reflexivity. }
  unfold ehrlich. rewrite cf_weight, cf_length. fold n.
  destruct ((j =? 0) || (j =? n)) eqn:Triv.
  - (* constant string: the walk is empty *)
    assert (B1 : binom n j = 1).
    { apply orb_true_iff in Triv as [T|T]; apply Nat.eqb_eq in T; rewrite T; [apply binom_0_r | apply binom_diag]. }
    rewrite B1 in Len. destruct es; [|discriminate].
    exists [cf x j y], []. split; [reflexivity|]. split; [now rewrite B1|]. split; [exact ND|].
    split; [exact Spec | exact Last].
  - rewrite W. simpl.
    exists (cf x j y :: map e_string es), (map (fun e => (e_out e, e_in e, e_controls e)) es).
    split; [reflexivity|]. split; [simpl; rewrite map_length, Len; lia|]. split; [exact ND|].
    split; [exact Spec | exact Last].
Qed.

Lemma initial_string_cf n k : initial_string n k = cf 0 k (n - k).
Proof. reflexivity. Qed.
