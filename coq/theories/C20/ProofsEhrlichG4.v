(* C20/ProofsEhrlichG4.v : the Ehrlich walk on strings whose ones are consecutive, for ALL lengths.
   cf x j y = 0^x 1^j 0^y.  Closed form of the last string (endf) and the main theorem: started on
   pre ++ cf x j y with the markers of _get_markers, the machine makes exactly binom(L, j) - 1 moves, visits
   every arrangement of the last L positions exactly once, and stops on pre ++ endf x j y. *)
From Coq Require Import List Bool Arith Lia.
From QV Require Import C20.Model C20.ProofsEhrlich C20.ProofsEhrlichG1 C20.ProofsEhrlichG2 C20.ProofsEhrlichG3.
Import ListNotations.

Definition cf (x j y : nat) : bits := repeat false x ++ repeat true j ++ repeat false y.

Definition endf (x j y : nat) : bits :=
  match j, x + y with
  | 0, _ => cf x j y
  | _, 0 => cf x j y
  | S _, S _ =>
      match x with
      | S _ => cf 0 j (x + y)
      | 0 => if Nat.even j then cf y j 0 else cf 1 j (y - 1)
      end
  end.

Lemma cf_length x j y : length (cf x j y) = x + j + y.
Proof. unfold cf. rewrite !app_length, !repeat_length. lia. Qed.

Lemma cf_weight x j y : weight (cf x j y) = j.
Proof. unfold cf. rewrite !weight_app, !weight_repeat_false, weight_repeat_true. lia. Qed.

Lemma endf_length x j y : length (endf x j y) = x + j + y.
Proof.
  unfold endf. destruct j as [|j]; [apply cf_length|]. destruct (x + y) as [|a] eqn:E; [apply cf_length|].
  destruct x as [|x].
  - destruct (Nat.even (S j)); rewrite cf_length; lia.
  - rewrite cf_length. lia.
Qed.

Lemma repeat_app_cons {A} (v : A) m l : repeat v m ++ v :: l = repeat v (S m) ++ l.
Proof. induction m as [|m IH]; simpl; [reflexivity | now rewrite IH]. Qed.

Lemma repeat_plus {A} (v : A) a b : repeat v a ++ repeat v b = repeat v (a + b).
Proof. induction a; simpl; [reflexivity | now f_equal]. Qed.

Lemma cf_zero_j x y : cf x 0 y = repeat false (x + y).
Proof. unfold cf. simpl. apply repeat_plus. Qed.

Lemma cf_full j : cf 0 j 0 = repeat true j.
Proof. unfold cf. simpl. apply app_nil_r. Qed.

(* ---------------------------------------------------------------- binomials *)
Lemma binom_0_r n : binom n 0 = 1.
Proof. destruct n; reflexivity. Qed.

Lemma binom_gt : forall n k, n < k -> binom n k = 0.
Proof.
  induction n as [|n IH]; intros [|k] H; simpl; try lia.
  rewrite !IH by lia. reflexivity.
Qed.

Lemma binom_diag n : binom n n = 1.
Proof. induction n as [|n IH]; [reflexivity|]. simpl. rewrite IH, binom_gt by lia. reflexivity. Qed.

Lemma binom_pos : forall n k, k <= n -> 1 <= binom n k.
Proof.
  induction n as [|n IH]; intros [|k] H; simpl; try lia.
  specialize (IH k ltac:(lia)). lia.
Qed.

Lemma fuel_split L j : j <= L -> binom (S L) (S j) - 1 = (binom L j - 1) + (1 + (binom L (S j) - 1)) \/ L < S j.
Proof.
  intros H. destruct (Nat.lt_ge_cases L (S j)) as [G|G]; [now right|]. left.
  simpl. pose proof (binom_pos L j H). pose proof (binom_pos L (S j) G). lia.
Qed.

(* ---------------------------------------------------------------- constant tails: nothing to do *)
Lemma Res_const pre v m M :
  length M = length pre + m -> mk_ok M (pre ++ repeat v m) (length pre) ->
  Res pre (repeat v m) (weight (repeat v m)) M 0 (repeat v m).
Proof.
  intros LM OK. unfold Res. cbv zeta. exists []. simpl.
  assert (Ls : length (pre ++ repeat v m) = length pre + m) by (now rewrite app_length, repeat_length).
  split; [reflexivity|]. split; [reflexivity|]. split; [|split; [|split; [|split; [|split]]]].
  - constructor; [|constructor]. exists (repeat v m). repeat split.
  - constructor; [intros []|constructor].
  - intros u Lu Wu. left. f_equal. rewrite repeat_length in Lu. destruct v.
    + rewrite weight_repeat_true in Wu. rewrite <- Lu in Wu. rewrite (weight_full u Wu). now rewrite Lu.
    + rewrite weight_repeat_false in Wu. rewrite (weight_zero u Wu). now rewrite Lu.
  - lia.
  - reflexivity.
  - intros q Hq. rewrite OK by lia. rewrite trail_const by lia. reflexivity.
Qed.

(* ---------------------------------------------------------------- one inductive step, packaged *)
Definition Main (L : nat) : Prop :=
  forall x j y, x + j + y = L -> forall pre M,
    length M = length pre + L -> mk_ok M (pre ++ cf x j y) (length pre) ->
    Res pre (cf x j y) j M (binom L j - 1) (endf x j y).

Lemma cf_both x j y pre : 1 <= j -> 1 <= x + y ->
  nth (length pre) (suffix_run (pre ++ cf x j y)) false = false.
Proof.
  intros Hj Ha. set (s := pre ++ cf x j y).
  assert (Ls : length s = length pre + (x + j + y)) by (unfold s; now rewrite app_length, cf_length).
  assert (V : forall k, k < x + j + y -> nth (length pre + k) s false = nth k (cf x j y) false).
  { intros k Hk. unfold s. apply nth_app_r. }
  assert (T : nth (length pre + x) s false = true).
  { rewrite V by lia. unfold cf. rewrite app_nth2 by (rewrite repeat_length; lia). rewrite repeat_length.
    rewrite app_nth1 by (rewrite repeat_length; lia). apply nth_repeat_in. lia. }
  destruct x as [|x].
  - (* a zero at the end *)
    assert (F : nth (length pre + (j + y - 1)) s false = false).
    { rewrite V by lia. unfold cf. simpl. rewrite app_nth2 by (rewrite repeat_length; lia).
      rewrite repeat_length. apply nth_repeat_in. lia. }
    apply (not_trail s (length pre) (length pre + 0) (length pre + (j + y - 1))); try lia; assumption.
  - assert (F : nth (length pre + 0) s false = false).
    { rewrite V by lia. reflexivity. }
    apply (not_trail s (length pre) (length pre + S x) (length pre + 0)); try lia; assumption.
Qed.

Lemma step_case L' (IH : Main L') (b : bool) x1 j1 y1 x2 j2 y2 x j y pre M :
  cf x j y = b :: cf x1 j1 y1 ->
  x1 + j1 + y1 = L' -> x2 + j2 + y2 = L' ->
  j1 + b2n b = j -> j2 + b2n (negb b) = j ->
  1 <= j -> 1 <= x + y ->
  (forall M1, max_true 0 M1 = Some (length pre) ->
     exists o' i' cs, next_bitstring (pre ++ b :: endf x1 j1 y1) M1 =
                      Some (mkE (pre ++ negb b :: cf x2 j2 y2)
                                (new_markers (length pre) M1 (pre ++ negb b :: cf x2 j2 y2)) o' i' cs)) ->
  endf x j y = negb b :: endf x2 j2 y2 ->
  binom (S L') j - 1 = (binom L' j1 - 1) + (1 + (binom L' j2 - 1)) ->
  length M = length pre + S L' -> mk_ok M (pre ++ cf x j y) (length pre) ->
  Res pre (cf x j y) j M (binom (S L') j - 1) (endf x j y).
Proof.
  intros Shape S1 S2 J1 J2 Hj Ha MV EndShape Fuel LM OK.
  rewrite Fuel, EndShape. rewrite Shape in *.
  apply (compose b pre (cf x1 j1 y1) (cf x2 j2 y2) (endf x1 j1 y1) (endf x2 j2 y2) j j1 j2); try assumption.
  - rewrite !cf_length. lia.
  - rewrite endf_length, cf_length. reflexivity.
  - rewrite app_length. simpl. rewrite cf_length. lia.
  - rewrite <- Shape. now apply cf_both.
  - apply IH; [exact S1 | | ].
    + rewrite app_length. simpl. lia.
    + intros q Hq. rewrite <- app_assoc. simpl. apply OK.
      rewrite app_length in Hq. simpl in Hq. rewrite <- app_assoc in Hq. simpl in Hq. lia.
  - intros M2 LM2 OK2. apply IH; [exact S2 | | ].
    + rewrite app_length. simpl. rewrite app_length in LM2. simpl in LM2. rewrite cf_length in LM2. lia.
    + intros q Hq. rewrite <- app_assoc. simpl. apply OK2.
      rewrite app_length in Hq. simpl in Hq. rewrite <- app_assoc in Hq. simpl in Hq. lia.
Qed.

(* ---------------------------------------------------------------- shapes of the closed form *)
Lemma cf_cons_false x j y : cf (S x) j y = false :: cf x j y.
Proof. reflexivity. Qed.
Lemma cf_cons_true j y : cf 0 (S j) y = true :: cf 0 j y.
Proof. reflexivity. Qed.
Lemma cf_zero_j' x y : cf x 0 y = repeat false (x + y).
Proof. apply cf_zero_j. Qed.

Lemma endf_nc_xpos x j y : endf (S x) (S j) y = cf 0 (S j) (S x + y).
Proof. reflexivity. Qed.
Lemma endf_nc_x0 j y : endf 0 (S j) (S y) = if Nat.even (S j) then cf (S y) (S j) 0 else cf 1 (S j) y.
Proof. unfold endf. simpl "+". cbv iota beta. now replace (S y - 1) with y by lia. Qed.
Lemma endf_j0 x y : endf x 0 y = repeat false (x + y).
Proof. unfold endf. apply cf_zero_j. Qed.
Lemma endf_full j : endf 0 j 0 = repeat true j.
Proof. unfold endf. destruct j; simpl; [reflexivity|]. apply cf_full. Qed.

Lemma E1 y' : endf 0 1 (S y') = false :: endf y' 1 0.
Proof.
  rewrite endf_nc_x0. simpl Nat.even. destruct y' as [|y''].
  - reflexivity.
  - rewrite endf_nc_xpos. unfold cf. simpl. now rewrite Nat.add_0_r.
Qed.
Lemma E2 j'' y' : Nat.even (S j'') = true -> endf 0 (S (S j'')) (S y') = false :: endf y' (S (S j'')) 0.
Proof.
  intros Ev. rewrite endf_nc_x0.
  replace (Nat.even (S (S j''))) with false by (rewrite Nat.even_succ, <- Nat.negb_even, Ev; reflexivity).
  destruct y' as [|y''].
  - rewrite endf_full. unfold cf. simpl. now rewrite app_nil_r.
  - rewrite endf_nc_xpos. unfold cf. simpl. now rewrite Nat.add_0_r.
Qed.
Lemma E3 j'' y' : Nat.even (S j'') = false -> endf 0 (S (S j'')) (S y') = false :: endf 0 (S (S j'')) y'.
Proof.
  intros Ev. rewrite endf_nc_x0.
  assert (Evj : Nat.even (S (S j'')) = true) by (rewrite Nat.even_succ, <- Nat.negb_even, Ev; reflexivity).
  rewrite Evj. destruct y' as [|y''].
  - rewrite endf_full. unfold cf. simpl. now rewrite app_nil_r.
  - rewrite endf_nc_x0, Evj. reflexivity.
Qed.
Lemma E4 j' : endf 1 (S j') 0 = true :: endf 1 j' 0.
Proof.
  rewrite endf_nc_xpos. destruct j' as [|j'']; [reflexivity|]. rewrite endf_nc_xpos. reflexivity.
Qed.
Lemma E5 j' y' : endf 1 (S j') (S y') = true :: endf (S (S y')) j' 0.
Proof.
  rewrite endf_nc_xpos. destruct j' as [|j''].
  - rewrite endf_j0. unfold cf. simpl. now rewrite Nat.add_0_r.
  - rewrite endf_nc_xpos. unfold cf. simpl. now rewrite Nat.add_0_r.
Qed.
Lemma E6 j' y' : endf 1 (S j') (S y') = true :: endf 2 j' y'.
Proof.
  rewrite endf_nc_xpos. destruct j' as [|j''].
  - rewrite endf_j0. reflexivity.
  - rewrite endf_nc_xpos. reflexivity.
Qed.
Lemma E7 x'' j' y : endf (S (S x'')) (S j') y = true :: endf 1 j' (S x'' + y).
Proof.
  rewrite endf_nc_xpos. destruct j' as [|j''].
  - rewrite endf_j0. reflexivity.
  - rewrite endf_nc_xpos. reflexivity.
Qed.
