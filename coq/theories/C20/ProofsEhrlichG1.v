(* C20/ProofsEhrlichG1.v : infrastructure for the global analysis of the Ehrlich walk:
   the two kinds of moves of _get_next_bistring on strings given by run lengths. *)
From Coq Require Import List Bool Arith Lia.
From QV Require Import C20.Model C20.ProofsEhrlich.
Import ListNotations.

(* ---------------------------------------------------------------- positions *)
Lemma positions_app v : forall a i b, positions v i (a ++ b) = positions v i a ++ positions v (i + length a) b.
Proof.
  induction a as [|x a IH]; intros i b; simpl.
  - now rewrite Nat.add_0_r.
  - rewrite IH, <- app_assoc. replace (i + S (length a)) with (S i + length a) by lia. reflexivity.
Qed.

Lemma positions_repeat_other v i m : positions v i (repeat (negb v) m) = [].
Proof.
  revert i. induction m as [|m IH]; intros i; simpl; [reflexivity|].
  rewrite IH. destruct v; reflexivity.
Qed.

Lemma positions_true_zeros i m : positions true i (repeat false m) = [].
Proof. exact (positions_repeat_other true i m). Qed.
Lemma positions_false_ones i m : positions false i (repeat true m) = [].
Proof. exact (positions_repeat_other false i m). Qed.

Lemma positions_repeat_same v i m : positions v i (repeat v m) = seq i m.
Proof.
  revert i. induction m as [|m IH]; intros i; simpl; [reflexivity|].
  rewrite IH, eqb_reflx. reflexivity.
Qed.

Lemma positions_ge v : forall s i q, In q (positions v i s) -> i <= q.
Proof. intros s i q H. apply positions_In in H. lia. Qed.

Lemma positions_lt v : forall s i q, In q (positions v i s) -> q < i + length s.
Proof. intros s i q H. apply positions_In in H. lia. Qed.

Lemma filter_nil_forall {A} (P : A -> bool) l : (forall x, In x l -> P x = false) -> filter P l = [].
Proof.
  induction l as [|a l IH]; intros H; simpl; [reflexivity|].
  rewrite (H a (or_introl eq_refl)). apply IH. intros; apply H; now right.
Qed.

Lemma filter_id_forall {A} (P : A -> bool) l : (forall x, In x l -> P x = true) -> filter P l = l.
Proof.
  induction l as [|a l IH]; intros H; simpl; [reflexivity|].
  rewrite (H a (or_introl eq_refl)). f_equal. apply IH. intros; apply H; now right.
Qed.

Lemma set_nth_app_r {A} (a b : list A) k v : set_nth (length a + k) v (a ++ b) = a ++ set_nth k v b.
Proof. induction a as [|x a IH]; simpl; [reflexivity | now rewrite IH]. Qed.

Lemma set_nth_app_l {A} (a b : list A) k v : k < length a -> set_nth k v (a ++ b) = set_nth k v a ++ b.
Proof.
  revert k. induction a as [|x a IH]; intros k H; simpl in *; [lia|].
  destruct k; [reflexivity|]. simpl. f_equal. apply IH. lia.
Qed.

Lemma nth_app_r {A} (a b : list A) k d : nth (length a + k) (a ++ b) d = nth k b d.
Proof. rewrite app_nth2 by lia. f_equal. lia. Qed.

Lemma last_opt_snoc {A} (l : list A) x : last_opt (l ++ [x]) = Some x.
Proof. unfold last_opt. now rewrite rev_app_distr. Qed.

(* ---------------------------------------------------------------- max marker *)
Lemma max_true_spec : forall m i p,
  nth p m false = true -> (forall q, p < q -> nth q m false = false) -> max_true i m = Some (i + p).
Proof.
  induction m as [|b m IH]; intros i p Hp Hq.
  - destruct p; discriminate.
  - simpl. destruct p as [|p].
    + assert (E : max_true (S i) m = None).
      { clear -Hq. assert (H : forall q, nth q m false = false) by (intros q; apply (Hq (S q)); lia).
        clear Hq. revert i H. induction m as [|c m IHm]; intros i H; simpl; [reflexivity|].
        rewrite IHm by (intros q; apply (H (S q))). pose proof (H 0) as H0. simpl in H0. now rewrite H0. }
      rewrite E. simpl in Hp. rewrite Hp. f_equal. lia.
    + rewrite (IH (S i) p) by (try exact Hp; intros q Hq'; apply (Hq (S q)); lia). f_equal. lia.
Qed.

(* ---------------------------------------------------------------- the success of the final bookkeeping of a move *)
Lemma next_finish s m' s' o i cs :
  transposes s s' o i ->
  exists o' i',
    match filter (fun p => negb (nth p s' false)) (positions true 0 s),
          filter (fun p => negb (nth p s false)) (positions true 0 s') with
    | o0 :: _, i0 :: _ => Some (mkE s' m' o0 i0 cs)
    | _, _ => None
    end = Some (mkE s' m' o' i' cs).
Proof.
  intros [Lo [Li [Ne [So [Si E]]]]].
  assert (L' : length s' = length s) by (subst; now rewrite !set_nth_len).
  assert (S'o : nth o s' false = false).
  { subst. rewrite nth_set_nth by (rewrite set_nth_len; lia).
    replace (o =? i) with false by (symmetry; apply Nat.eqb_neq; lia).
    rewrite nth_set_nth by lia. now rewrite Nat.eqb_refl. }
  assert (S'i : nth i s' false = true).
  { subst. rewrite nth_set_nth by (rewrite set_nth_len; lia). now rewrite Nat.eqb_refl. }
  assert (I1 : In o (filter (fun p => negb (nth p s' false)) (positions true 0 s))).
  { apply filter_In. split; [apply positions_true; now split | now rewrite S'o]. }
  assert (I2 : In i (filter (fun p => negb (nth p s false)) (positions true 0 s'))).
  { apply filter_In. split; [apply positions_true; split; [lia | exact S'i] | now rewrite Si]. }
  destruct (filter (fun p => negb (nth p s' false)) (positions true 0 s)) as [|o0 ro]; [destruct I1|].
  destruct (filter (fun p => negb (nth p s false)) (positions true 0 s')) as [|i0 ri]; [destruct I2|].
  exists o0, i0. reflexivity.
Qed.

Lemma set_nth_mid {A} (a : list A) x b v : set_nth (length a) v (a ++ x :: b) = a ++ v :: b.
Proof. induction a as [|y a IH]; simpl; [reflexivity | now rewrite IH]. Qed.

Lemma nth_mid {A} (a : list A) x b d : nth (length a) (a ++ x :: b) d = x.
Proof. induction a as [|y a IH]; simpl; [reflexivity | exact IH]. Qed.

Definition new_markers (p : nat) (M : list bool) (s' : bits) : list bool :=
  zip_or (set_nth p false M)
         (map (fun i0 => (p <? i0) && negb (nth i0 (suffix_run s') false)) (seq 0 (length s'))).

(* move of kind 0: position p holds 0 and the nearest 1 to its right comes to p *)
Lemma next_zero_move pre z R M :
  let p := length pre in
  let s := pre ++ false :: repeat false z ++ true :: R in
  let s' := pre ++ true :: repeat false z ++ false :: R in
  max_true 0 M = Some p ->
  exists o' i' cs, next_bitstring s M = Some (mkE s' (new_markers p M s') o' i' cs).
Proof.
  intros p s s' HM.
  set (a := pre ++ false :: repeat false z).
  assert (La : length a = p + S z) by (unfold a; rewrite app_length; simpl; rewrite repeat_length; reflexivity).
  assert (Es : s = a ++ true :: R) by (unfold s, a; now rewrite <- app_assoc).
  assert (Ls : length s = p + S z + S (length R)) by (rewrite Es, app_length, La; reflexivity).
  assert (Np : nth p s false = false) by (unfold s, p; apply nth_mid).
  assert (Ones : positions true 0 s = positions true 0 pre ++ (p + S z) :: positions true (S (p + S z)) R).
  { unfold s. rewrite positions_app. f_equal. simpl "+".
    change (false :: repeat false z ++ true :: R) with (repeat false (S z) ++ true :: R).
    rewrite positions_app, positions_true_zeros, repeat_length. simpl. reflexivity. }
  assert (Near : hd_error (filter (fun i => p <? i) (positions true 0 s)) = Some (p + S z)).
  { rewrite Ones, filter_app.
    rewrite (filter_nil_forall (fun i => p <? i) (positions true 0 pre)).
    - simpl. replace (p <? p + S z) with true by (symmetry; apply Nat.ltb_lt; lia). reflexivity.
    - intros q Hq. apply positions_lt in Hq. apply Nat.ltb_ge. unfold p. lia. }
  assert (New : set_nth (p + S z) false (set_nth p true s) = s').
  { assert (E1 : set_nth p true s = pre ++ true :: repeat false z ++ true :: R) by (unfold s, p; apply set_nth_mid).
    rewrite E1.
    assert (E2 : pre ++ true :: repeat false z ++ true :: R = (pre ++ true :: repeat false z) ++ true :: R)
      by (now rewrite <- app_assoc).
    rewrite E2.
    replace (p + S z) with (length (pre ++ true :: repeat false z))
      by (rewrite app_length; simpl; rewrite repeat_length; reflexivity).
    rewrite (set_nth_mid (pre ++ true :: repeat false z) true R false). unfold s'. now rewrite <- app_assoc. }
  assert (Tr : transposes s s' (p + S z) p).
  { unfold transposes. repeat split; try lia.
    - rewrite Es, <- La. apply nth_mid.
    - exact Np.
    - rewrite Es, <- La, set_nth_mid.
      unfold a. rewrite <- app_assoc. cbn [app]. unfold p. rewrite set_nth_mid. reflexivity. }
  unfold next_bitstring. rewrite HM. fold s. rewrite Near, Np, New.
  destruct (next_finish s (new_markers p M s') s' (p + S z) p
              (filter (fun i0 => existsb (Nat.eqb i0) (positions true 0 s')) (positions true 0 s)) Tr) as [o' [i' E]].
  exists o', i', (filter (fun i0 => existsb (Nat.eqb i0) (positions true 0 s')) (positions true 0 s)).
  unfold new_markers in *.
  assert (LL : length s' = length s) by (unfold s, s'; rewrite !app_length; simpl; rewrite !app_length; reflexivity).
  rewrite LL in *. exact E.
Qed.

Lemma repeat_S_snoc {A} (x : A) m : repeat x (S m) = repeat x m ++ [x].
Proof. induction m as [|m IH]; simpl; [reflexivity|]. simpl in IH. now rewrite <- IH. Qed.

Lemma seq_S_snoc a m : seq a (S m) = seq a m ++ [a + m].
Proof. rewrite seq_S. reflexivity. Qed.

(* move of kind 1: position p holds 1 and jumps to the last 0 of the zero run that follows it *)
Lemma next_one_move pre z R M :
  (R = [] \/ exists R', R = true :: R') ->
  let p := length pre in
  let s := pre ++ true :: repeat false (S z) ++ R in
  let s' := pre ++ false :: repeat false z ++ true :: R in
  max_true 0 M = Some p ->
  exists o' i' cs, next_bitstring s M = Some (mkE s' (new_markers p M s') o' i' cs).
Proof.
  intros HR p s s' HM.
  assert (Ls : length s = p + S (S z) + length R).
  { unfold s. rewrite app_length. simpl. rewrite app_length, repeat_length. unfold p. lia. }
  assert (Np : nth p s false = true) by (unfold s, p; apply nth_mid).
  assert (Ones : positions true 0 s = positions true 0 pre ++ p :: positions true (p + S (S z)) R).
  { unfold s. rewrite positions_app. f_equal. simpl "+". fold p. cbn [positions Bool.eqb app].
    rewrite positions_app, positions_true_zeros, repeat_length. simpl. f_equal. f_equal. lia. }
  assert (Zeros : positions false 0 s = positions false 0 pre ++ seq (S p) (S z) ++ positions false (p + S (S z)) R).
  { unfold s. rewrite positions_app. f_equal. simpl "+". fold p. cbn [positions Bool.eqb app].
    rewrite positions_app, (positions_repeat_same false), repeat_length. f_equal. f_equal. lia. }
  set (no := hd_error (filter (fun i => p <? i) (positions true 0 s))).
  assert (Fz : filter (fun i => (p <? i) && match no with Some o => i <? o | None => true end) (positions false 0 s)
               = seq (S p) (S z)).
  { rewrite Zeros, !filter_app.
    rewrite (filter_nil_forall _ (positions false 0 pre)).
    2:{ intros q Hq. apply positions_lt in Hq. replace (p <? q) with false; [reflexivity|].
        symmetry. apply Nat.ltb_ge. unfold p. lia. }
    assert (No : no = match R with [] => None | _ => Some (p + S (S z)) end).
    { unfold no. rewrite Ones, filter_app.
      rewrite (filter_nil_forall _ (positions true 0 pre)).
      2:{ intros q Hq. apply positions_lt in Hq. apply Nat.ltb_ge. unfold p. lia. }
      simpl. rewrite Nat.ltb_irrefl.
      destruct HR as [->|[R' ->]]; [reflexivity|]. simpl.
      replace (p <? p + S (S z)) with true by (symmetry; apply Nat.ltb_lt; lia). reflexivity. }
    rewrite No.
    rewrite (filter_id_forall _ (seq (S p) (S z))).
    2:{ intros q Hq. apply in_seq in Hq.
        replace (p <? q) with true by (symmetry; apply Nat.ltb_lt; lia).
        destruct R; [reflexivity|]. simpl. apply Nat.ltb_lt. lia. }
    rewrite (filter_nil_forall _ (positions false (p + S (S z)) R)).
    - rewrite app_nil_r. reflexivity.
    - intros q Hq. destruct HR as [->|[R' ->]]; [destruct Hq|].
      simpl in Hq. apply positions_ge in Hq.
      replace (q <? p + S (S z)) with false; [now rewrite andb_false_r|].
      symmetry. apply Nat.ltb_ge. lia. }
  assert (New : set_nth (S p + z) true (set_nth p false s) = s').
  { assert (E1 : set_nth p false s = pre ++ false :: repeat false (S z) ++ R) by (unfold s, p; apply set_nth_mid).
    rewrite E1, repeat_S_snoc.
    assert (E2 : pre ++ false :: (repeat false z ++ [false]) ++ R = (pre ++ false :: repeat false z) ++ false :: R).
    { rewrite <- !app_assoc. reflexivity. }
    rewrite E2.
    replace (S p + z) with (length (pre ++ false :: repeat false z))
      by (rewrite app_length; simpl; rewrite repeat_length; unfold p; lia).
    rewrite (set_nth_mid (pre ++ false :: repeat false z) false R true). unfold s'. now rewrite <- app_assoc. }
  assert (Tr : transposes s s' p (S p + z)).
  { unfold transposes. repeat split; try lia.
    - exact Np.
    - unfold s. rewrite repeat_S_snoc.
      assert (E2 : pre ++ true :: (repeat false z ++ [false]) ++ R = (pre ++ true :: repeat false z) ++ false :: R).
      { rewrite <- !app_assoc. reflexivity. }
      rewrite E2.
      replace (S p + z) with (length (pre ++ true :: repeat false z))
        by (rewrite app_length; simpl; rewrite repeat_length; unfold p; lia).
      apply nth_mid.
    - symmetry. exact New. }
  unfold next_bitstring. rewrite HM. fold s. fold no. rewrite Np.
  assert (B : match true, no with
              | false, Some o => Some (set_nth o false (set_nth p true s))
              | _, _ => match last_opt (filter (fun i => (p <? i) && match no with Some o => i <? o | None => true end)
                                               (positions false 0 s)) with
                        | None => None
                        | Some z0 => Some (set_nth z0 true (set_nth p false s))
                        end
              end = Some s').
  { rewrite Fz, seq_S_snoc, last_opt_snoc. replace (S p + z) with (S p + z) by lia. now rewrite New. }
  destruct no; rewrite B.
  all: destruct (next_finish s (new_markers p M s') s' p (S p + z)
              (filter (fun i0 => existsb (Nat.eqb i0) (positions true 0 s')) (positions true 0 s)) Tr) as [o' [i' E]];
    exists o', i', (filter (fun i0 => existsb (Nat.eqb i0) (positions true 0 s')) (positions true 0 s));
    unfold new_markers in *;
    assert (LL : length s' = length s) by (unfold s, s'; rewrite !app_length; simpl; rewrite !app_length, !repeat_length; simpl; lia);
    rewrite LL in *; exact E.
Qed.
