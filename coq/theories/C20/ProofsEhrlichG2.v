(* C20/ProofsEhrlichG2.v : the trailing run (_get_markers), the marker update, composition of walks *)
From Coq Require Import List Bool Arith Lia.
From QV Require Import C20.Model C20.ProofsEhrlich C20.ProofsEhrlichG1.
Import ListNotations.

Lemma tw_spec {A} (P : A -> bool) d : forall l,
  let c := length (take_while P l) in
  c <= length l /\ (forall k, k < c -> P (nth k l d) = true) /\ (c < length l -> P (nth c l d) = false).
Proof.
  induction l as [|x l IH]; simpl.
  - repeat split; intros; lia.
  - destruct (P x) eqn:E; simpl.
    + destruct IH as [H1 [H2 H3]]. repeat split.
      * lia.
      * intros [|k] Hk; [exact E | apply H2; lia].
      * intros H. apply H3. lia.
    + repeat split; intros; try lia. exact E.
Qed.

Lemma nth_repeat_in {A} (x d : A) m k : k < m -> nth k (repeat x m) d = x.
Proof. revert k. induction m as [|m IH]; intros [|k] H; simpl; try lia; [reflexivity | apply IH; lia]. Qed.

Definition trail_len (s : bits) : nat := length (take_while (Bool.eqb (last s false)) (rev s)).

Lemma trail_len_le s : trail_len s <= length s.
Proof. unfold trail_len. pose proof (tw_spec (Bool.eqb (last s false)) false (rev s)) as [H _]. now rewrite rev_length in H. Qed.

Lemma suffix_run_nth s q : q < length s ->
  nth q (suffix_run s) false = (length s - trail_len s <=? q).
Proof.
  intros H. unfold suffix_run. fold (trail_len s). pose proof (trail_len_le s) as L.
  destruct (Nat.leb_spec (length s - trail_len s) q) as [G|G].
  - rewrite app_nth2 by (rewrite repeat_length; lia). rewrite repeat_length.
    apply nth_repeat_in. lia.
  - rewrite app_nth1 by (rewrite repeat_length; lia). apply nth_repeat_in. lia.
Qed.

Lemma suffix_run_length s : length (suffix_run s) = length s.
Proof. unfold suffix_run. fold (trail_len s). pose proof (trail_len_le s). rewrite app_length, !repeat_length. lia. Qed.

(* q is in the trailing run iff everything from q on equals the last element *)
Lemma trail_spec s q : q < length s ->
  (nth q (suffix_run s) false = true <-> forall r, q <= r < length s -> nth r s false = last s false).
Proof.
  intros Hq. rewrite suffix_run_nth by exact Hq. rewrite Nat.leb_le.
  pose proof (tw_spec (Bool.eqb (last s false)) false (rev s)) as [A0 [B C]].
  fold (trail_len s) in A0, B, C. rewrite rev_length in A0, C.
  split.
  - intros G r Hr. specialize (B (length s - S r) ltac:(lia)).
    rewrite rev_nth in B by lia. replace (length s - S (length s - S r)) with r in B by lia.
    symmetry. now apply eqb_prop.
  - intros G. destruct (Nat.le_gt_cases (length s - trail_len s) q) as [H|H]; [exact H|]. exfalso.
    assert (T : trail_len s < length s) by lia. specialize (C T).
    rewrite rev_nth in C by lia.
    rewrite (G (length s - S (trail_len s)) ltac:(lia)) in C. now rewrite eqb_reflx in C.
Qed.

Lemma last_nth (s : bits) : s <> [] -> last s false = nth (length s - 1) s false.
Proof.
  induction s as [|x s IH]; intros H; [congruence|]. destruct s as [|y s]; [reflexivity|].
  change (last (x :: y :: s) false) with (last (y :: s) false). rewrite IH by discriminate.
  simpl. now rewrite Nat.sub_0_r.
Qed.

(* ---------------------------------------------------------------- marker vectors *)
Lemma zip_or_nth : forall a b q, length a = length b -> nth q (zip_or a b) false = nth q a false || nth q b false.
Proof.
  induction a as [|x a IH]; intros [|y b] q L; try discriminate.
  - destruct q; reflexivity.
  - destruct q; simpl; [reflexivity|]. apply IH. now injection L.
Qed.

Lemma zip_or_length : forall a b, length a = length b -> length (zip_or a b) = length a.
Proof. induction a as [|x a IH]; intros [|y b] L; try discriminate; simpl; [reflexivity|]. f_equal. apply IH. now injection L. Qed.

Lemma map_seq_nth (f : nat -> bool) n q : q < n -> nth q (map f (seq 0 n)) false = f q.
Proof.
  intros H. rewrite (nth_indep _ false (f 0)) by (now rewrite map_length, seq_length).
  rewrite map_nth. now rewrite seq_nth.
Qed.

Lemma new_markers_length p M s' : length M = length s' -> length (new_markers p M s') = length s'.
Proof.
  intros H. unfold new_markers. rewrite zip_or_length; rewrite set_nth_len; [exact H|].
  now rewrite map_length, seq_length.
Qed.

Lemma new_markers_nth p M s' q : length M = length s' -> p < length s' -> q < length s' ->
  nth q (new_markers p M s') false =
    if q <? p then nth q M false
    else if q =? p then false
    else nth q M false || negb (nth q (suffix_run s') false).
Proof.
  intros LM Hp Hq. unfold new_markers.
  rewrite zip_or_nth by (rewrite set_nth_len, map_length, seq_length; exact LM).
  rewrite nth_set_nth by lia. rewrite map_seq_nth by exact Hq.
  destruct (Nat.ltb_spec q p) as [A|A].
  - replace (q =? p) with false by (symmetry; apply Nat.eqb_neq; lia).
    replace (p <? q) with false by (symmetry; apply Nat.ltb_ge; lia). simpl. now rewrite orb_false_r.
  - destruct (Nat.eqb_spec q p) as [->|B].
    + rewrite Nat.ltb_irrefl. reflexivity.
    + replace (p <? q) with true by (symmetry; apply Nat.ltb_lt; lia). reflexivity.
Qed.

(* ---------------------------------------------------------------- walks compose *)
Fixpoint last_string (s : bits) (es : list estep) : bits :=
  match es with [] => s | e :: es' => last_string (e_string e) es' end.
Fixpoint last_markers (M : list bool) (es : list estep) : list bool :=
  match es with [] => M | e :: es' => last_markers (e_markers e) es' end.

Lemma walk_app : forall a b s M es1 es2,
  walk a s M = Some es1 -> walk b (last_string s es1) (last_markers M es1) = Some es2 ->
  walk (a + b) s M = Some (es1 ++ es2).
Proof.
  induction a as [|a IH]; intros b s M es1 es2 H1 H2; simpl in *.
  - injection H1 as <-. exact H2.
  - destruct (next_bitstring s M) as [e|]; [|discriminate].
    destruct (walk a (e_string e) (e_markers e)) as [es1'|] eqn:W; [|discriminate].
    injection H1 as <-. simpl in H2.
    now rewrite (IH b (e_string e) (e_markers e) es1' es2 W H2).
Qed.

Lemma last_string_app : forall es1 s es2, last_string s (es1 ++ es2) = last_string (last_string s es1) es2.
Proof. induction es1 as [|e es1 IH]; intros s es2; simpl; [reflexivity | apply IH]. Qed.

Lemma last_markers_app : forall es1 M es2, last_markers M (es1 ++ es2) = last_markers (last_markers M es1) es2.
Proof. induction es1 as [|e es1 IH]; intros M es2; simpl; [reflexivity | apply IH]. Qed.
