(* C20, round 5: computations behind PropsDist.v (bounded statements about the distributed QFT layout) *)
From Coq Require Import List Bool Arith Lia.
From QV Require Import C20.Model C20.ModelDist.
Import ListNotations.

Lemma bounded_forall : forall (P : nat -> bool) (m : nat),
  forallb P (seq 1 m) = true -> forall n, 1 <= n <= m -> P n = true.
Proof.
  intros P m H n Hn. rewrite forallb_forall in H. apply H. apply in_seq. lia.
Qed.

Lemma dist_agrees_9 : forall n, 1 <= n <= 9 -> dist_agrees n = true.
Proof. apply (bounded_forall dist_agrees 9). vm_compute. reflexivity. Qed.

Lemma same_census_40 : forall n, 1 <= n <= 40 -> same_census n = true.
Proof. apply (bounded_forall same_census 40). vm_compute. reflexivity. Qed.
