(* C20/Angles.v : from the ring-level load equations to the ANGLE formulas of the real code
   (models/encodings.py::_generate_rbs_angles), over Coq's real numbers.

   diagonal (unary_encoder "diagonal", hamming_weight_encoder, _binary_encoder_hyperspherical):
       phases[k]   = arctan2( ||data[k+1:]|| , data[k] )        k = 0 .. d-3
       phases[d-2] = arctan2( data[d-1] , data[d-2] )
     [diag_angles a2] models this for ANY function a2 satisfying the polar contract
       sqrt(x^2+y^2) cos(a2 y x) = x   and   sqrt(x^2+y^2) sin(a2 y x) = y        ([atan2_contract])
     (checked for numpy's arctan2 on every pair of every run by harness/c20.py), and the contract is PROVED for
     the concrete [atan2] defined from Ratan.atan by the quadrant case split ([atan2_ok]).
   tree (unary_encoder "tree", _binary_encoder_hopf), n = 2^m, heap r_array / phases (node j has children 2j, 2j+1):
       leaves   r = sqrt(data[2j-1]^2 + data[2j-2]^2),  theta = acos(data[2j-2]/r) if r != 0 else 0,
                if data[2j-1] < 0: theta = 2 pi - theta
       inner    r[j-1] = sqrt(r[2j]^2 + r[2j-1]^2),      theta = acos(r[2j-1]/r[j-1]) if r[j-1] != 0 else 0
     (the "!= 0 else 0" guards are the repair "tree RBS angles with a zero partial norm").
     [tree_angle_rows] is this computation level by level; the heap order of phases is the concatenation of the
     levels, root first ([tree_angles]).

   Main results (all n; zero entries / zero blocks / negative entries included; the only hypothesis is data <> 0):
     diag_angles_ok, tree_angles_ok : the amplitudes of the existing gate-list models run on (cos theta_i, sin theta_i)
     are exactly data_p / ||data||;   hw_angles_ok : same for the emitted Hamming-weight chain.
   Complex data (hamming_weight_encoder): the RZ(in,-phi) RZ(out,phi) layers and the phase-correction gate at ring level
     for all n, k (hw_complex_chain), and with thetas from |y|, phis[k] = (-angle(y_k) + sum(phis[:k])) mod 2 pi over C:
     amplitude y_j / ||y|| on the j-th walk string (hw_complex_angles_ok). *)
From Coq Require Import List Bool Arith Lia Reals Lra Ring Field ZArith FinFun.
From Coquelicot Require Import Complex.
From QV Require Import Base.Cis C20.QFTComplex C20.Model C20.Proofs C20.ProofsTree C20.ProofsEhrlich C20.ProofsHW
     C20.ProofsEhrlichG3 C20.ProofsEhrlichG4 C20.ProofsEhrlichG5 C20.ProofsHWAll C20.ProofsHWOpt4.
Import ListNotations.
Open Scope R_scope.

Definition Rring : ring_theory 0 1 Rplus Rmult Rminus Ropp (@eq R) := RTheory.

(* ------------------------------------------------------------------ norms *)
Fixpoint sumsq (l : list R) : R := match l with [] => 0 | x :: l' => x * x + sumsq l' end.
Definition norm (l : list R) : R := sqrt (sumsq l).        (* numpy.linalg.norm of a real vector *)
Definition cs_of (t : R) : R * R := (cos t, sin t).
Definition delta0 : nat -> R := fun p => if Nat.eqb p 0 then 1 else 0.   (* after X(n-1): amplitude 1 at data position 0 *)

Lemma sumsq_nonneg l : 0 <= sumsq l.
Proof. induction l as [|x l IH]; simpl; [lra|]. pose proof (Rle_0_sqr x) as H. unfold Rsqr in H. lra. Qed.

Lemma norm_nonneg l : 0 <= norm l.
Proof. apply sqrt_pos. Qed.

Lemma norm_sq l : norm l * norm l = sumsq l.
Proof. apply sqrt_sqrt, sumsq_nonneg. Qed.

Lemma sumsq_zero_all : forall l, sumsq l = 0 -> Forall (fun x => x = 0) l.
Proof.
  induction l as [|x l IH]; simpl; intros H; [constructor|].
  pose proof (sumsq_nonneg l). pose proof (Rle_0_sqr x) as Hx. unfold Rsqr in Hx.
  constructor; [|apply IH; lra]. apply Rsqr_0_uniq. unfold Rsqr. lra.
Qed.

(* ||x|| <> 0  <->  some entry is non-zero *)
Lemma norm_nonzero_iff l : norm l <> 0 <-> Exists (fun x => x <> 0) l.
Proof.
  split.
  - intros H. apply Exists_exists.
    destruct (Forall_Exists_dec (fun x => x = 0) (fun x => Req_EM_T x 0) l) as [F|E].
    + exfalso. apply H. unfold norm. replace (sumsq l) with 0; [apply sqrt_0|].
      clear H. induction F as [|x l Hx F IH]; simpl; [reflexivity|]. subst. rewrite <- IH. ring.
    + apply Exists_exists in E. exact E.
  - intros E H. unfold norm in H. apply sqrt_eq_0 in H; [|apply sumsq_nonneg].
    apply sumsq_zero_all in H. apply Exists_exists in E as [x [Hx Nx]].
    rewrite Forall_forall in H. apply Nx, H, Hx.
Qed.

Lemma map_unscale (N : R) : N <> 0 -> forall A B : list R,
  map (fun u => u * N) A = map (fun x => x * 1) B -> A = map (fun x => x / N) B.
Proof.
  intros HN. induction A as [|a A IH]; intros [|b B] H; simpl in *; try discriminate; [reflexivity|].
  injection H as H1 H2. f_equal; [|now apply IH]. rewrite <- (Rmult_1_r b), <- H1. field. exact HN.
Qed.

(* ------------------------------------------------------------------ arctan2: contract and a concrete instance *)
Definition atan2_contract (a2 : R -> R -> R) : Prop :=
  forall y x, sqrt (x * x + y * y) * cos (a2 y x) = x /\ sqrt (x * x + y * y) * sin (a2 y x) = y.

(* numpy.arctan2(y, x) for finite arguments (up to the sign of zero, which the contract cannot see) *)
Definition atan2 (y x : R) : R :=
  if Rlt_dec 0 x then atan (y / x)
  else if Rlt_dec x 0 then (if Rle_dec 0 y then atan (y / x) + PI else atan (y / x) - PI)
  else if Rlt_dec 0 y then PI / 2
  else if Rlt_dec y 0 then - (PI / 2)
  else 0.

Lemma one_plus_sq_pos t : 0 < 1 + t * t.
Proof. pose proof (Rle_0_sqr t) as H. unfold Rsqr in H. lra. Qed.

Lemma polar_radius_pos x y : 0 < x -> sqrt (x * x + y * y) = x * sqrt (1 + (y / x) * (y / x)).
Proof.
  intros Hx. transitivity (sqrt (x * x) * sqrt (1 + (y / x) * (y / x))).
  - rewrite <- sqrt_mult; [|nra | pose proof (one_plus_sq_pos (y / x)); lra].
    f_equal. field. lra.
  - rewrite sqrt_square by lra. reflexivity.
Qed.

Lemma polar_radius_neg x y : x < 0 -> sqrt (x * x + y * y) = - x * sqrt (1 + (y / x) * (y / x)).
Proof.
  intros Hx. replace (x * x + y * y) with ((- x) * (- x) + (- y) * (- y)) by ring.
  rewrite polar_radius_pos by lra. f_equal. f_equal. f_equal. field. lra.
Qed.

Lemma atan_polar t : sqrt (1 + t * t) * cos (atan t) = 1 /\ sqrt (1 + t * t) * sin (atan t) = t.
Proof.
  assert (P : 0 < sqrt (1 + t * t)) by (apply sqrt_lt_R0, one_plus_sq_pos).
  rewrite cos_atan, sin_atan. unfold Rsqr. split; field; lra.
Qed.

Theorem atan2_ok : atan2_contract atan2.
Proof.
  intros y x. unfold atan2.
  destruct (Rlt_dec 0 x) as [Hx|Hx].
  - rewrite polar_radius_pos by exact Hx. destruct (atan_polar (y / x)) as [A B].
    split.
    + rewrite Rmult_assoc, A. ring.
    + rewrite Rmult_assoc, B. field. lra.
  - destruct (Rlt_dec x 0) as [Hx'|Hx'].
    + rewrite polar_radius_neg by exact Hx'. destruct (atan_polar (y / x)) as [A B].
      assert (C1 : forall t, cos (t + PI) = - cos t) by (intros; apply neg_cos).
      assert (S1 : forall t, sin (t + PI) = - sin t) by (intros; apply neg_sin).
      assert (C2 : forall t, cos (t - PI) = - cos t).
      { intros t. rewrite cos_minus, cos_PI, sin_PI. ring. }
      assert (S2 : forall t, sin (t - PI) = - sin t).
      { intros t. rewrite sin_minus, cos_PI, sin_PI. ring. }
      destruct (Rle_dec 0 y); [rewrite C1, S1 | rewrite C2, S2]; split.
      * replace (- x * sqrt (1 + y / x * (y / x)) * - cos (atan (y / x)))
          with (x * (sqrt (1 + y / x * (y / x)) * cos (atan (y / x)))) by ring. rewrite A. ring.
      * replace (- x * sqrt (1 + y / x * (y / x)) * - sin (atan (y / x)))
          with (x * (sqrt (1 + y / x * (y / x)) * sin (atan (y / x)))) by ring. rewrite B. field. lra.
      * replace (- x * sqrt (1 + y / x * (y / x)) * - cos (atan (y / x)))
          with (x * (sqrt (1 + y / x * (y / x)) * cos (atan (y / x)))) by ring. rewrite A. ring.
      * replace (- x * sqrt (1 + y / x * (y / x)) * - sin (atan (y / x)))
          with (x * (sqrt (1 + y / x * (y / x)) * sin (atan (y / x)))) by ring. rewrite B. field. lra.
    + assert (x = 0) by lra. subst x. replace (0 * 0 + y * y) with (y * y) by ring.
      destruct (Rlt_dec 0 y) as [Hy|Hy].
      * rewrite sqrt_square by lra. rewrite cos_PI2, sin_PI2. split; ring.
      * destruct (Rlt_dec y 0) as [Hy'|Hy'].
        -- replace (y * y) with ((- y) * (- y)) by ring. rewrite sqrt_square by lra.
           rewrite cos_neg, sin_neg, cos_PI2, sin_PI2. split; ring.
        -- assert (y = 0) by lra. subst y. rewrite Rmult_0_l, sqrt_0. split; ring.
Qed.

(* ------------------------------------------------------------------ diagonal angles *)
Section Diagonal.
  Variable a2 : R -> R -> R.
  Hypothesis a2_ok : atan2_contract a2.

  (* _generate_rbs_angles(data, "diagonal"); lists of length < 2: the real code raises IndexError (data[-2]) *)
  Fixpoint diag_angles (l : list R) : list R :=
    match l with
    | x :: ((y :: l'') as l') =>
        match l'' with
        | [] => [a2 y x]
        | _ :: _ => a2 (norm l') x :: diag_angles l'
        end
    | _ => []
    end.

  Lemma diag_angles_length : forall l, (2 <= length l)%nat -> S (length (diag_angles l)) = length l.
  Proof.
    induction l as [|x l IH]; intros H; [simpl in H; lia|].
    destruct l as [|y [|z l]]; [simpl in H; lia | reflexivity |].
    change (diag_angles (x :: y :: z :: l)) with (a2 (norm (y :: z :: l)) x :: diag_angles (y :: z :: l)).
    pose proof (IH ltac:(simpl; lia)) as E. cbn [length] in *. lia.
  Qed.

  (* the load equations of Proofs.loads hold with N_k = ||data[k:]|| *)
  Lemma diag_loads : forall l, (2 <= length l)%nat ->
    loads R Rmult (map cs_of (diag_angles l)) l (norm l).
  Proof.
    induction l as [|x l IH]; intros H; [simpl in H; lia|].
    destruct l as [|y [|z l]]; [simpl in H; lia | |].
    - cbn [diag_angles map cs_of loads]. unfold norm. cbn [sumsq].
      replace (x * x + (y * y + 0)) with (x * x + y * y) by ring.
      destruct (a2_ok y x) as [A B]. split; rewrite Rmult_comm; assumption.
    - change (diag_angles (x :: y :: z :: l)) with (a2 (norm (y :: z :: l)) x :: diag_angles (y :: z :: l)).
      cbn [map loads]. unfold cs_of at 1.
      set (l' := y :: z :: l) in *.
      assert (E : norm (x :: l') = sqrt (x * x + norm l' * norm l')).
      { unfold norm at 1. cbn [sumsq]. now rewrite norm_sq. }
      destruct (a2_ok (norm l') x) as [A B]. rewrite <- E in A, B.
      split; [rewrite Rmult_comm; exact A|].
      rewrite (Rmult_comm (sin _)), B. apply IH. simpl. lia.
  Qed.

  (* spread = products of sines times a cosine = data / ||data||   (the classical hyperspherical induction) *)
  Theorem diag_spread : forall l, (2 <= length l)%nat -> norm l <> 0 ->
    spread R Rmult (map cs_of (diag_angles l)) 1 = map (fun x => x / norm l) l.
  Proof.
    intros l H N. apply (map_unscale (norm l) N).
    apply (spread_loads R 0 1 Rplus Rmult Rminus Ropp Rring). now apply diag_loads.
  Qed.

  (* unary_encoder(data, "diagonal") on |0..0>: X(n-1) puts amplitude 1 on data position 0, then the ladder *)
  Theorem diag_angles_ok : forall l, (2 <= length l)%nat -> norm l <> 0 ->
    forall p, run_diag R Rplus Rmult Rminus 0 (map cs_of (diag_angles l)) delta0 p
              = nth p (map (fun x => x / norm l) l) 0.
  Proof.
    intros l H N p.
    rewrite (run_diag_spec R 0 1 Rplus Rmult Rminus Ropp Rring).
    - replace (p <? 0)%nat with false by (symmetry; apply Nat.ltb_ge; lia).
      rewrite Nat.sub_0_r. unfold delta0 at 1. cbn [Nat.eqb]. now rewrite diag_spread.
    - intros q Hq. unfold delta0. destruct q; [lia | reflexivity].
  Qed.
End Diagonal.

(* ------------------------------------------------------------------ tree angles *)
Definition theta_inner (a b : R) : R :=
  let r := sqrt (b * b + a * a) in if Req_EM_T r 0 then 0 else acos (a / r).
Definition theta_leaf (a b : R) : R :=
  let t := theta_inner a b in if Rlt_dec b 0 then 2 * PI - t else t.

Lemma sumsq2_zero a b : sqrt (b * b + a * a) = 0 -> a = 0 /\ b = 0.
Proof.
  intros H. apply sqrt_eq_0 in H; [|nra].
  split; apply Rsqr_0_uniq; unfold Rsqr; nra.
Qed.

Lemma ratio_bound a b : sqrt (b * b + a * a) <> 0 -> -1 <= a / sqrt (b * b + a * a) <= 1.
Proof.
  intros H. set (r := sqrt (b * b + a * a)) in *.
  assert (P : 0 < r) by (pose proof (sqrt_pos (b * b + a * a)); fold r in H0; lra).
  assert (Q : r * r = b * b + a * a) by (apply sqrt_sqrt; nra).
  assert (A1 : a <= r) by nra. assert (A2 : - r <= a) by nra.
  split.
  - apply Rmult_le_reg_r with r; [exact P|]. unfold Rdiv. rewrite Rmult_assoc, Rinv_l by lra. lra.
  - apply Rmult_le_reg_r with r; [exact P|]. unfold Rdiv. rewrite Rmult_assoc, Rinv_l by lra. lra.
Qed.

(* cos theta r = a and sin theta r = |b| *)
Lemma theta_inner_polar a b :
  cos (theta_inner a b) * sqrt (b * b + a * a) = a /\ sin (theta_inner a b) * sqrt (b * b + a * a) = Rabs b.
Proof.
  unfold theta_inner. set (r := sqrt (b * b + a * a)).
  destruct (Req_EM_T r 0) as [Z|NZ].
  - destruct (sumsq2_zero a b Z) as [-> ->]. rewrite Z, cos_0, sin_0, Rabs_R0. split; ring.
  - pose proof (ratio_bound a b NZ) as B. fold r in B.
    assert (P : 0 < r) by (pose proof (sqrt_pos (b * b + a * a)) as H0; fold r in H0; lra).
    assert (Q : r * r = b * b + a * a) by (apply sqrt_sqrt; nra).
    rewrite cos_acos, sin_acos by exact B. split; [field; lra|].
    rewrite <- (sqrt_square r) at 2 by lra. rewrite <- sqrt_mult.
    + replace ((1 - (a / r)²) * (r * r)) with (b * b) by (unfold Rsqr; field_simplify; [nra | lra]).
      fold (Rsqr b). apply sqrt_Rsqr_abs.
    + unfold Rsqr. destruct B as [B1 B2]. nra.
    + nra.
Qed.

Lemma theta_inner_load a b : 0 <= b ->
  cos (theta_inner a b) * sqrt (b * b + a * a) = a /\ sin (theta_inner a b) * sqrt (b * b + a * a) = b.
Proof.
  intros H. destruct (theta_inner_polar a b) as [A B]. split; [exact A|]. rewrite B. now apply Rabs_pos_eq.
Qed.

(* the leaf rule keeps the sign of the odd entry through theta -> 2 pi - theta *)
Lemma theta_leaf_load a b :
  cos (theta_leaf a b) * sqrt (b * b + a * a) = a /\ sin (theta_leaf a b) * sqrt (b * b + a * a) = b.
Proof.
  unfold theta_leaf. destruct (theta_inner_polar a b) as [A B].
  destruct (Rlt_dec b 0) as [Hb|Hb].
  - replace (2 * PI - theta_inner a b) with (- theta_inner a b + 2 * PI) by ring.
    rewrite cos_plus, sin_plus, cos_2PI, sin_2PI, cos_neg, sin_neg. split.
    + transitivity (cos (theta_inner a b) * sqrt (b * b + a * a)); [ring | exact A].
    + transitivity (- (sin (theta_inner a b) * sqrt (b * b + a * a))); [ring|].
      rewrite B, Rabs_left by exact Hb. ring.
  - split; [exact A|]. rewrite B. apply Rabs_pos_eq. lra.
Qed.

Fixpoint pair_norms (l : list R) : list R :=
  match l with a :: b :: l' => sqrt (b * b + a * a) :: pair_norms l' | _ => [] end.
Fixpoint pair_angles (leaf : bool) (l : list R) : list R :=
  match l with
  | a :: b :: l' => (if leaf then theta_leaf a b else theta_inner a b) :: pair_angles leaf l'
  | _ => []
  end.
(* the levels of phases, root level first; m = log2 (len data) *)
Fixpoint tree_angle_rows (m : nat) (leaf : bool) (l : list R) : list (list R) :=
  match m with
  | O => []
  | S m' => tree_angle_rows m' false (pair_norms l) ++ [pair_angles leaf l]
  end.
(* _generate_rbs_angles(data, "tree", nqubits = 2^m): the array phases (heap order) *)
Definition tree_angles (m : nat) (data : list R) : list R := concat (tree_angle_rows m true data).
(* the root of r_array *)
Fixpoint top (m : nat) (l : list R) : list R := match m with O => l | S m' => top m' (pair_norms l) end.

Lemma pair_norms_length : forall k l, length l = (2 * k)%nat -> length (pair_norms l) = k.
Proof.
  induction k as [|k IH]; intros [|a [|b l]] H; simpl in *; try lia. f_equal. apply IH. lia.
Qed.
Lemma pair_angles_length leaf : forall k l, length l = (2 * k)%nat -> length (pair_angles leaf l) = k.
Proof.
  induction k as [|k IH]; intros [|a [|b l]] H; simpl in *; try lia. f_equal. apply IH. lia.
Qed.
Lemma pair_norms_nonneg : forall k l, length l = (2 * k)%nat -> Forall (fun x => 0 <= x) (pair_norms l).
Proof.
  induction k as [|k IH]; intros [|a [|b l]] H; simpl in *; try lia; constructor.
  - apply sqrt_pos.
  - apply IH. lia.
Qed.
Lemma pair_norms_sumsq : forall k l, length l = (2 * k)%nat -> sumsq (pair_norms l) = sumsq l.
Proof.
  induction k as [|k IH]; intros [|a [|b l]] H; simpl in *; try lia; try reflexivity.
  rewrite IH by lia. rewrite sqrt_sqrt by nra. ring.
Qed.

Lemma pow2_S m : (2 ^ S m = 2 * 2 ^ m)%nat.
Proof. reflexivity. Qed.

Lemma top_norm : forall m l, length l = (2 ^ S m)%nat -> top (S m) l = [norm l].
Proof.
  induction m as [|m IH]; intros l H.
  - destruct l as [|a [|b [|c l]]]; simpl in H; try lia. simpl. unfold norm. simpl. f_equal. f_equal. ring.
  - change (top (S (S m)) l) with (top (S m) (pair_norms l)).
    rewrite IH by (apply pair_norms_length; rewrite H; reflexivity).
    unfold norm. rewrite (pair_norms_sumsq (2 ^ S m)); [reflexivity|]. rewrite H. reflexivity.
Qed.

(* level_loads for one level: parents = pair_norms l, children = l *)
Lemma level_loads_pairs leaf : forall k l, length l = (2 * k)%nat ->
  (leaf = false -> Forall (fun x => 0 <= x) l) ->
  level_loads R Rmult (map cs_of (pair_angles leaf l)) (pair_norms l) l.
Proof.
  induction k as [|k IH]; intros [|a [|b l]] H F; simpl in H; try lia; [exact I|].
  cbn [pair_angles pair_norms map level_loads]. unfold cs_of at 1.
  assert (L : cos (if leaf then theta_leaf a b else theta_inner a b) * sqrt (b * b + a * a) = a /\
              sin (if leaf then theta_leaf a b else theta_inner a b) * sqrt (b * b + a * a) = b).
  { destruct leaf; [apply theta_leaf_load|]. apply theta_inner_load.
    specialize (F eq_refl). inversion F as [|? ? _ F']. inversion F'. assumption. }
  destruct L as [L1 L2]. split; [exact L1|]. split; [exact L2|].
  apply IH; [lia|]. intros E. specialize (F E). inversion F as [|? ? _ F']. inversion F'. assumption.
Qed.

(* fuel-free chain of levels *)
Fixpoint chain (rows : list (list (R * R))) (N data : list R) : Prop :=
  match rows with
  | [] => N = data
  | row :: rows' => exists N', level_loads R Rmult row N N' /\ chain rows' N' data
  end.

Lemma chain_snoc : forall rows row N N' data,
  chain rows N N' -> level_loads R Rmult row N' data -> chain (rows ++ [row]) N data.
Proof.
  induction rows as [|r rows IH]; intros row N N' data C L; simpl in *.
  - subst. exists data. split; [exact L | reflexivity].
  - destruct C as [N1 [L1 C1]]. exists N1. split; [exact L1|]. now apply (IH row N1 N' data).
Qed.

Lemma tree_chain : forall m leaf l, length l = (2 ^ m)%nat ->
  (leaf = false -> Forall (fun x => 0 <= x) l) ->
  chain (map (map cs_of) (tree_angle_rows m leaf l)) (top m l) l.
Proof.
  induction m as [|m IH]; intros leaf l H F; [reflexivity|].
  cbn [tree_angle_rows top]. rewrite map_app. cbn [map].
  rewrite pow2_S in H.
  apply chain_snoc with (N' := pair_norms l).
  - apply IH; [now apply pair_norms_length|]. intros _. now apply (pair_norms_nonneg (2 ^ m)).
  - now apply (level_loads_pairs leaf (2 ^ m)).
Qed.

Definition chain_cond (k step : nat) : Prop := k = O \/ (2 ^ k <= 2 * step)%nat.

Lemma chain_to_loads : forall rows fuel step N data,
  (length rows <= fuel)%nat -> chain_cond (length rows) step ->
  chain rows N data -> chain_loads R Rmult fuel step rows N data.
Proof.
  induction rows as [|row rows IH]; intros fuel step N data HF HC C.
  - destruct fuel; exact C.
  - destruct fuel as [|f]; [simpl in HF; lia|]. cbn [chain_loads].
    destruct HC as [HC|HC]; [discriminate|]. cbn [length] in HC.
    assert (S1 : (2 ^ length rows <= step)%nat) by (rewrite pow2_S in HC; lia).
    assert (S0 : (1 <= step)%nat).
    { pose proof (Nat.pow_nonzero 2 (length rows) ltac:(lia)). lia. }
    replace (step =? 0)%nat with false by (symmetry; apply Nat.eqb_neq; lia).
    destruct C as [N' [L C]]. exists N'. split; [exact L|].
    apply IH; [simpl in HF; lia | | exact C].
    destruct (length rows) as [|k] eqn:E; [now left|]. right.
    rewrite pow2_S in *. apply Nat.mul_le_mono_l. apply Nat.div_le_lower_bound; lia.
Qed.

Lemma rows_ok_snoc : forall rows k row,
  rows_ok R k rows -> length row = (k * 2 ^ length rows)%nat -> rows_ok R k (rows ++ [row]).
Proof.
  induction rows as [|r rows IH]; intros k row H L; simpl in *.
  - split; [lia | exact I].
  - destruct H as [H1 H2]. split; [exact H1|]. apply IH; [exact H2|]. rewrite L. ring.
Qed.

Lemma tree_angle_rows_length : forall m leaf l, length (tree_angle_rows m leaf l) = m.
Proof. induction m as [|m IH]; intros leaf l; simpl; [reflexivity|]. rewrite app_length, IH. simpl. lia. Qed.

Lemma tree_rows_ok : forall m leaf l, length l = (2 ^ m)%nat ->
  rows_ok R 1 (map (map cs_of) (tree_angle_rows m leaf l)).
Proof.
  induction m as [|m IH]; intros leaf l H; [exact I|].
  cbn [tree_angle_rows]. rewrite map_app. cbn [map]. rewrite pow2_S in H.
  apply rows_ok_snoc.
  - apply IH. now apply pair_norms_length.
  - rewrite !map_length, tree_angle_rows_length, (pair_angles_length leaf (2 ^ m)) by exact H. lia.
Qed.

(* positions of the leaves: 0 .. n-1 in order *)
Lemma children_mul step : forall k,
  children step (map (fun i => i * (2 * step))%nat (seq 0 k)) = map (fun i => i * step)%nat (seq 0 (2 * k)).
Proof.
  induction k as [|k IH]; [reflexivity|].
  replace (2 * S k)%nat with (S (S (2 * k))) by lia.
  rewrite (seq_S k 0), (seq_S (S (2 * k)) 0), (seq_S (2 * k) 0). cbn [Nat.add].
  unfold children in *. rewrite map_app, flat_map_app, IH, !map_app. cbn [map flat_map app].
  rewrite <- app_assoc. cbn [app]. f_equal. f_equal; [lia | f_equal; lia].
Qed.

Lemma leaves_seq : forall j fuel k (rows : list (list (R * R))),
  (S j <= fuel)%nat -> length rows = S j ->
  leaves R fuel (2 ^ j) (map (fun i => i * (2 * 2 ^ j))%nat (seq 0 k)) rows = seq 0 (k * 2 ^ S j).
Proof.
  induction j as [|j IH]; intros fuel k rows HF HL.
  - destruct fuel as [|f]; [lia|]. destruct rows as [|row [|r2 rows]]; simpl in HL; try lia.
    cbn [leaves Nat.pow Nat.eqb]. replace (1 / 2)%nat with O by reflexivity.
    assert (E : forall f' idxs, leaves R f' 0 idxs (@nil (list (R * R))) = idxs) by (intros [|f'] idxs; reflexivity).
    rewrite E, children_mul.
    transitivity (map (fun x : nat => x) (seq 0 (2 * k))); [apply map_ext; intros; lia|].
    rewrite map_id. f_equal. simpl. lia.
  - destruct fuel as [|f]; [lia|]. destruct rows as [|row rows]; [simpl in HL; lia|].
    cbn [leaves]. replace (2 ^ S j =? 0)%nat with false
      by (symmetry; apply Nat.eqb_neq, Nat.pow_nonzero; lia).
    replace (2 ^ S j / 2)%nat with (2 ^ j)%nat
      by (rewrite pow2_S, Nat.mul_comm, Nat.div_mul; lia).
    rewrite children_mul.
    change (fun i : nat => (i * 2 ^ S j)%nat) with (fun i : nat => (i * (2 * 2 ^ j))%nat).
    rewrite (IH f (2 * k)%nat rows) by (simpl in HL; lia).
    f_equal. rewrite (pow2_S (S j)). lia.
Qed.

Lemma amp_at_seq : forall (L : list R) k p,
  amp_at R 0 (seq k (length L)) L p = if (p <? k)%nat then 0 else nth (p - k) L 0.
Proof.
  induction L as [|x L IH]; intros k p; cbn [length seq amp_at].
  - destruct (p <? k)%nat; [reflexivity|]. now destruct (p - k)%nat.
  - destruct (Nat.eqb_spec p k) as [->|Ne].
    + rewrite Nat.ltb_irrefl, Nat.sub_diag. reflexivity.
    + rewrite IH. destruct (Nat.ltb_spec p k) as [A|A].
      * replace (p <? S k)%nat with true by (symmetry; apply Nat.ltb_lt; lia). reflexivity.
      * replace (p <? S k)%nat with false by (symmetry; apply Nat.ltb_ge; lia).
        replace (p - k)%nat with (S (p - S k)) by lia. reflexivity.
Qed.

Lemma levels_length : forall fuel step (rows : list (list (R * R))) (L : list R),
  rows_ok R (length L) rows ->
  length (levels R Rmult fuel step rows L) = length (leaves R fuel step (seq 0 (length L)) rows).
Proof.
  (* lengths only: both double at every executed row *)
  assert (G : forall fuel step (rows : list (list (R * R))) (L : list R) idxs, length idxs = length L ->
            rows_ok R (length L) rows ->
            length (levels R Rmult fuel step rows L) = length (leaves R fuel step idxs rows)).
  { induction fuel as [|f IH]; intros step rows L idxs E RO; [simpl; now rewrite E|].
    destruct rows as [|row rows]; [simpl; now rewrite E|]. cbn [levels leaves].
    destruct (step =? 0)%nat; [now rewrite E|]. destruct RO as [R1 R2].
    apply IH.
    - rewrite children_length, step_level_length by exact R1. lia.
    - rewrite step_level_length by exact R1. exact R2. }
  intros. apply G; [now rewrite seq_length | assumption].
Qed.

(* the modelled phases satisfy the hypotheses (rows_ok, chain_loads) of the ring-level theorem
   ProofsTree.tree_bfs_loads / Props.unary_tree_bfs_ok_ring, with root norm ||data|| *)
Lemma tree_chain_loads : forall m (data : list R), let n := (2 ^ S m)%nat in
  length data = n ->
  let rows := map (map cs_of) (tree_angle_rows (S m) true data) in
  rows_ok R 1 rows /\ chain_loads R Rmult n (n / 2) rows [norm data] data.
Proof.
  intros m data n HL rows.
  assert (Hhalf : (n / 2 = 2 ^ m)%nat) by (unfold n; rewrite pow2_S, Nat.mul_comm, Nat.div_mul; lia).
  assert (Hfuel : (S m <= n)%nat) by (unfold n; pose proof (Nat.pow_gt_lin_r 2 (S m) ltac:(lia)); lia).
  split; [apply tree_rows_ok; exact HL|].
  apply chain_to_loads.
  - unfold rows. rewrite map_length, tree_angle_rows_length. exact Hfuel.
  - right. unfold rows. rewrite map_length, tree_angle_rows_length, Hhalf. rewrite pow2_S. lia.
  - rewrite <- (top_norm m data HL). apply tree_chain; [exact HL | discriminate].
Qed.

(* unary_encoder(data, "tree"), n = 2^(m+1) >= 2: the breadth-first gate list of Model.tree_rows run with
   (cos, sin) of the modelled phases leaves exactly data_p / ||data|| at every position p *)
Theorem tree_angles_ok : forall m (data : list R), let n := (2 ^ S m)%nat in
  length data = n -> norm data <> 0 ->
  let rows := map (map cs_of) (tree_angle_rows (S m) true data) in
  forall p, run_pair_rows R Rplus Rmult Rminus (tree_rows n n (n / 2) [0%nat]) rows delta0 p
            = nth p (map (fun x => x / norm data) data) 0.
Proof.
  intros m data n HL HN rows p.
  assert (Hhalf : (n / 2 = 2 ^ m)%nat) by (unfold n; rewrite pow2_S, Nat.mul_comm, Nat.div_mul; lia).
  assert (Hfuel : (S m <= n)%nat) by (unfold n; pose proof (Nat.pow_gt_lin_r 2 (S m) ltac:(lia)); lia).
  destruct (tree_chain_loads m data HL) as [RO CL]. fold n in CL. fold rows in RO, CL.
  destruct (tree_bfs_loads R 0 1 Rplus Rmult Rminus Ropp Rring n n rows (norm data) 1 data RO CL) as [A B].
  change (fun p0 : nat => if (p0 =? 0)%nat then 1 else 0) with delta0 in A.
  rewrite A.
  assert (LV : leaves R n (n / 2) [0%nat] rows = seq 0 n).
  { rewrite Hhalf. change [0%nat] with (map (fun i => i * (2 * 2 ^ m))%nat (seq 0 1)).
    rewrite leaves_seq; [unfold n; f_equal; lia | exact Hfuel |].
    unfold rows. now rewrite map_length, tree_angle_rows_length. }
  apply (map_unscale (norm data) HN) in B.
  rewrite LV, B.
  replace n with (length (map (fun x => x / norm data) data)) at 1 by (rewrite map_length; exact HL).
  rewrite amp_at_seq. replace (p <? 0)%nat with false by (symmetry; apply Nat.ltb_ge; lia).
  now rewrite Nat.sub_0_r.
Qed.

(* recursive-form corollary used for _binary_encoder_hopf's RY(2 theta) tree: the leaf values of the level
   propagation (products of cos/sin down the tree) are data / ||data|| *)
Theorem tree_levels_ok : forall m (data : list R), let n := (2 ^ S m)%nat in
  length data = n -> norm data <> 0 ->
  levels R Rmult n (n / 2) (map (map cs_of) (tree_angle_rows (S m) true data)) [1]
  = map (fun x => x / norm data) data.
Proof.
  intros m data n HL HN.
  assert (Hhalf : (n / 2 = 2 ^ m)%nat) by (unfold n; rewrite pow2_S, Nat.mul_comm, Nat.div_mul; lia).
  assert (Hfuel : (S m <= n)%nat) by (unfold n; pose proof (Nat.pow_gt_lin_r 2 (S m) ltac:(lia)); lia).
  set (rows := map (map cs_of) (tree_angle_rows (S m) true data)).
  destruct (tree_chain_loads m data HL) as [RO CL]. fold n in CL. fold rows in RO, CL.
  destruct (tree_bfs_loads R 0 1 Rplus Rmult Rminus Ropp Rring n n rows (norm data) 1 data RO CL) as [_ B].
  now apply (map_unscale (norm data) HN) in B.
Qed.

(* ------------------------------------------------------------------ Hamming-weight encoder, real data *)
Lemma chain_ok_lengths n : forall gs bs earlier, chain_ok n earlier bs gs = true -> length bs = S (length gs).
Proof.
  induction gs as [|g gs IH]; intros bs earlier H.
  - destruct bs as [|b [|b' bs]]; simpl in H; try discriminate. reflexivity.
  - destruct bs as [|b [|b' bs]]; try discriminate. cbn [chain_ok] in H.
    repeat (apply andb_true_iff in H as [H ?]).
    change (length (b :: b' :: bs)) with (S (length (b' :: bs))). cbn [length]. f_equal.
    apply (IH (b' :: bs) (b :: earlier)). assumption.
Qed.

Lemma binom_ge_2 : forall n k, (1 <= k < n)%nat -> (2 <= binom n k)%nat.
Proof.
  intros [|n] [|k] H; try lia. cbn [binom].
  pose proof (binom_pos n k ltac:(lia)). pose proof (binom_pos n (S k) ltac:(lia)). lia.
Qed.

Lemma amp_of_list_ext_values : forall (l1 l2 : list (bits * R)), l1 = l2 -> forall x, amp_of_list R 0 l1 x = amp_of_list R 0 l2 x.
Proof. intros; now subst. Qed.

Section HWAngles.
  Variable a2 : R -> R -> R.
  Hypothesis a2_ok : atan2_contract a2.

  (* hamming_weight_encoder(data, n, k) for real data: thetas = _generate_rbs_angles(y, "diagonal") where y is the
     data in the order of the Ehrlich walk (y = data[lex_order]); the emitted chain (Model.hw_gates, both
     optimize_controls settings) run on (cos theta_j, sin theta_j) from the first walk string b0 leaves y_j/||y|| on
     the j-th walk string and 0 on every other basis state *)
  Theorem hw_angles_ok : forall n k opt, (1 <= k < n)%nat ->
    exists bs gs, hw_texts n k = Some bs /\ hw_cgates n k opt = Some gs /\
      length bs = binom n k /\ (2 <= length bs)%nat /\
      forall y : list R, length y = length bs -> norm y <> 0 ->
      forall b0, hd_error bs = Some b0 ->
      forall x, length x = n ->
        run_hw R Rplus Rmult Rminus gs (map cs_of (diag_angles a2 y)) (fun u => if bits_eqb b0 u then 1 else 0) x
        = amp_of_list R 0 (rev (combine bs (map (fun v => v / norm y) y))) x.
  Proof.
    intros n k opt Hk.
    pose proof (hw_ok_all n k opt Hk) as OK.
    destruct (hw_encoder_chain R 0 1 Rplus Rmult Rminus Ropp Rring n k opt OK) as [bs [gs [E1 [E2 H]]]].
    assert (LB : length bs = S (length gs)).
    { unfold hw_ok in OK. rewrite E1, E2 in OK. now apply chain_ok_lengths in OK. }
    assert (LN : length bs = binom n k).
    { unfold hw_texts in E1. rewrite initial_string_cf in E1.
      destruct (ehrlich_cf 0 k (n - k)) as [strs [moves [E [L _]]]]. rewrite E in E1. simpl in E1.
      injection E1 as <-. transitivity (length strs); [apply List.map_length|]. rewrite L. f_equal. lia. }
    exists bs, gs. split; [exact E1|]. split; [exact E2|]. split; [exact LN|].
    split; [rewrite LN; now apply binom_ge_2|].
    intros y Ly Ny b0 Hb0 x Lx.
    assert (L2 : (2 <= length y)%nat) by (rewrite Ly, LN; now apply binom_ge_2).
    rewrite (H (map cs_of (diag_angles a2 y)) 1); [| | exact Hb0 | exact Lx].
    - now rewrite (diag_spread a2 a2_ok y L2 Ny).
    - rewrite map_length. pose proof (diag_angles_length a2 y L2). lia.
  Qed.
End HWAngles.

(* ------------------------------------------------------------------ exact rational shadow of the angles (for the per-run tie) *)
(* cos^2 of every modelled angle is a ratio of partial SUMS OF SQUARES -- a rational function of the data *)
Lemma sq_of_polar (c q a : R) : 0 <= q -> c * sqrt q = a -> c * c * q = a * a.
Proof.
  intros Hq A. rewrite <- (sqrt_sqrt q Hq) at 1.
  transitivity ((c * sqrt q) * (c * sqrt q)); [ring|]. now rewrite A.
Qed.

Lemma theta_inner_cos2 a b :
  cos (theta_inner a b) * cos (theta_inner a b) * (b * b + a * a) = a * a.
Proof. apply sq_of_polar; [nra|]. apply theta_inner_polar. Qed.

Lemma theta_leaf_cos2 a b :
  cos (theta_leaf a b) * cos (theta_leaf a b) * (b * b + a * a) = a * a.
Proof. apply sq_of_polar; [nra|]. apply theta_leaf_load. Qed.

Lemma a2_cos2 a2 : atan2_contract a2 -> forall y x,
  cos (a2 y x) * cos (a2 y x) * (x * x + y * y) = x * x.
Proof.
  intros C y x. apply sq_of_polar; [nra|]. rewrite Rmult_comm. apply C.
Qed.

(* ================================================================== complex data: RZ layers and phase correction *)
(* ------------------------------------------------------------------ ring level *)
Section HWC.
  Variables (T : Type) (t0 t1 : T) (tadd tmul tsub : T -> T -> T) (topp : T -> T).
  Hypothesis Tring : ring_theory t0 t1 tadd tmul tsub topp (@eq T).
  Add Ring TRc : Tring.

  Definition ctl (ctrls : list nat) (b : bits) : bool := forallb (fun q => nth q b false) ctrls.

  (* RZ(q, phi).controlled_by(ctrls) = diag(e^{-i phi/2}, e^{i phi/2}) on qubit q when every control is 1;
     h = e^{i phi/2}, hb = e^{-i phi/2} *)
  Definition crz (q : nat) (ctrls : list nat) (h hb : T) (A : bits -> T) : bits -> T :=
    fun b => if ctl ctrls b then tmul (if nth q b false then h else hb) (A b) else A b.

  (* _get_gate(complex_data=True): RBS(in, out, theta), RZ(in, -phi), RZ(out, phi), all controlled by ctrls *)
  Definition cgate3 (g : cgate) (c s h hb : T) (A : bits -> T) : bits -> T :=
    crz (g_out g) (g_ctrls g) h hb (crz (g_in g) (g_ctrls g) hb h (crbs T tadd tmul tsub g c s A)).

  Fixpoint run_hw3 (gs : list cgate) (cs : list (T * T * T * T)) (A : bits -> T) : bits -> T :=
    match gs, cs with
    | g :: gs', (c, s, h, hb) :: cs' => run_hw3 gs' cs' (cgate3 g c s h hb A)
    | _, _ => A
    end.

  (* closed form: c0 hb0^2 r,  (s0 h0^2 r) c1 hb1^2, ... *)
  Fixpoint spread3 (cs : list (T * T * T * T)) (r : T) : list T :=
    match cs with
    | [] => [r]
    | (c, s, h, hb) :: cs' => tmul (tmul hb hb) (tmul c r) :: spread3 cs' (tmul (tmul h h) (tmul s r))
    end.

  Definition units (cs : list (T * T * T * T)) : Prop :=
    Forall (fun q : T * T * T * T => let '(_, _, h, hb) := q in tmul h hb = t1) cs.

  (* the two RZ gates: e^{-i phi} on (in, out) = (1, 0), e^{i phi} on (0, 1), nothing when in = out *)
  Lemma rz_pair g h hb A' x : tmul h hb = t1 ->
    crz (g_out g) (g_ctrls g) h hb (crz (g_in g) (g_ctrls g) hb h A') x =
    if ctl (g_ctrls g) x then
      match nth (g_in g) x false, nth (g_out g) x false with
      | true, false => tmul (tmul hb hb) (A' x)
      | false, true => tmul (tmul h h) (A' x)
      | _, _ => A' x
      end
    else A' x.
  Proof.
    intros U. unfold crz. destruct (ctl (g_ctrls g) x); [|reflexivity].
    destruct (nth (g_in g) x false), (nth (g_out g) x false); try ring.
    - transitivity (tmul (tmul h hb) (A' x)); [ring|]. rewrite U. ring.
    - transitivity (tmul (tmul h hb) (A' x)); [ring|]. rewrite U. ring.
  Qed.

  Lemma step_hw3 n g earlier b b' c s h hb rc E A :
    tmul h hb = t1 ->
    length b = n -> gate_ok n g earlier b b' = true -> memb b' (b :: earlier) = false ->
    map fst E = earlier ->
    describes T t0 n A ((b, rc) :: E) ->
    describes T t0 n (cgate3 g c s h hb A)
              ((b', tmul (tmul h h) (tmul s rc)) :: (b, tmul (tmul hb hb) (tmul c rc)) :: E).
  Proof.
    intros U Lb OK NB KE D.
    pose proof (step_hw T t0 t1 tadd tmul tsub topp Tring n g earlier b b' c s rc E A Lb OK NB KE D) as S.
    intros x Lx. unfold cgate3. rewrite (rz_pair g h hb _ x U). rewrite (S x Lx).
    unfold gate_ok in OK. repeat (apply andb_true_iff in OK as [OK ?]).
    rename H into Hearlier, H0 into Hb', H1 into Hout, H2 into Hin, H3 into Hctrl, H4 into Hco, H5 into Hci, H6 into Hne, H7 into Lo.
    apply Nat.ltb_lt in OK, Lo. apply negb_true_iff in Hne, Hci, Hco, Hout. apply Nat.eqb_neq in Hne.
    apply bits_eqb_eq in Hb'.
    cbn [amp_of_list].
    destruct (bits_eqb b' x) eqn:E1.
    - apply bits_eqb_eq in E1. subst x.
      assert (Act' : active (g_in g) (g_out g) (g_ctrls g) b' = true).
      { rewrite Hb'. rewrite active_swap by (try lia; assumption). unfold active. rewrite Hctrl, Hin, Hout. reflexivity. }
      unfold active in Act'. apply andb_true_iff in Act' as [C1 C2]. unfold ctl. rewrite C1.
      assert (I0 : nth (g_in g) b' false = false).
      { rewrite Hb', swapbits_nth by lia. rewrite Nat.eqb_refl. exact Hout. }
      rewrite I0 in *. destruct (nth (g_out g) b' false); [reflexivity | discriminate].
    - destruct (bits_eqb b x) eqn:E2.
      + apply bits_eqb_eq in E2. subst x. unfold ctl. rewrite Hctrl, Hin, Hout. reflexivity.
      + destruct (memb x earlier) eqn:M.
        * apply memb_In in M. rewrite forallb_forall in Hearlier. specialize (Hearlier x M).
          apply negb_true_iff in Hearlier. unfold active in Hearlier. unfold ctl.
          destruct (forallb (fun q => nth q x false) (g_ctrls g)); [|reflexivity].
          simpl in Hearlier. apply negb_false_iff in Hearlier. apply eqb_prop in Hearlier. rewrite Hearlier.
          destruct (nth (g_out g) x false); reflexivity.
        * rewrite (amp_of_list_notin T t0 E x) by (rewrite KE; exact M).
          destruct (ctl (g_ctrls g) x); [|reflexivity].
          destruct (nth (g_in g) x false), (nth (g_out g) x false); ring.
  Qed.

  Theorem run_hw3_spec n : forall gs cs bs earlier E A rc,
    chain_ok n earlier bs gs = true -> length cs = length gs -> units cs ->
    map fst E = earlier ->
    (forall b, hd_error bs = Some b -> describes T t0 n A ((b, rc) :: E)) ->
    describes T t0 n (run_hw3 gs cs A) (rev (combine bs (spread3 cs rc)) ++ E).
  Proof.
    induction gs as [|g gs IH]; intros cs bs earlier E A rc OK LC UN KE D.
    - destruct cs; [|discriminate]. destruct bs as [|b [|b' bs]]; try discriminate. simpl.
      apply D. reflexivity.
    - destruct cs as [|[[[c s] h] hb] cs]; [discriminate|]. destruct bs as [|b [|b' bs]]; try discriminate.
      cbn [chain_ok] in OK. repeat (apply andb_true_iff in OK as [OK ?]).
      apply Nat.eqb_eq in OK. apply negb_true_iff in H0.
      pose proof (Forall_inv UN) as U. pose proof (Forall_inv_tail UN) as UN'. cbn beta iota in U.
      cbn [run_hw3 spread3 combine rev].
      specialize (IH cs (b' :: bs) (b :: earlier) ((b, tmul (tmul hb hb) (tmul c rc)) :: E)
                     (cgate3 g c s h hb A) (tmul (tmul h h) (tmul s rc)) H ltac:(simpl in LC; lia) UN').
      rewrite <- app_assoc. cbn [app].
      apply IH.
      + simpl. now rewrite KE.
      + intros b0 Hb0. injection Hb0 as <-.
        apply (step_hw3 n g earlier b b' c s h hb rc E A U OK H1 H0 KE). apply D. reflexivity.
  Qed.

  (* _get_phase_gate_correction: RZ(qz, 2 phi).controlled_by(ones of the last string): only the last string changes *)
  Definition corr_last (blast : bits) (HB : T) (kv : bits * T) : bits * T :=
    if bits_eqb (fst kv) blast then (fst kv, tmul HB (snd kv)) else kv.

  Lemma corr_describes n qz ctrls H HB blast A L :
    ctl ctrls blast = true -> nth qz blast false = false ->
    Forall (fun kv : bits * T => fst kv = blast \/ ctl ctrls (fst kv) = false) L ->
    describes T t0 n A L ->
    describes T t0 n (crz qz ctrls H HB A) (map (corr_last blast HB) L).
  Proof.
    intros C Z F D x Lx. unfold crz. rewrite (D x Lx). clear D.
    induction L as [|[k v] L IH]; cbn [map amp_of_list].
    - destruct (ctl ctrls x); [|reflexivity]. destruct (nth qz x false); ring.
    - inversion F as [|? ? F1 F2]. subst. specialize (IH F2).
      unfold corr_last at 1. cbn [fst snd].
      destruct (bits_eqb k blast) eqn:EB; cbn [amp_of_list].
      + apply bits_eqb_eq in EB. subst k.
        destruct (bits_eqb blast x) eqn:EX; [|exact IH].
        apply bits_eqb_eq in EX. subst x. rewrite C, Z. reflexivity.
      + destruct (bits_eqb k x) eqn:EX; [|exact IH].
        apply bits_eqb_eq in EX. subst x. destruct F1 as [F1|F1]; cbn [fst] in F1.
        * subst. rewrite bits_eqb_refl in EB. discriminate.
        * rewrite F1. reflexivity.
  Qed.

  (* the closed form with the phase correction applied to the LAST entry *)
  Fixpoint spread3c (cs : list (T * T * T * T)) (r HB : T) : list T :=
    match cs with
    | [] => [tmul HB r]
    | (c, s, h, hb) :: cs' => tmul (tmul hb hb) (tmul c r) :: spread3c cs' (tmul (tmul h h) (tmul s r)) HB
    end.

  Lemma corr_spread HB : forall cs bs r, length bs = S (length cs) -> NoDup bs ->
    map (corr_last (last bs []) HB) (rev (combine bs (spread3 cs r))) = rev (combine bs (spread3c cs r HB)).
  Proof.
    induction cs as [|[[[c s] h] hb] cs IH]; intros bs r L ND.
    - destruct bs as [|b [|b' bs]]; simpl in L; try lia. cbn [last spread3 spread3c combine rev app map].
      unfold corr_last. cbn [fst snd]. now rewrite bits_eqb_refl.
    - destruct bs as [|b [|b' bs]]; simpl in L; try lia.
      change (last (b :: b' :: bs) []) with (last (b' :: bs) []).
      inversion ND as [|? ? NI ND']. subst.
      remember (b' :: bs) as bs' eqn:Ebs.
      cbn [spread3 spread3c combine rev]. rewrite map_app.
      rewrite IH by (subst bs'; simpl; lia || assumption). f_equal.
      cbn [map]. unfold corr_last. cbn [fst snd].
      destruct (bits_eqb b (last bs' [])) eqn:E; [|reflexivity].
      apply bits_eqb_eq in E. exfalso. apply NI. rewrite E.
      assert (NE : bs' <> []) by (subst bs'; discriminate).
      destruct (exists_last NE) as [l' [a Ea]].
      rewrite Ea, last_last. apply in_or_app. right. now left.
  Qed.
End HWC.

(* ------------------------------------------------------------------ the emitted chain, all n and k, with the correction gate *)
Lemma weight_rev (s : bits) : weight (rev s) = weight s.
Proof. induction s as [|b s IH]; [reflexivity|]. cbn [rev]. rewrite weight_app, IH, weight_cons. destruct b; unfold weight; simpl; lia. Qed.

Lemma ctl_ones_self (b : bits) : ctl (positions true 0 b) b = true.
Proof. unfold ctl. apply forallb_forall. intros q Hq. now apply positions_true in Hq. Qed.

Lemma ctl_ones_pins (bl b : bits) : length b = length bl -> weight b = weight bl ->
  ctl (positions true 0 bl) b = true -> b = bl.
Proof.
  intros L W C. apply subset_weight_eq; [exact L | exact W|].
  intros p Hp. unfold ctl in C. rewrite forallb_forall in C. apply C. apply positions_true. split; [|exact Hp].
  destruct (Nat.lt_ge_cases p (length bl)) as [A|A]; [exact A|]. rewrite nth_overflow in Hp by exact A. discriminate.
Qed.

Lemma hw_texts_facts n k : (1 <= k < n)%nat -> forall bs, hw_texts n k = Some bs ->
  NoDup bs /\ length bs = binom n k /\ forall b, In b bs -> length b = n /\ weight b = k.
Proof.
  intros Hk bs E1. unfold hw_texts in E1. rewrite initial_string_cf in E1.
  destruct (ehrlich_cf 0 k (n - k)) as [strs [moves [E [L [ND [S _]]]]]]. rewrite E in E1. simpl in E1.
  injection E1 as <-. replace (0 + k + (n - k))%nat with n in * by lia.
  split; [|split].
  - apply FinFun.Injective_map_NoDup; [|exact ND]. intros a b H. rewrite <- (rev_involutive a), <- (rev_involutive b). now f_equal.
  - now rewrite map_length.
  - intros b Hb. apply in_map_iff in Hb as [s [<- Hs]]. apply S in Hs as [A B].
    now rewrite rev_length, weight_rev.
Qed.

Section HWCAll.
  Variables (T : Type) (t0 t1 : T) (tadd tmul tsub : T -> T -> T) (topp : T -> T).
  Hypothesis Tring : ring_theory t0 t1 tadd tmul tsub topp (@eq T).

  (* hamming_weight_encoder, complex data, ring level, ALL n and k, the emitted control sets, both optimize_controls:
     RBS + RZ(in,-phi) + RZ(out,phi) per move, then RZ(qz, 2 phi_last) controlled by the ones of the last string
     (qz any qubit where the last string has a 0): the amplitudes on the walk strings are [spread3c], 0 elsewhere *)
  Theorem hw_complex_chain n k opt : (1 <= k < n)%nat ->
    exists bs gs, hw_texts n k = Some bs /\ hw_cgates n k opt = Some gs /\ length bs = S (length gs) /\
      forall (cs : list (T * T * T * T)) (r : T), length cs = length gs -> units T t1 tmul cs ->
      forall b0, hd_error bs = Some b0 ->
      forall qz H HB, nth qz (last bs []) false = false ->
      forall x, length x = n ->
        crz T tmul qz (positions true 0 (last bs [])) H HB
            (run_hw3 T tadd tmul tsub gs cs (fun u => if bits_eqb b0 u then r else t0)) x
        = amp_of_list T t0 (rev (combine bs (spread3c T tmul cs r HB))) x.
  Proof.
    intros Hk. pose proof (hw_ok_all n k opt Hk) as OK. unfold hw_ok in OK.
    destruct (hw_texts n k) as [bs|] eqn:E1; [|discriminate].
    destruct (hw_cgates n k opt) as [gs|] eqn:E2; [|discriminate].
    destruct (hw_texts_facts n k Hk bs E1) as [ND [LB FB]].
    pose proof (chain_ok_lengths n gs bs [] OK) as LG.
    exists bs, gs. split; [reflexivity|]. split; [reflexivity|]. split; [exact LG|].
    intros cs r LC UN b0 Hb0 qz H HB Hz x Lx.
    pose proof (run_hw3_spec T t0 t1 tadd tmul tsub topp Tring n gs cs bs [] []
                  (fun u => if bits_eqb b0 u then r else t0) r OK LC UN eq_refl) as S.
    rewrite app_nil_r in S.
    assert (D : describes T t0 n (run_hw3 T tadd tmul tsub gs cs (fun u => if bits_eqb b0 u then r else t0))
                          (rev (combine bs (spread3 T tmul cs r)))).
    { apply S. intros b Hb. rewrite Hb0 in Hb. injection Hb as <-. intros u Lu. reflexivity. }
    assert (NE : bs <> []) by (intros ->; simpl in LG; lia).
    assert (Il : In (last bs []) bs).
    { destruct (exists_last NE) as [l' [a Ea]]. rewrite Ea, last_last. apply in_or_app. right. now left. }
    transitivity (amp_of_list T t0 (map (corr_last T tmul (last bs []) HB) (rev (combine bs (spread3 T tmul cs r)))) x);
      [|f_equal; apply corr_spread; [etransitivity; [exact LG | f_equal; lia] | exact ND]].
    apply (corr_describes T t0 t1 tadd tmul tsub topp Tring n qz (positions true 0 (last bs [])) H HB (last bs [])); try assumption.
    - apply ctl_ones_self.
    - apply Forall_forall. intros [kx v] Hkv. cbn [fst].
      apply in_rev, in_combine_l in Hkv.
      destruct (ctl (positions true 0 (last bs [])) kx) eqn:C; [left | now right].
      destruct (FB kx Hkv) as [A1 A2]. destruct (FB _ Il) as [B1 B2].
      apply ctl_ones_pins; [lia | lia | exact C].
  Qed.
End HWCAll.

(* ------------------------------------------------------------------ the complex angle formulas *)

(* _angle_mod_two_pi: Python's float % (2 pi), read over the reals *)
Definition mod2pi (a : R) : R := a - IZR (Int_part (a / (2 * PI))) * (2 * PI).

Lemma cis_shift x (z : Z) : cis (x + IZR z * (2 * PI)) = cis x.
Proof.
  rewrite cis_add. replace (IZR z * (2 * PI)) with (IZR (2 * z) * PI) by (rewrite mult_IZR; simpl; ring).
  rewrite cis_Z_PI. unfold sgnZ. rewrite Z.even_mul. simpl. rewrite Cmult_1_r. reflexivity.
Qed.

Lemma mod2pi_range a : 0 <= mod2pi a < 2 * PI.
Proof.
  unfold mod2pi. pose proof PI_RGT_0 as P. destruct (base_Int_part (a / (2 * PI))) as [A B].
  set (k := IZR (Int_part (a / (2 * PI)))) in *.
  assert (E : a = a / (2 * PI) * (2 * PI)) by (field; lra).
  split.
  - assert (k * (2 * PI) <= a / (2 * PI) * (2 * PI)) by (apply Rmult_le_compat_r; lra). lra.
  - assert (a / (2 * PI) * (2 * PI) < (k + 1) * (2 * PI)) by (apply Rmult_lt_compat_r; lra). lra.
Qed.

Section ComplexData.
  Variable a2 : R -> R -> R.
  Hypothesis a2_ok : atan2_contract a2.

  Definition cang (z : C) : R := a2 (snd z) (fst z).          (* numpy.angle(z) = arctan2(z.imag, z.real) *)

  Lemma cang_polar z : Cmult (RtoC (Cmod z)) (cis (cang z)) = z.
  Proof.
    destruct z as [x y]. unfold cang, Cmod, cis, Cmult, RtoC. cbn [fst snd].
    replace (x ^ 2 + y ^ 2) with (x * x + y * y) by ring.
    destruct (a2_ok y x) as [A B]. f_equal; ring_simplify; assumption.
  Qed.

  (* phis[k] = (-angle(y_k) + sum(phis[:k])) % 2 pi *)
  Fixpoint phis_from (acc : R) (ys : list C) : list R :=
    match ys with
    | [] => []
    | z :: ys' => let p := mod2pi (- cang z + acc) in p :: phis_from (acc + p) ys'
    end.
  Definition phis (ys : list C) : list R := phis_from 0 ys.

  (* RBS(theta), RZ(in, -phi), RZ(out, phi):  c = cos theta, s = sin theta, h = e^{i phi/2}, hb = e^{-i phi/2} *)
  Definition coef (t p : R) : C * C * C * C := (RtoC (cos t), RtoC (sin t), cis (p / 2), cis (- (p / 2))).
  Fixpoint coefs (ts ps : list R) : list (C * C * C * C) :=
    match ts, ps with t :: ts', p :: ps' => coef t p :: coefs ts' ps' | _, _ => [] end.

  Fixpoint psis (Phi : R) (ps : list R) : list R :=
    match ps with [] => [] | p :: ps' => (Phi - p) :: psis (Phi + p) ps' end.
  Fixpoint polar_zip (ms ps : list R) : list C :=
    match ms, ps with m :: ms', p :: ps' => Cmult (RtoC m) (cis p) :: polar_zip ms' ps' | _, _ => [] end.

  Lemma coefs_length : forall ts ps, length ps = length ts -> length (coefs ts ps) = length ts.
  Proof. induction ts as [|t ts IH]; intros [|p ps] H; simpl in *; try lia. f_equal. apply IH. lia. Qed.

  Lemma coefs_units : forall ts ps, units C (RtoC 1) Cmult (coefs ts ps).
  Proof.
    induction ts as [|t ts IH]; intros [|p ps]; simpl; try constructor; [|apply IH].
    unfold coef. cbn beta iota. rewrite <- cis_add. replace (p / 2 + - (p / 2)) with 0 by ring. apply cis_0.
  Qed.

  Lemma spread3c_polar : forall ts ps rho Phi plast, length ps = length ts ->
    spread3c C Cmult (coefs ts ps) (Cmult (RtoC rho) (cis Phi)) (cis (- plast))
    = polar_zip (spread R Rmult (map cs_of ts) rho) (psis Phi (ps ++ [plast])).
  Proof.
    induction ts as [|t ts IH]; intros [|p ps] rho Phi plast L; simpl in L; try lia.
    - cbn [coefs spread3c map spread app psis polar_zip]. f_equal.
      unfold Rminus. rewrite cis_add. ring.
    - cbn [coefs coef spread3c map spread app psis polar_zip]. unfold cs_of at 1. cbn [spread polar_zip]. f_equal.
      + unfold Rminus. rewrite RtoC_mult, (cis_add Phi). 
        replace (- p) with (- (p / 2) + - (p / 2)) by field. rewrite cis_add. ring.
      + rewrite <- IH by lia. f_equal.
        rewrite RtoC_mult, (cis_add Phi). replace p with (p / 2 + p / 2) at 3 by field. rewrite cis_add. ring.
  Qed.

  Lemma mod2pi_spec a : exists z : Z, mod2pi a = a - IZR z * (2 * PI).
  Proof. now exists (Int_part (a / (2 * PI))). Qed.

  Lemma polar_phases N : forall ys acc,
    polar_zip (map (fun m => m / N) (map Cmod ys)) (psis acc (phis_from acc ys))
    = map (fun z => Cmult (RtoC (/ N)) z) ys.
  Proof.
    induction ys as [|z ys IH]; intros acc; [reflexivity|].
    cbn [map phis_from psis polar_zip]. f_equal; [|apply IH].
    destruct (mod2pi_spec (- cang z + acc)) as [k ->].
    replace (acc - (- cang z + acc - IZR k * (2 * PI))) with (cang z + IZR k * (2 * PI)) by ring.
    rewrite cis_shift. unfold Rdiv. rewrite (Rmult_comm (Cmod z)), RtoC_mult, <- Cmult_assoc, cang_polar. reflexivity.
  Qed.

  Lemma phis_from_length : forall ys acc, length (phis_from acc ys) = length ys.
  Proof. induction ys as [|z ys IH]; intros acc; simpl; [reflexivity|]. now rewrite IH. Qed.

  (* hamming_weight_encoder(y, n, k) for COMPLEX data y (walk order): thetas from |y|, phis as above, the emitted chain
     with its RZ layers and the phase-correction gate: amplitude y_j / ||y|| on the j-th walk string, 0 elsewhere *)
  Theorem hw_complex_angles_ok : forall n k opt, (1 <= k < n)%nat ->
    exists bs gs, hw_texts n k = Some bs /\ hw_cgates n k opt = Some gs /\ length bs = binom n k /\
      forall y : list C, length y = length bs -> norm (map Cmod y) <> 0 ->
      let ts := diag_angles a2 (map Cmod y) in
      let ps := phis y in
      forall b0, hd_error bs = Some b0 ->
      forall qz, nth qz (last bs []) false = false ->
      forall x, length x = n ->
        crz C Cmult qz (positions true 0 (last bs [])) (cis (last ps 0)) (cis (- last ps 0))
            (run_hw3 C Cplus Cmult Cminus gs (coefs ts (removelast ps))
                     (fun u => if bits_eqb b0 u then RtoC 1 else RtoC 0)) x
        = amp_of_list C (RtoC 0) (rev (combine bs (map (fun z => Cmult (RtoC (/ norm (map Cmod y))) z) y))) x.
  Proof.
    intros n k opt Hk.
    destruct (hw_complex_chain C (RtoC 0) (RtoC 1) Cplus Cmult Cminus Copp C_ring n k opt Hk) as [bs [gs [E1 [E2 [LG H]]]]].
    destruct (hw_texts_facts n k Hk bs E1) as [ND [LB FB]].
    exists bs, gs. split; [exact E1|]. split; [exact E2|]. split; [exact LB|].
    intros y Ly Ny ts ps b0 Hb0 qz Hz x Lx.
    assert (L2 : (2 <= length (map Cmod y))%nat).
    { rewrite map_length, Ly, LB. now apply binom_ge_2. }
    assert (Lts : S (length ts) = length y).
    { unfold ts. rewrite (diag_angles_length a2 _ L2). now rewrite map_length. }
    assert (Lps : length ps = length y) by (unfold ps, phis; apply phis_from_length).
    assert (NEp : ps <> []) by (intros E; rewrite E in Lps; simpl in Lps; lia).
    pose proof (app_removelast_last 0 NEp) as Eps.
    assert (Lrl : length (removelast ps) = length ts).
    { assert (length ps = S (length (removelast ps))) by (rewrite Eps at 1; rewrite app_length; simpl; lia). lia. }
    rewrite (H (coefs ts (removelast ps)) (RtoC 1)); try assumption.
    - f_equal. f_equal. f_equal.
      replace (RtoC 1) with (Cmult (RtoC 1) (cis 0)) by (rewrite cis_0; ring).
      rewrite spread3c_polar by exact Lrl. rewrite <- Eps.
      unfold ts. rewrite (diag_spread a2 a2_ok _ L2 Ny). unfold ps, phis. apply polar_phases.
    - rewrite coefs_length by exact Lrl. lia.
    - apply coefs_units.
  Qed.
End ComplexData.
