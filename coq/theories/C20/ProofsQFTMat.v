(* C20/ProofsQFTMat.v : QFT(n) at MATRIX level, for ALL n >= 1.
   State-vector simulation with the matrices of Base/Mat.v ([embed], [mmul]): applying the gate matrices of
   the QFT ladder (with swaps) one after the other to the basis column |x> gives the DFT column
       y |-> h^n e(X Y),
   over any commutative ring T with a scalar h (= 1/sqrt2) and a map e : nat -> T with
       e 0 = 1,  e (a + b) = e a * e b,  e (2^(n-1)) = -1        (e k = exp(2 pi i k / 2^n)). *)
From Coq Require Import List Bool Arith Lia Ring.
From QV Require Import Base.Mat C20.Model C20.Proofs C20.ProofsQFT C20.ProofsPS.
Import ListNotations.

Section QFTMat.
  Variables (T : Type) (t0 t1 : T) (tadd tmul tsub : T -> T -> T) (topp : T -> T).
  Hypothesis Tring : ring_theory t0 t1 tadd tmul tsub topp (@eq T).
  Add Ring TR2 : Tring.
  Variables (h : T) (e : nat -> T).
  Hypothesis e_0 : e 0 = t1.
  Hypothesis e_add : forall x y, e (x + y) = tmul (e x) (e y).

  Lemma map_nth_seq {A B} (F : A -> B) d : forall (l : list A) k,
    map (fun q => F (nth (q - k) l d)) (seq k (length l)) = map F l.
  Proof.
    induction l as [|a l IH]; intros k; simpl; [reflexivity|].
    rewrite Nat.sub_diag. f_equal. rewrite <- (IH (S k)). apply map_ext_in. intros q Hq. apply in_seq in Hq.
    replace (q - k) with (S (q - S k)) by lia. reflexivity.
  Qed.

  Lemma combine_sum (P : nat -> nat) : forall m (y : list bool) k, length y = m ->
    list_sum (map (fun yp : bool * nat => b2n (fst yp) * snd yp) (combine y (map P (seq k m)))) =
    list_sum (map (fun q => b2n (nth (q - k) y false) * P q) (seq k m)).
  Proof.
    induction m as [|m IH]; intros [|b y] k L; try discriminate; [reflexivity|].
    injection L as L. cbn [seq map combine]. rewrite !list_sum_cons. cbn [fst snd]. rewrite Nat.sub_diag. cbn [nth].
    f_equal. rewrite (IH y (S k) L). apply list_sum_ext. intros q Hq. apply in_seq in Hq.
    replace (q - k) with (S (q - S k)) by lia. reflexivity.
  Qed.

  Lemma qft_wf n : Forall (wf_gate n) (qft n true).
  Proof.
    apply Forall_forall. intros g Hg. destruct g as [q|c t k|a b]; simpl.
    - now apply qft_H_iff in Hg.
    - apply qft_CU1_iff in Hg. lia.
    - apply qft_SWAP_iff in Hg. destruct Hg as [_ [Ha ->]].
      pose proof (Nat.mul_div_le n 2 ltac:(lia)). lia.
  Qed.

  Theorem qft_matrix_column (x : bits) :
    let n := length x in
    1 <= n -> e (2 ^ (n - 1)) = topp t1 ->
    apply_gates T t0 t1 tadd tmul topp h e n (qft n true)
                (col T (bvec T n (fun c => if beqb x c then t1 else t0)))
    = col T (bvec T n (fun y => tmul (tpow T t1 tmul h n) (e (qphase n x 0 * qphase n y 0)))).
  Proof.
    intros n Hn e_half.
    destruct (qft_swap_product x) as [f [R P]]. fold n in R, P.
    (* the basis column is the product state of qinit x *)
    assert (I : col T (bvec T n (fun c => if beqb x c then t1 else t0)) =
                col T (pvec T t0 t1 tmul n (amps_of T t0 t1 tmul h e n (qinit x)))).
    { f_equal. unfold pvec. apply (bvec_ext T). intros c Lc.
      unfold amps_of, qinit.
      rewrite <- (den_basis T t0 t1 tadd tmul tsub topp Tring x c) by (now rewrite Lc).
      f_equal. unfold n.
      rewrite <- (map_nth_seq (fun b : bool => if b then (t0, t1) else (t1, t0)) false x 0).
      apply map_ext. intros q. rewrite Nat.sub_0_r. reflexivity. }
    rewrite I.
    rewrite (prun_sound T t0 t1 tadd tmul tsub topp Tring h e n e_0 e_add e_half (qft n true) (qinit x) f (qft_wf n) R).
    f_equal. unfold pvec. apply (bvec_ext T). intros y Ly.
    (* the final product state: every qubit is h (|0> + e(phase)|1>) *)
    assert (A : amps_of T t0 t1 tmul h e n f =
                map (fun p => (h, tmul h (e p))) (map (fun q => qphase n x (n - 1 - q)) (seq 0 n))).
    { unfold amps_of. rewrite map_map. apply map_ext_in. intros q Hq. apply in_seq in Hq.
      rewrite P by lia. reflexivity. }
    rewrite A.
    rewrite (den_phases T t0 t1 tadd tmul tsub topp Tring h e e_0 e_add) by (now rewrite !map_length, seq_length).
    rewrite !map_length, seq_length. f_equal.
    rewrite (combine_sum (fun q => qphase n x (n - 1 - q)) n y 0 Ly).
    destruct (dft_phase_congruence n x y) as [K E]. rewrite E.
    assert (E1 : forall k, e (2 ^ n * k) = t1).
    { assert (E2 : e (2 ^ n) = t1).
      { replace (2 ^ n) with (2 ^ (n - 1) + 2 ^ (n - 1)).
        - rewrite e_add, e_half. ring.
        - replace n with (S (n - 1)) at 3 by lia. simpl. lia. }
      induction k as [|k IHk]; [now rewrite Nat.mul_0_r|].
      replace (2 ^ n * S k) with (2 ^ n + 2 ^ n * k) by lia. rewrite e_add, E2, IHk. ring. }
    rewrite e_add, E1.
    rewrite (list_sum_ext (fun q => b2n (nth (q - 0) y false) * qphase n x (n - 1 - q))
                          (fun q => b2n (nth q y false) * qphase n x (n - 1 - q))) by (intros; now rewrite Nat.sub_0_r).
    ring.
  Qed.
  (* without swaps: the output is bit-reversed:  y |-> h^n e(X * Yrev) *)
  Lemma qft_wf_noswap n : Forall (wf_gate n) (qft n false).
  Proof.
    apply Forall_forall. intros g Hg. destruct g as [q|c t k|a b]; simpl.
    - now apply qft_H_iff in Hg.
    - apply qft_CU1_iff in Hg. lia.
    - apply qft_SWAP_iff in Hg. destruct Hg as [Hs _]. discriminate.
  Qed.

  Theorem qft_matrix_column_noswap (x : bits) :
    let n := length x in
    1 <= n -> e (2 ^ (n - 1)) = topp t1 ->
    apply_gates T t0 t1 tadd tmul topp h e n (qft n false)
                (col T (bvec T n (fun c => if beqb x c then t1 else t0)))
    = col T (bvec T n (fun y => tmul (tpow T t1 tmul h n) (e (qphase n x 0 * rev_value n y)))).
  Proof.
    intros n Hn e_half.
    destruct (qft_noswap_product x) as [f [R P]]. fold n in R, P.
    assert (I : col T (bvec T n (fun c => if beqb x c then t1 else t0)) =
                col T (pvec T t0 t1 tmul n (amps_of T t0 t1 tmul h e n (qinit x)))).
    { f_equal. unfold pvec. apply (bvec_ext T). intros c Lc.
      unfold amps_of, qinit.
      rewrite <- (den_basis T t0 t1 tadd tmul tsub topp Tring x c) by (now rewrite Lc).
      f_equal. unfold n.
      rewrite <- (map_nth_seq (fun b : bool => if b then (t0, t1) else (t1, t0)) false x 0).
      apply map_ext. intros q. rewrite Nat.sub_0_r. reflexivity. }
    rewrite I.
    rewrite (prun_sound T t0 t1 tadd tmul tsub topp Tring h e n e_0 e_add e_half (qft n false) (qinit x) f (qft_wf_noswap n) R).
    f_equal. unfold pvec. apply (bvec_ext T). intros y Ly.
    assert (A : amps_of T t0 t1 tmul h e n f =
                map (fun p => (h, tmul h (e p))) (map (fun q => qphase n x q) (seq 0 n))).
    { unfold amps_of. rewrite map_map. apply map_ext_in. intros q Hq. apply in_seq in Hq.
      rewrite P by lia. reflexivity. }
    rewrite A.
    rewrite (den_phases T t0 t1 tadd tmul tsub topp Tring h e e_0 e_add) by (now rewrite !map_length, seq_length).
    rewrite !map_length, seq_length. f_equal.
    rewrite (combine_sum (fun q => qphase n x q) n y 0 Ly).
    destruct (dft_phase_congruence_rev n x y) as [K E]. rewrite E.
    assert (E1 : forall k, e (2 ^ n * k) = t1).
    { assert (E2 : e (2 ^ n) = t1).
      { replace (2 ^ n) with (2 ^ (n - 1) + 2 ^ (n - 1)).
        - rewrite e_add, e_half. ring.
        - replace n with (S (n - 1)) at 3 by lia. simpl. lia. }
      induction k as [|k IHk]; [now rewrite Nat.mul_0_r|].
      replace (2 ^ n * S k) with (2 ^ n + 2 ^ n * k) by lia. rewrite e_add, E2, IHk. ring. }
    rewrite e_add, E1.
    rewrite (list_sum_ext (fun q => b2n (nth (q - 0) y false) * qphase n x q)
                          (fun q => b2n (nth q y false) * qphase n x q)) by (intros; now rewrite Nat.sub_0_r).
    ring.
  Qed.
End QFTMat.
