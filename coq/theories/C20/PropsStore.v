(* C20/PropsStore.v : constructor outputs are independent objects (statements only; proofs in ProofsStore.v).
   Tied to /repo by harness/c20_purity.py: for every constructor of the property, every pair of returned circuits
   is checked to hold disjoint gate objects (the hypothesis) and every earlier snapshot is re-checked after later calls
   and caller-side modifications (the conclusion, on the real objects). *)
From Coq Require Import List Arith Bool.
From QV Require Import C20.Store C20.ProofsStore.
Import ListNotations.

(* circuits holding disjoint gate objects cannot influence each other through set_parameters *)
Theorem constructor_outputs_independent : forall (P : Type) (s : store P) (c1 c2 : circuit) (vals : list P),
  disjoint (ids c1) (ids c2) -> observe P (set_parameters P s c1 vals) c2 = observe P s c2.
Proof. exact independent. Qed.
Print Assumptions constructor_outputs_independent.

(* ... through any history of caller-side updates of other circuits *)
Theorem constructor_outputs_stable_under_history : forall (P : Type) (c : circuit) (ops : list (circuit * list P)) (s : store P),
  Forall (fun cv => disjoint (ids (fst cv)) (ids c)) ops ->
  observe P (run_updates P s ops) c = observe P s c.
Proof. exact independent_history. Qed.
Print Assumptions constructor_outputs_stable_under_history.

(* a constructor that allocates its gates afresh returns disjoint objects on consecutive calls *)
Theorem fresh_constructor_calls_disjoint : forall next sh1 sh2,
  disjoint (ids (build_fresh next sh1)) (ids (build_fresh (next + length sh1) sh2)).
Proof. exact fresh_builds_disjoint. Qed.
Print Assumptions fresh_constructor_calls_disjoint.

(* non-vacuity *)
Example disjoint_example : disjoint (ids (build_fresh 0 [(7, [0; 1])])) (ids (build_fresh 1 [(7, [0; 1])])).
Proof. exact (fresh_builds_disjoint 0 [(7, [0; 1])] [(7, [0; 1])]). Qed.

(* the defect class "the constructor hands out the gate objects of a memoised template": a later caller-side update
   of one returned circuit changes the other *)
Theorem shared_gate_objects_refuted :
  exists (t : circuit) (vals : list nat),
  observe nat (set_parameters nat (fun _ => 0) (build_cached t) vals) (build_cached t)
  <> observe nat (fun _ => 0) (build_cached t).
Proof. exists [mkRef 0 7 [0; 1]], [5]. exact shared_changes. Qed.
Print Assumptions shared_gate_objects_refuted.
