(* C20/ProofsHW.v : hamming_weight_encoder at ring level.
   The circuit is a chain of controlled RBS gates; gate j rotates the amplitude between the j-th and the
   (j+1)-th string of the Ehrlich walk.  GENERAL THEOREM (any list of strings and gates, any ring): if every
   gate is active on its own string (controls 1, in = 1, out = 0), maps it to the next string, and is inactive on
   all earlier strings, then the final amplitudes on the strings are the diagonal spread  c0 r, s0 c1 r, ...
   and every other basis state has amplitude 0.  The hypothesis is a decidable check ([chain_ok]); for the
   real gate skeleton (Model.hw_gates, both optimize_controls settings) it is proved for all n and k in ProofsHWOpt4.v (hw_ok_all). *)
From Coq Require Import List Bool Arith Lia Ring.
From QV Require Import C20.Model C20.Proofs C20.ProofsEhrlich.
Import ListNotations.

(* exchange the values at positions i and o *)
Definition swapbits (i o : nat) (b : bits) : bits :=
  set_nth i (nth o b false) (set_nth o (nth i b false) b).

Definition active (qi qo : nat) (ctrls : list nat) (b : bits) : bool :=
  forallb (fun q => nth q b false) ctrls && negb (Bool.eqb (nth qi b false) (nth qo b false)).

Lemma forallb_ext_in' {A} (f g : A -> bool) l : (forall x, In x l -> f x = g x) -> forallb f l = forallb g l.
Proof.
  induction l as [|a l IH]; intros H; simpl; [reflexivity|].
  rewrite (H a (or_introl eq_refl)), IH; [reflexivity|]. intros; apply H; now right.
Qed.

Record cgate := mkCG { g_in : nat; g_out : nat; g_ctrls : list nat }.

Section HW.
  Variables (R : Type) (r0 r1 : R) (radd rmul rsub : R -> R -> R) (ropp : R -> R).
  Hypothesis Rring : ring_theory r0 r1 radd rmul rsub ropp (@eq R).
  Add Ring RH : Rring.

  (* controlled RBS(in, out; c, s) on amplitudes of basis strings (gates.RBS matrix, |in out> ordering):
       |10> -> c|10> + s|01>,   |01> -> c|01> - s|10>  *)
  Definition crbs (g : cgate) (c s : R) (A : bits -> R) : bits -> R :=
    fun b =>
      if active (g_in g) (g_out g) (g_ctrls g) b then
        if nth (g_in g) b false
        then rsub (rmul c (A b)) (rmul s (A (swapbits (g_in g) (g_out g) b)))
        else radd (rmul s (A (swapbits (g_in g) (g_out g) b))) (rmul c (A b))
      else A b.

  Fixpoint run_hw (gs : list cgate) (cs : list (R * R)) (A : bits -> R) : bits -> R :=
    match gs, cs with
    | g :: gs', (c, s) :: cs' => run_hw gs' cs' (crbs g c s A)
    | _, _ => A
    end.

  (* the decidable side condition *)
  Definition gate_ok (n : nat) (g : cgate) (earlier : list bits) (b b' : bits) : bool :=
    (g_in g <? n) && (g_out g <? n) && negb (g_in g =? g_out g)
    && negb (existsb (Nat.eqb (g_in g)) (g_ctrls g)) && negb (existsb (Nat.eqb (g_out g)) (g_ctrls g))
    && forallb (fun q => nth q b false) (g_ctrls g) && nth (g_in g) b false && negb (nth (g_out g) b false)
    && bits_eqb b' (swapbits (g_in g) (g_out g) b)
    && forallb (fun e => negb (active (g_in g) (g_out g) (g_ctrls g) e)) earlier.

  Fixpoint chain_ok (n : nat) (earlier : list bits) (bs : list bits) (gs : list cgate) : bool :=
    match bs, gs with
    | b :: ((b' :: _) as bs'), g :: gs' =>
        (length b =? n) && gate_ok n g earlier b b' && negb (memb b' (b :: earlier)) && chain_ok n (b :: earlier) bs' gs'
    | [b], [] => (length b =? n)
    | _, _ => false
    end.

  Lemma nth_set_nth_b : forall k (l : bits) v p, k < length l ->
    nth p (set_nth k v l) false = if Nat.eqb p k then v else nth p l false.
  Proof. intros. now apply nth_set_nth. Qed.

  Lemma swapbits_nth i o b p : i < length b -> o < length b ->
    nth p (swapbits i o b) false = if Nat.eqb p i then nth o b false else if Nat.eqb p o then nth i b false else nth p b false.
  Proof.
    intros Hi Ho. unfold swapbits. rewrite nth_set_nth_b by (now rewrite set_nth_len).
    destruct (p =? i); [reflexivity|]. now rewrite nth_set_nth_b.
  Qed.

  Lemma swapbits_length i o b : length (swapbits i o b) = length b.
  Proof. unfold swapbits. now rewrite !set_nth_len. Qed.

  Lemma bits_ext : forall (a b : bits), length a = length b -> (forall p, nth p a false = nth p b false) -> a = b.
  Proof.
    induction a as [|x a IH]; intros [|y b] L H; try discriminate; [reflexivity|].
    f_equal; [exact (H 0) | apply IH; [now injection L | intros p; exact (H (S p))]].
  Qed.

  Lemma swapbits_invol i o b : i < length b -> o < length b -> swapbits i o (swapbits i o b) = b.
  Proof.
    intros Hi Ho. apply bits_ext; [now rewrite !swapbits_length|]. intros p.
    rewrite swapbits_nth by (now rewrite swapbits_length).
    rewrite !swapbits_nth by assumption. rewrite !Nat.eqb_refl.
    destruct (Nat.eqb_spec p i) as [->|N1].
    - destruct (Nat.eqb_spec o i) as [->|]; reflexivity.
    - destruct (Nat.eqb_spec p o) as [->|N2]; [|reflexivity].
      destruct (Nat.eqb_spec i i); [reflexivity | congruence].
  Qed.

  (* activity is invariant under the exchange, when in/out are not controls *)
  Lemma active_swap g b :
    g_in g < length b -> g_out g < length b ->
    existsb (Nat.eqb (g_in g)) (g_ctrls g) = false -> existsb (Nat.eqb (g_out g)) (g_ctrls g) = false ->
    active (g_in g) (g_out g) (g_ctrls g) (swapbits (g_in g) (g_out g) b) = active (g_in g) (g_out g) (g_ctrls g) b.
  Proof.
    intros Hi Ho Ci Co. unfold active. f_equal.
    - apply forallb_ext_in'. intros q Hq. rewrite swapbits_nth by assumption.
      destruct (Nat.eqb_spec q (g_in g)) as [->|N1].
      + exfalso. assert (existsb (Nat.eqb (g_in g)) (g_ctrls g) = true)
          by (apply existsb_exists; exists (g_in g); split; [assumption | apply Nat.eqb_refl]). congruence.
      + destruct (Nat.eqb_spec q (g_out g)) as [->|N2]; [|reflexivity].
        exfalso. assert (existsb (Nat.eqb (g_out g)) (g_ctrls g) = true)
          by (apply existsb_exists; exists (g_out g); split; [assumption | apply Nat.eqb_refl]). congruence.
    - rewrite !swapbits_nth by assumption. rewrite !Nat.eqb_refl.
      destruct (Nat.eqb_spec (g_out g) (g_in g)) as [E|_]; [now rewrite E|].
      destruct (nth (g_in g) b false), (nth (g_out g) b false); reflexivity.
  Qed.
  (* amplitudes given by an association list, zero elsewhere *)
  Fixpoint amp_of_list (l : list (bits * R)) (x : bits) : R :=
    match l with
    | [] => r0
    | (k, v) :: l' => if bits_eqb k x then v else amp_of_list l' x
    end.

  Lemma amp_of_list_notin : forall l x, memb x (map fst l) = false -> amp_of_list l x = r0.
  Proof.
    induction l as [|[k v] l IH]; intros x H; simpl in *; [reflexivity|].
    apply orb_false_iff in H as [H1 H2].
    destruct (bits_eqb k x) eqn:E.
    - apply bits_eqb_eq in E. subst. assert (bits_eqb x x = true) by now apply bits_eqb_eq. congruence.
    - now apply IH.
  Qed.

  Lemma bits_eqb_refl x : bits_eqb x x = true.
  Proof. now apply bits_eqb_eq. Qed.

  Lemma bits_eqb_sym x y : bits_eqb x y = bits_eqb y x.
  Proof.
    destruct (bits_eqb x y) eqn:E1, (bits_eqb y x) eqn:E2; try reflexivity.
    - apply bits_eqb_eq in E1. subst. now rewrite bits_eqb_refl in E2.
    - apply bits_eqb_eq in E2. subst. now rewrite bits_eqb_refl in E1.
  Qed.

  Definition describes (n : nat) (A : bits -> R) (l : list (bits * R)) : Prop :=
    forall x, length x = n -> A x = amp_of_list l x.

  Lemma step_hw n g earlier b b' c s rc E A :
    length b = n -> gate_ok n g earlier b b' = true -> memb b' (b :: earlier) = false ->
    map fst E = earlier ->
    describes n A ((b, rc) :: E) ->
    describes n (crbs g c s A) ((b', rmul s rc) :: (b, rmul c rc) :: E).
  Proof.
    intros Lb OK NB KE D x Lx.
    unfold gate_ok in OK. repeat (apply andb_true_iff in OK as [OK ?]).
    rename H into Hearlier, H0 into Hb', H1 into Hout, H2 into Hin, H3 into Hctrl, H4 into Hco, H5 into Hci, H6 into Hne, H7 into Lo.
    apply Nat.ltb_lt in OK, Lo. apply negb_true_iff in Hne, Hci, Hco, Hout. apply Nat.eqb_neq in Hne.
    apply bits_eqb_eq in Hb'.
    simpl in NB. apply orb_false_iff in NB as [NB1 NB2].
    assert (Lb' : length b' = n) by (rewrite Hb', swapbits_length; exact Lb).
    assert (Actb : active (g_in g) (g_out g) (g_ctrls g) b = true).
    { unfold active. rewrite Hctrl, Hin, Hout. reflexivity. }
    assert (Sb' : swapbits (g_in g) (g_out g) b' = b).
    { rewrite Hb'. apply swapbits_invol; lia. }
    assert (Ab' : A b' = r0).
    { rewrite (D b' Lb'). simpl. rewrite bits_eqb_sym, NB1. apply amp_of_list_notin. now rewrite KE. }
    assert (Ab : A b = rc) by (rewrite (D b Lb); simpl; now rewrite bits_eqb_refl).
    unfold crbs. cbn [amp_of_list].
    destruct (bits_eqb b' x) eqn:E1.
    - (* x = b' *)
      apply bits_eqb_eq in E1. subst x.
      assert (Act' : active (g_in g) (g_out g) (g_ctrls g) b' = true).
      { rewrite Hb'. rewrite active_swap by (try lia; assumption). exact Actb. }
      rewrite Act'. replace (nth (g_in g) b' false) with false.
      + rewrite Sb', Ab, Ab'. ring.
      + rewrite Hb', swapbits_nth by lia. rewrite Nat.eqb_refl. now rewrite Hout.
    - destruct (bits_eqb b x) eqn:E2.
      + (* x = b *)
        apply bits_eqb_eq in E2. subst x. rewrite Actb, Hin, <- Hb', Ab, Ab'. ring.
      + (* any other string *)
        destruct (active (g_in g) (g_out g) (g_ctrls g) x) eqn:Ax.
        * (* active: then x is not an earlier string, and its partner carries no amplitude *)
          assert (NXe : memb x earlier = false).
          { destruct (memb x earlier) eqn:M; [|reflexivity]. apply memb_In in M.
            rewrite forallb_forall in Hearlier. specialize (Hearlier x M). rewrite Ax in Hearlier. discriminate. }
          set (y := swapbits (g_in g) (g_out g) x).
          assert (Ly : length y = n) by (unfold y; now rewrite swapbits_length).
          assert (Ay : A y = r0).
          { rewrite (D y Ly). simpl.
            destruct (bits_eqb b y) eqn:E3.
            - apply bits_eqb_eq in E3. exfalso.
              assert (x = b').
              { rewrite Hb', E3. unfold y. symmetry. apply swapbits_invol; lia. }
              subst x. now rewrite bits_eqb_refl in E1.
            - apply amp_of_list_notin. rewrite KE.
              destruct (memb y earlier) eqn:M; [|reflexivity]. apply memb_In in M.
              rewrite forallb_forall in Hearlier. specialize (Hearlier y M).
              unfold y in Hearlier. rewrite active_swap in Hearlier by (try lia; assumption).
              rewrite Ax in Hearlier. discriminate. }
          assert (Axx : A x = r0).
          { rewrite (D x Lx). simpl. rewrite E2. apply amp_of_list_notin. now rewrite KE. }
          fold y. rewrite Ay, Axx.
          rewrite (amp_of_list_notin E x) by now rewrite KE.
          destruct (nth (g_in g) x false); ring.
        * rewrite (D x Lx). simpl. now rewrite E2.
  Qed.

  Theorem run_hw_spec n : forall gs cs bs earlier E A rc,
    chain_ok n earlier bs gs = true -> length cs = length gs ->
    map fst E = earlier ->
    (forall b, hd_error bs = Some b -> describes n A ((b, rc) :: E)) ->
    describes n (run_hw gs cs A) (rev (combine bs (spread R rmul cs rc)) ++ E).
  Proof.
    induction gs as [|g gs IH]; intros cs bs earlier E A rc OK LC KE D.
    - destruct cs; [|discriminate]. destruct bs as [|b [|b' bs]]; try discriminate. simpl.
      apply D. reflexivity.
    - destruct cs as [|[c s] cs]; [discriminate|]. destruct bs as [|b [|b' bs]]; try discriminate.
      cbn [chain_ok] in OK. repeat (apply andb_true_iff in OK as [OK ?]).
      apply Nat.eqb_eq in OK. apply negb_true_iff in H0.
      cbn [run_hw spread combine rev].
      specialize (IH cs (b' :: bs) (b :: earlier) ((b, rmul c rc) :: E) (crbs g c s A) (rmul s rc) H ltac:(simpl in LC; lia)).
      rewrite <- app_assoc. cbn [app].
      apply IH.
      + simpl. now rewrite KE.
      + intros b0 Hb0. injection Hb0 as <-.
        apply (step_hw n g earlier b b' c s rc E A OK H1 H0 KE). apply D. reflexivity.
  Qed.
End HW.

(* ---------------------------------------------------------------- the real gate skeleton (Model.hw_gates), BOUNDED check *)
Definition hw_texts (n k : nat) : option (list bits) :=
  option_map (fun r => map (@rev bool) (fst r)) (ehrlich (initial_string n k)).   (* strings in qubit order *)
Definition hw_cgates (n k : nat) (opt : bool) : option (list cgate) :=
  option_map (map (fun g : nat * nat * list nat => let '(a, b, cs) := g in mkCG a b cs))
             (hw_gates n k opt (initial_string n k)).

Definition hw_ok (n k : nat) (opt : bool) : bool :=
  match hw_texts n k, hw_cgates n k opt with
  | Some bs, Some gs => chain_ok n [] bs gs
  | _, _ => false
  end.

Section HWBounded.
  Variables (R : Type) (r0 r1 : R) (radd rmul rsub : R -> R -> R) (ropp : R -> R).
  Hypothesis Rring : ring_theory r0 r1 radd rmul rsub ropp (@eq R).

  Theorem hw_encoder_chain n k opt :
    hw_ok n k opt = true ->
    exists bs gs, hw_texts n k = Some bs /\ hw_cgates n k opt = Some gs /\
      forall (cs : list (R * R)) (r : R), length cs = length gs ->
      forall b0, hd_error bs = Some b0 ->
      forall x, length x = n ->
        run_hw R radd rmul rsub gs cs (fun y => if bits_eqb b0 y then r else r0) x
        = amp_of_list R r0 (rev (combine bs (spread R rmul cs r))) x.
  Proof.
    unfold hw_ok. destruct (hw_texts n k) as [bs|]; [|discriminate].
    destruct (hw_cgates n k opt) as [gs|]; [|discriminate]. intros OK.
    exists bs, gs. repeat split. intros cs r LC b0 Hb0 x Lx.
    pose proof (run_hw_spec R r0 r1 radd rmul rsub ropp Rring n gs cs bs [] [] (fun y => if bits_eqb b0 y then r else r0) r OK LC eq_refl) as S.
    rewrite app_nil_r in S. apply S; [|exact Lx].
    intros b Hb. rewrite Hb0 in Hb. injection Hb as <-. intros y Ly. reflexivity.
  Qed.
End HWBounded.
