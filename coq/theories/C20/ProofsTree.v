(* C20/ProofsTree.v : the breadth-first RBS gate list of unary_encoder(architecture="tree")
   (_generate_rbs_pairs: rows of pairs (idx, idx + step), step halving, in data coordinates p = n-1-qubit)
   computes the level-by-level amplitude propagation, and under the load equations
   c N_parent = N_left, s N_parent = N_right  (heap of partial norms r_array, level by level) every final
   amplitude times the root norm is its datum -- ring level, all n, no division (zero blocks included). *)
From Coq Require Import List Bool Arith Lia Ring.
From QV Require Import C20.Model C20.Proofs.
Import ListNotations.

Section Tree.
  Variables (R : Type) (r0 r1 : R) (radd rmul rsub : R -> R -> R) (ropp : R -> R).
  Hypothesis Rring : ring_theory r0 r1 radd rmul rsub ropp (@eq R).
  Add Ring RT : Rring.

  (* amplitudes sitting at the listed positions, zero elsewhere *)
  Fixpoint amp_at (idxs : list nat) (L : list R) (p : nat) : R :=
    match idxs, L with
    | i :: idxs', x :: L' => if Nat.eqb p i then x else amp_at idxs' L' p
    | _, _ => r0
    end.

  (* one row of gates: RBS(idx, idx + step) with its (c, s) *)
  Fixpoint run_row (step : nat) (idxs : list nat) (angles : list (R * R)) (a : nat -> R) : nat -> R :=
    match idxs, angles with
    | i :: idxs', (c, s) :: angles' => run_row step idxs' angles' (rbs R radd rmul rsub i (i + step) c s a)
    | _, _ => a
    end.

  Definition children (step : nat) (idxs : list nat) : list nat := flat_map (fun i => [i; i + step]) idxs.
  Fixpoint step_level (angles : list (R * R)) (L : list R) : list R :=
    match angles, L with
    | (c, s) :: angles', x :: L' => rmul c x :: rmul s x :: step_level angles' L'
    | _, _ => []
    end.

  (* all listed positions are at least g apart *)
  Fixpoint gap (g : nat) (l : list nat) : Prop :=
    match l with
    | [] => True
    | x :: l' => (forall y, In y l' -> x + g <= y \/ y + g <= x) /\ gap g l'
    end.

  Lemma gap_mono g g' l : g' <= g -> gap g l -> gap g' l.
  Proof.
    intros H. induction l as [|x l IH]; simpl; [auto|]. intros [A B]. split; [|auto].
    intros y Hy. destruct (A y Hy); lia.
  Qed.

  Lemma gap_children step idxs : 1 <= step -> gap (2 * step) idxs -> gap step (children step idxs).
  Proof.
    intros Hs. induction idxs as [|x l IH]; simpl; [auto|]. intros [A B].
    assert (C : forall y, In y (children step l) -> exists z, In z l /\ (y = z \/ y = z + step)).
    { intros y Hy. apply in_flat_map in Hy as [z [Hz [E|[E|[]]]]]; exists z; auto. }
    split; [|split; [|now apply IH]].
    - intros y [<-|Hy]; [lia|]. destruct (C y Hy) as [z [Hz E]]. destruct (A z Hz); destruct E; lia.
    - intros y Hy. destruct (C y Hy) as [z [Hz E]]. destruct (A z Hz); destruct E; lia.
  Qed.

  Lemma amp_at_notin : forall idxs L p, ~ In p idxs -> amp_at idxs L p = r0.
  Proof.
    induction idxs as [|i idxs IH]; intros [|x L] p H; simpl; try reflexivity.
    destruct (Nat.eqb_spec p i) as [->|Ne]; [exfalso; apply H; now left|]. apply IH. intros C. apply H. now right.
  Qed.

  (* a row acts on its own pairs only, given that the second position of every pair is still empty *)
  Lemma run_row_spec step : forall idxs angles L a,
    1 <= step -> length L = length idxs -> length angles = length idxs -> gap (2 * step) idxs ->
    (forall p, In p (children step idxs) -> a p = amp_at idxs L p) ->
    forall p, run_row step idxs angles a p =
              if existsb (Nat.eqb p) (children step idxs) then amp_at (children step idxs) (step_level angles L) p else a p.
  Proof.
    intros idxs. induction idxs as [|i idxs IH]; intros angles L a Hs LL LA G HA p.
    - destruct angles; reflexivity.
    - destruct angles as [|[c s] angles]; [discriminate|]. destruct L as [|x L]; [discriminate|].
      simpl in LL, LA, G. destruct G as [G1 G2].
      cbn [run_row children flat_map app step_level amp_at existsb].
      assert (NI : ~ In i (children step idxs) /\ ~ In (i + step) (children step idxs)).
      { split; intros C; apply in_flat_map in C as [z [Hz [E|[E|[]]]]]; destruct (G1 z Hz); lia. }
      destruct NI as [NI1 NI2].
      assert (Ai : a i = x).
      { rewrite HA by (simpl; auto). simpl. now rewrite Nat.eqb_refl. }
      assert (Ais : a (i + step) = r0).
      { rewrite HA by (simpl; auto). simpl.
        replace (i + step =? i) with false by (symmetry; apply Nat.eqb_neq; lia).
        apply amp_at_notin. intros C.
        assert (In (i + step) (children step idxs)) by (apply in_flat_map; exists (i + step); split; [exact C | now left]).
        contradiction. }
      set (a1 := rbs R radd rmul rsub i (i + step) c s a).
      assert (A1i : a1 i = rmul c x).
      { unfold a1, rbs. rewrite Nat.eqb_refl, Ai, Ais. ring. }
      assert (A1s : a1 (i + step) = rmul s x).
      { unfold a1, rbs. replace (i + step =? i) with false by (symmetry; apply Nat.eqb_neq; lia).
        rewrite Nat.eqb_refl, Ai, Ais. ring. }
      assert (A1o : forall q, q <> i -> q <> i + step -> a1 q = a q).
      { intros q H1 H2. unfold a1, rbs.
        replace (q =? i) with false by (symmetry; now apply Nat.eqb_neq).
        replace (q =? i + step) with false by (symmetry; now apply Nat.eqb_neq). reflexivity. }
      rewrite (IH angles L a1 Hs) by
        (try lia; try assumption;
         intros q Hq; rewrite A1o by (intros ->; contradiction);
         rewrite HA by (simpl; auto); simpl;
         replace (q =? i) with false by (symmetry; apply Nat.eqb_neq; intros ->; contradiction); reflexivity).
      destruct (Nat.eqb_spec p i) as [->|Ne1].
      + replace (existsb (Nat.eqb i) (children step idxs)) with false; [simpl; exact A1i|].
        symmetry. destruct (existsb _ _) eqn:E; [|reflexivity]. apply existsb_exists in E as [z [Hz E]].
        apply Nat.eqb_eq in E. subst. contradiction.
      + destruct (Nat.eqb_spec p (i + step)) as [->|Ne2].
        * replace (existsb (Nat.eqb (i + step)) (children step idxs)) with false; [simpl; exact A1s|].
          symmetry. destruct (existsb _ _) eqn:E; [|reflexivity]. apply existsb_exists in E as [z [Hz E]].
          apply Nat.eqb_eq in E. subst. contradiction.
        * simpl. unfold children. destruct (existsb (Nat.eqb p) (flat_map (fun i0 => [i0; i0 + step]) idxs)); [reflexivity|]. now apply A1o.
  Qed.

  (* all rows: tree_rows of Model.v gives the pairs; [levels] the amplitudes level by level *)
  Fixpoint run_rows (fuel step : nat) (idxs : list nat) (rows : list (list (R * R))) (a : nat -> R) : nat -> R :=
    match fuel, rows with
    | S f, row :: rows' =>
        if Nat.eqb step 0 then a
        else run_rows f (step / 2) (children step idxs) rows' (run_row step idxs row a)
    | _, _ => a
    end.
  Fixpoint leaves (fuel step : nat) (idxs : list nat) (rows : list (list (R * R))) : list nat :=
    match fuel, rows with
    | S f, _ :: rows' => if Nat.eqb step 0 then idxs else leaves f (step / 2) (children step idxs) rows'
    | _, _ => idxs
    end.
  Fixpoint levels (fuel step : nat) (rows : list (list (R * R))) (L : list R) : list R :=
    match fuel, rows with
    | S f, row :: rows' => if Nat.eqb step 0 then L else levels f (step / 2) rows' (step_level row L)
    | _, _ => L
    end.

  Lemma children_length step idxs : length (children step idxs) = 2 * length idxs.
  Proof. induction idxs; simpl; lia. Qed.

  Lemma step_level_length : forall angles L, length angles = length L -> length (step_level angles L) = 2 * length L.
  Proof. induction angles as [|[c s] an IH]; intros [|x L] H; simpl in *; try lia. rewrite IH; lia. Qed.

  Fixpoint rows_ok (m : nat) (rows : list (list (R * R))) : Prop :=
    match rows with [] => True | row :: rows' => length row = m /\ rows_ok (2 * m) rows' end.

  Theorem run_rows_spec : forall fuel step idxs rows L a,
    length L = length idxs -> rows_ok (length idxs) rows -> gap (2 * step) idxs ->
    (forall p, a p = amp_at idxs L p) ->
    forall p, run_rows fuel step idxs rows a p = amp_at (leaves fuel step idxs rows) (levels fuel step rows L) p.
  Proof.
    induction fuel as [|f IH]; intros step idxs rows L a LL RO G HA p; [simpl; apply HA|].
    destruct rows as [|row rows]; [simpl; apply HA|]. cbn [run_rows leaves levels].
    destruct (Nat.eqb_spec step 0) as [->|Ns]; [apply HA|].
    destruct RO as [LR RO].
    apply IH.
    - rewrite children_length, step_level_length; lia.
    - now rewrite children_length.
    - apply gap_mono with (g := step); [|apply gap_children; [lia | exact G]].
      pose proof (Nat.mul_div_le step 2 ltac:(lia)). lia.
    - intros q. rewrite (run_row_spec step idxs row L a) by (try lia; try assumption; intros; apply HA).
      destruct (existsb (Nat.eqb q) (children step idxs)) eqn:E; [reflexivity|].
      rewrite HA. rewrite !amp_at_notin; [reflexivity | |].
      + intros C. assert (X : existsb (Nat.eqb q) (children step idxs) = true)
          by (apply existsb_exists; exists q; split; [exact C | apply Nat.eqb_refl]). congruence.
      + intros C. assert (X : existsb (Nat.eqb q) (children step idxs) = true).
        { apply existsb_exists. exists q. split; [|apply Nat.eqb_refl].
          apply in_flat_map. exists q. split; [exact C | now left]. }
        congruence.
  Qed.

  (* the load equations level by level: norms of a level, its angles, norms of the next level *)
  Fixpoint level_loads (angles : list (R * R)) (N N' : list R) : Prop :=
    match angles, N, N' with
    | (c, s) :: an, x :: N1, y :: z :: N2 => rmul c x = y /\ rmul s x = z /\ level_loads an N1 N2
    | [], [], [] => True
    | _, _, _ => False
    end.

  (* a chain of levels from the root norm [N0] down to the data *)
  Fixpoint chain_loads (fuel step : nat) (rows : list (list (R * R))) (N : list R) (data : list R) : Prop :=
    match fuel, rows with
    | S f, row :: rows' =>
        if Nat.eqb step 0 then N = data
        else exists N', level_loads row N N' /\ chain_loads f (step / 2) rows' N' data
    | _, _ => N = data
    end.

  Lemma step_level_loads k r : forall angles L N N',
    level_loads angles N N' ->
    map (fun u => rmul u k) L = map (fun x => rmul x r) N ->
    map (fun u => rmul u k) (step_level angles L) = map (fun x => rmul x r) N'.
  Proof.
    induction angles as [|[c s] an IH]; intros L N N' H E.
    - destruct N; [|destruct H]. destruct N'; [|destruct H]. destruct L; [reflexivity | discriminate].
    - destruct N as [|x N]; [destruct H|]. destruct N' as [|y [|z N']]; [destruct H | destruct H |].
      destruct H as [H1 [H2 H3]]. destruct L as [|u L]; [discriminate|]. simpl in E. injection E as E1 E2.
      simpl. f_equal; [|f_equal; [|now apply (IH L N N')]].
      + rewrite <- H1. replace (rmul (rmul c u) k) with (rmul c (rmul u k)) by ring. rewrite E1. ring.
      + rewrite <- H2. replace (rmul (rmul s u) k) with (rmul s (rmul u k)) by ring. rewrite E1. ring.
  Qed.

  Theorem levels_loads k r : forall fuel step rows L N data,
    chain_loads fuel step rows N data ->
    map (fun u => rmul u k) L = map (fun x => rmul x r) N ->
    map (fun u => rmul u k) (levels fuel step rows L) = map (fun x => rmul x r) data.
  Proof.
    induction fuel as [|f IH]; intros step rows L N data H E; [simpl in *; now subst|].
    destruct rows as [|row rows]; [simpl in *; now subst|]. cbn [levels chain_loads] in *.
    destruct (step =? 0); [now subst|]. destruct H as [N' [H1 H2]].
    apply (IH _ _ _ N' data H2). now apply (step_level_loads k r row L N N').
  Qed.
  (* the gate list itself: rows of pairs as produced by Model.tree_rows, executed in order *)
  Fixpoint run_pair_row (pairs : list (nat * nat)) (angles : list (R * R)) (a : nat -> R) : nat -> R :=
    match pairs, angles with
    | (p0, p1) :: pairs', (c, s) :: angles' => run_pair_row pairs' angles' (rbs R radd rmul rsub p0 p1 c s a)
    | _, _ => a
    end.
  Fixpoint run_pair_rows (prows : list (list (nat * nat))) (rows : list (list (R * R))) (a : nat -> R) : nat -> R :=
    match prows, rows with
    | pr :: prows', row :: rows' => run_pair_rows prows' rows' (run_pair_row pr row a)
    | _, _ => a
    end.

  Lemma run_pair_row_eq step : forall idxs angles a,
    run_pair_row (map (fun i => (i, i + step)) idxs) angles a = run_row step idxs angles a.
  Proof.
    induction idxs as [|i idxs IH]; intros [|[c s] angles] a; simpl; try reflexivity. apply IH.
  Qed.

  Lemma children_eq step idxs :
    flat_map (fun p : nat * nat => [fst p; snd p]) (map (fun i => (i, i + step)) idxs) = children step idxs.
  Proof. induction idxs as [|i idxs IH]; simpl; [reflexivity | now rewrite IH]. Qed.

  Lemma run_pair_rows_eq n : forall fuel step idxs rows a,
    run_pair_rows (tree_rows fuel n step idxs) rows a = run_rows fuel step idxs rows a.
  Proof.
    induction fuel as [|f IH]; intros step idxs rows a; [destruct rows; reflexivity|].
    cbn [tree_rows run_rows]. destruct (step =? 0); [destruct rows; reflexivity|].
    destruct rows as [|row rows]; [reflexivity|]. cbn [run_pair_rows].
    rewrite run_pair_row_eq, children_eq. apply IH.
  Qed.

  (* unary_encoder(data, "tree"), ring level: executing the breadth-first gate list of Model.tree_rows on the
     unit amplitude r at position 0 leaves amplitudes Lf on the leaf positions (zero elsewhere) with
     Lf * N0 = data * r, whenever the angles satisfy the load equations level by level *)
  Theorem tree_bfs_loads fuel n (rows : list (list (R * R))) (N0 r : R) (data : list R) :
    rows_ok 1 rows ->
    chain_loads fuel (n / 2) rows [N0] data ->
    let a := run_pair_rows (tree_rows fuel n (n / 2) [0]) rows (fun p => if Nat.eqb p 0 then r else r0) in
    let Lf := levels fuel (n / 2) rows [r] in
    (forall p, a p = amp_at (leaves fuel (n / 2) [0] rows) Lf p) /\
    map (fun u => rmul u N0) Lf = map (fun x => rmul x r) data.
  Proof.
    intros RO CL a Lf. split.
    - intros p. unfold a. rewrite run_pair_rows_eq.
      apply (run_rows_spec fuel (n / 2) [0] rows [r]); try reflexivity; try assumption.
      + simpl. split; [intros y []| exact I].
    - apply (levels_loads N0 r fuel (n / 2) rows [r] [N0] data CL). simpl. f_equal. ring.
  Qed.
End Tree.
