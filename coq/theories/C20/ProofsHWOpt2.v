(* C20/ProofsHWOpt2.v : list facts for the optimised control sets: positions are strictly ascending, the
   insertion sort of Model.v reverses a strictly descending list, the shape of the optimisation mask. *)
From Coq Require Import List Bool Arith Lia.
From QV Require Import C20.Model C20.ProofsEhrlich C20.ProofsEhrlichG1 C20.ProofsEhrlichG3 C20.ProofsEhrlichG4.
Import ListNotations.

Fixpoint sasc (l : list nat) : Prop :=
  match l with [] => True | x :: l' => (forall y, In y l' -> x < y) /\ sasc l' end.

Lemma positions_sasc v : forall s i, sasc (positions v i s).
Proof.
  induction s as [|b s IH]; intros i; simpl; [exact I|].
  destruct (Bool.eqb b v); simpl; [|apply IH]. split; [|apply IH].
  intros y Hy. apply positions_ge in Hy. lia.
Qed.

Lemma filter_sasc P : forall l, sasc l -> sasc (filter P l).
Proof.
  induction l as [|x l IH]; intros H; simpl; [exact I|]. destruct H as [H1 H2].
  destruct (P x); simpl; [|now apply IH]. split; [|now apply IH].
  intros y Hy. apply filter_In in Hy as [Hy _]. now apply H1.
Qed.

Lemma sasc_NoDup : forall l, sasc l -> NoDup l.
Proof.
  induction l as [|x l IH]; intros H; [constructor|]. destruct H as [H1 H2]. constructor; [|now apply IH].
  intros C. specialize (H1 x C). lia.
Qed.

(* a strictly ascending list bounded below by b that contains b .. b+J-1 starts with them *)
Lemma sasc_prefix : forall J l b, sasc l -> (forall y, In y l -> b <= y) ->
  (forall p, b <= p < b + J -> In p l) -> firstn J l = seq b J /\ forall y, In y (skipn J l) -> b + J <= y.
Proof.
  induction J as [|J IH]; intros l b S LB C; simpl.
  - split; [reflexivity|]. intros y Hy. rewrite Nat.add_0_r. now apply LB.
  - destruct l as [|h l]; [exfalso; apply (C b); lia|]. destruct S as [S1 S2].
    assert (h = b).
    { destruct (C b ltac:(lia)) as [E|Hin]; [exact E|]. specialize (S1 b Hin). specialize (LB h (or_introl eq_refl)). lia. }
    subst h. destruct (IH l (S b) S2) as [E1 E2].
    + intros y Hy. specialize (S1 y Hy). lia.
    + intros p Hp. destruct (C p ltac:(lia)) as [E|Hin]; [lia | exact Hin].
    + split; [now rewrite E1|]. intros y Hy. specialize (E2 y Hy). lia.
Qed.

(* ---------------------------------------------------------------- sort *)
Lemma insert_max x : forall l, (forall y, In y l -> y < x) -> insert_sorted x l = l ++ [x].
Proof.
  induction l as [|y l IH]; intros H; simpl; [reflexivity|].
  replace (x <=? y) with false by (symmetry; apply Nat.leb_gt; apply H; now left).
  rewrite IH; [reflexivity|]. intros z Hz. apply H. now right.
Qed.

(* strictly descending: every element is larger than all later ones *)
Fixpoint sdesc (l : list nat) : Prop :=
  match l with [] => True | x :: l' => (forall y, In y l' -> y < x) /\ sdesc l' end.

Lemma sort_sdesc : forall l, sdesc l -> sort l = rev l.
Proof.
  induction l as [|x l IH]; intros H; [reflexivity|]. destruct H as [H1 H2].
  unfold sort in *. simpl. rewrite (IH H2). apply insert_max. intros y Hy. apply H1. now apply in_rev.
Qed.

Lemma map_mirror_sdesc n : forall l, sasc l -> (forall y, In y l -> y < n) -> sdesc (map (fun c => n - 1 - c) l).
Proof.
  induction l as [|x l IH]; intros S B; simpl; [exact I|]. destruct S as [S1 S2]. split.
  - intros y Hy. apply in_map_iff in Hy as [z [<- Hz]]. specialize (S1 z Hz). specialize (B z (or_intror Hz)). lia.
  - apply IH; [exact S2|]. intros y Hy. apply B. now right.
Qed.

(* ---------------------------------------------------------------- mask *)
Lemma mask_app {A} t J (a b : list A) : length a = t -> length b = J ->
  mask (repeat true t ++ repeat false J) (a ++ b) = a.
Proof.
  revert a. induction t as [|t IH]; intros a La Lb.
  - destruct a; [|discriminate]. simpl. clear La. revert b Lb. induction J as [|J IHJ]; intros [|x b] Lb; try discriminate; [reflexivity|].
    simpl. apply IHJ. now injection Lb.
  - destruct a as [|x a]; [discriminate|]. simpl. f_equal. apply IH; [now injection La | exact Lb].
Qed.

(* the mask of step k: indices I_j = binom (n-j) (w-j) - 1 for j = w-1 .. 1; entry j is true iff I_j <= k.
   The I_j decrease with j, so the mask is true^(w-1-J) false^J and I_J > k (if J >= 1) *)
Definition Iidx (n w j : nat) : nat := binom (n - j) (w - j) - 1.

Lemma binom_step_le N K : binom N K <= binom (S N) (S K).
Proof. simpl. lia. Qed.

Lemma Iidx_mono n w j j' : j <= j' -> j' <= w -> w <= n -> Iidx n w j' <= Iidx n w j.
Proof.
  intros H Hw Hn. unfold Iidx. induction H as [|j' H IH]; [lia|].
  specialize (IH ltac:(lia)).
  pose proof (binom_step_le (n - S j') (w - S j')) as B.
  replace (S (n - S j')) with (n - j') in B by lia. replace (S (w - S j')) with (w - j') in B by lia. lia.
Qed.

Definition Jk (n w k : nat) : nat := length (filter (fun j => k <? Iidx n w j) (seq 1 (w - 1))).

Lemma hw_indices_eq n w : hw_indices n w = map (Iidx n w) (rev (seq 1 (w - 1))).
Proof. reflexivity. Qed.

(* the set { j in 1..N : k < I_j } is an initial segment 1..J *)
Lemma Jk_spec n w k : w <= n ->
  forall N, N <= w ->
  let J := length (filter (fun j => k <? Iidx n w j) (seq 1 N)) in
  J <= N /\ (forall j, 1 <= j <= N -> ((k <? Iidx n w j) = true <-> j <= J)) /\
  map (fun j => Iidx n w j <=? k) (rev (seq 1 N)) = repeat true (N - J) ++ repeat false J.
Proof.
  intros Hn. induction N as [|N IH]; intros HN J.
  - simpl in *. repeat split; intros; try lia.
  - specialize (IH ltac:(lia)). cbv zeta in IH. destruct IH as [A [B C]].
    set (J0 := length (filter (fun j => k <? Iidx n w j) (seq 1 N))) in *.
    unfold J. rewrite seq_S, filter_app, app_length. fold J0. simpl (1 + N).
    rewrite rev_app_distr. cbn [rev app map filter].
    destruct (k <? Iidx n w (S N)) eqn:E.
    + (* the largest j is in the set: all are *)
      assert (J0 = N).
      { assert (AllIn : forall j, 1 <= j <= N -> j <= J0).
        { intros j Hj. apply B; [exact Hj|]. apply Nat.ltb_lt. apply Nat.ltb_lt in E.
          pose proof (Iidx_mono n w j (S N) ltac:(lia) HN Hn). lia. }
        destruct N as [|N']; [lia|]. specialize (AllIn (S N') ltac:(lia)). lia. }
      subst J0. simpl length. rewrite H in *. repeat split.
      * lia.
      * intros _. lia.
      * intros _. destruct (Nat.eq_dec j (S N)) as [->|Ne]; [exact E | apply B; lia].
      * replace (Iidx n w (S N) <=? k) with false by (symmetry; apply Nat.leb_gt; now apply Nat.ltb_lt).
        rewrite C. replace (N - N) with 0 by lia. replace (S N - (N + 1)) with 0 by lia. simpl.
        replace (N + 1) with (S N) by lia. reflexivity.
    + simpl length. rewrite Nat.add_0_r. repeat split.
      * lia.
      * intros Hj. destruct (Nat.eq_dec j (S N)) as [->|Ne]; [congruence | apply B; [lia | exact Hj]].
      * intros Hj. apply B; [lia | exact Hj].
      * replace (Iidx n w (S N) <=? k) with true by (symmetry; apply Nat.leb_le; apply Nat.ltb_ge in E; exact E).
        rewrite C. replace (S N - J0) with (S (N - J0)) by lia. reflexivity.
Qed.
