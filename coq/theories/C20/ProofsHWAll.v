(* C20/ProofsHWAll.v : the non-interference condition chain_ok of the Hamming-weight encoder for ALL n, with the
   full control sets (optimize_controls=False, the variant used inside binary_encoder):
   the controls of a move are the k-1 ones common to both strings, so a weight-k string on which the gate is
   active is one of the two; by ehrlich_enumerates the earlier strings are different from both.
   (Array coordinates: position p of the bit string; the circuit uses qubit n-1-p.) *)
From Coq Require Import List Bool Arith Lia Ring.
From QV Require Import C20.Model C20.Proofs C20.ProofsEhrlich C20.ProofsEhrlichG1 C20.ProofsEhrlichG2
                       C20.ProofsEhrlichG3 C20.ProofsEhrlichG4 C20.ProofsEhrlichG5 C20.ProofsHW.
Import ListNotations.

(* the controls reported by a move are exactly the positions holding a 1 before and after *)
Lemma next_controls s m e :
  next_bitstring s m = Some e ->
  e_controls e = filter (fun p => existsb (Nat.eqb p) (positions true 0 (e_string e))) (positions true 0 s).
Proof.
  unfold next_bitstring. destruct (max_true 0 m) as [mx|]; [|discriminate].
  match goal with |- match ?X with Some s' => _ | None => None end = _ -> _ => destruct X as [s'|]; [|discriminate] end.
  destruct (filter _ (positions true 0 s)) as [|o ro]; [discriminate|].
  destruct (filter _ (positions true 0 s')) as [|i ri]; [discriminate|].
  intros H. injection H as <-. reflexivity.
Qed.

Lemma controls_In s m e p :
  next_bitstring s m = Some e ->
  (In p (e_controls e) <-> (p < length s /\ nth p s false = true /\ nth p (e_string e) false = true)).
Proof.
  intros H. rewrite (next_controls s m e H), filter_In, positions_true.
  pose proof (next_bitstring_transposes s m e H) as T. apply transposes_weight in T as [_ L].
  split.
  - intros [[A B] C]. apply existsb_exists in C as [q [Hq E]]. apply Nat.eqb_eq in E. subst q.
    apply positions_true in Hq. tauto.
  - intros [A [B C]]. split; [tauto|]. apply existsb_exists. exists p. split; [|apply Nat.eqb_refl].
    apply positions_true. split; [lia | exact C].
Qed.

(* containment of the ones + equal weight = equality *)
Lemma weight_mono : forall a e : bits, length e = length a ->
  (forall p, nth p a false = true -> nth p e false = true) -> weight a <= weight e.
Proof.
  induction a as [|x a IH]; intros [|y e] L H; try discriminate; [reflexivity|].
  rewrite !weight_cons. injection L as L.
  specialize (IH e L (fun p Hp => H (S p) Hp)). pose proof (H 0) as H0. simpl in H0.
  destruct x, y; simpl; try lia; try (specialize (H0 eq_refl); discriminate).
Qed.

Lemma subset_weight_eq : forall a e : bits, length e = length a -> weight e = weight a ->
  (forall p, nth p a false = true -> nth p e false = true) -> e = a.
Proof.
  induction a as [|x a IH]; intros [|y e] L W H; try discriminate; [reflexivity|].
  rewrite !weight_cons in W. injection L as L.
  pose proof (weight_mono a e L (fun p Hp => H (S p) Hp)) as Mo.
  pose proof (H 0) as H0. simpl in H0.
  destruct x, y; simpl in W; try lia; try (specialize (H0 eq_refl); discriminate);
    (f_equal; apply IH; [exact L | lia | exact (fun p Hp => H (S p) Hp)]).
Qed.

Lemma set_nth_comm' {A} : forall a b (l : list A) u v, a <> b ->
  set_nth a u (set_nth b v l) = set_nth b v (set_nth a u l).
Proof.
  induction a as [|a IH]; intros [|b] [|x l] u v H; simpl; try reflexivity; try lia.
  f_equal. apply IH. lia.
Qed.

(* one step of chain_ok from the facts about a move *)
Lemma gate_ok_of_move n s m e earlier :
  next_bitstring s m = Some e -> length s = n ->
  (forall t, In t earlier -> length t = n /\ weight t = weight s /\ t <> s /\ t <> e_string e) ->
  gate_ok n (mkCG (e_out e) (e_in e) (e_controls e)) earlier s (e_string e) = true.
Proof.
  intros H Ls HE. pose proof (next_bitstring_transposes s m e H) as T.
  destruct T as [Lo [Li [Ne [So [Si Es']]]]].
  assert (T' : transposes s (e_string e) (e_out e) (e_in e)) by (unfold transposes; tauto).
  apply transposes_weight in T' as [Ws' Ls'].
  assert (S'o : nth (e_out e) (e_string e) false = false).
  { rewrite Es'. rewrite nth_set_nth by (rewrite set_nth_len; lia).
    replace (e_out e =? e_in e) with false by (symmetry; apply Nat.eqb_neq; lia).
    rewrite nth_set_nth by lia. now rewrite Nat.eqb_refl. }
  assert (S'i : nth (e_in e) (e_string e) false = true).
  { rewrite Es'. rewrite nth_set_nth by (rewrite set_nth_len; lia). now rewrite Nat.eqb_refl. }
  assert (S'other : forall p, p <> e_out e -> p <> e_in e -> nth p (e_string e) false = nth p s false).
  { intros p H1 H2. destruct (Nat.lt_ge_cases p (length s)) as [Lp|Lp].
    - rewrite Es'. rewrite nth_set_nth by (rewrite set_nth_len; lia).
      replace (p =? e_in e) with false by (symmetry; now apply Nat.eqb_neq).
      rewrite nth_set_nth by lia. replace (p =? e_out e) with false by (symmetry; now apply Nat.eqb_neq). reflexivity.
    - rewrite !nth_overflow by lia. reflexivity. }
  unfold gate_ok. cbn [g_in g_out g_ctrls].
  repeat (apply andb_true_iff; split).
  - apply Nat.ltb_lt. lia.
  - apply Nat.ltb_lt. lia.
  - apply negb_true_iff, Nat.eqb_neq. exact Ne.
  - apply negb_true_iff. destruct (existsb _ _) eqn:E; [|reflexivity]. apply existsb_exists in E as [q [Hq E]].
    apply Nat.eqb_eq in E. subst q. apply (controls_In s m e _ H) in Hq. destruct Hq as [_ [_ C]]. congruence.
  - apply negb_true_iff. destruct (existsb _ _) eqn:E; [|reflexivity]. apply existsb_exists in E as [q [Hq E]].
    apply Nat.eqb_eq in E. subst q. apply (controls_In s m e _ H) in Hq. destruct Hq as [_ [C _]]. congruence.
  - apply forallb_forall. intros q Hq. apply (controls_In s m e _ H) in Hq. tauto.
  - exact So.
  - now rewrite Si.
  - apply bits_eqb_eq. unfold swapbits. rewrite So, Si, Es'. apply set_nth_comm'. lia.
  - apply forallb_forall. intros t Ht. apply negb_true_iff.
    destruct (HE t Ht) as [Lt [Wt [N1 N2]]].
    destruct (active (e_out e) (e_in e) (e_controls e) t) eqn:Act; [|reflexivity]. exfalso.
    unfold active in Act. apply andb_true_iff in Act as [Ac Ad]. rewrite forallb_forall in Ac.
    apply negb_true_iff in Ad.
    assert (Ctl : forall p, p <> e_out e -> p <> e_in e -> nth p s false = true -> nth p t false = true).
    { intros p H1 H2 Hp. apply Ac. apply (controls_In s m e p H).
      destruct (Nat.lt_ge_cases p (length s)) as [Lp|Lp]; [|rewrite nth_overflow in Hp by lia; discriminate].
      repeat split; [lia | exact Hp | now rewrite S'other]. }
    destruct (nth (e_out e) t false) eqn:To, (nth (e_in e) t false) eqn:Ti; try discriminate.
    + (* t carries the one at out: t = s *)
      apply N1. apply subset_weight_eq; [lia | exact Wt |].
      intros p Hp. destruct (Nat.eq_dec p (e_out e)) as [->|H1]; [exact To|].
      destruct (Nat.eq_dec p (e_in e)) as [->|H2]; [congruence|]. now apply Ctl.
    + (* t carries the one at in: t = the new string *)
      apply N2. apply subset_weight_eq; [lia | lia |].
      intros p Hp. destruct (Nat.eq_dec p (e_in e)) as [->|H2]; [exact Ti|].
      destruct (Nat.eq_dec p (e_out e)) as [->|H1]; [congruence|].
      apply Ctl; try assumption. now rewrite <- S'other.
Qed.

Lemma NoDup_app_r {A} (l1 l2 : list A) : NoDup (l1 ++ l2) -> NoDup l2.
Proof. induction l1 as [|a l1 IH]; simpl; [auto|]. intros H. inversion H; subst. auto. Qed.

Definition cg_of (e : estep) : cgate := mkCG (e_out e) (e_in e) (e_controls e).

Lemma memb_false_iff t l : memb t l = false <-> ~ In t l.
Proof.
  split.
  - intros H C. apply memb_In in C. congruence.
  - intros H. destruct (memb t l) eqn:E; [|reflexivity]. apply memb_In in E. contradiction.
Qed.

Theorem chain_ok_of_walk n k : forall fuel s M es earlier,
  walk fuel s M = Some es ->
  length s = n -> weight s = k ->
  (forall t, In t earlier -> length t = n /\ weight t = k) ->
  NoDup (earlier ++ s :: map e_string es) ->
  chain_ok n earlier (s :: map e_string es) (map cg_of es) = true.
Proof.
  induction fuel as [|f IH]; intros s M es earlier W Ls Ws HE ND; simpl in W.
  - injection W as <-. simpl. now apply Nat.eqb_eq.
  - destruct (next_bitstring s M) as [e|] eqn:NB; [|discriminate].
    destruct (walk f (e_string e) (e_markers e)) as [es'|] eqn:W'; [|discriminate].
    injection W as <-. cbn [map chain_ok].
    pose proof (next_bitstring_transposes s M e NB) as T. apply transposes_weight in T as [We Le].
    assert (NDs : ~ In s earlier /\ ~ In (e_string e) earlier /\ s <> e_string e).
    { repeat split.
      - intros C. apply NoDup_remove_2 in ND. apply ND. apply in_or_app. now left.
      - intros C. apply in_split in C as [l1 [l2 ->]]. rewrite <- app_assoc in ND. simpl in ND.
        apply NoDup_remove_2 in ND. apply ND. apply in_or_app. right. apply in_or_app. right. right. now left.
      - intros C. apply NoDup_app_r in ND. rewrite C in ND. inversion ND as [|? ? Hn _]. apply Hn. now left. }
    destruct NDs as [N1 [N2 N3]].
    apply andb_true_iff; split; [apply andb_true_iff; split; [apply andb_true_iff; split|]|].
    + now apply Nat.eqb_eq.
    + apply (gate_ok_of_move n s M e earlier NB Ls). intros t Ht. destruct (HE t Ht) as [A B].
      repeat split; try lia; intros C; subst t; contradiction.
    + apply negb_true_iff. apply memb_false_iff. intros [C|C]; [now apply N3 | contradiction].
    + apply (IH (e_string e) (e_markers e) es' (s :: earlier) W'); try lia.
      * intros t [<-|Ht]; [split; assumption | now apply HE].
      * (* NoDup (s :: earlier ++ new :: rest) from NoDup (earlier ++ s :: new :: rest) *)
        cbn [app]. apply NoDup_cons.
        -- intros C. apply in_app_or in C as [C|C]; [contradiction|].
           apply NoDup_app_r in ND. inversion ND as [|? ? Hn _]; subst. contradiction.
        -- apply (NoDup_remove_1 earlier (e_string e :: map e_string es') s). exact ND.
Qed.

(* ---------------------------------------------------------------- Hamming-weight encoder, full controls, ALL n, ring level *)
Section HWAll.
  Variables (R : Type) (r0 r1 : R) (radd rmul rsub : R -> R -> R) (ropp : R -> R).
  Hypothesis Rring : ring_theory r0 r1 radd rmul rsub ropp (@eq R).

  Theorem hw_all_n x j y :
    let n := x + j + y in
    let s0 := cf x j y in
    exists es, walk (binom n j - 1) s0 (markers0 s0) = Some es /\
      NoDup (s0 :: map e_string es) /\
      (forall t, In t (s0 :: map e_string es) <-> (length t = n /\ weight t = j)) /\
      forall (cs : list (R * R)) (r : R), length cs = length es ->
      forall t, length t = n ->
        run_hw R radd rmul rsub (map cg_of es) cs (fun u => if bits_eqb s0 u then r else r0) t
        = amp_of_list R r0 (rev (combine (s0 :: map e_string es) (spread R rmul cs r))) t.
  Proof.
    intros n s0.
    destruct (markers0_ok s0) as [LM OK]. unfold s0 in LM. rewrite cf_length in LM.
    destruct (main_all n x j y eq_refl [] (markers0 s0) LM OK) as [es [W [_ [F [ND [C _]]]]]].
    simpl app in *. fold s0 in W, F, ND, C.
    exists es. split; [exact W|]. split; [exact ND|]. split.
    - intros t. split.
      + intros H. rewrite Forall_forall in F. destruct (F t H) as [u [-> [Lu Wu]]]. simpl.
        unfold s0 in Lu. rewrite cf_length in Lu. now split.
      + intros [Lt Wt]. apply (C t); [unfold s0; now rewrite cf_length | exact Wt].
    - intros cs r LC t Lt.
      assert (CO : chain_ok n [] (s0 :: map e_string es) (map cg_of es) = true).
      { apply (chain_ok_of_walk n j (binom n j - 1) s0 (markers0 s0) es [] W).
        - unfold s0. apply cf_length.
        - unfold s0. apply cf_weight.
        - intros u [].
        - exact ND. }
      pose proof (run_hw_spec R r0 r1 radd rmul rsub ropp Rring n (map cg_of es) cs (s0 :: map e_string es) [] []
                              (fun u => if bits_eqb s0 u then r else r0) r CO) as S.
      rewrite app_nil_r in S. apply S; try assumption.
      + now rewrite map_length.
      + reflexivity.
      + intros b Hb. injection Hb as <-. intros u Lu. reflexivity.
  Qed.
End HWAll.
