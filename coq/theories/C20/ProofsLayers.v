(* C20/ProofsLayers.v : entangling_layer (all architectures) and phase_encoder, for all n. *)
From Coq Require Import List Bool Arith Lia Permutation.
From QV Require Import C20.Model.
Import ListNotations.

Definition pair_ok (n : nat) (pq : nat * nat) : Prop := fst pq < n /\ snd pq < n /\ fst pq <> snd pq.

Lemma nn_pairs_length n : length (nn_pairs n) = n - 1.
Proof. unfold nn_pairs. now rewrite map_length, seq_length. Qed.

Lemma nn_pairs_nth n i : i < n - 1 -> nth i (nn_pairs n) (0, 0) = (i, S i).
Proof.
  intros H. unfold nn_pairs.
  change (0, 0) with ((fun q => (q, S q - S q)) 0).
  rewrite (nth_indep _ _ ((fun q => (q, S q)) 0)) by (now rewrite map_length, seq_length).
  rewrite (map_nth (fun q => (q, S q))), seq_nth by lia. reflexivity.
Qed.

Lemma nn_pairs_ok n pq : In pq (nn_pairs n) -> pair_ok n pq.
Proof.
  unfold nn_pairs. intros H. apply in_map_iff in H as [q [<- Hq]]. apply in_seq in Hq. unfold pair_ok. simpl. lia.
Qed.

Lemma succ_pairs_ok n l pq : (forall q, In q l -> q < n - 1) -> In pq (map (fun q => (q, S q)) l) -> pair_ok n pq.
Proof. intros B H. apply in_map_iff in H as [q [<- Hq]]. specialize (B q Hq). unfold pair_ok. simpl. lia. Qed.

Lemma firstn_In_incl {A} : forall k (l : list A) x, In x (firstn k l) -> In x l.
Proof. induction k as [|k IH]; intros [|y l] x H; simpl in *; try tauto. destruct H; [now left | right; now apply IH]. Qed.

Lemma filter_seq_lt P m q : In q (filter P (seq 0 m)) -> q < m.
Proof. intros H. apply filter_In in H as [H _]. apply in_seq in H. lia. Qed.

(* every gate of every architecture acts on two distinct qubits of the register *)
Theorem ent_pairs_ok a n closed : 2 <= n -> forall pq, In pq (ent_pairs a n closed) -> pair_ok n pq.
Proof.
  intros Hn pq H.
  assert (BD : In pq (if closed then [(n - 1, 0)] else []) -> pair_ok n pq).
  { destruct closed; [|intros []]. intros [<-|[]]. unfold pair_ok. simpl. lia. }
  destruct a; cbn [ent_pairs] in H; try (apply in_app_or in H as [H|H]; [|now apply BD]).
  - now apply nn_pairs_ok.
  - apply (succ_pairs_ok n _ pq (fun q Hq => filter_seq_lt _ _ q Hq) H).
  - apply (succ_pairs_ok n _ pq (fun q Hq => filter_seq_lt _ _ q Hq) H).
  - apply (succ_pairs_ok n (evens (n - 1) ++ odds (n - 1))); [|exact H].
    intros q Hq. apply in_app_or in Hq as [Hq|Hq]; now apply filter_seq_lt in Hq.
  - apply in_map_iff in H as [q [<- Hq]]. apply in_seq in Hq. unfold pair_ok. simpl. lia.
  - apply in_app_or in H as [H|H]; [now apply nn_pairs_ok|].
    apply in_flat_map in H as [k [_ H]]. apply nn_pairs_ok. eapply firstn_In_incl. exact H.
  - apply in_app_or in H as [H|H]; [now apply nn_pairs_ok|].
    apply nn_pairs_ok. apply in_rev. destruct (rev (nn_pairs n)); [destruct H | now right].
  - assert (NT : forall i, i < n - 1 -> pair_ok n (nth i (nn_pairs n) (0, 0))).
    { intros i Hi. rewrite nn_pairs_nth by exact Hi. unfold pair_ok. simpl. lia. }
    assert (M : (n - 1) / 2 < n - 1) by (apply Nat.div_lt; lia).
    apply in_app_or in H as [H|H]; [|apply in_app_or in H as [H|H]].
    + apply in_flat_map in H as [i [Hi H]]. apply in_seq in Hi. destruct H as [<-|[<-|[]]]; apply NT; lia.
    + destruct H as [<-|[]]. apply NT. exact M.
    + apply in_flat_map in H as [i [Hi H]]. apply in_seq in Hi.
      pose proof (Nat.mul_div_le (n - 1) 2 ltac:(lia)).
      destruct H as [<-|[<-|[]]]; apply NT; lia.
Qed.

Lemma filter_partition_perm {A} (f : A -> bool) : forall l, Permutation (filter f l ++ filter (fun x => negb (f x)) l) l.
Proof.
  induction l as [|x l IH]; simpl; [constructor|]. destruct (f x); simpl.
  - now constructor.
  - apply Permutation_sym, Permutation_cons_app, Permutation_sym. exact IH.
Qed.

(* "shifted" applies the same gates as "diagonal", even pairs first *)
Theorem ent_shifted_perm n closed : Permutation (ent_pairs AShifted n closed) (ent_pairs ADiagonal n closed).
Proof.
  cbn [ent_pairs]. apply Permutation_app_tail. unfold nn_pairs. apply Permutation_map.
  unfold evens, odds. rewrite (filter_ext Nat.odd (fun x => negb (Nat.even x))) by (intros x; now rewrite Nat.negb_even).
  apply filter_partition_perm.
Qed.

Theorem ent_lengths n : 2 <= n ->
  length (ent_pairs ADiagonal n false) = n - 1 /\ length (ent_pairs ADiagonal n true) = n /\
  length (ent_pairs ANextNearest n false) = n - 2 /\ length (ent_pairs AV n false) = 2 * (n - 1) - 1.
Proof.
  intros H. cbn [ent_pairs]. rewrite !app_length, !nn_pairs_length, map_length, seq_length. simpl length.
  repeat split; try lia.
  assert (L : length (tl (rev (nn_pairs n))) = n - 2).
  { pose proof (rev_length (nn_pairs n)) as R. rewrite nn_pairs_length in R. destruct (rev (nn_pairs n)); simpl in *; lia. }
  rewrite L. lia.
Qed.

(* phase_encoder: gate number q is the rotation of qubit q by data[q] *)
Lemma combine_seq_nth {D} : forall (data : list D) k q d,
  nth_error (combine (seq k (length data)) data) q = Some (k + q, d) <-> nth_error data q = Some d.
Proof.
  induction data as [|x data IH]; intros k q d; simpl.
  - destruct q; split; discriminate.
  - destruct q as [|q]; simpl.
    + rewrite Nat.add_0_r. split; intros H; injection H as <-; reflexivity.
    + rewrite <- (IH (S k) q d). replace (S k + q) with (k + S q) by lia. reflexivity.
Qed.

Theorem phase_gates_spec {D} (data : list D) q d :
  nth_error (phase_gates data) q = Some (q, d) <-> nth_error data q = Some d.
Proof. unfold phase_gates. exact (combine_seq_nth data 0 q d). Qed.

Lemma phase_gates_length {D} (data : list D) : length (phase_gates data) = length data.
Proof. unfold phase_gates. rewrite combine_length, seq_length. lia. Qed.

(* ---------------------------------------------------------------- binary_encoder (hopf): every rotation is fully controlled *)
Lemma bits_of_nat_length : forall m x, length (bits_of_nat m x) = m.
Proof. induction m as [|m IH]; intros x; simpl; [reflexivity|]. rewrite app_length, IH. simpl. lia. Qed.

Lemma positions_partition : forall (s : bits) i,
  Permutation (positions true i s ++ positions false i s) (seq i (length s)).
Proof.
  induction s as [|b s IH]; intros i; simpl; [constructor|]. specialize (IH (S i)). destruct b; simpl.
  - now constructor.
  - apply Permutation_sym, Permutation_cons_app, Permutation_sym. exact IH.
Qed.

(* hopf_gate n lvl j = X on the anticontrols, RY(lvl) controlled by ALL other qubits (those holding 1 in j as
   controls, the others -- including every qubit below lvl -- as anticontrols), X on the anticontrols again:
   the gate acts on the single pair of basis states |j 0 0..0> , |j 1 0..0> *)
Theorem hopf_gate_shape n lvl j : lvl < n ->
  exists anti ctrl,
    hopf_gate n lvl j = map (fun q => (0, [q])) anti ++ [(1, lvl :: sort (ctrl ++ anti))] ++ map (fun q => (0, [q])) anti /\
    Permutation (ctrl ++ anti) (seq 0 lvl ++ seq (S lvl) (n - S lvl)).
Proof.
  intros H. unfold hopf_gate.
  exists (positions false 0 (bits_of_nat lvl j) ++ seq (S lvl) (n - S lvl)), (positions true 0 (bits_of_nat lvl j)).
  split; [reflexivity|]. rewrite app_assoc. apply Permutation_app_tail.
  pose proof (positions_partition (bits_of_nat lvl j) 0) as P. now rewrite bits_of_nat_length in P.
Qed.

