(* C20/ProofsAssoc.v : (A B) V = A (B V) for the list matrices of Base/Mat.v (any shapes; [] is the zero
   vector of any length), identity . column = column, and hence: the column x of the PRODUCT matrix
   circ_mat (QFT n) is the DFT column. *)
From Coq Require Import List Bool Arith Lia Ring.
From QV Require Import Base.Mat C20.Model C20.Proofs C20.ProofsQFT C20.ProofsPS C20.ProofsQFTMat.
Import ListNotations.

Section Assoc.
  Variables (T : Type) (t0 t1 : T) (tadd tmul tsub : T -> T -> T) (topp : T -> T).
  Hypothesis Tring : ring_theory t0 t1 tadd tmul tsub topp (@eq T).
  Add Ring TR3 : Tring.
  Let K := KT T t0 t1 tadd tmul.

  Lemma vadd_nil_r (u : vec T) : vadd K u [] = u.
  Proof. destruct u; reflexivity. Qed.

  Lemma vadd_comm : forall u v : vec T, vadd K u v = vadd K v u.
  Proof.
    induction u as [|x u IH]; intros [|y v]; simpl; try reflexivity.
    rewrite IH. f_equal. ring.
  Qed.

  Lemma vadd_assoc : forall u v w : vec T, vadd K u (vadd K v w) = vadd K (vadd K u v) w.
  Proof.
    induction u as [|x u IH]; intros [|y v] [|z w]; simpl; try reflexivity.
    rewrite IH. f_equal. ring.
  Qed.

  Lemma vscale_vadd c : forall u v : vec T, vscale K c (vadd K u v) = vadd K (vscale K c u) (vscale K c v).
  Proof.
    induction u as [|x u IH]; intros [|y v]; simpl; try reflexivity.
    rewrite IH. f_equal. ring.
  Qed.

  Lemma vscale_add_l x y : forall c : vec T, vscale K (tadd x y) c = vadd K (vscale K x c) (vscale K y c).
  Proof. induction c as [|z c IH]; simpl; [reflexivity|]. rewrite IH. f_equal. ring. Qed.

  Lemma vscale_vscale x y : forall c : vec T, vscale K x (vscale K y c) = vscale K (tmul x y) c.
  Proof. induction c as [|z c IH]; simpl; [reflexivity|]. rewrite IH. f_equal. ring. Qed.

  Lemma vadd_swap (a b c d : vec T) : vadd K (vadd K a b) (vadd K c d) = vadd K (vadd K a c) (vadd K b d).
  Proof.
    rewrite <- (vadd_assoc a b), (vadd_assoc b c d), (vadd_comm b c), <- (vadd_assoc c b d), vadd_assoc.
    reflexivity.
  Qed.

  Lemma rowmul_vadd : forall (u v : vec T) (V : mat T),
    rowmul K (vadd K u v) V = vadd K (rowmul K u V) (rowmul K v V).
  Proof.
    induction u as [|x u IH]; intros [|y v] V; simpl.
    - reflexivity.
    - reflexivity.
    - now rewrite vadd_nil_r.
    - destruct V as [|c V]; [reflexivity|].
      rewrite IH, vscale_add_l, vadd_swap. reflexivity.
  Qed.

  Lemma rowmul_vscale x : forall (b : vec T) (V : mat T),
    rowmul K (vscale K x b) V = vscale K x (rowmul K b V).
  Proof.
    induction b as [|y b IH]; intros [|c V]; simpl; try reflexivity.
    rewrite IH, vscale_vadd, vscale_vscale. reflexivity.
  Qed.

  Lemma rowmul_assoc : forall (r : vec T) (B V : mat T),
    rowmul K (rowmul K r B) V = rowmul K r (mmul K B V).
  Proof.
    induction r as [|x r IH]; intros [|b B] V; simpl; try reflexivity.
    rewrite rowmul_vadd, rowmul_vscale, IH. reflexivity.
  Qed.

  Theorem mmul_assoc (A B V : mat T) : mmul K (mmul K A B) V = mmul K A (mmul K B V).
  Proof. unfold mmul. rewrite map_map. apply map_ext. intros r. apply rowmul_assoc. Qed.

  (* identity times a column *)
  Lemma midentity_col n f :
    mmul K (midentity K n) (col T (bvec T n f)) = col T (bvec T n f).
  Proof.
    unfold mmul, midentity. rewrite map_map.
    change (col T (bvec T n f)) with (map (fun x => [x]) (map f (allbits n))) at 2.
    rewrite map_map. apply map_ext_in. intros r Hr.
    rewrite (rowmul_col T t0 t1 tadd tmul tsub topp Tring).
    - f_equal. unfold bvec. rewrite (vdot_map T t0 tadd tmul).
      pose proof (bsum_delta T t0 t1 tadd tmul tsub topp Tring n r (fun c => tmul t1 (f c)) (allbits_len n r Hr)) as D.
      unfold bsum in D. rewrite <- (Tring.(Rmul_1_l) (f r)), <- D. f_equal. apply map_ext. intros c.
      destruct (beqb r c); simpl; ring.
    - unfold bvec. now rewrite !map_length.
    - intros E. apply map_eq_nil in E. now apply (allbits_nonempty n).
  Qed.

  (* the product matrix applied to a column = the gate matrices applied one after the other *)
  Variables (h : T) (e : nat -> T) (n : nat).

  Definition to_gapp (g : qgate) : gapp T :=
    match g with
    | QH q => ([], [q], [[h; h]; [h; topp h]])
    | QCU1 c t k => ([], [c; t], cphaseM T t0 t1 (e (2 ^ (n - 1 - k))))
    | QSWAP a b => ([], [a; b], swapM T t0 t1)
    end.

  Lemma gmat_to_gapp g : gmat K n (to_gapp g) = gate_mat T t0 t1 tadd tmul topp h e n g.
  Proof. destruct g; reflexivity. Qed.

  Lemma circ_mat_apply : forall gs U V,
    mmul K (fold_left (fun U g => mmul K (gmat K n g) U) (map to_gapp gs) U) V =
    apply_gates T t0 t1 tadd tmul topp h e n gs (mmul K U V).
  Proof.
    induction gs as [|g gs IH]; intros U V; simpl; [reflexivity|].
    rewrite IH, mmul_assoc, gmat_to_gapp. reflexivity.
  Qed.

  Theorem circ_mat_column gs f :
    mmul K (circ_mat K n (map to_gapp gs)) (col T (bvec T n f)) =
    apply_gates T t0 t1 tadd tmul topp h e n gs (col T (bvec T n f)).
  Proof. unfold circ_mat. rewrite circ_mat_apply, midentity_col. reflexivity. Qed.
End Assoc.

(* column x of the product matrix of QFT(n) is the DFT column, for all n >= 1 *)
Theorem qft_circ_mat_column :
  forall (T : Type) (t0 t1 : T) (tadd tmul tsub : T -> T -> T) (topp : T -> T),
  ring_theory t0 t1 tadd tmul tsub topp (@eq T) ->
  forall (h : T) (e : nat -> T),
  e 0 = t1 -> (forall a b, e (a + b) = tmul (e a) (e b)) ->
  forall x : bits, let n := length x in
  1 <= n -> e (2 ^ (n - 1)) = topp t1 ->
  mmul (KT T t0 t1 tadd tmul)
       (circ_mat (KT T t0 t1 tadd tmul) n (map (to_gapp T t0 t1 topp h e n) (qft n true)))
       (col T (bvec T n (fun c => if beqb x c then t1 else t0)))
  = col T (bvec T n (fun y => tmul (tpow T t1 tmul h n) (e (qphase n x 0 * qphase n y 0)))).
Proof.
  intros T t0 t1 tadd tmul tsub topp Tring h e e0 eadd x n Hn ehalf.
  rewrite (circ_mat_column T t0 t1 tadd tmul tsub topp Tring h e n).
  apply (qft_matrix_column T t0 t1 tadd tmul tsub topp Tring h e e0 eadd x Hn ehalf).
Qed.

Theorem qft_circ_mat_column_noswap :
  forall (T : Type) (t0 t1 : T) (tadd tmul tsub : T -> T -> T) (topp : T -> T),
  ring_theory t0 t1 tadd tmul tsub topp (@eq T) ->
  forall (h : T) (e : nat -> T),
  e 0 = t1 -> (forall a b, e (a + b) = tmul (e a) (e b)) ->
  forall x : bits, let n := length x in
  1 <= n -> e (2 ^ (n - 1)) = topp t1 ->
  mmul (KT T t0 t1 tadd tmul)
       (circ_mat (KT T t0 t1 tadd tmul) n (map (to_gapp T t0 t1 topp h e n) (qft n false)))
       (col T (bvec T n (fun c => if beqb x c then t1 else t0)))
  = col T (bvec T n (fun y => tmul (tpow T t1 tmul h n) (e (qphase n x 0 * rev_value n y)))).
Proof.
  intros T t0 t1 tadd tmul tsub topp Tring h e e0 eadd x n Hn ehalf.
  rewrite (circ_mat_column T t0 t1 tadd tmul tsub topp Tring h e n).
  apply (qft_matrix_column_noswap T t0 t1 tadd tmul tsub topp Tring h e e0 eadd x Hn ehalf).
Qed.
