(* C20/ProofsHWOpt3.v : mirror symmetry (array position p <-> qubit n-1-p) of the chain condition, and facts about
   the controls of a move needed to evaluate the optimisation mask. *)
From Coq Require Import List Bool Arith Lia.
From QV Require Import C20.Model C20.Proofs C20.ProofsEhrlich C20.ProofsEhrlichG1 C20.ProofsEhrlichG3 C20.ProofsEhrlichG4
                       C20.ProofsHW C20.ProofsHWAll C20.ProofsHWOpt2.
Import ListNotations.

Definition mir (n p : nat) : nat := n - 1 - p.
Definition mgate (n : nat) (g : cgate) : cgate :=
  mkCG (mir n (g_in g)) (mir n (g_out g)) (rev (map (mir n) (g_ctrls g))).

Lemma nth_rev_mir (b : bits) p : p < length b -> nth (mir (length b) p) (rev b) false = nth p b false.
Proof.
  intros H. unfold mir. rewrite rev_nth by lia. f_equal. lia.
Qed.

Lemma forallb_rev {A} (f : A -> bool) l : forallb f (rev l) = forallb f l.
Proof.
  destruct (forallb f l) eqn:E.
  - apply forallb_forall. intros x Hx. rewrite forallb_forall in E. apply E. apply in_rev. exact Hx.
  - destruct (forallb f (rev l)) eqn:E'; [|reflexivity]. rewrite forallb_forall in E'.
    assert (forallb f l = true) by (apply forallb_forall; intros x Hx; apply E'; apply -> in_rev; exact Hx). congruence.
Qed.

Lemma forallb_map {A B} (g : A -> B) (f : B -> bool) l : forallb f (map g l) = forallb (fun x => f (g x)) l.
Proof. induction l as [|x l IH]; simpl; [reflexivity | now rewrite IH]. Qed.

Lemma existsb_mir n q l : q < n -> (forall c, In c l -> c < n) ->
  existsb (Nat.eqb (mir n q)) (rev (map (mir n) l)) = existsb (Nat.eqb q) l.
Proof.
  intros Hq Hl. destruct (existsb (Nat.eqb q) l) eqn:E.
  - apply existsb_exists in E as [c [Hc E]]. apply Nat.eqb_eq in E. subst c.
    apply existsb_exists. exists (mir n q). split; [|apply Nat.eqb_refl]. apply in_rev. rewrite rev_involutive. now apply in_map.
  - destruct (existsb _ (rev _)) eqn:E'; [|reflexivity]. apply existsb_exists in E' as [c [Hc E']].
    apply Nat.eqb_eq in E'. apply in_rev in Hc. apply in_map_iff in Hc as [z [Ez Hz]].
    assert (z = q) by (specialize (Hl z Hz); unfold mir in *; lia). subst z.
    assert (existsb (Nat.eqb q) l = true) by (apply existsb_exists; exists q; split; [exact Hz | apply Nat.eqb_refl]). congruence.
Qed.

Lemma active_mir n i o cs (b : bits) :
  length b = n -> i < n -> o < n -> (forall c, In c cs -> c < n) ->
  active (mir n i) (mir n o) (rev (map (mir n) cs)) (rev b) = active i o cs b.
Proof.
  intros L Hi Ho Hc. unfold active. subst n. rewrite !nth_rev_mir by assumption. f_equal.
  rewrite forallb_rev, forallb_map. apply forallb_ext_in'. intros c Hc'. apply nth_rev_mir. now apply Hc.
Qed.

Lemma swapbits_mir (b : bits) i o : i < length b -> o < length b ->
  swapbits (mir (length b) i) (mir (length b) o) (rev b) = rev (swapbits i o b).
Proof.
  intros Hi Ho. apply bits_ext; [rewrite swapbits_length; rewrite rev_length; rewrite rev_length; rewrite swapbits_length; reflexivity|].
  intros p. destruct (Nat.lt_ge_cases p (length b)) as [Lp|Lp].
  2:{ rewrite !nth_overflow; [reflexivity | rewrite rev_length, swapbits_length; lia | rewrite swapbits_length, rev_length; lia]. }
  rewrite swapbits_nth by (rewrite rev_length; unfold mir; lia).
  rewrite !nth_rev_mir by assumption.
  rewrite (rev_nth (swapbits i o b)) by (rewrite swapbits_length; lia). rewrite swapbits_length.
  rewrite swapbits_nth by assumption.
  unfold mir.
  destruct (Nat.eqb_spec p (length b - 1 - i)) as [E1|E1].
  - replace (length b - S p =? i) with true by (symmetry; apply Nat.eqb_eq; lia). reflexivity.
  - replace (length b - S p =? i) with false by (symmetry; apply Nat.eqb_neq; lia).
    destruct (Nat.eqb_spec p (length b - 1 - o)) as [E2|E2].
    + replace (length b - S p =? o) with true by (symmetry; apply Nat.eqb_eq; lia). reflexivity.
    + replace (length b - S p =? o) with false by (symmetry; apply Nat.eqb_neq; lia).
      rewrite rev_nth by lia. reflexivity.
Qed.

Lemma bits_eqb_rev a b : bits_eqb (rev a) (rev b) = bits_eqb a b.
Proof.
  destruct (bits_eqb a b) eqn:E.
  - apply bits_eqb_eq in E. subst. now apply bits_eqb_eq.
  - destruct (bits_eqb (rev a) (rev b)) eqn:E'; [|reflexivity]. apply bits_eqb_eq in E'.
    assert (a = b) by (rewrite <- (rev_involutive a), E', rev_involutive; reflexivity).
    subst. assert (bits_eqb b b = true) by now apply bits_eqb_eq. congruence.
Qed.

Lemma memb_rev t l : memb (rev t) (map (@rev bool) l) = memb t l.
Proof.
  unfold memb. induction l as [|x l IH]; simpl; [reflexivity|]. now rewrite bits_eqb_rev, IH.
Qed.

Lemma gate_ok_mir n g earlier b b' :
  length b = n -> (forall t, In t earlier -> length t = n) -> (forall c, In c (g_ctrls g) -> c < n) ->
  gate_ok n g earlier b b' = true ->
  gate_ok n (mgate n g) (map (@rev bool) earlier) (rev b) (rev b') = true.
Proof.
  intros Lb Le Hc OK. unfold gate_ok in *. cbn [mgate g_in g_out g_ctrls].
  repeat (apply andb_true_iff in OK as [OK ?]).
  rename H into He, H0 into Hb', H1 into Ho, H2 into Hi, H3 into Hcb, H4 into Hco, H5 into Hci, H6 into Hne, H7 into Lo.
  apply Nat.ltb_lt in OK, Lo.
  assert (A1 : (mir n (g_in g) <? n) = true) by (apply Nat.ltb_lt; unfold mir; lia).
  assert (A2 : (mir n (g_out g) <? n) = true) by (apply Nat.ltb_lt; unfold mir; lia).
  assert (A3 : negb (mir n (g_in g) =? mir n (g_out g)) = true).
  { apply negb_true_iff, Nat.eqb_neq. apply negb_true_iff, Nat.eqb_neq in Hne. unfold mir. lia. }
  rewrite A1, A2, A3, !existsb_mir by assumption. rewrite Hci, Hco.
  subst n. rewrite !nth_rev_mir by assumption. rewrite Hi, Ho.
  rewrite forallb_rev, forallb_map.
  rewrite (forallb_ext_in' _ (fun q => nth q b false)) by (intros c Hc'; apply nth_rev_mir; now apply Hc).
  rewrite Hcb. rewrite swapbits_mir by assumption. rewrite bits_eqb_rev, Hb'. simpl.
  rewrite forallb_map. rewrite (forallb_ext_in' _ (fun e => negb (active (g_in g) (g_out g) (g_ctrls g) e))); [exact He|].
  intros t Ht. f_equal. apply active_mir; try assumption; try reflexivity. now apply Le.
Qed.

Lemma chain_ok_mir n : forall bs gs earlier,
  (forall t, In t earlier -> length t = n) ->
  Forall (fun g => forall c, In c (g_ctrls g) -> c < n) gs ->
  chain_ok n earlier bs gs = true ->
  chain_ok n (map (@rev bool) earlier) (map (@rev bool) bs) (map (mgate n) gs) = true.
Proof.
  induction bs as [|b bs IH]; intros gs earlier Le Fc OK; [discriminate|].
  destruct bs as [|b' bs].
  - destruct gs; [|discriminate]. simpl in *. now rewrite rev_length.
  - destruct gs as [|g gs]; [discriminate|]. cbn [chain_ok] in OK.
    apply andb_true_iff in OK as [OK R]. apply andb_true_iff in OK as [OK Fr]. apply andb_true_iff in OK as [Lb GO].
    apply Nat.eqb_eq in Lb. inversion Fc as [|? ? Fg Fgs]; subst.
    cbn [map chain_ok].
    rewrite rev_length, Nat.eqb_refl.
    rewrite (gate_ok_mir (length b) g earlier b b' eq_refl Le Fg GO).
    change (rev b :: map (@rev bool) earlier) with (map (@rev bool) (b :: earlier)).
    rewrite memb_rev, Fr. simpl.
    apply (IH gs (b :: earlier)); try assumption.
    intros t [<-|Ht]; [reflexivity | now apply Le].
Qed.

(* ---------------------------------------------------------------- the controls of a move *)
Lemma positions_length_weight : forall s i, length (positions true i s) = weight s.
Proof.
  induction s as [|b s IH]; intros i; [reflexivity|]. simpl. rewrite app_length, IH, weight_cons.
  destruct b; reflexivity.
Qed.

Lemma filter_remove_one o : forall l, NoDup l -> In o l ->
  length (filter (fun p => negb (p =? o)) l) = length l - 1.
Proof.
  induction l as [|x l IH]; intros N H; [destruct H|]. inversion N as [|? ? Nx Nl]; subst. simpl.
  destruct (Nat.eqb_spec x o) as [->|Ne]; simpl.
  - rewrite filter_id_forall; [lia|]. intros y Hy. apply negb_true_iff, Nat.eqb_neq. intros ->. contradiction.
  - destruct H as [->|H]; [congruence|]. rewrite (IH Nl H). destruct l; [destruct H | simpl; lia].
Qed.

Lemma controls_facts s m e :
  next_bitstring s m = Some e ->
  sasc (e_controls e) /\ (forall c, In c (e_controls e) -> c < length s) /\ length (e_controls e) = weight s - 1.
Proof.
  intros H. pose proof (next_bitstring_transposes s m e H) as T.
  rewrite (next_controls s m e H). split; [|split].
  - apply filter_sasc, positions_sasc.
  - intros c Hc. apply filter_In in Hc as [Hc _]. apply positions_true in Hc. tauto.
  - destruct T as [Lo [Li [Ne [So [Si Es']]]]].
    rewrite (filter_ext_in _ (fun p => negb (p =? e_out e))).
    + rewrite filter_remove_one; [now rewrite positions_length_weight | apply sasc_NoDup, positions_sasc |].
      apply positions_true. now split.
    + intros p Hp. apply positions_true in Hp as [Lp Sp].
      destruct (Nat.eqb_spec p (e_out e)) as [->|Np]; simpl.
      * destruct (existsb _ _) eqn:E; [|reflexivity]. apply existsb_exists in E as [q [Hq E]].
        apply Nat.eqb_eq in E. subst q. apply positions_true in Hq as [_ Hq].
        rewrite Es' in Hq. rewrite nth_set_nth in Hq by (rewrite set_nth_len; lia).
        replace (e_out e =? e_in e) with false in Hq by (symmetry; apply Nat.eqb_neq; lia).
        rewrite nth_set_nth in Hq by lia. rewrite Nat.eqb_refl in Hq. discriminate.
      * apply existsb_exists. exists p. split; [|apply Nat.eqb_refl]. apply positions_true.
        rewrite Es', !set_nth_len. split; [exact Lp|].
        rewrite nth_set_nth by (rewrite set_nth_len; lia).
        destruct (p =? e_in e); [reflexivity|]. rewrite nth_set_nth by lia.
        replace (p =? e_out e) with false by (symmetry; now apply Nat.eqb_neq). exact Sp.
Qed.

Lemma walk_nth : forall f s M es i e,
  walk f s M = Some es -> nth_error es i = Some e ->
  exists M', next_bitstring (nth i (s :: map e_string es) []) M' = Some e.
Proof.
  induction f as [|f IH]; intros s M es i e W Hi; simpl in W.
  - injection W as <-. destruct i; discriminate.
  - destruct (next_bitstring s M) as [e0|] eqn:NB; [|discriminate].
    destruct (walk f (e_string e0) (e_markers e0)) as [es'|] eqn:W'; [|discriminate].
    injection W as <-. destruct i as [|i].
    + injection Hi as <-. exists M. exact NB.
    + simpl in Hi. destruct (IH _ _ _ i e W' Hi) as [M' H]. exists M'. exact H.
Qed.
